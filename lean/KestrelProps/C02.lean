/-
  C02 — Password mode: the right password decrypts, a wrong one is rejected with nothing written (pure level).

  * `C02_roundtrip` / `C02_roundtrip_concrete`: all passwords (including the empty one), all 32-byte salts, every
    read schedule.  For the concrete primitives the 32-byte output length of scrypt is proved, not assumed.
  * `C02_wrong_password` (*reduction*): for the honest file `F` under password `w` and ANY password `w'`, decryption
    with `w'` either writes nothing and reports the authentication error, or one of two named bad events occurred:
      – KDF collision on these two passwords: `P.kdf w' salt = P.kdf w salt`;
      – cross-key open for this named pair of keys: record 0, sealed under `P.kdf w salt`, opens under the
        different key `P.kdf w' salt`.
    (`w' ≠ w` is not needed as a hypothesis: for `w' = w` the first bad event holds trivially.)
  * `C02_password_only_via_kdf` (outright): the password influences decryption only through `P.kdf pw salt`.
  The non-cryptographic content — the key is the only thing derived from the password, the first thing done with it
  is the AEAD check of record 0, nothing is written before that check — is `decryptChunks_other_key`.
-/
import KestrelProofs.Strict
import KestrelProps.C01
namespace Kestrel
open Generated

/-- **C02 (round trip, generic).** -/
theorem C02_roundtrip (P : Prims) (hA : P.aead.Lawful) (pw salt : Bytes) (reads : List Bytes)
    (hsalt : salt.length = 32) (hkdf : (P.kdf pw salt).length = 32)
    (hwf : wellFormedReads reads) (hle : ∀ c ∈ reads, c.length ≤ chunkSize) :
    ∃ ct, passEncrypt P pw salt reads = (ct, .ok) ∧
      (∃ writes, passDecrypt P pw ct = (writes, .ok) ∧ writes.flatten = reads.flatten) ∧
      ct.length = 36 + 32 * (fileChunks reads).length + reads.flatten.length := by
  obtain ⟨ct, henc, hdec, hlen⟩ := passDecrypt_passEncrypt P hA pw salt reads hsalt hkdf hwf hle
  exact ⟨ct, henc, ⟨_, hdec, fileChunks_join reads hwf⟩, by omega⟩

/-- scrypt with dkLen = 32 returns 32 bytes: the final PBKDF2 call produces one HMAC-SHA-256 block -/
theorem concrete_kdf_length (pw salt : Bytes) : (concretePrims.kdf pw salt).length = 32 := by
  show (Scrypt.Spec.scrypt pw salt scryptN scryptR scryptP 32).length = 32
  unfold Scrypt.Spec.scrypt
  simp only []
  generalize Scrypt.Spec.roMixAll scryptN scryptR scryptP (pbkdf2Sha256 pw salt 1 (scryptP * 128 * scryptR)) = X
  show ((pbkdf2Blocks pw X 1 1 1).take 32).length = 32
  simp only [pbkdf2Blocks, pbkdf2Block, List.append_nil, List.length_take]
  show min 32 (pbkdf2Block.go pw 0 (hmacSha256 pw (X ++ natBE 4 1)) (hmacSha256 pw (X ++ natBE 4 1))).length = 32
  rw [pbkdf2Block.go, hmacSha256_length]
  rfl

/-- **C02 (round trip, concrete model).**  No hypothesis on the KDF: every password, including the empty one. -/
theorem C02_roundtrip_concrete (pw salt : Bytes) (reads : List Bytes)
    (hsalt : salt.length = 32) (hwf : wellFormedReads reads) (hle : ∀ c ∈ reads, c.length ≤ chunkSize) :
    ∃ ct, passEncrypt concretePrims pw salt reads = (ct, .ok) ∧
      (∃ writes, passDecrypt concretePrims pw ct = (writes, .ok) ∧ writes.flatten = reads.flatten) ∧
      ct.length = 36 + 32 * (fileChunks reads).length + reads.flatten.length :=
  C02_roundtrip concretePrims chapolyNoise_lawful pw salt reads hsalt (concrete_kdf_length pw salt) hwf hle

/-- **C02 (wrong password; reduction).**  `ad0`/`body0` are the associated data and body of record 0 of the honest
    stream (`KestrelProofs/Strict.lean`). -/
theorem C02_wrong_password (P : Prims) (hA : P.aead.Lawful) (w w' salt : Bytes) (reads : List Bytes)
    (hsalt : salt.length = 32) (hkdf : (P.kdf w salt).length = 32)
    (hwf : wellFormedReads reads) (hle : ∀ c ∈ reads, c.length ≤ chunkSize)
    (ws : List Bytes) (res : Res) (h : passDecrypt P w' (passEncrypt P w salt reads).1 = (ws, res)) :
    (ws = [] ∧ res = .auth) ∨
    P.kdf w' salt = P.kdf w salt ∨
    (P.kdf w' salt ≠ P.kdf w salt ∧
      ∃ p, P.aead.dec (P.kdf w' salt) 0 (ad0 encPassMagic (fileChunks reads))
             (body0 P.aead (P.kdf w salt) encPassMagic (fileChunks reads)) = some p) := by
  by_cases hkeq : P.kdf w' salt = P.kdf w salt
  · exact Or.inr (Or.inl hkeq)
  cases hd : P.aead.dec (P.kdf w' salt) 0 (ad0 encPassMagic (fileChunks reads))
      (body0 P.aead (P.kdf w salt) encPassMagic (fileChunks reads)) with
  | some p => exact Or.inr (Or.inr ⟨hkeq, p, rfl⟩)
  | none =>
    left
    rw [passEncrypt_eq_serialize P w salt reads hwf] at h
    simp only [] at h
    have hm : (encPassMagic ++ salt ++ serialize P.aead (P.kdf w salt) encPassMagic be64 0 (fileChunks reads)).take 4
        = encPassMagic := by
      rw [List.append_assoc]; exact List.take_left' gen_passmagic_len
    have hl : 36 ≤ (encPassMagic ++ salt ++
        serialize P.aead (P.kdf w salt) encPassMagic be64 0 (fileChunks reads)).length := by
      simp only [List.length_append, gen_passmagic_len, hsalt]; omega
    have hs : ((encPassMagic ++ salt ++ serialize P.aead (P.kdf w salt) encPassMagic be64 0 (fileChunks reads)).drop 4).take 32
        = salt := by
      rw [List.append_assoc, List.drop_left' gen_passmagic_len]; exact List.take_left' hsalt
    have hb : (encPassMagic ++ salt ++ serialize P.aead (P.kdf w salt) encPassMagic be64 0 (fileChunks reads)).drop 36
        = serialize P.aead (P.kdf w salt) encPassMagic be64 0 (fileChunks reads) :=
      List.drop_left' (by simp only [List.length_append, gen_passmagic_len, hsalt])
    rw [passDecrypt_body P w' _ hm hl, hs, hb,
      decryptChunks_other_key P.aead (P.kdf w salt) (P.kdf w' salt) encPassMagic chunkSize be64 (fileChunks reads)
        (fun n ad p => hA.enc_length _ n ad p hkdf) rfl (fileChunks_ne_nil reads)
        (fileChunks_le reads chunkSize hle) gen_chunkSize_lt hd] at h
    simp only [Prod.mk.injEq] at h
    exact ⟨h.1.symm, h.2.symm⟩

/-- **C02 (the password enters only through the KDF; outright).**  For every file: two passwords with the same
    derived key (for the salt stored in that file) give the same decryption. -/
theorem C02_password_only_via_kdf (P : Prims) (w w' F : Bytes)
    (h : P.kdf w' ((F.drop 4).take 32) = P.kdf w ((F.drop 4).take 32)) :
    passDecrypt P w' F = passDecrypt P w F := by
  rw [passDecrypt_unfold, passDecrypt_unfold, h]

/-! ### non-vacuity -/

/-- toy primitives whose AEAD tag depends on the key (first 16 key bytes), so that a wrong key is *rejected* -/
def keyedAead : Aead where
  enc k _ _ p := p ++ (k ++ zeros 16).take 16
  dec k _ _ c := if c.length < 16 then none else
    if c.drop (c.length - 16) = (k ++ zeros 16).take 16 then some (c.take (c.length - 16)) else none

theorem keyedAead_lawful : keyedAead.Lawful where
  dec_enc := by
    intro k n ad p _
    have hl : ((k ++ zeros 16).take 16).length = 16 := by simp [zeros]
    simp only [keyedAead, List.length_append, hl]
    rw [if_neg (by omega)]
    simp
  enc_length := by intro k n ad p _; simp [keyedAead, zeros]
  dec_sound := by
    intro k n ad c p _ h
    simp only [keyedAead] at h ⊢
    split at h
    · simp at h
    · split at h
      · rename_i h16 hz
        simp only [Option.some.injEq] at h
        rw [← h, ← hz, List.take_append_drop]
      · simp at h

def keyedPrims : Prims := { toyPrims with aead := keyedAead }

def pwReads : List Bytes := [[1,2,3], [4], []]

theorem pwReads_wf : wellFormedReads pwReads := by
  refine ⟨fun h => absurd h (by decide), fun _ => ⟨fun h => absurd h (by decide), fun _ => ⟨fun _ => rfl, fun _ => trivial⟩⟩⟩

theorem pwReads_le : ∀ c ∈ pwReads, c.length ≤ chunkSize := by decide

theorem keyed_kdf_length (pw salt : Bytes) : (keyedPrims.kdf pw salt).length = 32 := by
  simp [keyedPrims, toyPrims, zeros]; omega

/-- hypotheses of `C02_roundtrip` are satisfiable — with the empty password -/
example : ∃ ct, passEncrypt keyedPrims [] (zeros 32) pwReads = (ct, .ok) ∧
    (∃ writes, passDecrypt keyedPrims [] ct = (writes, .ok) ∧ writes.flatten = pwReads.flatten) ∧
    ct.length = 36 + 32 * (fileChunks pwReads).length + pwReads.flatten.length :=
  C02_roundtrip keyedPrims keyedAead_lawful [] (zeros 32) pwReads (by decide) (keyed_kdf_length _ _) pwReads_wf pwReads_le

/-- `C02_roundtrip_concrete`: empty password, hypotheses satisfiable (nothing is evaluated) -/
example := C02_roundtrip_concrete [] (zeros 32) pwReads (by decide) pwReads_wf pwReads_le

/-- hypotheses of `C02_wrong_password` are satisfiable -/
example (ws : List Bytes) (res : Res)
    (h : passDecrypt keyedPrims [2] (passEncrypt keyedPrims [1] (zeros 32) pwReads).1 = (ws, res)) :=
  C02_wrong_password keyedPrims keyedAead_lawful [1] [2] (zeros 32) pwReads (by decide) (keyed_kdf_length _ _)
    pwReads_wf pwReads_le ws res h

/-- first disjunct occurs: with a key-dependent AEAD the wrong password is rejected, nothing written … -/
example : passDecrypt keyedPrims [2] (passEncrypt keyedPrims [1] (zeros 32) pwReads).1 = ([], .auth) := by decide
/-- … the right one is accepted … -/
example : passDecrypt keyedPrims [1] (passEncrypt keyedPrims [1] (zeros 32) pwReads).1 = ([[1,2,3],[4]], .ok) := by decide
/-- … second disjunct (KDF collision) can occur: the toy KDF truncates `pw ++ salt` to 32 bytes, so two passwords
    that differ only after byte 32 collide, and the "wrong" password decrypts … -/
example : passDecrypt keyedPrims (zeros 32 ++ [2]) (passEncrypt keyedPrims (zeros 32 ++ [1]) (zeros 32) pwReads).1
    = ([[1,2,3],[4]], .ok) := by decide
/-- … third disjunct (cross-key open) can occur: the toy AEAD of C01 ignores its key, so a wrong password with a
    different derived key still opens record 0.  Neither bad event can be dropped from the statement. -/
example : toyPrims.kdf [2] (zeros 32) ≠ toyPrims.kdf [1] (zeros 32) ∧
    passDecrypt toyPrims [2] (passEncrypt toyPrims [1] (zeros 32) pwReads).1 = ([[1,2,3],[4]], .ok) := by decide

/-- hypothesis of `C02_password_only_via_kdf` is satisfiable with two different passwords -/
example (F : Bytes) : passDecrypt keyedPrims (zeros 32 ++ [2]) F = passDecrypt keyedPrims (zeros 32 ++ [1]) F :=
  C02_password_only_via_kdf keyedPrims _ _ F (by
    show (((zeros 32 ++ [2]) ++ (F.drop 4).take 32) ++ zeros 32).take 32 = (((zeros 32 ++ [1]) ++ (F.drop 4).take 32) ++ zeros 32).take 32
    simp only [List.append_assoc]
    rw [List.take_left' (by decide), List.take_left' (by decide)])

end Kestrel
