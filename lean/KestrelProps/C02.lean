/-
  C02 — Password mode: the right password decrypts, a wrong one is rejected with nothing written (pure level).

  * `C02_roundtrip` / `C02_roundtrip_concrete`: all passwords (including the empty one), all 32-byte salts, every
    read schedule.  For the concrete primitives the 32-byte output length of scrypt is proved, not assumed.
  * `C02_wrong_password` (*reduction*): for the honest file `F` under password `w` and ANY password `w'`, decryption
    with `w'` either writes nothing and reports the authentication error, or one of two named bad events occurred:
      – KDF collision on these two passwords: `P.kdf w' salt = P.kdf w salt`;
      – cross-key open for this named pair of keys: record 0, sealed under `P.kdf w salt`, opens under the
        different key `P.kdf w' salt`.
    (`w' ≠ w` is not needed as a hypothesis: for `w' = w` the first bad event holds trivially.)
  * `C02_password_only_via_kdf` (outright): the password influences decryption only through `P.kdf pw salt`.
  The non-cryptographic content — the key is the only thing derived from the password, the first thing done with it
  is the AEAD check of record 0, nothing is written before that check — is `decryptChunks_other_key`.
-/
import KestrelProofs.Strict
import KestrelProps.C01
namespace Kestrel
open Generated

/-- **C02 (round trip, generic).** -/
theorem C02_roundtrip (P : Prims) (hA : P.aead.Lawful) (pw salt : Bytes) (reads : List Bytes)
    (hsalt : salt.length = 32) (hkdf : (P.kdf pw salt).length = 32)
    (hwf : wellFormedReads reads) (hle : ∀ c ∈ reads, c.length ≤ chunkSize) :
    ∃ ct, passEncrypt P pw salt reads = (ct, .ok) ∧
      (∃ writes, passDecrypt P pw ct = (writes, .ok) ∧ writes.flatten = reads.flatten) ∧
      ct.length = 36 + 32 * (fileChunks reads).length + reads.flatten.length := by
  obtain ⟨ct, henc, hdec, hlen⟩ := passDecrypt_passEncrypt P hA pw salt reads hsalt hkdf hwf hle
  exact ⟨ct, henc, ⟨_, hdec, fileChunks_join reads hwf⟩, by omega⟩

/-- scrypt with dkLen = 32 returns 32 bytes: the final PBKDF2 call produces one HMAC-SHA-256 block -/
theorem concrete_kdf_length (pw salt : Bytes) : (concretePrims.kdf pw salt).length = 32 := by
  show (Scrypt.Spec.scrypt pw salt scryptN scryptR scryptP 32).length = 32
  unfold Scrypt.Spec.scrypt
  simp only []
  generalize Scrypt.Spec.roMixAll scryptN scryptR scryptP (pbkdf2Sha256 pw salt 1 (scryptP * 128 * scryptR)) = X
  show ((pbkdf2Blocks pw X 1 1 1).take 32).length = 32
  simp only [pbkdf2Blocks, pbkdf2Block, List.append_nil, List.length_take]
  show min 32 (pbkdf2Block.go pw 0 (hmacSha256 pw (X ++ natBE 4 1)) (hmacSha256 pw (X ++ natBE 4 1))).length = 32
  rw [pbkdf2Block.go, hmacSha256_length]
  rfl

/-- **C02 (round trip, concrete model).**  No hypothesis on the KDF: every password, including the empty one. -/
theorem C02_roundtrip_concrete (pw salt : Bytes) (reads : List Bytes)
    (hsalt : salt.length = 32) (hwf : wellFormedReads reads) (hle : ∀ c ∈ reads, c.length ≤ chunkSize) :
    ∃ ct, passEncrypt concretePrims pw salt reads = (ct, .ok) ∧
      (∃ writes, passDecrypt concretePrims pw ct = (writes, .ok) ∧ writes.flatten = reads.flatten) ∧
      ct.length = 36 + 32 * (fileChunks reads).length + reads.flatten.length :=
  C02_roundtrip concretePrims chapolyNoise_lawful pw salt reads hsalt (concrete_kdf_length pw salt) hwf hle

/-- **C02 (wrong password; reduction).**  `ad0`/`body0` are the associated data and body of record 0 of the honest
    stream (`KestrelProofs/Strict.lean`). -/
theorem C02_wrong_password (P : Prims) (hA : P.aead.Lawful) (w w' salt : Bytes) (reads : List Bytes)
    (hsalt : salt.length = 32) (hkdf : (P.kdf w salt).length = 32)
    (hwf : wellFormedReads reads) (hle : ∀ c ∈ reads, c.length ≤ chunkSize)
    (ws : List Bytes) (res : Res) (h : passDecrypt P w' (passEncrypt P w salt reads).1 = (ws, res)) :
    (ws = [] ∧ res = .auth) ∨
    P.kdf w' salt = P.kdf w salt ∨
    (P.kdf w' salt ≠ P.kdf w salt ∧
      ∃ p, P.aead.dec (P.kdf w' salt) 0 (ad0 encPassMagic (fileChunks reads))
             (body0 P.aead (P.kdf w salt) encPassMagic (fileChunks reads)) = some p) := by
  by_cases hkeq : P.kdf w' salt = P.kdf w salt
  · exact Or.inr (Or.inl hkeq)
  cases hd : P.aead.dec (P.kdf w' salt) 0 (ad0 encPassMagic (fileChunks reads))
      (body0 P.aead (P.kdf w salt) encPassMagic (fileChunks reads)) with
  | some p => exact Or.inr (Or.inr ⟨hkeq, p, rfl⟩)
  | none =>
    left
    rw [passEncrypt_eq P w salt reads hwf] at h
    simp only [] at h
    have hm : (encPassMagic ++ salt ++ serialize P.aead (P.kdf w salt) encPassMagic be64 0 (fileChunks reads)).take 4
        = encPassMagic := by
      rw [List.append_assoc]; exact List.take_left' gen_passmagic_len
    have hl : 36 ≤ (encPassMagic ++ salt ++
        serialize P.aead (P.kdf w salt) encPassMagic be64 0 (fileChunks reads)).length := by
      simp only [List.length_append, gen_passmagic_len, hsalt]; omega
    have hs : ((encPassMagic ++ salt ++ serialize P.aead (P.kdf w salt) encPassMagic be64 0 (fileChunks reads)).drop 4).take 32
        = salt := by
      rw [List.append_assoc, List.drop_left' gen_passmagic_len]; exact List.take_left' hsalt
    have hb : (encPassMagic ++ salt ++ serialize P.aead (P.kdf w salt) encPassMagic be64 0 (fileChunks reads)).drop 36
        = serialize P.aead (P.kdf w salt) encPassMagic be64 0 (fileChunks reads) :=
      List.drop_left' (by simp only [List.length_append, gen_passmagic_len, hsalt])
    rw [passDecrypt_body P w' _ hm hl, hs, hb,
      decryptChunks_other_key P.aead (P.kdf w salt) (P.kdf w' salt) encPassMagic chunkSize be64 (fileChunks reads)
        (fun n ad p => hA.enc_length _ n ad p hkdf) rfl (fileChunks_ne_nil reads)
        (fileChunks_le reads chunkSize hle) gen_chunkSize_lt hd] at h
    simp only [Prod.mk.injEq] at h
    exact ⟨h.1.symm, h.2.symm⟩

/-- **C02 (the password enters only through the KDF; outright).**  For every file: two passwords with the same
    derived key (for the salt stored in that file) give the same decryption. -/
theorem C02_password_only_via_kdf (P : Prims) (w w' F : Bytes)
    (h : P.kdf w' ((F.drop 4).take 32) = P.kdf w ((F.drop 4).take 32)) :
    passDecrypt P w' F = passDecrypt P w F := by
  rw [passDecrypt_unfold, passDecrypt_unfold, h]

end Kestrel
