/-
  CliStreamSrc — the four streaming commands of `src/cli/src/commands.rs` (`encrypt`, `decrypt`, `pass_encrypt`,
  `pass_decrypt`, with `open_input`, `open_output` and `OnDemandFile`), *as translated mechanically* by
  tools/rs2lean_cli.py, against the hand-written model `runEncrypt`, `runDecrypt`, `runPassEncrypt`, `runPassDecrypt`
  (KestrelModel/Cli.lean).

  These are PARTIAL statements, and deliberately so.  The library functions that stream the data
  (`kestrel_crypto::encrypt::{key_encrypt, pass_encrypt}`, `decrypt::{key_decrypt, pass_decrypt}`) are generic over
  `Read` / `Write` and are handed trait objects (`Box<dyn Read>`: a file or standard input; `Box<dyn Write>`: the translated
  `OnDemandFile` or standard output).  Giving them a meaning here would need more hand-written glue than the commands are
  long (the library would have to drive the translated `OnDemandFile::write` / `flush`), so they are a PARAMETER `lib` of the
  translated commands, and everything below holds for any behaviour of these four functions.  What is proved for each command:

    * it fails before the library call in exactly the situations in which the model does (`…Prefix … = .error c`: same
      file for input and output, missing input file, keyring trouble, key not found / not decodable / without private key,
      no password, unlock failure), and then the process state is returned UNCHANGED with an `Err` (so: nothing printed,
      no file created or touched — the model's `fail w c`, exit code 1 through `main`);
    * otherwise it calls the library function exactly once, with a reader over the model's input, the writer for the
      model's output argument (`OnDemandFile { path, handle: None }` — nothing created yet — or standard output), and
      the model's keys / password / salt; the process state at the call differs from the initial one only on standard error
      (and in the randomness drawn, for `pass_encrypt`);
    * after the call it only writes to standard error, and returns `Ok(())` exactly when the library function succeeded.

  What is NOT covered HERE: what the library call does to the world (that is the subject of the library-level translation,
  KestrelProps/StreamSrc.lean, over scripted readers and writers), hence no statement "translated command = runDecrypt" in this
  file.  The two halves are composed in KestrelProps/CliFullSrc.lean (`cli_source_full_decrypt` …, `cli_source_full_program`):
  the statements below, instantiated at the library `CliSrc.streamLib` built from the translated stream functions.
  (`gen_key` and `ask_user_stderr` are in KestrelProps/CliGenKeySrc.lean.)
  Views (KestrelProofs/CliStreamSrc.lean): `readerOf` / `writerOf` — the reader / writer built for an input / output
  argument; `readerContent w r` — the bytes the reader stands for in world `w`; `SameButStderr a b` — equal process states
  up to standard error and the count of random draws (same files, same standard input and position in it); `passPrefix`, `decryptPrefix`, `encryptPrefix` — the model's
  commands up to the library call (`cli_model_*` below tie them to `runPassDecrypt` …).
  Hypothesis `1 ≤ sys.fuel`: one round of the unlock / confirmation `loop`, which is all the code needs without a terminal.
-/
import KestrelProofs.CliStreamSrc
import KestrelProps.CliCmdSrc
namespace Kestrel
open CliSrc RsCli Cli
open Kestrel.Keyring (Str)

/-! ## helpers -/

/-- **open_input.** The process state is unchanged; a named file must exist (the model's `openInput`), and the reader
    obtained stands for the model's input bytes. -/
theorem cli_source_open_input (sys : Sys) (inf : Option Str) :
    (CliSrc.commands.open_input sys inf).1 = sys ∧
    match Cli.openInput sys.world inf with
    | .ok input => (CliSrc.commands.open_input sys inf).2 = .ok (readerOf inf) ∧ readerContent sys.world (readerOf inf) = input
    | .error _ => ∃ e, (CliSrc.commands.open_input sys inf).2 = .error e :=
  open_input_spec sys inf

/-- **open_output** for binary data, no terminal: never fails and creates nothing — a named output is an `OnDemandFile`
    whose file is not created yet. -/
theorem cli_source_open_output (outf : Option Str) :
    CliSrc.commands.open_output outf false = .ok (writerOf outf) :=
  open_output_binary outf

example : CliSrc.commands.open_output (some (str "out.bin")) false = .ok (.OnDemandFile ⟨str "out.bin", none⟩) :=
  cli_source_open_output _

/-! ## the four commands -/

/-- **decrypt.** -/
theorem cli_source_decrypt (lib : StreamLib DynRead CliSrc.DynWrite) (sys : Sys) (o : CliSrc.commands.DecryptOptions)
    (hf : 1 ≤ sys.fuel) :
    match decryptPrefix sys.world o.infile o.to o.outfile o.keyring o.env_pass with
    | .error _ => ∃ err, CliSrc.commands.decrypt lib sys o = (sys, .error err)
    | .ok (input, _, sk, pk) =>
      readerContent sys.world (readerOf o.infile) = input ∧
      ∃ sys1, SameButStderr sys sys1 ∧
        SameButStderr (lib.key_decrypt sys1 (readerOf o.infile) (writerOf o.outfile) ⟨sk⟩ ⟨pk⟩ .V1).1
          (CliSrc.commands.decrypt lib sys o).1 ∧
        ((∃ spk, (lib.key_decrypt sys1 (readerOf o.infile) (writerOf o.outfile) ⟨sk⟩ ⟨pk⟩ .V1).2.2.2 = .ok spk) →
          (CliSrc.commands.decrypt lib sys o).2 = .ok ()) ∧
        (∀ e, (lib.key_decrypt sys1 (readerOf o.infile) (writerOf o.outfile) ⟨sk⟩ ⟨pk⟩ .V1).2.2.2 = .error e →
          ∃ err, (CliSrc.commands.decrypt lib sys o).2 = .error err) :=
  decrypt_spec lib sys o hf

/-- **encrypt.** -/
theorem cli_source_encrypt (lib : StreamLib DynRead CliSrc.DynWrite) (sys : Sys) (o : CliSrc.commands.EncryptOptions)
    (hf : 1 ≤ sys.fuel) :
    match encryptPrefix sys.world o.infile o.to o.from o.outfile o.keyring o.env_pass with
    | .error _ => ∃ err, CliSrc.commands.encrypt lib sys o = (sys, .error err)
    | .ok (input, rpk, sk, spk) =>
      readerContent sys.world (readerOf o.infile) = input ∧
      ∃ sys1, SameButStderr sys sys1 ∧
        SameButStderr (lib.key_encrypt sys1 (readerOf o.infile) (writerOf o.outfile) ⟨sk⟩ ⟨spk⟩ ⟨rpk⟩ none none none .V1).1
          (CliSrc.commands.encrypt lib sys o).1 ∧
        ((lib.key_encrypt sys1 (readerOf o.infile) (writerOf o.outfile) ⟨sk⟩ ⟨spk⟩ ⟨rpk⟩ none none none .V1).2.2.2 = .ok () →
          (CliSrc.commands.encrypt lib sys o).2 = .ok ()) ∧
        (∀ e, (lib.key_encrypt sys1 (readerOf o.infile) (writerOf o.outfile) ⟨sk⟩ ⟨spk⟩ ⟨rpk⟩ none none none .V1).2.2.2 = .error e →
          ∃ err, (CliSrc.commands.encrypt lib sys o).2 = .error err) :=
  encrypt_spec lib sys o hf

/-- **pass_decrypt.** -/
theorem cli_source_pass_decrypt (lib : StreamLib DynRead CliSrc.DynWrite) (sys : Sys) (o : CliSrc.commands.PasswordOptions) :
    match passPrefix sys.world o.infile o.outfile o.env_pass with
    | .error _ => ∃ err, CliSrc.commands.pass_decrypt lib sys o = (sys, .error err)
    | .ok (input, pw) =>
      readerContent sys.world (readerOf o.infile) = input ∧
      ∃ sys1, SameButStderr sys sys1 ∧
        SameButStderr (lib.pass_decrypt sys1 (readerOf o.infile) (writerOf o.outfile) pw .V1).1 (CliSrc.commands.pass_decrypt lib sys o).1 ∧
        ((lib.pass_decrypt sys1 (readerOf o.infile) (writerOf o.outfile) pw .V1).2.2.2 = .ok () →
          (CliSrc.commands.pass_decrypt lib sys o).2 = .ok ()) ∧
        (∀ e, (lib.pass_decrypt sys1 (readerOf o.infile) (writerOf o.outfile) pw .V1).2.2.2 = .error e →
          ∃ err, (CliSrc.commands.pass_decrypt lib sys o).2 = .error err) :=
  pass_decrypt_spec lib sys o

/-- **pass_encrypt** (the salt is the first value of the process's randomness). -/
theorem cli_source_pass_encrypt (lib : StreamLib DynRead CliSrc.DynWrite) (sys : Sys) (o : CliSrc.commands.PasswordOptions)
    (hf : 1 ≤ sys.fuel) (hd : sys.draws = 0) :
    match passPrefix sys.world o.infile o.outfile o.env_pass with
    | .error _ => ∃ err, CliSrc.commands.pass_encrypt lib sys o = (sys, .error err)
    | .ok (input, pw) =>
      readerContent sys.world (readerOf o.infile) = input ∧
      ∃ sys1, SameButStderr sys sys1 ∧
        SameButStderr (lib.pass_encrypt sys1 (readerOf o.infile) (writerOf o.outfile) pw sys.rnd.a .V1).1
          (CliSrc.commands.pass_encrypt lib sys o).1 ∧
        ((lib.pass_encrypt sys1 (readerOf o.infile) (writerOf o.outfile) pw sys.rnd.a .V1).2.2.2 = .ok () →
          (CliSrc.commands.pass_encrypt lib sys o).2 = .ok ()) ∧
        (∀ e, (lib.pass_encrypt sys1 (readerOf o.infile) (writerOf o.outfile) pw sys.rnd.a .V1).2.2.2 = .error e →
          ∃ err, (CliSrc.commands.pass_encrypt lib sys o).2 = .error err) :=
  pass_encrypt_spec lib sys o hf hd

/-! ## the prefixes are the model's -/

/-- the model's `runPassDecrypt` is `passPrefix`, then the library-level model and the delivery of its output -/
theorem cli_model_pass_decrypt (P : Prims) (w : World) (inf outf : Option Str) (e : Bool) :
    Cli.runPassDecrypt P w inf outf e =
      match passPrefix w inf outf e with
      | .error c => Cli.fail w c
      | .ok (input, pw) =>
        let (res, _, k) := passDecryptIO P pw { inp := input } {}
        let (w', out) := Cli.deliver w outf k
        if res = .ok then { exit := 0, world := w', stdout := out }
        else { exit := 1, world := w', stdout := out, err := some (.crypto res) } :=
  runPassDecrypt_prefix P w inf outf e

theorem cli_model_pass_encrypt (P : Prims) (rnd : Rand) (w : World) (inf outf : Option Str) (e : Bool) :
    Cli.runPassEncrypt P rnd w inf outf e =
      match passPrefix w inf outf e with
      | .error c => Cli.fail w c
      | .ok (input, pw) =>
        let (res, _, k) := passEncryptIO P pw rnd.a { inp := input } {}
        let (w', out) := Cli.deliver w outf k
        if res = .ok then { exit := 0, world := w', stdout := out }
        else { exit := 1, world := w', stdout := out, err := some (.crypto res) } :=
  runPassEncrypt_prefix P rnd w inf outf e

/-! ## corollaries: every early failure of the model is an early failure of the code that touches nothing -/

/-- **decrypt, early failures.** Whenever the model's `runDecrypt` fails before the library call with class `c`, the model's
    outcome is `fail w c` (exit code 1, world unchanged) and the translated `decrypt` returns `Err` with the process state —
    files, environment, standard output AND standard error — unchanged, whatever the library functions are. -/
theorem cli_source_decrypt_early (P : Prims) (lib : StreamLib DynRead CliSrc.DynWrite) (sys : Sys)
    (o : CliSrc.commands.DecryptOptions) (hf : 1 ≤ sys.fuel) (c : Err)
    (h : decryptPrefix sys.world o.infile o.to o.outfile o.keyring o.env_pass = .error c) :
    Cli.runDecrypt P sys.world o.infile o.to o.outfile o.keyring o.env_pass = Cli.fail sys.world c ∧
    ∃ err, CliSrc.commands.decrypt lib sys o = (sys, .error err) := by
  refine ⟨runDecrypt_prefix_error P _ _ _ _ _ _ c h, ?_⟩
  have := cli_source_decrypt lib sys o hf
  rw [h] at this
  exact this

/-- **encrypt, early failures.** -/
theorem cli_source_encrypt_early (P : Prims) (rnd : Rand) (lib : StreamLib DynRead CliSrc.DynWrite) (sys : Sys)
    (o : CliSrc.commands.EncryptOptions) (hf : 1 ≤ sys.fuel) (c : Err)
    (h : encryptPrefix sys.world o.infile o.to o.from o.outfile o.keyring o.env_pass = .error c) :
    Cli.runEncrypt P rnd sys.world o.infile o.to o.from o.outfile o.keyring o.env_pass = Cli.fail sys.world c ∧
    ∃ err, CliSrc.commands.encrypt lib sys o = (sys, .error err) := by
  refine ⟨runEncrypt_prefix_error P rnd _ _ _ _ _ _ _ c h, ?_⟩
  have := cli_source_encrypt lib sys o hf
  rw [h] at this
  exact this

/-- non-vacuity: input and output the same file — refused by model and code alike, nothing touched -/
example (P : Prims) (lib : StreamLib DynRead CliSrc.DynWrite) (sys : Sys) (hf : 1 ≤ sys.fuel) :
    ∃ err, CliSrc.commands.decrypt lib sys ⟨some (str "f"), str "alice", some (str "f"), none, false⟩ = (sys, .error err) :=
  (cli_source_decrypt_early P lib sys _ hf .sameFile (by
    show (if sameFile (some (str "f")) (some (str "f")) = true then _ else _) = _
    rw [if_pos (by decide)])).2

end Kestrel
