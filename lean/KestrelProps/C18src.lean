/-
  C18src — the code of `src/crypto/src/scrypt.rs`, *as translated mechanically* by tools/rs2lean_scrypt.py into
  `Kestrel.ScryptSrc` (KestrelModel/GeneratedScrypt.lean, regenerated from the Rust source on every run), computes
  RFC 7914 scrypt (`Scrypt.Spec`, KestrelModel/Prim/Scrypt.lean).

  Unlike C18 (which is about the hand-written model `Scrypt.Impl`), nothing here is tied to the Rust text by hand: if
  scrypt.rs changes, the generated definitions change and these theorems are re-checked against what the code says now.
  Trusted: the translator, the small combinator file KestrelModel/RsPrelude.lean, and the reading of `usize`/`u64` as `Nat`
  (faithful where `scrypt_pre`, the function's own `assert!`s, holds: they bound every product the function computes).

  Hypotheses.  The only hypothesis of the main theorem is `ScryptSrc.scrypt_pre N r p`, the conjunction of the
  `assert!`/`debug_assert!` lines 197-203 of scrypt.rs as emitted by the translator.  From it the proof derives what it needs:
    * `N = 2^k`, `1 ≤ k`  from `assert!(n > 1)` and `assert!(n & (n - 1) == 0)`   (`ScryptSrc.pow2_of_and_pred`);
    * `1 ≤ r`             from `assert!(n <= usize::MAX / 128 / r)` (division by zero: a panic in Rust, `n ≤ 0` in Lean).
  Nothing is needed about `p`, `dkLen`, the password or the salt.  The overflow bounds in `scrypt_pre` are not used by the
  proof (both sides are computed in `Nat`); they are what makes the `Nat` reading of the Rust arithmetic faithful.
  Salsa20/8's double round is unfolded exactly once, to see that the loop body of `salsa_xor` is `Scrypt.salsaDouble`.
-/
import KestrelProofs.ScryptSrc
namespace Kestrel
open Scrypt

/-- **C18src (salsa_xor).** On a 16-word `tmp`, an `inn` that starts with 16 words and an `out` that starts with 16 words,
    the translated `salsa_xor` leaves Salsa20/8(tmp xor inn) in `tmp` and in the first 16 words of `out`; the rest of `out`
    is unchanged. -/
theorem C18_source_salsa_xor (T B O : Scrypt.Blk) (ir or : List UInt32) :
    ScryptSrc.salsa_xor (ScryptSrc.words T) (ScryptSrc.words B ++ ir) (ScryptSrc.words O ++ or) =
      (ScryptSrc.words (Scrypt.salsa208 (T.xor B)), ScryptSrc.words (Scrypt.salsa208 (T.xor B)) ++ or) :=
  ScryptSrc.salsa_xor_eq T B O ir or

/-- non-vacuity / sanity: on all-zero inputs (Salsa20/8 of the zero block is the zero block) -/
example : ScryptSrc.salsa_xor (List.replicate 16 0) (List.replicate 20 0) (List.replicate 16 0 ++ [7]) =
    (List.replicate 16 0, List.replicate 16 0 ++ [7]) := by decide

/-- **C18src (block_mix).** On flat word lists of 2r blocks, the translated `block_mix` writes scryptBlockMix of `inn`
    (RFC 7914 §4) into `out`; `tmp` ends up holding some block (the last Salsa20/8 output). -/
theorem C18_source_block_mix (T : Scrypt.Blk) (B O : List Scrypt.Blk) (r : Nat) (hr : 1 ≤ r)
    (hB : B.length = 2 * r) (hO : O.length = 2 * r) :
    ∃ T' : Scrypt.Blk, ScryptSrc.block_mix (ScryptSrc.words T) (ScryptSrc.flat B) (ScryptSrc.flat O) r =
      (ScryptSrc.words T', ScryptSrc.flat (Scrypt.Spec.blockMix B)) := by
  obtain ⟨T', h⟩ := ScryptSrc.block_mix_eq T B O r hr hB hO
  exact ⟨T', by rw [h, Scrypt.Impl.blockMix_eq B (by omega)]⟩

/-- hypotheses satisfiable: r = 2, four blocks -/
example : ∃ T' : Scrypt.Blk, ScryptSrc.block_mix (ScryptSrc.words Blk.zero)
    (ScryptSrc.flat [Blk.zero, Blk.zero, Blk.zero, Blk.zero]) (ScryptSrc.flat [Blk.zero, Blk.zero, Blk.zero, Blk.zero]) 2 =
    (ScryptSrc.words T', ScryptSrc.flat (Scrypt.Spec.blockMix [Blk.zero, Blk.zero, Blk.zero, Blk.zero])) :=
  C18_source_block_mix _ _ _ 2 (by decide) rfl rfl

/-- **C18src (smix).** For N a power of two ≥ 2 and r ≥ 1, the translated `smix` replaces the first 128·r bytes of `b` by
    scryptROMix (RFC 7914 §5) of them, leaves the remaining bytes of `b` unchanged, and returns scratch buffers `v`, `x`, `y`
    of unchanged sizes (whatever they contained before). -/
theorem C18_source_smix (b : List UInt8) (v x y : List UInt32) (r N k : Nat) (hN : N = 2 ^ k) (hk : 1 ≤ k) (hr : 1 ≤ r)
    (hb : 128 * r ≤ b.length) (hv : v.length = N * (32 * r)) (hx : x.length = 32 * r) (hy : y.length = 32 * r) :
    ∃ v' x' y', ScryptSrc.smix b r N v x y =
        (Scrypt.bytesOfBlocks (Scrypt.Spec.roMix N (Scrypt.blocksOfBytes (2 * r) (b.take (128 * r)))) ++ b.drop (128 * r),
          v', x', y') ∧
      v'.length = N * (32 * r) ∧ x'.length = 32 * r ∧ y'.length = 32 * r := by
  obtain ⟨v', x', y', h, h1, h2, h3, _⟩ := ScryptSrc.smix_eq b v x y r N k hN hk hr hb hv hx hy
  refine ⟨v', x', y', ?_, h1, h2, h3⟩
  rw [h, Scrypt.Impl.smix_eq N k _ hN hk (by rw [Scrypt.blocksOfBytes_length]; omega)]

/-- hypotheses satisfiable: N = 2, r = 1, 130 bytes (two more than one block pair), buffers of the right sizes -/
example : ∃ v' x' y', ScryptSrc.smix (List.replicate 130 1) 1 2 (List.replicate 64 0) (List.replicate 32 5) (List.replicate 32 9) =
    (Scrypt.bytesOfBlocks (Scrypt.Spec.roMix 2 (Scrypt.blocksOfBytes (2 * 1) ((List.replicate 130 1).take (128 * 1)))) ++
      (List.replicate 130 1).drop (128 * 1), v', x', y') ∧
    v'.length = 2 * (32 * 1) ∧ x'.length = 32 * 1 ∧ y'.length = 32 * 1 :=
  C18_source_smix _ _ _ _ 1 2 1 rfl (by decide) (by decide) (by simp) (by simp) (by simp) (by simp)

/-- **C18src.** The code of scrypt.rs, as translated, computes RFC 7914 scrypt: for every password, salt, N, r, p and
    output length for which the function's own `assert!`s hold. -/
theorem C18_source_eq_spec (pw salt : Bytes) (N r p dkLen : Nat) (hpre : ScryptSrc.scrypt_pre N r p) :
    ScryptSrc.scrypt pw salt N r p dkLen = Scrypt.Spec.scrypt pw salt N r p dkLen :=
  ScryptSrc.scrypt_eq_spec pw salt N r p dkLen hpre

/-- the hypothesis is satisfiable: RFC 7914 §12 vector 1 parameters (N = 16, r = 1, p = 1) … -/
example : ScryptSrc.scrypt [] [] 16 1 1 64 = Scrypt.Spec.scrypt [] [] 16 1 1 64 :=
  C18_source_eq_spec _ _ 16 1 1 64 (by unfold ScryptSrc.scrypt_pre; decide)

/-- … and the parameters kestrel itself uses (N = 32768, r = 8, p = 1; `KestrelModel/Generated.lean`) -/
example (pw salt : Bytes) : ScryptSrc.scrypt pw salt 32768 8 1 32 = Scrypt.Spec.scrypt pw salt 32768 8 1 32 :=
  C18_source_eq_spec pw salt 32768 8 1 32 (by unfold ScryptSrc.scrypt_pre; decide)

/-- The same equation from the arithmetic facts alone (no size bounds): N a power of two ≥ 2 (the mask `& (N-1)` and the
    two-steps-per-iteration loops need it, see `C18_mask_needs_pow2`, `C18_needs_N_ge_2`) and r ≥ 1 (`2*r - 1`). -/
theorem C18_source_eq_spec_pow2 (pw salt : Bytes) (N r p dkLen k : Nat) (hN : N = 2 ^ k) (hk : 1 ≤ k) (hr : 1 ≤ r) :
    ScryptSrc.scrypt pw salt N r p dkLen = Scrypt.Spec.scrypt pw salt N r p dkLen := by
  rw [ScryptSrc.scrypt_eq_impl pw salt N r p dkLen k hN hk hr, Scrypt.Impl.scrypt_eq pw salt N k r p dkLen hN hk]

example : ScryptSrc.scrypt [1] [2] (2 ^ 20) 8 3 64 = Scrypt.Spec.scrypt [1] [2] (2 ^ 20) 8 3 64 :=
  C18_source_eq_spec_pow2 _ _ (2 ^ 20) 8 3 64 20 rfl (by decide) (by decide)

/-- what the `assert!`s give (used by `C18_source_eq_spec`) -/
theorem C18_source_pre (N r p : Nat) (hpre : ScryptSrc.scrypt_pre N r p) : (∃ k, N = 2 ^ k ∧ 1 ≤ k) ∧ 1 ≤ r :=
  ScryptSrc.pre_consequences N r p hpre

example : (∃ k, 1024 = 2 ^ k ∧ 1 ≤ k) ∧ 1 ≤ 8 := C18_source_pre 1024 8 16 (by unfold ScryptSrc.scrypt_pre; decide)

/-- the translated function has the same output length as the specification -/
theorem C18_source_length (pw salt : Bytes) (N r p dkLen : Nat) :
    (ScryptSrc.scrypt pw salt N r p dkLen).length = dkLen := by
  simp only [ScryptSrc.scrypt, List.length_replicate, pbkdf2Sha256_length]

example : (ScryptSrc.scrypt [1] [2] 16 1 1 64).length = 64 := C18_source_length _ _ _ _ _ _

end Kestrel
