/-
  C10 (decrypt side) — independence of the read partition and of partial writes; C04 / C11 (decrypt side) — only whole
  chunks are released, in order, each only after its whole record has been read.

  The I/O-level entry points `keyDecryptIO` / `passDecryptIO` run over a *scripted* source (every `read()` may return
  fewer bytes, fail hard, or fail with `ErrorKind::Interrupted`) and a scripted sink (every `write()` may accept fewer
  bytes, accept 0, fail, be interrupted; `flush()` may fail).  They are compared with the pure-level `keyDecrypt` /
  `passDecrypt` on the complete file `src.inp`.

  Script classes (KestrelProofs/IOBasics.lean):
    `Src.faultFree`  only short reads (≥ 1 byte);           `Src.benign`  short reads and interruptions;
    `Src.noFalseEof` anything except a scripted `Ok(0)` — hard errors, interruptions, short reads are all allowed;
    `Snk.faultFree`  partial writes (≥ 1 byte), flush ok;    `Snk.benign`  additionally interrupted writes.

  Two facts about the model that shape the statements (both confirmed by the examples at the end):
  * `noFalseEof` is needed wherever the I/O run is compared with the pure run on ALL of `src.inp`: a reader that answers the
    1-byte trailing-data probe with `Ok(0)` although bytes remain has declared the stream finished; the I/O run then
    succeeds where the pure run (which sees the undelivered bytes) says `unexpectedData`.  The hypothesis-free statement is
    `decLoopIO_ok_consumed` (KestrelProofs/DecIO.lean): success ⇒ the *consumed* bytes are a complete valid stream.
  * Partition independence needs a fault-free (not merely benign) source: `read_exact` retries `Interrupted`, but the
    trailing-data probe is a single `read()` that is not retried, so an interruption landing exactly there yields `ioRead`
    with the final chunk withheld.  `C10_dec_benign_*` states exactly that.
-/
import KestrelProofs.DecIO
import KestrelProofs.File
import KestrelProps.C01
namespace Kestrel
open Generated

/-! ### C10 — partition / partial-write independence -/

/-- **C10 (key mode, decrypt side).** For every partition of the file into short reads and every benign sink (partial
    writes of ≥ 1 byte, interrupted writes): result, sender key and output are those of the pure run on the complete file. -/
theorem C10_dec_partition_independence_key (P : Prims) (r rpk : Bytes) (src : Src) (k : Snk)
    (hs : src.faultFree) (hk : k.benign)
    {res pres : Res} {s' : Src} {k' : Snk} {sender psender : Option Bytes} {writes : List Bytes}
    (hIO : keyDecryptIO P r rpk src k = (res, s', k', sender))
    (hP : keyDecrypt P r rpk src.inp = (writes, pres, psender)) :
    res = pres ∧ sender = psender ∧ k'.out = k.out ++ writes.flatten := by
  rcases keyDecryptIO_cases hIO hP with ⟨rfl, rfl, _, _, h⟩ | ⟨s2, pk, h, spk, _, _, _, hsc, hd, hpd, rfl, rfl⟩
  · rcases h with ⟨h1, h2, h3, _⟩ | ⟨h1, h2⟩
    · subst h3; exact ⟨h1, h2.symm, by simp⟩
    · obtain ⟨h3, h4, h5⟩ := h2 hs.benign
      subst h4; exact ⟨by rw [h1, h3], h5.symm, by simp⟩
  · obtain ⟨h1, h2⟩ := decLoopIO_faultFree P.aead _ [] chunkSize (Src.faultFree_of_suffix hs hsc) hk
      (Nat.le_refl _) (Nat.le_refl _) hd hpd
    exact ⟨h1, by rw [h1], h2⟩

/-- **C10 (password mode, decrypt side).** -/
theorem C10_dec_partition_independence_pass (P : Prims) (pw : Bytes) (src : Src) (k : Snk)
    (hs : src.faultFree) (hk : k.benign)
    {res pres : Res} {s' : Src} {k' : Snk} {writes : List Bytes}
    (hIO : passDecryptIO P pw src k = (res, s', k'))
    (hP : passDecrypt P pw src.inp = (writes, pres)) :
    res = pres ∧ k'.out = k.out ++ writes.flatten := by
  rcases passDecryptIO_cases hIO hP with ⟨rfl, _, _, h⟩ | ⟨s2, salt, _, _, _, hsc, hd, hpd⟩
  · rcases h with ⟨h1, h3, _⟩ | ⟨h1, h2⟩
    · subst h3; exact ⟨h1, by simp⟩
    · obtain ⟨h3, h4⟩ := h2 hs.benign
      subst h4; exact ⟨by rw [h1, h3], by simp⟩
  · exact decLoopIO_faultFree P.aead _ _ chunkSize (Src.faultFree_of_suffix hs hsc) hk (Nat.le_refl _) (Nat.le_refl _) hd hpd

/-- **C10, exact form for benign sources (key mode).** With interruptions allowed at the source: either the run agrees with
    the pure run, or the last consumed script event is an `Interrupted` that hit the un-retried trailing-data probe — then
    the result is `ioRead`, no sender is reported, everything before the final chunk has been written and the final chunk
    has not (the pure run on the same file says `ok`, or `unexpectedData` if bytes follow the final record). -/
theorem C10_dec_benign_key (P : Prims) (r rpk : Bytes) (src : Src) (k : Snk)
    (hs : src.benign) (hk : k.benign)
    {res pres : Res} {s' : Src} {k' : Snk} {sender psender : Option Bytes} {writes : List Bytes}
    (hIO : keyDecryptIO P r rpk src k = (res, s', k', sender))
    (hP : keyDecrypt P r rpk src.inp = (writes, pres, psender)) :
    (res = pres ∧ sender = psender ∧ k'.out = k.out ++ writes.flatten) ∨
    (res = .ioRead ∧ sender = none ∧ (∃ pre, src.script = pre ++ .errInterrupted :: s'.script) ∧
      ((pres = .unexpectedData ∧ k'.out = k.out ++ writes.flatten) ∨
       (pres = .ok ∧ ∃ init fin, writes = init ++ [fin] ∧ k'.out = k.out ++ init.flatten))) := by
  rcases keyDecryptIO_cases hIO hP with ⟨rfl, rfl, _, _, h⟩ | ⟨s2, pk, h, spk, _, _, _, hsc, hd, hpd, rfl, rfl⟩
  · left
    rcases h with ⟨h1, h2, h3, _⟩ | ⟨h1, h2⟩
    · subst h3; exact ⟨h1, h2.symm, by simp⟩
    · obtain ⟨h3, h4, h5⟩ := h2 hs
      subst h4; exact ⟨by rw [h1, h3], h5.symm, by simp⟩
  · rcases decLoopIO_benign P.aead _ [] chunkSize _ _ 0 s2 k res s' k' writes pres (Src.benign_of_suffix hs hsc) hk
      (Nat.le_refl _) (Nat.le_refl _) hd hpd with ⟨h1, h2⟩ | ⟨h1, ⟨pre, hpre⟩, h3⟩
    · exact Or.inl ⟨h1, by rw [h1], h2⟩
    · obtain ⟨pre0, hpre0⟩ := hsc
      exact Or.inr ⟨h1, by rw [h1]; simp, ⟨pre0 ++ pre, by rw [hpre0, hpre, List.append_assoc]⟩, h3⟩

/-- **C10, exact form for benign sources (password mode).** -/
theorem C10_dec_benign_pass (P : Prims) (pw : Bytes) (src : Src) (k : Snk)
    (hs : src.benign) (hk : k.benign)
    {res pres : Res} {s' : Src} {k' : Snk} {writes : List Bytes}
    (hIO : passDecryptIO P pw src k = (res, s', k'))
    (hP : passDecrypt P pw src.inp = (writes, pres)) :
    (res = pres ∧ k'.out = k.out ++ writes.flatten) ∨
    (res = .ioRead ∧ (∃ pre, src.script = pre ++ .errInterrupted :: s'.script) ∧
      ((pres = .unexpectedData ∧ k'.out = k.out ++ writes.flatten) ∨
       (pres = .ok ∧ ∃ init fin, writes = init ++ [fin] ∧ k'.out = k.out ++ init.flatten))) := by
  rcases passDecryptIO_cases hIO hP with ⟨rfl, _, _, h⟩ | ⟨s2, salt, _, _, _, hsc, hd, hpd⟩
  · left
    rcases h with ⟨h1, h3, _⟩ | ⟨h1, h2⟩
    · subst h3; exact ⟨h1, by simp⟩
    · obtain ⟨h3, h4⟩ := h2 hs
      subst h4; exact ⟨by rw [h1, h3], by simp⟩
  · rcases decLoopIO_benign P.aead _ _ chunkSize _ _ 0 s2 k res s' k' writes pres (Src.benign_of_suffix hs hsc) hk
      (Nat.le_refl _) (Nat.le_refl _) hd hpd with h | ⟨h1, ⟨pre, hpre⟩, h3⟩
    · exact Or.inl h
    · obtain ⟨pre0, hpre0⟩ := hsc
      exact Or.inr ⟨h1, ⟨pre0 ++ pre, by rw [hpre0, hpre, List.append_assoc]⟩, h3⟩

/-! ### C04 — only whole chunks, in order; C10 — the output is a prefix of the fault-free output -/

/-- **C04 (key mode).** For every source script that does not forge an end-of-stream and EVERY sink script: whenever the
    call stops — success, any error, hard I/O failure at any point — the output consists of the first `j` chunks of the
    pure run, whole and in order, followed by a partial chunk `q` only if the sink itself failed (`ioWrite`), in which case
    `q` is a prefix of the next chunk. -/
theorem C04_whole_chunks_key (P : Prims) (r rpk : Bytes) (src : Src) (k : Snk) (hs : src.noFalseEof)
    {res pres : Res} {s' : Src} {k' : Snk} {sender psender : Option Bytes} {writes : List Bytes}
    (hIO : keyDecryptIO P r rpk src k = (res, s', k', sender))
    (hP : keyDecrypt P r rpk src.inp = (writes, pres, psender)) :
    ∃ j q, k'.out = k.out ++ (writes.take j).flatten ++ q ∧ j ≤ writes.length ∧
      (q = [] ∨ (res = .ioWrite ∧ ∃ w, writes[j]? = some w ∧ q <+: w)) ∧
      (res = .ok → pres = .ok ∧ sender = psender ∧ j = writes.length ∧ q = []) := by
  rcases keyDecryptIO_cases hIO hP with ⟨rfl, rfl, hok, _, _⟩ | ⟨s2, pk, h, spk, _, _, _, hsc, hd, hpd, rfl, rfl⟩
  · exact ⟨0, [], by simp, Nat.zero_le _, Or.inl rfl, fun h => absurd h hok⟩
  · obtain ⟨j, q, h1, h2, h3, h4⟩ := decLoopIO_prefix P.aead _ [] chunkSize _ _ 0 s2 k res s' k' writes pres
      (Src.noFalseEof_of_suffix hs hsc) (Nat.le_refl _) (Nat.le_refl _) hd hpd
    refine ⟨j, q, h1, h2, h3, fun hok => ?_⟩
    obtain ⟨h5, h6, h7⟩ := h4 hok
    exact ⟨h5, by rw [hok, h5], h6, h7⟩

/-- **C04 (password mode).** -/
theorem C04_whole_chunks_pass (P : Prims) (pw : Bytes) (src : Src) (k : Snk) (hs : src.noFalseEof)
    {res pres : Res} {s' : Src} {k' : Snk} {writes : List Bytes}
    (hIO : passDecryptIO P pw src k = (res, s', k'))
    (hP : passDecrypt P pw src.inp = (writes, pres)) :
    ∃ j q, k'.out = k.out ++ (writes.take j).flatten ++ q ∧ j ≤ writes.length ∧
      (q = [] ∨ (res = .ioWrite ∧ ∃ w, writes[j]? = some w ∧ q <+: w)) ∧
      (res = .ok → pres = .ok ∧ j = writes.length ∧ q = []) := by
  rcases passDecryptIO_cases hIO hP with ⟨rfl, hok, _, _⟩ | ⟨s2, salt, _, _, _, hsc, hd, hpd⟩
  · exact ⟨0, [], by simp, Nat.zero_le _, Or.inl rfl, fun h => absurd h hok⟩
  · exact decLoopIO_prefix P.aead _ _ chunkSize _ _ 0 s2 k res s' k' writes pres
      (Src.noFalseEof_of_suffix hs hsc) (Nat.le_refl _) (Nat.le_refl _) hd hpd

/-- **C10 prefix (key mode).** For every such script the output is a byte prefix of the fault-free output, and success means
    the whole fault-free output, pure success and the same sender. -/
theorem C10_dec_prefix_key (P : Prims) (r rpk : Bytes) (src : Src) (k : Snk) (hs : src.noFalseEof)
    {res pres : Res} {s' : Src} {k' : Snk} {sender psender : Option Bytes} {writes : List Bytes}
    (hIO : keyDecryptIO P r rpk src k = (res, s', k', sender))
    (hP : keyDecrypt P r rpk src.inp = (writes, pres, psender)) :
    ∃ p, k'.out = k.out ++ p ∧ p <+: writes.flatten ∧
      (res = .ok → p = writes.flatten ∧ pres = .ok ∧ sender = psender) := by
  obtain ⟨j, q, h1, _, h3, h4⟩ := C04_whole_chunks_key P r rpk src k hs hIO hP
  refine ⟨(writes.take j).flatten ++ q, by rw [h1, List.append_assoc], ?_, ?_⟩
  · exact take_flatten_prefix writes j q (h3.imp id (fun h => h.2))
  · intro hok
    obtain ⟨h5, h6, rfl, rfl⟩ := h4 hok
    exact ⟨by simp, h5, h6⟩

/-- **C10 prefix (password mode).** -/
theorem C10_dec_prefix_pass (P : Prims) (pw : Bytes) (src : Src) (k : Snk) (hs : src.noFalseEof)
    {res pres : Res} {s' : Src} {k' : Snk} {writes : List Bytes}
    (hIO : passDecryptIO P pw src k = (res, s', k'))
    (hP : passDecrypt P pw src.inp = (writes, pres)) :
    ∃ p, k'.out = k.out ++ p ∧ p <+: writes.flatten ∧ (res = .ok → p = writes.flatten ∧ pres = .ok) := by
  obtain ⟨j, q, h1, _, h3, h4⟩ := C04_whole_chunks_pass P pw src k hs hIO hP
  refine ⟨(writes.take j).flatten ++ q, by rw [h1, List.append_assoc], ?_, ?_⟩
  · exact take_flatten_prefix writes j q (h3.imp id (fun h => h.2))
  · intro hok
    obtain ⟨h5, rfl, rfl⟩ := h4 hok
    exact ⟨by simp, h5⟩

/-! ### C10 — which side an error comes from -/

/-- **C10 error side (key mode), ALL scripts.** `ioWrite` only if the sink misbehaved; `ioRead` only if the source misbehaved
    or the file itself is truncated; every other error (`format`, `other`, `chunkLen`, `auth`, `unexpectedData`) is the pure
    result — never an artefact of the I/O layer. -/
theorem C10_dec_error_side_key (P : Prims) (r rpk : Bytes) (src : Src) (k : Snk)
    {res pres : Res} {s' : Src} {k' : Snk} {sender psender : Option Bytes} {writes : List Bytes}
    (hIO : keyDecryptIO P r rpk src k = (res, s', k', sender))
    (hP : keyDecrypt P r rpk src.inp = (writes, pres, psender)) :
    (res = .ioWrite → ¬ k.faultFree) ∧
    (res = .ioRead → ¬ src.faultFree ∨ pres = .ioRead) ∧
    (res ≠ .ok → res ≠ .ioWrite → res ≠ .ioRead → pres = res) := by
  rcases keyDecryptIO_cases hIO hP with ⟨rfl, rfl, _, hw, h⟩ | ⟨s2, pk, h, spk, _, _, _, hsc, hd, hpd, rfl, rfl⟩
  · refine ⟨fun h' => absurd h' hw, fun hr => ?_, fun _ _ hr => ?_⟩
    · rcases h with ⟨_, _, _, h1⟩ | ⟨_, h2⟩
      · exact absurd hr h1
      · by_cases hf : src.faultFree
        · exact Or.inr (h2 hf.benign).1
        · exact Or.inl hf
    · rcases h with ⟨h1, _⟩ | ⟨h1, _⟩
      · exact h1.symm
      · exact absurd h1 hr
  · refine ⟨fun hr => ?_, fun hr => ?_, fun h1 h2 h3 => ?_⟩
    · subst hr; exact decLoopIO_ioWrite P.aead _ [] chunkSize _ 0 s2 k s' k' hd
    · subst hr
      rcases decLoopIO_ioRead P.aead _ [] chunkSize (Nat.le_refl _) (Nat.le_refl _) hd hpd with h1 | h1
      · exact Or.inl (fun hf => h1 (Src.faultFree_of_suffix hf hsc))
      · exact Or.inr h1
    · exact decLoopIO_err_agree P.aead _ [] chunkSize _ _ 0 s2 k res s' k' writes pres (Nat.le_refl _) (Nat.le_refl _)
        hd hpd (fun h => absurd h h3) h1 h2

/-- **C10 error side (password mode), ALL scripts.** -/
theorem C10_dec_error_side_pass (P : Prims) (pw : Bytes) (src : Src) (k : Snk)
    {res pres : Res} {s' : Src} {k' : Snk} {writes : List Bytes}
    (hIO : passDecryptIO P pw src k = (res, s', k'))
    (hP : passDecrypt P pw src.inp = (writes, pres)) :
    (res = .ioWrite → ¬ k.faultFree) ∧
    (res = .ioRead → ¬ src.faultFree ∨ pres = .ioRead) ∧
    (res ≠ .ok → res ≠ .ioWrite → res ≠ .ioRead → pres = res) := by
  rcases passDecryptIO_cases hIO hP with ⟨rfl, _, hw, h⟩ | ⟨s2, salt, _, _, _, hsc, hd, hpd⟩
  · refine ⟨fun h' => absurd h' hw, fun hr => ?_, fun _ _ hr => ?_⟩
    · rcases h with ⟨_, _, h1⟩ | ⟨_, h2⟩
      · exact absurd hr h1
      · by_cases hf : src.faultFree
        · exact Or.inr (h2 hf.benign).1
        · exact Or.inl hf
    · rcases h with ⟨h1, _⟩ | ⟨h1, _⟩
      · exact h1.symm
      · exact absurd h1 hr
  · refine ⟨fun hr => ?_, fun hr => ?_, fun h1 h2 h3 => ?_⟩
    · subst hr; exact decLoopIO_ioWrite P.aead _ _ chunkSize _ 0 s2 k s' k' hd
    · subst hr
      rcases decLoopIO_ioRead P.aead _ _ chunkSize (Nat.le_refl _) (Nat.le_refl _) hd hpd with h1 | h1
      · exact Or.inl (fun hf => h1 (Src.faultFree_of_suffix hf hsc))
      · exact Or.inr h1
    · exact decLoopIO_err_agree P.aead _ _ chunkSize _ _ 0 s2 k res s' k' writes pres (Nat.le_refl _) (Nat.le_refl _)
        hd hpd (fun h => absurd h h3) h1 h2

/-! ### C04 / C11 — ordering facts recorded in the sink's log -/

/-- **C04 order (key mode).** `segs` = the `write()` calls logged by this call, oldest first, grouped by chunk: `segs[i]` are
    the writes of chunk `i`. Every one of them was issued with the source standing at offset `132 + recEnd writes i` of the
    file, i.e. exactly at the end of record `i` (`recEnd` counts `32 + |chunk|` per record): the whole record — header, body,
    tag — had been read and no later record had been touched (for the final chunk the 1-byte probe returned nothing).
    Chunk `i` is completely written (sizes sum to its length) before any write of chunk `i+1`, and all logged sizes together
    are the bytes appended to the output. -/
theorem C04_order_key (P : Prims) (hPl : P.Lawful) (r rpk : Bytes) (src : Src) (k : Snk) (hs : src.noFalseEof)
    {res pres : Res} {s' : Src} {k' : Snk} {sender psender : Option Bytes} {writes : List Bytes}
    (hIO : keyDecryptIO P r rpk src k = (res, s', k', sender))
    (hP : keyDecrypt P r rpk src.inp = (writes, pres, psender)) :
    ∃ segs : List (List WLog), k'.log = segs.flatten.reverse ++ k.log ∧ segs.length ≤ writes.length ∧
      k'.out.length = k.out.length + (segs.flatten.map (·.n)).sum ∧
      ∀ i seg, segs[i]? = some seg → ∃ w, writes[i]? = some w ∧
        (∀ e ∈ seg, e.srcPos = src.pos + 132 + recEnd writes i) ∧
        (seg.map (·.n)).sum ≤ w.length ∧ (i + 1 < segs.length → (seg.map (·.n)).sum = w.length) := by
  rcases keyDecryptIO_cases hIO hP with ⟨rfl, _⟩ | ⟨s2, pk, h, spk, _, hp2, _, hsc, hd, hpd, rfl, rfl⟩
  · exact ⟨[], by simp, Nat.zero_le _, by simp, fun i seg hi => by simp at hi⟩
  · rw [gen_handshakeLen] at hp2
    have := decLoopIO_order P.aead hPl.aead _ [] (hPl.hkdfFile_len pk h) chunkSize
      (Src.noFalseEof_of_suffix hs hsc) (Nat.le_refl _) (Nat.le_refl _) hd hpd
    rw [hp2] at this
    exact this

/-- **C04 order (password mode).** Header length 4 + 32; needs the KDF to return a 32-byte key. -/
theorem C04_order_pass (P : Prims) (hA : P.aead.Lawful) (pw : Bytes) (hkdf : ∀ salt, (P.kdf pw salt).length = 32)
    (src : Src) (k : Snk) (hs : src.noFalseEof)
    {res pres : Res} {s' : Src} {k' : Snk} {writes : List Bytes}
    (hIO : passDecryptIO P pw src k = (res, s', k'))
    (hP : passDecrypt P pw src.inp = (writes, pres)) :
    ∃ segs : List (List WLog), k'.log = segs.flatten.reverse ++ k.log ∧ segs.length ≤ writes.length ∧
      k'.out.length = k.out.length + (segs.flatten.map (·.n)).sum ∧
      ∀ i seg, segs[i]? = some seg → ∃ w, writes[i]? = some w ∧
        (∀ e ∈ seg, e.srcPos = src.pos + 36 + recEnd writes i) ∧
        (seg.map (·.n)).sum ≤ w.length ∧ (i + 1 < segs.length → (seg.map (·.n)).sum = w.length) := by
  rcases passDecryptIO_cases hIO hP with ⟨rfl, _⟩ | ⟨s2, salt, _, hp2, _, hsc, hd, hpd⟩
  · exact ⟨[], by simp, Nat.zero_le _, by simp, fun i seg hi => by simp at hi⟩
  · have := decLoopIO_order P.aead hA _ _ (hkdf salt) chunkSize
      (Src.noFalseEof_of_suffix hs hsc) (Nat.le_refl _) (Nat.le_refl _) hd hpd
    rw [hp2] at this
    exact this

end Kestrel
