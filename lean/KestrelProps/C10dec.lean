/-
  C10 (decrypt side) — independence of the read partition and of partial writes; C04 / C11 (decrypt side) — only whole
  chunks are released, in order, each only after its whole record has been read.

  The I/O-level entry points `keyDecryptIO` / `passDecryptIO` run over a *scripted* source (every `read()` may return
  fewer bytes, fail hard, or fail with `ErrorKind::Interrupted`) and a scripted sink (every `write()` may accept fewer
  bytes, accept 0, fail, be interrupted; `flush()` may fail).  They are compared with the pure-level `keyDecrypt` /
  `passDecrypt` on the complete file `src.inp`.

  Script classes (KestrelProofs/IOBasics.lean):
    `Src.faultFree`  only short reads (≥ 1 byte);           `Src.benign`  short reads and interruptions;
    `Src.noFalseEof` anything except a scripted `Ok(0)` — hard errors, interruptions, short reads are all allowed;
    `Snk.faultFree`  partial writes (≥ 1 byte), flush ok;    `Snk.benign`  additionally interrupted writes.

  Two facts about the model that shape the statements (both confirmed by the examples at the end):
  * `noFalseEof` is needed wherever the I/O run is compared with the pure run on ALL of `src.inp`: a reader that answers the
    1-byte trailing-data probe with `Ok(0)` although bytes remain has declared the stream finished; the I/O run then
    succeeds where the pure run (which sees the undelivered bytes) says `unexpectedData`.  The hypothesis-free statement is
    `decLoopIO_ok_consumed` (KestrelProofs/DecIO.lean): success ⇒ the *consumed* bytes are a complete valid stream.
  * Partition independence needs a fault-free (not merely benign) source: `read_exact` retries `Interrupted`, but the
    trailing-data probe is a single `read()` that is not retried, so an interruption landing exactly there yields `ioRead`
    with the final chunk withheld.  `C10_dec_benign_*` states exactly that.
-/
import KestrelProofs.DecIO
import KestrelProofs.File
import KestrelProps.C01
namespace Kestrel
open Generated

/-! ### C10 — partition / partial-write independence -/

/-- **C10 (key mode, decrypt side).** For every partition of the file into short reads and every benign sink (partial
    writes of ≥ 1 byte, interrupted writes): result, sender key and output are those of the pure run on the complete file. -/
theorem C10_dec_partition_independence_key (P : Prims) (r rpk : Bytes) (src : Src) (k : Snk)
    (hs : src.faultFree) (hk : k.benign)
    {res pres : Res} {s' : Src} {k' : Snk} {sender psender : Option Bytes} {writes : List Bytes}
    (hIO : keyDecryptIO P r rpk src k = (res, s', k', sender))
    (hP : keyDecrypt P r rpk src.inp = (writes, pres, psender)) :
    res = pres ∧ sender = psender ∧ k'.out = k.out ++ writes.flatten := by
  rcases keyDecryptIO_cases hIO hP with ⟨rfl, rfl, _, _, h⟩ | ⟨s2, pk, h, spk, _, _, _, hsc, hd, hpd, rfl, rfl⟩
  · rcases h with ⟨h1, h2, h3, _⟩ | ⟨h1, h2⟩
    · subst h3; exact ⟨h1, h2.symm, by simp⟩
    · obtain ⟨h3, h4, h5⟩ := h2 hs.benign
      subst h4; exact ⟨by rw [h1, h3], h5.symm, by simp⟩
  · obtain ⟨h1, h2⟩ := decLoopIO_faultFree P.aead _ [] chunkSize (Src.faultFree_of_suffix hs hsc) hk
      (Nat.le_refl _) (Nat.le_refl _) hd hpd
    exact ⟨h1, by rw [h1], h2⟩

/-- **C10 (password mode, decrypt side).** -/
theorem C10_dec_partition_independence_pass (P : Prims) (pw : Bytes) (src : Src) (k : Snk)
    (hs : src.faultFree) (hk : k.benign)
    {res pres : Res} {s' : Src} {k' : Snk} {writes : List Bytes}
    (hIO : passDecryptIO P pw src k = (res, s', k'))
    (hP : passDecrypt P pw src.inp = (writes, pres)) :
    res = pres ∧ k'.out = k.out ++ writes.flatten := by
  rcases passDecryptIO_cases hIO hP with ⟨rfl, _, _, h⟩ | ⟨s2, salt, _, _, _, hsc, hd, hpd⟩
  · rcases h with ⟨h1, h3, _⟩ | ⟨h1, h2⟩
    · subst h3; exact ⟨h1, by simp⟩
    · obtain ⟨h3, h4⟩ := h2 hs.benign
      subst h4; exact ⟨by rw [h1, h3], by simp⟩
  · exact decLoopIO_faultFree P.aead _ _ chunkSize (Src.faultFree_of_suffix hs hsc) hk (Nat.le_refl _) (Nat.le_refl _) hd hpd

/-- **C10, exact form for benign sources (key mode).** With interruptions allowed at the source: either the run agrees with
    the pure run, or the last consumed script event is an `Interrupted` that hit the un-retried trailing-data probe — then
    the result is `ioRead`, no sender is reported, everything before the final chunk has been written and the final chunk
    has not (the pure run on the same file says `ok`, or `unexpectedData` if bytes follow the final record). -/
theorem C10_dec_benign_key (P : Prims) (r rpk : Bytes) (src : Src) (k : Snk)
    (hs : src.benign) (hk : k.benign)
    {res pres : Res} {s' : Src} {k' : Snk} {sender psender : Option Bytes} {writes : List Bytes}
    (hIO : keyDecryptIO P r rpk src k = (res, s', k', sender))
    (hP : keyDecrypt P r rpk src.inp = (writes, pres, psender)) :
    (res = pres ∧ sender = psender ∧ k'.out = k.out ++ writes.flatten) ∨
    (res = .ioRead ∧ sender = none ∧ (∃ pre, src.script = pre ++ .errInterrupted :: s'.script) ∧
      ((pres = .unexpectedData ∧ k'.out = k.out ++ writes.flatten) ∨
       (pres = .ok ∧ ∃ init fin, writes = init ++ [fin] ∧ k'.out = k.out ++ init.flatten))) := by
  rcases keyDecryptIO_cases hIO hP with ⟨rfl, rfl, _, _, h⟩ | ⟨s2, pk, h, spk, _, _, _, hsc, hd, hpd, rfl, rfl⟩
  · left
    rcases h with ⟨h1, h2, h3, _⟩ | ⟨h1, h2⟩
    · subst h3; exact ⟨h1, h2.symm, by simp⟩
    · obtain ⟨h3, h4, h5⟩ := h2 hs
      subst h4; exact ⟨by rw [h1, h3], h5.symm, by simp⟩
  · rcases decLoopIO_benign P.aead _ [] chunkSize _ _ 0 s2 k res s' k' writes pres (Src.benign_of_suffix hs hsc) hk
      (Nat.le_refl _) (Nat.le_refl _) hd hpd with ⟨h1, h2⟩ | ⟨h1, ⟨pre, hpre⟩, h3⟩
    · exact Or.inl ⟨h1, by rw [h1], h2⟩
    · obtain ⟨pre0, hpre0⟩ := hsc
      exact Or.inr ⟨h1, by rw [h1]; simp, ⟨pre0 ++ pre, by rw [hpre0, hpre, List.append_assoc]⟩, h3⟩

/-- **C10, exact form for benign sources (password mode).** -/
theorem C10_dec_benign_pass (P : Prims) (pw : Bytes) (src : Src) (k : Snk)
    (hs : src.benign) (hk : k.benign)
    {res pres : Res} {s' : Src} {k' : Snk} {writes : List Bytes}
    (hIO : passDecryptIO P pw src k = (res, s', k'))
    (hP : passDecrypt P pw src.inp = (writes, pres)) :
    (res = pres ∧ k'.out = k.out ++ writes.flatten) ∨
    (res = .ioRead ∧ (∃ pre, src.script = pre ++ .errInterrupted :: s'.script) ∧
      ((pres = .unexpectedData ∧ k'.out = k.out ++ writes.flatten) ∨
       (pres = .ok ∧ ∃ init fin, writes = init ++ [fin] ∧ k'.out = k.out ++ init.flatten))) := by
  rcases passDecryptIO_cases hIO hP with ⟨rfl, _, _, h⟩ | ⟨s2, salt, _, _, _, hsc, hd, hpd⟩
  · left
    rcases h with ⟨h1, h3, _⟩ | ⟨h1, h2⟩
    · subst h3; exact ⟨h1, by simp⟩
    · obtain ⟨h3, h4⟩ := h2 hs
      subst h4; exact ⟨by rw [h1, h3], by simp⟩
  · rcases decLoopIO_benign P.aead _ _ chunkSize _ _ 0 s2 k res s' k' writes pres (Src.benign_of_suffix hs hsc) hk
      (Nat.le_refl _) (Nat.le_refl _) hd hpd with h | ⟨h1, ⟨pre, hpre⟩, h3⟩
    · exact Or.inl h
    · obtain ⟨pre0, hpre0⟩ := hsc
      exact Or.inr ⟨h1, ⟨pre0 ++ pre, by rw [hpre0, hpre, List.append_assoc]⟩, h3⟩

/-! ### C04 — only whole chunks, in order; C10 — the output is a prefix of the fault-free output -/

/-- **C04 (key mode).** For every source script that does not forge an end-of-stream and EVERY sink script: whenever the
    call stops — success, any error, hard I/O failure at any point — the output consists of the first `j` chunks of the
    pure run, whole and in order, followed by a partial chunk `q` only if the sink itself failed (`ioWrite`), in which case
    `q` is a prefix of the next chunk. -/
theorem C04_whole_chunks_key (P : Prims) (r rpk : Bytes) (src : Src) (k : Snk) (hs : src.noFalseEof)
    {res pres : Res} {s' : Src} {k' : Snk} {sender psender : Option Bytes} {writes : List Bytes}
    (hIO : keyDecryptIO P r rpk src k = (res, s', k', sender))
    (hP : keyDecrypt P r rpk src.inp = (writes, pres, psender)) :
    ∃ j q, k'.out = k.out ++ (writes.take j).flatten ++ q ∧ j ≤ writes.length ∧
      (q = [] ∨ (res = .ioWrite ∧ ∃ w, writes[j]? = some w ∧ q <+: w)) ∧
      (res = .ok → pres = .ok ∧ sender = psender ∧ j = writes.length ∧ q = []) := by
  rcases keyDecryptIO_cases hIO hP with ⟨rfl, rfl, hok, _, _⟩ | ⟨s2, pk, h, spk, _, _, _, hsc, hd, hpd, rfl, rfl⟩
  · exact ⟨0, [], by simp, Nat.zero_le _, Or.inl rfl, fun h => absurd h hok⟩
  · obtain ⟨j, q, h1, h2, h3, h4⟩ := decLoopIO_prefix P.aead _ [] chunkSize _ _ 0 s2 k res s' k' writes pres
      (Src.noFalseEof_of_suffix hs hsc) (Nat.le_refl _) (Nat.le_refl _) hd hpd
    refine ⟨j, q, h1, h2, h3, fun hok => ?_⟩
    obtain ⟨h5, h6, h7⟩ := h4 hok
    exact ⟨h5, by rw [hok, h5], h6, h7⟩

/-- **C04 (password mode).** -/
theorem C04_whole_chunks_pass (P : Prims) (pw : Bytes) (src : Src) (k : Snk) (hs : src.noFalseEof)
    {res pres : Res} {s' : Src} {k' : Snk} {writes : List Bytes}
    (hIO : passDecryptIO P pw src k = (res, s', k'))
    (hP : passDecrypt P pw src.inp = (writes, pres)) :
    ∃ j q, k'.out = k.out ++ (writes.take j).flatten ++ q ∧ j ≤ writes.length ∧
      (q = [] ∨ (res = .ioWrite ∧ ∃ w, writes[j]? = some w ∧ q <+: w)) ∧
      (res = .ok → pres = .ok ∧ j = writes.length ∧ q = []) := by
  rcases passDecryptIO_cases hIO hP with ⟨rfl, hok, _, _⟩ | ⟨s2, salt, _, _, _, hsc, hd, hpd⟩
  · exact ⟨0, [], by simp, Nat.zero_le _, Or.inl rfl, fun h => absurd h hok⟩
  · exact decLoopIO_prefix P.aead _ _ chunkSize _ _ 0 s2 k res s' k' writes pres
      (Src.noFalseEof_of_suffix hs hsc) (Nat.le_refl _) (Nat.le_refl _) hd hpd

/-- **C10 prefix (key mode).** For every such script the output is a byte prefix of the fault-free output, and success means
    the whole fault-free output, pure success and the same sender. -/
theorem C10_dec_prefix_key (P : Prims) (r rpk : Bytes) (src : Src) (k : Snk) (hs : src.noFalseEof)
    {res pres : Res} {s' : Src} {k' : Snk} {sender psender : Option Bytes} {writes : List Bytes}
    (hIO : keyDecryptIO P r rpk src k = (res, s', k', sender))
    (hP : keyDecrypt P r rpk src.inp = (writes, pres, psender)) :
    ∃ p, k'.out = k.out ++ p ∧ p <+: writes.flatten ∧
      (res = .ok → p = writes.flatten ∧ pres = .ok ∧ sender = psender) := by
  obtain ⟨j, q, h1, _, h3, h4⟩ := C04_whole_chunks_key P r rpk src k hs hIO hP
  refine ⟨(writes.take j).flatten ++ q, by rw [h1, List.append_assoc], ?_, ?_⟩
  · exact take_flatten_prefix writes j q (h3.imp id (fun h => h.2))
  · intro hok
    obtain ⟨h5, h6, rfl, rfl⟩ := h4 hok
    exact ⟨by simp, h5, h6⟩

/-- **C10 prefix (password mode).** -/
theorem C10_dec_prefix_pass (P : Prims) (pw : Bytes) (src : Src) (k : Snk) (hs : src.noFalseEof)
    {res pres : Res} {s' : Src} {k' : Snk} {writes : List Bytes}
    (hIO : passDecryptIO P pw src k = (res, s', k'))
    (hP : passDecrypt P pw src.inp = (writes, pres)) :
    ∃ p, k'.out = k.out ++ p ∧ p <+: writes.flatten ∧ (res = .ok → p = writes.flatten ∧ pres = .ok) := by
  obtain ⟨j, q, h1, _, h3, h4⟩ := C04_whole_chunks_pass P pw src k hs hIO hP
  refine ⟨(writes.take j).flatten ++ q, by rw [h1, List.append_assoc], ?_, ?_⟩
  · exact take_flatten_prefix writes j q (h3.imp id (fun h => h.2))
  · intro hok
    obtain ⟨h5, rfl, rfl⟩ := h4 hok
    exact ⟨by simp, h5⟩

/-- **C10 (b′), key mode — ALL scripts, no hypothesis at all.** If the I/O run succeeds, then the bytes it consumed
    (`n = s'.pos - src.pos` of them, a prefix of the file) are by themselves a complete file on which the pure `key_decrypt`
    succeeds with the same sender, and exactly its output was written. The reader's declared end of stream is the end of the
    file; with `noFalseEof` the consumed bytes are the whole file (`C10_dec_prefix_key`). -/
theorem C10_dec_ok_consumed_key (P : Prims) (r rpk : Bytes) (src : Src) (k : Snk)
    {s' : Src} {k' : Snk} {sender : Option Bytes}
    (hIO : keyDecryptIO P r rpk src k = (.ok, s', k', sender)) :
    ∃ n writes, s'.pos = src.pos + n ∧ n ≤ src.inp.length ∧ s'.inp = src.inp.drop n ∧
      keyDecrypt P r rpk (src.inp.take n) = (writes, .ok, sender) ∧ k'.out = k.out ++ writes.flatten := by
  obtain ⟨s2, pk, h, spk, hlen, hv, hrm, hpk, hi2, hp2, hd, rfl⟩ := keyDecryptIO_ok hIO
  obtain ⟨n1, ws1, h1, h2, h3, h4, h5⟩ := decLoopIO_ok_consumed P.aead _ [] chunkSize _ 0 s2 k s' k' (Nat.le_refl _) hd
  obtain ⟨t1, t2, t3, t4⟩ := take_header src.inp 4 handshakeLen n1 hlen
  have hs2l : s2.inp.length = src.inp.length - 4 - handshakeLen := by rw [hi2]; simp only [List.length_drop]
  refine ⟨4 + handshakeLen + n1, ws1, by omega, by omega, ?_, ?_, h5⟩
  · rw [h3, hi2, List.drop_drop, List.drop_drop, Nat.add_assoc]
  · rw [keyDecrypt_of_header t4 (by rw [t1]; exact hv) (by rw [t1, t2]; exact hrm) hpk, t3, ← hi2]
    have : decryptChunks P.aead (P.hkdfFile pk h) [] chunkSize (s2.inp.take n1) = (ws1, .ok) := by
      unfold decryptChunks; exact h4 _ (by rw [List.length_take]; omega)
    rw [this]; simp

/-- **C10 (b′), password mode — ALL scripts, no hypothesis at all.** -/
theorem C10_dec_ok_consumed_pass (P : Prims) (pw : Bytes) (src : Src) (k : Snk)
    {s' : Src} {k' : Snk}
    (hIO : passDecryptIO P pw src k = (.ok, s', k')) :
    ∃ n writes, s'.pos = src.pos + n ∧ n ≤ src.inp.length ∧ s'.inp = src.inp.drop n ∧
      passDecrypt P pw (src.inp.take n) = (writes, .ok) ∧ k'.out = k.out ++ writes.flatten := by
  obtain ⟨s2, hlen, hv, hi2, hp2, hd⟩ := passDecryptIO_ok hIO
  obtain ⟨n1, ws1, h1, h2, h3, h4, h5⟩ := decLoopIO_ok_consumed P.aead _ _ chunkSize _ 0 s2 k s' k' (Nat.le_refl _) hd
  obtain ⟨t1, t2, t3, t4⟩ := take_header src.inp 4 32 n1 hlen
  have hs2l : s2.inp.length = src.inp.length - 4 - 32 := by rw [hi2]; simp only [List.length_drop]
  refine ⟨4 + 32 + n1, ws1, by omega, by omega, ?_, ?_, h5⟩
  · rw [h3, hi2, List.drop_drop, List.drop_drop, Nat.add_assoc]
  · rw [passDecrypt_of_header t4 (by rw [t1]; exact hv), t1, t2, t3, ← hi2]
    unfold decryptChunks; exact h4 _ (by rw [List.length_take]; omega)

/-! ### C10 — which side an error comes from -/

/-- **C10 error side (key mode), ALL scripts.** `ioWrite` only if the sink misbehaved; `ioRead` only if the source misbehaved
    or the file itself is truncated; every other error (`format`, `other`, `chunkLen`, `auth`, `unexpectedData`) is the pure
    result — never an artefact of the I/O layer. -/
theorem C10_dec_error_side_key (P : Prims) (r rpk : Bytes) (src : Src) (k : Snk)
    {res pres : Res} {s' : Src} {k' : Snk} {sender psender : Option Bytes} {writes : List Bytes}
    (hIO : keyDecryptIO P r rpk src k = (res, s', k', sender))
    (hP : keyDecrypt P r rpk src.inp = (writes, pres, psender)) :
    (res = .ioWrite → ¬ k.faultFree) ∧
    (res = .ioRead → ¬ src.faultFree ∨ pres = .ioRead) ∧
    (res ≠ .ok → res ≠ .ioWrite → res ≠ .ioRead → pres = res) := by
  rcases keyDecryptIO_cases hIO hP with ⟨rfl, rfl, _, hw, h⟩ | ⟨s2, pk, h, spk, _, _, _, hsc, hd, hpd, rfl, rfl⟩
  · refine ⟨fun h' => absurd h' hw, fun hr => ?_, fun _ _ hr => ?_⟩
    · rcases h with ⟨_, _, _, h1⟩ | ⟨_, h2⟩
      · exact absurd hr h1
      · by_cases hf : src.faultFree
        · exact Or.inr (h2 hf.benign).1
        · exact Or.inl hf
    · rcases h with ⟨h1, _⟩ | ⟨h1, _⟩
      · exact h1.symm
      · exact absurd h1 hr
  · refine ⟨fun hr => ?_, fun hr => ?_, fun h1 h2 h3 => ?_⟩
    · subst hr; exact decLoopIO_ioWrite P.aead _ [] chunkSize _ 0 s2 k s' k' hd
    · subst hr
      rcases decLoopIO_ioRead P.aead _ [] chunkSize (Nat.le_refl _) (Nat.le_refl _) hd hpd with h1 | h1
      · exact Or.inl (fun hf => h1 (Src.faultFree_of_suffix hf hsc))
      · exact Or.inr h1
    · exact decLoopIO_err_agree P.aead _ [] chunkSize _ _ 0 s2 k res s' k' writes pres (Nat.le_refl _) (Nat.le_refl _)
        hd hpd (fun h => absurd h h3) h1 h2

/-- **C10 error side (password mode), ALL scripts.** -/
theorem C10_dec_error_side_pass (P : Prims) (pw : Bytes) (src : Src) (k : Snk)
    {res pres : Res} {s' : Src} {k' : Snk} {writes : List Bytes}
    (hIO : passDecryptIO P pw src k = (res, s', k'))
    (hP : passDecrypt P pw src.inp = (writes, pres)) :
    (res = .ioWrite → ¬ k.faultFree) ∧
    (res = .ioRead → ¬ src.faultFree ∨ pres = .ioRead) ∧
    (res ≠ .ok → res ≠ .ioWrite → res ≠ .ioRead → pres = res) := by
  rcases passDecryptIO_cases hIO hP with ⟨rfl, _, hw, h⟩ | ⟨s2, salt, _, _, _, hsc, hd, hpd⟩
  · refine ⟨fun h' => absurd h' hw, fun hr => ?_, fun _ _ hr => ?_⟩
    · rcases h with ⟨_, _, h1⟩ | ⟨_, h2⟩
      · exact absurd hr h1
      · by_cases hf : src.faultFree
        · exact Or.inr (h2 hf.benign).1
        · exact Or.inl hf
    · rcases h with ⟨h1, _⟩ | ⟨h1, _⟩
      · exact h1.symm
      · exact absurd h1 hr
  · refine ⟨fun hr => ?_, fun hr => ?_, fun h1 h2 h3 => ?_⟩
    · subst hr; exact decLoopIO_ioWrite P.aead _ _ chunkSize _ 0 s2 k s' k' hd
    · subst hr
      rcases decLoopIO_ioRead P.aead _ _ chunkSize (Nat.le_refl _) (Nat.le_refl _) hd hpd with h1 | h1
      · exact Or.inl (fun hf => h1 (Src.faultFree_of_suffix hf hsc))
      · exact Or.inr h1
    · exact decLoopIO_err_agree P.aead _ _ chunkSize _ _ 0 s2 k res s' k' writes pres (Nat.le_refl _) (Nat.le_refl _)
        hd hpd (fun h => absurd h h3) h1 h2

/-! ### C04 / C11 — ordering facts recorded in the sink's log -/

/-- **C04 order (key mode).** `segs` = the `write()` calls logged by this call, oldest first, grouped by chunk: `segs[i]` are
    the writes of chunk `i`. Every one of them was issued with the source standing at offset `132 + recEnd writes i` of the
    file, i.e. exactly at the end of record `i` (`recEnd` counts `32 + |chunk|` per record): the whole record — header, body,
    tag — had been read and no later record had been touched (for the final chunk the 1-byte probe returned nothing).
    Chunk `i` is completely written (sizes sum to its length) before any write of chunk `i+1`, and all logged sizes together
    are the bytes appended to the output. -/
theorem C04_order_key (P : Prims) (hPl : P.Lawful) (r rpk : Bytes) (src : Src) (k : Snk) (hs : src.noFalseEof)
    {res pres : Res} {s' : Src} {k' : Snk} {sender psender : Option Bytes} {writes : List Bytes}
    (hIO : keyDecryptIO P r rpk src k = (res, s', k', sender))
    (hP : keyDecrypt P r rpk src.inp = (writes, pres, psender)) :
    ∃ segs : List (List WLog), k'.log = segs.flatten.reverse ++ k.log ∧ segs.length ≤ writes.length ∧
      k'.out.length = k.out.length + (segs.flatten.map (·.n)).sum ∧
      ∀ i seg, segs[i]? = some seg → ∃ w, writes[i]? = some w ∧
        (∀ e ∈ seg, e.srcPos = src.pos + 132 + recEnd writes i) ∧
        (seg.map (·.n)).sum ≤ w.length ∧ (i + 1 < segs.length → (seg.map (·.n)).sum = w.length) := by
  rcases keyDecryptIO_cases hIO hP with ⟨rfl, _⟩ | ⟨s2, pk, h, spk, _, hp2, _, hsc, hd, hpd, rfl, rfl⟩
  · exact ⟨[], by simp, Nat.zero_le _, by simp, fun i seg hi => by simp at hi⟩
  · rw [gen_handshakeLen] at hp2
    have := decLoopIO_order P.aead hPl.aead _ [] (hPl.hkdfFile_len pk h) chunkSize
      (Src.noFalseEof_of_suffix hs hsc) (Nat.le_refl _) (Nat.le_refl _) hd hpd
    rw [hp2] at this
    exact this

/-- **C04 order (password mode).** Header length 4 + 32; needs the KDF to return a 32-byte key. -/
theorem C04_order_pass (P : Prims) (hA : P.aead.Lawful) (pw : Bytes) (hkdf : ∀ salt, (P.kdf pw salt).length = 32)
    (src : Src) (k : Snk) (hs : src.noFalseEof)
    {res pres : Res} {s' : Src} {k' : Snk} {writes : List Bytes}
    (hIO : passDecryptIO P pw src k = (res, s', k'))
    (hP : passDecrypt P pw src.inp = (writes, pres)) :
    ∃ segs : List (List WLog), k'.log = segs.flatten.reverse ++ k.log ∧ segs.length ≤ writes.length ∧
      k'.out.length = k.out.length + (segs.flatten.map (·.n)).sum ∧
      ∀ i seg, segs[i]? = some seg → ∃ w, writes[i]? = some w ∧
        (∀ e ∈ seg, e.srcPos = src.pos + 36 + recEnd writes i) ∧
        (seg.map (·.n)).sum ≤ w.length ∧ (i + 1 < segs.length → (seg.map (·.n)).sum = w.length) := by
  rcases passDecryptIO_cases hIO hP with ⟨rfl, _⟩ | ⟨s2, salt, _, hp2, _, hsc, hd, hpd⟩
  · exact ⟨[], by simp, Nat.zero_le _, by simp, fun i seg hi => by simp at hi⟩
  · have := decLoopIO_order P.aead hA _ _ (hkdf salt) chunkSize
      (Src.noFalseEof_of_suffix hs hsc) (Nat.le_refl _) (Nat.le_refl _) hd hpd
    rw [hp2] at this
    exact this

/-! ### non-vacuity: concrete scripts with a short read, an `Interrupted`, a 1-byte-accepting sink -/

namespace C10decEx

def pw : Bytes := [1]
def salt : Bytes := zeros 32
def ckey : Bytes := toyPrims.kdf pw salt

/-- a two-chunk password-mode file over the toy primitives: chunk `[7,8]`, then the final chunk `[9]` (103 bytes) -/
def file : Bytes :=
  encPassMagic ++ salt ++ (record toyPrims.aead ckey encPassMagic (be64 0) 0 false [7,8] ++
    record toyPrims.aead ckey encPassMagic (be64 1) 1 true [9])

/-- fault-free: the magic arrives as 3 + 1 bytes, the first record header as 5 + 11, its body as 3 + 1 + rest, … -/
def ffSrc : Src := ⟨file, [.data 3, .data 1, .data 40, .data 5, .data 100, .data 3, .data 1], 0, 0⟩

/-- benign: additionally `Interrupted` inside `read_exact` calls (retried) -/
def bnSrc : Src := ⟨file, [.data 3, .errInterrupted, .data 1, .data 40, .data 5, .errInterrupted, .data 100, .data 3], 0, 0⟩

/-- benign, but the `Interrupted` lands exactly on the trailing-data probe -/
def probeIntSrc : Src := ⟨file, [.data 4, .data 32, .data 16, .data 18, .data 16, .data 17, .errInterrupted], 0, 0⟩

/-- a hard error in the middle of the second record's body -/
def hardErrSrc : Src := ⟨file, [.data 4, .data 32, .data 16, .data 18, .data 16, .data 5, .errOther], 0, 0⟩

/-- one trailing byte after the final record, and a reader that answers the probe with `Ok(0)` -/
def falseEofSrc : Src := ⟨file ++ [99], [.data 4, .data 32, .data 16, .data 18, .data 16, .data 17, .data 0], 0, 0⟩

/-- a sink that accepts one byte at a time (twice), is interrupted in between, then takes everything -/
def snk : Snk := { ws := [.accept 1, .errInterrupted, .accept 1], fs := [.ok] }

/-- a sink that takes one byte and then fails hard -/
def badSnk : Snk := { ws := [.accept 1, .errOther] }

theorem ffSrc_faultFree : ffSrc.faultFree := by
  intro e he
  simp only [ffSrc, List.mem_cons, List.mem_nil_iff, or_false] at he
  rcases he with rfl | rfl | rfl | rfl | rfl | rfl | rfl <;> exact ⟨_, rfl, by decide⟩

theorem bnSrc_benign : bnSrc.benign := by
  intro e he
  simp only [bnSrc, List.mem_cons, List.mem_nil_iff, or_false] at he
  rcases he with rfl | rfl | rfl | rfl | rfl | rfl | rfl | rfl <;>
    first | exact Or.inr rfl | exact Or.inl ⟨_, rfl, by decide⟩

theorem probeIntSrc_benign : probeIntSrc.benign := by
  intro e he
  simp only [probeIntSrc, List.mem_cons, List.mem_nil_iff, or_false] at he
  rcases he with rfl | rfl | rfl | rfl | rfl | rfl | rfl <;>
    first | exact Or.inr rfl | exact Or.inl ⟨_, rfl, by decide⟩

theorem hardErrSrc_noFalseEof : hardErrSrc.noFalseEof := by
  intro e he
  simp only [hardErrSrc, List.mem_cons, List.mem_nil_iff, or_false] at he
  rcases he with rfl | rfl | rfl | rfl | rfl | rfl | rfl <;> simp

theorem snk_benign : snk.benign := by
  refine ⟨fun e he => ?_, fun e he => ?_⟩
  · simp only [snk, List.mem_cons, List.mem_nil_iff, or_false] at he
    rcases he with rfl | rfl | rfl <;> first | exact Or.inr rfl | exact Or.inl ⟨_, rfl, by decide⟩
  · simpa [snk] using he

theorem toy_kdf_len (pw salt : Bytes) : (toyPrims.kdf pw salt).length = 32 := by
  simp [toyPrims, zeros]; omega

/-- a fault-free script over an arbitrary file: 1 byte, a read larger than anything asked for, 3 bytes, then unrestricted -/
def shortSrc (inp : Bytes) : Src := ⟨inp, [.data 1, .data 70000, .data 3], 0, 0⟩

theorem shortSrc_faultFree (inp : Bytes) : (shortSrc inp).faultFree := by
  intro e he
  simp only [shortSrc, List.mem_cons, List.mem_nil_iff, or_false] at he
  rcases he with rfl | rfl | rfl <;> exact ⟨_, rfl, by decide⟩

/-! the pure run, and what the scripted runs really do (evaluated) -/

example : passDecrypt toyPrims pw file = ([[7,8],[9]], .ok) := by decide

example : (passDecryptIO toyPrims pw ffSrc snk).1 = .ok ∧ (passDecryptIO toyPrims pw ffSrc snk).2.2.out = [7,8,9] := by decide
example : (passDecryptIO toyPrims pw bnSrc snk).1 = .ok ∧ (passDecryptIO toyPrims pw bnSrc snk).2.2.out = [7,8,9] := by decide

/-- interrupted probe: `ioRead`, the final chunk `[9]` withheld — the second alternative of `C10_dec_benign_pass` is live,
    and `C10_dec_partition_independence_*` cannot be extended from `faultFree` to `benign` sources -/
example : (passDecryptIO toyPrims pw probeIntSrc snk).1 = .ioRead ∧ (passDecryptIO toyPrims pw probeIntSrc snk).2.2.out = [7,8] := by
  decide

/-- forged end-of-stream on the probe: the I/O run succeeds and writes `[9]`, the pure run on all the bytes says
    `unexpectedData` and writes only `[7,8]` — `noFalseEof` cannot be dropped from C04 / `C10_dec_prefix_*` -/
example : (passDecryptIO toyPrims pw falseEofSrc snk).1 = .ok ∧ (passDecryptIO toyPrims pw falseEofSrc snk).2.2.out = [7,8,9] ∧
    passDecrypt toyPrims pw falseEofSrc.inp = ([[7,8]], .unexpectedData) := by decide

/-- failing sink: `ioWrite` with a partial chunk `q = [7]` — the `q ≠ []` alternative of C04 is live -/
example : (passDecryptIO toyPrims pw ffSrc badSnk).1 = .ioWrite ∧ (passDecryptIO toyPrims pw ffSrc badSnk).2.2.out = [7] := by decide

/-- hard read error inside record 1: `ioRead`, chunk 0 whole, nothing of chunk 1 -/
example : (passDecryptIO toyPrims pw hardErrSrc snk).1 = .ioRead ∧ (passDecryptIO toyPrims pw hardErrSrc snk).2.2.out = [7,8] := by decide

/-- the log of the good run, newest first: chunk 1 written at file offset 103 = 36 + 34 + 33, chunk 0 (two 1-byte writes) at 70 -/
example : (passDecryptIO toyPrims pw ffSrc snk).2.2.log = [⟨103, 11, 1⟩, ⟨70, 8, 1⟩, ⟨70, 8, 1⟩] := by decide

/-! every property theorem applied to concrete values (all hypotheses discharged) -/

example : (passDecryptIO toyPrims pw ffSrc snk).1 = (passDecrypt toyPrims pw file).2 ∧
    (passDecryptIO toyPrims pw ffSrc snk).2.2.out = snk.out ++ (passDecrypt toyPrims pw file).1.flatten :=
  C10_dec_partition_independence_pass toyPrims pw ffSrc snk ffSrc_faultFree snk_benign rfl rfl

example (P : Prims) (r rpk inp : Bytes) :
    (keyDecryptIO P r rpk (shortSrc inp) snk).1 = (keyDecrypt P r rpk inp).2.1 ∧
    (keyDecryptIO P r rpk (shortSrc inp) snk).2.2.2 = (keyDecrypt P r rpk inp).2.2 ∧
    (keyDecryptIO P r rpk (shortSrc inp) snk).2.2.1.out = snk.out ++ (keyDecrypt P r rpk inp).1.flatten :=
  C10_dec_partition_independence_key P r rpk (shortSrc inp) snk (shortSrc_faultFree inp) snk_benign rfl rfl

/-- C01 lifted to the I/O level: the ciphertext of C01's example decrypts to the plaintext and names the sender under EVERY
    fault-free read script, through the 1-byte sink -/
example : ∃ ct, keyEncrypt toyPrims (zeros 32) (zeros 32) (List.replicate 32 1) (List.replicate 32 2) (List.replicate 32 2)
      (List.replicate 32 7) exampleReads = (ct, Res.ok) ∧
    ∀ script : List RdEv, (⟨ct, script, 0, 0⟩ : Src).faultFree →
      (keyDecryptIO toyPrims (List.replicate 32 1) (List.replicate 32 1) ⟨ct, script, 0, 0⟩ snk).1 = .ok ∧
      (keyDecryptIO toyPrims (List.replicate 32 1) (List.replicate 32 1) ⟨ct, script, 0, 0⟩ snk).2.2.2 = some (zeros 32) ∧
      (keyDecryptIO toyPrims (List.replicate 32 1) (List.replicate 32 1) ⟨ct, script, 0, 0⟩ snk).2.2.1.out = exampleReads.flatten := by
  obtain ⟨ct, henc, ⟨writes, hdec, hw⟩, _⟩ := C01_roundtrip toyPrims toyPrims_lawful (zeros 32) (zeros 32) (List.replicate 32 1)
    (List.replicate 32 1) (List.replicate 32 2) (List.replicate 32 2) (List.replicate 32 7) exampleReads
    (List.length_replicate ..) (List.length_replicate ..) (List.length_replicate ..)
    (toy_dhAgree _ _ _) exampleReads_wf exampleReads_le
  refine ⟨ct, henc, fun script hff => ?_⟩
  obtain ⟨h1, h2, h3⟩ := C10_dec_partition_independence_key toyPrims _ _ ⟨ct, script, 0, 0⟩ snk hff snk_benign rfl hdec
  exact ⟨h1, h2, h3.trans (by rw [hw]; rfl)⟩

example := C10_dec_benign_pass toyPrims pw probeIntSrc snk probeIntSrc_benign snk_benign
  (res := (passDecryptIO toyPrims pw probeIntSrc snk).1) (s' := (passDecryptIO toyPrims pw probeIntSrc snk).2.1)
  (k' := (passDecryptIO toyPrims pw probeIntSrc snk).2.2) (writes := (passDecrypt toyPrims pw file).1)
  (pres := (passDecrypt toyPrims pw file).2) rfl rfl

example (P : Prims) (r rpk inp : Bytes) := C10_dec_benign_key P r rpk (shortSrc inp) snk (shortSrc_faultFree inp).benign snk_benign
  (res := (keyDecryptIO P r rpk (shortSrc inp) snk).1) (s' := (keyDecryptIO P r rpk (shortSrc inp) snk).2.1)
  (k' := (keyDecryptIO P r rpk (shortSrc inp) snk).2.2.1) (sender := (keyDecryptIO P r rpk (shortSrc inp) snk).2.2.2)
  (writes := (keyDecrypt P r rpk inp).1) (pres := (keyDecrypt P r rpk inp).2.1) (psender := (keyDecrypt P r rpk inp).2.2) rfl rfl

example := C04_whole_chunks_pass toyPrims pw hardErrSrc badSnk hardErrSrc_noFalseEof
  (res := (passDecryptIO toyPrims pw hardErrSrc badSnk).1) (s' := (passDecryptIO toyPrims pw hardErrSrc badSnk).2.1)
  (k' := (passDecryptIO toyPrims pw hardErrSrc badSnk).2.2) (writes := (passDecrypt toyPrims pw file).1)
  (pres := (passDecrypt toyPrims pw file).2) rfl rfl

example (P : Prims) (r rpk inp : Bytes) := C04_whole_chunks_key P r rpk (shortSrc inp) badSnk (shortSrc_faultFree inp).noFalseEof
  (res := (keyDecryptIO P r rpk (shortSrc inp) badSnk).1) (s' := (keyDecryptIO P r rpk (shortSrc inp) badSnk).2.1)
  (k' := (keyDecryptIO P r rpk (shortSrc inp) badSnk).2.2.1) (sender := (keyDecryptIO P r rpk (shortSrc inp) badSnk).2.2.2)
  (writes := (keyDecrypt P r rpk inp).1) (pres := (keyDecrypt P r rpk inp).2.1) (psender := (keyDecrypt P r rpk inp).2.2) rfl rfl

example := C10_dec_prefix_pass toyPrims pw hardErrSrc badSnk hardErrSrc_noFalseEof
  (res := (passDecryptIO toyPrims pw hardErrSrc badSnk).1) (s' := (passDecryptIO toyPrims pw hardErrSrc badSnk).2.1)
  (k' := (passDecryptIO toyPrims pw hardErrSrc badSnk).2.2) (writes := (passDecrypt toyPrims pw file).1)
  (pres := (passDecrypt toyPrims pw file).2) rfl rfl

example (P : Prims) (r rpk inp : Bytes) := C10_dec_prefix_key P r rpk (shortSrc inp) badSnk (shortSrc_faultFree inp).noFalseEof
  (res := (keyDecryptIO P r rpk (shortSrc inp) badSnk).1) (s' := (keyDecryptIO P r rpk (shortSrc inp) badSnk).2.1)
  (k' := (keyDecryptIO P r rpk (shortSrc inp) badSnk).2.2.1) (sender := (keyDecryptIO P r rpk (shortSrc inp) badSnk).2.2.2)
  (writes := (keyDecrypt P r rpk inp).1) (pres := (keyDecrypt P r rpk inp).2.1) (psender := (keyDecrypt P r rpk inp).2.2) rfl rfl

/-- (b′) on the forged-end-of-stream run: it succeeds having consumed 103 of the 104 bytes, and those 103 bytes are a valid file -/
example : ∃ n writes, (passDecryptIO toyPrims pw falseEofSrc snk).2.1.pos = falseEofSrc.pos + n ∧ n ≤ falseEofSrc.inp.length ∧
    (passDecryptIO toyPrims pw falseEofSrc snk).2.1.inp = falseEofSrc.inp.drop n ∧
    passDecrypt toyPrims pw (falseEofSrc.inp.take n) = (writes, .ok) ∧
    (passDecryptIO toyPrims pw falseEofSrc snk).2.2.out = snk.out ++ writes.flatten :=
  C10_dec_ok_consumed_pass toyPrims pw falseEofSrc snk
    (show passDecryptIO toyPrims pw falseEofSrc snk = (.ok, (passDecryptIO toyPrims pw falseEofSrc snk).2.1,
      (passDecryptIO toyPrims pw falseEofSrc snk).2.2) from Prod.ext (by decide) rfl)

/-- (b′), key mode: the success hypothesis is satisfiable (C01's ciphertext under every fault-free script) -/
example : ∃ ct : Bytes, ∀ script : List RdEv, (⟨ct, script, 0, 0⟩ : Src).faultFree →
    ∃ n writes, n ≤ ct.length ∧
      keyDecrypt toyPrims (List.replicate 32 1) (List.replicate 32 1) (ct.take n) = (writes, .ok, some (zeros 32)) := by
  obtain ⟨ct, _, ⟨writes, hdec, _⟩, _⟩ := C01_roundtrip toyPrims toyPrims_lawful (zeros 32) (zeros 32) (List.replicate 32 1)
    (List.replicate 32 1) (List.replicate 32 2) (List.replicate 32 2) (List.replicate 32 7) exampleReads
    (List.length_replicate ..) (List.length_replicate ..) (List.length_replicate ..)
    (toy_dhAgree _ _ _) exampleReads_wf exampleReads_le
  refine ⟨ct, fun script hff => ?_⟩
  obtain ⟨h1, h2, _⟩ := C10_dec_partition_independence_key toyPrims _ _ ⟨ct, script, 0, 0⟩ snk hff snk_benign rfl hdec
  obtain ⟨n, w, _, hn, _, hk, _⟩ := C10_dec_ok_consumed_key toyPrims (List.replicate 32 1) (List.replicate 32 1) ⟨ct, script, 0, 0⟩ snk
    (show keyDecryptIO toyPrims (List.replicate 32 1) (List.replicate 32 1) ⟨ct, script, 0, 0⟩ snk = (.ok, _, _, some (zeros 32)) from
      Prod.ext h1 (Prod.ext rfl (Prod.ext rfl h2)))
  exact ⟨n, w, hn, hk⟩

/-- no hypothesis on the scripts at all -/
example := C10_dec_error_side_pass toyPrims pw falseEofSrc badSnk
  (res := (passDecryptIO toyPrims pw falseEofSrc badSnk).1) (s' := (passDecryptIO toyPrims pw falseEofSrc badSnk).2.1)
  (k' := (passDecryptIO toyPrims pw falseEofSrc badSnk).2.2) (writes := (passDecrypt toyPrims pw falseEofSrc.inp).1)
  (pres := (passDecrypt toyPrims pw falseEofSrc.inp).2) rfl rfl

example (P : Prims) (r rpk : Bytes) (src : Src) (k : Snk) := C10_dec_error_side_key P r rpk src k
  (res := (keyDecryptIO P r rpk src k).1) (s' := (keyDecryptIO P r rpk src k).2.1)
  (k' := (keyDecryptIO P r rpk src k).2.2.1) (sender := (keyDecryptIO P r rpk src k).2.2.2)
  (writes := (keyDecrypt P r rpk src.inp).1) (pres := (keyDecrypt P r rpk src.inp).2.1) (psender := (keyDecrypt P r rpk src.inp).2.2) rfl rfl

example := C04_order_pass toyPrims toyPrims_lawful.aead pw (toy_kdf_len pw) ffSrc snk ffSrc_faultFree.noFalseEof
  (res := (passDecryptIO toyPrims pw ffSrc snk).1) (s' := (passDecryptIO toyPrims pw ffSrc snk).2.1)
  (k' := (passDecryptIO toyPrims pw ffSrc snk).2.2) (writes := (passDecrypt toyPrims pw file).1)
  (pres := (passDecrypt toyPrims pw file).2) rfl rfl

example (r rpk inp : Bytes) := C04_order_key toyPrims toyPrims_lawful r rpk (shortSrc inp) snk (shortSrc_faultFree inp).noFalseEof
  (res := (keyDecryptIO toyPrims r rpk (shortSrc inp) snk).1) (s' := (keyDecryptIO toyPrims r rpk (shortSrc inp) snk).2.1)
  (k' := (keyDecryptIO toyPrims r rpk (shortSrc inp) snk).2.2.1) (sender := (keyDecryptIO toyPrims r rpk (shortSrc inp) snk).2.2.2)
  (writes := (keyDecrypt toyPrims r rpk inp).1) (pres := (keyDecrypt toyPrims r rpk inp).2.1)
  (psender := (keyDecrypt toyPrims r rpk inp).2.2) rfl rfl

end C10decEx

end Kestrel
