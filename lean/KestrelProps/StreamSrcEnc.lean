/-
  StreamSrcEnc (encrypt side of StreamSrc) — the chunk loops of `src/crypto/src/encrypt.rs` and `src/crypto/src/decrypt.rs`, *as translated mechanically* by
  tools/rs2lean_stream.py into `Kestrel.StreamSrc` (KestrelModel/GeneratedStream.lean, regenerated from the Rust source on every
  run), are the hand-written I/O-level model `encryptChunksIO` / `decryptChunksIO` (KestrelModel/Chunks.lean) — same result,
  same final source state (remaining input, remaining script, position, number of reads), same final sink state (output bytes,
  remaining write / flush scripts, write log, flush count) — for EVERY source script (short reads, hard errors, interruptions,
  scripted `Ok(0)`), EVERY sink script (partial writes, zero-length writes, hard errors, interruptions) and EVERY flush script.

  Nothing here is tied to the Rust text by hand: if encrypt.rs / decrypt.rs change, the generated definitions change and these
  theorems are re-checked against what the code says now.  Trusted: the translator, the combinator / glue files
  KestrelModel/RsPrelude.lean and KestrelModel/RsIO.lean, the scripted I/O model KestrelModel/IO.lean, and the reading of
  usize / u64 / u32 as `Nat` (side conditions in the header of GeneratedStream.lean).

  Hypotheses.  The ONLY hypothesis of the two main theorems is the fuel bound (the translated `loop` takes an explicit
  iteration budget; `none` = budget exhausted):
    * encrypt:  `s.inp.length + s.script.length + 2 ≤ fuel`  — every iteration that continues has consumed a script entry or
      at least one input byte (a read that returns 0 ends the loop);
    * decrypt:  `s.inp.length + 1 ≤ fuel`                     — every iteration that continues has consumed ≥ 32 input bytes.
  No hypothesis on `cs` (the theorem holds for every `Nat`; `chunk_size : u32` only matters for the faithfulness of the `Nat`
  reading: `be32` truncates exactly as `as u32` followed by `to_be_bytes` does, `be32_truncU32`), none on the key length (both
  sides call the same abstract `A.enc` / `A.dec`; the Rust AEAD panics on a key that is not 32 bytes), none on `A`.

  Helper lemmas: KestrelProofs/StreamSrcCommon.lean, StreamSrcEnc.lean, StreamSrcDec.lean.  The encrypt side and the decrypt
  side are separate modules (KestrelProps/StreamSrcEnc.lean, StreamSrcDec.lean; KestrelProps/StreamSrc.lean imports both), so
  that a change of `encrypt.rs` cannot break the module of the decrypt theorems and vice versa; the data of the non-vacuity
  examples is in KestrelProps/StreamSrcData.lean (it does not mention generated code).
-/
import KestrelProofs.StreamSrcEnc
import KestrelProps.StreamSrcData
namespace Kestrel
open EncIO

/-! ## the main theorem -/

/-- **StreamSrc (encrypt_chunks).** For every AEAD, key, AAD, chunk size, source and sink (with their scripts), and every fuel
    at or above the bound, the translated `encrypt_chunks` returns exactly what the hand-written `encryptChunksIO` returns:
    the result, the final source and the final sink. -/
theorem stream_source_encrypt_chunks (A : Aead) (key aad : Bytes) (cs : Nat) (s : Src) (k : Snk) (fuel : Nat)
    (hf : s.inp.length + s.script.length + 2 ≤ fuel) :
    StreamSrc.encrypt.encrypt_chunks A s k key aad cs fuel = some (encryptChunksIO A key aad cs s k) :=
  StreamSrc.encrypt_chunks_eq A key aad cs s k fuel hf

/-- the hypothesis is satisfiable on a faulty script (interrupted read, interrupted and partial writes), chunk size 2 -/
example : StreamSrc.encrypt.encrypt_chunks toyPrims.aead ssSrcInt ssSnk (zeros 32) [9] 2 10 =
    some (encryptChunksIO toyPrims.aead (zeros 32) [9] 2 ssSrcInt ssSnk) :=
  stream_source_encrypt_chunks _ _ _ _ _ _ 10 (by decide)

/-- … and the run is a non-trivial one: the first record is written, then the interrupted read surfaces -/
example : (encryptChunksIO toyPrims.aead (zeros 32) [9] 2 ssSrcInt ssSnk).1 = .ioRead ∧
    (encryptChunksIO toyPrims.aead (zeros 32) [9] 2 ssSrcInt ssSnk).2.2.out.length = 34 := by decide

/-! ## properties of the hand-written model, transferred to the translated code -/

/-- **Every I/O failure surfaces, and only I/O failures do (encrypt).** The translated `encrypt_chunks` ends in one of four
    ways; `IORead` only if the source script contains an error or interruption; `IOWrite` only if the sink is not benign
    (a hard error, a zero-length accept, or a failing flush).  (From `EncIO.encryptChunksIO_res/_ioRead/_ioWrite`.) -/
theorem stream_source_enc_failures_surface (A : Aead) (key aad : Bytes) (cs : Nat) (s : Src) (k : Snk) (fuel : Nat)
    (hf : s.inp.length + s.script.length + 2 ≤ fuel) :
    ∃ res s' k', StreamSrc.encrypt.encrypt_chunks A s k key aad cs fuel = some (res, s', k') ∧
      (res = .ok ∨ res = .ioRead ∨ res = .ioWrite ∨ res = .unexpectedData) ∧
      (res = .ioRead → Src.hasErr s) ∧ (res = .ioWrite → ¬ Snk.benign k) :=
  StreamSrc.enc_failures_surface A key aad cs s k fuel hf

example : ∃ res s' k', StreamSrc.encrypt.encrypt_chunks toyPrims.aead ssSrc ssSnkZero (zeros 32) [] 2 9 = some (res, s', k') ∧
    (res = .ok ∨ res = .ioRead ∨ res = .ioWrite ∨ res = .unexpectedData) ∧
    (res = .ioRead → Src.hasErr ssSrc) ∧ (res = .ioWrite → ¬ Snk.benign ssSnkZero) :=
  stream_source_enc_failures_surface _ _ _ _ _ _ 9 (by decide)

/-- **What was written is a prefix of the fault-free output (encrypt), every script.** What the translated `encrypt_chunks`
    appends to the sink is a prefix of the pure-level output for the source's read schedule, and all of it on success.
    (From `EncIO.encryptChunksIO_prefix`, C10.) -/
theorem stream_source_enc_prefix (A : Aead) (key aad : Bytes) (cs : Nat) (s : Src) (k : Snk) (fuel : Nat)
    (hf : s.inp.length + s.script.length + 2 ≤ fuel) :
    ∃ res s' k' p, StreamSrc.encrypt.encrypt_chunks A s k key aad cs fuel = some (res, s', k') ∧ k'.out = k.out ++ p ∧
      p <+: (encryptChunks A key aad (Src.reads cs s)).1 ∧
      (res = .ok → p = (encryptChunks A key aad (Src.reads cs s)).1) :=
  StreamSrc.enc_prefix A key aad cs s k fuel hf

example : ∃ res s' k' p, StreamSrc.encrypt.encrypt_chunks toyPrims.aead ssSrcInt ssSnk (zeros 32) [] 2 10 = some (res, s', k') ∧
    k'.out = ssSnk.out ++ p ∧ p <+: (encryptChunks toyPrims.aead (zeros 32) [] (Src.reads 2 ssSrcInt)).1 ∧
    (res = .ok → p = (encryptChunks toyPrims.aead (zeros 32) [] (Src.reads 2 ssSrcInt)).1) :=
  stream_source_enc_prefix _ _ _ _ _ _ 10 (by decide)

/-- **Partition independence (encrypt).** Fault-free source (any partition into short reads), benign sink: the translated
    `encrypt_chunks` succeeds and writes exactly the serialisation of the chunks of the read schedule, which is a partition of
    the input.  (From `EncIO.encryptChunksIO_faultFree`, C10.) -/
theorem stream_source_enc_faultFree (A : Aead) (key aad : Bytes) (cs : Nat) (hcs : 0 < cs) (s : Src) (k : Snk) (fuel : Nat)
    (hf : s.inp.length + s.script.length + 2 ≤ fuel) (hs : Src.faultFree s) (hk : Snk.benign k) :
    ∃ s' k', StreamSrc.encrypt.encrypt_chunks A s k key aad cs fuel = some (.ok, s', k') ∧
      k'.out = k.out ++ serialize A key aad be64 0 (fileChunks (Src.reads cs s)) ∧ (Src.reads cs s).flatten = s.inp :=
  StreamSrc.enc_faultFree A key aad cs hcs s k fuel hf hs hk

example : ∃ s' k', StreamSrc.encrypt.encrypt_chunks toyPrims.aead ssSrc ssSnk (zeros 32) [] 2 9 = some (.ok, s', k') ∧
    k'.out = ssSnk.out ++ serialize toyPrims.aead (zeros 32) [] be64 0 (fileChunks (Src.reads 2 ssSrc)) ∧
    (Src.reads 2 ssSrc).flatten = ssSrc.inp :=
  stream_source_enc_faultFree _ _ _ 2 (by decide) _ _ 9 (by decide) ssSrc_faultFree ssSnk_benign

/-! ## stretch: the file-level functions -/

/-- **StreamSrc (pass_encrypt).** The translated `pass_encrypt` — magic number, salt, flush, then `encrypt_chunks` under the
    scrypt key with the magic number as AAD — is the hand-written `passEncryptIO`, on every source / sink / flush script.
    `scrypt(password, &salt, SCRYPT_N, SCRYPT_R, SCRYPT_P, 32)` is the field `P.kdf` (RsIO.scrypt); the AEAD of `encrypt_chunks`
    is `P.aead`.  `file_format` is unused by the code. -/
theorem stream_source_pass_encrypt (P : Prims) (pw salt : Bytes) (ff : StreamSrc.PassFileFormat) (s : Src) (k : Snk) (fuel : Nat)
    (hf : s.inp.length + s.script.length + 2 ≤ fuel) :
    StreamSrc.encrypt.pass_encrypt P.aead P s k pw salt ff fuel = some (passEncryptIO P pw salt s k) :=
  StreamSrc.pass_encrypt_eq P pw salt ff s k fuel hf

example : StreamSrc.encrypt.pass_encrypt toyPrims.aead toyPrims ssSrcInt ssSnk [1, 2] (zeros 32) .V1 10 =
    some (passEncryptIO toyPrims [1, 2] (zeros 32) ssSrcInt ssSnk) :=
  stream_source_pass_encrypt _ _ _ _ _ _ 10 (by decide)

/-- **StreamSrc (key_encrypt).** With the ephemeral pair and the payload key supplied (`Some`), the translated `key_encrypt` —
    Noise message, prologue, message, flush, then `encrypt_chunks` under HKDF(payload key, handshake hash) with empty AAD — is
    the hand-written `keyEncryptIO`, on every script.  Externals: `noise_encrypt` = `RsIO.noiseEncrypt` (= `Noise.writeMessage`
    when both ephemeral halves are given), `hkdf_sha256(&[], .., .., 32)` = `P.hkdfFile`, `secure_random` = the parameter `rand`
    (unused when the payload key is given).  The closure `|_| EncryptError::Other(..)` is `fun _ => Res.other`. -/
theorem stream_source_key_encrypt (P : Prims) (rand : Nat → Bytes) (s spk rs e epk pk : Bytes) (ff : StreamSrc.AsymFileFormat)
    (src : Src) (k : Snk) (fuel : Nat) (hf : src.inp.length + src.script.length + 2 ≤ fuel) :
    StreamSrc.encrypt.key_encrypt P.aead P rand src k s spk rs (some e) (some epk) (some pk) ff fuel =
      some (keyEncryptIO P s spk rs e epk pk src k) :=
  StreamSrc.key_encrypt_eq P rand s spk rs e epk pk ff src k fuel hf

example : StreamSrc.encrypt.key_encrypt toyPrims.aead toyPrims (fun n => zeros n) ssSrcInt ssSnk (zeros 32) (zeros 32)
      (List.replicate 32 1) (some (List.replicate 32 2)) (some (List.replicate 32 2)) (some (List.replicate 32 7)) .V1 10 =
    some (keyEncryptIO toyPrims (zeros 32) (zeros 32) (List.replicate 32 1) (List.replicate 32 2) (List.replicate 32 2)
      (List.replicate 32 7) ssSrcInt ssSnk) :=
  stream_source_key_encrypt _ _ _ _ _ _ _ _ _ _ _ 10 (by decide)

end Kestrel
