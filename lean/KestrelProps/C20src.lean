/-
  C20 on the TRANSLATED source.  `KestrelProps/C20.lean` proves the life-cycle theorems over a three-Boolean table per container
  (`Generated.containers`) that tools/gen_model_inputs.py extracts with regular expressions.  Here the table is tied to the
  `struct` / `impl Drop` / `impl Zeroize` / `Clone` code as tools/rs2lean_containers.py translates it on every run
  (`KestrelModel/GeneratedContainers.lean`; per-container theorems `containers_source_*` in KestrelProofs/ContainersSrc.lean).

  * `containers_source_found`        the table lists exactly the structs of the source that have a `Drop` / `Zeroize` impl.
  * `containers_source_table_<T>`    each Boolean of the table row is what the generated code shows:
        `dropZeroizes = true`        iff the generated `drop` is the generated `zeroize`  (`∀ v, drop v = zeroize v`,
                                     `containers_source_drop_is_zeroize_<T>`);
        `zeroizeCoversSecret = true` iff the generated `zeroize` leaves EVERY byte-carrying field zero, of the same size;
        `Lifecycle.dropContents c b = (T.drop ⟨b⟩).bytes`   what the model releases on `drop` is what the generated `drop` leaves;
        `T.cloneFrom ⟨bi⟩ ⟨bj⟩ = (⟨bj⟩, [if c.assignDropsOld then dropContents c bi else bi])`   what the model does on
                                     `cloneFrom` (with the row's `assignDropsOld`) is what the generated `clone_from` does: the
                                     default one, or a hand-written one with the same effect.
    `containers_source_table` is their conjunction.
  * `containers_source_machine_<T>`  the life-cycle machine run on the generated `drop` / `cloneFrom` (no table) is
                                     `Lifecycle.run` on the table row, for every program.
  * `containers_source_C20_<T>`      hence: for every program, every buffer released by the machine that runs the GENERATED code
                                     holds zeros only.  The table does not occur in this statement.

  What is NOT covered (see tools/selftest_containers.py for the seeded changes): how the wipe is compiled (volatile stores,
  dead-store elimination: C20-m1 is only seen as data, `containers_source_volatile_*`), the capacity of a `Vec` beyond its
  length (C20-m6), copies of the secret outside the struct, panics / unwinding (C20-m2 is refused by the translator, not modelled),
  threads (C20-m5 is refused).
-/
import KestrelProofs.ContainersSrc
import KestrelProps.C20
namespace Kestrel
open Generated Lifecycle ContainersSrc

/-- the regex-extracted table and the translator find the same containers -/
theorem containers_source_found :
    ((ContainersSrc.containers.map (·.1)).all fun n => (Generated.containers.map (·.name)).contains n) = true ∧
    ((Generated.containers.map (·.name)).all fun n => (ContainersSrc.containers.map (·.1)).contains n) = true := by
  decide

/-! ### the table row of each container is what the generated code shows -/

/-- the generated `Drop::drop` IS the generated `Zeroize::zeroize` (nothing else is done, and no field has drop glue that wipes) -/
theorem containers_source_drop_is_zeroize_PrivateKey (v : PrivateKey) : PrivateKey.drop v = PrivateKey.zeroize v := by
  cases v
  containers_simp [PrivateKey.drop, PrivateKey.zeroize]

/-- the generated `Drop::drop` IS the generated `Zeroize::zeroize` (nothing else is done, and no field has drop glue that wipes) -/
theorem containers_source_drop_is_zeroize_PayloadKey (v : PayloadKey) : PayloadKey.drop v = PayloadKey.zeroize v := by
  cases v
  containers_simp [PayloadKey.drop, PayloadKey.zeroize]

/-- the generated `Drop::drop` IS the generated `Zeroize::zeroize` (nothing else is done, and no field has drop glue that wipes) -/
theorem containers_source_drop_is_zeroize_ZeroedString (v : ZeroedString) : ZeroedString.drop v = ZeroedString.zeroize v := by
  cases v
  containers_simp [ZeroedString.drop, ZeroedString.zeroize]

/-- **`PrivateKey`: table row = generated code.** -/
theorem containers_source_table_PrivateKey :
    ∃ c, Lifecycle.container "PrivateKey" = some c ∧
      (c.dropZeroizes = true ↔ ∀ v, PrivateKey.drop v = PrivateKey.zeroize v) ∧
      (c.zeroizeCoversSecret = true ↔
        ∀ v, PrivateKey.allWiped (PrivateKey.zeroize v) ∧ PrivateKey.sameShape v (PrivateKey.zeroize v)) ∧
      (∀ b, Lifecycle.dropContents c b = (PrivateKey.drop ⟨b⟩).bytes) ∧
      (∀ bi bj, PrivateKey.cloneFrom ⟨bi⟩ ⟨bj⟩ =
        (⟨bj⟩, [if c.assignDropsOld then Lifecycle.dropContents c bi else bi])) := by
  refine ⟨⟨"PrivateKey", true, true, true⟩, by decide, ⟨fun _ => containers_source_drop_is_zeroize_PrivateKey, fun _ => rfl⟩,
    ⟨fun _ v => ?_, fun _ => rfl⟩, fun b => ?_, fun bi bj => ?_⟩
  · rw [← containers_source_drop_is_zeroize_PrivateKey]; exact containers_source_drop_wipes_PrivateKey v
  · simp [PrivateKey.bytes, PrivateKey.drop, PrivateKey.zeroize, RsZeroize.bytes, Lifecycle.dropContents]
  · simp [PrivateKey.cloneFrom, PrivateKey.blocks, PrivateKey.drop, PrivateKey.zeroize, PrivateKey.clone,
      RsZeroize.blocks, RsZeroize.bytes,
      Lifecycle.dropContents]

/-- **`PayloadKey`: table row = generated code.** -/
theorem containers_source_table_PayloadKey :
    ∃ c, Lifecycle.container "PayloadKey" = some c ∧
      (c.dropZeroizes = true ↔ ∀ v, PayloadKey.drop v = PayloadKey.zeroize v) ∧
      (c.zeroizeCoversSecret = true ↔
        ∀ v, PayloadKey.allWiped (PayloadKey.zeroize v) ∧ PayloadKey.sameShape v (PayloadKey.zeroize v)) ∧
      (∀ b, Lifecycle.dropContents c b = (PayloadKey.drop ⟨b⟩).bytes) ∧
      (∀ bi bj, PayloadKey.cloneFrom ⟨bi⟩ ⟨bj⟩ =
        (⟨bj⟩, [if c.assignDropsOld then Lifecycle.dropContents c bi else bi])) := by
  refine ⟨⟨"PayloadKey", true, true, true⟩, by decide, ⟨fun _ => containers_source_drop_is_zeroize_PayloadKey, fun _ => rfl⟩,
    ⟨fun _ v => ?_, fun _ => rfl⟩, fun b => ?_, fun bi bj => ?_⟩
  · rw [← containers_source_drop_is_zeroize_PayloadKey]; exact containers_source_drop_wipes_PayloadKey v
  · simp [PayloadKey.bytes, PayloadKey.drop, PayloadKey.zeroize, RsZeroize.bytes, Lifecycle.dropContents]
  · simp [PayloadKey.cloneFrom, PayloadKey.blocks, PayloadKey.drop, PayloadKey.zeroize, PayloadKey.clone,
      RsZeroize.blocks, RsZeroize.bytes,
      Lifecycle.dropContents]

/-- **`ZeroedString`: table row = generated code.** -/
theorem containers_source_table_ZeroedString :
    ∃ c, Lifecycle.container "ZeroedString" = some c ∧
      (c.dropZeroizes = true ↔ ∀ v, ZeroedString.drop v = ZeroedString.zeroize v) ∧
      (c.zeroizeCoversSecret = true ↔
        ∀ v, ZeroedString.allWiped (ZeroedString.zeroize v) ∧ ZeroedString.sameShape v (ZeroedString.zeroize v)) ∧
      (∀ b, Lifecycle.dropContents c b = (ZeroedString.drop ⟨b⟩).bytes) := by
  refine ⟨⟨"ZeroedString", true, true, true⟩, by decide, ⟨fun _ => containers_source_drop_is_zeroize_ZeroedString, fun _ => rfl⟩,
    ⟨fun _ v => ?_, fun _ => rfl⟩, fun b => ?_⟩
  · rw [← containers_source_drop_is_zeroize_ZeroedString]; exact containers_source_drop_wipes_ZeroedString v
  · simp [ZeroedString.bytes, ZeroedString.drop, ZeroedString.zeroize, RsZeroize.bytes, Lifecycle.dropContents]

/-- **the table is what the generated code shows**, for its three rows -/
theorem containers_source_table :
    (∃ c, Lifecycle.container "PrivateKey" = some c ∧ c ∈ Generated.containers ∧
      (∀ b, Lifecycle.dropContents c b = (PrivateKey.drop ⟨b⟩).bytes)) ∧
    (∃ c, Lifecycle.container "PayloadKey" = some c ∧ c ∈ Generated.containers ∧
      (∀ b, Lifecycle.dropContents c b = (PayloadKey.drop ⟨b⟩).bytes)) ∧
    (∃ c, Lifecycle.container "ZeroedString" = some c ∧ c ∈ Generated.containers ∧
      (∀ b, Lifecycle.dropContents c b = (ZeroedString.drop ⟨b⟩).bytes)) := by
  refine ⟨?_, ?_, ?_⟩
  · obtain ⟨c, hc, _, _, hd, _⟩ := containers_source_table_PrivateKey
    exact ⟨c, hc, List.mem_of_find?_eq_some hc, hd⟩
  · obtain ⟨c, hc, _, _, hd, _⟩ := containers_source_table_PayloadKey
    exact ⟨c, hc, List.mem_of_find?_eq_some hc, hd⟩
  · obtain ⟨c, hc, _, _, hd⟩ := containers_source_table_ZeroedString
    exact ⟨c, hc, List.mem_of_find?_eq_some hc, hd⟩

/-- non-vacuity: the link is between two things that can differ — for a row without a zeroizing `Drop` the model releases the
    secret, which the generated `drop` of the real source does not -/
example : Lifecycle.dropContents ⟨"PrivateKey", false, true, true⟩ [1, 2, 3] ≠ (PrivateKey.drop ⟨[1, 2, 3]⟩).bytes := by decide

/-! ### non-vacuity of the per-container theorems of KestrelProofs/ContainersSrc.lean (concrete values) -/

/-- a value with a non-zero secret is not `allWiped`; after `drop` its bytes are the zeros of the same size -/
example : ¬ PrivateKey.allWiped (PrivateKey.ofBytes [1, 2, 3]) ∧
    (PrivateKey.drop (PrivateKey.ofBytes [1, 2, 3])).bytes = [0, 0, 0] := by
  refine ⟨fun h => ?_, by decide⟩
  have := (containers_source_drop_wipes_PrivateKey (PrivateKey.ofBytes [1, 2, 3])).1
  have h1 : (1 : UInt8) = 0 := by
    have hb : RsZeroize.allBlocksWiped (PrivateKey.blocks (PrivateKey.ofBytes [1, 2, 3])) := by
      simpa [PrivateKey.blocks, PrivateKey.allWiped] using h
    exact hb [1, 2, 3] (by decide) 1 (by decide)
  exact absurd h1 (by decide)


example : PrivateKey.cloneFrom (PrivateKey.ofBytes [1, 2, 3]) (PrivateKey.ofBytes [4, 5]) =
    (PrivateKey.ofBytes [4, 5], [[0, 0, 0]]) := by decide


example : (PayloadKey.drop (PayloadKey.ofBytes [9, 9])).bytes = [0, 0] ∧ (PayloadKey.ofBytes [9, 9]).bytes ≠ [0, 0] := by decide


example : PayloadKey.cloneFrom (PayloadKey.ofBytes [1, 2, 3]) (PayloadKey.ofBytes [4, 5]) =
    (PayloadKey.ofBytes [4, 5], [[0, 0, 0]]) := by decide


example : (ZeroedString.drop (ZeroedString.ofBytes [112, 119])).bytes = [0, 0] ∧
    (ZeroedString.ofBytes [112, 119]).bytes ≠ [0, 0] := by decide

/-! ### the life-cycle machine on the generated code -/

/-- the life-cycle machine of `KestrelModel/Lifecycle.lean` running the GENERATED code of `PrivateKey`: `drop` releases what the
    generated `PrivateKey.drop` leaves in the buffer; `a.clone_from(&b)` is the generated `PrivateKey.cloneFrom` -/
def PrivateKey.machine (ops : List Op) : Heap :=
  Lifecycle.runWith (fun b => (PrivateKey.drop ⟨b⟩).bytes) 
    (fun bi bj => ((PrivateKey.cloneFrom ⟨bi⟩ ⟨bj⟩).1.bytes, (PrivateKey.cloneFrom ⟨bi⟩ ⟨bj⟩).2)) ops

/-- the machine on the generated code of `PrivateKey` is `Lifecycle.run` on the table row, for every program -/
theorem containers_source_machine_PrivateKey :
    ∃ c, Lifecycle.container "PrivateKey" = some c ∧ ∀ ops, PrivateKey.machine ops = Lifecycle.run c ops := by
  refine ⟨⟨"PrivateKey", true, true, true⟩, by decide, fun ops => ?_⟩
  refine Lifecycle.run_eq_runWith _ _ _ (fun b => ?_) (fun bi bj => ?_) ops
  · simp [PrivateKey.bytes, PrivateKey.drop, PrivateKey.zeroize, RsZeroize.bytes, Lifecycle.dropContents]
  · simp [PrivateKey.bytes, PrivateKey.cloneFrom, PrivateKey.blocks, PrivateKey.drop, PrivateKey.zeroize, PrivateKey.clone,
      RsZeroize.blocks, RsZeroize.bytes,
      Lifecycle.dropContents]

/-- **C20 on the translated source, `PrivateKey`.** For every program of constructions, clones, overwrites and drops, every buffer
    released by the machine that runs the generated `drop` / `cloneFrom` holds zeros only. -/
theorem containers_source_C20_PrivateKey (ops : List Op) : ∀ r ∈ (PrivateKey.machine ops).released, ∀ x ∈ r, x = 0 := by
  obtain ⟨c, hc, h⟩ := containers_source_machine_PrivateKey
  rw [h ops]
  exact C20_named "PrivateKey" c hc ops

example : (PrivateKey.machine [.fromBytes [1, 2, 3], .fromBytes [4, 5], .clone 0, .cloneFrom 0 1, .drop 0, .drop 1, .drop 2]).released =
    [[0, 0, 0], [0, 0], [0, 0], [0, 0, 0]] := by decide

/-- the life-cycle machine of `KestrelModel/Lifecycle.lean` running the GENERATED code of `PayloadKey`: `drop` releases what the
    generated `PayloadKey.drop` leaves in the buffer; `a.clone_from(&b)` is the generated `PayloadKey.cloneFrom` -/
def PayloadKey.machine (ops : List Op) : Heap :=
  Lifecycle.runWith (fun b => (PayloadKey.drop ⟨b⟩).bytes) 
    (fun bi bj => ((PayloadKey.cloneFrom ⟨bi⟩ ⟨bj⟩).1.bytes, (PayloadKey.cloneFrom ⟨bi⟩ ⟨bj⟩).2)) ops

/-- the machine on the generated code of `PayloadKey` is `Lifecycle.run` on the table row, for every program -/
theorem containers_source_machine_PayloadKey :
    ∃ c, Lifecycle.container "PayloadKey" = some c ∧ ∀ ops, PayloadKey.machine ops = Lifecycle.run c ops := by
  refine ⟨⟨"PayloadKey", true, true, true⟩, by decide, fun ops => ?_⟩
  refine Lifecycle.run_eq_runWith _ _ _ (fun b => ?_) (fun bi bj => ?_) ops
  · simp [PayloadKey.bytes, PayloadKey.drop, PayloadKey.zeroize, RsZeroize.bytes, Lifecycle.dropContents]
  · simp [PayloadKey.bytes, PayloadKey.cloneFrom, PayloadKey.blocks, PayloadKey.drop, PayloadKey.zeroize, PayloadKey.clone,
      RsZeroize.blocks, RsZeroize.bytes,
      Lifecycle.dropContents]

/-- **C20 on the translated source, `PayloadKey`.** For every program of constructions, clones, overwrites and drops, every buffer
    released by the machine that runs the generated `drop` / `cloneFrom` holds zeros only. -/
theorem containers_source_C20_PayloadKey (ops : List Op) : ∀ r ∈ (PayloadKey.machine ops).released, ∀ x ∈ r, x = 0 := by
  obtain ⟨c, hc, h⟩ := containers_source_machine_PayloadKey
  rw [h ops]
  exact C20_named "PayloadKey" c hc ops

example : (PayloadKey.machine [.fromBytes [1, 2, 3], .fromBytes [4, 5], .clone 0, .cloneFrom 0 1, .drop 0, .drop 1, .drop 2]).released =
    [[0, 0, 0], [0, 0], [0, 0], [0, 0, 0]] := by decide

/-- the life-cycle machine of `KestrelModel/Lifecycle.lean` running the GENERATED code of `ZeroedString`: `drop` releases what the
    generated `ZeroedString.drop` leaves in the buffer; `ZeroedString` has no `Clone`; the overwrite operation stands for the plain assignment `*a = b`, which drops the old value of `a` -/
def ZeroedString.machine (ops : List Op) : Heap :=
  Lifecycle.runWith (fun b => (ZeroedString.drop ⟨b⟩).bytes) (fun bi bj => (bj, [(ZeroedString.drop ⟨bi⟩).bytes])) ops

/-- the machine on the generated code of `ZeroedString` is `Lifecycle.run` on the table row, for every program -/
theorem containers_source_machine_ZeroedString :
    ∃ c, Lifecycle.container "ZeroedString" = some c ∧ ∀ ops, ZeroedString.machine ops = Lifecycle.run c ops := by
  refine ⟨⟨"ZeroedString", true, true, true⟩, by decide, fun ops => ?_⟩
  refine Lifecycle.run_eq_runWith _ _ _ (fun b => ?_) (fun bi bj => ?_) ops
  · simp [ZeroedString.bytes, ZeroedString.drop, ZeroedString.zeroize, RsZeroize.bytes, Lifecycle.dropContents]
  · simp [ZeroedString.bytes, ZeroedString.drop, ZeroedString.zeroize, RsZeroize.bytes, Lifecycle.dropContents]

/-- **C20 on the translated source, `ZeroedString`.** For every program of constructions, clones, overwrites and drops, every buffer
    released by the machine that runs the generated `drop` / `cloneFrom` holds zeros only. -/
theorem containers_source_C20_ZeroedString (ops : List Op) : ∀ r ∈ (ZeroedString.machine ops).released, ∀ x ∈ r, x = 0 := by
  obtain ⟨c, hc, h⟩ := containers_source_machine_ZeroedString
  rw [h ops]
  exact C20_named "ZeroedString" c hc ops

example : (ZeroedString.machine [.fromBytes [1, 2, 3], .fromBytes [4, 5], .clone 0, .cloneFrom 0 1, .drop 0, .drop 1, .drop 2]).released =
    [[0, 0, 0], [0, 0], [0, 0], [0, 0, 0]] := by decide

end Kestrel
