/-
  Data for the non-vacuity examples of KestrelProps/StreamSrcEnc.lean, StreamSrcDec.lean and NoiseStreamSrc.lean: scripted sources
  and sinks.  Nothing here mentions code generated from the Rust sources.
-/
import KestrelProofs.EncIO
import KestrelProps.C01
namespace Kestrel
open EncIO

/-! ### data for the non-vacuity examples -/

/-- five bytes; two 2-byte reads, then an interrupted read (which `encrypt_chunks` does not retry) -/
def ssSrcInt : Src := { inp := [1, 2, 3, 4, 5], script := [.data 2, .data 2, .errInterrupted] }
/-- five bytes; a 2-byte read, a 1-byte read, then whatever the buffer takes -/
def ssSrc : Src := { inp := [1, 2, 3, 4, 5], script := [.data 2, .data 1] }
/-- a sink that takes 3 bytes, is interrupted once, takes 1 byte, then everything; first flush ok -/
def ssSnk : Snk := { ws := [.accept 3, .errInterrupted, .accept 1], fs := [.ok] }
/-- a sink whose second write reports `Ok(0)` -/
def ssSnkZero : Snk := { ws := [.accept 16, .accept 0] }

theorem ssSrc_faultFree : Src.faultFree ssSrc := (Src.faultFree_iff_conforming ssSrc).mpr (by decide)

theorem ssSnk_benign : Snk.benign ssSnk := by
  refine ⟨fun e he => ?_, fun f hf => ?_⟩
  · simp only [ssSnk, List.mem_cons, List.mem_nil_iff, or_false] at he
    rcases he with h | h | h <;> subst h
    · exact Or.inl ⟨3, rfl, by decide⟩
    · exact Or.inr rfl
    · exact Or.inl ⟨1, rfl, by decide⟩
  · simpa [ssSnk] using hf

/-- a three-chunk stream ([1,2], [3], [4,5]) for the examples: what the model's encryptor writes for `ssSrc` with chunk size 3 -/
def ssCt : Bytes := (encryptChunksIO toyPrims.aead (zeros 32) [9] 3 ssSrc {}).2.2.out

end Kestrel
