/-
  C13 — a failed command never creates or clobbers the output file prematurely.

  The CLI model (`KestrelModel/Cli.lean`) runs the library entry points over the unscripted source `{ inp := input }` and the
  unscripted sink `{}`; `deliver` turns the final sink into file-system effects the way `OnDemandFile` does: the output file
  is created (truncated) by the first `write` or `flush` CALL, and with no call at all the path is left exactly as it was.

  * Every failure that is decided before the cryptographic call (`earlyCauses`) returns the world as the same object.
  * A failing cryptographic call leaves the world the same object whenever it stops before the first chunk is released —
    `C13_no_release_no_touch`, stated through the pure `keyDecrypt` (`writes = []`); `C13_no_release_header` and
    `C13_no_release_first_record` list the inputs for which that is the case (short / foreign / password-mode header, refused
    or failed handshake, first record short / oversized / unauthentic, trailing data after a final first record).
  * If chunks were released before the failure the output holds exactly those chunks (`C13_prefix`), and on success exactly
    the plaintext — also when the plaintext is empty (`C13_success_creates`).
  * `encrypt`, `password encrypt`, `key generate`: EVERY failure leaves the world untouched.
-/
import KestrelProofs.Cli
import KestrelProofs.Strict
import KestrelProps.C01
import KestrelProps.C10dec
import KestrelProps.C10enc
import KestrelProps.C12
namespace Kestrel
open Cli Generated
open Kestrel.Keyring (Str utf8)

/-- the file system is exactly as it was (stronger than "the output path is untouched") -/
def untouched (w w' : World) : Prop := w'.files = w.files

/-! ### decrypt -/

/-- **C13 (decrypt, causes).** Every failure of `decrypt` is one of the early causes or a library error. -/
theorem C13_decrypt_causes (P : Prims) (w : World) (inf : Option Str) (to : Str) (outf kr : Option Str) (e : Bool) (c : Err)
    (hc : (runDecrypt P w inf to outf kr e).err = some c) : c ∈ earlyCauses ∨ ∃ r, c = .crypto r ∧ r ≠ .ok := by
  rcases runDecrypt_spec P w inf to outf kr e with ⟨c', hc', h⟩ | ⟨input, ks, sk, pk, _, _, _, _, h⟩
  · rw [h] at hc
    simp only [fail, Option.some.injEq] at hc
    subst hc; exact Or.inl hc'
  · rw [h] at hc
    simp only [decryptFinish] at hc
    split at hc
    · simp at hc
    · rename_i hne
      simp only [Option.some.injEq] at hc
      exact Or.inr ⟨_, hc.symm, hne⟩

/-- **C13 (decrypt, early causes).** If `decrypt` fails because input and output are the same file, the input or the keyring
    cannot be opened / decoded / parsed, the key is missing, malformed or has no private part, no password is available, or
    the key does not unlock: the world is THE SAME OBJECT (`fail w _`), nothing is printed, exit status 1. -/
theorem C13_untouched_decrypt (P : Prims) (w : World) (inf : Option Str) (to : Str) (outf kr : Option Str) (e : Bool) (c : Err)
    (hc : (runDecrypt P w inf to outf kr e).err = some c) (hearly : c ∈ earlyCauses) :
    runDecrypt P w inf to outf kr e = fail w c ∧ (runDecrypt P w inf to outf kr e).world = w ∧
    untouched w (runDecrypt P w inf to outf kr e).world := by
  rcases runDecrypt_spec P w inf to outf kr e with ⟨c', hc', h⟩ | ⟨input, ks, sk, pk, _, _, _, _, h⟩
  · rw [h] at hc ⊢
    simp only [fail, Option.some.injEq] at hc
    subst hc
    exact ⟨rfl, rfl, rfl⟩
  · exfalso
    rw [h] at hc
    simp only [decryptFinish] at hc
    split at hc
    · simp at hc
    · simp only [Option.some.injEq] at hc
      subst hc
      simp [earlyCauses] at hearly

/-- **C13 (decrypt, library failure without a sink call).** If the library call returns with a sink on which no `write()` and
    no `flush()` call was made, the world is the same object. -/
theorem C13_untouched_decrypt_crypto (P : Prims) (w : World) (inf : Option Str) (to : Str) (outf kr : Option Str) (e : Bool)
    {input : Bytes} {ks : List Keyring.Key} {sk pk : Bytes} {r : Res} {s' : Src} {k : Snk} {snd : Option Bytes}
    (hsf : sameFile inf outf = false) (hi : openInput w inf = .ok input) (hk : openKeyring w kr = .ok ks)
    (hu : unlockNamed w ks to e = .ok (sk, pk))
    (hIO : keyDecryptIO P sk pk { inp := input } {} = (r, s', k, snd)) (hlog : k.log = []) (hfl : k.flushes = 0) :
    (runDecrypt P w inf to outf kr e).world = w := by
  rw [runDecrypt_path hsf hi hk hu, hIO]
  have hd : (deliver w outf k).1 = w := by
    cases outf with
    | none => rfl
    | some q => simp [deliver, hlog, hfl]
  simp only [decryptFinish]
  split <;> exact hd

/-- **C13 (no release, no touch).** If the pure `key_decrypt` of the input releases no chunk (`writes = []`: the run stops in
    the header or in the first record) then `decrypt` fails with the library's error and the world is the same object —
    the output file is neither created nor truncated. -/
theorem C13_no_release_no_touch (P : Prims) (w : World) (inf : Option Str) (to : Str) (outf kr : Option Str) (e : Bool)
    {input : Bytes} {ks : List Keyring.Key} {sk pk : Bytes} {res : Res} {snd : Option Bytes}
    (hsf : sameFile inf outf = false) (hi : openInput w inf = .ok input) (hk : openKeyring w kr = .ok ks)
    (hu : unlockNamed w ks to e = .ok (sk, pk))
    (hP : keyDecrypt P sk pk input = ([], res, snd)) :
    res ≠ .ok ∧ runDecrypt P w inf to outf kr e = fail w (.crypto res) ∧ (runDecrypt P w inf to outf kr e).world = w := by
  obtain ⟨h1, h2⟩ := (decryptFinish_pure P w outf ks sk pk input hP).1 rfl
  rw [runDecrypt_path hsf hi hk hu, h2]
  exact ⟨h1, rfl, rfl⟩

/-- **C13 (no release, no touch — unconditional form).** Whatever the world: if, for the input / keyring / key that `decrypt`
    would use, the pure `key_decrypt` releases no chunk, the world after `decrypt` is the same object. -/
theorem C13_no_release_no_touch_any (P : Prims) (w : World) (inf : Option Str) (to : Str) (outf kr : Option Str) (e : Bool)
    (h : ∀ input ks sk pk, openInput w inf = .ok input → openKeyring w kr = .ok ks → unlockNamed w ks to e = .ok (sk, pk) →
      (keyDecrypt P sk pk input).1 = []) :
    (runDecrypt P w inf to outf kr e).world = w ∧ (runDecrypt P w inf to outf kr e).exit = 1 := by
  rcases runDecrypt_spec P w inf to outf kr e with ⟨c', _, h'⟩ | ⟨input, ks, sk, pk, hsf, hi, hk, hu, _⟩
  · rw [h']; exact ⟨rfl, rfl⟩
  · have hnil := h input ks sk pk hi hk hu
    obtain ⟨_, h2, h3⟩ := C13_no_release_no_touch P w inf to outf kr e hsf hi hk hu
      (res := (keyDecrypt P sk pk input).2.1) (snd := (keyDecrypt P sk pk input).2.2) (by rw [← hnil])
    exact ⟨h3, by rw [h2]; rfl⟩

/-- **C13 (a): header failures release nothing.** Input shorter than the magic; foreign or password-mode magic; input shorter
    than magic + handshake message; the Noise handshake fails (wrong recipient key, corrupted header, all-zero DH); the payload
    key has the wrong length. -/
theorem C13_no_release_header (P : Prims) (r rpk inp : Bytes)
    (h : inp.length < 4 ∨ validFileFormat (inp.take 4) ≠ some true ∨ (inp.drop 4).length < handshakeLen ∨
      (∃ err, Noise.readMessage P (inp.take 4) r rpk ((inp.drop 4).take handshakeLen) = .error err) ∨
      (∃ pk spk hh, Noise.readMessage P (inp.take 4) r rpk ((inp.drop 4).take handshakeLen) = .ok (pk, spk, hh) ∧ pk.length ≠ 32)) :
    (keyDecrypt P r rpk inp).1 = [] ∧ (keyDecrypt P r rpk inp).2.1 ≠ .ok := by
  rw [keyDecrypt_unfold]
  split
  · exact ⟨rfl, by simp⟩
  · rename_i h4
    split
    · exact ⟨rfl, by simp⟩
    · exact ⟨rfl, by simp⟩
    · rename_i hv
      split
      · exact ⟨rfl, by simp⟩
      · rename_i hl
        split
        · exact ⟨rfl, by simp⟩
        · rename_i pk spk hh hrm
          split
          · exact ⟨rfl, by simp⟩
          · rename_i hpk
            exfalso
            rcases h with h | h | h | ⟨err, h⟩ | ⟨pk', spk', hh', h, hne⟩
            · exact h4 h
            · exact h hv
            · exact hl h
            · rw [hrm] at h; cases h
            · rw [hrm] at h
              simp only [Except.ok.injEq, Prod.mk.injEq] at h
              obtain ⟨rfl, _, _⟩ := h
              exact hpk hne

/-- **C13 (b): a failing first record releases nothing.** With an acceptable header (file key `fk`), if record 0 of the chunk
    stream `body` is too short for its 16-byte header, declares more than `chunkSize` bytes, is shorter than it declares, does
    not authenticate, or is a final record followed by more data (the trailing-data probe precedes the write), then no
    chunk is released. -/
theorem C13_no_release_first_record (P : Prims) (r rpk inp pk spk hh : Bytes)
    (hlen : 4 + handshakeLen ≤ inp.length) (hv : validFileFormat (inp.take 4) = some true)
    (hrm : Noise.readMessage P (inp.take 4) r rpk ((inp.drop 4).take handshakeLen) = .ok (pk, spk, hh)) (hpk : pk.length = 32)
    (hfail : (parse1 P.aead (P.hkdfFile pk hh) [] chunkSize 0 ((inp.drop 4).drop handshakeLen) = .fail .ioRead ∨
              parse1 P.aead (P.hkdfFile pk hh) [] chunkSize 0 ((inp.drop 4).drop handshakeLen) = .fail .chunkLen ∨
              parse1 P.aead (P.hkdfFile pk hh) [] chunkSize 0 ((inp.drop 4).drop handshakeLen) = .fail .auth) ∨
             (∃ pt rest, parse1 P.aead (P.hkdfFile pk hh) [] chunkSize 0 ((inp.drop 4).drop handshakeLen) = .chunk pt true rest ∧
               rest ≠ [])) :
    (keyDecrypt P r rpk inp).1 = [] ∧ (keyDecrypt P r rpk inp).2.1 ≠ .ok := by
  rw [keyDecrypt_of_header hlen hv hrm hpk]
  simp only [decryptChunks]
  rw [← decLoop_fuel_succ P.aead _ [] chunkSize _ 0 _ (Nat.le_refl _), decLoop_succ]
  rcases hfail with (h | h | h) | ⟨pt, rest, h, hne⟩
  · rw [h]; exact ⟨rfl, by simp⟩
  · rw [h]; exact ⟨rfl, by simp⟩
  · rw [h]; exact ⟨rfl, by simp⟩
  · rw [h]
    have : rest.length ≠ 0 := fun h0 => hne (List.eq_nil_of_length_eq_zero h0)
    simp [this]

/-- **C13 (prefix).** If the pure `key_decrypt` releases the chunks `writes ≠ []` and then fails, `decrypt -o q` exits with
    status 1 and the output path holds exactly the released chunks — whole authenticated chunks, in order, nothing else. -/
theorem C13_prefix (P : Prims) (w : World) (inf : Option Str) (to q : Str) (kr : Option Str) (e : Bool)
    {input : Bytes} {ks : List Keyring.Key} {sk pk : Bytes} {writes : List Bytes} {res : Res} {snd : Option Bytes}
    (hsf : sameFile inf (some q) = false) (hi : openInput w inf = .ok input) (hk : openKeyring w kr = .ok ks)
    (hu : unlockNamed w ks to e = .ok (sk, pk))
    (hP : keyDecrypt P sk pk input = (writes, res, snd)) (hne : writes ≠ []) (hres : res ≠ .ok) :
    runDecrypt P w inf to (some q) kr e =
      { exit := 1, world := w.setFile q writes.flatten, stdout := [], err := some (.crypto res) } ∧
    (runDecrypt P w inf to (some q) kr e).world.file q = some writes.flatten ∧
    (∀ p, p ≠ q → (runDecrypt P w inf to (some q) kr e).world.file p = w.file p) := by
  have h := (decryptFinish_pure P w (some q) ks sk pk input hP).2.1 hne hres
  rw [runDecrypt_path hsf hi hk hu, h]
  exact ⟨rfl, World.file_setFile w q _, fun p hp => World.file_setFile_ne w _ hp⟩

/-- **C13 (success creates).** On success the output path holds exactly the plaintext — also when the plaintext is empty (one
    empty chunk, one flush: the file is created). -/
theorem C13_success_creates (P : Prims) (w : World) (inf : Option Str) (to q : Str) (kr : Option Str) (e : Bool)
    {input : Bytes} {ks : List Keyring.Key} {sk pk : Bytes} {writes : List Bytes} {snd : Option Bytes}
    (hsf : sameFile inf (some q) = false) (hi : openInput w inf = .ok input) (hk : openKeyring w kr = .ok ks)
    (hu : unlockNamed w ks to e = .ok (sk, pk))
    (hP : keyDecrypt P sk pk input = (writes, .ok, snd)) :
    (runDecrypt P w inf to (some q) kr e).exit = 0 ∧
    (runDecrypt P w inf to (some q) kr e).world = w.setFile q writes.flatten ∧
    (runDecrypt P w inf to (some q) kr e).world.file q = some writes.flatten ∧
    (∀ p, p ≠ q → (runDecrypt P w inf to (some q) kr e).world.file p = w.file p) := by
  obtain ⟨_, spk, _, h⟩ := (decryptFinish_pure P w (some q) ks sk pk input hP).2.2 rfl
  rw [runDecrypt_path hsf hi hk hu, h]
  exact ⟨rfl, rfl, World.file_setFile w q _, fun p hp => World.file_setFile_ne w _ hp⟩

/-! ### password decrypt -/

theorem C13_pass_decrypt_causes (P : Prims) (w : World) (inf outf : Option Str) (e : Bool) (c : Err)
    (hc : (runPassDecrypt P w inf outf e).err = some c) : c ∈ earlyCauses ∨ ∃ r, c = .crypto r ∧ r ≠ .ok := by
  rcases runPassDecrypt_spec P w inf outf e with ⟨c', hc', h⟩ | ⟨input, pw, _, _, _, h⟩
  · rw [h] at hc
    simp only [fail, Option.some.injEq] at hc
    subst hc; exact Or.inl hc'
  · rw [h] at hc
    simp only [streamFinish] at hc
    split at hc
    · simp at hc
    · rename_i hne
      simp only [Option.some.injEq] at hc
      exact Or.inr ⟨_, hc.symm, hne⟩

/-- **C13 (password decrypt, early causes)**: same file, input missing, no password. -/
theorem C13_untouched_pass_decrypt (P : Prims) (w : World) (inf outf : Option Str) (e : Bool) (c : Err)
    (hc : (runPassDecrypt P w inf outf e).err = some c) (hearly : c ∈ earlyCauses) :
    runPassDecrypt P w inf outf e = fail w c ∧ (runPassDecrypt P w inf outf e).world = w ∧
    untouched w (runPassDecrypt P w inf outf e).world := by
  rcases runPassDecrypt_spec P w inf outf e with ⟨c', hc', h⟩ | ⟨input, pw, _, _, _, h⟩
  · rw [h] at hc ⊢
    simp only [fail, Option.some.injEq] at hc
    subst hc
    exact ⟨rfl, rfl, rfl⟩
  · exfalso
    rw [h] at hc
    simp only [streamFinish] at hc
    split at hc
    · simp at hc
    · simp only [Option.some.injEq] at hc
      subst hc
      simp [earlyCauses] at hearly

/-- **C13 (password decrypt: no release, no touch).** -/
theorem C13_no_release_no_touch_pass (P : Prims) (w : World) (inf outf : Option Str) (e : Bool)
    {input pw : Bytes} {res : Res}
    (hsf : sameFile inf outf = false) (hi : openInput w inf = .ok input) (hp : askPass w e = .ok pw)
    (hP : passDecrypt P pw input = ([], res)) :
    res ≠ .ok ∧ runPassDecrypt P w inf outf e = fail w (.crypto res) ∧ (runPassDecrypt P w inf outf e).world = w := by
  obtain ⟨h1, h2⟩ := (passDecryptFinish_pure P w outf pw input hP).1 rfl
  rw [runPassDecrypt_path hsf hi hp, h2]
  exact ⟨h1, rfl, rfl⟩

/-- **C13 (password decrypt, prefix).** -/
theorem C13_prefix_pass (P : Prims) (w : World) (inf : Option Str) (q : Str) (e : Bool)
    {input pw : Bytes} {writes : List Bytes} {res : Res}
    (hsf : sameFile inf (some q) = false) (hi : openInput w inf = .ok input) (hp : askPass w e = .ok pw)
    (hP : passDecrypt P pw input = (writes, res)) (hne : writes ≠ []) (hres : res ≠ .ok) :
    runPassDecrypt P w inf (some q) e =
      { exit := 1, world := w.setFile q writes.flatten, stdout := [], err := some (.crypto res) } ∧
    (runPassDecrypt P w inf (some q) e).world.file q = some writes.flatten := by
  have h := (passDecryptFinish_pure P w (some q) pw input hP).2.1 hne hres
  rw [runPassDecrypt_path hsf hi hp, h]
  exact ⟨rfl, World.file_setFile w q _⟩

/-- **C13 (password decrypt, success creates).** -/
theorem C13_success_creates_pass (P : Prims) (w : World) (inf : Option Str) (q : Str) (e : Bool)
    {input pw : Bytes} {writes : List Bytes}
    (hsf : sameFile inf (some q) = false) (hi : openInput w inf = .ok input) (hp : askPass w e = .ok pw)
    (hP : passDecrypt P pw input = (writes, .ok)) :
    runPassDecrypt P w inf (some q) e = { exit := 0, world := w.setFile q writes.flatten, stdout := [] } ∧
    (runPassDecrypt P w inf (some q) e).world.file q = some writes.flatten := by
  obtain ⟨_, h⟩ := (passDecryptFinish_pure P w (some q) pw input hP).2.2 rfl
  rw [runPassDecrypt_path hsf hi hp, h]
  exact ⟨rfl, World.file_setFile w q _⟩

/-! ### encrypt, password encrypt, key generate: every failure leaves the world untouched -/

/-- **C13 (encrypt).** EVERY failure of `encrypt` — same file, input / keyring / recipient / sender key problems, no password,
    an unusable ephemeral key, a refused key exchange (all-zero DH output, C05: not one `write`/`flush` call) — returns the
    world as the same object and prints nothing. (With the unscripted source and sink no other failure exists.) -/
theorem C13_untouched_encrypt (P : Prims) (rnd : Rand) (w : World) (inf : Option Str) (to fr : Str) (outf kr : Option Str)
    (e : Bool) (hx : (runEncrypt P rnd w inf to fr outf kr e).exit ≠ 0) :
    ∃ c, (c ∈ earlyCauses ∨ c = .crypto .other) ∧ runEncrypt P rnd w inf to fr outf kr e = fail w c ∧
      (runEncrypt P rnd w inf to fr outf kr e).world = w ∧ untouched w (runEncrypt P rnd w inf to fr outf kr e).world := by
  rcases runEncrypt_spec P rnd w inf to fr outf kr e with ⟨c, hc, h⟩ | ⟨input, ks, rkey, rpk, sk, spk, epk, _, _, _, _, _, _, _, h⟩
  · refine ⟨c, hc.imp id (fun h => h.1), h, by rw [h]; rfl, by rw [h]; rfl⟩
  · rcases encryptFinish_pure P w outf sk spk rpk rnd.b epk rnd.a input with ⟨_, h2⟩ | ⟨_, _, h2⟩
    · rw [h2] at h
      exact ⟨_, Or.inr rfl, h, by rw [h]; rfl, by rw [h]; rfl⟩
    · rw [h2] at h
      rw [h] at hx
      exact absurd rfl hx

/-- **C13 (encrypt, refused key exchange).** The cause C05 is about: the sink is returned as it was, so is the world. -/
theorem C13_untouched_encrypt_zero_dh (P : Prims) (rnd : Rand) (w : World) (inf : Option Str) (to fr : Str) (outf kr : Option Str)
    (e : Bool) {input : Bytes} {ks : List Keyring.Key} {rkey : Keyring.Key} {rpk sk spk epk : Bytes}
    (hsf : sameFile inf outf = false) (hi : openInput w inf = .ok input) (hk : openKeyring w kr = .ok ks)
    (hg : Keyring.getKey ks to = some rkey) (hd : Keyring.decodePk rkey.pk = .ok rpk)
    (hu : unlockNamed w ks fr e = .ok (sk, spk)) (he : P.pub rnd.b = some epk)
    (hz : P.dh rnd.b rpk = none ∨ P.dh sk rpk = none) :
    runEncrypt P rnd w inf to fr outf kr e = fail w (.crypto .other) := by
  rw [runEncrypt_path hsf hi hk hg hd hu he,
    C05_zero_dh_writes_nothing P sk spk rpk rnd.b epk rnd.a { inp := input } {} hz]
  simp only [streamFinish, deliver_init]
  rfl

/-- **C13 (password encrypt).** Every failure (same file, input missing, no password) leaves the world the same object. -/
theorem C13_untouched_pass_encrypt (P : Prims) (rnd : Rand) (w : World) (inf outf : Option Str) (e : Bool)
    (hx : (runPassEncrypt P rnd w inf outf e).exit ≠ 0) :
    ∃ c, c ∈ earlyCauses ∧ runPassEncrypt P rnd w inf outf e = fail w c ∧ (runPassEncrypt P rnd w inf outf e).world = w ∧
      untouched w (runPassEncrypt P rnd w inf outf e).world := by
  rcases runPassEncrypt_spec P rnd w inf outf e with ⟨c, hc, h⟩ | ⟨input, pw, _, _, _, h⟩
  · exact ⟨c, hc, h, by rw [h]; rfl, by rw [h]; rfl⟩
  · rw [(passEncryptFinish_pure P w outf pw rnd.a input).2] at h
    rw [h] at hx
    exact absurd rfl hx

/-- **C13 (key generate).** Every failure (unusable name, no password, unusable private key) leaves the world — in particular
    an existing keyring file named by `-o` — the same object. -/
theorem C13_untouched_keygen (P : Prims) (rnd : Rand) (w : World) (outf : Option Str) (e : Bool)
    (hx : (runKeyGen P rnd w outf e).exit ≠ 0) :
    ∃ c, (c = .badName ∨ c = .noPassword ∨ c = .crypto .other) ∧ runKeyGen P rnd w outf e = fail w c ∧
      (runKeyGen P rnd w outf e).world = w ∧ untouched w (runKeyGen P rnd w outf e).world := by
  unfold runKeyGen at hx ⊢
  split
  · exact ⟨.badName, by simp, rfl, rfl, rfl⟩
  · rename_i name hn
    rw [hn] at hx
    simp only at hx
    split
    · exact ⟨.badName, by simp, rfl, rfl, rfl⟩
    · rename_i hvalid
      rw [if_neg hvalid] at hx
      split
      · rename_i c hp
        exact ⟨c, by rw [askPass_err hp]; simp, rfl, rfl, rfl⟩
      · rename_i pw hp
        rw [hp] at hx
        simp only at hx
        split
        · exact ⟨.crypto .other, by simp, rfl, rfl, rfl⟩
        · rename_i pk hpk
          rw [hpk] at hx
          simp only at hx
          exfalso
          split at hx
          · split at hx <;> exact hx rfl
          · exact hx rfl

/-! ## non-vacuity: the structurally built world of `C12Ex` (keyring file `kr` with the key `alice`, input file `in`, the
    password in the environment) -/

namespace C13Ex
open C12Ex

/-- an existing output file whose content must survive every failure -/
def worldOut (input : Bytes) : World := (world input []).setFile (str "out") [42]

theorem worldOut_file_in (input : Bytes) : (worldOut input).file (str "in") = some input := rfl
theorem worldOut_file_kr (input : Bytes) : (worldOut input).file (str "kr") = some (utf8 krText) := rfl
theorem worldOut_openKeyring (input : Bytes) : openKeyring (worldOut input) (some (str "kr")) = .ok ks :=
  openKeyring_of (worldOut_file_kr input) krText_parse
theorem worldOut_unlock (input : Bytes) : unlockNamed (worldOut input) ks name true = .ok (skA, skA) :=
  unlockNamed_of getKey_ks (Keyring.decodePk_encodePk skA skA_len) rfl (pw := utf8 pwS) rfl
    (Keyring.unlock_lock skA (utf8 pwS) salt skA_len salt_len)

/-! early causes -/

/-- the input file does not exist -/
theorem err_noInput (input : Bytes) :
    (runDecrypt toyPrims (worldOut input) (some (str "nope")) name (some (str "out")) (some (str "kr")) true).err = some .noInput := rfl

example (input : Bytes) := C13_untouched_decrypt toyPrims (worldOut input) (some (str "nope")) name (some (str "out"))
  (some (str "kr")) true .noInput (err_noInput input) (by simp [earlyCauses])

/-- input and output are the same file -/
example (input : Bytes) := C13_untouched_decrypt toyPrims (worldOut input) (some (str "in")) name (some (str "in"))
  (some (str "kr")) true .sameFile rfl (by simp [earlyCauses])

/-- no such key in the keyring -/
theorem getKey_bob : Keyring.getKey ks (str "bob") = none := by
  unfold Keyring.getKey ks
  rw [List.find?_cons_of_neg (by decide)]
  rfl

theorem err_keyNotFound (input : Bytes) :
    runDecrypt toyPrims (worldOut input) (some (str "in")) (str "bob") (some (str "out")) (some (str "kr")) true =
      fail (worldOut input) .keyNotFound :=
  runDecrypt_fail_unlock (by decide) (openInput_file (worldOut_file_in input)) (worldOut_openKeyring input)
    (unlockNamed_noKey getKey_bob)

example (input : Bytes) := C13_untouched_decrypt toyPrims (worldOut input) (some (str "in")) (str "bob") (some (str "out"))
  (some (str "kr")) true .keyNotFound (by rw [err_keyNotFound]; rfl) (by simp [earlyCauses])

/-- no `--env-pass`: no password -/
theorem err_noPassword (input : Bytes) :
    runDecrypt toyPrims (worldOut input) (some (str "in")) name (some (str "out")) (some (str "kr")) false =
      fail (worldOut input) .noPassword :=
  runDecrypt_fail_unlock (by decide) (openInput_file (worldOut_file_in input)) (worldOut_openKeyring input)
    (unlockNamed_noPass getKey_ks (Keyring.decodePk_encodePk skA skA_len) rfl rfl)

example (input : Bytes) := C13_untouched_decrypt toyPrims (worldOut input) (some (str "in")) name (some (str "out"))
  (some (str "kr")) false .noPassword (by rw [err_noPassword]; rfl) (by simp [earlyCauses])

example (P : Prims) (w : World) (inf : Option Str) (to : Str) (outf kr : Option Str) (e : Bool) (c : Err)
    (hc : (runDecrypt P w inf to outf kr e).err = some c) := C13_decrypt_causes P w inf to outf kr e c hc

/-! a library failure before the first release: the existing output file keeps its content -/

/-- a file of three bytes -/
theorem short_dec : keyDecrypt toyPrims skA skA [1,2,3] = ([], .ioRead, none) := by decide

example : runDecrypt toyPrims (worldOut [1,2,3]) (some (str "in")) name (some (str "out")) (some (str "kr")) true =
      fail (worldOut [1,2,3]) (.crypto .ioRead) ∧
    (runDecrypt toyPrims (worldOut [1,2,3]) (some (str "in")) name (some (str "out")) (some (str "kr")) true).world.file (str "out") =
      some [42] := by
  obtain ⟨_, h, _⟩ := C13_no_release_no_touch toyPrims (worldOut [1,2,3]) (some (str "in")) name (some (str "out"))
    (some (str "kr")) true (by decide) (openInput_file (worldOut_file_in _)) (worldOut_openKeyring _) (worldOut_unlock _) short_dec
  rw [h]
  exact ⟨rfl, World.file_setFile _ _ _⟩

/-- the same through the sink-level statement -/
example := C13_untouched_decrypt_crypto toyPrims (worldOut [1,2,3]) (some (str "in")) name (some (str "out"))
  (some (str "kr")) true (by decide) (openInput_file (worldOut_file_in _)) (worldOut_openKeyring _) (worldOut_unlock _)
  (r := (keyDecryptIO toyPrims skA skA { inp := [1,2,3] } {}).1) (s' := (keyDecryptIO toyPrims skA skA { inp := [1,2,3] } {}).2.1)
  (k := (keyDecryptIO toyPrims skA skA { inp := [1,2,3] } {}).2.2.1) (snd := (keyDecryptIO toyPrims skA skA { inp := [1,2,3] } {}).2.2.2)
  rfl (by decide) (by decide)

set_option maxRecDepth 20000 in
/-- the genuine small file cut inside its first record (132 header bytes + 10): nothing released -/
theorem cut_dec : keyDecrypt toyPrims skA skA (smallCt.take 142) = ([], .ioRead, none) := by decide

example : (runDecrypt toyPrims (worldOut (smallCt.take 142)) (some (str "in")) name (some (str "out")) (some (str "kr")) true).world =
    worldOut (smallCt.take 142) :=
  (C13_no_release_no_touch toyPrims _ (some (str "in")) name (some (str "out")) (some (str "kr")) true (by decide)
    (openInput_file (worldOut_file_in _)) (worldOut_openKeyring _) (worldOut_unlock _) cut_dec).2.2

/-- a corrupted first record (one ciphertext byte flipped): authentication fails, nothing released -/
def corrupt : Bytes := smallCt.take 150 ++ [0xFF] ++ smallCt.drop 151
set_option maxRecDepth 20000 in
theorem corrupt_dec : (keyDecrypt toyPrims skA skA corrupt).1 = [] := by decide

example := C13_no_release_no_touch_any toyPrims (worldOut corrupt) (some (str "in")) name (some (str "out")) (some (str "kr")) true
  (by
    intro input ks' sk pk hi hk hu
    rw [openInput_file (worldOut_file_in _)] at hi
    rw [worldOut_openKeyring] at hk
    cases hi; cases hk
    rw [worldOut_unlock] at hu
    cases hu
    exact corrupt_dec)

/-- (a) header causes: the hypotheses are satisfiable -/
example : (keyDecrypt toyPrims skA skA [1,2,3]).1 = [] ∧ (keyDecrypt toyPrims skA skA [1,2,3]).2.1 ≠ .ok :=
  C13_no_release_header toyPrims skA skA [1,2,3] (Or.inl (by decide))
/-- a password-mode file given to `decrypt` -/
example : (keyDecrypt toyPrims skA skA C10decEx.file).1 = [] ∧ (keyDecrypt toyPrims skA skA C10decEx.file).2.1 ≠ .ok :=
  C13_no_release_header toyPrims skA skA C10decEx.file (Or.inr (Or.inl (by decide)))

set_option maxRecDepth 20000 in
/-- (b) first-record causes on the cut file: header intact, record 0 too short — every hypothesis discharged -/
example : (keyDecrypt toyPrims skA skA (smallCt.take 142)).1 = [] ∧ (keyDecrypt toyPrims skA skA (smallCt.take 142)).2.1 ≠ .ok := by
  rcases h : Noise.readMessage toyPrims ((smallCt.take 142).take 4) skA skA (((smallCt.take 142).drop 4).take handshakeLen)
    with e | ⟨pk, spk, hh⟩
  · exfalso
    have : (Noise.readMessage toyPrims ((smallCt.take 142).take 4) skA skA
        (((smallCt.take 142).drop 4).take handshakeLen)).toOption.isSome = true := by decide
    rw [h] at this; cases this
  · have hpk : pk.length = 32 := by
      have : (match Noise.readMessage toyPrims ((smallCt.take 142).take 4) skA skA
          (((smallCt.take 142).drop 4).take handshakeLen) with | .ok (pk, _, _) => pk.length | .error _ => 0) = 32 := by decide
      rw [h] at this; exact this
    refine C13_no_release_first_record toyPrims skA skA (smallCt.take 142) pk spk hh (by decide) (by decide) h hpk
      (Or.inl (Or.inl ?_))
    unfold parse1
    rw [if_pos (by decide)]

/-! released chunks, then a failure: exactly the released chunks are in the output file -/

set_option maxRecDepth 20000 in
/-- the genuine small file followed by one byte: chunk `[7,8]` is released, then the trailing data is detected -/
theorem trail_dec : keyDecrypt toyPrims skA skA (smallCt ++ [99]) = ([[7,8]], .unexpectedData, none) := by decide

example : runDecrypt toyPrims (worldOut (smallCt ++ [99])) (some (str "in")) name (some (str "out")) (some (str "kr")) true =
      { exit := 1, world := (worldOut (smallCt ++ [99])).setFile (str "out") [7,8], stdout := [],
        err := some (.crypto .unexpectedData) } :=
  (C13_prefix toyPrims _ (some (str "in")) name (str "out") (some (str "kr")) true (by decide)
    (openInput_file (worldOut_file_in _)) (worldOut_openKeyring _) (worldOut_unlock _) trail_dec (by simp) (by simp)).1

/-- success: the old content `[42]` of `out` is replaced by the plaintext -/
example : (runDecrypt toyPrims (worldOut smallCt) (some (str "in")) name (some (str "out")) (some (str "kr")) true).exit = 0 ∧
    (runDecrypt toyPrims (worldOut smallCt) (some (str "in")) name (some (str "out")) (some (str "kr")) true).world.file (str "out") =
      some [7,8,9] := by
  obtain ⟨h1, _, h3, _⟩ := C13_success_creates toyPrims (worldOut smallCt) (some (str "in")) name (str "out") (some (str "kr")) true
    (by decide) (openInput_file (worldOut_file_in _)) (worldOut_openKeyring _) (worldOut_unlock _) smallCt_dec
  exact ⟨h1, h3⟩

/-- success with an EMPTY plaintext: one empty chunk, one flush — the file is created (and an old one emptied) -/
def emptyCt : Bytes := (keyEncrypt toyPrims skA skA skA eK eK pK [[]]).1
set_option maxRecDepth 20000 in
theorem emptyCt_dec : keyDecrypt toyPrims skA skA emptyCt = ([[]], .ok, some skA) := by decide

example : (runDecrypt toyPrims (worldOut emptyCt) (some (str "in")) name (some (str "out")) (some (str "kr")) true).world.file (str "out") =
    some [] :=
  (C13_success_creates toyPrims (worldOut emptyCt) (some (str "in")) name (str "out") (some (str "kr")) true
    (by decide) (openInput_file (worldOut_file_in _)) (worldOut_openKeyring _) (worldOut_unlock _) emptyCt_dec).2.2.1

/-! password mode -/

def pworldOut (input : Bytes) : World := (pworld input).setFile (str "out") [42]
theorem pworldOut_pass (input : Bytes) : askPass (pworldOut input) true = .ok C10decEx.pw := rfl

example (input : Bytes) := C13_untouched_pass_decrypt toyPrims (pworldOut input) (some (str "in")) (some (str "out")) false
  .noPassword rfl (by simp [earlyCauses])
example (P : Prims) (w : World) (inf outf : Option Str) (e : Bool) (c : Err)
    (hc : (runPassDecrypt P w inf outf e).err = some c) := C13_pass_decrypt_causes P w inf outf e c hc

theorem pshort_dec : passDecrypt toyPrims C10decEx.pw [1,2,3] = ([], .ioRead) := by decide

example : (runPassDecrypt toyPrims (pworldOut [1,2,3]) (some (str "in")) (some (str "out")) true).world = pworldOut [1,2,3] :=
  (C13_no_release_no_touch_pass toyPrims _ (some (str "in")) (some (str "out")) true (by decide) (openInput_file rfl)
    (pworldOut_pass _) pshort_dec).2.2

theorem ptrail_dec : passDecrypt toyPrims C10decEx.pw (C10decEx.file ++ [99]) = ([[7,8]], .unexpectedData) := by decide

example : (runPassDecrypt toyPrims (pworldOut (C10decEx.file ++ [99])) (some (str "in")) (some (str "out")) true).world.file (str "out") =
    some [7,8] :=
  (C13_prefix_pass toyPrims _ (some (str "in")) (str "out") true (by decide) (openInput_file rfl) (pworldOut_pass _)
    ptrail_dec (by simp) (by simp)).2

example : (runPassDecrypt toyPrims (pworldOut C10decEx.file) (some (str "in")) (some (str "out")) true).world.file (str "out") =
    some [7,8,9] :=
  (C13_success_creates_pass toyPrims _ (some (str "in")) (str "out") true (by decide) (openInput_file rfl) (pworldOut_pass _)
    file_dec).2

/-- the theorems agree with evaluating the model -/
example : (runPassDecrypt toyPrims (pworldOut (C10decEx.file ++ [99])) (some (str "in")) (some (str "out")) true).exit = 1 ∧
    (runPassDecrypt toyPrims (pworldOut (C10decEx.file ++ [99])) (some (str "in")) (some (str "out")) true).world.file (str "out") =
      some [7,8] ∧
    (runPassDecrypt toyPrims (pworldOut [1,2,3]) (some (str "in")) (some (str "out")) true).world.file (str "out") = some [42] := by
  decide

/-! encrypt, password encrypt, key generate -/

/-- refused key exchange: primitives whose DH yields the rejected all-zero value (C05) -/
example (input : Bytes) : runEncrypt toyPrimsZeroDh ⟨pK, eK⟩ (worldOut input) (some (str "in")) name name (some (str "out"))
    (some (str "kr")) true = fail (worldOut input) (.crypto .other) :=
  C13_untouched_encrypt_zero_dh toyPrimsZeroDh ⟨pK, eK⟩ (worldOut input) (some (str "in")) name name (some (str "out"))
    (some (str "kr")) true (by decide) (openInput_file (worldOut_file_in _)) (worldOut_openKeyring _) getKey_ks
    (Keyring.decodePk_encodePk skA skA_len) (worldOut_unlock _) (rfl : toyPrimsZeroDh.pub eK = some eK) (Or.inl rfl)

example (input : Bytes) :=
  C13_untouched_encrypt toyPrimsZeroDh ⟨pK, eK⟩ (worldOut input) (some (str "in")) name name (some (str "out")) (some (str "kr")) true
    (by
      rw [C13_untouched_encrypt_zero_dh toyPrimsZeroDh ⟨pK, eK⟩ (worldOut input) (some (str "in")) name name (some (str "out"))
        (some (str "kr")) true (by decide) (openInput_file (worldOut_file_in _)) (worldOut_openKeyring _) getKey_ks
        (Keyring.decodePk_encodePk skA skA_len) (worldOut_unlock _) (rfl : toyPrimsZeroDh.pub eK = some eK) (Or.inl rfl)]
      intro h; cases h)

/-- password encrypt without a password -/
example (rnd : Rand) (input : Bytes) := C13_untouched_pass_encrypt toyPrims rnd (pworldOut input) (some (str "in")) (some (str "out"))
  false (by show (1 : Nat) ≠ 0; decide)

/-- key generate with an empty name on stdin, into an existing keyring file: the file is left alone -/
theorem keygen_badName (rnd : Rand) (input : Bytes) :
    runKeyGen toyPrims rnd (worldOut input) (some (str "kr")) true = fail (worldOut input) .badName := by
  have hr : readName (worldOut input) = some [] := by
    have : utf8Decode (firstLine (worldOut input).stdin) = some [] := utf8Decode_utf8 []
    simp only [readName, this]
    rfl
  unfold runKeyGen
  rw [hr]
  rfl

example (rnd : Rand) (input : Bytes) : (runKeyGen toyPrims rnd (worldOut input) (some (str "kr")) true).world = worldOut input := by
  obtain ⟨c, _, _, h, _⟩ := C13_untouched_keygen toyPrims rnd (worldOut input) (some (str "kr")) true
    (by rw [keygen_badName]; intro h; cases h)
  exact h

end C13Ex

end Kestrel
