/-
  C10 (encrypt side) — `key_encrypt` / `pass_encrypt` over scripted sources and sinks, and the properties of
  `encrypt_chunks` that other claims use (C05 zero-DH, C07 nonces, C08 length, C11 interleaving).

  `src : Src` scripts every `read()` (short reads, hard errors, `Interrupted` — which `encrypt_chunks` does not
  retry), `k : Snk` scripts every `write()` / `flush()` (short accepts, zero-length accepts, hard errors,
  `Interrupted` — retried by `write_all` — and failing flushes); the script classes `Src.faultFree`, `Snk.benign`,
  `Snk.faultFree` are those of KestrelProofs/IOBasics.lean.  `EncIO.Src.reads chunkSize src` is the read
  schedule of `src`: what its successive `read(buf[..chunkSize])` calls return with the error events skipped, up to
  and including the first empty result.  The pure-level `keyEncrypt` / `passEncrypt` take such a schedule.

  Helper lemmas: KestrelProofs/EncIO.lean.
-/
import KestrelProofs.EncIO
import KestrelProps.C01
namespace Kestrel
open Generated EncIO

/-! ### data for the non-vacuity examples -/

/-- five bytes delivered as a 2-byte read, a 1-byte read, then whatever the buffer takes -/
def exSrc : Src := { inp := [1,2,3,4,5], script := [.data 2, .data 1] }
/-- a sink that takes 3 bytes, is interrupted once, takes 1 byte, then everything -/
def exSnk : Snk := { ws := [.accept 3, .errInterrupted, .accept 1], fs := [.ok] }

theorem exSrc_faultFree : Src.faultFree exSrc := (Src.faultFree_iff_conforming exSrc).mpr (by decide)

theorem exSnk_benign : Snk.benign exSnk := by
  refine ⟨fun e he => ?_, fun f hf => ?_⟩
  · simp only [exSnk, List.mem_cons, List.mem_nil_iff, or_false] at he
    rcases he with h | h | h <;> subst h
    · exact Or.inl ⟨3, rfl, by decide⟩
    · exact Or.inr rfl
    · exact Or.inl ⟨1, rfl, by decide⟩
  · simpa [exSnk] using hf

/-- the schedule of `exSrc`: three non-empty reads and the end-of-file read -/
example : Src.reads chunkSize exSrc = [[1,2],[3],[4,5],[]] := by decide

abbrev exS : Bytes := zeros 32
abbrev exR : Bytes := List.replicate 32 1
abbrev exE : Bytes := List.replicate 32 2
abbrev exPk : Bytes := List.replicate 32 7

/-- toy primitives whose DH always yields the rejected all-zero value -/
def toyPrimsZeroDh : Prims := { toyPrims with dh := fun _ _ => none }

/-! ## C10 (encrypt side): refinement for conforming scripts -/

/-- **C10, key mode.** Fault-free source (every scripted read delivers ≥ 1 byte while data remains, any partition),
    benign sink (every scripted write accepts ≥ 1 byte or is `Interrupted`; flushes succeed): result and output are
    those of the pure `keyEncrypt` on the source's read schedule, and that schedule is a partition of the input
    into reads of at most `chunkSize` bytes. -/
theorem C10_enc_partition_independence (P : Prims) (s spk rs e epk pk : Bytes) (src : Src) (k : Snk)
    (hs : Src.faultFree src) (hk : Snk.benign k) :
    (keyEncryptIO P s spk rs e epk pk src k).1 = (keyEncrypt P s spk rs e epk pk (Src.reads chunkSize src)).2 ∧
    (keyEncryptIO P s spk rs e epk pk src k).2.2.out =
      k.out ++ (keyEncrypt P s spk rs e epk pk (Src.reads chunkSize src)).1 ∧
    wellFormedReads (Src.reads chunkSize src) ∧ (∀ r ∈ Src.reads chunkSize src, r.length ≤ chunkSize) ∧
    (Src.reads chunkSize src).flatten = src.inp := by
  refine ⟨?_, ?_, reads_wf _ src, reads_le _ src, reads_flatten _ gen_chunkSize_pos src hs⟩
  · cases hw : Noise.writeMessage P encPrologue s spk rs e epk pk with
    | error err => rw [keyEncryptIO_error P s spk rs e epk pk src k hw, keyEncrypt_error P s spk rs e epk pk _ hw]
    | ok mh =>
      obtain ⟨msg, hh⟩ := mh
      rw [keyEncryptIO_ok P s spk rs e epk pk src k hw, keyEncrypt_ok P s spk rs e epk pk _ hw]
      exact (htc_faultFree _ _ _ _ _ _ gen_chunkSize_pos src k hs hk).1
  · cases hw : Noise.writeMessage P encPrologue s spk rs e epk pk with
    | error err =>
      rw [keyEncryptIO_error P s spk rs e epk pk src k hw, keyEncrypt_error P s spk rs e epk pk _ hw]; simp
    | ok mh =>
      obtain ⟨msg, hh⟩ := mh
      rw [keyEncryptIO_ok P s spk rs e epk pk src k hw, keyEncrypt_ok P s spk rs e epk pk _ hw]
      exact (htc_faultFree _ _ _ _ _ _ gen_chunkSize_pos src k hs hk).2

example : (keyEncryptIO toyPrims exS exS exR exE exE exPk exSrc exSnk).1 =
      (keyEncrypt toyPrims exS exS exR exE exE exPk (Src.reads chunkSize exSrc)).2 ∧
    (keyEncryptIO toyPrims exS exS exR exE exE exPk exSrc exSnk).2.2.out =
      exSnk.out ++ (keyEncrypt toyPrims exS exS exR exE exE exPk (Src.reads chunkSize exSrc)).1 ∧
    wellFormedReads (Src.reads chunkSize exSrc) ∧ (∀ r ∈ Src.reads chunkSize exSrc, r.length ≤ chunkSize) ∧
    (Src.reads chunkSize exSrc).flatten = exSrc.inp :=
  C10_enc_partition_independence toyPrims exS exS exR exE exE exPk exSrc exSnk exSrc_faultFree exSnk_benign

/-- **C10, password mode.** -/
theorem C10_enc_partition_independence_pass (P : Prims) (pw salt : Bytes) (src : Src) (k : Snk)
    (hs : Src.faultFree src) (hk : Snk.benign k) :
    (passEncryptIO P pw salt src k).1 = (passEncrypt P pw salt (Src.reads chunkSize src)).2 ∧
    (passEncryptIO P pw salt src k).2.2.out = k.out ++ (passEncrypt P pw salt (Src.reads chunkSize src)).1 ∧
    wellFormedReads (Src.reads chunkSize src) ∧ (∀ r ∈ Src.reads chunkSize src, r.length ≤ chunkSize) ∧
    (Src.reads chunkSize src).flatten = src.inp := by
  refine ⟨?_, ?_, reads_wf _ src, reads_le _ src, reads_flatten _ gen_chunkSize_pos src hs⟩
  · rw [passEncryptIO_eq, passEncrypt_eq]
    exact (htc_faultFree _ _ _ _ _ _ gen_chunkSize_pos src k hs hk).1
  · rw [passEncryptIO_eq, passEncrypt_eq]
    exact (htc_faultFree _ _ _ _ _ _ gen_chunkSize_pos src k hs hk).2

example : (passEncryptIO toyPrims [112, 119] (zeros 32) exSrc exSnk).1 =
      (passEncrypt toyPrims [112, 119] (zeros 32) (Src.reads chunkSize exSrc)).2 ∧
    (passEncryptIO toyPrims [112, 119] (zeros 32) exSrc exSnk).2.2.out =
      exSnk.out ++ (passEncrypt toyPrims [112, 119] (zeros 32) (Src.reads chunkSize exSrc)).1 :=
  let h := C10_enc_partition_independence_pass toyPrims [112, 119] (zeros 32) exSrc exSnk exSrc_faultFree exSnk_benign
  ⟨h.1, h.2.1⟩

/-- **C10 ∘ C01.** Whatever the read partition and however the sink takes the bytes, what lands in the sink
    decrypts (pure level) to the source's input and names the sender. -/
theorem C10_enc_roundtrip (P : Prims) (hP : P.Lawful) (s spk r rpk e epk pk : Bytes) (src : Src) (k : Snk)
    (hE : epk.length = 32) (hS : spk.length = 32) (hK : pk.length = 32) (hdh : DhAgree P s spk r rpk e epk)
    (hs : Src.faultFree src) (hk : Snk.benign k) :
    (keyEncryptIO P s spk rpk e epk pk src k).1 = .ok ∧
    ∃ ct writes, (keyEncryptIO P s spk rpk e epk pk src k).2.2.out = k.out ++ ct ∧
      keyDecrypt P r rpk ct = (writes, .ok, some spk) ∧ writes.flatten = src.inp := by
  obtain ⟨h1, h2, hwf, hle, hfl⟩ := C10_enc_partition_independence P s spk rpk e epk pk src k hs hk
  obtain ⟨ct, henc, ⟨writes, hdec, hw⟩, _⟩ := C01_roundtrip P hP s spk r rpk e epk pk _ hE hS hK hdh hwf hle
  rw [henc] at h1 h2
  exact ⟨h1, ct, writes, h2, hdec, hw.trans hfl⟩

example : (keyEncryptIO toyPrims exS exS exR exE exE exPk exSrc exSnk).1 = .ok ∧
    ∃ ct writes, (keyEncryptIO toyPrims exS exS exR exE exE exPk exSrc exSnk).2.2.out = exSnk.out ++ ct ∧
      keyDecrypt toyPrims exR exR ct = (writes, .ok, some exS) ∧ writes.flatten = exSrc.inp :=
  C10_enc_roundtrip toyPrims toyPrims_lawful exS exS exR exR exE exE exPk exSrc exSnk
    (List.length_replicate ..) (List.length_replicate ..) (List.length_replicate ..) (toy_dhAgree _ _ _)
    exSrc_faultFree exSnk_benign

/-! ## C10 prefix: every script -/

/-- **C10 prefix, key mode — no hypothesis on either script.** What reaches the sink is a prefix of the pure-level
    ciphertext for the source's read schedule (error events skipped), and all of it if the call returns `Ok`.
    In particular a failing call never emits a byte that a fault-free run over the same reads would not emit. -/
theorem C10_enc_prefix (P : Prims) (s spk rs e epk pk : Bytes) (src : Src) (k : Snk) :
    ∃ p, (keyEncryptIO P s spk rs e epk pk src k).2.2.out = k.out ++ p ∧
      p <+: (keyEncrypt P s spk rs e epk pk (Src.reads chunkSize src)).1 ∧
      ((keyEncryptIO P s spk rs e epk pk src k).1 = .ok →
        p = (keyEncrypt P s spk rs e epk pk (Src.reads chunkSize src)).1) := by
  cases hw : Noise.writeMessage P encPrologue s spk rs e epk pk with
  | error err =>
    rw [keyEncryptIO_error P s spk rs e epk pk src k hw, keyEncrypt_error P s spk rs e epk pk _ hw]
    exact ⟨[], by simp, List.nil_prefix, fun _ => rfl⟩
  | ok mh =>
    obtain ⟨msg, hh⟩ := mh
    rw [keyEncryptIO_ok P s spk rs e epk pk src k hw, keyEncrypt_ok P s spk rs e epk pk _ hw]
    exact htc_prefix _ _ _ _ _ _ src k

/-- no hypotheses to satisfy; a run where the prefix is proper: the sink fails hard inside the second record
    (cs = 2, records of 16 + 2 + 16 and 16 + 1 + 16 bytes; 58 of the 67 bytes get out) -/
example : (encryptChunksIO toyPrims.aead [] [] 2 { inp := [1,2,3] } { ws := [.accept 99, .accept 99, .accept 99, .accept 8, .errOther] }).1 = .ioWrite ∧
    (encryptChunksIO toyPrims.aead [] [] 2 { inp := [1,2,3] } { ws := [.accept 99, .accept 99, .accept 99, .accept 8, .errOther] }).2.2.out.length = 58 ∧
    (encryptChunks toyPrims.aead [] [] (Src.reads 2 { inp := [1,2,3] })).1.length = 67 := by decide

/-- **C10 prefix, password mode.** -/
theorem C10_enc_prefix_pass (P : Prims) (pw salt : Bytes) (src : Src) (k : Snk) :
    ∃ p, (passEncryptIO P pw salt src k).2.2.out = k.out ++ p ∧
      p <+: (passEncrypt P pw salt (Src.reads chunkSize src)).1 ∧
      ((passEncryptIO P pw salt src k).1 = .ok → p = (passEncrypt P pw salt (Src.reads chunkSize src)).1) := by
  rw [passEncryptIO_eq, passEncrypt_eq]
  exact htc_prefix _ _ _ _ _ _ src k

example : (passEncryptIO toyPrims [112, 119] (zeros 32) exSrc { ws := [.accept 2, .errOther] }).1 = .ioWrite ∧
    (passEncryptIO toyPrims [112, 119] (zeros 32) exSrc { ws := [.accept 2, .errOther] }).2.2.out.length = 2 := by decide

/-- The schedule is literally "the same source with its error events deleted": deleting them does not change it,
    and on the stream level the prefix statement compares two I/O runs (`encryptChunksIO_prefix_clean`). -/
theorem C10_enc_prefix_clean (A : Aead) (key aad : Bytes) (cs : Nat) (hcs : 0 < cs) (s : Src) (k k0 : Snk)
    (hclean : Src.faultFree (Src.clean s)) (hk0 : Snk.benign k0) :
    Src.reads cs (Src.clean s) = Src.reads cs s ∧
    ∃ p q, (encryptChunksIO A key aad cs s k).2.2.out = k.out ++ p ∧
      (encryptChunksIO A key aad cs (Src.clean s) k0).1 = .ok ∧
      (encryptChunksIO A key aad cs (Src.clean s) k0).2.2.out = k0.out ++ q ∧
      p <+: q ∧ ((encryptChunksIO A key aad cs s k).1 = .ok → p = q) :=
  ⟨reads_clean cs s, encryptChunksIO_prefix_clean A key aad cs hcs s k k0 hclean hk0⟩

/-- hypotheses satisfiable: a source with an `Interrupted` event whose remaining events are conforming -/
example : Src.faultFree (Src.clean { inp := [1,2,3], script := [.data 1, .errInterrupted, .data 5] }) ∧
    Snk.benign exSnk ∧
    (encryptChunksIO toyPrims.aead [] [] 2 { inp := [1,2,3], script := [.data 1, .errInterrupted, .data 5] } {}).1 = .ioRead :=
  ⟨(Src.faultFree_iff_conforming _).mpr (by decide), exSnk_benign, by decide⟩

/-! ## C10 error side: which fault produces which error -/

/-- **C10 error side, key mode.** The result is one of five kinds; `Other` ⇔ a DH output is all-zero;
    `IORead` ⇒ the source script contains an error / `Interrupted` event (so the source is not fault-free);
    `IOWrite` ⇒ the sink is not benign (a hard write error, a zero-length accept or a failing flush);
    `UnexpectedData` ⇒ the source returned 0 and then data, which a fault-free source never does. -/
theorem C10_enc_error_side (P : Prims) (s spk rs e epk pk : Bytes) (src : Src) (k : Snk) :
    ((keyEncryptIO P s spk rs e epk pk src k).1 = .ok ∨ (keyEncryptIO P s spk rs e epk pk src k).1 = .ioRead ∨
      (keyEncryptIO P s spk rs e epk pk src k).1 = .ioWrite ∨
      (keyEncryptIO P s spk rs e epk pk src k).1 = .unexpectedData ∨
      (keyEncryptIO P s spk rs e epk pk src k).1 = .other) ∧
    ((keyEncryptIO P s spk rs e epk pk src k).1 = .other ↔ (P.dh e rs = none ∨ P.dh s rs = none)) ∧
    ((keyEncryptIO P s spk rs e epk pk src k).1 = .ioRead → Src.hasErr src ∧ ¬ Src.faultFree src) ∧
    ((keyEncryptIO P s spk rs e epk pk src k).1 = .ioWrite → ¬ Snk.benign k ∧ ¬ Snk.faultFree k) ∧
    ((keyEncryptIO P s spk rs e epk pk src k).1 = .unexpectedData →
      ¬ Src.faultFree src ∧
      ∃ r0 s1 r s2, src.read chunkSize = (.got r0, s1) ∧ r0.length = 0 ∧
        s1.read chunkSize = (.got r, s2) ∧ r.length ≠ 0) := by
  cases hw : Noise.writeMessage P encPrologue s spk rs e epk pk with
  | error err =>
    have hdh := (Noise.writeMessage_error_iff P encPrologue s spk rs e epk pk).mp ⟨err, hw⟩
    rw [keyEncryptIO_error P s spk rs e epk pk src k hw]
    simp [hdh]
  | ok mh =>
    obtain ⟨msg, hh⟩ := mh
    have hdh : ¬ (P.dh e rs = none ∨ P.dh s rs = none) := by
      intro h
      obtain ⟨err, he⟩ := (Noise.writeMessage_error_iff P encPrologue s spk rs e epk pk).mpr h
      rw [hw] at he; cases he
    rw [keyEncryptIO_ok P s spk rs e epk pk src k hw]
    have hres := htc_res P.aead (P.hkdfFile pk hh) [] chunkSize encPrologue msg src k
    refine ⟨?_, ?_, ?_, ?_, ?_⟩
    · rcases hres with h | h | h | h <;> simp [h]
    · constructor
      · intro h; rcases hres with h' | h' | h' | h' <;> rw [h'] at h <;> cases h
      · intro h; exact absurd h hdh
    · intro h
      have := htc_ioRead _ _ _ _ _ _ src k h
      exact ⟨this, fun hff => faultFree_not_hasErr hff this⟩
    · intro h
      have := htc_ioWrite _ _ _ _ _ _ src k h
      exact ⟨this, fun hff => this hff.benign⟩
    · intro h
      exact ⟨fun hff => htc_no_unexpected _ _ _ _ _ _ gen_chunkSize_pos src k hff h, htc_unexpected _ _ _ _ _ _ src k h⟩

/-- each error kind does arise: an interrupted read, a zero-length accept, a failing (interrupted) flush,
    data after an empty read, an all-zero DH -/
example : (encryptChunksIO toyPrims.aead [] [] 2 { inp := [1,2,3], script := [.data 1, .errInterrupted] } {}).1 = .ioRead ∧
    (encryptChunksIO toyPrims.aead [] [] 2 { inp := [1,2,3] } { ws := [.accept 0] }).1 = .ioWrite ∧
    (encryptChunksIO toyPrims.aead [] [] 2 { inp := [1,2,3] } { fs := [.errInterrupted] }).1 = .ioWrite ∧
    (encryptChunksIO toyPrims.aead [] [] 2 { inp := [1,2,3], script := [.data 0, .data 1] } {}).1 = .unexpectedData ∧
    (keyEncryptIO toyPrimsZeroDh exS exS exR exE exE exPk exSrc exSnk).1 = .other := by
  refine ⟨by decide, by decide, by decide, by decide, ?_⟩
  exact (C10_enc_error_side toyPrimsZeroDh exS exS exR exE exE exPk exSrc exSnk).2.1.mpr (Or.inl rfl)

/-- **C10 error side, password mode** (no `Other`). -/
theorem C10_enc_error_side_pass (P : Prims) (pw salt : Bytes) (src : Src) (k : Snk) :
    ((passEncryptIO P pw salt src k).1 = .ok ∨ (passEncryptIO P pw salt src k).1 = .ioRead ∨
      (passEncryptIO P pw salt src k).1 = .ioWrite ∨ (passEncryptIO P pw salt src k).1 = .unexpectedData) ∧
    ((passEncryptIO P pw salt src k).1 = .ioRead → Src.hasErr src ∧ ¬ Src.faultFree src) ∧
    ((passEncryptIO P pw salt src k).1 = .ioWrite → ¬ Snk.benign k ∧ ¬ Snk.faultFree k) ∧
    ((passEncryptIO P pw salt src k).1 = .unexpectedData →
      ¬ Src.faultFree src ∧
      ∃ r0 s1 r s2, src.read chunkSize = (.got r0, s1) ∧ r0.length = 0 ∧
        s1.read chunkSize = (.got r, s2) ∧ r.length ≠ 0) := by
  rw [passEncryptIO_eq]
  refine ⟨htc_res _ _ _ _ _ _ src k, ?_, ?_, ?_⟩
  · intro h
    have := htc_ioRead _ _ _ _ _ _ src k h
    exact ⟨this, fun hff => faultFree_not_hasErr hff this⟩
  · intro h
    have := htc_ioWrite _ _ _ _ _ _ src k h
    exact ⟨this, fun hff => this hff.benign⟩
  · intro h
    exact ⟨fun hff => htc_no_unexpected _ _ _ _ _ _ gen_chunkSize_pos src k hff h, htc_unexpected _ _ _ _ _ _ src k h⟩

example : (passEncryptIO toyPrims [112, 119] (zeros 32) exSrc { ws := [.accept 4, .accept 0] }).1 = .ioWrite := by
  decide

/-! ## C05: an all-zero DH output stops `key_encrypt` before the first byte -/

/-- **C05.** If either DH of the handshake yields the all-zero value, `key_encrypt` returns an error with the sink
    and the source exactly as they were: not one `write()`, `flush()` or `read()` call has been made. -/
theorem C05_zero_dh_writes_nothing (P : Prims) (s spk rs e epk pk : Bytes) (src : Src) (k : Snk)
    (h : P.dh e rs = none ∨ P.dh s rs = none) :
    keyEncryptIO P s spk rs e epk pk src k = (.other, src, k) := by
  obtain ⟨err, he⟩ := (Noise.writeMessage_error_iff P encPrologue s spk rs e epk pk).mpr h
  exact keyEncryptIO_error P s spk rs e epk pk src k he

example : toyPrimsZeroDh.dh exE exR = none ∨ toyPrimsZeroDh.dh exS exR = none := Or.inl rfl
example : keyEncryptIO toyPrimsZeroDh exS exS exR exE exE exPk exSrc exSnk = (.other, exSrc, exSnk) :=
  C05_zero_dh_writes_nothing toyPrimsZeroDh exS exS exR exE exE exPk exSrc exSnk (Or.inl rfl)

/-! ## C07: nonces -/

/-- **C07, stream level.** For any read schedule the pure loop's output is the concatenation of its records, each
    the result of one AEAD invocation (`recordOf`), and the nonces of those invocations are `0, 1, …, n-1` in
    order — no nonce is used twice under the file key. The plaintexts are the file's chunks. -/
theorem C07_nonces (A : Aead) (key aad : Bytes) (reads : List Bytes) :
    (encryptChunks A key aad reads).1 = ((encryptCalls reads).map (recordOf A key aad)).flatten ∧
    (encryptCalls reads).map (·.1) = List.range (encryptCalls reads).length ∧
    ((encryptCalls reads).map (·.1)).Nodup ∧
    (wellFormedReads reads → (encryptCalls reads).map (·.2.2) = fileChunks reads) := by
  have hn := encryptCalls_nonces reads
  have hl : (encryptCalls reads).length = (encryptNonces reads).length := by rw [← hn, List.length_map]
  refine ⟨encryptChunks_calls A key aad reads, ?_, ?_, encryptCalls_chunks reads⟩
  · rw [hn, hl]; exact encryptNonces_range reads
  · rw [hn]; exact encryptNonces_nodup reads

/-- three records for the schedule of `exSrc`, nonces 0, 1, 2, last flag on the third only -/
example : encryptCalls (Src.reads chunkSize exSrc) = [(0, false, [1,2]), (1, false, [3]), (2, true, [4,5])] := by decide

/-- **C07, `key_encrypt` over any scripts.** In a successful run what was written after the header is exactly those
    records: one AEAD invocation per record under the file key, nonces `0 … n-1`. -/
theorem C07_nonces_keyEncryptIO (P : Prims) (s spk rs e epk pk : Bytes) (src : Src) (k : Snk)
    (hok : (keyEncryptIO P s spk rs e epk pk src k).1 = .ok) :
    ∃ msg hh, Noise.writeMessage P encPrologue s spk rs e epk pk = .ok (msg, hh) ∧
      (keyEncryptIO P s spk rs e epk pk src k).2.2.out =
        k.out ++ (encPrologue ++ msg ++
          ((encryptCalls (Src.reads chunkSize src)).map (recordOf P.aead (P.hkdfFile pk hh) [])).flatten) ∧
      (encryptCalls (Src.reads chunkSize src)).map (·.1) = List.range (encryptCalls (Src.reads chunkSize src)).length ∧
      (encryptCalls (Src.reads chunkSize src)).map (·.2.2) = fileChunks (Src.reads chunkSize src) := by
  cases hw : Noise.writeMessage P encPrologue s spk rs e epk pk with
  | error err => rw [keyEncryptIO_error P s spk rs e epk pk src k hw] at hok; cases hok
  | ok mh =>
    obtain ⟨msg, hh⟩ := mh
    rw [keyEncryptIO_ok P s spk rs e epk pk src k hw] at hok ⊢
    obtain ⟨p, hp1, _, hp3⟩ := htc_prefix P.aead (P.hkdfFile pk hh) [] chunkSize encPrologue msg src k
    obtain ⟨c1, c2, _, c4⟩ := C07_nonces P.aead (P.hkdfFile pk hh) [] (Src.reads chunkSize src)
    exact ⟨msg, hh, rfl, by rw [hp1, hp3 hok, c1], c2, c4 (reads_wf _ src)⟩

example : (keyEncryptIO toyPrims exS exS exR exE exE exPk exSrc exSnk).1 = .ok :=
  (C10_enc_roundtrip toyPrims toyPrims_lawful exS exS exR exR exE exE exPk exSrc exSnk
    (List.length_replicate ..) (List.length_replicate ..) (List.length_replicate ..) (toy_dhAgree _ _ _)
    exSrc_faultFree exSnk_benign).1

/-- **C07, `serialize` form**: in any conforming stream record `i` is sealed under nonce `ctr + i`. -/
theorem C07_serialize_nonces (A : Aead) (key aad : Bytes) (cf : Nat → Bytes) (cl : List Bytes) (ctr : Nat) :
    serialize A key aad cf ctr cl =
        ((serCalls ctr cl).map (fun c => record A key aad (cf c.1) c.1 c.2.1 c.2.2)).flatten ∧
    (serCalls ctr cl).map (·.1) = List.range' ctr cl.length ∧ (serCalls ctr cl).map (·.2.2) = cl :=
  ⟨(serialize_nonces A key aad cf cl ctr).1, (serialize_nonces A key aad cf cl ctr).2.1,
   (serialize_nonces A key aad cf cl ctr).2.2.1⟩

example : (serCalls 0 [[1,2],[3],[4,5]]).map (·.1) = [0, 1, 2] := by decide

/-! ## C11: reads and writes interleave; nothing is buffered beyond the look-ahead -/

/-- **C11, key mode — every script.** The run decomposes into the header piece `hp` (logged with the source
    untouched: no `read()` before the header is out) and per-record pieces `ps` with chronological log segments
    `segs`; piece `i` is (a prefix of) record `i`, and every `write()` that contributed to it was issued when exactly
    `src.nreads + i + 2` reads had been made: the first read, `i` further look-ahead reads and the one that decided
    the last flag. The source position at that moment exceeds the plaintext already covered by records `< i` by at
    most `2 * chunkSize` — the two buffers `prev` and the current read. -/
theorem C11_enc_interleave (P : Prims) (s spk rs e epk pk : Bytes) (src : Src) (k : Snk) {msg hh : Bytes}
    (hw : Noise.writeMessage P encPrologue s spk rs e epk pk = .ok (msg, hh)) :
    ∃ (hseg : List WLog) (hp : Bytes) (segs : List (List WLog)) (ps : List Bytes),
      (keyEncryptIO P s spk rs e epk pk src k).2.2.out = k.out ++ hp ++ ps.flatten ∧
      (keyEncryptIO P s spk rs e epk pk src k).2.2.log = segs.reverse.flatten ++ hseg ++ k.log ∧
      hp <+: encPrologue ++ msg ∧ (ps ≠ [] → hp = encPrologue ++ msg) ∧
      (∀ e ∈ hseg, e.srcPos = src.pos ∧ e.srcReads = src.nreads) ∧ (hseg.map (·.n)).sum = hp.length ∧
      Pieces ps ((encryptCalls (Src.reads chunkSize src)).map (recordOf P.aead (P.hkdfFile pk hh) [])) ∧
      segs.length = ps.length ∧
      (∀ (i : Nat) (hi : i < segs.length) (hi' : i < ps.length),
        ((segs[i]).map (·.n)).sum = (ps[i]).length ∧
        ∀ e ∈ segs[i], e.srcReads = src.nreads + i + 2 ∧
          src.pos + (((Src.reads chunkSize src).take i).flatten).length ≤ e.srcPos ∧
          e.srcPos ≤ src.pos + (((Src.reads chunkSize src).take i).flatten).length + 2 * chunkSize) := by
  rw [keyEncryptIO_ok P s spk rs e epk pk src k hw]
  obtain ⟨hseg, hp, segs, ps, h1, h2, h3, h4, h5, h6, h7, _, h9⟩ :=
    htc_trace P.aead (P.hkdfFile pk hh) [] chunkSize encPrologue msg src k
  refine ⟨hseg, hp, segs, ps, h1, h2, h3, h4, h5, h6, h7, Stamped.length_eq segs ps 0 h9, ?_⟩
  intro i hi hi'
  exact ⟨(Stamped.get segs ps 0 h9 i hi hi').2,
    Stamped.window chunkSize src.pos src.nreads _ (reads_le _ src) segs ps h9 i hi⟩

/-- the hypothesis is satisfiable -/
example : ∃ msg hh, Noise.writeMessage toyPrims encPrologue exS exS exR exE exE exPk = .ok (msg, hh) :=
  let ⟨_, _, hh, hw, _⟩ := Noise.writeMessage_ok toyPrims encPrologue exS exS exR exE exE exPk _ _ rfl rfl
  ⟨_, hh, hw⟩
/-- a concrete trace (cs = 2, three bytes, unscripted sink: one `write()` per `write_all`): the two writes of
    record 0 are stamped "2 reads made", those of record 1 "3 reads made" (log is newest first) -/
example : (encryptChunksIO toyPrims.aead [] [] 2 { inp := [1,2,3] } {}).2.2.log.map (fun e => (e.srcReads, e.srcPos, e.n)) =
    [(3, 3, 17), (3, 3, 16), (2, 3, 18), (2, 3, 16)] := by decide

/-- **C11, password mode.** -/
theorem C11_enc_interleave_pass (P : Prims) (pw salt : Bytes) (src : Src) (k : Snk) :
    ∃ (hseg : List WLog) (hp : Bytes) (segs : List (List WLog)) (ps : List Bytes),
      (passEncryptIO P pw salt src k).2.2.out = k.out ++ hp ++ ps.flatten ∧
      (passEncryptIO P pw salt src k).2.2.log = segs.reverse.flatten ++ hseg ++ k.log ∧
      hp <+: encPassMagic ++ salt ∧ (ps ≠ [] → hp = encPassMagic ++ salt) ∧
      (∀ e ∈ hseg, e.srcPos = src.pos ∧ e.srcReads = src.nreads) ∧ (hseg.map (·.n)).sum = hp.length ∧
      Pieces ps ((encryptCalls (Src.reads chunkSize src)).map (recordOf P.aead (P.kdf pw salt) encPassMagic)) ∧
      segs.length = ps.length ∧
      (∀ (i : Nat) (hi : i < segs.length) (hi' : i < ps.length),
        ((segs[i]).map (·.n)).sum = (ps[i]).length ∧
        ∀ e ∈ segs[i], e.srcReads = src.nreads + i + 2 ∧
          src.pos + (((Src.reads chunkSize src).take i).flatten).length ≤ e.srcPos ∧
          e.srcPos ≤ src.pos + (((Src.reads chunkSize src).take i).flatten).length + 2 * chunkSize) := by
  rw [passEncryptIO_eq]
  obtain ⟨hseg, hp, segs, ps, h1, h2, h3, h4, h5, h6, h7, _, h9⟩ :=
    htc_trace P.aead (P.kdf pw salt) encPassMagic chunkSize encPassMagic salt src k
  refine ⟨hseg, hp, segs, ps, h1, h2, h3, h4, h5, h6, h7, Stamped.length_eq segs ps 0 h9, ?_⟩
  intro i hi hi'
  exact ⟨(Stamped.get segs ps 0 h9 i hi hi').2,
    Stamped.window chunkSize src.pos src.nreads _ (reads_le _ src) segs ps h9 i hi⟩

example : (passEncryptIO toyPrims [112, 119] (zeros 32) exSrc {}).2.2.log.map (·.srcReads) =
    [4, 4, 3, 3, 2, 2, 0, 0] := by decide

/-! ## C08: ciphertext length -/

/-- **C08, key mode.** 4 (magic) + 128 (handshake) + 32 per record + the plaintext, with at least one record. -/
theorem C08_length (P : Prims) (hP : P.Lawful) (s spk rs e epk pk d1 d2 : Bytes) (src : Src) (k : Snk)
    (hE : epk.length = 32) (hS : spk.length = 32) (hK : pk.length = 32)
    (h1 : P.dh e rs = some d1) (h2 : P.dh s rs = some d2)
    (hs : Src.faultFree src) (hk : Snk.benign k) :
    (keyEncryptIO P s spk rs e epk pk src k).1 = .ok ∧
    (keyEncryptIO P s spk rs e epk pk src k).2.2.out.length =
      k.out.length + 132 + 32 * max 1 (numNonEmpty (Src.reads chunkSize src)) + src.inp.length := by
  obtain ⟨encS, encP, hh, hw, _, _, _⟩ := Noise.writeMessage_ok P encPrologue s spk rs e epk pk d1 d2 h1 h2
  have hml := Noise.writeMessage_length P hP _ _ _ _ _ _ _ _ _ hE hS hw
  have hres := (C10_enc_partition_independence P s spk rs e epk pk src k hs hk).1
  rw [keyEncrypt_ok P s spk rs e epk pk _ hw, encryptChunks_reads] at hres
  refine ⟨hres, ?_⟩
  rw [keyEncryptIO_ok P s spk rs e epk pk src k hw,
    htc_length P.aead hP.aead _ [] (hP.hkdfFile_len pk hh) chunkSize gen_chunkSize_pos _ _ src k hs hk,
    gen_prologue_len, hml, hK]

example : (keyEncryptIO toyPrims exS exS exR exE exE exPk exSrc exSnk).1 = .ok ∧
    (keyEncryptIO toyPrims exS exS exR exE exE exPk exSrc exSnk).2.2.out.length =
      exSnk.out.length + 132 + 32 * max 1 (numNonEmpty (Src.reads chunkSize exSrc)) + exSrc.inp.length :=
  C08_length toyPrims toyPrims_lawful exS exS exR exE exE exPk _ _ exSrc exSnk
    (List.length_replicate ..) (List.length_replicate ..) (List.length_replicate ..) rfl rfl exSrc_faultFree exSnk_benign
example : numNonEmpty (Src.reads chunkSize exSrc) = 3 := by decide

/-- **C08, password mode.** 4 (magic) + 32 (salt) + 32 per record + the plaintext. -/
theorem C08_length_pass (P : Prims) (hA : P.aead.Lawful) (pw salt : Bytes) (src : Src) (k : Snk)
    (hsalt : salt.length = 32) (hkdf : (P.kdf pw salt).length = 32)
    (hs : Src.faultFree src) (hk : Snk.benign k) :
    (passEncryptIO P pw salt src k).1 = .ok ∧
    (passEncryptIO P pw salt src k).2.2.out.length =
      k.out.length + 36 + 32 * max 1 (numNonEmpty (Src.reads chunkSize src)) + src.inp.length := by
  have hres := (C10_enc_partition_independence_pass P pw salt src k hs hk).1
  rw [passEncrypt_eq, encryptChunks_reads] at hres
  refine ⟨hres, ?_⟩
  rw [passEncryptIO_eq,
    htc_length P.aead hA _ encPassMagic hkdf chunkSize gen_chunkSize_pos _ _ src k hs hk, gen_passmagic_len, hsalt]

example : (passEncryptIO toyPrims [112, 119] (zeros 32) exSrc exSnk).1 = .ok ∧
    (passEncryptIO toyPrims [112, 119] (zeros 32) exSrc exSnk).2.2.out.length =
      exSnk.out.length + 36 + 32 * max 1 (numNonEmpty (Src.reads chunkSize exSrc)) + exSrc.inp.length :=
  C08_length_pass toyPrims toyPrims_lawful.aead [112, 119] (zeros 32) exSrc exSnk (List.length_replicate ..)
    (by simp [toyPrims, zeros]) exSrc_faultFree exSnk_benign

end Kestrel
