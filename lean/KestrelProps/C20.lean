/-
  C20 — key containers erase their secret bytes when dropped.

  The model (`KestrelModel/Lifecycle.lean`) runs programs of `generate / fromBytes / clone / drop / cloneFrom` over a
  heap of containers; what a `drop` hands back to the allocator is `dropContents c secret`, which consults the row `c`
  of the table the translator extracts from the Rust source (`Generated.containers`: does the type have a `Drop` impl
  that zeroizes, does the zeroization cover the secret field, and does `a.clone_from(&b)` drop the old value of `a`
  — the default `*self = source.clone()` — rather than assign the secret field only).  `cloneFrom i j` overwrites live
  container `i` with a copy of live container `j` and releases the buffer `i` held before: `dropContents c old` when
  `assignDropsOld`, the old secret as it is otherwise.

  * `C20_table`       the obligation on the extracted table; fails to check when a `Drop` impl disappears or a
                      field-wise `clone_from` appears.
  * `C20_lifecycle`   under that obligation EVERY buffer released by EVERY program is all-zero.
  * `C20_release_count`   the number of releases is exactly: one per `drop` that hits a live container plus one per
                      `cloneFrom` whose two containers are both live (`hits`).
  * `C20_released_once`   a slot is *dropped* at most once (it is `none` for ever afterwards, and neither `drop` nor
                      `cloneFrom` releases anything from it again); a slot may be overwritten by `cloneFrom` any number
                      of times before that, each overwrite being one release counted in `hits`.
  * `C20_clone_independent`   dropping one container does not touch any other (a clone keeps the secret: deep copy).
  * `C20_cloneFrom_releases_zeros`, `C20_cloneFrom_others_untouched`   what one `cloneFrom` does.
  * `C20_leak_without_drop`, `C20_leak_without_cover`, `C20_leak_with_fieldwise_clone_from`   the obligation is not
                      vacuous: drop any one of its three parts and there is a program that releases the secret.

  What is NOT proved: that the compiled `Drop` code really performs the volatile writes (`zeroize` crate semantics,
  compiler barriers) and that no *other* copy of the secret exists outside these containers (stack temporaries,
  reallocation).  Those are observed by the harness (C20 heap scan), not derived.
-/
import KestrelModel.Lifecycle
namespace Kestrel
open Generated Lifecycle

/-! ### the obligation on the generated table -/

/-- **C20 (table).** Every secret container of the source has a zeroizing `Drop` that covers its secret field, and
    its `clone_from` drops the value it overwrites. -/
theorem C20_table : ∀ c ∈ Generated.containers,
    c.dropZeroizes = true ∧ c.zeroizeCoversSecret = true ∧ c.assignDropsOld = true := by decide

/-- the two containers the library hands out are in the table (so `C20_table` speaks about them) -/
theorem C20_container_PrivateKey : Lifecycle.container "PrivateKey" = some ⟨"PrivateKey", true, true, true⟩ := by decide
theorem C20_container_PayloadKey : Lifecycle.container "PayloadKey" = some ⟨"PayloadKey", true, true, true⟩ := by decide

/-! ### helpers -/

theorem Lifecycle.dropContents_zero (c : Container) (hd : c.dropZeroizes = true) (hz : c.zeroizeCoversSecret = true)
    (b : Bytes) : dropContents c b = zeros b.length := by
  simp [dropContents, hd, hz]

theorem Lifecycle.dropContents_length (c : Container) (b : Bytes) : (dropContents c b).length = b.length := by
  unfold dropContents
  split
  · exact List.length_replicate ..
  · rfl

theorem Lifecycle.mem_zeros {n : Nat} {x : UInt8} (h : x ∈ zeros n) : x = 0 := (List.mem_replicate.mp h).2

/-- an invariant of `step` is an invariant of every run from a heap that satisfies it -/
theorem Lifecycle.foldl_inv (c : Container) (I : Heap → Prop) (hstep : ∀ h op, I h → I (step c h op)) :
    ∀ (ops : List Op) (h : Heap), I h → I (ops.foldl (step c) h) := by
  intro ops
  induction ops with
  | nil => intro h hI; exact hI
  | cons op ops ih => intro h hI; exact ih _ (hstep h op hI)

/-- one step only ever adds to `released`, and what it adds is `dropContents` of a live secret (a `drop`), or what
    `clone_from` leaves of the live secret it overwrites -/
theorem Lifecycle.step_released (c : Container) (h : Heap) (op : Op) :
    (step c h op).released = h.released ∨
    (∃ i b, op = .drop i ∧ h.live[i]? = some (some b) ∧ (step c h op).released = dropContents c b :: h.released) ∨
    (∃ i j bi bj, op = .cloneFrom i j ∧ h.live[i]? = some (some bi) ∧ h.live[j]? = some (some bj) ∧
      (step c h op).released = (if c.assignDropsOld then dropContents c bi else bi) :: h.released) := by
  cases op with
  | generate s => exact Or.inl rfl
  | fromBytes b => exact Or.inl rfl
  | clone i =>
    left
    simp only [step]
    split <;> rfl
  | drop i =>
    simp only [step]
    split
    · rename_i b hb
      exact Or.inr (Or.inl ⟨i, b, rfl, hb, rfl⟩)
    · exact Or.inl rfl
  | cloneFrom i j =>
    simp only [step]
    split
    · rename_i bi bj hi hj
      exact Or.inr (Or.inr ⟨i, j, bi, bj, rfl, hi, hj, rfl⟩)
    · exact Or.inl rfl

/-! ### C20: everything released is zero -/

/-- **C20 (life cycle).** If the container's `Drop` zeroizes, the zeroization covers the secret and `clone_from`
    drops the value it overwrites, then for every program — any interleaving of constructions, clones, overwrites
    (`clone_from`, including `a.clone_from(&a)`, onto or from dropped slots) and drops, including drops of clones,
    double drops and drops of slots that never existed — every buffer handed back to the allocator consists of zero
    bytes only. -/
theorem C20_lifecycle (c : Container) (hd : c.dropZeroizes = true) (hz : c.zeroizeCoversSecret = true)
    (ha : c.assignDropsOld = true)
    (ops : List Op) : ∀ r ∈ (Lifecycle.run c ops).released, ∀ x ∈ r, x = 0 := by
  unfold Lifecycle.run
  refine Lifecycle.foldl_inv c (fun h => ∀ r ∈ h.released, ∀ x ∈ r, x = 0) ?_ ops {} ?_
  · intro h op hI
    have hcons : ∀ n : Nat, ∀ r ∈ zeros n :: h.released, ∀ x ∈ r, x = 0 := by
      intro n r hr x hx
      rcases List.mem_cons.mp hr with rfl | hr'
      · exact Lifecycle.mem_zeros hx
      · exact hI r hr' x hx
    rcases Lifecycle.step_released c h op with he | ⟨i, b, _, _, he⟩ | ⟨i, j, bi, bj, _, _, _, he⟩
    · rw [he]; exact hI
    · rw [he, Lifecycle.dropContents_zero c hd hz]
      exact hcons _
    · rw [he, if_pos ha, Lifecycle.dropContents_zero c hd hz]
      exact hcons _
  · intro r hr; cases hr

/-- **C20 for every container of the source**: table obligation ∘ life-cycle theorem. -/
theorem C20_all_containers (c : Container) (hc : c ∈ Generated.containers) (ops : List Op) :
    ∀ r ∈ (Lifecycle.run c ops).released, ∀ x ∈ r, x = 0 :=
  C20_lifecycle c (C20_table c hc).1 (C20_table c hc).2.1 (C20_table c hc).2.2 ops

/-- the instance for a container looked up by name -/
theorem C20_named (name : String) (c : Container) (hc : Lifecycle.container name = some c) (ops : List Op) :
    ∀ r ∈ (Lifecycle.run c ops).released, ∀ x ∈ r, x = 0 :=
  C20_all_containers c (List.mem_of_find?_eq_some hc) ops

/-- **C20, `PrivateKey`.** -/
theorem C20_PrivateKey : ∃ c, Lifecycle.container "PrivateKey" = some c ∧
    ∀ ops, ∀ r ∈ (Lifecycle.run c ops).released, ∀ x ∈ r, x = 0 :=
  ⟨_, C20_container_PrivateKey, C20_named "PrivateKey" _ C20_container_PrivateKey⟩

/-- **C20, `PayloadKey`.** -/
theorem C20_PayloadKey : ∃ c, Lifecycle.container "PayloadKey" = some c ∧
    ∀ ops, ∀ r ∈ (Lifecycle.run c ops).released, ∀ x ∈ r, x = 0 :=
  ⟨_, C20_container_PayloadKey, C20_named "PayloadKey" _ C20_container_PayloadKey⟩

/-- a program with a clone, a drop of the clone, a drop of the original, a double drop and a drop of a slot that never
    existed: two releases, both 3 zero bytes (the secret was `[1,2,3]`) -/
example : (Lifecycle.run ⟨"PrivateKey", true, true, true⟩
    [.generate [1,2,3], .clone 0, .drop 1, .drop 0, .drop 0, .drop 7]).released = [[0,0,0], [0,0,0]] := by decide

/-- two containers, the first overwritten by a copy of the second (`clone_from`), then both dropped: three releases —
    the overwritten 3-byte secret and the two 2-byte copies — all zero, and nothing is left alive -/
example : (Lifecycle.run ⟨"PrivateKey", true, true, true⟩
    [.fromBytes [1,2,3], .fromBytes [4,5], .cloneFrom 0 1, .drop 0, .drop 1]).released = [zeros 2, zeros 2, zeros 3] ∧
    (Lifecycle.run ⟨"PrivateKey", true, true, true⟩
    [.fromBytes [1,2,3], .fromBytes [4,5], .cloneFrom 0 1, .drop 0, .drop 1]).live = [none, none] := by decide

/-- the released buffer has the size of the secret: the whole secret is overwritten, not a part of it -/
theorem C20_release_covers (c : Container) (hd : c.dropZeroizes = true) (hz : c.zeroizeCoversSecret = true)
    (h : Heap) (i : Nat) (b : Bytes) (hb : h.live[i]? = some (some b)) :
    (step c h (.drop i)).released = zeros b.length :: h.released := by
  simp only [step, hb]
  rw [Lifecycle.dropContents_zero c hd hz]

example : (step ⟨"PayloadKey", true, true, true⟩ { live := [some [9,9]] } (.drop 0)).released = [zeros 2] :=
  C20_release_covers _ rfl rfl _ 0 [9,9] rfl

/-! ### C20: how many releases -/

/-- does this operation release a buffer in this heap? (a `drop` of a live slot: that slot's buffer; a `cloneFrom i j`
    with both slots live: ONE buffer, the one slot `i` held before being overwritten) -/
def Lifecycle.hit (h : Heap) : Op → Nat
  | .drop i => match h.live[i]? with
    | some (some _) => 1
    | _ => 0
  | .cloneFrom i j => match h.live[i]?, h.live[j]? with
    | some (some _), some (some _) => 1
    | _, _ => 0
  | _ => 0

/-- the number of releasing operations of the program, running from heap `h`: `drop i` operations that hit a live slot
    plus `cloneFrom i j` operations that find both slots live -/
def Lifecycle.hits (c : Container) : Heap → List Op → Nat
  | _, [] => 0
  | h, op :: ops => hit h op + hits c (step c h op) ops

/-- the number of `drop i` operations — for this one slot `i`, and `drop` only: overwrites of slot `i` by `cloneFrom`
    are NOT counted here (they are in `hits`) — that hit the slot while it is live -/
def Lifecycle.hitsAt (c : Container) (i : Nat) : Heap → List Op → Nat
  | _, [] => 0
  | h, op :: ops => (if op = .drop i then hit h op else 0) + hitsAt c i (step c h op) ops

theorem Lifecycle.step_released_length (c : Container) (h : Heap) (op : Op) :
    (step c h op).released.length = h.released.length + hit h op := by
  cases op with
  | generate s => rfl
  | fromBytes b => rfl
  | clone i => simp only [step, hit]; split <;> rfl
  | drop i =>
    simp only [step, hit]
    cases h.live[i]? with
    | none => rfl
    | some o => cases o <;> rfl
  | cloneFrom i j =>
    simp only [step, hit]
    cases h.live[i]? with
    | none => rfl
    | some oi =>
      cases oi with
      | none => rfl
      | some bi =>
        cases h.live[j]? with
        | none => rfl
        | some oj => cases oj <;> rfl

theorem Lifecycle.foldl_released_length (c : Container) : ∀ (ops : List Op) (h : Heap),
    (ops.foldl (step c) h).released.length = h.released.length + hits c h ops := by
  intro ops
  induction ops with
  | nil => intro h; rfl
  | cons op ops ih =>
    intro h
    rw [List.foldl_cons, ih, Lifecycle.step_released_length, hits]
    omega

/-- **C20 (release count).** The number of buffers released by a program is exactly the number of its `drop`
    operations that hit a live container plus the number of its `cloneFrom` operations that overwrite a live container
    with a live one (one release each: the overwritten value): nothing is released by `clone`/construction, nothing is
    released twice, nothing that was dropped or overwritten is kept. (Whatever the table row says.) -/
theorem C20_release_count (c : Container) (ops : List Op) :
    (Lifecycle.run c ops).released.length = Lifecycle.hits c {} ops := by
  unfold Lifecycle.run
  rw [Lifecycle.foldl_released_length]
  exact Nat.zero_add _

example : Lifecycle.hits ⟨"PrivateKey", true, true, true⟩ {}
    [.generate [1,2,3], .clone 0, .drop 1, .drop 0, .drop 0, .drop 7] = 2 := by decide

/-- two overwrites that release (one of them `a.clone_from(&a)`), one onto a dropped slot and one from a slot that
    never existed that do not, two drops -/
example : Lifecycle.hits ⟨"PrivateKey", true, true, true⟩ {}
    [.fromBytes [1,2,3], .fromBytes [4,5], .cloneFrom 0 1, .cloneFrom 1 1, .drop 0, .cloneFrom 0 1, .cloneFrom 1 7,
     .drop 1] = 4 := by decide

/-- a slot that has been dropped stays dropped under every operation (`cloneFrom` onto a dropped slot is a no-op) -/
theorem Lifecycle.step_dead (c : Container) (h : Heap) (i : Nat) (hi : h.live[i]? = some none) (op : Op) :
    (step c h op).live[i]? = some none := by
  have hlt : i < h.live.length := by
    rcases Nat.lt_or_ge i h.live.length with hlt | hge
    · exact hlt
    · rw [List.getElem?_eq_none hge] at hi; cases hi
  have happ : ∀ x : Option Bytes, (h.live ++ [x])[i]? = some none := by
    intro x; rw [List.getElem?_append_left hlt]; exact hi
  cases op with
  | generate s => exact happ _
  | fromBytes b => exact happ _
  | clone j =>
    simp only [step]
    split
    · exact happ _
    · exact hi
  | drop j =>
    simp only [step]
    split
    · by_cases hji : j = i
      · subst hji; simp only [List.getElem?_set_self hlt]
      · simp only [List.getElem?_set_ne hji]; exact hi
    · exact hi
  | cloneFrom j k =>
    simp only [step]
    split
    · rename_i bj bk hj hk
      by_cases hji : j = i
      · subst hji; rw [hi] at hj; cases hj
      · simp only [List.getElem?_set_ne hji]; exact hi
    · exact hi

/-- **C20 (released once), part 1.** After `drop i` has hit live slot `i`, the slot is `none` … -/
theorem C20_drop_kills (c : Container) (h : Heap) (i : Nat) (b : Bytes) (hb : h.live[i]? = some (some b)) :
    (step c h (.drop i)).live[i]? = some none := by
  have hlt : i < h.live.length := by
    rcases Nat.lt_or_ge i h.live.length with hlt | hge
    · exact hlt
    · rw [List.getElem?_eq_none hge] at hb; cases hb
  simp only [step, hb, List.getElem?_set_self hlt]

/-- **C20 (released once), part 2.** … and remains `none` through every continuation of the program … -/
theorem C20_dead_forever (c : Container) (i : Nat) (ops : List Op) (h : Heap) (hi : h.live[i]? = some none) :
    (ops.foldl (step c) h).live[i]? = some none :=
  Lifecycle.foldl_inv c (fun h => h.live[i]? = some none) (fun h op hI => Lifecycle.step_dead c h i hI op) ops h hi

/-- … so that no later `drop i` releases anything: it leaves the heap exactly as it is … -/
theorem C20_drop_dead_noop (c : Container) (h : Heap) (i : Nat) (hi : h.live[i]? = some none) :
    step c h (.drop i) = h := by
  simp only [step, hi]

/-- … and no later `cloneFrom i j` does either (nor a `cloneFrom j i` that would copy out of the dropped slot). -/
theorem C20_cloneFrom_dead_noop (c : Container) (h : Heap) (i j : Nat) (hi : h.live[i]? = some none) :
    step c h (.cloneFrom i j) = h ∧ step c h (.cloneFrom j i) = h := by
  constructor
  · simp only [step, hi]
  · simp only [step]
    split
    · rename_i bj bi hj hi'
      rw [hi] at hi'; cases hi'
    · rfl

theorem Lifecycle.hitsAt_dead (c : Container) (i : Nat) : ∀ (ops : List Op) (h : Heap), h.live[i]? = some none →
    hitsAt c i h ops = 0 := by
  intro ops
  induction ops with
  | nil => intro h _; rfl
  | cons op ops ih =>
    intro h hi
    rw [hitsAt, ih _ (Lifecycle.step_dead c h i hi op)]
    split
    · rename_i hop; subst hop; simp only [hit, hi]
    · rfl

/-- **C20 (released once).** For every program, from every heap, and every slot `i`: at most one `drop i` releases a
    buffer (each slot is *dropped* at most once).  What is counted is `drop i` only: before it is dropped a slot may be
    overwritten by `cloneFrom i _` any number of times, and each such overwrite releases the value the slot held then;
    those releases are counted in `hits` (`C20_release_count`), not here.  After the one `drop i` that hits, slot `i`
    releases nothing more by either operation (`C20_dead_forever`, `C20_drop_dead_noop`, `C20_cloneFrom_dead_noop`). -/
theorem C20_released_once (c : Container) (i : Nat) : ∀ (ops : List Op) (h : Heap), Lifecycle.hitsAt c i h ops ≤ 1 := by
  intro ops
  induction ops with
  | nil => intro h; exact Nat.zero_le _
  | cons op ops ih =>
    intro h
    rw [hitsAt]
    by_cases hop : op = .drop i
    · subst hop
      rw [if_pos rfl]
      cases hl : h.live[i]? with
      | none => simp only [hit, hl]; have := ih (step c h (.drop i)); omega
      | some o =>
        cases o with
        | none => simp only [hit, hl]; have := ih (step c h (.drop i)); omega
        | some b =>
          rw [Lifecycle.hitsAt_dead c i ops _ (C20_drop_kills c h i b hl)]
          simp only [hit, hl]
          exact Nat.le_refl _
    · rw [if_neg hop]; have := ih (step c h op); omega

example : Lifecycle.hitsAt ⟨"PrivateKey", true, true, true⟩ 0 {}
    [.generate [1,2,3], .drop 0, .drop 0, .generate [4], .drop 0] = 1 := by decide

/-- slot 0 is overwritten twice and then dropped: one *drop* of slot 0, three releases in all -/
example : Lifecycle.hitsAt ⟨"PrivateKey", true, true, true⟩ 0 {}
    [.generate [1,2,3], .generate [4], .cloneFrom 0 1, .cloneFrom 0 1, .drop 0, .cloneFrom 0 1, .drop 0] = 1 ∧
    Lifecycle.hits ⟨"PrivateKey", true, true, true⟩ {}
    [.generate [1,2,3], .generate [4], .cloneFrom 0 1, .cloneFrom 0 1, .drop 0, .cloneFrom 0 1, .drop 0] = 3 := by
  decide

/-! ### C20: containers are independent -/

/-- **C20 (independence).** Dropping container `i` leaves every other slot as it was — in particular a clone made
    earlier still holds the original secret, and an original survives the drop of its clone. -/
theorem C20_clone_independent (c : Container) (h : Heap) (i j : Nat) (hji : j ≠ i) :
    (step c h (.drop i)).live[j]? = h.live[j]? := by
  simp only [step]
  split
  · simp only [List.getElem?_set_ne (Ne.symm hji)]
  · rfl

/-- a clone is a deep copy placed in a new slot: it holds the cloned secret … -/
theorem C20_clone_holds (c : Container) (h : Heap) (i : Nat) (b : Bytes) (hb : h.live[i]? = some (some b)) :
    (step c h (.clone i)).live[h.live.length]? = some (some b) ∧ (step c h (.clone i)).live[i]? = some (some b) ∧
    (step c h (.clone i)).released = h.released := by
  have hlt : i < h.live.length := by
    rcases Nat.lt_or_ge i h.live.length with hlt | hge
    · exact hlt
    · rw [List.getElem?_eq_none hge] at hb; cases hb
  have hs : step c h (.clone i) = { h with live := h.live ++ [some b] } := by simp only [step, hb]
  rw [hs]
  refine ⟨?_, ?_, rfl⟩
  · rw [List.getElem?_append_right (Nat.le_refl _), Nat.sub_self]; rfl
  · rw [List.getElem?_append_left hlt]; exact hb

/-- … and still holds it after the original has been dropped (and zeroized). -/
theorem C20_clone_survives (c : Container) (h : Heap) (i : Nat) (b : Bytes) (hb : h.live[i]? = some (some b)) :
    (step c (step c h (.clone i)) (.drop i)).live[h.live.length]? = some (some b) := by
  have hlt : i < h.live.length := by
    rcases Nat.lt_or_ge i h.live.length with hlt | hge
    · exact hlt
    · rw [List.getElem?_eq_none hge] at hb; cases hb
  rw [C20_clone_independent c _ i h.live.length (by omega)]
  exact (C20_clone_holds c h i b hb).1

example : (Lifecycle.run ⟨"PrivateKey", true, true, true⟩ [.generate [1,2,3], .clone 0, .drop 0]).live = [none, some [1,2,3]] := by
  decide

/-! ### C20: overwriting a container (`clone_from`) -/

/-- **C20 (`clone_from`).** Overwriting live container `i` with live container `j` releases exactly one buffer: the
    one `i` held, of the size of the old secret and all zero; afterwards `i` holds a copy of `j`'s secret. -/
theorem C20_cloneFrom_releases_zeros (c : Container) (hd : c.dropZeroizes = true) (hz : c.zeroizeCoversSecret = true)
    (ha : c.assignDropsOld = true) (h : Heap) (i j : Nat) (bi bj : Bytes)
    (hi : h.live[i]? = some (some bi)) (hj : h.live[j]? = some (some bj)) :
    (step c h (.cloneFrom i j)).released = zeros bi.length :: h.released ∧
    (step c h (.cloneFrom i j)).live[i]? = some (some bj) := by
  have hlt : i < h.live.length := by
    rcases Nat.lt_or_ge i h.live.length with hlt | hge
    · exact hlt
    · rw [List.getElem?_eq_none hge] at hi; cases hi
  have hs : step c h (.cloneFrom i j) =
      { live := h.live.set i (some bj),
        released := (if c.assignDropsOld then dropContents c bi else bi) :: h.released } := by
    simp only [step, hi, hj]
  rw [hs]
  constructor
  · show (if c.assignDropsOld = true then dropContents c bi else bi) :: h.released = _
    rw [if_pos ha, Lifecycle.dropContents_zero c hd hz]
  · exact List.getElem?_set_self hlt

example : (step ⟨"PayloadKey", true, true, true⟩ { live := [some [9,9], some [7]] } (.cloneFrom 0 1)).released = [zeros 2] ∧
    (step ⟨"PayloadKey", true, true, true⟩ { live := [some [9,9], some [7]] } (.cloneFrom 0 1)).live[0]? = some (some [7]) :=
  C20_cloneFrom_releases_zeros _ rfl rfl rfl _ 0 1 [9,9] [7] rfl rfl

/-- `cloneFrom i j` leaves every slot other than `i` as it was — in particular the source `j` (when `j ≠ i`) keeps its
    secret: the copy is deep. (Whatever the table row says, and whether or not the operation hits.) -/
theorem C20_cloneFrom_others_untouched (c : Container) (h : Heap) (i j k : Nat) (hk : k ≠ i) :
    (step c h (.cloneFrom i j)).live[k]? = h.live[k]? := by
  simp only [step]
  split
  · simp only [List.getElem?_set_ne (Ne.symm hk)]
  · rfl

example : (Lifecycle.run ⟨"PrivateKey", true, true, true⟩ [.generate [1,2,3], .generate [4], .cloneFrom 0 1, .drop 0]).live =
    [none, some [4]] := by decide

/-! ### non-vacuity of the obligation -/

/-- **C20 (the obligation is needed).** For a container whose `Drop` does not zeroize (the table row a deleted
    `impl Drop` produces) there is a program whose release carries the secret. -/
theorem C20_leak_without_drop : ∃ (c : Container) (ops : List Op), c.dropZeroizes = false ∧
    ∃ r ∈ (Lifecycle.run c ops).released, ∃ x ∈ r, x ≠ 0 :=
  ⟨⟨"PrivateKey", false, true, true⟩, [.fromBytes [1,2,3], .drop 0], rfl, [1,2,3], by decide, 1, by decide, by decide⟩

/-- likewise when `Drop` exists but the zeroization does not cover the secret field -/
theorem C20_leak_without_cover : ∃ (c : Container) (ops : List Op), c.zeroizeCoversSecret = false ∧
    ∃ r ∈ (Lifecycle.run c ops).released, ∃ x ∈ r, x ≠ 0 :=
  ⟨⟨"PayloadKey", true, false, true⟩, [.generate [5], .clone 0, .drop 1], rfl, [5], by decide, 5, by decide, by decide⟩

example : (Lifecycle.run ⟨"PrivateKey", false, true, true⟩ [.fromBytes [1,2,3], .drop 0]).released = [[1,2,3]] := by decide

/-- likewise when `Drop` zeroizes the whole secret but `clone_from` assigns the secret field only (a hand-written
    `clone_from` instead of the default `*self = source.clone()`): the overwritten buffer goes back as it is -/
theorem C20_leak_with_fieldwise_clone_from : ∃ (c : Container) (ops : List Op),
    c.dropZeroizes = true ∧ c.zeroizeCoversSecret = true ∧ c.assignDropsOld = false ∧
    ∃ b ∈ (Lifecycle.run c ops).released, ∃ x ∈ b, x ≠ 0 :=
  ⟨⟨"PrivateKey", true, true, false⟩, [.fromBytes [1,2,3], .fromBytes [4,5], .cloneFrom 0 1], rfl, rfl, rfl,
    [1,2,3], by decide, 1, by decide, by decide⟩

example : (Lifecycle.run ⟨"PrivateKey", true, true, false⟩
    [.fromBytes [1,2,3], .fromBytes [4,5], .cloneFrom 0 1, .drop 0, .drop 1]).released = [zeros 2, zeros 2, [1,2,3]] := by
  decide

end Kestrel
