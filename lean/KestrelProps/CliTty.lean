/-
  The tool on a terminal (KestrelModel/CliTty.lean): what the retry loops may and may not change.

  * `tty_encrypt_retries_invisible`, `tty_decrypt_retries_invisible`, `tty_passEncrypt_retries_invisible`:
    any number of mistyped passwords (resp. mismatching confirmations) before the right one leaves the outcome —
    exit status, error class, the bytes on standard output, every file, the reported sender — exactly what it is
    when the right password is typed at once; only the retry count differs.  (C08: nothing but the file format
    reaches the output stream; C12/C13: no partial output, one report.)
  * `tty_encrypt_eq_scripted`, `tty_decrypt_eq_scripted`: that outcome is the outcome of the scripted tool
    (`--env-pass`) with that password — so every theorem about `run` applies.
  * `tty_wellReported`: exit status 0 without an error or 1 with one, for every request, world and typing.
-/
import KestrelModel.CliTty
import KestrelProofs.Cli
namespace Kestrel.Cli
open Kestrel.Keyring (Str utf8)

def unlocks (locked : Str) (l : Str) : Prop := ∃ sk, Keyring.unlockPrivateKey locked (utf8 l) = .ok sk

theorem firstUnlocking_hit (locked l : Str) (rest : List Str) (h : unlocks locked l) :
    firstUnlocking locked (l :: rest) = some (l, 0, rest) := by
  obtain ⟨sk, h⟩ := h
  simp only [firstUnlocking, h]

theorem firstUnlocking_miss (locked l : Str) (rest : List Str) (h : ¬ unlocks locked l) :
    firstUnlocking locked (l :: rest) = (firstUnlocking locked rest).map fun (p, n, r) => (p, n + 1, r) := by
  conv => lhs; unfold firstUnlocking
  split
  · rename_i sk hk; exact absurd ⟨sk, hk⟩ h
  · rfl

/-- mistyped passwords are skipped and counted -/
theorem firstUnlocking_skip (locked pw : Str) (wrongs rest : List Str)
    (hw : ∀ x ∈ wrongs, ¬ unlocks locked x) (hp : unlocks locked pw) :
    firstUnlocking locked (wrongs ++ pw :: rest) = some (pw, wrongs.length, rest) := by
  induction wrongs with
  | nil => exact firstUnlocking_hit locked pw rest hp
  | cons x xs ih =>
    rw [List.cons_append, firstUnlocking_miss locked x _ (hw x (List.mem_cons_self ..)),
      ih (fun y hy => hw y (List.mem_cons_of_mem _ hy))]
    rfl

/-- a list of (password, confirmation) attempts that all disagree -/
def mismatches : List (Str × Str) → Prop
  | [] => True
  | (a, b) :: r => a ≠ b ∧ mismatches r

def flattenPairs : List (Str × Str) → List Str
  | [] => []
  | (a, b) :: r => a :: b :: flattenPairs r

theorem confirmLoop_skip (bad : List (Str × Str)) (pw : Str) (rest : List Str) (hb : mismatches bad) :
    confirmLoop (flattenPairs bad ++ pw :: pw :: rest) = some (pw, bad.length, rest) := by
  induction bad with
  | nil => simp [flattenPairs, confirmLoop]
  | cons x xs ih =>
    obtain ⟨a, b⟩ := x
    obtain ⟨hne, hr⟩ := hb
    simp only [flattenPairs, List.cons_append, confirmLoop, if_neg hne, ih hr, Option.map_some, List.length_cons]

/-! ### mistyped passwords leave no trace -/

theorem tty_encrypt_retries_invisible (P : Prims) (rnd : Rand) (w : World) (i t f : Str) (o k : Option Str)
    (locked pw : Str) (wrongs rest : List Str)
    (hl : lockedFor w k (some t) f = some locked)
    (hw : ∀ x ∈ wrongs, ¬ unlocks locked x) (hp : unlocks locked pw) :
    (runTty P rnd w (wrongs ++ pw :: rest) (.encrypt (some i) t f o k false)).out
        = (runTty P rnd w [pw] (.encrypt (some i) t f o k false)).out ∧
    (runTty P rnd w (wrongs ++ pw :: rest) (.encrypt (some i) t f o k false)).retries
        = (if sameFile (some i) o || (w.file i).isNone then 0 else wrongs.length) := by
  have h1 := firstUnlocking_skip locked pw wrongs rest hw hp
  have h2 := firstUnlocking_hit locked pw [] hp
  simp only [runTty, hl, h1, h2]
  cases sameFile (some i) o <;> cases (w.file i).isNone <;> simp

theorem tty_decrypt_retries_invisible (P : Prims) (rnd : Rand) (w : World) (i t : Str) (o k : Option Str)
    (locked pw : Str) (wrongs rest : List Str)
    (hl : lockedFor w k none t = some locked)
    (hw : ∀ x ∈ wrongs, ¬ unlocks locked x) (hp : unlocks locked pw) :
    (runTty P rnd w (wrongs ++ pw :: rest) (.decrypt (some i) t o k false)).out
        = (runTty P rnd w [pw] (.decrypt (some i) t o k false)).out ∧
    (runTty P rnd w (wrongs ++ pw :: rest) (.decrypt (some i) t o k false)).retries
        = (if sameFile (some i) o || (w.file i).isNone then 0 else wrongs.length) := by
  have h1 := firstUnlocking_skip locked pw wrongs rest hw hp
  have h2 := firstUnlocking_hit locked pw [] hp
  simp only [runTty, hl, h1, h2]
  cases sameFile (some i) o <;> cases (w.file i).isNone <;> simp

theorem tty_passEncrypt_retries_invisible (P : Prims) (rnd : Rand) (w : World) (i : Str) (o : Option Str)
    (pw : Str) (bad : List (Str × Str)) (rest : List Str) (hb : mismatches bad) :
    (runTty P rnd w (flattenPairs bad ++ pw :: pw :: rest) (.passEncrypt (some i) o false)).out
        = (runTty P rnd w [pw, pw] (.passEncrypt (some i) o false)).out := by
  have h1 := confirmLoop_skip bad pw rest hb
  have h2 := confirmLoop_skip [] pw [] trivial
  simp only [flattenPairs, List.nil_append] at h2
  simp only [runTty, h1, h2]
  cases sameFile (some i) o <;> cases (w.file i).isNone <;> simp

/-! ### the interactive run is the scripted run with the password that was finally typed -/

theorem tty_encrypt_eq_scripted (P : Prims) (rnd : Rand) (w : World) (i t f : Str) (o k : Option Str)
    (locked pw : Str) (wrongs rest : List Str)
    (hs : sameFile (some i) o = false) (hi : (w.file i).isSome)
    (hl : lockedFor w k (some t) f = some locked)
    (hw : ∀ x ∈ wrongs, ¬ unlocks locked x) (hp : unlocks locked pw) :
    (runTty P rnd w (wrongs ++ pw :: rest) (.encrypt (some i) t f o k false)).out
      = run P rnd (w.setenv (str "KESTREL_PASSWORD") pw) (.encrypt (some i) t f o k true) := by
  have h1 := firstUnlocking_skip locked pw wrongs rest hw hp
  have hi' : (w.file i).isNone = false := by cases h : w.file i <;> simp_all
  simp only [runTty, hl, h1, hs, hi', run]
  simp

theorem tty_decrypt_eq_scripted (P : Prims) (rnd : Rand) (w : World) (i t : Str) (o k : Option Str)
    (locked pw : Str) (wrongs rest : List Str)
    (hs : sameFile (some i) o = false) (hi : (w.file i).isSome)
    (hl : lockedFor w k none t = some locked)
    (hw : ∀ x ∈ wrongs, ¬ unlocks locked x) (hp : unlocks locked pw) :
    (runTty P rnd w (wrongs ++ pw :: rest) (.decrypt (some i) t o k false)).out
      = run P rnd (w.setenv (str "KESTREL_PASSWORD") pw) (.decrypt (some i) t o k true) := by
  have h1 := firstUnlocking_skip locked pw wrongs rest hw hp
  have hi' : (w.file i).isNone = false := by cases h : w.file i <;> simp_all
  simp only [runTty, hl, h1, hs, hi', run]
  simp

/-! ### one exit status, one report -/

theorem tty_wellReported (P : Prims) (rnd : Rand) (w : World) (typed : List Str) (req : Request) :
    (runTty P rnd w typed req).out.wellReported := by
  have hr := fun w' req' => wellReported_run P rnd w' req'
  have hf := fun c => wellReported_fail w c
  unfold runTty
  split <;> try exact hf _
  all_goals (repeat' split) <;> first
    | exact hf _
    | exact hr _ _
    | exact hr _ (.encrypt _ _ _ _ _ _)
    | exact hr _ (.decrypt _ _ _ _ _)
    | exact hr _ (.passEncrypt _ _ _)
    | exact hr _ (.passDecrypt _ _ _)
    | exact hr _ (.keyGen _ _)
    | exact hr _ (.changePass _ _)
    | exact hr _ (.extractPub _ _)

/-! ### non-vacuity
  `unlocks locked pw` for a concrete key means running scrypt (N = 32768) inside the kernel, which is out of reach;
  the harness `tty` cases supply it instead: they type two wrong passwords and the right one for the fixture keys at
  the real binary and at `kmodel cli_tty`, and compare.  The confirmation loop is checked here. -/

example : confirmLoop [str "a", str "b", str "c", str "c", str "z"] = some (str "c", 1, [str "z"]) := by decide
example : mismatches [(str "a", str "b")] := ⟨by decide, trivial⟩

end Kestrel.Cli
