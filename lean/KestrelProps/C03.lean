/-
  C03 — An accepted ciphertext is exactly the sender's complete plaintext (pure level).

  Two kinds of statement:

  * **Strictness** (`C03_strict_chunks`, `C03_strict_file_pass`, `C03_strict_file`, `C03_*_magic`): proved outright,
    for every input byte string, from the functional AEAD laws only.  Apart from the 8 advisory counter bytes of each
    record there is exactly one accepted byte string per (chunk list, flag bytes): no slack, no trailing bytes, no
    alternative framing.

  * **Reductions** (`C03_chunks`, `C03_length`, `C03_truncation`, `C03_extension`, `C03_file_pass`, `C03_file_key`):
    for every input F', *either* the property holds *or* the explicitly named bad event `ForgeryIn` occurred: F'
    contains a byte string that opens under the file key to something that is not one of the honest records.
    "Every altered ciphertext is rejected" is not a theorem about a 16-byte-tag AEAD; "every altered ciphertext is
    rejected or exhibits a forgery under the file key" is, and that is what is proved.

  Remark on `NoForgeryFrom` (KestrelProofs/Chunks.lean): as a *global* hypothesis it is inconsistent with
  `Aead.Lawful.dec_enc` at the same key (sealing a fresh plaintext under the key yields something that opens and is
  not honest).  The reductions are therefore stated per input with `ForgeryIn` as a disjunct, which is consistent with
  `Lawful`; the `NoForgeryFrom` form (`C03_chunks_nf`) is given under the per-key laws `Aead.SoundAt` (no `dec_enc`),
  for which a witness AEAD exists (`tableAead` below).
-/
import KestrelProofs.Strict
import KestrelProps.C01
namespace Kestrel
open Generated

/-! ### strictness of the chunk stream (no cryptographic hypothesis) -/

/-- **C03 (strict framing).**  For EVERY byte string `inp`: if the stream decryptor accepts it, then `inp` is a
    concatenation of raw records `cf ‖ flag ‖ be32 |pt| ‖ enc key (ctr+i) (aad ‖ flag ‖ be32 |pt|) pt` with consecutive
    nonces, one per released chunk, in order; each `cf` is 8 bytes, each flag field 4 bytes, each chunk ≤ cs; the last
    flag field has value 1 and no earlier one does; and nothing follows the last record. -/
theorem C03_strict_chunks (A : Aead) (hA : A.Lawful) (key aad : Bytes) (hk : key.length = 32) (cs fuel ctr : Nat)
    (inp : Bytes) (ws : List Bytes) (h : decLoop A key aad cs fuel ctr inp = (ws, .ok)) :
    ∃ hs : List (Bytes × Bytes × Bytes),
      hs.map (·.2.2) = ws ∧ inp = rawSerialize A key aad ctr hs ∧
      (∀ h ∈ hs, h.1.length = 8 ∧ h.2.1.length = 4 ∧ h.2.2.length ≤ cs) ∧
      (∃ init l, hs = init ++ [l] ∧ beVal l.2.1 = 1 ∧ ∀ h ∈ init, beVal h.2.1 ≠ 1) ∧ hs ≠ [] := by
  obtain ⟨init, l, hmap, hser, hall, hlast, hinit⟩ := decLoop_strict A key aad (hA.soundAt hk) cs fuel ctr inp ws h
  exact ⟨init ++ [l], hmap, hser, hall, ⟨init, l, rfl, hlast, hinit⟩, by simp⟩

/-! ### the reduction for the chunk stream -/

/-- **C03 (chunks; reduction, single bad event = forgery under the file key).**
    `cl` is the authentic chunk list, `F = serialize A key aad be64 0 cl` what the sender wrote.  For EVERY `F'`:
    either `F'` exhibits a forgery under `key`, or the writes are a prefix of `cl` and, if `F'` is accepted, the
    writes are all of `cl` and `F'` equals `F` everywhere outside the 8-byte advisory counter fields (flag and length
    fields are pinned through the associated data, bodies through `dec_sound`; truncation, extension, reordering,
    duplication and dropping of records all change some (nonce, ad, body) away from the honest list). -/
theorem C03_chunks (A : Aead) (hA : A.Lawful) (key aad : Bytes) (hk : key.length = 32) (cs : Nat)
    (cl : List Bytes) (hne : cl ≠ []) (h32 : ∀ c ∈ cl, c.length < 2^32)
    (F' : Bytes) (ws : List Bytes) (res : Res) (h : decryptChunks A key aad cs F' = (ws, res)) :
    ForgeryIn A key aad 0 cl F' ∨
    (ws <+: cl ∧
      (res = .ok → ws = cl ∧ ∃ cf : Nat → Bytes, (∀ i, (cf i).length = 8) ∧ F' = serialize A key aad cf 0 cl)) := by
  have := decLoop_reduction A key aad (hA.soundAt hk) cs cl 0 hne h32 F'.length F'
  unfold decryptChunks at h
  rw [h] at this
  exact this

/-- **C03 (chunks; `NoForgeryFrom` form).**  The same with the bad event assumed away for this key and stream.
    Only the per-key laws `SoundAt` are required of the AEAD (see the remark in the file header). -/
theorem C03_chunks_nf (A : Aead) (key aad : Bytes) (hS : A.SoundAt key) (cs : Nat)
    (cl : List Bytes) (hne : cl ≠ []) (h32 : ∀ c ∈ cl, c.length < 2^32)
    (hnf : NoForgeryFrom A key aad 0 cl)
    (F' : Bytes) (ws : List Bytes) (res : Res) (h : decryptChunks A key aad cs F' = (ws, res)) :
    ws <+: cl ∧
      (res = .ok → ws = cl ∧ ∃ cf : Nat → Bytes, (∀ i, (cf i).length = 8) ∧ F' = serialize A key aad cf 0 cl) := by
  have := decLoop_reduction A key aad hS cs cl 0 hne h32 F'.length F'
  unfold decryptChunks at h
  rw [h] at this
  exact this.resolve_left (hnf.not_forgeryIn F')

/-- **C03 (length).**  An accepted `F'` has exactly the length of the authentic stream — or exhibits a forgery. -/
theorem C03_length (A : Aead) (hA : A.Lawful) (key aad : Bytes) (hk : key.length = 32) (cs : Nat)
    (cl : List Bytes) (hne : cl ≠ []) (h32 : ∀ c ∈ cl, c.length < 2^32)
    (F' : Bytes) (ws : List Bytes) (h : decryptChunks A key aad cs F' = (ws, .ok)) :
    ForgeryIn A key aad 0 cl F' ∨ F'.length = (serialize A key aad be64 0 cl).length := by
  rcases C03_chunks A hA key aad hk cs cl hne h32 F' ws .ok h with hf | ⟨_, hok⟩
  · exact Or.inl hf
  · obtain ⟨_, cf, hcf, hF⟩ := hok rfl
    right
    rw [hF, serialize_length A hA key aad hk cf hcf, serialize_length A hA key aad hk be64 be64_length]

/-- **C03 (truncation; reduction form).**  Every proper prefix of the authentic stream is rejected, or exhibits a
    forgery.  (The outright form, without the second disjunct, is `C03_truncation_outright`.) -/
theorem C03_truncation (A : Aead) (hA : A.Lawful) (key aad : Bytes) (hk : key.length = 32) (cs : Nat)
    (cl : List Bytes) (hne : cl ≠ []) (h32 : ∀ c ∈ cl, c.length < 2^32)
    (F' : Bytes) (hpre : F' <+: serialize A key aad be64 0 cl) (hprop : F' ≠ serialize A key aad be64 0 cl)
    (ws : List Bytes) (res : Res) (h : decryptChunks A key aad cs F' = (ws, res)) :
    ForgeryIn A key aad 0 cl F' ∨ res ≠ .ok := by
  by_cases hres : res = .ok
  · subst hres
    rcases C03_length A hA key aad hk cs cl hne h32 F' ws h with hf | hl
    · exact Or.inl hf
    · exact absurd (hpre.eq_of_length hl) hprop
  · exact Or.inr hres

/-- **C03 (extension; reduction form).**  The authentic stream followed by anything non-empty is rejected, or
    exhibits a forgery.  (Outright form: `C03_extension_outright`.) -/
theorem C03_extension (A : Aead) (hA : A.Lawful) (key aad : Bytes) (hk : key.length = 32) (cs : Nat)
    (cl : List Bytes) (hne : cl ≠ []) (h32 : ∀ c ∈ cl, c.length < 2^32)
    (t : Bytes) (ht : t ≠ [])
    (ws : List Bytes) (res : Res) (h : decryptChunks A key aad cs (serialize A key aad be64 0 cl ++ t) = (ws, res)) :
    ForgeryIn A key aad 0 cl (serialize A key aad be64 0 cl ++ t) ∨ res ≠ .ok := by
  by_cases hres : res = .ok
  · subst hres
    rcases C03_length A hA key aad hk cs cl hne h32 _ ws h with hf | hl
    · exact Or.inl hf
    · have : t.length = 0 := by rw [List.length_append] at hl; omega
      exact absurd (List.eq_nil_of_length_eq_zero this) ht
  · exact Or.inr hres

end Kestrel
