/-
  C03 — An accepted ciphertext is exactly the sender's complete plaintext (pure level).

  Two kinds of statement:

  * **Strictness** (`C03_strict_chunks` and its converse `C03_strict_chunks_exact`, `C03_strict_file_pass`,
    `C03_strict_file`, `C03_*_magic`, `C03_truncation_outright`, `C03_extension_outright`): proved outright,
    for every input byte string, from the functional AEAD laws only.  Apart from the 8 advisory counter bytes of each
    record there is exactly one accepted byte string per (chunk list, flag bytes): no slack, no trailing bytes, no
    alternative framing.

  * **Reductions** (`C03_chunks`, `C03_length`, `C03_truncation`, `C03_extension`, `C03_file_pass`, `C03_file_key`):
    for every input F', *either* the property holds *or* the explicitly named bad event `ForgeryIn` occurred: F'
    contains a byte string that opens under the file key to something that is not one of the honest records.
    "Every altered ciphertext is rejected" is not a theorem about a 16-byte-tag AEAD; "every altered ciphertext is
    rejected or exhibits a forgery under the file key" is, and that is what is proved.

  Remark on `NoForgeryFrom` (KestrelProofs/Chunks.lean): as a *global* hypothesis it is inconsistent with
  `Aead.Lawful.dec_enc` at the same key (sealing a fresh plaintext under the key yields something that opens and is
  not honest; proved as `NoForgeryFrom.contradicts_dec_enc` in KestrelProofs/Strict.lean).  The reductions are therefore stated per input with `ForgeryIn` as a disjunct, which is consistent with
  `Lawful`; the `NoForgeryFrom` form (`C03_chunks_nf`) is given under the per-key laws `Aead.SoundAt` (no `dec_enc`),
  for which a witness AEAD exists (`tableAead` below).
-/
import KestrelProofs.Strict
import KestrelProps.C01
namespace Kestrel
open Generated

/-! ### strictness of the chunk stream (no cryptographic hypothesis) -/

/-- **C03 (strict framing).**  For EVERY byte string `inp`: if the stream decryptor accepts it, then `inp` is a
    concatenation of raw records `cf ‖ flag ‖ be32 |pt| ‖ enc key (ctr+i) (aad ‖ flag ‖ be32 |pt|) pt` with consecutive
    nonces, one per released chunk, in order; each `cf` is 8 bytes, each flag field 4 bytes, each chunk ≤ cs; the last
    flag field has value 1 and no earlier one does; and nothing follows the last record. -/
theorem C03_strict_chunks (A : Aead) (hA : A.Lawful) (key aad : Bytes) (hk : key.length = 32) (cs fuel ctr : Nat)
    (inp : Bytes) (ws : List Bytes) (h : decLoop A key aad cs fuel ctr inp = (ws, .ok)) :
    ∃ hs : List (Bytes × Bytes × Bytes),
      hs.map (·.2.2) = ws ∧ inp = rawSerialize A key aad ctr hs ∧
      (∀ h ∈ hs, h.1.length = 8 ∧ h.2.1.length = 4 ∧ h.2.2.length ≤ cs) ∧
      (∃ init l, hs = init ++ [l] ∧ beVal l.2.1 = 1 ∧ ∀ h ∈ init, beVal h.2.1 ≠ 1) ∧ hs ≠ [] := by
  obtain ⟨init, l, hmap, hser, hall, hlast, hinit⟩ := decLoop_strict A key aad (hA.soundAt hk) cs fuel ctr inp ws h
  exact ⟨init ++ [l], hmap, hser, hall, ⟨init, l, rfl, hlast, hinit⟩, by simp⟩

/-- **C03 (strict framing, converse).**  Every byte string of the shape described by `C03_strict_chunks` is
    accepted and releases exactly its plaintexts — so that shape is *exactly* the accepted set. -/
theorem C03_strict_chunks_exact (A : Aead) (hA : A.Lawful) (key aad : Bytes) (hk : key.length = 32) (cs : Nat)
    (hcs : cs < 2^32) (ctr : Nat) (init : List (Bytes × Bytes × Bytes)) (l : Bytes × Bytes × Bytes)
    (hall : ∀ h ∈ init ++ [l], h.1.length = 8 ∧ h.2.1.length = 4 ∧ h.2.2.length ≤ cs)
    (hl : beVal l.2.1 = 1) (hinit : ∀ h ∈ init, beVal h.2.1 ≠ 1) :
    decLoop A key aad cs (rawSerialize A key aad ctr (init ++ [l])).length ctr
      (rawSerialize A key aad ctr (init ++ [l])) = ((init ++ [l]).map (·.2.2), .ok) :=
  decLoop_rawSerialize A hA key aad hk cs hcs l hl init ctr _ hall hinit (Nat.le_refl _)

/-! ### the reduction for the chunk stream -/

/-- **C03 (chunks; reduction, single bad event = forgery under the file key).**
    `cl` is the authentic chunk list, `F = serialize A key aad be64 0 cl` what the sender wrote.  For EVERY `F'`:
    either `F'` exhibits a forgery under `key`, or the writes are a prefix of `cl` and, if `F'` is accepted, the
    writes are all of `cl` and `F'` equals `F` everywhere outside the 8-byte advisory counter fields (flag and length
    fields are pinned through the associated data, bodies through `dec_sound`; truncation, extension, reordering,
    duplication and dropping of records all change some (nonce, ad, body) away from the honest list). -/
theorem C03_chunks (A : Aead) (hA : A.Lawful) (key aad : Bytes) (hk : key.length = 32) (cs : Nat)
    (cl : List Bytes) (hne : cl ≠ []) (h32 : ∀ c ∈ cl, c.length < 2^32)
    (F' : Bytes) (ws : List Bytes) (res : Res) (h : decryptChunks A key aad cs F' = (ws, res)) :
    ForgeryIn A key aad 0 cl F' ∨
    (ws <+: cl ∧
      (res = .ok → ws = cl ∧ ∃ cf : Nat → Bytes, (∀ i, (cf i).length = 8) ∧ F' = serialize A key aad cf 0 cl)) := by
  have := decLoop_reduction A key aad (hA.soundAt hk) cs cl 0 hne h32 F'.length F'
  unfold decryptChunks at h
  rw [h] at this
  exact this

/-- **C03 (chunks; `NoForgeryFrom` form).**  The same with the bad event assumed away for this key and stream.
    Only the per-key laws `SoundAt` are required of the AEAD (see the remark in the file header). -/
theorem C03_chunks_nf (A : Aead) (key aad : Bytes) (hS : A.SoundAt key) (cs : Nat)
    (cl : List Bytes) (hne : cl ≠ []) (h32 : ∀ c ∈ cl, c.length < 2^32)
    (hnf : NoForgeryFrom A key aad 0 cl)
    (F' : Bytes) (ws : List Bytes) (res : Res) (h : decryptChunks A key aad cs F' = (ws, res)) :
    ws <+: cl ∧
      (res = .ok → ws = cl ∧ ∃ cf : Nat → Bytes, (∀ i, (cf i).length = 8) ∧ F' = serialize A key aad cf 0 cl) := by
  have := decLoop_reduction A key aad hS cs cl 0 hne h32 F'.length F'
  unfold decryptChunks at h
  rw [h] at this
  exact this.resolve_left (hnf.not_forgeryIn F')

/-- **C03 (length).**  An accepted `F'` has exactly the length of the authentic stream — or exhibits a forgery. -/
theorem C03_length (A : Aead) (hA : A.Lawful) (key aad : Bytes) (hk : key.length = 32) (cs : Nat)
    (cl : List Bytes) (hne : cl ≠ []) (h32 : ∀ c ∈ cl, c.length < 2^32)
    (F' : Bytes) (ws : List Bytes) (h : decryptChunks A key aad cs F' = (ws, .ok)) :
    ForgeryIn A key aad 0 cl F' ∨ F'.length = (serialize A key aad be64 0 cl).length := by
  rcases C03_chunks A hA key aad hk cs cl hne h32 F' ws .ok h with hf | ⟨_, hok⟩
  · exact Or.inl hf
  · obtain ⟨_, cf, hcf, hF⟩ := hok rfl
    right
    rw [hF, serialize_length A hA key aad hk cf hcf, serialize_length A hA key aad hk be64 be64_length]

/-- **C03 (truncation; reduction form).**  Every proper prefix of the authentic stream is rejected, or exhibits a
    forgery.  (The outright form, without the second disjunct, is `C03_truncation_outright`.) -/
theorem C03_truncation (A : Aead) (hA : A.Lawful) (key aad : Bytes) (hk : key.length = 32) (cs : Nat)
    (cl : List Bytes) (hne : cl ≠ []) (h32 : ∀ c ∈ cl, c.length < 2^32)
    (F' : Bytes) (hpre : F' <+: serialize A key aad be64 0 cl) (hprop : F' ≠ serialize A key aad be64 0 cl)
    (ws : List Bytes) (res : Res) (h : decryptChunks A key aad cs F' = (ws, res)) :
    ForgeryIn A key aad 0 cl F' ∨ res ≠ .ok := by
  by_cases hres : res = .ok
  · subst hres
    rcases C03_length A hA key aad hk cs cl hne h32 F' ws h with hf | hl
    · exact Or.inl hf
    · exact absurd (hpre.eq_of_length hl) hprop
  · exact Or.inr hres

/-- **C03 (extension; reduction form).**  The authentic stream followed by anything non-empty is rejected, or
    exhibits a forgery.  (Outright form: `C03_extension_outright`.) -/
theorem C03_extension (A : Aead) (hA : A.Lawful) (key aad : Bytes) (hk : key.length = 32) (cs : Nat)
    (cl : List Bytes) (hne : cl ≠ []) (h32 : ∀ c ∈ cl, c.length < 2^32)
    (t : Bytes) (ht : t ≠ [])
    (ws : List Bytes) (res : Res) (h : decryptChunks A key aad cs (serialize A key aad be64 0 cl ++ t) = (ws, res)) :
    ForgeryIn A key aad 0 cl (serialize A key aad be64 0 cl ++ t) ∨ res ≠ .ok := by
  by_cases hres : res = .ok
  · subst hres
    rcases C03_length A hA key aad hk cs cl hne h32 _ ws h with hf | hl
    · exact Or.inl hf
    · have : t.length = 0 := by rw [List.length_append] at hl; omega
      exact absurd (List.eq_nil_of_length_eq_zero this) ht
  · exact Or.inr hres

/-! ### whole files that keep the authentic header -/

/-- **C03 (password-mode file; reduction).**  `F` = the file the sender produced for password `w` and salt `salt`.
    For EVERY `F'` whose first 36 bytes (magic, salt) are those of `F`: either the part of `F'` after the header
    exhibits a forgery under the scrypt key `P.kdf w salt`, or decryption releases a prefix of the authentic chunk
    list and — if it reports success — released exactly `fileChunks reads` and `F'` is `F` up to the advisory
    counter fields. -/
theorem C03_file_pass (P : Prims) (hA : P.aead.Lawful) (w salt : Bytes) (reads : List Bytes)
    (hsalt : salt.length = 32) (hkdf : (P.kdf w salt).length = 32)
    (hwf : wellFormedReads reads) (hle : ∀ c ∈ reads, c.length ≤ chunkSize)
    (F' : Bytes) (hhdr : F'.take 36 = (passEncrypt P w salt reads).1.take 36)
    (ws : List Bytes) (res : Res) (h : passDecrypt P w F' = (ws, res)) :
    ForgeryIn P.aead (P.kdf w salt) encPassMagic 0 (fileChunks reads) (F'.drop 36) ∨
    (ws <+: fileChunks reads ∧
      (res = .ok → ws = fileChunks reads ∧ ∃ cf : Nat → Bytes, (∀ i, (cf i).length = 8) ∧
        F' = encPassMagic ++ salt ++ serialize P.aead (P.kdf w salt) encPassMagic cf 0 (fileChunks reads))) := by
  have h36 : (encPassMagic ++ salt).length = 36 := by simp [gen_passmagic_len, hsalt]
  rw [passEncrypt_eq_serialize P w salt reads hwf] at hhdr
  simp only [] at hhdr
  rw [List.append_assoc encPassMagic salt, ← List.append_assoc, List.take_left' h36] at hhdr
  obtain ⟨hm, hs, hl⟩ := take_append_split F' encPassMagic salt (by rw [gen_passmagic_len, hsalt]; exact hhdr)
  rw [gen_passmagic_len] at hm hs hl
  rw [hsalt] at hs hl
  rw [passDecrypt_body P w F' hm hl, hs] at h
  have h32 : ∀ c ∈ fileChunks reads, c.length < 2^32 := fun c hc =>
    Nat.lt_of_le_of_lt (fileChunks_le reads chunkSize hle c hc) gen_chunkSize_lt
  rcases C03_chunks P.aead hA (P.kdf w salt) encPassMagic hkdf chunkSize (fileChunks reads) (fileChunks_ne_nil reads) h32
      (F'.drop 36) ws res h with hf | ⟨hpre, hok⟩
  · exact Or.inl hf
  · refine Or.inr ⟨hpre, fun hres => ?_⟩
    obtain ⟨hws, cf, hcf, hF⟩ := hok hres
    refine ⟨hws, cf, hcf, ?_⟩
    rw [← hF, ← hhdr, List.take_append_drop]

/-- **C03 (key-mode file; reduction).**  `F` = the file produced by `key_encrypt` (handshake message `msg`,
    handshake hash `hh`, so the file key is `P.hkdfFile pk hh`).  For EVERY `F'` whose first 132 bytes (magic and
    handshake message) are those of `F`: either the part after the header exhibits a forgery under the file key, or
    decryption releases a prefix of the authentic chunk list, names a sender only on success, and — on success —
    released exactly `fileChunks reads`, names exactly `spk`, and `F'` is `F` up to the advisory counter fields. -/
theorem C03_file_key (P : Prims) (hP : P.Lawful) (s spk r rpk e epk pk d1 d2 msg hh : Bytes) (reads : List Bytes)
    (hE : epk.length = 32) (hS : spk.length = 32) (hK : pk.length = 32)
    (h1 : P.dh e rpk = some d1) (h2 : P.dh s rpk = some d2)
    (h1' : P.dh r epk = some d1) (h2' : P.dh r spk = some d2)
    (hwf : wellFormedReads reads) (hle : ∀ c ∈ reads, c.length ≤ chunkSize)
    (hw : Noise.writeMessage P encPrologue s spk rpk e epk pk = .ok (msg, hh))
    (F' : Bytes) (hhdr : F'.take 132 = (keyEncrypt P s spk rpk e epk pk reads).1.take 132)
    (ws : List Bytes) (res : Res) (snd : Option Bytes) (h : keyDecrypt P r rpk F' = (ws, res, snd)) :
    ForgeryIn P.aead (P.hkdfFile pk hh) [] 0 (fileChunks reads) (F'.drop 132) ∨
    (ws <+: fileChunks reads ∧ (res ≠ .ok → snd = none) ∧
      (res = .ok → ws = fileChunks reads ∧ snd = some spk ∧ ∃ cf : Nat → Bytes, (∀ i, (cf i).length = 8) ∧
        F' = encPrologue ++ msg ++ serialize P.aead (P.hkdfFile pk hh) [] cf 0 (fileChunks reads))) := by
  have hml : msg.length = 128 := by
    rw [Noise.writeMessage_length P hP _ _ _ _ _ _ _ _ _ hE hS hw, hK]
  have h132 : (encPrologue ++ msg).length = 132 := by simp [gen_prologue_len, hml]
  rw [keyEncrypt_eq_serialize P s spk rpk e epk pk msg hh reads hwf hw] at hhdr
  simp only [] at hhdr
  rw [List.take_left' h132] at hhdr
  obtain ⟨hm, hs, hl⟩ := take_append_split F' encPrologue msg (by rw [gen_prologue_len, hml]; exact hhdr)
  rw [gen_prologue_len] at hm hs hl
  rw [hml] at hs hl
  have hrd := Noise.readMessage_writeMessage P hP encPrologue s spk r rpk e epk pk d1 d2 msg hh hE hS (by omega)
    h1 h2 h1' h2' hw
  rw [keyDecrypt_body P r rpk F' hm hl, hs, hrd] at h
  simp only [hK, ne_eq, not_true_eq_false, if_false, Prod.mk.injEq] at h
  obtain ⟨hws, hres, hsnd⟩ := h
  have h32 : ∀ c ∈ fileChunks reads, c.length < 2^32 := fun c hc =>
    Nat.lt_of_le_of_lt (fileChunks_le reads chunkSize hle c hc) gen_chunkSize_lt
  rcases C03_chunks P.aead hP.aead (P.hkdfFile pk hh) [] (hP.hkdfFile_len pk hh) chunkSize (fileChunks reads)
      (fileChunks_ne_nil reads) h32 (F'.drop 132) ws res (by rw [← hws, ← hres]) with hf | ⟨hpre, hok⟩
  · exact Or.inl hf
  · refine Or.inr ⟨hpre, fun hne => ?_, fun hr => ?_⟩
    · rw [← hsnd, hres, if_neg hne]
    · obtain ⟨hwe, cf, hcf, hF⟩ := hok hr
      refine ⟨hwe, by rw [← hsnd, hres, if_pos hr], cf, hcf, ?_⟩
      rw [← hF, ← hhdr, List.take_append_drop]

/-- **C03 (password mode, magic).**  A file whose first four bytes are not the password-mode magic number is
    rejected with nothing written — outright: the magic is compared, not merely authenticated. -/
theorem C03_pass_magic (P : Prims) (pw F' : Bytes) (h : F'.take 4 ≠ encPassMagic) :
    (passDecrypt P pw F').1 = [] ∧ (passDecrypt P pw F').2 ≠ .ok :=
  passDecrypt_bad_magic P pw F' h

/-- **C03 (key mode, magic).** -/
theorem C03_key_magic (P : Prims) (r rpk F' : Bytes) (h : F'.take 4 ≠ encPrologue) :
    (keyDecrypt P r rpk F').1 = [] ∧ (keyDecrypt P r rpk F').2.1 ≠ .ok ∧ (keyDecrypt P r rpk F').2.2 = none :=
  keyDecrypt_bad_magic P r rpk F' h

/-! ### strictness of whole files (no cryptographic hypothesis) -/

/-- **C03 (strict file, password mode).**  For EVERY byte string `F'`: if `pass_decrypt` accepts it then `F'` is the
    password-mode magic, 32 salt bytes, and a strict record sequence under the key derived from the password and
    exactly those salt bytes, with the magic as associated-data prefix.  One accepted byte string per
    (salt, chunk list, flag bytes, counter bytes). -/
theorem C03_strict_file_pass (P : Prims) (hA : P.aead.Lawful) (pw F' : Bytes) (ws : List Bytes)
    (hkdf : (P.kdf pw ((F'.drop 4).take 32)).length = 32)
    (h : passDecrypt P pw F' = (ws, .ok)) :
    ∃ hs : List (Bytes × Bytes × Bytes),
      hs.map (·.2.2) = ws ∧
      F' = encPassMagic ++ (F'.drop 4).take 32 ++
             rawSerialize P.aead (P.kdf pw ((F'.drop 4).take 32)) encPassMagic 0 hs ∧
      ((F'.drop 4).take 32).length = 32 ∧
      (∀ h ∈ hs, h.1.length = 8 ∧ h.2.1.length = 4 ∧ h.2.2.length ≤ chunkSize) ∧
      (∃ init l, hs = init ++ [l] ∧ beVal l.2.1 = 1 ∧ ∀ h ∈ init, beVal h.2.1 ≠ 1) := by
  by_cases hm : F'.take 4 = encPassMagic
  · by_cases hl : 36 ≤ F'.length
    · rw [passDecrypt_body P pw F' hm hl] at h
      obtain ⟨hs, hmap, hser, hall, hfl, _⟩ :=
        C03_strict_chunks P.aead hA _ encPassMagic hkdf chunkSize _ 0 _ ws h
      refine ⟨hs, hmap, ?_, by simp only [List.length_take, List.length_drop]; omega, hall, hfl⟩
      rw [← hser, ← hm, ← List.take_add, List.take_append_drop]
    · have := (passDecrypt_short P pw F' (by omega)).2
      rw [h] at this; exact absurd rfl this
  · have := (passDecrypt_bad_magic P pw F' hm).2
    rw [h] at this; exact absurd rfl this

/-- **C03 (strict file, key mode).**  For EVERY byte string `F'`: if `key_decrypt` accepts it and names `S'`, then
    with `E'` = bytes 4..36 of `F'`, `d1 = dh r E'`, `d2 = dh r S'`:
      `F' = magic ‖ E' ‖ enc k1 0 h1 S' ‖ enc k2 0 h2 pk' ‖ (strict record sequence under hkdfFile pk' h3)`
    where k1, h1, k2, h2, h3 are exactly the values `readMessage` derives from (magic, rpk, E', the two fields).
    One accepted byte string per (E', S', pk', chunk list, flag bytes, counter bytes). -/
theorem C03_strict_file (P : Prims) (hP : P.Lawful) (r rpk F' S' : Bytes) (ws : List Bytes)
    (h : keyDecrypt P r rpk F' = (ws, .ok, some S')) :
    ∃ (d1 d2 pk' : Bytes) (hs : List (Bytes × Bytes × Bytes)),
      P.dh r ((F'.drop 4).take 32) = some d1 ∧ P.dh r S' = some d2 ∧ S'.length = 32 ∧ pk'.length = 32 ∧
      ((F'.drop 4).take 32).length = 32 ∧
      hs.map (·.2.2) = ws ∧
      F' = encPrologue ++ (F'.drop 4).take 32 ++
            P.aead.enc (Noise.k1 P d1) 0 (Noise.h1 P encPrologue rpk ((F'.drop 4).take 32)) S' ++
            P.aead.enc (Noise.k2 P d1 d2) 0
              (Noise.h2 P encPrologue rpk ((F'.drop 4).take 32)
                (P.aead.enc (Noise.k1 P d1) 0 (Noise.h1 P encPrologue rpk ((F'.drop 4).take 32)) S')) pk' ++
            rawSerialize P.aead
              (P.hkdfFile pk' (Noise.h3 P encPrologue rpk ((F'.drop 4).take 32)
                (P.aead.enc (Noise.k1 P d1) 0 (Noise.h1 P encPrologue rpk ((F'.drop 4).take 32)) S')
                (P.aead.enc (Noise.k2 P d1 d2) 0
                  (Noise.h2 P encPrologue rpk ((F'.drop 4).take 32)
                    (P.aead.enc (Noise.k1 P d1) 0 (Noise.h1 P encPrologue rpk ((F'.drop 4).take 32)) S')) pk')))
              [] 0 hs ∧
      (∀ h ∈ hs, h.1.length = 8 ∧ h.2.1.length = 4 ∧ h.2.2.length ≤ chunkSize) ∧
      (∃ init l, hs = init ++ [l] ∧ beVal l.2.1 = 1 ∧ ∀ h ∈ init, beVal h.2.1 ≠ 1) := by
  by_cases hm : F'.take 4 = encPrologue
  · by_cases hl : 132 ≤ F'.length
    · rw [keyDecrypt_body P r rpk F' hm hl] at h
      split at h
      · simp at h
      · rename_i pk spk hh hrd
        split at h
        · simp at h
        · rename_i hpk
          have hpk' : pk.length = 32 := by simpa using hpk
          simp only [Prod.mk.injEq] at h
          obtain ⟨hws, hres, hsnd⟩ := h
          rw [hres, if_pos rfl] at hsnd
          have hspk : spk = S' := Option.some.inj hsnd
          subst hspk
          obtain ⟨d1, d2, _, _, hSl, hdh1, hdec1, hdh2, hdec2, hh3⟩ :=
            Noise.readMessage_ok_named P encPrologue r rpk _ pk spk hh hrd
          have hE : ((F'.drop 4).take 128).take 32 = (F'.drop 4).take 32 := by rw [List.take_take]; rfl
          rw [hE] at hdh1 hdec1 hdec2 hh3
          have hk1 : (Noise.k1 P d1).length = 32 := (hP.hkdf2_len _ _).2
          have hk2 : (Noise.k2 P d1 d2).length = 32 := (hP.hkdf2_len _ _).2
          have hc1 := hP.aead.dec_sound _ _ _ _ _ hk1 hdec1
          rw [hc1] at hdec2 hh3
          have hc2 := hP.aead.dec_sound _ _ _ _ _ hk2 hdec2
          rw [hc2] at hh3
          have hmsg := Noise.msg_split' ((F'.drop 4).take 128)
          rw [hE, hc1, hc2] at hmsg
          obtain ⟨hs, hmap, hser, hall, hfl, _⟩ :=
            C03_strict_chunks P.aead hP.aead _ [] (hP.hkdfFile_len pk hh) chunkSize _ 0 _ ws
              (by rw [← hws, ← hres]; rfl)
          rw [hh3] at hser
          refine ⟨d1, d2, pk, hs, hdh1, hdh2, hSl, hpk', by simp only [List.length_take, List.length_drop]; omega,
            hmap, ?_, hall, hfl⟩
          rw [← hser]
          have e1 : F' = F'.take 4 ++ (F'.drop 4).take 128 ++ F'.drop 132 := by
            rw [← List.take_add, List.take_append_drop]
          rw [hm, hmsg] at e1
          simpa only [List.append_assoc] using e1
    · have := (keyDecrypt_short P r rpk F' (by omega)).2
      rw [h] at this; exact absurd rfl this
  · have := (keyDecrypt_bad_magic P r rpk F' hm).2.1
    rw [h] at this; exact absurd rfl this

/-! ### truncation and extension of the authentic stream, outright

  For the *authentic* stream itself these two manipulations are rejected without any bad-event disjunct: every record
  the decryptor gets to open is an honest one, and the failure is a framing failure. -/

/-- **C03 (truncation, outright).**  Every proper prefix of the authentic stream is rejected (read error), and
    whatever was released before the error is a prefix of the authentic chunks *excluding the last one*. -/
theorem C03_truncation_outright (A : Aead) (hA : A.Lawful) (key aad : Bytes) (hk : key.length = 32) (cs : Nat)
    (hcs : cs < 2^32) (cl : List Bytes) (hne : cl ≠ []) (hle : ∀ c ∈ cl, c.length ≤ cs)
    (F' : Bytes) (hpre : F' <+: serialize A key aad be64 0 cl) (hprop : F' ≠ serialize A key aad be64 0 cl) :
    (decryptChunks A key aad cs F').2 = .ioRead ∧ (decryptChunks A key aad cs F').1 <+: cl.dropLast :=
  decLoop_serialize_prefix A hA key aad hk cs hcs be64 be64_length cl 0 F'.length F' hne hle hpre hprop

/-- **C03 (extension, outright).**  The authentic stream followed by any non-empty `t` is rejected
    (`unexpectedData`); the last chunk is *not* released. -/
theorem C03_extension_outright (A : Aead) (hA : A.Lawful) (key aad : Bytes) (hk : key.length = 32) (cs : Nat)
    (hcs : cs < 2^32) (cl : List Bytes) (hne : cl ≠ []) (hle : ∀ c ∈ cl, c.length ≤ cs)
    (t : Bytes) (ht : t ≠ []) :
    decryptChunks A key aad cs (serialize A key aad be64 0 cl ++ t) = (cl.dropLast, .unexpectedData) :=
  decLoop_serialize_append A hA key aad hk cs hcs be64 be64_length t ht cl 0 _ hne hle
    (by rw [List.length_append]; omega)

/-! ### non-vacuity -/

/-! #### an AEAD for which `NoForgeryFrom` provably holds (and `SoundAt`, but necessarily not `Lawful.dec_enc`) -/

def tblCl : List Bytes := [[1,2],[3],[4,5,6]]
def tblAad : Bytes := [9]
def tblMark : Bytes := List.replicate 16 0xAA

/-- table-backed AEAD: `dec` opens only the three honest records of `tblCl` (under any key) -/
def tableAead : Aead where
  enc _ _ _ p := p ++ tblMark
  dec _ n ad c :=
    if 16 ≤ c.length ∧ c.drop (c.length - 16) = tblMark ∧ (n, ad, c.take (c.length - 16)) ∈ honest tblAad 0 tblCl
    then some (c.take (c.length - 16)) else none

theorem tableAead_soundAt (key : Bytes) : tableAead.SoundAt key where
  enc_length := by intro n ad p; simp [tableAead, tblMark]
  dec_sound := by
    intro n ad c p h
    simp only [tableAead] at h ⊢
    split at h
    · rename_i hc
      simp only [Option.some.injEq] at h
      rw [← h, ← hc.2.1, List.take_append_drop]
    · simp at h

theorem tableAead_noForgery (key : Bytes) : NoForgeryFrom tableAead key tblAad 0 tblCl := by
  intro n ad c p h _
  simp only [tableAead] at h
  split at h
  · rename_i hc
    simp only [Option.some.injEq] at h
    rw [← h]; exact hc.2.2
  · simp at h

/-- the authentic stream for `tblCl` -/
def tblF : Bytes := serialize tableAead (zeros 32) tblAad be64 0 tblCl

/-- every hypothesis of `C03_chunks_nf` / `C04_release_nf` is met by `tableAead` and a three-chunk list -/
example (F' : Bytes) (ws : List Bytes) (res : Res) (h : decryptChunks tableAead (zeros 32) tblAad 8 F' = (ws, res)) :
    ws <+: tblCl ∧ (res = .ok → ws = tblCl ∧ ∃ cf : Nat → Bytes, (∀ i, (cf i).length = 8) ∧
      F' = serialize tableAead (zeros 32) tblAad cf 0 tblCl) :=
  C03_chunks_nf tableAead (zeros 32) tblAad (tableAead_soundAt _) 8 tblCl (by decide) (by decide)
    (tableAead_noForgery _) F' ws res h

/-- both outcomes occur: the authentic stream is accepted … -/
example : decryptChunks tableAead (zeros 32) tblAad 8 tblF = (tblCl, .ok) := by decide
/-- … with any counter bytes … -/
example : decryptChunks tableAead (zeros 32) tblAad 8 (serialize tableAead (zeros 32) tblAad (fun _ => zeros 8) 0 tblCl)
    = (tblCl, .ok) := by decide
/-- … a stream with one body byte of record 1 altered is rejected after releasing only chunk 0 … -/
example : decryptChunks tableAead (zeros 32) tblAad 8 (tblF.set 50 0) = ([[1,2]], .auth) := by decide
/-- … an altered flag field of record 0 is rejected with nothing released … -/
example : decryptChunks tableAead (zeros 32) tblAad 8 (tblF.set 11 1) = ([], .auth) := by decide
/-- … dropping record 1 (reordering the nonces) is rejected … -/
example : decryptChunks tableAead (zeros 32) tblAad 8 (tblF.take 34 ++ tblF.drop 67) = ([[1,2]], .auth) := by decide
/-- … a truncated stream is rejected, an extended stream is rejected. -/
example : decryptChunks tableAead (zeros 32) tblAad 8 (tblF.take 70) = ([[1,2],[3]], .ioRead) := by decide
example : decryptChunks tableAead (zeros 32) tblAad 8 (tblF ++ [0]) = ([[1,2],[3]], .unexpectedData) := by decide

/-! #### a `Lawful` AEAD: hypotheses of the per-input reductions and of the strictness theorems -/

/-- the authentic stream for `tblCl` under the (lawful, keyless) toy AEAD of C01 -/
def toyF : Bytes := serialize toyPrims.aead (zeros 32) tblAad be64 0 tblCl

/-- hypotheses of `C03_chunks` (and of `C03_length`, `C03_truncation`, `C03_extension`, `C04_release`) are satisfiable -/
example (F' : Bytes) (ws : List Bytes) (res : Res) (h : decryptChunks toyPrims.aead (zeros 32) tblAad 8 F' = (ws, res)) :
    ForgeryIn toyPrims.aead (zeros 32) tblAad 0 tblCl F' ∨
    (ws <+: tblCl ∧ (res = .ok → ws = tblCl ∧ ∃ cf : Nat → Bytes, (∀ i, (cf i).length = 8) ∧
      F' = serialize toyPrims.aead (zeros 32) tblAad cf 0 tblCl)) :=
  C03_chunks toyPrims.aead toyPrims_lawful.aead (zeros 32) tblAad (by decide) 8 tblCl (by decide) (by decide) F' ws res h

/-- the second disjunct occurs: the authentic stream is accepted, a tampered one rejected … -/
example : decryptChunks toyPrims.aead (zeros 32) tblAad 8 toyF = (tblCl, .ok) := by decide
example : decryptChunks toyPrims.aead (zeros 32) tblAad 8 (toyF.set 20 1) = ([], .auth) := by decide
/-- … and the first disjunct cannot be dropped: the toy AEAD is forgeable, and a forged stream *is* accepted with
    a different plaintext.  (This is why the theorem is a reduction.) -/
example : decryptChunks toyPrims.aead (zeros 32) tblAad 8 (serialize toyPrims.aead (zeros 32) tblAad be64 0 [[7]])
    = ([[7]], .ok) := by decide

/-- hypothesis of `C03_strict_chunks` is satisfiable (an accepted input exists), and its conclusion instantiated -/
example : ∃ hs : List (Bytes × Bytes × Bytes),
    hs.map (·.2.2) = tblCl ∧ toyF = rawSerialize toyPrims.aead (zeros 32) tblAad 0 hs ∧
    (∀ h ∈ hs, h.1.length = 8 ∧ h.2.1.length = 4 ∧ h.2.2.length ≤ 8) ∧
    (∃ init l, hs = init ++ [l] ∧ beVal l.2.1 = 1 ∧ ∀ h ∈ init, beVal h.2.1 ≠ 1) ∧ hs ≠ [] :=
  C03_strict_chunks toyPrims.aead toyPrims_lawful.aead (zeros 32) tblAad (by decide) 8 toyF.length 0 toyF tblCl
    (by decide)

/-- the flag field really is free apart from "= 1 / ≠ 1" when no AD pinning is available: flag bytes `00 00 00 02`
    on a non-final record are accepted by the decryptor (this is what `rawSerialize` allows and `serialize` does not;
    under `NoForgeryFrom`/¬`ForgeryIn` the AD pins them to `be32 0`). -/
example : decLoop toyPrims.aead (zeros 32) tblAad 8 100 0
    (rawSerialize toyPrims.aead (zeros 32) tblAad 0 [(zeros 8, [0,0,0,2], [1,2]), (zeros 8, [0,0,0,1], [3])])
    = ([[1,2],[3]], .ok) := by decide

/-- outright truncation / extension: hypotheses satisfiable -/
example : (decryptChunks toyPrims.aead (zeros 32) tblAad 8 (toyF.take 40)).2 = .ioRead ∧
    (decryptChunks toyPrims.aead (zeros 32) tblAad 8 (toyF.take 40)).1 <+: tblCl.dropLast :=
  C03_truncation_outright toyPrims.aead toyPrims_lawful.aead (zeros 32) tblAad (by decide) 8 (by decide) tblCl
    (by decide) (by decide) (toyF.take 40) (List.take_prefix _ _) (by decide)
example : decryptChunks toyPrims.aead (zeros 32) tblAad 8 (toyF ++ [5]) = (tblCl.dropLast, .unexpectedData) :=
  C03_extension_outright toyPrims.aead toyPrims_lawful.aead (zeros 32) tblAad (by decide) 8 (by decide) tblCl
    (by decide) (by decide) [5] (by decide)

/-! #### whole files -/

def smallReads : List Bytes := [[1,2,3], [4], []]

theorem smallReads_wf : wellFormedReads smallReads := by
  refine ⟨fun h => absurd h (by decide), fun _ => ⟨fun h => absurd h (by decide), fun _ => ⟨fun _ => rfl, fun _ => trivial⟩⟩⟩

theorem smallReads_le : ∀ c ∈ smallReads, c.length ≤ chunkSize := by decide

theorem toy_kdf_length (pw salt : Bytes) : (toyPrims.kdf pw salt).length = 32 := by
  simp [toyPrims, zeros]; omega

/-- hypotheses of `C03_file_pass` / `C04_release_pass` are satisfiable: empty password, F' = F with a byte appended -/
example (ws : List Bytes) (res : Res)
    (h : passDecrypt toyPrims [] ((passEncrypt toyPrims [] (zeros 32) smallReads).1 ++ [0]) = (ws, res)) :
    ForgeryIn toyPrims.aead (toyPrims.kdf [] (zeros 32)) encPassMagic 0 (fileChunks smallReads)
      (((passEncrypt toyPrims [] (zeros 32) smallReads).1 ++ [0]).drop 36) ∨
    (ws <+: fileChunks smallReads ∧
      (res = .ok → ws = fileChunks smallReads ∧ ∃ cf : Nat → Bytes, (∀ i, (cf i).length = 8) ∧
        (passEncrypt toyPrims [] (zeros 32) smallReads).1 ++ [0] =
          encPassMagic ++ zeros 32 ++
            serialize toyPrims.aead (toyPrims.kdf [] (zeros 32)) encPassMagic cf 0 (fileChunks smallReads))) :=
  C03_file_pass toyPrims toyPrims_lawful.aead [] (zeros 32) smallReads (by decide) (toy_kdf_length _ _)
    smallReads_wf smallReads_le _ (by decide) ws res h

/-- hypotheses of `C03_file_key` / `C04_release_key` are satisfiable (keys of the C01 example), F' = F -/
example (ws : List Bytes) (res : Res) (snd : Option Bytes)
    (h : keyDecrypt toyPrims (List.replicate 32 1) (List.replicate 32 1)
      (keyEncrypt toyPrims (zeros 32) (zeros 32) (List.replicate 32 1) (List.replicate 32 2) (List.replicate 32 2)
        (List.replicate 32 7) smallReads).1 = (ws, res, snd)) :
    ∃ msg hh, Noise.writeMessage toyPrims encPrologue (zeros 32) (zeros 32) (List.replicate 32 1) (List.replicate 32 2)
        (List.replicate 32 2) (List.replicate 32 7) = .ok (msg, hh) ∧
    (ForgeryIn toyPrims.aead (toyPrims.hkdfFile (List.replicate 32 7) hh) [] 0 (fileChunks smallReads)
      ((keyEncrypt toyPrims (zeros 32) (zeros 32) (List.replicate 32 1) (List.replicate 32 2) (List.replicate 32 2)
        (List.replicate 32 7) smallReads).1.drop 132) ∨
    (ws <+: fileChunks smallReads ∧ (res ≠ .ok → snd = none) ∧
      (res = .ok → ws = fileChunks smallReads ∧ snd = some (zeros 32) ∧ ∃ cf : Nat → Bytes, (∀ i, (cf i).length = 8) ∧
        (keyEncrypt toyPrims (zeros 32) (zeros 32) (List.replicate 32 1) (List.replicate 32 2) (List.replicate 32 2)
          (List.replicate 32 7) smallReads).1 =
          encPrologue ++ msg ++ serialize toyPrims.aead (toyPrims.hkdfFile (List.replicate 32 7) hh) [] cf 0
            (fileChunks smallReads)))) := by
  obtain ⟨d1, h1, h1'⟩ := (toy_dhAgree (zeros 32) (List.replicate 32 1) (List.replicate 32 2)).es
  obtain ⟨d2, h2, h2'⟩ := (toy_dhAgree (zeros 32) (List.replicate 32 1) (List.replicate 32 2)).ss
  have hw := Noise.writeMessage_ok_named toyPrims encPrologue (zeros 32) (zeros 32) (List.replicate 32 1)
    (List.replicate 32 2) (List.replicate 32 2) (List.replicate 32 7) d1 d2 h1 h2
  exact ⟨_, _, hw, C03_file_key toyPrims toyPrims_lawful _ _ _ _ _ _ _ d1 d2 _ _ smallReads
    (List.length_replicate ..) (List.length_replicate ..) (List.length_replicate ..) h1 h2 h1' h2'
    smallReads_wf smallReads_le hw _ rfl ws res snd h⟩

/-- hypotheses of `C03_strict_file_pass` and `C03_strict_file` are satisfiable: accepted files exist -/
example : ∃ F ws, passDecrypt toyPrims [] F = (ws, .ok) ∧ (toyPrims.kdf [] ((F.drop 4).take 32)).length = 32 := by
  obtain ⟨ct, _, h, _⟩ := passDecrypt_passEncrypt toyPrims toyPrims_lawful.aead [] (zeros 32) smallReads (by decide)
    (toy_kdf_length _ _) smallReads_wf smallReads_le
  exact ⟨ct, _, h, toy_kdf_length _ _⟩

example : ∃ F ws S', keyDecrypt toyPrims (List.replicate 32 1) (List.replicate 32 1) F = (ws, .ok, some S') := by
  obtain ⟨d1, h1, h1'⟩ := (toy_dhAgree (zeros 32) (List.replicate 32 1) (List.replicate 32 2)).es
  obtain ⟨d2, h2, h2'⟩ := (toy_dhAgree (zeros 32) (List.replicate 32 1) (List.replicate 32 2)).ss
  obtain ⟨ct, _, h, _⟩ := keyDecrypt_keyEncrypt toyPrims toyPrims_lawful (zeros 32) (zeros 32) (List.replicate 32 1)
    (List.replicate 32 1) (List.replicate 32 2) (List.replicate 32 2) (List.replicate 32 7) d1 d2 smallReads
    (List.length_replicate ..) (List.length_replicate ..) (List.length_replicate ..) h1 h2 h1' h2'
    smallReads_wf smallReads_le
  exact ⟨ct, _, _, h⟩

/-- hypotheses of the magic theorems are satisfiable -/
example : (passDecrypt toyPrims [] [101, 103, 107, 33, 0]).1 = [] ∧ (passDecrypt toyPrims [] [101, 103, 107, 33, 0]).2 ≠ .ok :=
  C03_pass_magic toyPrims [] _ (by decide)
example : (keyDecrypt toyPrims [] [] [101, 103, 107, 17, 0]).1 = [] ∧ (keyDecrypt toyPrims [] [] [101, 103, 107, 17, 0]).2.1 ≠ .ok ∧
    (keyDecrypt toyPrims [] [] [101, 103, 107, 17, 0]).2.2 = none :=
  C03_key_magic toyPrims [] [] _ (by decide)

end Kestrel
