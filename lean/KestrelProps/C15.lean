/-
  C15 — Locked private keys: `unlock(lock(sk, pw, salt), pw) = sk`; the locked form is
  base64(version(4) ‖ salt(32) ‖ AEAD-seal(scrypt(pw, salt), nonce 0, aad = version, sk)(48)) = 84 bytes = 112 characters;
  a wrong version is `skFormat`, a wrong length / non-base64 text is `skLength`, and the unlocker is strict.

  Functional statements about the executable model (`Keyring.lockPrivateKey` / `Keyring.unlockPrivateKey`,
  which the correspondence harness diffs against `src/cli/src/keyring.rs`).  Nothing here assumes anything
  about ChaCha20-Poly1305 or scrypt beyond their definitions.
-/
import KestrelProofs.LockedKey
namespace Kestrel
open Generated

/-- **C15 (round trip).** For every 32-byte key, every password (any length, including empty) and every 32-byte
    salt, unlocking the locked key with the same password returns the key. -/
theorem C15_roundtrip (sk pw salt : Bytes) (hsk : sk.length = 32) (hsalt : salt.length = 32) :
    Keyring.unlockPrivateKey (Keyring.lockPrivateKey sk pw salt) pw = .ok sk :=
  Keyring.unlock_lock sk pw salt hsk hsalt

/-- every hypothesis of `C15_roundtrip` is met by a concrete run (scrypt is not evaluated) -/
example : Keyring.unlockPrivateKey (Keyring.lockPrivateKey (List.replicate 32 7) [112, 119] (List.replicate 32 9))
    [112, 119] = .ok (List.replicate 32 7) :=
  C15_roundtrip (List.replicate 32 7) [112, 119] (List.replicate 32 9) (List.length_replicate ..) (List.length_replicate ..)

/-- **C15 (format).** The locked key is the base64 text of `version ‖ salt ‖ sealed`, where `sealed` is the RFC 8439
    sealing of the key under scrypt(pw, salt) with the all-zero nonce and the version as associated data; that
    blob is 84 bytes (`privateKeyCtLen`) and the text is 112 characters. -/
theorem C15_format (sk pw salt : Bytes) (hsk : sk.length = 32) (hsalt : salt.length = 32) :
    B64.decode (Keyring.utf8 (Keyring.lockPrivateKey sk pw salt)) =
        some (privateKeyVersion ++ salt ++ aeadSeal (Keyring.lockKdf pw salt) (zeros 12) privateKeyVersion sk)
    ∧ (privateKeyVersion ++ salt ++ aeadSeal (Keyring.lockKdf pw salt) (zeros 12) privateKeyVersion sk).length = 84
    ∧ (Keyring.lockPrivateKey sk pw salt).length = 112 := by
  have hl := lockedBlob_length sk pw salt hsk hsalt
  refine ⟨Keyring.decode_lockPrivateKey sk pw salt, hl, ?_⟩
  unfold Keyring.lockPrivateKey
  simp only []
  rw [Keyring.asciiStr_length, B64.encode_length, hl]

example : (Keyring.lockPrivateKey (List.replicate 32 7) [112, 119] (List.replicate 32 9)).length = 112 :=
  (C15_format (List.replicate 32 7) [112, 119] (List.replicate 32 9) (List.length_replicate ..)
    (List.length_replicate ..)).2.2

/-- the locked form is accepted by the keyring parser's `EncodedSk::try_from` check -/
theorem C15_encodedSkOk (sk pw salt : Bytes) (hsk : sk.length = 32) (hsalt : salt.length = 32) :
    Keyring.encodedSkOk (Keyring.lockPrivateKey sk pw salt) = true := by
  obtain ⟨hd, hl, -⟩ := C15_format sk pw salt hsk hsalt
  unfold Keyring.encodedSkOk
  rw [hd]
  simp only [hl]
  decide

/-- **C15 (canonical text).** A byte string has exactly one accepted base64 text: if `s` decodes to `b` then `s` is
    the encoder's output for `b`.  So no second string (other padding, stray characters, non-zero spare bits, a
    non-ASCII look-alike) stands for the same 84-byte blob. -/
theorem C15_canonical (s : Keyring.Str) (b : Bytes) (h : B64.decode (Keyring.utf8 s) = some b) :
    s = Keyring.asciiStr (B64.encode b) :=
  B64.str_canonical s b h

example : B64.decode (Keyring.utf8 (Keyring.asciiStr (B64.encode [1, 2, 3, 4]))) = some [1, 2, 3, 4] :=
  B64.decode_utf8_asciiStr_encode _

/-- **C15 (strictness).** Whatever unlocks is exactly what locking produces: if `s` unlocks to `sk` under `pw`,
    then `sk` is 32 bytes and `s` is, character for character, `lock sk pw salt` for the 32-byte salt stored in `s`.

    This is the functional core of "any change to any of the 84 bytes is detected": a changed text `s' ≠ s` that
    still unlocks (to some `sk'`) would itself have to be a genuine locking `lock sk' pw salt'`, i.e. carry a valid
    Poly1305 tag for its own (version, salt-derived key, ciphertext) — an AEAD forgery under the scrypt-derived
    key, or the result of knowing the password.  The unlocker has no other accepting path (no lenient base64,
    no ignored bytes, version and salt both bound: the version as associated data, the salt through the key). -/
theorem C15_strict (s : Keyring.Str) (pw sk : Bytes) (h : Keyring.unlockPrivateKey s pw = .ok sk) :
    ∃ salt, salt.length = 32 ∧ sk.length = 32 ∧ s = Keyring.lockPrivateKey sk pw salt :=
  Keyring.unlock_strict s pw sk h

example : ∃ salt, salt.length = 32 ∧ (List.replicate 32 (7 : UInt8)).length = 32 ∧
    Keyring.lockPrivateKey (List.replicate 32 7) [112, 119] (List.replicate 32 9) =
      Keyring.lockPrivateKey (List.replicate 32 7) [112, 119] salt :=
  C15_strict _ [112, 119] _
    (C15_roundtrip (List.replicate 32 7) [112, 119] (List.replicate 32 9) (List.length_replicate ..)
      (List.length_replicate ..))

/-- **C15 (version).** An 84-byte blob whose first four bytes are not the private-key version is rejected with
    `skFormat`, before any key derivation or decryption, whatever the password. -/
theorem C15_version (s : Keyring.Str) (pw b : Bytes) (hd : B64.decode (Keyring.utf8 s) = some b)
    (hl : b.length = 84) (hv : b.take 4 ≠ privateKeyVersion) :
    Keyring.unlockPrivateKey s pw = .error .skFormat := by
  unfold Keyring.unlockPrivateKey
  rw [hd]
  simp only []
  rw [if_neg (by rw [hl]; decide), if_pos hv]

/-- an 84-byte blob with a wrong version, as text -/
example : Keyring.unlockPrivateKey (Keyring.asciiStr (B64.encode (List.replicate 84 0))) [112, 119] = .error .skFormat :=
  C15_version _ _ (List.replicate 84 0) (B64.decode_utf8_asciiStr_encode _) (List.length_replicate ..) (by decide)

/-- **C15 (length).** A text that is not base64, or is base64 of anything but 84 bytes, is rejected with `skLength`
    (the model's name for `EncodedSk::try_from` failing), whatever the password. -/
theorem C15_lengths (s : Keyring.Str) (pw : Bytes)
    (h : ∀ b, B64.decode (Keyring.utf8 s) = some b → b.length ≠ 84) :
    Keyring.unlockPrivateKey s pw = .error .skLength := by
  unfold Keyring.unlockPrivateKey
  split
  · rfl
  · rename_i b hd
    exact if_pos (h b hd)

/-- 83 bytes -/
example : Keyring.unlockPrivateKey (Keyring.asciiStr (B64.encode (List.replicate 83 0))) [112, 119] = .error .skLength :=
  C15_lengths _ _ (by
    intro b hb
    rw [B64.decode_utf8_asciiStr_encode] at hb
    cases hb
    rw [List.length_replicate]; decide)

/-- not base64 at all -/
example : Keyring.unlockPrivateKey ['*'] [112, 119] = .error .skLength :=
  C15_lengths _ _ (by
    have hn : B64.decode (Keyring.utf8 ['*']) = none := by decide
    intro b hb; rw [hn] at hb; cases hb)

/-- **C15 (totality).** Unlocking always returns a key or one of the model's error values; there is no third
    outcome (true by typing; stated for the record). -/
theorem C15_total (s : Keyring.Str) (pw : Bytes) :
    (∃ sk, Keyring.unlockPrivateKey s pw = .ok sk) ∨ (∃ e, Keyring.unlockPrivateKey s pw = .error e) := by
  cases h : Keyring.unlockPrivateKey s pw with
  | ok sk => exact Or.inl ⟨sk, rfl⟩
  | error e => exact Or.inr ⟨e, rfl⟩

end Kestrel
