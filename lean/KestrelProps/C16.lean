/-
  C16 — a key keeps its identity through any sequence of password changes.

  `History.changePasses locked steps` models `key change-pass` applied repeatedly: each step offers an old password,
  and, if it unlocks the current string, re-locks the recovered private key under a new password and a fresh salt.
  A history *chains* (`Chained`) when every step offers the password the previous step set.

  * `C16_history`         a chained history of any length succeeds, its final string unlocks under the last password
                          to the ORIGINAL private key; the final string is `lock sk p_last salt_last` exactly.
  * `C16_wrong_old_password_stops`   a step whose old password does not unlock makes the whole command fail (`none`).
  * `C16_extract_pub`     `key extract-pub` on every string of the history prints the line `key generate` printed.
  * `C16_salts_fresh`     the salts stored in the strings of the history are the salts supplied by the steps, in order
                          (each a separate CSPRNG draw by C07).
  * `C16_old_password_reduction`   an earlier password that still unlocks the final string is a KDF collision or a
                          cross-key AEAD opening.  The first alternative is REAL for passwords HMAC identifies
                          (`C16_hmac_equivalent_password_unlocks`, cf. KestrelProps/C02collision.lean).

  Functional statements about the executable model; scrypt / ChaCha20-Poly1305 enter only through their definitions.
-/
import KestrelModel.History
import KestrelProofs.LockedKey
import KestrelProps.C15
import KestrelProps.C02collision
namespace Kestrel
open Generated

/-! ### chained histories -/

/-- every step offers as old password the password currently in force, and brings a 32-byte salt -/
def Chained : Bytes → List (Bytes × Bytes × Bytes) → Prop
  | _, [] => True
  | p, (old, new, salt) :: rest => old = p ∧ salt.length = 32 ∧ Chained new rest

/-- the password in force after the history -/
def lastPw : Bytes → List (Bytes × Bytes × Bytes) → Bytes
  | p, [] => p
  | _, (_, new, _) :: rest => lastPw new rest

/-- the salt of the final string -/
def lastSalt : Bytes → List (Bytes × Bytes × Bytes) → Bytes
  | s, [] => s
  | _, (_, _, salt) :: rest => lastSalt salt rest

/-- (password, salt) in force at every point of the history, the initial one first -/
def pwSalts (p0 s0 : Bytes) (steps : List (Bytes × Bytes × Bytes)) : List (Bytes × Bytes) :=
  (p0, s0) :: steps.map (fun st => (st.2.1, st.2.2))

/-- the locked strings that exist along a history: the initial one and the result of every successful step
    (stops at the first step that fails) -/
def tracePasses : Keyring.Str → List (Bytes × Bytes × Bytes) → List Keyring.Str
  | locked, [] => [locked]
  | locked, (old, new, salt) :: rest =>
    match Keyring.unlockPrivateKey locked old with
    | .error _ => [locked]
    | .ok sk => locked :: tracePasses (Keyring.lockPrivateKey sk new salt) rest

/-- the salt field of a locked string: bytes 4..36 of the decoded blob (`Generated.skSalt`) -/
def saltOf (s : Keyring.Str) : Option Bytes := (B64.decode (Keyring.utf8 s)).map (fun b => (b.drop 4).take 32)

theorem gen_skSalt : skSalt = (4, 36) ∧ skVersion = (0, 4) ∧ skCt = (36, 84) := by decide

theorem lastSalt_length : ∀ (steps : List (Bytes × Bytes × Bytes)) (p s : Bytes), s.length = 32 → Chained p steps →
    (lastSalt s steps).length = 32 := by
  intro steps
  induction steps with
  | nil => intro _ s hs _; exact hs
  | cons st rest ih =>
    intro p s _ hc
    obtain ⟨old, new, salt⟩ := st
    exact ih new salt hc.2.1 hc.2.2

theorem pwSalts_salt_length (p0 s0 : Bytes) (hs0 : s0.length = 32) : ∀ (steps : List (Bytes × Bytes × Bytes)) (p : Bytes),
    Chained p steps → ∀ ps ∈ pwSalts p0 s0 steps, ps.2.length = 32 := by
  intro steps
  induction steps with
  | nil =>
    intro _ _ ps hps
    simp only [pwSalts, List.map_nil, List.mem_singleton] at hps
    subst hps; exact hs0
  | cons st rest ih =>
    intro p hc ps hps
    obtain ⟨old, new, salt⟩ := st
    simp only [pwSalts, List.map_cons, List.mem_cons] at hps
    rcases hps with rfl | rfl | hps
    · exact hs0
    · exact hc.2.1
    · exact ih new hc.2.2 ps (by simp only [pwSalts, List.mem_cons]; exact Or.inr hps)

/-- the core induction: a chained history re-locks the same key under the last password and the last salt -/
theorem changePasses_chained (sk : Bytes) (hsk : sk.length = 32) : ∀ (steps : List (Bytes × Bytes × Bytes)) (p s : Bytes),
    s.length = 32 → Chained p steps →
    History.changePasses (Keyring.lockPrivateKey sk p s) steps =
      some (Keyring.lockPrivateKey sk (lastPw p steps) (lastSalt s steps)) := by
  intro steps
  induction steps with
  | nil => intro _ _ _ _; rfl
  | cons st rest ih =>
    intro p s hs hc
    obtain ⟨old, new, salt⟩ := st
    obtain ⟨hold, hsalt, hrest⟩ := hc
    subst hold
    simp only [History.changePasses, Keyring.unlock_lock sk old s hsk hs]
    exact ih new salt hsalt hrest

theorem tracePasses_chained (sk : Bytes) (hsk : sk.length = 32) : ∀ (steps : List (Bytes × Bytes × Bytes)) (p s : Bytes),
    s.length = 32 → Chained p steps →
    tracePasses (Keyring.lockPrivateKey sk p s) steps =
      (pwSalts p s steps).map (fun ps => Keyring.lockPrivateKey sk ps.1 ps.2) := by
  intro steps
  induction steps with
  | nil => intro _ _ _ _; rfl
  | cons st rest ih =>
    intro p s hs hc
    obtain ⟨old, new, salt⟩ := st
    obtain ⟨hold, hsalt, hrest⟩ := hc
    subst hold
    simp only [tracePasses, Keyring.unlock_lock sk old s hsk hs]
    rw [ih new salt hsalt hrest]
    rfl

/-- the last string of the trace is the result of `changePasses` -/
theorem tracePasses_last : ∀ (steps : List (Bytes × Bytes × Bytes)) (locked final : Keyring.Str),
    History.changePasses locked steps = some final → (tracePasses locked steps).getLast? = some final := by
  intro steps
  induction steps with
  | nil => intro locked final h; simp only [History.changePasses, Option.some.injEq] at h; subst h; rfl
  | cons st rest ih =>
    intro locked final h
    obtain ⟨old, new, salt⟩ := st
    simp only [History.changePasses] at h
    simp only [tracePasses]
    cases hu : Keyring.unlockPrivateKey locked old with
    | error e => rw [hu] at h; cases h
    | ok sk =>
      rw [hu] at h
      simp only [] at h ⊢
      have := ih _ final h
      rw [List.getLast?_cons, this]; rfl

theorem changePasses_append : ∀ (a b : List (Bytes × Bytes × Bytes)) (locked : Keyring.Str),
    History.changePasses locked (a ++ b) = (History.changePasses locked a).bind (fun m => History.changePasses m b) := by
  intro a
  induction a with
  | nil => intro b locked; rfl
  | cons st rest ih =>
    intro b locked
    obtain ⟨old, new, salt⟩ := st
    simp only [List.cons_append, History.changePasses]
    cases Keyring.unlockPrivateKey locked old with
    | error e => rfl
    | ok sk => exact ih b _

theorem saltOf_lock (sk pw salt : Bytes) (hs : salt.length = 32) :
    saltOf (Keyring.lockPrivateKey sk pw salt) = some salt := by
  unfold saltOf
  rw [Keyring.decode_lockPrivateKey, Option.map_some, blob_salt _ _ _ privateKeyVersion_length hs]

theorem saltOf_locks (sk : Bytes) : ∀ (l : List (Bytes × Bytes)), (∀ ps ∈ l, ps.2.length = 32) →
    (l.map (fun ps => Keyring.lockPrivateKey sk ps.1 ps.2)).map saltOf = l.map (fun ps => some ps.2) := by
  intro l
  induction l with
  | nil => intro _; rfl
  | cons x xs ih =>
    intro h
    rw [List.map_cons, List.map_cons, List.map_cons, saltOf_lock sk x.1 x.2 (h x List.mem_cons_self),
      ih (fun ps hps => h ps (List.mem_cons_of_mem _ hps))]

/-! ### C16: identity is preserved -/

/-- **C16 (history).** For every 32-byte private key, every initial password and 32-byte salt, and every chained list
    of password changes (any length, any passwords — empty, repeated, equal to earlier ones — each with a 32-byte
    salt): the sequence of `change-pass` commands succeeds, and the final locked string unlocks under the last
    password to exactly the original private key.  Moreover the final string is literally the locking of the original
    key under the last password and the last salt: nothing of the earlier passwords or salts survives in it. -/
theorem C16_history (sk p0 s0 : Bytes) (steps : List (Bytes × Bytes × Bytes))
    (hsk : sk.length = 32) (hs0 : s0.length = 32) (hc : Chained p0 steps) :
    ∃ final, History.changePasses (Keyring.lockPrivateKey sk p0 s0) steps = some final ∧
      Keyring.unlockPrivateKey final (lastPw p0 steps) = .ok sk ∧
      final = Keyring.lockPrivateKey sk (lastPw p0 steps) (lastSalt s0 steps) :=
  ⟨_, changePasses_chained sk hsk steps p0 s0 hs0 hc,
    C15_roundtrip sk _ _ hsk (lastSalt_length steps p0 s0 hs0 hc), rfl⟩

/-- non-vacuity: two changes, `pw → qw → pw` (back to the first password), scrypt is not evaluated -/
def exSteps : List (Bytes × Bytes × Bytes) :=
  [([112, 119], [113, 119], List.replicate 32 1), ([113, 119], [112, 119], List.replicate 32 2)]

theorem exSteps_chained : Chained [112, 119] exSteps :=
  ⟨rfl, List.length_replicate .., rfl, List.length_replicate .., trivial⟩

example : ∃ final,
    History.changePasses (Keyring.lockPrivateKey (List.replicate 32 7) [112, 119] (List.replicate 32 9)) exSteps = some final ∧
    Keyring.unlockPrivateKey final [112, 119] = .ok (List.replicate 32 7) ∧
    final = Keyring.lockPrivateKey (List.replicate 32 7) [112, 119] (List.replicate 32 2) :=
  C16_history (List.replicate 32 7) [112, 119] (List.replicate 32 9) exSteps
    (List.length_replicate ..) (List.length_replicate ..) exSteps_chained

/-- **C16 (a wrong old password stops the command).** If, after any prefix `pre` of successful changes, the offered old
    password does not unlock the current string, the whole sequence yields `none`: the command fails, no new string
    is produced, and no later step runs. -/
theorem C16_wrong_old_password_stops (locked mid : Keyring.Str) (pre rest : List (Bytes × Bytes × Bytes))
    (old new salt : Bytes) (e : Keyring.KrErr)
    (hpre : History.changePasses locked pre = some mid)
    (hbad : Keyring.unlockPrivateKey mid old = .error e) :
    History.changePasses locked (pre ++ (old, new, salt) :: rest) = none := by
  rw [changePasses_append, hpre, Option.bind_some]
  simp only [History.changePasses, hbad]

/-- in a chained history: the first step that offers a password which does not unlock `lock sk p_k s_k` ends it -/
theorem C16_wrong_old_password_stops_chained (sk p0 s0 : Bytes) (pre rest : List (Bytes × Bytes × Bytes))
    (old new salt : Bytes) (e : Keyring.KrErr) (hsk : sk.length = 32) (hs0 : s0.length = 32) (hc : Chained p0 pre)
    (hbad : Keyring.unlockPrivateKey (Keyring.lockPrivateKey sk (lastPw p0 pre) (lastSalt s0 pre)) old = .error e) :
    History.changePasses (Keyring.lockPrivateKey sk p0 s0) (pre ++ (old, new, salt) :: rest) = none :=
  C16_wrong_old_password_stops _ _ pre rest old new salt e (changePasses_chained sk hsk pre p0 s0 hs0 hc) hbad

/-- the hypotheses are satisfiable (a string that no password unlocks; for a wrong password against a genuine locked
    key the failure is the AEAD tag check under a different scrypt output, which needs scrypt evaluated — done by the
    harness, not here) -/
example : History.changePasses ['*'] ([] ++ ([112, 119], [113, 119], List.replicate 32 1) :: exSteps) = none :=
  C16_wrong_old_password_stops ['*'] ['*'] [] exSteps [112, 119] [113, 119] (List.replicate 32 1) .skLength rfl
    (C15_lengths _ _ (by
      have hn : B64.decode (Keyring.utf8 ['*']) = none := by decide
      intro b hb; rw [hn] at hb; cases hb))

/-! ### C16: the public key line -/

/-- `key extract-pub` on a locked key with its password prints `encodePk (pub sk)` — the line `key generate` wrote -/
theorem extractPub_lock (P : Prims) (sk pw salt : Bytes) (hsk : sk.length = 32) (hs : salt.length = 32) :
    History.extractPub P (Keyring.lockPrivateKey sk pw salt) pw = (P.pub sk).map Keyring.encodePk := by
  simp only [History.extractPub, Keyring.unlock_lock sk pw salt hsk hs]

/-- **C16 (public key).** For the initial string, for the final string, and for every string that existed along a
    chained history, `key extract-pub` with the password then in force yields the same line:
    `encodePk (pub sk)`, what `key generate` printed for this key. -/
theorem C16_extract_pub (P : Prims) (sk p0 s0 : Bytes) (steps : List (Bytes × Bytes × Bytes))
    (hsk : sk.length = 32) (hs0 : s0.length = 32) (hc : Chained p0 steps) :
    History.extractPub P (Keyring.lockPrivateKey sk p0 s0) p0 = (P.pub sk).map Keyring.encodePk ∧
    (∃ final, History.changePasses (Keyring.lockPrivateKey sk p0 s0) steps = some final ∧
      History.extractPub P final (lastPw p0 steps) = (P.pub sk).map Keyring.encodePk) ∧
    (tracePasses (Keyring.lockPrivateKey sk p0 s0) steps =
        (pwSalts p0 s0 steps).map (fun ps => Keyring.lockPrivateKey sk ps.1 ps.2) ∧
      ∀ ps ∈ pwSalts p0 s0 steps,
        History.extractPub P (Keyring.lockPrivateKey sk ps.1 ps.2) ps.1 = (P.pub sk).map Keyring.encodePk) := by
  refine ⟨extractPub_lock P sk p0 s0 hsk hs0, ?_, tracePasses_chained sk hsk steps p0 s0 hs0 hc, ?_⟩
  · obtain ⟨final, h1, _, h3⟩ := C16_history sk p0 s0 steps hsk hs0 hc
    refine ⟨final, h1, ?_⟩
    rw [h3]
    exact extractPub_lock P sk _ _ hsk (lastSalt_length steps p0 s0 hs0 hc)
  · intro ps hps
    exact extractPub_lock P sk ps.1 ps.2 hsk (pwSalts_salt_length p0 s0 hs0 steps p0 hc ps hps)

/-- on the concrete primitives (X25519 is not evaluated), for the example history -/
example : ∃ final,
    History.changePasses (Keyring.lockPrivateKey (List.replicate 32 7) [112, 119] (List.replicate 32 9)) exSteps = some final ∧
    History.extractPub concretePrims final [112, 119] =
      (concretePrims.pub (List.replicate 32 7)).map Keyring.encodePk :=
  (C16_extract_pub concretePrims (List.replicate 32 7) [112, 119] (List.replicate 32 9) exSteps
    (List.length_replicate ..) (List.length_replicate ..) exSteps_chained).2.1

/-! ### C16: salts -/

/-- **C16 (salts).** The strings that exist along a chained history are `lock sk p_k s_k`, and the salt stored in the
    `k`-th of them (bytes 4..36 of the decoded blob) is the salt supplied by step `k` — the initial salt first, then
    the steps' salts in order.  The last string of that list is the result of `changePasses`.  Each supplied salt is
    its own CSPRNG draw (`C07_history_exact`: `changePass` has the single role `lockSalt`; `keyGenerate` draws
    `privateKey, lockSalt`), so by `C07_history_reduction` two strings of a history share a salt only if the CSPRNG
    repeated an output. -/
theorem C16_salts_fresh (sk p0 s0 : Bytes) (steps : List (Bytes × Bytes × Bytes))
    (hsk : sk.length = 32) (hs0 : s0.length = 32) (hc : Chained p0 steps) :
    (tracePasses (Keyring.lockPrivateKey sk p0 s0) steps).map saltOf = (s0 :: steps.map (·.2.2)).map some ∧
    (tracePasses (Keyring.lockPrivateKey sk p0 s0) steps).length = steps.length + 1 ∧
    ∃ final, History.changePasses (Keyring.lockPrivateKey sk p0 s0) steps = some final ∧
      (tracePasses (Keyring.lockPrivateKey sk p0 s0) steps).getLast? = some final ∧
      saltOf final = some (lastSalt s0 steps) := by
  have ht := tracePasses_chained sk hsk steps p0 s0 hs0 hc
  refine ⟨?_, ?_, ?_⟩
  · rw [ht, saltOf_locks sk _ (pwSalts_salt_length p0 s0 hs0 steps p0 hc)]
    simp only [pwSalts, List.map_cons, List.map_map]; rfl
  · rw [ht, List.length_map]; simp only [pwSalts, List.length_cons, List.length_map]
  · obtain ⟨final, h1, _, h3⟩ := C16_history sk p0 s0 steps hsk hs0 hc
    refine ⟨final, h1, tracePasses_last steps _ final h1, ?_⟩
    rw [h3]
    exact saltOf_lock sk _ _ (lastSalt_length steps p0 s0 hs0 hc)

example : (tracePasses (Keyring.lockPrivateKey (List.replicate 32 7) [112, 119] (List.replicate 32 9)) exSteps).map saltOf =
    [some (List.replicate 32 9), some (List.replicate 32 1), some (List.replicate 32 2)] :=
  (C16_salts_fresh (List.replicate 32 7) [112, 119] (List.replicate 32 9) exSteps
    (List.length_replicate ..) (List.length_replicate ..) exSteps_chained).1

/-! ### C16: old passwords (reduction) -/

/-- **C16 (old passwords, reduction).** If some password `p` unlocks `lock sk p_last salt` (to whatever `sk'`), then
    either `p` derives the same scrypt key as `p_last` under that salt — a KDF collision, in which case `sk' = sk` —
    or the sealed key, sealed under `k1 = scrypt(p_last, salt)`, opened under a different key `k2 = scrypt(p, salt)`
    with the same nonce and associated data: an AEAD (Poly1305 tag) cross-key opening.  There is no third way an old
    password can keep working: the previous strings' salts and keys are not present in the final string (C16_history). -/
theorem C16_old_password_reduction (sk p pl salt sk' : Bytes) (hsk : sk.length = 32) (hs : salt.length = 32)
    (h : Keyring.unlockPrivateKey (Keyring.lockPrivateKey sk pl salt) p = .ok sk') :
    (Keyring.lockKdf p salt = Keyring.lockKdf pl salt ∧ sk' = sk) ∨
    (∃ k1 k2, k1 ≠ k2 ∧ k1 = Keyring.lockKdf pl salt ∧ k2 = Keyring.lockKdf p salt ∧
      aeadOpen k2 (zeros 12) privateKeyVersion (aeadSeal k1 (zeros 12) privateKeyVersion sk) = some sk') := by
  have hv := privateKeyVersion_length
  rw [Keyring.unlockPrivateKey_of_decode _ p _ (Keyring.decode_lockPrivateKey sk pl salt)
    (lockedBlob_length sk pl salt hsk hs) (blob_take4 _ _ _ hv)] at h
  rw [blob_take4 _ _ _ hv, blob_salt _ _ _ hv hs, blob_ct _ _ _ hv hs] at h
  cases ho : aeadOpen (Keyring.lockKdf p salt) (zeros 12) privateKeyVersion
      (aeadSeal (Keyring.lockKdf pl salt) (zeros 12) privateKeyVersion sk) with
  | none => rw [ho] at h; cases h
  | some x =>
    rw [ho] at h
    simp only [Except.ok.injEq] at h
    subst h
    by_cases hk : Keyring.lockKdf p salt = Keyring.lockKdf pl salt
    · left
      rw [hk, aeadOpen_aeadSeal _ _ _ _ (Keyring.lockKdf_length pl salt) (zeros_length 12)] at ho
      exact ⟨hk, (Option.some.inj ho).symm⟩
    · exact Or.inr ⟨_, _, fun e => hk e.symm, rfl, rfl, ho⟩

/-- the same at the end of a chained history: an earlier (or any other) password that unlocks the final string -/
theorem C16_old_password_reduction_history (sk p0 s0 p sk' : Bytes) (steps : List (Bytes × Bytes × Bytes))
    (hsk : sk.length = 32) (hs0 : s0.length = 32) (hc : Chained p0 steps) (final : Keyring.Str)
    (hfin : History.changePasses (Keyring.lockPrivateKey sk p0 s0) steps = some final)
    (h : Keyring.unlockPrivateKey final p = .ok sk') :
    (Keyring.lockKdf p (lastSalt s0 steps) = Keyring.lockKdf (lastPw p0 steps) (lastSalt s0 steps) ∧ sk' = sk) ∨
    (∃ k1 k2, k1 ≠ k2 ∧ k1 = Keyring.lockKdf (lastPw p0 steps) (lastSalt s0 steps) ∧
      k2 = Keyring.lockKdf p (lastSalt s0 steps) ∧
      aeadOpen k2 (zeros 12) privateKeyVersion (aeadSeal k1 (zeros 12) privateKeyVersion sk) = some sk') := by
  rw [changePasses_chained sk hsk steps p0 s0 hs0 hc] at hfin
  cases hfin
  exact C16_old_password_reduction sk p _ _ sk' hsk (lastSalt_length steps p0 s0 hs0 hc) h

/-- **The first alternative is real.** A password and the same password followed by a NUL byte are different byte
    strings, yet either unlocks what the other locked (known finding, HMAC key padding): so "every other password is
    rejected" is false, and the reduction above cannot be strengthened by dropping its first disjunct. -/
theorem C16_hmac_equivalent_password_unlocks (sk pw salt : Bytes) (hsk : sk.length = 32) (hs : salt.length = 32)
    (hpw : pw.length < 64) :
    pw ++ [0] ≠ pw ∧ Keyring.unlockPrivateKey (Keyring.lockPrivateKey sk pw salt) (pw ++ [0]) = .ok sk := by
  obtain ⟨hk, hne⟩ := C15_nul_padding_collision pw salt hpw
  refine ⟨hne, ?_⟩
  have hv := privateKeyVersion_length
  rw [Keyring.unlockPrivateKey_of_decode _ (pw ++ [0]) _ (Keyring.decode_lockPrivateKey sk pw salt)
    (lockedBlob_length sk pw salt hsk hs) (blob_take4 _ _ _ hv)]
  rw [blob_take4 _ _ _ hv, blob_salt _ _ _ hv hs, blob_ct _ _ _ hv hs, hk,
    aeadOpen_aeadSeal _ _ _ _ (Keyring.lockKdf_length pw salt) (zeros_length 12)]

/-- the hypothesis of the reduction is satisfiable with `p ≠ p_last`, and it lands in the first disjunct -/
example : ([112, 119] ++ [0] : Bytes) ≠ [112, 119] ∧
    (Keyring.lockKdf ([112, 119] ++ [0]) (List.replicate 32 2) = Keyring.lockKdf [112, 119] (List.replicate 32 2) ∧
      (List.replicate 32 7 : Bytes) = List.replicate 32 7) := by
  obtain ⟨hne, hu⟩ := C16_hmac_equivalent_password_unlocks (List.replicate 32 7) [112, 119] (List.replicate 32 2)
    (List.length_replicate ..) (List.length_replicate ..) (by decide)
  refine ⟨hne, ?_⟩
  rcases C16_old_password_reduction (List.replicate 32 7) ([112, 119] ++ [0]) [112, 119] (List.replicate 32 2) _
    (List.length_replicate ..) (List.length_replicate ..) hu with h | ⟨k1, k2, hne', h1, h2, _⟩
  · exact h
  · exact absurd (h1.trans ((C15_nul_padding_collision [112, 119] (List.replicate 32 2) (by decide)).1.symm.trans h2.symm)) hne'

end Kestrel
