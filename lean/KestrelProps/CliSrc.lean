/-
  CliSrc — the argument handling of `src/cli/src/main.rs`, *as translated mechanically* by tools/rs2lean_cli.py into
  `Kestrel.CliSrc` (KestrelModel/GeneratedCli.lean, regenerated from the Rust source on every run), agrees with the
  hand-written model `Kestrel.Cli` (KestrelModel/Cli.lean: `parseEncrypt`, `parseDecrypt`, `parseKey`, `parsePassword`,
  `parseArgv`) that the properties C12, C13, C14, C16 are about — for EVERY argument vector.

  Nothing here is tied to the Rust text by hand: if main.rs changes, the generated definitions change and these theorems
  are re-checked against what the code says now.  Trusted: the translator, the glue files KestrelModel/RsCli.lean /
  RsStr.lean / RsPrelude.lean (meaning of the library calls and of early exits) and the model of the getopts crate in
  KestrelModel/Cli.lean (`getopts`, `findOpt`, `optStr`, `optPresent`), which both sides share.

  The functions of commands.rs that `try_main` calls are a PARAMETER of the translated `try_main` (`api : commands.Api`),
  so `cli_source_parse_argv` holds for any behaviour of the commands.
  Views: `reqEncrypt` … (KestrelProofs/CliSrc.lean) read a result of a translated parser as a `Cli.Request`: `Ok(opts)` is the
  request with the fields of `opts`, `Err(_)` is `usageError` (the error TEXT is not modelled).
  Hypothesis of `cli_source_parse_argv`: the command line consists of valid Unicode strings (`h`), because the model's argument
  vector is a list of strings; `cli_source_bad_unicode` covers the other case.
-/
import KestrelProofs.CliSrc
import KestrelProofs.Cli
namespace Kestrel
open CliSrc RsCli Cli
open Kestrel.Keyring (Str)

/-! ## the option parsers -/

/-- **parse_encrypt.** For every argument list the translated `parse_encrypt` and the model's `parseEncrypt` yield the
    same request.  (With it: the two `unwrap`s of `parse_encrypt` are unreachable — a parse that succeeded has `-t` and `-f`.) -/
theorem cli_source_parse_encrypt (args : List Str) :
    reqEncrypt (CliSrc.parse_encrypt args) = Cli.parseEncrypt args :=
  parse_encrypt_eq args

example : reqEncrypt (CliSrc.parse_encrypt [str "-t", str "a", str "--from=b", str "x"]) =
    .encrypt (some (str "x")) (str "a") (str "b") none none false := by decide

/-- **parse_decrypt** (including `format_parse_decrypt_error`, whose result is only a message). -/
theorem cli_source_parse_decrypt (args : List Str) :
    reqDecrypt (CliSrc.parse_decrypt args) = Cli.parseDecrypt args :=
  parse_decrypt_eq args

example : reqDecrypt (CliSrc.parse_decrypt [str "-t", str "a", str "-o", str "out", str "--env-pass"]) =
    .decrypt none (str "a") (some (str "out")) none true := by decide

/-- **parse_key.** -/
theorem cli_source_parse_key (args : List Str) :
    reqKey (CliSrc.parse_key args) = Cli.parseKey args :=
  parse_key_eq args

example : reqKey (CliSrc.parse_key [str "change-pass", str "SK", str "--env-pass"]) = .changePass (str "SK") true := by decide

/-- **parse_password** (with `parse_pass_encrypt`, `parse_pass_decrypt`). -/
theorem cli_source_parse_password (args : List Str) :
    reqPassword (CliSrc.parse_password args) = Cli.parsePassword args :=
  parse_password_eq args

example : reqPassword (CliSrc.parse_password [str "dec", str "in", str "-o", str "out"]) =
    .passDecrypt (some (str "in")) (some (str "out")) false := by decide

/-- **parse_pass_encrypt / parse_pass_decrypt** on their own. -/
theorem cli_source_parse_pass_encrypt (args : List Str) :
    reqPassEncrypt (CliSrc.parse_pass_encrypt args) = passReq .passEncrypt args :=
  parse_pass_encrypt_eq args

theorem cli_source_parse_pass_decrypt (args : List Str) :
    reqPassDecrypt (CliSrc.parse_pass_decrypt args) = passReq .passDecrypt args :=
  parse_pass_decrypt_eq args

/-! ## the dispatch -/

/-- **convert_args.** Arguments that are valid Unicode are handed on unchanged. -/
theorem cli_source_convert_args (argv : List Str) :
    CliSrc.convert_args (argv.map OsString.unicode) = .ok argv :=
  convert_args_unicode argv

/-- **try_main (the whole argument handling).** For every command line of valid Unicode strings `argv` (program name
    first) and every behaviour `api` of the functions of commands.rs, the translated `try_main` does exactly what the request
    `Cli.parseArgv argv` stands for (`Dispatch`, KestrelProofs/CliSrc.lean): `help` / `version` — it prints with the translated
    `print_help` / `print_version` and returns `Ok(())`; `usageError` — it leaves the process state alone and returns the error
    of `print_usage_error msg` for some message; every other request — its result is the result of the corresponding function
    of commands.rs, called on the unchanged process state with exactly the fields of the request. -/
theorem cli_source_parse_argv (api : CliSrc.commands.Api) (sys : Sys) (argv : List Str)
    (h : sys.args = argv.map OsString.unicode) :
    Dispatch api sys (CliSrc.try_main api sys) (Cli.parseArgv argv) :=
  try_main_spec api sys argv h

/-- non-vacuity: `kestrel dec -t alice in.bin` hands over to `commands::decrypt` -/
example (api : CliSrc.commands.Api) (sys : Sys)
    (h : sys.args = [str "kestrel", str "dec", str "-t", str "alice", str "in.bin"].map OsString.unicode) :
    CliSrc.try_main api sys = api.decrypt sys ⟨some (str "in.bin"), str "alice", none, none, false⟩ := by
  have := cli_source_parse_argv api sys _ h
  rw [show Cli.parseArgv [str "kestrel", str "dec", str "-t", str "alice", str "in.bin"] =
    .decrypt (some (str "in.bin")) (str "alice") none none false by decide] at this
  exact this

/-- **a usage error changes nothing.** When the model says `usageError`, `try_main` returns an `Err` and the process state is
    exactly the initial one: nothing printed, no command of commands.rs called. -/
theorem cli_source_usage_error_silent (api : CliSrc.commands.Api) (sys : Sys) (argv : List Str)
    (h : sys.args = argv.map OsString.unicode) (hu : Cli.parseArgv argv = .usageError) :
    (CliSrc.try_main api sys).1 = sys ∧ ∃ e, (CliSrc.try_main api sys).2 = .error e := by
  have := cli_source_parse_argv api sys argv h
  rw [hu] at this
  obtain ⟨msg, hm⟩ := this
  rw [hm]
  exact ⟨rfl, _, rfl⟩

example : Cli.parseArgv [str "kestrel", str "frobnicate"] = .usageError := by decide

/-- **arguments that are not valid Unicode** (the case the hypothesis of `cli_source_parse_argv` excludes; the model's
    argument vectors are strings, so it has no counterpart there): `try_main` returns an `Err` without printing anything or
    calling a command. -/
theorem cli_source_bad_unicode (api : CliSrc.commands.Api) (sys : Sys) (h : ∃ a ∈ sys.args, a.to_str = none) :
    CliSrc.try_main api sys =
      (sys, .error (.msg "Arguments must be valid UTF-8".toList "Arguments must be valid UTF-8".toList)) :=
  try_main_bad_unicode api sys h

example (api : CliSrc.commands.Api) (w : World) (pr : Prims) (rnd : Rand) :
    (CliSrc.try_main api { args := [.unicode (str "kestrel"), .other [0xff]], world := w, prims := pr, rnd := rnd }).2 =
      .error (.msg "Arguments must be valid UTF-8".toList "Arguments must be valid UTF-8".toList) := by
  rw [cli_source_bad_unicode _ _ ⟨.other [0xff], by simp, rfl⟩]

/-- **main.** `main` runs `try_main`; when that fails it prints "Error: …" to standard error and the exit code is 1;
    otherwise it leaves the process state as `try_main` left it. -/
theorem cli_source_main (api : CliSrc.commands.Api) (sys : Sys) :
    CliSrc.main api sys =
      match CliSrc.try_main api sys with
      | (s, .ok ()) => s
      | (s, .error e) => process_exit (print_stderr s ("Error: ".toList ++ e.to_string ++ "\n".toList)) 1 :=
  main_eq api sys

/-- a usage error ends with exit code 1, nothing on standard output, files and environment untouched -/
theorem cli_source_main_usage_error (api : CliSrc.commands.Api) (sys : Sys) (argv : List Str)
    (h : sys.args = argv.map OsString.unicode) (hu : Cli.parseArgv argv = .usageError) :
    (CliSrc.main api sys).exit = some 1 ∧ (CliSrc.main api sys).stdout = sys.stdout ∧ (CliSrc.main api sys).world = sys.world := by
  obtain ⟨h1, e, h2⟩ := cli_source_usage_error_silent api sys argv h hu
  rw [cli_source_main]
  rcases ht : CliSrc.try_main api sys with ⟨s, r⟩
  rw [ht] at h1 h2
  cases h1; cases h2
  exact ⟨rfl, rfl, rfl⟩

/-! ## corollaries: properties of the model transferred to the translated code -/

/-- from C12 (`parseArgv_render`): every request, written as a command line in any of the styles of the USAGE text (full
    words or aliases, `-t x` / `--to x` / `--to=x` …), is dispatched by the translated `try_main` as that request. -/
theorem cli_source_render (api : CliSrc.commands.Api) (sys : Sys) (prog : Str) (hprog : valOk prog) (st : Style) (req : Request)
    (hr : Renderable req) (h : sys.args = (prog :: render st req).map OsString.unicode) :
    Dispatch api sys (CliSrc.try_main api sys) req := by
  have := cli_source_parse_argv api sys _ h
  rwa [parseArgv_render prog hprog st req hr] at this

end Kestrel
