/-
  C07 — fresh randomness; no (key, nonce) pair is ever used twice.

  Two layers.
  * WITHIN one file the AEAD key is fixed and the nonce is the record counter: `C07_nonces`, `C07_nonces_keyEncryptIO`,
    `C07_serialize_nonces` (KestrelProps/C10enc.lean) show the counters of the records are `0, 1, …, n-1`; they are
    re-exported below as `C07_file_*`, and `C07_nonce_inj` (= `C19_noise_nonce_inj`) turns distinct counters into
    distinct 12-byte AEAD nonces over the whole 64-bit range.
  * ACROSS operations every key (payload key, ephemeral private key, password salt, private key, lock salt) is a
    draw of the CSPRNG.  `History.history ops` records which draw of the stream every operation uses for which role;
    `C07_history_nodup` / `C07_history_exact` show every operation consumes exactly the draws its role list names,
    consecutively, and no draw index serves two uses.  `C07_history_reduction` is the reduction: two distinct uses
    can carry the same value only if the CSPRNG produced the same output at two distinct positions.

  NOT proved (cannot be, in this model): that the operating system's CSPRNG does not repeat — that is the assumption
  the reduction ends in; the harness checks the draw count per operation against the real code (randomness history).
-/
import KestrelModel.History
import KestrelProofs.Misc
import KestrelProps.C10enc
import KestrelProps.C19
namespace Kestrel
open Generated EncIO History

/-! ### the draw indices of a history -/

/-- number of draws of the operations before position `i` -/
def History.drawsBefore (ops : List Op) (i : Nat) : Nat := ((ops.take i).map (fun op => (roles op).length)).sum

/-- number of draws of the whole history -/
def History.totalDraws (ops : List Op) : Nat := (ops.map (fun op => (roles op).length)).sum

theorem History.usesOf_draws (k : Nat) : ∀ (rs : List Role) (next : Nat),
    (usesOf k next rs).map (·.drawIndex) = List.range' next rs.length := by
  intro rs
  induction rs with
  | nil => intro _; rfl
  | cons r rs ih => intro next; simp only [usesOf, List.map_cons, ih, List.length_cons, List.range'_succ]

theorem History.usesOf_roles (k : Nat) : ∀ (rs : List Role) (next : Nat), (usesOf k next rs).map (·.role) = rs := by
  intro rs
  induction rs with
  | nil => intro _; rfl
  | cons r rs ih => intro next; simp only [usesOf, List.map_cons, ih]

theorem History.usesOf_opIndex (k : Nat) : ∀ (rs : List Role) (next : Nat), ∀ u ∈ usesOf k next rs, u.opIndex = k := by
  intro rs
  induction rs with
  | nil => intro _ u hu; cases hu
  | cons r rs ih =>
    intro next u hu
    rcases List.mem_cons.mp hu with rfl | hu'
    · rfl
    · exact ih _ u hu'

theorem History.uses_draws : ∀ (ops : List Op) (k next : Nat),
    (uses k next ops).map (·.drawIndex) = List.range' next (totalDraws ops) := by
  intro ops
  induction ops with
  | nil => intro _ _; rfl
  | cons op ops ih =>
    intro k next
    simp only [uses, List.map_append, History.usesOf_draws, ih, totalDraws, List.map_cons, List.sum_cons]
    exact List.range'_append_1

theorem History.uses_opIndex_ge : ∀ (ops : List Op) (k next : Nat), ∀ u ∈ uses k next ops, k ≤ u.opIndex := by
  intro ops
  induction ops with
  | nil => intro _ _ u hu; cases hu
  | cons op ops ih =>
    intro k next u hu
    simp only [uses, List.mem_append] at hu
    rcases hu with hu | hu
    · rw [History.usesOf_opIndex k _ _ u hu]; exact Nat.le_refl _
    · have := ih (k+1) _ u hu; omega

/-- the uses of operation `k + i` inside `uses k next ops` -/
theorem History.uses_filter : ∀ (ops : List Op) (k next i : Nat) (op : Op), ops[i]? = some op →
    (uses k next ops).filter (fun u => u.opIndex = k + i) = usesOf (k + i) (next + drawsBefore ops i) (roles op) := by
  intro ops
  induction ops with
  | nil => intro _ _ i op h; simp at h
  | cons op0 ops ih =>
    intro k next i op h
    simp only [uses, List.filter_append]
    cases i with
    | zero =>
      simp only [List.getElem?_cons_zero, Option.some.injEq] at h
      subst h
      have h1 : (usesOf k next (roles op0)).filter (fun u => u.opIndex = k + 0) = usesOf k next (roles op0) := by
        rw [List.filter_eq_self]
        intro u hu
        simp only [History.usesOf_opIndex k _ _ u hu, Nat.add_zero, decide_true]
      have h2 : (uses (k+1) (next + (roles op0).length) ops).filter (fun u => u.opIndex = k + 0) = [] := by
        rw [List.filter_eq_nil_iff]
        intro u hu
        have := History.uses_opIndex_ge ops _ _ u hu
        simp only [decide_eq_true_eq]; omega
      rw [h1, h2, List.append_nil]
      simp [drawsBefore]
    | succ i =>
      simp only [List.getElem?_cons_succ] at h
      have h1 : (usesOf k next (roles op0)).filter (fun u => u.opIndex = k + (i + 1)) = [] := by
        rw [List.filter_eq_nil_iff]
        intro u hu
        simp only [History.usesOf_opIndex k _ _ u hu, decide_eq_true_eq]; omega
      have e : k + (i + 1) = (k + 1) + i := by omega
      rw [h1, List.nil_append, e, ih (k+1) _ i op h]
      congr 1
      simp only [drawsBefore, List.take_succ_cons, List.map_cons, List.sum_cons]
      omega

/-! ### C07: histories -/

/-- **C07 (no draw is used twice).** In every history of operations the draw indices of all uses — over all
    operations and all roles — are pairwise distinct; they are exactly `0, 1, …, totalDraws-1` in order (no draw is
    skipped either). -/
theorem C07_history_nodup (ops : List Op) : ((History.history ops).map (·.drawIndex)).Nodup := by
  unfold History.history
  rw [History.uses_draws]
  exact List.nodup_range'

theorem C07_history_range (ops : List Op) :
    (History.history ops).map (·.drawIndex) = List.range (History.totalDraws ops) := by
  unfold History.history
  rw [History.uses_draws, List.range_eq_range']

/-- **C07 (every operation draws exactly what its roles need).** The uses of operation `i` are, in order, one per
    role of the operation, at consecutive draw indices starting where the previous operations stopped. -/
theorem C07_history_exact (ops : List Op) (i : Nat) (op : Op) (h : ops[i]? = some op) :
    (History.history ops).filter (fun u => u.opIndex = i) =
        History.usesOf i (History.drawsBefore ops i) (History.roles op) ∧
    ((History.history ops).filter (fun u => u.opIndex = i)).map (·.role) = History.roles op ∧
    ((History.history ops).filter (fun u => u.opIndex = i)).map (·.drawIndex) =
        List.range' (History.drawsBefore ops i) (History.roles op).length := by
  have hf := History.uses_filter ops 0 0 i op h
  simp only [Nat.zero_add] at hf
  unfold History.history
  rw [hf]
  exact ⟨rfl, History.usesOf_roles _ _ _, History.usesOf_draws _ _ _⟩

/-- **C07 (operations do not share draws).** Two uses with the same draw index are the same use — same operation,
    same role.  So the draws of operation `i` are disjoint from those of every other operation, and within an
    operation each role has its own draw (the payload key is not the ephemeral key, the private key is not its salt). -/
theorem C07_history_disjoint (ops : List Op) (u v : Use) (hu : u ∈ History.history ops) (hv : v ∈ History.history ops)
    (h : u.drawIndex = v.drawIndex) : u = v :=
  nodup_map_inj (·.drawIndex) _ (C07_history_nodup ops) u hu v hv h

/-- **C07 (reduction).** Let `draw` be the CSPRNG's output stream.  If two distinct uses of a history carry the same
    value — two files with the same ephemeral key or payload key, two password files or locked keys with the same
    salt, two generated private keys alike, a salt equal to a key — then the CSPRNG returned the same value at two
    distinct positions of its stream. -/
theorem C07_history_reduction (draw : Nat → Bytes) (ops : List Op) (u v : Use)
    (hu : u ∈ History.history ops) (hv : v ∈ History.history ops) (hne : u ≠ v)
    (h : draw u.drawIndex = draw v.drawIndex) : ∃ i j, i ≠ j ∧ draw i = draw j :=
  ⟨u.drawIndex, v.drawIndex, fun e => hne (C07_history_disjoint ops u v hu hv e), h⟩

/-- contrapositive: an injective stream (no repeated output) gives pairwise distinct values to all uses -/
theorem C07_history_fresh (draw : Nat → Bytes) (hinj : ∀ i j, draw i = draw j → i = j) (ops : List Op) :
    ((History.history ops).map (fun u => draw u.drawIndex)).Nodup := by
  have : (History.history ops).map (fun u => draw u.drawIndex) = ((History.history ops).map (·.drawIndex)).map draw := by
    rw [List.map_map]; rfl
  rw [this]
  exact nodup_map_of_inj_on draw _ (C07_history_nodup ops) (fun a _ b _ hab => hinj a b hab)

/-! non-vacuity: two encryptions, a key generation, a password change, a password encryption -/

def exHistory : List Op := [.encrypt, .encrypt, .keyGenerate, .changePass, .passEncrypt]

example : History.history exHistory =
    [⟨0, .payloadKey, 0⟩, ⟨0, .ephemeral, 1⟩, ⟨1, .payloadKey, 2⟩, ⟨1, .ephemeral, 3⟩,
     ⟨2, .privateKey, 4⟩, ⟨2, .lockSalt, 5⟩, ⟨3, .lockSalt, 6⟩, ⟨4, .fileSalt, 7⟩] := by decide

example : (History.history exHistory).map (·.drawIndex) = [0, 1, 2, 3, 4, 5, 6, 7] := by decide

/-- `C07_history_exact` at operation 2 (`key generate`): private key at draw 4, its lock salt at draw 5 -/
example : ((History.history exHistory).filter (fun u => u.opIndex = 2)).map (·.role) = [.privateKey, .lockSalt] ∧
    ((History.history exHistory).filter (fun u => u.opIndex = 2)).map (·.drawIndex) = List.range' 4 2 :=
  (C07_history_exact exHistory 2 .keyGenerate rfl).2

/-- the hypotheses of the reduction are satisfiable: the two ephemeral keys are distinct uses; a stream that repeats
    (constant) makes them equal, and the conclusion exhibits the repetition -/
example : ∃ i j, i ≠ j ∧ (fun _ : Nat => zeros 32) i = (fun _ : Nat => zeros 32) j :=
  C07_history_reduction (fun _ => zeros 32) exHistory ⟨0, .ephemeral, 1⟩ ⟨1, .ephemeral, 3⟩
    (by decide) (by decide) (by decide) rfl

/-- and an injective stream exists (a unary encoding of the index) -/
example : ((History.history exHistory).map (fun u => (List.replicate u.drawIndex 1 : Bytes))).Nodup :=
  C07_history_fresh (fun n => List.replicate n 1)
    (fun i j h => by have := congrArg List.length h; simpa using this) exHistory

/-! ### C07: nonces under one key -/

/-- **C07 (nonce layout is injective).** Distinct record counters below 2^64 give distinct 12-byte AEAD nonces
    (`0⁴ ‖ LE64(counter)`); restatement of `C19_noise_nonce_inj`. -/
theorem C07_nonce_inj (a b : Nat) (ha : a < 2^64) (hb : b < 2^64) (hab : a ≠ b) : noiseNonce a ≠ noiseNonce b :=
  fun h => hab (C19_noise_nonce_inj a b ha hb h)

example : noiseNonce 0 ≠ noiseNonce (2^64 - 1) := C07_nonce_inj _ _ (by decide) (by decide) (by decide)

/-- **C07 (within one file; re-export of `C07_nonces`).** The records of a file are one AEAD invocation each, their
    counters are `0 … n-1`, so no counter is used twice under the file key. -/
theorem C07_file_counters (A : Aead) (key aad : Bytes) (reads : List Bytes) :
    (encryptChunks A key aad reads).1 = ((encryptCalls reads).map (recordOf A key aad)).flatten ∧
    (encryptCalls reads).map (·.1) = List.range (encryptCalls reads).length ∧
    ((encryptCalls reads).map (·.1)).Nodup :=
  ⟨(C07_nonces A key aad reads).1, (C07_nonces A key aad reads).2.1, (C07_nonces A key aad reads).2.2.1⟩

/-- **C07 (within one file, on the wire).** As long as the file has at most 2^64 records, the 12-byte nonces handed
    to ChaCha20-Poly1305 for its records are pairwise distinct. (2^64 records of 64 KiB = 2^80 bytes.) -/
theorem C07_file_aead_nonces (reads : List Bytes) (hn : (encryptCalls reads).length ≤ 2^64) :
    ((encryptCalls reads).map (fun c => noiseNonce c.1)).Nodup := by
  have hr := (C07_nonces chapolyNoise [] [] reads).2.1
  have hnd := (C07_nonces chapolyNoise [] [] reads).2.2.1
  have : (encryptCalls reads).map (fun c => noiseNonce c.1) = ((encryptCalls reads).map (·.1)).map noiseNonce := by
    rw [List.map_map]; rfl
  rw [this]
  refine nodup_map_of_inj_on noiseNonce _ hnd ?_
  intro a ha b hb hab
  rw [hr] at ha hb
  have ha' := List.mem_range.mp ha
  have hb' := List.mem_range.mp hb
  exact C19_noise_nonce_inj a b (by omega) (by omega) hab

example : (encryptCalls (Src.reads chunkSize exSrc)).map (fun c => noiseNonce c.1) = [noiseNonce 0, noiseNonce 1, noiseNonce 2] := by
  decide

/-- **C07 (`key_encrypt` over any scripts; re-export of `C07_nonces_keyEncryptIO`).** A successful run wrote exactly
    one record per AEAD invocation under the file key, counters `0 … n-1`. -/
theorem C07_file_counters_keyEncryptIO (P : Prims) (s spk rs e epk pk : Bytes) (src : Src) (k : Snk)
    (hok : (keyEncryptIO P s spk rs e epk pk src k).1 = .ok) :
    ∃ msg hh, Noise.writeMessage P encPrologue s spk rs e epk pk = .ok (msg, hh) ∧
      (keyEncryptIO P s spk rs e epk pk src k).2.2.out =
        k.out ++ (encPrologue ++ msg ++
          ((encryptCalls (Src.reads chunkSize src)).map (recordOf P.aead (P.hkdfFile pk hh) [])).flatten) ∧
      ((encryptCalls (Src.reads chunkSize src)).map (·.1)).Nodup := by
  obtain ⟨msg, hh, h1, h2, h3, _⟩ := C07_nonces_keyEncryptIO P s spk rs e epk pk src k hok
  exact ⟨msg, hh, h1, h2, by rw [h3]; exact List.nodup_range⟩

example : ∃ msg hh, Noise.writeMessage toyPrims encPrologue exS exS exR exE exE exPk = .ok (msg, hh) ∧
    (keyEncryptIO toyPrims exS exS exR exE exE exPk exSrc exSnk).2.2.out =
      exSnk.out ++ (encPrologue ++ msg ++
        ((encryptCalls (Src.reads chunkSize exSrc)).map (recordOf toyPrims.aead (toyPrims.hkdfFile exPk hh) [])).flatten) ∧
    ((encryptCalls (Src.reads chunkSize exSrc)).map (·.1)).Nodup :=
  C07_file_counters_keyEncryptIO toyPrims exS exS exR exE exE exPk exSrc exSnk
    (C10_enc_roundtrip toyPrims toyPrims_lawful exS exS exR exR exE exE exPk exSrc exSnk
      (List.length_replicate ..) (List.length_replicate ..) (List.length_replicate ..) (toy_dhAgree _ _ _)
      exSrc_faultFree exSnk_benign).1

/-- **C07 (any conforming stream; re-export of `C07_serialize_nonces`).** Record `i` of `serialize … ctr cl` is sealed
    under counter `ctr + i`; the counters are pairwise distinct. -/
theorem C07_serialize_counters (A : Aead) (key aad : Bytes) (cf : Nat → Bytes) (cl : List Bytes) (ctr : Nat) :
    (serCalls ctr cl).map (·.1) = List.range' ctr cl.length ∧ ((serCalls ctr cl).map (·.1)).Nodup := by
  have h := (C07_serialize_nonces A key aad cf cl ctr).2.1
  exact ⟨h, by rw [h]; exact List.nodup_range'⟩

example : ((serCalls 5 [[1,2],[3],[4,5]]).map (·.1)).Nodup := (C07_serialize_counters toyPrims.aead [] [] be64 _ 5).2

end Kestrel
