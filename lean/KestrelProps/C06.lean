/-
  C06 — files conform byte-for-byte to the documented, frozen wire format.

  * `C06_noise_write_spec` / `C06_noise_read_spec`: the hard-coded X flow of noise.rs equals the declarative token
    interpreter driven by the pattern the translator reads from the source (`e, es, s, ss`, pre-message `← s`).
  * `C06_encrypt_is_format`: what the encryptor emits is `magic ‖ handshake ‖ records`, records being the
    documented layout `counter(8) ‖ last(4) ‖ len(4) ‖ AEAD(nonce = counter, ad = [magic‖] last ‖ len)`.
  * `C06_complete_key` / `C06_complete_pass`: EVERY file of the format — any chunking into chunks of 0..65536 bytes,
    any content of the advisory counter fields — decrypts to its plaintext and sender.
  * identities: `hkdf_noise` = RFC 5869, nonce layout, protocol name zero-padded (31 ≤ 32 bytes, not hashed).
  The byte-level agreement of the Rust code with these definitions is the correspondence run (incl. golden files).
-/
import KestrelModel.NoiseSpec
import KestrelProofs.File
import KestrelProofs.Prims
import KestrelProps.C19
import KestrelProps.C01
namespace Kestrel
open Generated

theorem C06_noise_write_spec (P : Prims) (pro s spk rs e epk payload : Bytes) :
    Noise.Spec.writeMessage P pro s spk rs e epk payload = Noise.writeMessage P pro s spk rs e epk payload := by
  unfold Noise.Spec.writeMessage Noise.writeMessage
  rw [gen_token_pattern]
  simp only [Noise.Spec.writeTokens, Noise.Spec.writeToken, Noise.initI, List.nil_append]
  cases h1 : P.dh e rs with
  | none => simp
  | some d1 =>
    simp only []
    cases h2 : P.dh s rs with
    | none => simp
    | some d2 => simp [Noise.Sym.encryptAndHash]

theorem C06_noise_read_spec (P : Prims) (pro r rpk msg : Bytes) :
    Noise.Spec.readMessage P pro r rpk msg = Noise.readMessage P pro r rpk msg := by
  unfold Noise.Spec.readMessage Noise.readMessage
  split
  · rfl
  · rw [gen_token_pattern]
    simp only [Noise.Spec.readTokens, Noise.Spec.readToken, Noise.initR]
    cases h1 : P.dh r (msg.take 32) with
    | none => simp
    | some d1 =>
      simp only []
      cases h2 : Noise.Sym.decryptAndHash P
          (Noise.Sym.mixKey P (Noise.Sym.mixHash P (Noise.Sym.mixHash P (Noise.Sym.mixHash P (Noise.Sym.init P Noise.protocolName) pro) rpk) (msg.take 32)) d1)
          ((msg.drop 32).take 48) with
      | none => simp
      | some v =>
        obtain ⟨rs, st⟩ := v
        simp only []
        by_cases hl : rs.length = 32
        · simp only [hl, ne_eq, not_true_eq_false, if_false]
          cases h3 : P.dh r rs with
          | none => simp
          | some d2 =>
            simp only [List.drop_drop]
            cases h4 : Noise.Sym.decryptAndHash P (Noise.Sym.mixKey P st d2) (msg.drop 80) with
            | none => simp [h4]
            | some w => obtain ⟨pl, st2⟩ := w; simp [h4]
        · simp [hl]

/-- the protocol name is 31 bytes: h₀ = name ‖ 00 (zero-padded, not hashed), as Noise §5.2 prescribes -/
theorem C06_protocol_name (P : Prims) :
    (Noise.Sym.init P Noise.protocolName).h = Noise.protocolName ++ [0] ∧
    (Noise.Sym.init P Noise.protocolName).ck = Noise.protocolName ++ [0] := by
  have hl : Noise.protocolName.length = 31 := by decide
  simp [Noise.Sym.init, hl, zeros]

/-- the chunk record layout of docs/file-format.txt -/
theorem C06_record_layout (A : Aead) (key aad : Bytes) (ctr : Nat) (last : Bool) (pt : Bytes) :
    record A key aad (be64 ctr) ctr last pt =
      be64 ctr ++ be32 (if last then 1 else 0) ++ be32 pt.length ++
        A.enc key ctr (aad ++ be32 (if last then 1 else 0) ++ be32 pt.length) pt := rfl

/-- a key-mode file of the format: any chunk list, any counter fields -/
def formatKeyFile (P : Prims) (s spk rs e epk pk : Bytes) (cf : Nat → Bytes) (cl : List Bytes) : Option Bytes :=
  match Noise.writeMessage P encPrologue s spk rs e epk pk with
  | .error _ => none
  | .ok (msg, h) => some (encPrologue ++ msg ++ serialize P.aead (P.hkdfFile pk h) [] cf 0 cl)

/-- a password-mode file of the format -/
def formatPassFile (P : Prims) (pw salt : Bytes) (cf : Nat → Bytes) (cl : List Bytes) : Bytes :=
  encPassMagic ++ salt ++ serialize P.aead (P.kdf pw salt) encPassMagic cf 0 cl

/-- the encryptor's output IS a file of the format (counter field = the counter, chunks = the reads) -/
theorem C06_encrypt_is_format (P : Prims) (s spk rs e epk pk : Bytes) (reads : List Bytes) (hwf : wellFormedReads reads) :
    (∀ msg h, Noise.writeMessage P encPrologue s spk rs e epk pk = .ok (msg, h) →
      keyEncrypt P s spk rs e epk pk reads = (encPrologue ++ msg ++ serialize P.aead (P.hkdfFile pk h) [] be64 0 (fileChunks reads), .ok)) ∧
    (∀ pw salt, passEncrypt P pw salt reads = (formatPassFile P pw salt be64 (fileChunks reads), .ok)) := by
  constructor
  · intro msg h hw
    simp [keyEncrypt, hw, encryptChunks_eq P.aead _ [] reads hwf]
  · intro pw salt
    simp [passEncrypt, formatPassFile, encryptChunks_eq P.aead _ encPassMagic reads hwf]

/-- **Completeness, password mode**: every file of the format decrypts to its chunks. -/
theorem C06_complete_pass (P : Prims) (hA : P.aead.Lawful) (pw salt : Bytes) (cf : Nat → Bytes) (cl : List Bytes)
    (hsalt : salt.length = 32) (hkdf : (P.kdf pw salt).length = 32) (hcf : ∀ i, (cf i).length = 8)
    (hne : cl ≠ []) (hle : ∀ c ∈ cl, c.length ≤ chunkSize) :
    passDecrypt P pw (formatPassFile P pw salt cf cl) = (cl, .ok) := by
  generalize hkd : P.kdf pw salt = key at *
  unfold formatPassFile
  rw [hkd]
  have hlen : ¬ (encPassMagic ++ salt ++ serialize P.aead key encPassMagic cf 0 cl).length < 4 := by
    simp [gen_passmagic_len]
  have t1 : (encPassMagic ++ salt ++ serialize P.aead key encPassMagic cf 0 cl).take 4 = encPassMagic := by
    rw [List.append_assoc, ← gen_passmagic_len]; simp
  have t2 : (encPassMagic ++ salt ++ serialize P.aead key encPassMagic cf 0 cl).drop 4 =
      salt ++ serialize P.aead key encPassMagic cf 0 cl := by
    rw [List.append_assoc, ← gen_passmagic_len]; simp
  have t3 : (salt ++ serialize P.aead key encPassMagic cf 0 cl).take 32 = salt := by rw [← hsalt]; simp
  have t4 : (salt ++ serialize P.aead key encPassMagic cf 0 cl).drop 32 = serialize P.aead key encPassMagic cf 0 cl := by
    rw [← hsalt]; simp
  have hlen2 : ¬ (salt ++ serialize P.aead key encPassMagic cf 0 cl).length < 32 := by simp [hsalt]
  have hdec := decLoop_serialize P.aead hA key encPassMagic hkdf chunkSize gen_chunkSize_lt cf hcf cl 0 _ hne hle (Nat.le_refl _)
  unfold passDecrypt
  rw [if_neg hlen]
  simp only [t1, t2, validFileFormat_pass, if_neg hlen2, t3, t4, hkd, decryptChunks, hdec]

/-- **Completeness, key mode**: every file of the format, addressed to `rpk`, decrypts under `r` to its chunks and
    names the sender — for any legal chunking and any counter-field contents. -/
theorem C06_complete_key (P : Prims) (hP : P.Lawful) (s spk r rpk e epk pk d1 d2 : Bytes) (cf : Nat → Bytes) (cl : List Bytes)
    (hE : epk.length = 32) (hS : spk.length = 32) (hK : pk.length = 32)
    (h1 : P.dh e rpk = some d1) (h2 : P.dh s rpk = some d2) (h1' : P.dh r epk = some d1) (h2' : P.dh r spk = some d2)
    (hcf : ∀ i, (cf i).length = 8) (hne : cl ≠ []) (hle : ∀ c ∈ cl, c.length ≤ chunkSize) :
    ∃ f, formatKeyFile P s spk rpk e epk pk cf cl = some f ∧ keyDecrypt P r rpk f = (cl, .ok, some spk) := by
  obtain ⟨encS, encP, hh, hw, _, _, _⟩ := Noise.writeMessage_ok P encPrologue s spk rpk e epk pk d1 d2 h1 h2
  have hml := Noise.writeMessage_length P hP _ _ _ _ _ _ _ _ _ hE hS hw
  have hrd := Noise.readMessage_writeMessage P hP encPrologue s spk r rpk e epk pk d1 d2 _ _ hE hS (by omega) h1 h2 h1' h2' hw
  generalize hmsg : epk ++ encS ++ encP = msg at *
  have hml' : msg.length = 128 := by omega
  have hfk := hP.hkdfFile_len pk hh
  generalize hfkd : P.hkdfFile pk hh = fk at *
  refine ⟨encPrologue ++ msg ++ serialize P.aead fk [] cf 0 cl, by simp [formatKeyFile, hw, hfkd], ?_⟩
  have hlen : ¬ (encPrologue ++ msg ++ serialize P.aead fk [] cf 0 cl).length < 4 := by simp [gen_prologue_len]
  have t1 : (encPrologue ++ msg ++ serialize P.aead fk [] cf 0 cl).take 4 = encPrologue := by
    rw [List.append_assoc, ← gen_prologue_len]; simp
  have t2 : (encPrologue ++ msg ++ serialize P.aead fk [] cf 0 cl).drop 4 = msg ++ serialize P.aead fk [] cf 0 cl := by
    rw [List.append_assoc, ← gen_prologue_len]; simp
  have t3 : (msg ++ serialize P.aead fk [] cf 0 cl).take handshakeLen = msg := by rw [gen_handshakeLen, ← hml']; simp
  have t4 : (msg ++ serialize P.aead fk [] cf 0 cl).drop handshakeLen = serialize P.aead fk [] cf 0 cl := by
    rw [gen_handshakeLen, ← hml']; simp
  have hlen2 : ¬ (msg ++ serialize P.aead fk [] cf 0 cl).length < handshakeLen := by rw [gen_handshakeLen]; simp [hml']
  have hdec := decLoop_serialize P.aead hP.aead fk [] hfk chunkSize gen_chunkSize_lt cf hcf cl 0 _ hne hle (Nat.le_refl _)
  unfold keyDecrypt
  rw [if_neg hlen]
  simp only [t1, t2, validFileFormat_asym, if_neg hlen2, t3, t4, hrd, hK, ne_eq, not_true_eq_false, if_false, hfkd,
    decryptChunks, hdec, if_true]

/-- identities the documented format relies on (proved in C19): hkdf_noise = RFC 5869, nonce = 0⁴ ‖ LE64(counter) -/
theorem C06_identities (ck ikm : Bytes) (n : Nat) :
    (hkdfNoise ck ikm).1 ++ (hkdfNoise ck ikm).2 = hkdfSha256 ck ikm [] 64 ∧ noiseNonce n = [0,0,0,0] ++ natLE 8 n :=
  ⟨C19_hkdf_noise ck ikm, rfl⟩

/-- non-vacuity: a format file with chunks the encryptor never emits (1 byte, empty final chunk; junk counters) -/
example : passDecrypt toyPrims [1] (formatPassFile toyPrims [1] (zeros 32) (fun i => be64 (7 * i + 3)) [[5], [6], []]) = ([[5], [6], []], .ok) :=
  C06_complete_pass toyPrims toyPrims_lawful.aead [1] (zeros 32) _ _ (List.length_replicate ..) (by simp [toyPrims, zeros])
    (fun _ => rfl) (by simp) (by intro c hc; simp at hc; rcases hc with h | h | h <;> subst h <;> simp [chunkSize])

end Kestrel
