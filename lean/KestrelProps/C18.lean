/-
  C18 — scrypt: the Rust-shaped model (`Scrypt.Impl`, shape of `src/crypto/src/scrypt.rs`: loops unrolled two
  steps at a time, `& (N-1)` instead of `mod N`, block_mix writing even results to the first half and odd
  results to the second half) computes exactly RFC 7914 (`Scrypt.Spec`) whenever N is a power of two ≥ 2;
  and the C-ABI wrapper `src/ffi/src/lib.rs::scrypt` writes exactly that value into `derived_key[0..dk_len)`
  and touches nothing else.

  Hypotheses are exactly what the code needs:
    * `N = 2^k`  — the mask `& (N-1)` is `mod N` only for powers of two (`C18_mask_needs_pow2`);
    * `1 ≤ k`    — the loops run `N/2` double iterations, which is `N` single iterations only for even N
                   (`C18_needs_N_ge_2`: at N = 1 the Rust shape runs zero iterations, RFC 7914 runs one);
    * no hypothesis on r, p, dkLen, password or salt (r = 0 and p = 0 included).
  Salsa20/8 is opaque in all proofs: the equalities hold for any core function.
-/
import KestrelProofs.Scrypt
namespace Kestrel
open Scrypt

/-- **C18 (block_mix).** Processing the input in pairs and emitting (even results ++ odd results) is
    scryptBlockMix, for every input of even length (2r blocks). -/
theorem C18_blockMix_eq : ∀ (B : List Scrypt.Blk), B.length % 2 = 0 →
    Scrypt.Impl.blockMix B = Scrypt.Spec.blockMix B :=
  fun B h => Scrypt.Impl.blockMix_eq B h

/-- hypotheses satisfiable on a non-trivial value (r = 2, i.e. four blocks) -/
example : Scrypt.Impl.blockMix [Blk.zero, Blk.zero, Blk.zero, Blk.zero] =
    Scrypt.Spec.blockMix [Blk.zero, Blk.zero, Blk.zero, Blk.zero] :=
  C18_blockMix_eq _ rfl

/-- the evenness hypothesis of `C18_blockMix_eq` is not decorative: on an odd-length input the pairwise
    loop drops the last block (lengths differ, whatever Salsa20/8 computes) -/
theorem C18_blockMix_needs_even (b : Scrypt.Blk) :
    (Scrypt.Impl.blockMix [b]).length ≠ (Scrypt.Spec.blockMix [b]).length := by
  rw [Scrypt.Spec.blockMix_length]
  show ([] : List Scrypt.Blk).length ≠ 1
  decide

/-- **C18 (smix).** The two-steps-per-iteration loops with the `& (N-1)` mask are scryptROMix, for every
    power of two N ≥ 2 and every input of even length. -/
theorem C18_smix_eq : ∀ (N k : Nat) (B : List Scrypt.Blk), N = 2^k → 1 ≤ k → B.length % 2 = 0 →
    Scrypt.Impl.smix N B = Scrypt.Spec.roMix N B :=
  fun N k B hN hk hB => Scrypt.Impl.smix_eq N k B hN hk hB

/-- hypotheses satisfiable: N = 16, two blocks -/
example : Scrypt.Impl.smix (2^4) [Blk.zero, Blk.zero] = Scrypt.Spec.roMix (2^4) [Blk.zero, Blk.zero] :=
  C18_smix_eq (2^4) 4 _ rfl (by decide) rfl

/-- **C18.** The Rust-shaped scrypt equals RFC 7914 scrypt for every password, salt, r, p, dkLen
    (r = 0, p = 0, dkLen = 0 included: no hypothesis needed) and every N that is a power of two ≥ 2. -/
theorem C18_impl_eq_spec : ∀ (pw salt : Bytes) (N k r p dkLen : Nat), N = 2^k → 1 ≤ k →
    Scrypt.Impl.scrypt pw salt N r p dkLen = Scrypt.Spec.scrypt pw salt N r p dkLen :=
  fun pw salt N k r p dkLen hN hk => Scrypt.Impl.scrypt_eq pw salt N k r p dkLen hN hk

/-- non-vacuity: N = 2^4, r = 1, p = 1 (not evaluated in the kernel) -/
example : Scrypt.Impl.scrypt [112, 119] [78, 97, 67, 108] (2^4) 1 1 64 =
    Scrypt.Spec.scrypt [112, 119] [78, 97, 67, 108] (2^4) 1 1 64 :=
  C18_impl_eq_spec _ _ (2^4) 4 1 1 64 rfl (by decide)

/-! ### the hypotheses are exactly what the code needs -/

/-- `C18_mask_needs_pow2`: for N = 6 the mask is not the remainder (x = 6: 6 &&& 5 = 4, 6 % 6 = 0) -/
example : ∃ x : Nat, x &&& (6 - 1) ≠ x % 6 := ⟨6, by decide⟩

theorem C18_mask_needs_pow2 : (6 : Nat) &&& (6 - 1) ≠ 6 % 6 := by decide

/-- for powers of two the mask *is* the remainder (the fact `C18_smix_eq` uses) -/
theorem C18_mask_pow2 (x k : Nat) : x &&& (2^k - 1) = x % 2^k := Nat.and_two_pow_sub_one_eq_mod x k

/-- `1 ≤ k` is needed: at N = 1 = 2^0 the Rust shape runs N/2 = 0 iterations of each loop and returns its
    input, RFC 7914 runs one iteration of each (BlockMix applied twice, the second time to X xor X = 0). -/
theorem C18_needs_N_ge_2 (B : List Scrypt.Blk) :
    Scrypt.Impl.smix 1 B = B ∧
    Scrypt.Spec.roMix 1 B = Scrypt.Spec.blockMix (xorBlocks (Scrypt.Spec.blockMix B) B) := by
  refine ⟨rfl, ?_⟩
  simp [Scrypt.Spec.roMix, Scrypt.Spec.fillV, Scrypt.Spec.mixV, Nat.mod_one]

/-! ### output length -/

theorem C18_scrypt_length (pw salt : Bytes) (N r p dkLen : Nat) :
    (Scrypt.Impl.scrypt pw salt N r p dkLen).length = dkLen :=
  Scrypt.Impl.scrypt_length pw salt N r p dkLen

example : (Scrypt.Impl.scrypt [1] [2] 16 1 1 64).length = 64 := C18_scrypt_length _ _ _ _ _ _

/-! ### the C-ABI wrapper `src/ffi/src/lib.rs`

  `scrypt(password, password_len, salt, salt_len, n, r, p, derived_key, dk_len)` builds slices from the raw
  pointers, calls `kestrel_crypto::scrypt(kpass, ksalt, n, r, p, dk_len)` (which returns a fresh `Vec` of
  `dk_len` bytes) and `copy_from_slice`s it into `derived_key[0..dk_len)`.  Memory is modelled as one flat
  byte list; pointers are offsets.  The inputs are read *before* the output is written (the result is a
  separate `Vec`), so the model reads `pw`/`salt` from the pre-state even if the regions overlap. -/

/-- memory after the call -/
def ffiScrypt (mem : List UInt8) (pwOff pwLen saltOff saltLen N r p dkOff dkLen : Nat) : List UInt8 :=
  mem.take dkOff
    ++ Scrypt.Impl.scrypt ((mem.drop pwOff).take pwLen) ((mem.drop saltOff).take saltLen) N r p dkLen
    ++ mem.drop (dkOff + dkLen)

/-- **C18 (FFI frame).** If the output region lies inside memory, the call preserves the size of memory,
    leaves every byte outside `[dkOff, dkOff+dkLen)` unchanged, and the output region holds exactly the
    RFC 7914 scrypt of the password and salt regions (the last under the power-of-two hypothesis). -/
theorem C18_ffi_frame (mem : List UInt8) (pwOff pwLen saltOff saltLen N k r p dkOff dkLen : Nat)
    (hin : dkOff + dkLen ≤ mem.length) :
    (ffiScrypt mem pwOff pwLen saltOff saltLen N r p dkOff dkLen).length = mem.length ∧
    (∀ i, i < dkOff ∨ dkOff + dkLen ≤ i →
      (ffiScrypt mem pwOff pwLen saltOff saltLen N r p dkOff dkLen)[i]? = mem[i]?) ∧
    (N = 2^k → 1 ≤ k →
      ((ffiScrypt mem pwOff pwLen saltOff saltLen N r p dkOff dkLen).drop dkOff).take dkLen =
        Scrypt.Spec.scrypt ((mem.drop pwOff).take pwLen) ((mem.drop saltOff).take saltLen) N r p dkLen) := by
  unfold ffiScrypt
  generalize hdk : Scrypt.Impl.scrypt ((mem.drop pwOff).take pwLen) ((mem.drop saltOff).take saltLen) N r p dkLen = dk
  have hdkl : dk.length = dkLen := by rw [← hdk]; exact Scrypt.Impl.scrypt_length ..
  have htl : (mem.take dkOff).length = dkOff := by rw [List.length_take]; omega
  refine ⟨?_, ?_, ?_⟩
  · simp only [List.length_append, htl, hdkl, List.length_drop]; omega
  · intro i hi
    rcases hi with hi | hi
    · rw [List.append_assoc, List.getElem?_append_left (by omega), List.getElem?_take, if_pos hi]
    · rw [List.getElem?_append_right (by simp only [List.length_append, htl, hdkl]; exact hi)]
      simp only [List.length_append, htl, hdkl, List.getElem?_drop]
      congr 1; omega
  · intro hN hk
    rw [List.append_assoc, List.drop_left' htl, List.take_left' hdkl, ← hdk]
    exact C18_impl_eq_spec _ _ N k r p dkLen hN hk

/-- non-vacuity: a 12-byte memory, password = bytes 0..2, salt = bytes 2..6, output region = bytes 4..12
    (overlapping the salt), N = 2^4, r = 1, p = 1 -/
example :
    let mem : List UInt8 := [1, 2, 3, 4, 5, 6, 7, 8, 9, 10, 11, 12]
    (ffiScrypt mem 0 2 2 4 (2^4) 1 1 4 8).length = mem.length ∧
    (∀ i, i < 4 ∨ 4 + 8 ≤ i → (ffiScrypt mem 0 2 2 4 (2^4) 1 1 4 8)[i]? = mem[i]?) ∧
    ((2^4 : Nat) = 2^4 → 1 ≤ 4 →
      ((ffiScrypt mem 0 2 2 4 (2^4) 1 1 4 8).drop 4).take 8 =
        Scrypt.Spec.scrypt ((mem.drop 0).take 2) ((mem.drop 2).take 4) (2^4) 1 1 8) :=
  C18_ffi_frame [1, 2, 3, 4, 5, 6, 7, 8, 9, 10, 11, 12] 0 2 2 4 (2^4) 4 1 1 4 8 (by decide)

end Kestrel
