/-
  Source — the capstone: the main theorems of the properties C01 … C18, stated directly about the definitions that are
  GENERATED from the Rust source on every run

    * `Kestrel.StreamSrc.encrypt.{encrypt_chunks, key_encrypt, pass_encrypt}`,
      `Kestrel.StreamSrc.decrypt.{decrypt_chunks, key_decrypt, pass_decrypt}`      (KestrelModel/GeneratedStream.lean),
    * `Kestrel.KeyringSrc.Keyring.{new, serialize_key, get_key, get_name_from_key, lock_private_key, unlock_private_key}`
                                                                                     (KestrelModel/GeneratedKeyring.lean),
    * `Kestrel.ScryptSrc.scrypt`                                                    (KestrelModel/GeneratedScrypt.lean),

  and not about the hand-written model (`encryptChunksIO`, `keyDecryptIO`, `Keyring.parse`, …).  Each theorem is the
  composition of an existing property theorem (KestrelProps/Cxx.lean) with the model-equality theorems of
  KestrelProps/StreamSrc.lean, KeyringSrc.lean and C18src.lean; nothing new is proved about the model.

  Reading the statements.
  * A generated I/O function takes a `fuel` (iteration budget of its translated `loop`) and returns `Option`; every theorem
    carries the fuel bound of the equality theorem (`src.inp.length + src.script.length + 2 ≤ fuel` for the encryptors,
    `src.inp.length + 1 ≤ fuel` for the decryptors) and asserts in its conclusion that the result is `some …` (the loop
    terminates within the budget).
  * The generated functions take the AEAD `A` of the chunk loop and the primitive record `P` as two parameters; as in the
    equality theorems they are instantiated together (`A := P.aead`).
  * The Rust `Result<(), DecryptError>` is `Res`; `Result<PublicKey, DecryptError>` is `Except Res Bytes`.  The model's class
    `Res.format` is `Res.other` in the generated code (`impl From<FileFormatError>`; messages are not modelled).
  * `file_format` arguments are universally quantified (the enums have one constructor).
  * Specification-level notions used: scripted sources / sinks and their classes (`Src.faultFree`, `Src.benign`,
    `Src.noFalseEof`, `Src.hasErr`, `Snk.benign`, `Snk.faultFree`), the read schedule of a source (`Src.reads`), the format
    (`record`, `serialize`, `fileChunks`), `Prims` / `Aead` and their functional laws, `DhAgree`.

  Helper lemmas: KestrelProofs/Source.lean.
-/
import KestrelProofs.Source
import KestrelProps.StreamSrc
import KestrelProps.KeyringSrc
import KestrelProps.C18src
import KestrelProps.C01io
import KestrelProps.C03
import KestrelProps.C04
import KestrelProps.C05
import KestrelProps.C06
import KestrelProps.C07
import KestrelProps.C08
import KestrelProps.C11
import KestrelProps.C14
import KestrelProps.C15
import KestrelProps.C16
import KestrelProps.C17
namespace Kestrel
open Generated EncIO

/-! ## C01 — key-mode round trip, names the sender -/

/-- **C01 (generated `key_encrypt` / `key_decrypt`).**  Renders C01: "the file produced by key-based encryption decrypts
    under the recipient's private key to exactly the original bytes, and decryption reports exactly the sender's static
    public key … however the plaintext source and the ciphertext sink split the data across individual read and write
    calls".  For ANY fault-free plaintext source and ANY benign ciphertext sink the generated `key_encrypt` returns `Ok(())`
    and appends some `ct` to the sink; and for ANY fault-free presentation of `ct` and ANY benign plaintext sink the
    generated `key_decrypt` returns `Ok(spk)` — the sender's public key — having appended exactly the source's bytes.
    Hypotheses as in `C01_roundtrip_io` (lawful primitives, 32-byte public / payload keys, DH agreement on this run's keys).
    Combines `C01_roundtrip_io` (KestrelProps/C01io.lean) with `stream_source_key_encrypt` and `stream_source_key_decrypt`. -/
theorem C01_source_roundtrip (P : Prims) (hP : P.Lawful) (rand : Nat → Bytes) (s spk r rpk e epk pk : Bytes)
    (ff ff2 : StreamSrc.AsymFileFormat) (src : Src) (k : Snk) (fuel : Nat)
    (hf : src.inp.length + src.script.length + 2 ≤ fuel)
    (hE : epk.length = 32) (hS : spk.length = 32) (hK : pk.length = 32)
    (hdh : DhAgree P s spk r rpk e epk) (hs : src.faultFree) (hk : k.benign) :
    ∃ src' k' ct,
      StreamSrc.encrypt.key_encrypt P.aead P rand src k s spk rpk (some e) (some epk) (some pk) ff fuel = some (.ok, src', k') ∧
      k'.out = k.out ++ ct ∧
      ∀ (src2 : Src) (k2 : Snk) (fuel2 : Nat), src2.inp = ct → src2.faultFree → k2.benign → src2.inp.length + 1 ≤ fuel2 →
        ∃ src2' k2', StreamSrc.decrypt.key_decrypt P.aead P src2 k2 r rpk ff2 fuel2 = some (.ok spk, src2', k2') ∧
          k2'.out = k2.out ++ src.inp := by
  obtain ⟨hok, ct, hout, hdec⟩ := C01_roundtrip_io P hP s spk r rpk e epk pk src k hE hS hK hdh hs hk
  refine ⟨(keyEncryptIO P s spk rpk e epk pk src k).2.1, (keyEncryptIO P s spk rpk e epk pk src k).2.2, ct, ?_, hout, ?_⟩
  · rw [stream_source_key_encrypt P rand s spk rpk e epk pk ff src k fuel hf, ← hok]
  · intro src2 k2 fuel2 hinp hs2 hk2 hf2
    obtain ⟨h1, h2, h3⟩ := hdec src2 k2 hinp hs2 hk2
    refine ⟨(keyDecryptIO P r rpk src2 k2).2.1, (keyDecryptIO P r rpk src2 k2).2.2.1, ?_, h3⟩
    rw [stream_source_key_decrypt P r rpk ff2 src2 k2 fuel2 hf2, h2]
    rfl

/-- non-vacuity: the toy instance, a source delivering 2 + 1 + 2 bytes and a sink accepting 3 bytes, then (after an
    interruption) 1, then everything -/
example : ∃ src' k' ct,
    StreamSrc.encrypt.key_encrypt toyPrims.aead toyPrims (fun n => zeros n) ssSrc ssSnk (zeros 32) (zeros 32) (List.replicate 32 1)
      (some (List.replicate 32 2)) (some (List.replicate 32 2)) (some (List.replicate 32 7)) .V1 9 = some (.ok, src', k') ∧
    k'.out = ssSnk.out ++ ct ∧
    ∀ (src2 : Src) (k2 : Snk) (fuel2 : Nat), src2.inp = ct → src2.faultFree → k2.benign → src2.inp.length + 1 ≤ fuel2 →
      ∃ src2' k2', StreamSrc.decrypt.key_decrypt toyPrims.aead toyPrims src2 k2 (List.replicate 32 1) (List.replicate 32 1) .V1 fuel2 =
          some (.ok (zeros 32), src2', k2') ∧ k2'.out = k2.out ++ ssSrc.inp :=
  C01_source_roundtrip toyPrims toyPrims_lawful _ (zeros 32) (zeros 32) (List.replicate 32 1) (List.replicate 32 1)
    (List.replicate 32 2) (List.replicate 32 2) (List.replicate 32 7) .V1 .V1 ssSrc ssSnk 9 (by decide)
    (List.length_replicate ..) (List.length_replicate ..) (List.length_replicate ..) (toy_dhAgree _ _ _) ssSrc_faultFree ssSnk_benign

/-! ## C02 — password-mode round trip; every other password is rejected -/

/-- **C02, round trip (generated `pass_encrypt` / `pass_decrypt`).**  Renders the first sentence of C02: "for every plaintext
    and every password (including the empty password …) the file produced by password encryption decrypts under the same
    password to exactly the original bytes, for every plaintext length and every way the data is split across read and write
    calls".  Every fault-free source and benign sink on both sides.  Hypotheses as in `C02_roundtrip_io`: lawful AEAD, 32-byte
    salt, 32-byte KDF output for this password and salt.
    Combines `C02_roundtrip_io` (KestrelProps/C01io.lean) with `stream_source_pass_encrypt` and `stream_source_pass_decrypt`. -/
theorem C02_source_roundtrip (P : Prims) (hA : P.aead.Lawful) (pw salt : Bytes) (ff ff2 : StreamSrc.PassFileFormat)
    (src : Src) (k : Snk) (fuel : Nat) (hf : src.inp.length + src.script.length + 2 ≤ fuel)
    (hsalt : salt.length = 32) (hkdf : (P.kdf pw salt).length = 32) (hs : src.faultFree) (hk : k.benign) :
    ∃ src' k' ct, StreamSrc.encrypt.pass_encrypt P.aead P src k pw salt ff fuel = some (.ok, src', k') ∧
      k'.out = k.out ++ ct ∧
      ∀ (src2 : Src) (k2 : Snk) (fuel2 : Nat), src2.inp = ct → src2.faultFree → k2.benign → src2.inp.length + 1 ≤ fuel2 →
        ∃ src2' k2', StreamSrc.decrypt.pass_decrypt P.aead P src2 k2 pw ff2 fuel2 = some (.ok, src2', k2') ∧
          k2'.out = k2.out ++ src.inp := by
  obtain ⟨hok, ct, hout, hdec⟩ := C02_roundtrip_io P hA pw salt src k hsalt hkdf hs hk
  refine ⟨(passEncryptIO P pw salt src k).2.1, (passEncryptIO P pw salt src k).2.2, ct, ?_, hout, ?_⟩
  · rw [stream_source_pass_encrypt P pw salt ff src k fuel hf, ← hok]
  · intro src2 k2 fuel2 hinp hs2 hk2 hf2
    obtain ⟨h1, h2⟩ := hdec src2 k2 hinp hs2 hk2
    refine ⟨(passDecryptIO P pw src2 k2).2.1, (passDecryptIO P pw src2 k2).2.2, ?_, h2⟩
    rw [stream_source_pass_decrypt P pw ff2 src2 k2 fuel2 hf2, h1]
    rfl

/-- non-vacuity: the empty password, a key-dependent toy AEAD, short reads and partial / interrupted writes -/
example : ∃ src' k' ct, StreamSrc.encrypt.pass_encrypt keyedPrims.aead keyedPrims ssSrc ssSnk [] (zeros 32) .V1 9 = some (.ok, src', k') ∧
    k'.out = ssSnk.out ++ ct ∧
    ∀ (src2 : Src) (k2 : Snk) (fuel2 : Nat), src2.inp = ct → src2.faultFree → k2.benign → src2.inp.length + 1 ≤ fuel2 →
      ∃ src2' k2', StreamSrc.decrypt.pass_decrypt keyedPrims.aead keyedPrims src2 k2 [] .V1 fuel2 = some (.ok, src2', k2') ∧
        k2'.out = k2.out ++ ssSrc.inp :=
  C02_source_roundtrip keyedPrims keyedAead_lawful [] (zeros 32) .V1 .V1 ssSrc ssSnk 9 (by decide) (by decide)
    (keyed_kdf_length _ _) ssSrc_faultFree ssSnk_benign

/-- **C02, round trip, concrete primitives.**  For the executable primitive record (ChaCha20-Poly1305 and RFC 7914 scrypt at
    kestrel's parameters) there is no hypothesis on the KDF and none on the AEAD: every password, including the empty one.
    Combines `C02_source_roundtrip` with `chapolyNoise_lawful` and `concrete_kdf_length` (as `C02_roundtrip_io_concrete`). -/
theorem C02_source_roundtrip_concrete (pw salt : Bytes) (ff ff2 : StreamSrc.PassFileFormat)
    (src : Src) (k : Snk) (fuel : Nat) (hf : src.inp.length + src.script.length + 2 ≤ fuel)
    (hsalt : salt.length = 32) (hs : src.faultFree) (hk : k.benign) :
    ∃ src' k' ct, StreamSrc.encrypt.pass_encrypt chapolyNoise concretePrims src k pw salt ff fuel = some (.ok, src', k') ∧
      k'.out = k.out ++ ct ∧
      ∀ (src2 : Src) (k2 : Snk) (fuel2 : Nat), src2.inp = ct → src2.faultFree → k2.benign → src2.inp.length + 1 ≤ fuel2 →
        ∃ src2' k2', StreamSrc.decrypt.pass_decrypt chapolyNoise concretePrims src2 k2 pw ff2 fuel2 = some (.ok, src2', k2') ∧
          k2'.out = k2.out ++ src.inp :=
  C02_source_roundtrip concretePrims chapolyNoise_lawful pw salt ff ff2 src k fuel hf hsalt (concrete_kdf_length pw salt) hs hk

/-- hypotheses satisfiable, with the empty password (nothing is evaluated) -/
example := C02_source_roundtrip_concrete [] (zeros 32) .V1 .V1 ssSrc ssSnk 9 (by decide) (by decide) ssSrc_faultFree ssSnk_benign

/-- **C02, wrong password (generated `pass_encrypt` / `pass_decrypt`; reduction).**  Renders the second sentence of C02:
    "decryption under any different password fails with an error and releases no plaintext".  Take what the generated
    `pass_encrypt` wrote under password `w` (any fault-free source, any benign sink) and present it in any fault-free way,
    with any benign sink, to the generated `pass_decrypt` under ANY password `w'`.  Then either the call returns
    `DecryptError::ChaPolyDecrypt` (`Res.auth`) with the sink's content unchanged, or one of the two named bad events of
    `C02_wrong_password` occurred: the two passwords collide under the KDF for this salt, or record 0 of the stream, sealed under
    `P.kdf w salt`, opens under the different key `P.kdf w' salt`.  (`ad0` / `body0`: associated data and body of record 0 of the
    stream for the source's chunk list, KestrelProofs/Strict.lean.)
    Combines `C02_wrong_password` (KestrelProps/C02.lean), `C10_enc_partition_independence_pass`,
    `C10_dec_partition_independence_pass` with `stream_source_pass_encrypt` and `stream_source_pass_decrypt`. -/
theorem C02_source_wrong_password (P : Prims) (hA : P.aead.Lawful) (w w' salt : Bytes) (ff ff2 : StreamSrc.PassFileFormat)
    (src : Src) (k : Snk) (fuel : Nat) (hf : src.inp.length + src.script.length + 2 ≤ fuel)
    (hsalt : salt.length = 32) (hkdf : (P.kdf w salt).length = 32) (hs : src.faultFree) (hk : k.benign) :
    ∃ src' k' ct, StreamSrc.encrypt.pass_encrypt P.aead P src k w salt ff fuel = some (.ok, src', k') ∧
      k'.out = k.out ++ ct ∧
      ∀ (src2 : Src) (k2 : Snk) (fuel2 : Nat), src2.inp = ct → src2.faultFree → k2.benign → src2.inp.length + 1 ≤ fuel2 →
        ∃ res src2' k2', StreamSrc.decrypt.pass_decrypt P.aead P src2 k2 w' ff2 fuel2 = some (res, src2', k2') ∧
          ((res = .auth ∧ k2'.out = k2.out) ∨
           P.kdf w' salt = P.kdf w salt ∨
           (P.kdf w' salt ≠ P.kdf w salt ∧
             ∃ p, P.aead.dec (P.kdf w' salt) 0
                   (ad0 StreamSrc.encrypt.PASS_FILE_MAGIC (fileChunks (Src.reads StreamSrc.CHUNK_SIZE src)))
                   (body0 P.aead (P.kdf w salt) StreamSrc.encrypt.PASS_FILE_MAGIC
                     (fileChunks (Src.reads StreamSrc.CHUNK_SIZE src))) = some p)) := by
  obtain ⟨hok, ct, hout, _⟩ := C02_roundtrip_io P hA w salt src k hsalt hkdf hs hk
  obtain ⟨_, h2, hwf, hle, _⟩ := C10_enc_partition_independence_pass P w salt src k hs hk
  have hct : ct = (passEncrypt P w salt (Src.reads chunkSize src)).1 := List.append_cancel_left (hout.symm.trans h2)
  refine ⟨(passEncryptIO P w salt src k).2.1, (passEncryptIO P w salt src k).2.2, ct, ?_, hout, ?_⟩
  · rw [stream_source_pass_encrypt P w salt ff src k fuel hf, ← hok]
  · intro src2 k2 fuel2 hinp hs2 hk2 hf2
    obtain ⟨res, s', k', hIO, hrun⟩ := Source.pass_decrypt_run P w' ff2 src2 k2 fuel2 hf2
    obtain ⟨h3, h4⟩ := C10_dec_partition_independence_pass P w' src2 k2 hs2 hk2 hIO
      (writes := (passDecrypt P w' src2.inp).1) (pres := (passDecrypt P w' src2.inp).2) rfl
    refine ⟨_, s', k', hrun, ?_⟩
    rw [hinp, hct] at h3 h4
    cases hpd : passDecrypt P w' (passEncrypt P w salt (Src.reads chunkSize src)).1 with | mk ws pres => ?_
    rw [hpd] at h3 h4
    rcases C02_wrong_password P hA w w' salt (Src.reads chunkSize src) hsalt hkdf hwf hle ws pres hpd with ⟨e1, e2⟩ | hc | hx
    · left
      rw [h3, e2, h4, e1]
      exact ⟨rfl, by simp⟩
    · exact Or.inr (Or.inl hc)
    · exact Or.inr (Or.inr hx)

/-- non-vacuity: hypotheses satisfiable with a key-dependent AEAD … -/
example := C02_source_wrong_password keyedPrims keyedAead_lawful [1] [2] (zeros 32) .V1 .V1 ssSrc ssSnk 9 (by decide) (by decide)
    (keyed_kdf_length _ _) ssSrc_faultFree ssSnk_benign

/-- the ciphertext the generated `pass_encrypt` writes for `ssSrc` under password `[1]` (named through the model only to have a
    closed term; the next example shows it is what the generated code writes) -/
def wpCt : Bytes := (passEncryptIO keyedPrims [1] (zeros 32) ssSrc {}).2.2.out

example : ∃ s' k', StreamSrc.encrypt.pass_encrypt keyedPrims.aead keyedPrims ssSrc {} [1] (zeros 32) .V1 9 = some (.ok, s', k') ∧
    k'.out = wpCt := by
  rw [stream_source_pass_encrypt keyedPrims [1] (zeros 32) .V1 ssSrc {} 9 (by decide)]
  have h : (passEncryptIO keyedPrims [1] (zeros 32) ssSrc {}).1 = .ok := by decide
  exact ⟨_, _, by rw [← h], rfl⟩

/-- … and on that instance the first alternative is the one that occurs: the generated `pass_decrypt` rejects the wrong
    password `[2]` with `ChaPolyDecrypt`, nothing written … -/
example : ∃ s' k', StreamSrc.decrypt.pass_decrypt keyedPrims.aead keyedPrims { inp := wpCt, script := [.data 7, .data 50] } ssSnk [2] .V1 200 =
    some (.auth, s', k') ∧ k'.out = [] := by
  rw [stream_source_pass_decrypt keyedPrims [2] .V1 _ ssSnk 200 (by decide)]
  have h : (passDecryptIO keyedPrims [2] { inp := wpCt, script := [.data 7, .data 50] } ssSnk).1 = .auth := by decide
  exact ⟨_, _, by rw [h]; rfl, by decide⟩

/-- … while the right one `[1]` is accepted and the five bytes come out -/
example : ∃ s' k', StreamSrc.decrypt.pass_decrypt keyedPrims.aead keyedPrims { inp := wpCt, script := [.data 7, .data 50] } ssSnk [1] .V1 200 =
    some (.ok, s', k') ∧ k'.out = [1, 2, 3, 4, 5] := by
  rw [stream_source_pass_decrypt keyedPrims [1] .V1 _ ssSnk 200 (by decide)]
  have h : (passDecryptIO keyedPrims [1] { inp := wpCt, script := [.data 7, .data 50] } ssSnk).1 = .ok := by decide
  exact ⟨_, _, by rw [h]; rfl, by decide⟩

/-! ## C04 — only authenticated plaintext is released: in order, in whole chunks -/

/-- **C04, chunk loop (generated `decrypt_chunks`; reduction to forgery).**  Renders C04: "at every moment during decryption
    the bytes written to the plaintext destination are a prefix of the authentic plaintext made of whole chunks that have
    already been authenticated …  Success is reported only after a chunk marked final has verified and the ciphertext ends
    immediately after it" — for the authentic stream and EVERY modified / truncated / extended variant of it, EVERY point at
    which decryption stops.  `cl` is the authentic chunk list (what the sender sealed under `key`).  Whatever bytes `s.inp` are
    presented (any source script that does not forge an end of stream: short reads, hard errors, interruptions) and whatever
    the sink does (partial writes, zero-length writes, errors, failing flushes): either the presented bytes exhibit a forgery
    under `key` (`ForgeryIn`, KestrelProofs/Strict.lean: a substring that opens under the key to something that is not one of
    the honest records), or what the generated `decrypt_chunks` appended to the sink is the first `j` authentic chunks, whole
    and in order, followed by a piece `q` of the next authentic chunk only if the sink itself failed (`IOWrite`); and
    `Ok(())` is returned only when all of `cl` has been written.
    Combines `C04_release` (KestrelProps/C04.lean; itself from `C03_chunks`) with `stream_source_dec_whole_chunks`
    (= `decLoopIO_prefix` + `stream_source_decrypt_chunks`). -/
theorem C04_source_release_chunks (A : Aead) (hA : A.Lawful) (key aad : Bytes) (hk : key.length = 32) (cs : Nat)
    (cl : List Bytes) (hne : cl ≠ []) (h32 : ∀ c ∈ cl, c.length < 2^32)
    (s : Src) (k : Snk) (fuel : Nat) (hf : s.inp.length + 1 ≤ fuel) (hs : s.noFalseEof) :
    ForgeryIn A key aad 0 cl s.inp ∨
    ∃ res s' k' j q, StreamSrc.decrypt.decrypt_chunks A s k key aad cs fuel = some (res, s', k') ∧
      k'.out = k.out ++ (cl.take j).flatten ++ q ∧ j ≤ cl.length ∧
      (q = [] ∨ (res = .ioWrite ∧ ∃ w, cl[j]? = some w ∧ q <+: w)) ∧
      (res = .ok → j = cl.length ∧ q = []) := by
  cases hpd : decryptChunks A key aad cs s.inp with | mk ws pres => ?_
  rcases C04_release A hA key aad hk cs cl hne h32 s.inp ws pres hpd with hforg | ⟨hpre, _, _, hok⟩
  · exact Or.inl hforg
  · right
    obtain ⟨res, s', k', j, q, hrun, hout, hj, hq, hres⟩ := stream_source_dec_whole_chunks A key aad cs s k fuel hf hs ws pres hpd
    obtain ⟨h1, h2, h3⟩ := Source.whole_chunks_mono hpre hout hj hq
    refine ⟨res, s', k', j, q, hrun, h1, h2, h3, fun hr => ?_⟩
    obtain ⟨hp, hjw, hq0⟩ := hres hr
    exact ⟨by rw [hjw, hok hp], hq0⟩

/-- non-vacuity: the three-chunk stream of C03 with one body byte of record 0 altered, delivered in short reads with a hard
    error at the end, into a sink whose second write reports `Ok(0)` -/
example := C04_source_release_chunks toyPrims.aead toyPrims_lawful.aead (zeros 32) tblAad (by decide) 8 tblCl (by decide) (by decide)
  { inp := toyF.set 20 1, script := [.data 7, .data 30, .errOther] } ssSnkZero 200 (by decide)
  (by intro e he; simp at he; rcases he with rfl | rfl | rfl <;> simp)

/-- … and on the unaltered stream the second alternative holds with all three chunks out -/
example : ∃ s' k', StreamSrc.decrypt.decrypt_chunks toyPrims.aead { inp := toyF, script := [.data 7, .data 30] } ssSnk (zeros 32) tblAad 8 200 =
    some (.ok, s', k') ∧ k'.out = [1, 2, 3, 4, 5, 6] := by
  rw [stream_source_decrypt_chunks _ _ _ _ _ _ 200 (by decide)]
  have h : (decryptChunksIO toyPrims.aead (zeros 32) tblAad 8 { inp := toyF, script := [.data 7, .data 30] } ssSnk).1 = .ok := by decide
  exact ⟨_, _, by rw [← h], by decide⟩

/-- **C04, release order (generated `decrypt_chunks`; reduction to forgery).**  Renders "no byte of a chunk is written before
    that chunk verifies … once an error is reported nothing further is written".  Under the hypotheses of
    `C04_source_release_chunks`: either the presented bytes exhibit a forgery, or the `write()` calls the generated
    `decrypt_chunks` made (the entries it added to the sink's log, oldest first) are grouped by authentic chunk — `segs[i]` are
    the writes of `cl[i]` — and every write of chunk `i` was issued with the source standing exactly at the end of record `i`
    of the authentic stream (`LogSegs`, KestrelProofs/DecIO.lean): the whole record had been read, and — the write coming after
    `chapoly_decrypt_noise` in the loop body — opened, and no later record had been touched; chunk `i` is complete before any
    write of chunk `i+1`; the logged sizes are all the bytes appended.
    Combines `C04_release` with `stream_source_dec_release_order` (= `decLoopIO_log` + `stream_source_decrypt_chunks`). -/
theorem C04_source_release_order (A : Aead) (hA : A.Lawful) (key aad : Bytes) (hk : key.length = 32) (cs : Nat)
    (cl : List Bytes) (hne : cl ≠ []) (h32 : ∀ c ∈ cl, c.length < 2^32)
    (s : Src) (k : Snk) (fuel : Nat) (hf : s.inp.length + 1 ≤ fuel) (hs : s.noFalseEof) :
    ForgeryIn A key aad 0 cl s.inp ∨
    ∃ (res : Res) (s' : Src) (k' : Snk) (segs : List (List WLog)),
      StreamSrc.decrypt.decrypt_chunks A s k key aad cs fuel = some (res, s', k') ∧
      k'.log = segs.flatten.reverse ++ k.log ∧ LogSegs s.pos cl segs ∧
      k'.out.length = k.out.length + (segs.flatten.map (·.n)).sum := by
  cases hpd : decryptChunks A key aad cs s.inp with | mk ws pres => ?_
  rcases C04_release A hA key aad hk cs cl hne h32 s.inp ws pres hpd with hforg | ⟨hpre, _, _, _⟩
  · exact Or.inl hforg
  · right
    obtain ⟨res, s', k', segs, hrun, hlog, hsegs, hlen⟩ :=
      stream_source_dec_release_order A hA key aad hk cs s k fuel hf hs ws pres hpd
    exact ⟨res, s', k', segs, hrun, hlog, Source.LogSegs_of_prefix ws cl segs s.pos hpre hsegs, hlen⟩

example := C04_source_release_order toyPrims.aead toyPrims_lawful.aead (zeros 32) tblAad (by decide) 8 tblCl (by decide) (by decide)
  { inp := toyF.set 20 1, script := [.data 7, .data 30, .errOther] } ssSnkZero 200 (by decide)
  (by intro e he; simp at he; rcases he with rfl | rfl | rfl <;> simp)

/-- **C04, password-mode file (generated `pass_encrypt` / `pass_decrypt`; reduction to forgery).**  The authentic file is what
    the generated `pass_encrypt` wrote (`ct`; any fault-free source, any benign sink); its chunk list is
    `cl = fileChunks (Src.reads CHUNK_SIZE src)`, whose concatenation is the plaintext.  Present ANY bytes that keep the
    36-byte header of `ct` (magic, salt) — everything after it arbitrary: altered, truncated, extended, spliced — through
    any source script that does not forge an end of stream, to the generated `pass_decrypt` with ANY sink script.  Then
    either the bytes after the header exhibit a forgery under the file key `P.kdf w salt`, or the output is the first `j`
    authentic chunks, whole and in order, plus a piece of the next one only if the sink failed (`IOWrite`); `Ok(())` is
    returned only with the complete plaintext written.
    Combines `C04_release_pass` and `C04_whole_chunks_pass` (KestrelProps/C04.lean, C10dec.lean),
    `C10_enc_partition_independence_pass`, `C02_roundtrip_io` with `stream_source_pass_encrypt`, `stream_source_pass_decrypt`. -/
theorem C04_source_release_pass (P : Prims) (hA : P.aead.Lawful) (w salt : Bytes) (ff ff2 : StreamSrc.PassFileFormat)
    (src : Src) (k : Snk) (fuel : Nat) (hf : src.inp.length + src.script.length + 2 ≤ fuel)
    (hsalt : salt.length = 32) (hkdf : (P.kdf w salt).length = 32) (hs : src.faultFree) (hk : k.benign) :
    ∃ src' k' ct, StreamSrc.encrypt.pass_encrypt P.aead P src k w salt ff fuel = some (.ok, src', k') ∧
      k'.out = k.out ++ ct ∧ (fileChunks (Src.reads StreamSrc.CHUNK_SIZE src)).flatten = src.inp ∧
      ∀ (src2 : Src) (k2 : Snk) (fuel2 : Nat), src2.inp.take 36 = ct.take 36 → src2.noFalseEof → src2.inp.length + 1 ≤ fuel2 →
        ForgeryIn P.aead (P.kdf w salt) StreamSrc.encrypt.PASS_FILE_MAGIC 0 (fileChunks (Src.reads StreamSrc.CHUNK_SIZE src))
          (src2.inp.drop 36) ∨
        ∃ res src2' k2' j q, StreamSrc.decrypt.pass_decrypt P.aead P src2 k2 w ff2 fuel2 = some (res, src2', k2') ∧
          k2'.out = k2.out ++ ((fileChunks (Src.reads StreamSrc.CHUNK_SIZE src)).take j).flatten ++ q ∧
          j ≤ (fileChunks (Src.reads StreamSrc.CHUNK_SIZE src)).length ∧
          (q = [] ∨ (res = .ioWrite ∧ ∃ c, (fileChunks (Src.reads StreamSrc.CHUNK_SIZE src))[j]? = some c ∧ q <+: c)) ∧
          (res = .ok → j = (fileChunks (Src.reads StreamSrc.CHUNK_SIZE src)).length ∧ q = [] ∧ k2'.out = k2.out ++ src.inp) := by
  obtain ⟨hok, ct, hout, _⟩ := C02_roundtrip_io P hA w salt src k hsalt hkdf hs hk
  obtain ⟨_, h2, hwf, hle, hflat⟩ := C10_enc_partition_independence_pass P w salt src k hs hk
  have hct : ct = (passEncrypt P w salt (Src.reads chunkSize src)).1 := List.append_cancel_left (hout.symm.trans h2)
  have hjoin : (fileChunks (Src.reads chunkSize src)).flatten = src.inp := by rw [fileChunks_join _ hwf, hflat]
  refine ⟨(passEncryptIO P w salt src k).2.1, (passEncryptIO P w salt src k).2.2, ct, ?_, hout, hjoin, ?_⟩
  · rw [stream_source_pass_encrypt P w salt ff src k fuel hf, ← hok]
  · intro src2 k2 fuel2 hhdr hs2 hf2
    obtain ⟨res, s', k', hIO, hrun⟩ := Source.pass_decrypt_run P w ff2 src2 k2 fuel2 hf2
    cases hpd : passDecrypt P w src2.inp with | mk ws pres => ?_
    rw [hct] at hhdr
    rcases C04_release_pass P hA w salt _ hsalt hkdf hwf hle src2.inp hhdr ws pres hpd with hforg | ⟨hpre, hok2⟩
    · exact Or.inl hforg
    · right
      obtain ⟨j, q, h1, hj, hq, hres⟩ := C04_whole_chunks_pass P w src2 k2 hs2 hIO hpd
      obtain ⟨g1, g2, g3⟩ := Source.whole_chunks_mono hpre h1 hj hq
      refine ⟨_, s', k', j, q, hrun, g1, g2, ?_, fun hr => ?_⟩
      · rcases g3 with g | ⟨g, g'⟩
        · exact Or.inl g
        · exact Or.inr ⟨Source.collapseFormat_eq_of g (by decide), g'⟩
      · obtain ⟨hp, hjw, hq0⟩ := hres ((Source.collapseFormat_ok_iff res).mp hr)
        obtain ⟨hws, _⟩ := hok2 hp
        refine ⟨by rw [hjw, hws]; rfl, hq0, ?_⟩
        rw [g1, hq0, List.append_nil, hjw, ← hws, List.take_length, hws, hjoin]

/-- non-vacuity (toy primitives, the empty password, short reads, partial and interrupted writes on the encrypt side) -/
example := C04_source_release_pass toyPrims toyPrims_lawful.aead [] (zeros 32) .V1 .V1 ssSrc ssSnk 9 (by decide) (by decide)
  (toy_kdf_length _ _) ssSrc_faultFree ssSnk_benign

/-- **C04, key-mode file (generated `key_encrypt` / `key_decrypt`; reduction to forgery).**  As `C04_source_release_pass`, for
    the 132-byte header (magic, Noise handshake message) and the file key `P.hkdfFile pk hh`, `hh` being the handshake hash of
    this run (`Noise.writeMessage` is the reading of the external `noise_encrypt`, KestrelModel/RsIO.lean); if `key_decrypt`
    returns `Ok(S)` then `S` is the sender's public key `spk`.  Hypotheses as in `C04_release_key`.
    Combines `C04_release_key`, `C04_whole_chunks_key`, `C10_enc_partition_independence`, `C01_roundtrip_io` with
    `stream_source_key_encrypt`, `stream_source_key_decrypt`. -/
theorem C04_source_release_key (P : Prims) (hP : P.Lawful) (rand : Nat → Bytes) (s spk r rpk e epk pk d1 d2 msg hh : Bytes)
    (ff ff2 : StreamSrc.AsymFileFormat) (src : Src) (k : Snk) (fuel : Nat)
    (hf : src.inp.length + src.script.length + 2 ≤ fuel)
    (hE : epk.length = 32) (hS : spk.length = 32) (hK : pk.length = 32)
    (h1 : P.dh e rpk = some d1) (h2 : P.dh s rpk = some d2) (h1' : P.dh r epk = some d1) (h2' : P.dh r spk = some d2)
    (hw : Noise.writeMessage P StreamSrc.encrypt.PROLOGUE s spk rpk e epk pk = .ok (msg, hh))
    (hs : src.faultFree) (hk : k.benign) :
    ∃ src' k' ct,
      StreamSrc.encrypt.key_encrypt P.aead P rand src k s spk rpk (some e) (some epk) (some pk) ff fuel = some (.ok, src', k') ∧
      k'.out = k.out ++ ct ∧ (fileChunks (Src.reads StreamSrc.CHUNK_SIZE src)).flatten = src.inp ∧
      ∀ (src2 : Src) (k2 : Snk) (fuel2 : Nat), src2.inp.take 132 = ct.take 132 → src2.noFalseEof → src2.inp.length + 1 ≤ fuel2 →
        ForgeryIn P.aead (P.hkdfFile pk hh) [] 0 (fileChunks (Src.reads StreamSrc.CHUNK_SIZE src)) (src2.inp.drop 132) ∨
        ∃ res src2' k2' j q, StreamSrc.decrypt.key_decrypt P.aead P src2 k2 r rpk ff2 fuel2 = some (res, src2', k2') ∧
          k2'.out = k2.out ++ ((fileChunks (Src.reads StreamSrc.CHUNK_SIZE src)).take j).flatten ++ q ∧
          j ≤ (fileChunks (Src.reads StreamSrc.CHUNK_SIZE src)).length ∧
          (q = [] ∨ (res = .error .ioWrite ∧ ∃ c, (fileChunks (Src.reads StreamSrc.CHUNK_SIZE src))[j]? = some c ∧ q <+: c)) ∧
          (∀ S, res = .ok S → S = spk ∧ j = (fileChunks (Src.reads StreamSrc.CHUNK_SIZE src)).length ∧ q = [] ∧
            k2'.out = k2.out ++ src.inp) := by
  have hdh : DhAgree P s spk r rpk e epk := ⟨⟨d1, h1, h1'⟩, ⟨d2, h2, h2'⟩⟩
  obtain ⟨hok, ct, hout, _⟩ := C01_roundtrip_io P hP s spk r rpk e epk pk src k hE hS hK hdh hs hk
  obtain ⟨_, hc2, hwf, hle, hflat⟩ := C10_enc_partition_independence P s spk rpk e epk pk src k hs hk
  have hct : ct = (keyEncrypt P s spk rpk e epk pk (Src.reads chunkSize src)).1 := List.append_cancel_left (hout.symm.trans hc2)
  have hjoin : (fileChunks (Src.reads chunkSize src)).flatten = src.inp := by rw [fileChunks_join _ hwf, hflat]
  refine ⟨(keyEncryptIO P s spk rpk e epk pk src k).2.1, (keyEncryptIO P s spk rpk e epk pk src k).2.2, ct, ?_, hout, hjoin, ?_⟩
  · rw [stream_source_key_encrypt P rand s spk rpk e epk pk ff src k fuel hf, ← hok]
  · intro src2 k2 fuel2 hhdr hs2 hf2
    obtain ⟨res, s', k', sender, hIO, hrun, _⟩ := Source.key_decrypt_run P r rpk ff2 src2 k2 fuel2 hf2
    cases hpd : keyDecrypt P r rpk src2.inp with | mk ws pr => ?_
    obtain ⟨pres, psender⟩ := pr
    rw [hct] at hhdr
    rcases C04_release_key P hP s spk r rpk e epk pk d1 d2 msg hh _ hE hS hK h1 h2 h1' h2' hwf hle hw src2.inp hhdr ws pres psender hpd
      with hforg | ⟨hpre, hok2⟩
    · exact Or.inl hforg
    · right
      obtain ⟨j, q, g0, hj, hq, hres⟩ := C04_whole_chunks_key P r rpk src2 k2 hs2 hIO hpd
      obtain ⟨g1, g2, g3⟩ := Source.whole_chunks_mono hpre g0 hj hq
      refine ⟨_, s', k', j, q, hrun, g1, g2, ?_, fun S hS' => ?_⟩
      · rcases g3 with g | ⟨g, g'⟩
        · exact Or.inl g
        · refine Or.inr ⟨?_, g'⟩
          subst g
          have hsn : sender = none := by
            cases hsd : sender with
            | none => rfl
            | some x =>
              have := (Source.keyDecryptIO_sender_iff P r rpk src2 k2).mp (by rw [hIO]; simp [hsd])
              rw [hIO] at this; cases this
          rw [hsn]; rfl
      · have hsd : sender = some S := (Source.keyResult_ok_iff res sender S).mp hS'
        have hrok : res = .ok := by
          have := (Source.keyDecryptIO_sender_iff P r rpk src2 k2).mp (by rw [hIO]; simp [hsd])
          rw [hIO] at this; exact this
        obtain ⟨hp, hsnd, hjw, hq0⟩ := hres hrok
        obtain ⟨hws, _, hps⟩ := hok2 hp
        refine ⟨?_, by rw [hjw, hws]; rfl, hq0, ?_⟩
        · rw [hsd, hps] at hsnd; exact (Option.some.inj hsnd)
        · rw [g1, hq0, List.append_nil, hjw, ← hws, List.take_length, hws, hjoin]

/-- non-vacuity: the toy instance of C01 -/
example : True := by
  obtain ⟨d1, h1, h1'⟩ := (toy_dhAgree (zeros 32) (List.replicate 32 1) (List.replicate 32 2)).es
  obtain ⟨d2, h2, h2'⟩ := (toy_dhAgree (zeros 32) (List.replicate 32 1) (List.replicate 32 2)).ss
  have hw := Noise.writeMessage_ok_named toyPrims encPrologue (zeros 32) (zeros 32) (List.replicate 32 1)
    (List.replicate 32 2) (List.replicate 32 2) (List.replicate 32 7) d1 d2 h1 h2
  have := C04_source_release_key toyPrims toyPrims_lawful (fun n => zeros n) _ _ _ _ _ _ _ d1 d2 _ _ .V1 .V1 ssSrc ssSnk 9 (by decide)
    (List.length_replicate ..) (List.length_replicate ..) (List.length_replicate ..) h1 h2 h1' h2' hw ssSrc_faultFree ssSnk_benign
  trivial

/-! ## C10 — every I/O failure surfaces; partial output is a prefix; interruptions are retried

  Chunk loops: `stream_source_enc_failures_surface`, `stream_source_enc_prefix`, `stream_source_enc_faultFree`,
  `stream_source_dec_whole_chunks`, `stream_source_dec_ioWrite` (KestrelProps/StreamSrc.lean) are already statements about the
  generated `encrypt_chunks` / `decrypt_chunks`.  Here: the four file-level functions.

  Decrypt side: the model theorems compare the I/O run with the pure function on the complete byte string.  Here the point of
  comparison is the generated code itself on a REFERENCE presentation of the same bytes: any fault-free source `src0` and
  any benign sink `k0` (e.g. the one-shot source `⟨F, [], 0, 0⟩` and the sink `{}`). -/

/-- **C10, `key_encrypt`: every failure surfaces, and only failures do (every script).**  Renders C10 (encrypt side): the
    generated `key_encrypt` ends in one of five ways; `Other` exactly when a DH of the handshake is all-zero; `IORead` only if
    the source script contains an error or an interruption; `IOWrite` only if the sink is not benign (hard error, zero-length
    accept, failing flush); `UnexpectedData` only if the source returned 0 bytes and then data.
    Combines `C10_enc_error_side` (KestrelProps/C10enc.lean) with `stream_source_key_encrypt`. -/
theorem C10_source_enc_failures_key (P : Prims) (rand : Nat → Bytes) (s spk rs e epk pk : Bytes) (ff : StreamSrc.AsymFileFormat)
    (src : Src) (k : Snk) (fuel : Nat) (hf : src.inp.length + src.script.length + 2 ≤ fuel) :
    ∃ res src' k', StreamSrc.encrypt.key_encrypt P.aead P rand src k s spk rs (some e) (some epk) (some pk) ff fuel = some (res, src', k') ∧
      (res = .ok ∨ res = .ioRead ∨ res = .ioWrite ∨ res = .unexpectedData ∨ res = .other) ∧
      (res = .other ↔ (P.dh e rs = none ∨ P.dh s rs = none)) ∧
      (res = .ioRead → Src.hasErr src ∧ ¬ Src.faultFree src) ∧
      (res = .ioWrite → ¬ Snk.benign k ∧ ¬ Snk.faultFree k) ∧
      (res = .unexpectedData → ¬ Src.faultFree src ∧
        ∃ r0 s1 r s2, src.read StreamSrc.CHUNK_SIZE = (.got r0, s1) ∧ r0.length = 0 ∧
          s1.read StreamSrc.CHUNK_SIZE = (.got r, s2) ∧ r.length ≠ 0) := by
  rw [stream_source_key_encrypt P rand s spk rs e epk pk ff src k fuel hf]
  exact ⟨_, _, _, rfl, C10_enc_error_side P s spk rs e epk pk src k⟩

/-- no hypothesis beyond the fuel bound; a run where the failure is a sink's `Ok(0)` -/
example := C10_source_enc_failures_key toyPrims (fun n => zeros n) (zeros 32) (zeros 32) (List.replicate 32 1) (List.replicate 32 2)
  (List.replicate 32 2) (List.replicate 32 7) .V1 ssSrcInt ssSnkZero 10 (by decide)

/-- **C10, `pass_encrypt`: every failure surfaces, and only failures do (every script).**
    Combines `C10_enc_error_side_pass` with `stream_source_pass_encrypt`. -/
theorem C10_source_enc_failures_pass (P : Prims) (pw salt : Bytes) (ff : StreamSrc.PassFileFormat)
    (src : Src) (k : Snk) (fuel : Nat) (hf : src.inp.length + src.script.length + 2 ≤ fuel) :
    ∃ res src' k', StreamSrc.encrypt.pass_encrypt P.aead P src k pw salt ff fuel = some (res, src', k') ∧
      (res = .ok ∨ res = .ioRead ∨ res = .ioWrite ∨ res = .unexpectedData) ∧
      (res = .ioRead → Src.hasErr src ∧ ¬ Src.faultFree src) ∧
      (res = .ioWrite → ¬ Snk.benign k ∧ ¬ Snk.faultFree k) ∧
      (res = .unexpectedData → ¬ Src.faultFree src ∧
        ∃ r0 s1 r s2, src.read StreamSrc.CHUNK_SIZE = (.got r0, s1) ∧ r0.length = 0 ∧
          s1.read StreamSrc.CHUNK_SIZE = (.got r, s2) ∧ r.length ≠ 0) := by
  rw [stream_source_pass_encrypt P pw salt ff src k fuel hf]
  exact ⟨_, _, _, rfl, C10_enc_error_side_pass P pw salt src k⟩

example := C10_source_enc_failures_pass toyPrims [1] (zeros 32) .V1 ssSrcInt ssSnkZero 10 (by decide)

/-- **C10, `key_encrypt`: what was written is a prefix of the fault-free output (every script).**  Whatever the scripts do,
    what the generated `key_encrypt` appended to the sink is a prefix of: magic, handshake message, and the records of the
    source's read schedule (`encryptCalls`: one AEAD invocation per record, KestrelProofs/EncIO.lean) under the file key — and
    all of it if the call returns `Ok(())`.  A failing call never emits a byte that a fault-free run over the same reads
    would not emit.  Combines `C10_enc_prefix`, `C07_nonces` with `stream_source_key_encrypt`. -/
theorem C10_source_enc_prefix_key (P : Prims) (rand : Nat → Bytes) (s spk rs e epk pk msg hh : Bytes) (ff : StreamSrc.AsymFileFormat)
    (src : Src) (k : Snk) (fuel : Nat) (hf : src.inp.length + src.script.length + 2 ≤ fuel)
    (hw : Noise.writeMessage P StreamSrc.encrypt.PROLOGUE s spk rs e epk pk = .ok (msg, hh)) :
    ∃ res src' k' p, StreamSrc.encrypt.key_encrypt P.aead P rand src k s spk rs (some e) (some epk) (some pk) ff fuel = some (res, src', k') ∧
      k'.out = k.out ++ p ∧
      p <+: StreamSrc.encrypt.PROLOGUE ++ msg ++
        ((encryptCalls (Src.reads StreamSrc.CHUNK_SIZE src)).map (recordOf P.aead (P.hkdfFile pk hh) [])).flatten ∧
      (res = .ok → p = StreamSrc.encrypt.PROLOGUE ++ msg ++
        ((encryptCalls (Src.reads StreamSrc.CHUNK_SIZE src)).map (recordOf P.aead (P.hkdfFile pk hh) [])).flatten) := by
  rw [stream_source_key_encrypt P rand s spk rs e epk pk ff src k fuel hf]
  obtain ⟨p, h1, h2, h3⟩ := C10_enc_prefix P s spk rs e epk pk src k
  have hk : (keyEncrypt P s spk rs e epk pk (Src.reads chunkSize src)).1 =
      encPrologue ++ msg ++ ((encryptCalls (Src.reads chunkSize src)).map (recordOf P.aead (P.hkdfFile pk hh) [])).flatten := by
    unfold keyEncrypt
    rw [show Noise.writeMessage P encPrologue s spk rs e epk pk = .ok (msg, hh) from hw]
    simp only []
    rw [(C07_nonces P.aead (P.hkdfFile pk hh) [] (Src.reads chunkSize src)).1]
  rw [hk] at h2 h3
  exact ⟨_, _, _, p, rfl, h1, h2, h3⟩

/-- the hypothesis is satisfiable; the scripts are faulty (interrupted read, partial / interrupted writes) -/
example : True := by
  obtain ⟨d1, h1, _⟩ := (toy_dhAgree (zeros 32) (List.replicate 32 1) (List.replicate 32 2)).es
  obtain ⟨d2, h2, _⟩ := (toy_dhAgree (zeros 32) (List.replicate 32 1) (List.replicate 32 2)).ss
  have hw := Noise.writeMessage_ok_named toyPrims encPrologue (zeros 32) (zeros 32) (List.replicate 32 1)
    (List.replicate 32 2) (List.replicate 32 2) (List.replicate 32 7) d1 d2 h1 h2
  have := C10_source_enc_prefix_key toyPrims (fun n => zeros n) _ _ _ _ _ _ _ _ .V1 ssSrcInt ssSnk 10 (by decide) hw
  trivial

/-- **C10, `pass_encrypt`: what was written is a prefix of the fault-free output (every script).**
    Combines `C10_enc_prefix_pass`, `C07_nonces` with `stream_source_pass_encrypt`. -/
theorem C10_source_enc_prefix_pass (P : Prims) (pw salt : Bytes) (ff : StreamSrc.PassFileFormat)
    (src : Src) (k : Snk) (fuel : Nat) (hf : src.inp.length + src.script.length + 2 ≤ fuel) :
    ∃ res src' k' p, StreamSrc.encrypt.pass_encrypt P.aead P src k pw salt ff fuel = some (res, src', k') ∧
      k'.out = k.out ++ p ∧
      p <+: StreamSrc.encrypt.PASS_FILE_MAGIC ++ salt ++
        ((encryptCalls (Src.reads StreamSrc.CHUNK_SIZE src)).map
          (recordOf P.aead (P.kdf pw salt) StreamSrc.encrypt.PASS_FILE_MAGIC)).flatten ∧
      (res = .ok → p = StreamSrc.encrypt.PASS_FILE_MAGIC ++ salt ++
        ((encryptCalls (Src.reads StreamSrc.CHUNK_SIZE src)).map
          (recordOf P.aead (P.kdf pw salt) StreamSrc.encrypt.PASS_FILE_MAGIC)).flatten) := by
  rw [stream_source_pass_encrypt P pw salt ff src k fuel hf]
  obtain ⟨p, h1, h2, h3⟩ := C10_enc_prefix_pass P pw salt src k
  have hk : (passEncrypt P pw salt (Src.reads chunkSize src)).1 =
      encPassMagic ++ salt ++ ((encryptCalls (Src.reads chunkSize src)).map (recordOf P.aead (P.kdf pw salt) encPassMagic)).flatten := by
    unfold passEncrypt
    simp only []
    rw [(C07_nonces P.aead (P.kdf pw salt) encPassMagic (Src.reads chunkSize src)).1]
  rw [hk] at h2 h3
  exact ⟨_, _, _, p, rfl, h1, h2, h3⟩

example := C10_source_enc_prefix_pass toyPrims [1] (zeros 32) .V1 ssSrcInt ssSnkZero 10 (by decide)

/-- **C10, `key_decrypt`: partition independence; interrupted writes are retried.**  Renders C10 (decrypt side, conforming
    scripts): any two presentations of the same bytes — each any partition into short reads, each into any sink that takes
    partial writes and is interrupted — make the generated `key_decrypt` return the same `Result` (the same sender key, or the
    same error class) and append the same bytes.
    Combines `C10_dec_partition_independence_key` (twice, through the pure run) with `stream_source_key_decrypt`. -/
theorem C10_source_dec_partition_independence_key (P : Prims) (r rpk : Bytes) (ff0 ff : StreamSrc.AsymFileFormat)
    (src0 : Src) (k0 : Snk) (fuel0 : Nat) (hf0 : src0.inp.length + 1 ≤ fuel0) (hs0 : src0.faultFree) (hk0 : k0.benign)
    (src : Src) (k : Snk) (fuel : Nat) (hf : src.inp.length + 1 ≤ fuel) (hs : src.faultFree) (hk : k.benign)
    (hinp : src.inp = src0.inp) :
    ∃ res w s0' k0' s' k', StreamSrc.decrypt.key_decrypt P.aead P src0 k0 r rpk ff0 fuel0 = some (res, s0', k0') ∧
      StreamSrc.decrypt.key_decrypt P.aead P src k r rpk ff fuel = some (res, s', k') ∧
      k0'.out = k0.out ++ w ∧ k'.out = k.out ++ w := by
  obtain ⟨s0', k0', e0, o0⟩ := Source.key_decrypt_faultFree P r rpk ff0 src0 k0 fuel0 hf0 hs0 hk0
  obtain ⟨s', k', e1, o1⟩ := Source.key_decrypt_faultFree P r rpk ff src k fuel hf hs hk
  rw [hinp] at e1 o1
  exact ⟨_, _, s0', k0', s', k', e0, e1, o0, o1⟩

/-- hypotheses satisfiable: the same bytes one-shot into an unscripted sink, and in short reads into a sink with partial and
    interrupted writes -/
example (F : Bytes) := C10_source_dec_partition_independence_key toyPrims (zeros 32) (zeros 32) .V1 .V1
  ⟨F, [], 0, 0⟩ {} (F.length + 1) (Nat.le_refl _) (Source.oneShot_faultFree F) Source.emptySnk_benign
  (C10decEx.shortSrc F) C10decEx.snk (F.length + 1) (Nat.le_refl _) (C10decEx.shortSrc_faultFree F) C10decEx.snk_benign rfl

/-- **C10, `pass_decrypt`: partition independence; interrupted writes are retried.**
    Combines `C10_dec_partition_independence_pass` (twice) with `stream_source_pass_decrypt`. -/
theorem C10_source_dec_partition_independence_pass (P : Prims) (pw : Bytes) (ff0 ff : StreamSrc.PassFileFormat)
    (src0 : Src) (k0 : Snk) (fuel0 : Nat) (hf0 : src0.inp.length + 1 ≤ fuel0) (hs0 : src0.faultFree) (hk0 : k0.benign)
    (src : Src) (k : Snk) (fuel : Nat) (hf : src.inp.length + 1 ≤ fuel) (hs : src.faultFree) (hk : k.benign)
    (hinp : src.inp = src0.inp) :
    ∃ res w s0' k0' s' k', StreamSrc.decrypt.pass_decrypt P.aead P src0 k0 pw ff0 fuel0 = some (res, s0', k0') ∧
      StreamSrc.decrypt.pass_decrypt P.aead P src k pw ff fuel = some (res, s', k') ∧
      k0'.out = k0.out ++ w ∧ k'.out = k.out ++ w := by
  obtain ⟨s0', k0', e0, o0⟩ := Source.pass_decrypt_faultFree P pw ff0 src0 k0 fuel0 hf0 hs0 hk0
  obtain ⟨s', k', e1, o1⟩ := Source.pass_decrypt_faultFree P pw ff src k fuel hf hs hk
  rw [hinp] at e1 o1
  exact ⟨_, _, s0', k0', s', k', e0, e1, o0, o1⟩

example := C10_source_dec_partition_independence_pass toyPrims C10decEx.pw .V1 .V1
  ⟨C10decEx.file, [], 0, 0⟩ {} 200 (by decide) (Source.oneShot_faultFree _) Source.emptySnk_benign
  C10decEx.ffSrc C10decEx.snk 200 (by decide) C10decEx.ffSrc_faultFree C10decEx.snk_benign rfl

/-- **C10, `key_decrypt`: error side (EVERY script on the run under test).**  `src0` / `k0`: a reference presentation of the same
    bytes (fault-free source, benign sink).  The generated `key_decrypt` reports `IOWrite` only if its sink misbehaved; `IORead`
    only if its source misbehaved or the bytes themselves are truncated (the reference run reports `IORead` too); and every
    other error it reports is the error of the reference run — never an artefact of the I/O layer.
    Combines `C10_dec_error_side_key`, `C10_dec_partition_independence_key` with `stream_source_key_decrypt`. -/
theorem C10_source_dec_failures_key (P : Prims) (r rpk : Bytes) (ff0 ff : StreamSrc.AsymFileFormat)
    (src0 : Src) (k0 : Snk) (fuel0 : Nat) (hf0 : src0.inp.length + 1 ≤ fuel0) (hs0 : src0.faultFree) (hk0 : k0.benign)
    (src : Src) (k : Snk) (fuel : Nat) (hf : src.inp.length + 1 ≤ fuel) (hinp : src.inp = src0.inp) :
    ∃ res0 s0' k0' res s' k', StreamSrc.decrypt.key_decrypt P.aead P src0 k0 r rpk ff0 fuel0 = some (res0, s0', k0') ∧
      StreamSrc.decrypt.key_decrypt P.aead P src k r rpk ff fuel = some (res, s', k') ∧
      (res = .error .ioWrite → ¬ k.faultFree) ∧
      (res = .error .ioRead → ¬ src.faultFree ∨ res0 = .error .ioRead) ∧
      (∀ e, res = .error e → e ≠ .ioWrite → e ≠ .ioRead → res0 = .error e) := by
  obtain ⟨s0', k0', e0, _⟩ := Source.key_decrypt_faultFree P r rpk ff0 src0 k0 fuel0 hf0 hs0 hk0
  obtain ⟨mres, s', k', sender, hIO, hrun, hiff⟩ := Source.key_decrypt_run P r rpk ff src k fuel hf
  obtain ⟨g1, g2, g3⟩ := C10_dec_error_side_key P r rpk src k hIO
    (writes := (keyDecrypt P r rpk src.inp).1) (pres := (keyDecrypt P r rpk src.inp).2.1) (psender := (keyDecrypt P r rpk src.inp).2.2) rfl
  rw [← hinp] at e0
  refine ⟨_, s0', k0', _, s', k', e0, hrun, ?_, ?_, ?_⟩
  · intro h
    obtain ⟨_, h'⟩ := (Source.keyResult_error_iff _ _ _).mp h
    exact g1 ((Source.collapseFormat_eq_iff (by decide) (by decide)).mp h'.symm)
  · intro h
    obtain ⟨_, h'⟩ := (Source.keyResult_error_iff _ _ _).mp h
    rcases g2 ((Source.collapseFormat_eq_iff (by decide) (by decide)).mp h'.symm) with g | g
    · exact Or.inl g
    · right
      rw [Source.keyDecrypt_sender_none P r rpk src.inp (by rw [g]; decide), g]; rfl
  · intro e h hw hr
    obtain ⟨hsn, h'⟩ := (Source.keyResult_error_iff _ _ _).mp h
    have hnok : mres ≠ .ok := fun hc => (hiff.mpr hc) hsn
    have hnw : mres ≠ .ioWrite := fun hc => hw (by rw [h', hc]; rfl)
    have hnr : mres ≠ .ioRead := fun hc => hr (by rw [h', hc]; rfl)
    have hp := g3 hnok hnw hnr
    rw [Source.keyDecrypt_sender_none P r rpk src.inp (by rw [hp]; exact hnok), hp, h']; rfl

/-- no hypothesis on the scripts of the run under test: a reader that forges an end of stream, a sink that fails hard -/
example (F : Bytes) := C10_source_dec_failures_key toyPrims (zeros 32) (zeros 32) .V1 .V1
  ⟨F, [], 0, 0⟩ {} (F.length + 1) (Nat.le_refl _) (Source.oneShot_faultFree F) Source.emptySnk_benign
  ⟨F, [.data 4, .data 0, .errOther], 0, 0⟩ C10decEx.badSnk (F.length + 1) (Nat.le_refl _) rfl

/-- **C10, `pass_decrypt`: error side (EVERY script on the run under test).**
    Combines `C10_dec_error_side_pass`, `C10_dec_partition_independence_pass` with `stream_source_pass_decrypt`. -/
theorem C10_source_dec_failures_pass (P : Prims) (pw : Bytes) (ff0 ff : StreamSrc.PassFileFormat)
    (src0 : Src) (k0 : Snk) (fuel0 : Nat) (hf0 : src0.inp.length + 1 ≤ fuel0) (hs0 : src0.faultFree) (hk0 : k0.benign)
    (src : Src) (k : Snk) (fuel : Nat) (hf : src.inp.length + 1 ≤ fuel) (hinp : src.inp = src0.inp) :
    ∃ res0 s0' k0' res s' k', StreamSrc.decrypt.pass_decrypt P.aead P src0 k0 pw ff0 fuel0 = some (res0, s0', k0') ∧
      StreamSrc.decrypt.pass_decrypt P.aead P src k pw ff fuel = some (res, s', k') ∧
      (res = .ioWrite → ¬ k.faultFree) ∧
      (res = .ioRead → ¬ src.faultFree ∨ res0 = .ioRead) ∧
      (res ≠ .ok → res ≠ .ioWrite → res ≠ .ioRead → res0 = res) := by
  obtain ⟨s0', k0', e0, _⟩ := Source.pass_decrypt_faultFree P pw ff0 src0 k0 fuel0 hf0 hs0 hk0
  obtain ⟨mres, s', k', hIO, hrun⟩ := Source.pass_decrypt_run P pw ff src k fuel hf
  obtain ⟨g1, g2, g3⟩ := C10_dec_error_side_pass P pw src k hIO
    (writes := (passDecrypt P pw src.inp).1) (pres := (passDecrypt P pw src.inp).2) rfl
  rw [← hinp] at e0
  refine ⟨_, s0', k0', _, s', k', e0, hrun, ?_, ?_, ?_⟩
  · intro h
    exact g1 ((Source.collapseFormat_eq_iff (by decide) (by decide)).mp h)
  · intro h
    rcases g2 ((Source.collapseFormat_eq_iff (by decide) (by decide)).mp h) with g | g
    · exact Or.inl g
    · right; rw [g]; rfl
  · intro hok hw hr
    have hnok : mres ≠ .ok := fun hc => hok (by rw [hc]; rfl)
    have hnw : mres ≠ .ioWrite := fun hc => hw (by rw [hc]; rfl)
    have hnr : mres ≠ .ioRead := fun hc => hr (by rw [hc]; rfl)
    rw [g3 hnok hnw hnr]

example := C10_source_dec_failures_pass toyPrims C10decEx.pw .V1 .V1
  ⟨C10decEx.falseEofSrc.inp, [], 0, 0⟩ {} 200 (by decide) (Source.oneShot_faultFree _) Source.emptySnk_benign
  C10decEx.falseEofSrc C10decEx.badSnk 200 (by decide) rfl

/-- **C10, `key_decrypt`: the output is a prefix of the fault-free output (every sink script; sources that do not forge an end of
    stream).**  What the generated `key_decrypt` appended to its sink is a byte prefix of what the reference run appends, and if it
    returns `Ok(S)` then the reference run returns `Ok(S)` too and the two outputs are equal.
    Combines `C10_dec_prefix_key`, `C10_dec_partition_independence_key` with `stream_source_key_decrypt`. -/
theorem C10_source_dec_prefix_key (P : Prims) (r rpk : Bytes) (ff0 ff : StreamSrc.AsymFileFormat)
    (src0 : Src) (k0 : Snk) (fuel0 : Nat) (hf0 : src0.inp.length + 1 ≤ fuel0) (hs0 : src0.faultFree) (hk0 : k0.benign)
    (src : Src) (k : Snk) (fuel : Nat) (hf : src.inp.length + 1 ≤ fuel) (hs : src.noFalseEof) (hinp : src.inp = src0.inp) :
    ∃ res0 s0' k0' w0 res s' k' w, StreamSrc.decrypt.key_decrypt P.aead P src0 k0 r rpk ff0 fuel0 = some (res0, s0', k0') ∧
      StreamSrc.decrypt.key_decrypt P.aead P src k r rpk ff fuel = some (res, s', k') ∧
      k0'.out = k0.out ++ w0 ∧ k'.out = k.out ++ w ∧ w <+: w0 ∧
      (∀ S, res = .ok S → res0 = .ok S ∧ w = w0) := by
  obtain ⟨s0', k0', e0, o0⟩ := Source.key_decrypt_faultFree P r rpk ff0 src0 k0 fuel0 hf0 hs0 hk0
  obtain ⟨mres, s', k', sender, hIO, hrun, hiff⟩ := Source.key_decrypt_run P r rpk ff src k fuel hf
  obtain ⟨p, g1, g2, g3⟩ := C10_dec_prefix_key P r rpk src k hs hIO
    (writes := (keyDecrypt P r rpk src.inp).1) (pres := (keyDecrypt P r rpk src.inp).2.1) (psender := (keyDecrypt P r rpk src.inp).2.2) rfl
  rw [← hinp] at e0 o0
  refine ⟨_, s0', k0', _, _, s', k', p, e0, hrun, o0, g1, g2, fun S hS => ?_⟩
  have hsd : sender = some S := (Source.keyResult_ok_iff _ _ _).mp hS
  have hok : mres = .ok := hiff.mp (by rw [hsd]; simp)
  obtain ⟨h1, _, h3⟩ := g3 hok
  exact ⟨(Source.keyResult_ok_iff _ _ _).mpr (by rw [← h3, hsd]), h1⟩

example (F : Bytes) := C10_source_dec_prefix_key toyPrims (zeros 32) (zeros 32) .V1 .V1
  ⟨F, [], 0, 0⟩ {} (F.length + 1) (Nat.le_refl _) (Source.oneShot_faultFree F) Source.emptySnk_benign
  (C10decEx.shortSrc F) C10decEx.badSnk (F.length + 1) (Nat.le_refl _) (C10decEx.shortSrc_faultFree F).noFalseEof rfl

/-- **C10, `pass_decrypt`: the output is a prefix of the fault-free output.**
    Combines `C10_dec_prefix_pass`, `C10_dec_partition_independence_pass` with `stream_source_pass_decrypt`. -/
theorem C10_source_dec_prefix_pass (P : Prims) (pw : Bytes) (ff0 ff : StreamSrc.PassFileFormat)
    (src0 : Src) (k0 : Snk) (fuel0 : Nat) (hf0 : src0.inp.length + 1 ≤ fuel0) (hs0 : src0.faultFree) (hk0 : k0.benign)
    (src : Src) (k : Snk) (fuel : Nat) (hf : src.inp.length + 1 ≤ fuel) (hs : src.noFalseEof) (hinp : src.inp = src0.inp) :
    ∃ res0 s0' k0' w0 res s' k' w, StreamSrc.decrypt.pass_decrypt P.aead P src0 k0 pw ff0 fuel0 = some (res0, s0', k0') ∧
      StreamSrc.decrypt.pass_decrypt P.aead P src k pw ff fuel = some (res, s', k') ∧
      k0'.out = k0.out ++ w0 ∧ k'.out = k.out ++ w ∧ w <+: w0 ∧
      (res = .ok → res0 = .ok ∧ w = w0) := by
  obtain ⟨s0', k0', e0, o0⟩ := Source.pass_decrypt_faultFree P pw ff0 src0 k0 fuel0 hf0 hs0 hk0
  obtain ⟨mres, s', k', hIO, hrun⟩ := Source.pass_decrypt_run P pw ff src k fuel hf
  obtain ⟨p, g1, g2, g3⟩ := C10_dec_prefix_pass P pw src k hs hIO
    (writes := (passDecrypt P pw src.inp).1) (pres := (passDecrypt P pw src.inp).2) rfl
  rw [← hinp] at e0 o0
  refine ⟨_, s0', k0', _, _, s', k', p, e0, hrun, o0, g1, g2, fun hr => ?_⟩
  obtain ⟨h1, h2⟩ := g3 ((Source.collapseFormat_ok_iff mres).mp hr)
  exact ⟨by rw [h2]; rfl, h1⟩

example := C10_source_dec_prefix_pass toyPrims C10decEx.pw .V1 .V1
  ⟨C10decEx.file, [], 0, 0⟩ {} 200 (by decide) (Source.oneShot_faultFree _) Source.emptySnk_benign
  C10decEx.hardErrSrc C10decEx.badSnk 200 (by decide) C10decEx.hardErrSrc_noFalseEof rfl

/-- **C10, `key_decrypt`: interruptions are retried — exact form for benign scripts.**  Source with short reads and
    `Interrupted` reads, sink with partial and `Interrupted` writes: either the generated `key_decrypt` agrees with the reference
    run (same `Result`, same bytes appended), or the last consumed script event is an `Interrupted` that hit the one read the
    code does not retry — the 1-byte trailing-data probe after the final record: then it returns `IORead`, and has written
    either everything the reference run writes (the reference says `UnexpectedData`) or everything but the final chunk (the
    reference says `Ok`).
    Combines `C10_dec_benign_key`, `C10_dec_partition_independence_key` with `stream_source_key_decrypt`. -/
theorem C10_source_dec_interrupted_key (P : Prims) (r rpk : Bytes) (ff0 ff : StreamSrc.AsymFileFormat)
    (src0 : Src) (k0 : Snk) (fuel0 : Nat) (hf0 : src0.inp.length + 1 ≤ fuel0) (hs0 : src0.faultFree) (hk0 : k0.benign)
    (src : Src) (k : Snk) (fuel : Nat) (hf : src.inp.length + 1 ≤ fuel) (hs : src.benign) (hk : k.benign)
    (hinp : src.inp = src0.inp) :
    ∃ res0 s0' k0' w0 res s' k' w, StreamSrc.decrypt.key_decrypt P.aead P src0 k0 r rpk ff0 fuel0 = some (res0, s0', k0') ∧
      StreamSrc.decrypt.key_decrypt P.aead P src k r rpk ff fuel = some (res, s', k') ∧
      k0'.out = k0.out ++ w0 ∧ k'.out = k.out ++ w ∧
      ((res = res0 ∧ w = w0) ∨
       (res = .error .ioRead ∧ (∃ pre, src.script = pre ++ .errInterrupted :: s'.script) ∧
         ((res0 = .error .unexpectedData ∧ w = w0) ∨ ((∃ S, res0 = .ok S) ∧ ∃ fin, w0 = w ++ fin)))) := by
  obtain ⟨s0', k0', e0, o0⟩ := Source.key_decrypt_faultFree P r rpk ff0 src0 k0 fuel0 hf0 hs0 hk0
  obtain ⟨mres, s', k', sender, hIO, hrun, hiff⟩ := Source.key_decrypt_run P r rpk ff src k fuel hf
  rw [← hinp] at e0 o0
  rcases C10_dec_benign_key P r rpk src k hs hk hIO
    (writes := (keyDecrypt P r rpk src.inp).1) (pres := (keyDecrypt P r rpk src.inp).2.1) (psender := (keyDecrypt P r rpk src.inp).2.2) rfl
    with ⟨g1, g2, g3⟩ | ⟨g1, g2, g3, g4⟩
  · exact ⟨_, s0', k0', _, _, s', k', _, e0, hrun, o0, g3, Or.inl ⟨by rw [g1, g2], rfl⟩⟩
  · rcases g4 with ⟨g5, g6⟩ | ⟨g5, init, fin, g6, g7⟩
    · refine ⟨_, s0', k0', _, _, s', k', _, e0, hrun, o0, g6, Or.inr ⟨by rw [g1, g2]; rfl, g3, Or.inl ⟨?_, rfl⟩⟩⟩
      rw [Source.keyDecrypt_sender_none P r rpk src.inp (by rw [g5]; decide), g5]; rfl
    · refine ⟨_, s0', k0', _, _, s', k', _, e0, hrun, o0, g7, Or.inr ⟨by rw [g1, g2]; rfl, g3, Or.inr ⟨?_, fin, ?_⟩⟩⟩
      · obtain ⟨S, hS⟩ := Source.keyDecrypt_sender_some P r rpk src.inp g5
        exact ⟨S, by rw [hS]; rfl⟩
      · rw [g6]; simp

/-- hypotheses satisfiable: interruptions in the source script, partial and interrupted writes at the sink -/
example (F : Bytes) := C10_source_dec_interrupted_key toyPrims (zeros 32) (zeros 32) .V1 .V1
  ⟨F, [], 0, 0⟩ {} (F.length + 1) (Nat.le_refl _) (Source.oneShot_faultFree F) Source.emptySnk_benign
  (C10decEx.shortSrc F) C10decEx.snk (F.length + 1) (Nat.le_refl _) (C10decEx.shortSrc_faultFree F).benign C10decEx.snk_benign rfl

/-- **C10, `pass_decrypt`: interruptions are retried — exact form for benign scripts.**
    Combines `C10_dec_benign_pass`, `C10_dec_partition_independence_pass` with `stream_source_pass_decrypt`. -/
theorem C10_source_dec_interrupted_pass (P : Prims) (pw : Bytes) (ff0 ff : StreamSrc.PassFileFormat)
    (src0 : Src) (k0 : Snk) (fuel0 : Nat) (hf0 : src0.inp.length + 1 ≤ fuel0) (hs0 : src0.faultFree) (hk0 : k0.benign)
    (src : Src) (k : Snk) (fuel : Nat) (hf : src.inp.length + 1 ≤ fuel) (hs : src.benign) (hk : k.benign)
    (hinp : src.inp = src0.inp) :
    ∃ res0 s0' k0' w0 res s' k' w, StreamSrc.decrypt.pass_decrypt P.aead P src0 k0 pw ff0 fuel0 = some (res0, s0', k0') ∧
      StreamSrc.decrypt.pass_decrypt P.aead P src k pw ff fuel = some (res, s', k') ∧
      k0'.out = k0.out ++ w0 ∧ k'.out = k.out ++ w ∧
      ((res = res0 ∧ w = w0) ∨
       (res = .ioRead ∧ (∃ pre, src.script = pre ++ .errInterrupted :: s'.script) ∧
         ((res0 = .unexpectedData ∧ w = w0) ∨ (res0 = .ok ∧ ∃ fin, w0 = w ++ fin)))) := by
  obtain ⟨s0', k0', e0, o0⟩ := Source.pass_decrypt_faultFree P pw ff0 src0 k0 fuel0 hf0 hs0 hk0
  obtain ⟨mres, s', k', hIO, hrun⟩ := Source.pass_decrypt_run P pw ff src k fuel hf
  rw [← hinp] at e0 o0
  rcases C10_dec_benign_pass P pw src k hs hk hIO
    (writes := (passDecrypt P pw src.inp).1) (pres := (passDecrypt P pw src.inp).2) rfl
    with ⟨g1, g3⟩ | ⟨g1, g3, g4⟩
  · exact ⟨_, s0', k0', _, _, s', k', _, e0, hrun, o0, g3, Or.inl ⟨by rw [g1], rfl⟩⟩
  · rcases g4 with ⟨g5, g6⟩ | ⟨g5, init, fin, g6, g7⟩
    · exact ⟨_, s0', k0', _, _, s', k', _, e0, hrun, o0, g6, Or.inr ⟨by rw [g1]; rfl, g3, Or.inl ⟨by rw [g5]; rfl, rfl⟩⟩⟩
    · exact ⟨_, s0', k0', _, _, s', k', _, e0, hrun, o0, g7, Or.inr ⟨by rw [g1]; rfl, g3, Or.inr ⟨by rw [g5]; rfl, fin, by rw [g6]; simp⟩⟩⟩

/-- the second alternative is live: the `Interrupted` of `probeIntSrc` lands on the trailing-data probe -/
example := C10_source_dec_interrupted_pass toyPrims C10decEx.pw .V1 .V1
  ⟨C10decEx.file, [], 0, 0⟩ {} 200 (by decide) (Source.oneShot_faultFree _) Source.emptySnk_benign
  C10decEx.probeIntSrc C10decEx.snk 200 (by decide) C10decEx.probeIntSrc_benign C10decEx.snk_benign rfl

/-! ## C03 — an accepted ciphertext is exactly the sender's complete plaintext -/

/-- **C03, strict framing (generated `decrypt_chunks`; outright, no cryptographic hypothesis).**  Renders the strictness half
    of C03.  Whatever bytes are presented (any source script that does not forge an end of stream — in particular every
    fault-free one) to the generated `decrypt_chunks`, with ANY sink script: if it returns `Ok(())`, then the bytes are a
    concatenation of raw records `cf ‖ flag ‖ be32 |pt| ‖ enc key i (aad ‖ flag ‖ be32 |pt|) pt` with consecutive nonces from 0
    (`rawSerialize`, KestrelProofs/Strict.lean), what was written is exactly their plaintexts in order, each `cf` is 8 bytes,
    each flag field 4 bytes, each chunk ≤ `cs`; the last flag field has value 1 and no earlier one does; nothing follows the
    last record.  Apart from the 8 advisory counter bytes of each record there is no slack.
    Combines `C03_strict_chunks` (KestrelProps/C03.lean) with `stream_source_dec_whole_chunks` (pure acceptance from I/O
    acceptance: `decLoopIO_prefix`) and `stream_source_decrypt_chunks`. -/
theorem C03_source_strict_chunks (A : Aead) (hA : A.Lawful) (key aad : Bytes) (hk : key.length = 32) (cs : Nat)
    (s : Src) (k : Snk) (fuel : Nat) (hf : s.inp.length + 1 ≤ fuel) (hs : s.noFalseEof) (s' : Src) (k' : Snk)
    (h : StreamSrc.decrypt.decrypt_chunks A s k key aad cs fuel = some (.ok, s', k')) :
    ∃ hs : List (Bytes × Bytes × Bytes),
      k'.out = k.out ++ (hs.map (·.2.2)).flatten ∧ s.inp = rawSerialize A key aad 0 hs ∧
      (∀ h ∈ hs, h.1.length = 8 ∧ h.2.1.length = 4 ∧ h.2.2.length ≤ cs) ∧
      (∃ init l, hs = init ++ [l] ∧ beVal l.2.1 = 1 ∧ ∀ h ∈ init, beVal h.2.1 ≠ 1) ∧ hs ≠ [] := by
  obtain ⟨hp, hout⟩ := Source.decrypt_chunks_ok_pure A key aad cs s k fuel hf hs h
  obtain ⟨hs', hmap, hser, hall, hfl, hne⟩ := C03_strict_chunks A hA key aad hk cs s.inp.length 0 s.inp _ hp
  exact ⟨hs', by rw [hmap]; exact hout, hser, hall, hfl, hne⟩

/-- the hypothesis is satisfiable: the three-chunk stream of C03 in short reads, partial / interrupted writes -/
example : ∃ s' k', StreamSrc.decrypt.decrypt_chunks toyPrims.aead { inp := toyF, script := [.data 7, .data 30] } ssSnk (zeros 32) tblAad 8 200 =
    some (.ok, s', k') := by
  rw [stream_source_decrypt_chunks _ _ _ _ _ _ 200 (by decide)]
  have h : (decryptChunksIO toyPrims.aead (zeros 32) tblAad 8 { inp := toyF, script := [.data 7, .data 30] } ssSnk).1 = .ok := by decide
  exact ⟨_, _, by rw [← h]⟩

/-- **C03, strict framing, converse (generated `decrypt_chunks`).**  Every byte string of the shape described by
    `C03_source_strict_chunks`, presented by ANY fault-free source into ANY benign sink, is accepted and exactly its plaintexts
    are written — so that shape is exactly the accepted set.
    Combines `C03_strict_chunks_exact` with `decLoopIO_faultFree` (KestrelProofs/DecIO.lean) and `stream_source_decrypt_chunks`. -/
theorem C03_source_strict_chunks_exact (A : Aead) (hA : A.Lawful) (key aad : Bytes) (hk : key.length = 32) (cs : Nat)
    (hcs : cs < 2^32) (init : List (Bytes × Bytes × Bytes)) (l : Bytes × Bytes × Bytes)
    (hall : ∀ h ∈ init ++ [l], h.1.length = 8 ∧ h.2.1.length = 4 ∧ h.2.2.length ≤ cs)
    (hl : beVal l.2.1 = 1) (hinit : ∀ h ∈ init, beVal h.2.1 ≠ 1)
    (s : Src) (k : Snk) (fuel : Nat) (hf : s.inp.length + 1 ≤ fuel) (hs : s.faultFree) (hk' : k.benign)
    (hinp : s.inp = rawSerialize A key aad 0 (init ++ [l])) :
    ∃ s' k', StreamSrc.decrypt.decrypt_chunks A s k key aad cs fuel = some (.ok, s', k') ∧
      k'.out = k.out ++ ((init ++ [l]).map (·.2.2)).flatten := by
  obtain ⟨s', k', hrun, hout⟩ := Source.decrypt_chunks_faultFree A key aad cs s k fuel hf hs hk'
  have hp : decryptChunks A key aad cs s.inp = ((init ++ [l]).map (·.2.2), .ok) := by
    rw [hinp]; exact C03_strict_chunks_exact A hA key aad hk cs hcs 0 init l hall hl hinit
  rw [hp] at hrun hout
  exact ⟨s', k', hrun, hout⟩

/-- hypotheses satisfiable: two raw records with junk counter bytes and a non-canonical (but ≠ 1) first flag field -/
example (s : Src) (k : Snk) (hs : s.faultFree) (hk : k.benign)
    (hinp : s.inp = rawSerialize toyPrims.aead (zeros 32) [9] 0 ([(zeros 8, [0, 0, 0, 7], [1, 2])] ++ [(zeros 8, [0, 0, 0, 1], [3])])) :=
  C03_source_strict_chunks_exact toyPrims.aead toyPrims_lawful.aead (zeros 32) [9] (by decide) 8 (by decide)
    [(zeros 8, [0, 0, 0, 7], [1, 2])] (zeros 8, [0, 0, 0, 1], [3]) (by decide) (by decide) (by decide)
    s k (s.inp.length + 1) (Nat.le_refl _) hs hk hinp

/-- **C03, chunk stream (generated `decrypt_chunks`; reduction to forgery).**  Renders C03: "whatever bytes are presented … in
    place of an authentic encrypted file — bits flipped, truncated at any offset, extended, chunks reordered, duplicated,
    dropped … — decryption either fails, or succeeds with output identical to the complete original plaintext".  `cl` is the
    authentic chunk list.  For EVERY byte string presented (source without forged end of stream, any sink): either it exhibits
    a forgery under `key`, or: if the generated `decrypt_chunks` returns `Ok(())` then it has written exactly the complete
    plaintext `cl.flatten`, and the presented bytes ARE the authentic stream `serialize A key aad cf 0 cl` up to the contents
    `cf` of the 8-byte advisory counter fields (so: same length; every flag, length and body byte pinned; no truncation,
    extension, reordering, duplication or drop).
    Combines `C03_chunks` with `stream_source_dec_whole_chunks` and `stream_source_decrypt_chunks`. -/
theorem C03_source_chunks (A : Aead) (hA : A.Lawful) (key aad : Bytes) (hk : key.length = 32) (cs : Nat)
    (cl : List Bytes) (hne : cl ≠ []) (h32 : ∀ c ∈ cl, c.length < 2^32)
    (s : Src) (k : Snk) (fuel : Nat) (hf : s.inp.length + 1 ≤ fuel) (hs : s.noFalseEof) (s' : Src) (k' : Snk)
    (h : StreamSrc.decrypt.decrypt_chunks A s k key aad cs fuel = some (.ok, s', k')) :
    ForgeryIn A key aad 0 cl s.inp ∨
    (k'.out = k.out ++ cl.flatten ∧ ∃ cf : Nat → Bytes, (∀ i, (cf i).length = 8) ∧ s.inp = serialize A key aad cf 0 cl) := by
  obtain ⟨hp, hout⟩ := Source.decrypt_chunks_ok_pure A key aad cs s k fuel hf hs h
  rcases C03_chunks A hA key aad hk cs cl hne h32 s.inp _ _ hp with hforg | ⟨_, hok⟩
  · exact Or.inl hforg
  · obtain ⟨hws, hcf⟩ := hok rfl
    exact Or.inr ⟨by rw [hout, hws], hcf⟩

example (s' : Src) (k' : Snk)
    (h : StreamSrc.decrypt.decrypt_chunks toyPrims.aead { inp := toyF, script := [.data 7, .data 30] } ssSnk (zeros 32) tblAad 8 200 =
      some (.ok, s', k')) :=
  C03_source_chunks toyPrims.aead toyPrims_lawful.aead (zeros 32) tblAad (by decide) 8 tblCl (by decide) (by decide)
    { inp := toyF, script := [.data 7, .data 30] } ssSnk 200 (by decide)
    (by intro e he; simp at he; rcases he with rfl | rfl <;> simp) s' k' h

/-- **C03, truncation (generated `decrypt_chunks`; outright).**  Every proper prefix of the authentic stream, presented by any
    fault-free source into any benign sink, is rejected with a read error, and what was written before the error is whole
    authentic chunks, the final one NOT among them.
    Combines `C03_truncation_outright` with `decLoopIO_faultFree` and `stream_source_decrypt_chunks`. -/
theorem C03_source_truncation (A : Aead) (hA : A.Lawful) (key aad : Bytes) (hk : key.length = 32) (cs : Nat)
    (hcs : cs < 2^32) (cl : List Bytes) (hne : cl ≠ []) (hle : ∀ c ∈ cl, c.length ≤ cs)
    (s : Src) (k : Snk) (fuel : Nat) (hf : s.inp.length + 1 ≤ fuel) (hs : s.faultFree) (hk' : k.benign)
    (hpre : s.inp <+: serialize A key aad be64 0 cl) (hprop : s.inp ≠ serialize A key aad be64 0 cl) :
    ∃ s' k' ws, StreamSrc.decrypt.decrypt_chunks A s k key aad cs fuel = some (.ioRead, s', k') ∧
      k'.out = k.out ++ ws.flatten ∧ ws <+: cl.dropLast := by
  obtain ⟨s', k', hrun, hout⟩ := Source.decrypt_chunks_faultFree A key aad cs s k fuel hf hs hk'
  obtain ⟨h1, h2⟩ := C03_truncation_outright A hA key aad hk cs hcs cl hne hle s.inp hpre hprop
  rw [h1] at hrun
  exact ⟨s', k', _, hrun, hout, h2⟩

example := C03_source_truncation toyPrims.aead toyPrims_lawful.aead (zeros 32) tblAad (by decide) 8 (by decide) tblCl (by decide) (by decide)
  { inp := toyF.take 60, script := [.data 7, .data 30] } ssSnk 200 (by decide)
  (by intro e he; simp at he; rcases he with rfl | rfl <;> exact ⟨_, rfl, by decide⟩) ssSnk_benign
  (List.take_prefix 60 toyF) (by decide)

/-- **C03, extension (generated `decrypt_chunks`; outright).**  The authentic stream followed by anything non-empty, presented
    by any fault-free source into any benign sink, is rejected with `UnexpectedData`, and the final chunk is NOT written.
    Combines `C03_extension_outright` with `decLoopIO_faultFree` and `stream_source_decrypt_chunks`. -/
theorem C03_source_extension (A : Aead) (hA : A.Lawful) (key aad : Bytes) (hk : key.length = 32) (cs : Nat)
    (hcs : cs < 2^32) (cl : List Bytes) (hne : cl ≠ []) (hle : ∀ c ∈ cl, c.length ≤ cs) (t : Bytes) (ht : t ≠ [])
    (s : Src) (k : Snk) (fuel : Nat) (hf : s.inp.length + 1 ≤ fuel) (hs : s.faultFree) (hk' : k.benign)
    (hinp : s.inp = serialize A key aad be64 0 cl ++ t) :
    ∃ s' k', StreamSrc.decrypt.decrypt_chunks A s k key aad cs fuel = some (.unexpectedData, s', k') ∧
      k'.out = k.out ++ cl.dropLast.flatten := by
  obtain ⟨s', k', hrun, hout⟩ := Source.decrypt_chunks_faultFree A key aad cs s k fuel hf hs hk'
  rw [hinp, C03_extension_outright A hA key aad hk cs hcs cl hne hle t ht] at hrun hout
  exact ⟨s', k', hrun, hout⟩

example := C03_source_extension toyPrims.aead toyPrims_lawful.aead (zeros 32) tblAad (by decide) 8 (by decide) tblCl (by decide) (by decide)
  [0] (by decide) { inp := toyF ++ [0], script := [.data 7, .data 30] } ssSnk 200 (by decide)
  (by intro e he; simp at he; rcases he with rfl | rfl <;> exact ⟨_, rfl, by decide⟩) ssSnk_benign rfl

/-- **C03, password-mode file (generated `pass_encrypt` / `pass_decrypt`; reduction to forgery).**  The authentic file is what
    the generated `pass_encrypt` wrote (`ct`).  Present ANY bytes that keep its 36-byte header — everything after it
    arbitrary — to the generated `pass_decrypt` under the same password (source without forged end of stream, any sink).
    Either the bytes after the header exhibit a forgery under the file key, or: if `pass_decrypt` returns `Ok(())`, it has
    written exactly the plaintext, and the presented bytes are the authentic file up to the contents of the advisory counter
    fields.  (Headers that differ: `C03_source_magic_*`, `C02_source_wrong_password`.)
    Combines `C03_file_pass`, `C10_dec_prefix_pass`, `C10_enc_partition_independence_pass`, `C02_roundtrip_io` with
    `stream_source_pass_encrypt`, `stream_source_pass_decrypt`. -/
theorem C03_source_file_pass (P : Prims) (hA : P.aead.Lawful) (w salt : Bytes) (ff ff2 : StreamSrc.PassFileFormat)
    (src : Src) (k : Snk) (fuel : Nat) (hf : src.inp.length + src.script.length + 2 ≤ fuel)
    (hsalt : salt.length = 32) (hkdf : (P.kdf w salt).length = 32) (hs : src.faultFree) (hk : k.benign) :
    ∃ src' k' ct, StreamSrc.encrypt.pass_encrypt P.aead P src k w salt ff fuel = some (.ok, src', k') ∧
      k'.out = k.out ++ ct ∧
      ∀ (src2 : Src) (k2 : Snk) (fuel2 : Nat) (src2' : Src) (k2' : Snk),
        src2.inp.take 36 = ct.take 36 → src2.noFalseEof → src2.inp.length + 1 ≤ fuel2 →
        StreamSrc.decrypt.pass_decrypt P.aead P src2 k2 w ff2 fuel2 = some (.ok, src2', k2') →
        ForgeryIn P.aead (P.kdf w salt) StreamSrc.encrypt.PASS_FILE_MAGIC 0 (fileChunks (Src.reads StreamSrc.CHUNK_SIZE src))
          (src2.inp.drop 36) ∨
        (k2'.out = k2.out ++ src.inp ∧ ∃ cf : Nat → Bytes, (∀ i, (cf i).length = 8) ∧
          src2.inp = StreamSrc.encrypt.PASS_FILE_MAGIC ++ salt ++
            serialize P.aead (P.kdf w salt) StreamSrc.encrypt.PASS_FILE_MAGIC cf 0 (fileChunks (Src.reads StreamSrc.CHUNK_SIZE src))) := by
  obtain ⟨hok, ct, hout, _⟩ := C02_roundtrip_io P hA w salt src k hsalt hkdf hs hk
  obtain ⟨_, h2, hwf, hle, hflat⟩ := C10_enc_partition_independence_pass P w salt src k hs hk
  have hct : ct = (passEncrypt P w salt (Src.reads chunkSize src)).1 := List.append_cancel_left (hout.symm.trans h2)
  have hjoin : (fileChunks (Src.reads chunkSize src)).flatten = src.inp := by rw [fileChunks_join _ hwf, hflat]
  refine ⟨(passEncryptIO P w salt src k).2.1, (passEncryptIO P w salt src k).2.2, ct, ?_, hout, ?_⟩
  · rw [stream_source_pass_encrypt P w salt ff src k fuel hf, ← hok]
  · intro src2 k2 fuel2 src2' k2' hhdr hs2 hf2 hacc
    obtain ⟨hp, ho⟩ := Source.pass_decrypt_ok_pure P w ff2 src2 k2 fuel2 hf2 hs2 hacc
    rw [hct] at hhdr
    rcases C03_file_pass P hA w salt _ hsalt hkdf hwf hle src2.inp hhdr _ _ hp with hforg | ⟨_, hok2⟩
    · exact Or.inl hforg
    · obtain ⟨hws, hcf⟩ := hok2 rfl
      exact Or.inr ⟨by rw [ho, hws, hjoin], hcf⟩

example := C03_source_file_pass toyPrims toyPrims_lawful.aead [] (zeros 32) .V1 .V1 ssSrc ssSnk 9 (by decide) (by decide)
  (toy_kdf_length _ _) ssSrc_faultFree ssSnk_benign

/-- **C03, key-mode file (generated `key_encrypt` / `key_decrypt`; reduction to forgery).**  As `C03_source_file_pass` for the
    132-byte header (magic, Noise handshake message); an accepting `key_decrypt` names exactly the sender.  Hypotheses as in
    `C03_file_key`.
    Combines `C03_file_key`, `C10_dec_prefix_key`, `C10_enc_partition_independence`, `C01_roundtrip_io` with
    `stream_source_key_encrypt`, `stream_source_key_decrypt`. -/
theorem C03_source_file_key (P : Prims) (hP : P.Lawful) (rand : Nat → Bytes) (s spk r rpk e epk pk d1 d2 msg hh : Bytes)
    (ff ff2 : StreamSrc.AsymFileFormat) (src : Src) (k : Snk) (fuel : Nat)
    (hf : src.inp.length + src.script.length + 2 ≤ fuel)
    (hE : epk.length = 32) (hS : spk.length = 32) (hK : pk.length = 32)
    (h1 : P.dh e rpk = some d1) (h2 : P.dh s rpk = some d2) (h1' : P.dh r epk = some d1) (h2' : P.dh r spk = some d2)
    (hw : Noise.writeMessage P StreamSrc.encrypt.PROLOGUE s spk rpk e epk pk = .ok (msg, hh))
    (hs : src.faultFree) (hk : k.benign) :
    ∃ src' k' ct,
      StreamSrc.encrypt.key_encrypt P.aead P rand src k s spk rpk (some e) (some epk) (some pk) ff fuel = some (.ok, src', k') ∧
      k'.out = k.out ++ ct ∧
      ∀ (src2 : Src) (k2 : Snk) (fuel2 : Nat) (S : Bytes) (src2' : Src) (k2' : Snk),
        src2.inp.take 132 = ct.take 132 → src2.noFalseEof → src2.inp.length + 1 ≤ fuel2 →
        StreamSrc.decrypt.key_decrypt P.aead P src2 k2 r rpk ff2 fuel2 = some (.ok S, src2', k2') →
        ForgeryIn P.aead (P.hkdfFile pk hh) [] 0 (fileChunks (Src.reads StreamSrc.CHUNK_SIZE src)) (src2.inp.drop 132) ∨
        (S = spk ∧ k2'.out = k2.out ++ src.inp ∧ ∃ cf : Nat → Bytes, (∀ i, (cf i).length = 8) ∧
          src2.inp = StreamSrc.encrypt.PROLOGUE ++ msg ++
            serialize P.aead (P.hkdfFile pk hh) [] cf 0 (fileChunks (Src.reads StreamSrc.CHUNK_SIZE src))) := by
  have hdh : DhAgree P s spk r rpk e epk := ⟨⟨d1, h1, h1'⟩, ⟨d2, h2, h2'⟩⟩
  obtain ⟨hok, ct, hout, _⟩ := C01_roundtrip_io P hP s spk r rpk e epk pk src k hE hS hK hdh hs hk
  obtain ⟨_, hc2, hwf, hle, hflat⟩ := C10_enc_partition_independence P s spk rpk e epk pk src k hs hk
  have hct : ct = (keyEncrypt P s spk rpk e epk pk (Src.reads chunkSize src)).1 := List.append_cancel_left (hout.symm.trans hc2)
  have hjoin : (fileChunks (Src.reads chunkSize src)).flatten = src.inp := by rw [fileChunks_join _ hwf, hflat]
  refine ⟨(keyEncryptIO P s spk rpk e epk pk src k).2.1, (keyEncryptIO P s spk rpk e epk pk src k).2.2, ct, ?_, hout, ?_⟩
  · rw [stream_source_key_encrypt P rand s spk rpk e epk pk ff src k fuel hf, ← hok]
  · intro src2 k2 fuel2 S src2' k2' hhdr hs2 hf2 hacc
    obtain ⟨hp, ho⟩ := Source.key_decrypt_ok_pure P r rpk ff2 src2 k2 fuel2 hf2 hs2 hacc
    rw [hct] at hhdr
    rcases C03_file_key P hP s spk r rpk e epk pk d1 d2 msg hh _ hE hS hK h1 h2 h1' h2' hwf hle hw src2.inp hhdr _ _ _ hp
      with hforg | ⟨_, _, hok2⟩
    · exact Or.inl hforg
    · obtain ⟨hws, hsnd, hcf⟩ := hok2 rfl
      exact Or.inr ⟨Option.some.inj hsnd, by rw [ho, hws, hjoin], hcf⟩

example : True := by
  obtain ⟨d1, h1, h1'⟩ := (toy_dhAgree (zeros 32) (List.replicate 32 1) (List.replicate 32 2)).es
  obtain ⟨d2, h2, h2'⟩ := (toy_dhAgree (zeros 32) (List.replicate 32 1) (List.replicate 32 2)).ss
  have hw := Noise.writeMessage_ok_named toyPrims encPrologue (zeros 32) (zeros 32) (List.replicate 32 1)
    (List.replicate 32 2) (List.replicate 32 2) (List.replicate 32 7) d1 d2 h1 h2
  have := C03_source_file_key toyPrims toyPrims_lawful (fun n => zeros n) _ _ _ _ _ _ _ d1 d2 _ _ .V1 .V1 ssSrc ssSnk 9 (by decide)
    (List.length_replicate ..) (List.length_replicate ..) (List.length_replicate ..) h1 h2 h1' h2' hw ssSrc_faultFree ssSnk_benign
  trivial

/-- **C03, strict file, password mode (generated `pass_decrypt`; outright).**  For EVERY byte string presented (source
    without forged end of stream, any sink): if the generated `pass_decrypt` returns `Ok(())` then the bytes are the
    password-mode magic, 32 salt bytes, and a strict record sequence under the key derived from the password and exactly those
    salt bytes with the magic as associated-data prefix; and exactly the records' plaintexts were written.
    Combines `C03_strict_file_pass` with `C10_dec_prefix_pass` and `stream_source_pass_decrypt`. -/
theorem C03_source_strict_file_pass (P : Prims) (hA : P.aead.Lawful) (pw : Bytes) (ff : StreamSrc.PassFileFormat)
    (s : Src) (k : Snk) (fuel : Nat) (hf : s.inp.length + 1 ≤ fuel) (hs : s.noFalseEof) (s' : Src) (k' : Snk)
    (hkdf : (P.kdf pw ((s.inp.drop 4).take 32)).length = 32)
    (h : StreamSrc.decrypt.pass_decrypt P.aead P s k pw ff fuel = some (.ok, s', k')) :
    ∃ hs : List (Bytes × Bytes × Bytes),
      k'.out = k.out ++ (hs.map (·.2.2)).flatten ∧
      s.inp = StreamSrc.encrypt.PASS_FILE_MAGIC ++ (s.inp.drop 4).take 32 ++
             rawSerialize P.aead (P.kdf pw ((s.inp.drop 4).take 32)) StreamSrc.encrypt.PASS_FILE_MAGIC 0 hs ∧
      ((s.inp.drop 4).take 32).length = 32 ∧
      (∀ h ∈ hs, h.1.length = 8 ∧ h.2.1.length = 4 ∧ h.2.2.length ≤ StreamSrc.CHUNK_SIZE) ∧
      (∃ init l, hs = init ++ [l] ∧ beVal l.2.1 = 1 ∧ ∀ h ∈ init, beVal h.2.1 ≠ 1) := by
  obtain ⟨hp, ho⟩ := Source.pass_decrypt_ok_pure P pw ff s k fuel hf hs h
  obtain ⟨hs', hmap, hser, hl, hall, hfl⟩ := C03_strict_file_pass P hA pw s.inp _ hkdf hp
  exact ⟨hs', by rw [hmap]; exact ho, hser, hl, hall, hfl⟩

/-- the acceptance hypothesis is satisfiable (the two-chunk file of C10dec, short reads, partial / interrupted writes) -/
example : ∃ s' k', StreamSrc.decrypt.pass_decrypt toyPrims.aead toyPrims C10decEx.ffSrc C10decEx.snk C10decEx.pw .V1 200 = some (.ok, s', k') := by
  rw [stream_source_pass_decrypt _ _ _ _ _ 200 (by decide)]
  have h : (passDecryptIO toyPrims C10decEx.pw C10decEx.ffSrc C10decEx.snk).1 = .ok := by decide
  exact ⟨_, _, by rw [h]; rfl⟩

/-- **C03, strict file, key mode (generated `key_decrypt`; outright).**  For EVERY byte string presented: if the generated
    `key_decrypt` returns `Ok(S)`, then with `E` = bytes 4..36, `d1 = dh r E`, `d2 = dh r S`:
      `bytes = magic ‖ E ‖ enc k1 0 h1 S ‖ enc k2 0 h2 pk' ‖ (strict record sequence under hkdfFile pk' h3)`
    where k1, h1, k2, h2, h3 are the values the Noise X responder derives from (magic, rpk, E, the two fields)
    (KestrelProofs/Strict.lean), and exactly the records' plaintexts were written.
    Combines `C03_strict_file` with `C10_dec_prefix_key` and `stream_source_key_decrypt`. -/
theorem C03_source_strict_file_key (P : Prims) (hP : P.Lawful) (r rpk : Bytes) (ff : StreamSrc.AsymFileFormat)
    (s : Src) (k : Snk) (fuel : Nat) (hf : s.inp.length + 1 ≤ fuel) (hs : s.noFalseEof) (S : Bytes) (s' : Src) (k' : Snk)
    (h : StreamSrc.decrypt.key_decrypt P.aead P s k r rpk ff fuel = some (.ok S, s', k')) :
    ∃ (d1 d2 pk' : Bytes) (hs : List (Bytes × Bytes × Bytes)),
      P.dh r ((s.inp.drop 4).take 32) = some d1 ∧ P.dh r S = some d2 ∧ S.length = 32 ∧ pk'.length = 32 ∧
      ((s.inp.drop 4).take 32).length = 32 ∧
      k'.out = k.out ++ (hs.map (·.2.2)).flatten ∧
      s.inp = StreamSrc.encrypt.PROLOGUE ++ (s.inp.drop 4).take 32 ++
            P.aead.enc (Noise.k1 P d1) 0 (Noise.h1 P StreamSrc.encrypt.PROLOGUE rpk ((s.inp.drop 4).take 32)) S ++
            P.aead.enc (Noise.k2 P d1 d2) 0
              (Noise.h2 P StreamSrc.encrypt.PROLOGUE rpk ((s.inp.drop 4).take 32)
                (P.aead.enc (Noise.k1 P d1) 0 (Noise.h1 P StreamSrc.encrypt.PROLOGUE rpk ((s.inp.drop 4).take 32)) S)) pk' ++
            rawSerialize P.aead
              (P.hkdfFile pk' (Noise.h3 P StreamSrc.encrypt.PROLOGUE rpk ((s.inp.drop 4).take 32)
                (P.aead.enc (Noise.k1 P d1) 0 (Noise.h1 P StreamSrc.encrypt.PROLOGUE rpk ((s.inp.drop 4).take 32)) S)
                (P.aead.enc (Noise.k2 P d1 d2) 0
                  (Noise.h2 P StreamSrc.encrypt.PROLOGUE rpk ((s.inp.drop 4).take 32)
                    (P.aead.enc (Noise.k1 P d1) 0 (Noise.h1 P StreamSrc.encrypt.PROLOGUE rpk ((s.inp.drop 4).take 32)) S)) pk')))
              [] 0 hs ∧
      (∀ h ∈ hs, h.1.length = 8 ∧ h.2.1.length = 4 ∧ h.2.2.length ≤ StreamSrc.CHUNK_SIZE) ∧
      (∃ init l, hs = init ++ [l] ∧ beVal l.2.1 = 1 ∧ ∀ h ∈ init, beVal h.2.1 ≠ 1) := by
  obtain ⟨hp, ho⟩ := Source.key_decrypt_ok_pure P r rpk ff s k fuel hf hs h
  obtain ⟨d1, d2, pk', hs', g1, g2, g3, g4, g5, hmap, hser, hall, hfl⟩ := C03_strict_file P hP r rpk s.inp S _ hp
  exact ⟨d1, d2, pk', hs', g1, g2, g3, g4, g5, by rw [hmap]; exact ho, hser, hall, hfl⟩

/-- the acceptance hypothesis is satisfiable: by `C01_source_roundtrip` every fault-free presentation of an honest file is accepted -/
example :=
  (C01_source_roundtrip toyPrims toyPrims_lawful (fun n => zeros n) (zeros 32) (zeros 32) (List.replicate 32 1) (List.replicate 32 1)
    (List.replicate 32 2) (List.replicate 32 2) (List.replicate 32 7) .V1 .V1 ssSrc ssSnk 9 (by decide)
    (List.length_replicate ..) (List.length_replicate ..) (List.length_replicate ..) (toy_dhAgree _ _ _) ssSrc_faultFree ssSnk_benign)

/-- **C03, magic (generated `pass_decrypt` / `key_decrypt`; outright, EVERY script).**  If the first four bytes delivered are
    not the mode's magic number, the call fails and the sink is untouched — not one `write()` or `flush()`.
    (I/O-level form of `C03_pass_magic` / `C03_key_magic`.)  Combines `Src.readExact_some` (KestrelProofs/IOBasics.lean: what
    `read_exact` returns is a prefix of the data, on every script) and the model's magic dispatch with
    `stream_source_pass_decrypt`, `stream_source_key_decrypt`. -/
theorem C03_source_magic (P : Prims) (pw r rpk : Bytes) (ffp : StreamSrc.PassFileFormat) (ffk : StreamSrc.AsymFileFormat)
    (s : Src) (k : Snk) (fuel : Nat) (hf : s.inp.length + 1 ≤ fuel) :
    (s.inp.take 4 ≠ StreamSrc.encrypt.PASS_FILE_MAGIC →
      ∃ res s', StreamSrc.decrypt.pass_decrypt P.aead P s k pw ffp fuel = some (res, s', k) ∧ res ≠ .ok) ∧
    (s.inp.take 4 ≠ StreamSrc.encrypt.PROLOGUE →
      ∃ e s', StreamSrc.decrypt.key_decrypt P.aead P s k r rpk ffk fuel = some (.error e, s', k)) := by
  constructor
  · intro hm
    obtain ⟨res, s', k', hIO, hrun⟩ := Source.pass_decrypt_run P pw ffp s k fuel hf
    obtain ⟨h1, h2⟩ := Source.passDecryptIO_bad_magic P pw s k hm
    rw [hIO] at h1 h2
    simp only [] at h1 h2
    subst h1
    exact ⟨_, s', hrun, fun hc => h2 ((Source.collapseFormat_ok_iff res).mp hc)⟩
  · intro hm
    obtain ⟨res, s', k', sender, hIO, hrun, _⟩ := Source.key_decrypt_run P r rpk ffk s k fuel hf
    obtain ⟨h1, h2⟩ := Source.keyDecryptIO_bad_magic P r rpk s k hm
    rw [hIO] at h1 h2
    simp only [] at h1 h2
    subst h1 h2
    exact ⟨_, s', hrun⟩

/-- both hypotheses are satisfiable: a password-mode file given to `key_decrypt`, a key-mode header given to `pass_decrypt` -/
example := (C03_source_magic toyPrims [1] (zeros 32) (zeros 32) .V1 .V1
  { inp := [101, 103, 107, 16, 5], script := [.data 3] } ssSnk 6 (by decide)).1 (by decide)
example := (C03_source_magic toyPrims [1] (zeros 32) (zeros 32) .V1 .V1
  { inp := [101, 103, 107, 32, 5], script := [.data 3] } ssSnk 6 (by decide)).2 (by decide)

open KR

/-! ## C17 — the keyring parser: what is accepted, duplicates rejected, lookups, parse ∘ serialize

  `Keyring.Str = List Char`; `Keyring.trim`, `Keyring.utf8Len`, `B64.decode` are the hand-written readings of the Rust library
  calls (`str::trim`, `str::len`, `Base64::decode_vec`) that the generated code and the model share.  The entries of an accepted
  keyring are the generated structures themselves: `kr.keys : List KeyringSrc.Key`, fields `name`, `public_key : EncodedPk`,
  `private_key : Option EncodedSk`. -/

/-- **C17, accept (generated `Keyring::new`).**  Renders C17: whatever the generated parser accepts is a non-empty list of
    entries, each with a non-empty name of at most `MAX_NAME_SIZE` UTF-8 bytes, a public key string that passes the generated
    `EncodedPk::try_from` and (if present) a private key string that passes `EncodedSk::try_from`; names are pairwise
    distinct and public keys are pairwise distinct (duplicates are rejected).
    Combines `C17_accept` (KestrelProps/C17.lean) with `keyring_source_parse`, `keyring_source_encoded_pk_try_from`,
    `keyring_source_encoded_sk_try_from`. -/
theorem C17_source_accept (t : Keyring.Str) (kr : KeyringSrc.Keyring) (h : KeyringSrc.Keyring.new t = .ok kr) :
    kr.keys ≠ [] ∧
    (∀ k ∈ kr.keys, k.name ≠ [] ∧ Keyring.utf8Len k.name ≤ KeyringSrc.MAX_NAME_SIZE ∧
      KeyringSrc.EncodedPk.try_from k.public_key._0 = .ok k.public_key ∧
      (∀ sk, k.private_key = some sk → KeyringSrc.EncodedSk.try_from sk._0 = .ok sk)) ∧
    (kr.keys.map (·.name)).Nodup ∧ (kr.keys.map (·.public_key)).Nodup := by
  obtain ⟨hne, hall, hN, hP⟩ := C17_accept t (KeyringSrc.viewKeys kr) (Source.new_ok_parse h)
  refine ⟨fun e => hne (by rw [KeyringSrc.viewKeys, e]; rfl), ?_, ?_, ?_⟩
  · intro k hk
    obtain ⟨h1, h2, h3⟩ := hall (KeyringSrc.viewKey k) (List.mem_map_of_mem hk)
    simp only [Keyring.validParsedName, KeyringSrc.viewKey, Bool.and_eq_true, Bool.not_eq_true', List.isEmpty_eq_false_iff] at h1
    refine ⟨h1.1, of_decide_eq_true h1.2, (Source.pk_try_from_ok_iff _ _).mpr ⟨h2, rfl⟩, fun sk hsk => ?_⟩
    exact (Source.sk_try_from_ok_iff _ _).mpr ⟨h3 sk._0 (by simp [KeyringSrc.viewKey, hsk]), rfl⟩
  · have : (KeyringSrc.viewKeys kr).map (·.name) = kr.keys.map (·.name) := by rw [KeyringSrc.viewKeys, List.map_map]; rfl
    rw [← this]; exact hN
  · have : (KeyringSrc.viewKeys kr).map (·.pk) = (kr.keys.map (·.public_key)).map (·._0) := by
      rw [KeyringSrc.viewKeys, List.map_map, List.map_map]; rfl
    rw [this] at hP
    exact List.Pairwise.of_map (·._0) (fun a b hab hc => hab (by rw [hc])) hP

/-- the hypothesis is satisfiable: the two-entry keyring of the Rust unit test is accepted -/
example : ∃ kr, KeyringSrc.Keyring.new exampleText = .ok kr :=
  (KeyringSrc.new_of_parse_some exampleText _ exampleText_parses).imp fun _ h => h.1

/-- **C17, lookups are unambiguous (generated `get_key` / `get_name_from_key` on an accepted keyring).**  A lookup by name
    returns the only entry with that name; a lookup by public key returns the name of the only entry with that key.
    Combines `C17_lookup_unique` with `keyring_source_parse`, `keyring_source_get_key`, `keyring_source_get_name_from_key`. -/
theorem C17_source_lookup_unique (t : Keyring.Str) (kr : KeyringSrc.Keyring) (h : KeyringSrc.Keyring.new t = .ok kr) :
    (∀ n k, KeyringSrc.Keyring.get_key kr n = some k → k ∈ kr.keys ∧ k.name = n ∧ ∀ k' ∈ kr.keys, k'.name = n → k' = k) ∧
    (∀ p n, KeyringSrc.Keyring.get_name_from_key kr p = some n →
      ∃ k ∈ kr.keys, k.public_key = p ∧ k.name = n ∧ ∀ k' ∈ kr.keys, k'.public_key = p → k' = k) := by
  obtain ⟨h1, h2⟩ := C17_lookup_unique t (KeyringSrc.viewKeys kr) (Source.new_ok_parse h)
  constructor
  · intro n k hk
    have hv : Keyring.getKey (KeyringSrc.viewKeys kr) n = some (KeyringSrc.viewKey k) := by
      rw [← keyring_source_get_key, hk]; rfl
    obtain ⟨g1, g2, g3⟩ := h1 n _ hv
    refine ⟨Source.mem_of_viewKey_mem g1, g2, fun k' hk' hn' => ?_⟩
    exact Source.viewKey_injective (g3 (KeyringSrc.viewKey k') (List.mem_map_of_mem hk') hn')
  · intro p n hk
    rw [keyring_source_get_name_from_key] at hk
    obtain ⟨vk, g1, g2, g3, g4⟩ := h2 p._0 n hk
    obtain ⟨k, hkm, rfl⟩ := List.mem_map.mp g1
    refine ⟨k, hkm, ?_, g3, fun k' hk' hp' => ?_⟩
    · obtain ⟨p0⟩ := p
      obtain ⟨kn, ⟨kp⟩, ks⟩ := k
      simp only [KeyringSrc.viewKey] at g2
      subst g2; rfl
    · exact Source.viewKey_injective (g4 (KeyringSrc.viewKey k') (List.mem_map_of_mem hk') (by show k'.public_key._0 = p._0; rw [hp']))

example := C17_source_lookup_unique exampleText

/-- **C17, totality (generated `Keyring::new`).**  Two outcomes: accept, or reject with the class `ParseConfig`.
    Combines `C17_total` (through `keyring_source_parse_error`). -/
theorem C17_source_total (t : Keyring.Str) :
    KeyringSrc.Keyring.new t = .error .ParseConfig ∨ ∃ kr, KeyringSrc.Keyring.new t = .ok kr := by
  cases hn : KeyringSrc.Keyring.new t with
  | ok kr => exact Or.inr ⟨kr, rfl⟩
  | error e => exact Or.inl (by rw [(keyring_source_parse_error t).2 e hn])

example : KeyringSrc.Keyring.new "junk".toList = .error .ParseConfig :=
  (C17_source_total _).resolve_right (by
    rintro ⟨kr, hk⟩
    have := Source.new_ok_parse hk
    have hn : Keyring.parse "junk".toList = none := by decide
    rw [hn] at this; cases this)

/-- **C17, sections (generated `Keyring::new`).**  The accepted entries are exactly the `[Key]` sections of the text, in order
    (declarative reading `classify` / `sectionsOf` / `entryOf`, KestrelProofs/Keyring.lean): the text is accepted with entries
    `ks` iff it has at least one section, every section reads as an entry, these entries are `ks`, and names and public keys
    are pairwise distinct.  (`KeyringSrc.viewKeys` lists the entries of the generated `Keyring` as (name, public key string,
    private key string) records.)  Combines `C17_sections` with `keyring_source_parse`. -/
theorem C17_source_sections (t : Keyring.Str) (ks : List Keyring.Key) :
    (∃ kr, KeyringSrc.Keyring.new t = .ok kr ∧ KeyringSrc.viewKeys kr = ks) ↔
      ∃ secs, KR.sectionsOf ((Keyring.lines t).map KR.classify) = some secs ∧ secs ≠ [] ∧ secs.mapM KR.entryOf = some ks ∧
        (ks.map (·.name)).Nodup ∧ (ks.map (·.pk)).Nodup := by
  rw [← C17_sections]
  constructor
  · rintro ⟨kr, hk, rfl⟩; exact Source.new_ok_parse hk
  · intro hp; exact KeyringSrc.new_of_parse_some t ks hp

example : ∃ kr, KeyringSrc.Keyring.new exampleText = .ok kr ∧ KeyringSrc.viewKeys kr =
    [⟨"alice".toList, alicePk, some aliceSk⟩, ⟨"Bobby Bobertson".toList, bobPk, some aliceSk⟩] :=
  KeyringSrc.new_of_parse_some exampleText _ exampleText_parses

/-- **C17, parse ∘ serialize (generated `Keyring::new` ∘ `serialize_key`).**  Every keyring the tool itself writes parses back to
    exactly the entries written, in order.  `es`: the (name, public key, locked private key) triples of successive
    `key generate` runs, each name what `gen_key` accepts (the generated `valid_key_name`, trimmed, no line feed), each key
    string accepted by its `try_from`; `seps`: the separators written before each section ("" for a new file, "\n" for an
    existing one).  Combines `C17_roundtrip` (through `keyring_source_roundtrip`) with `keyring_source_serialize_key`. -/
theorem C17_source_roundtrip (es : List (Keyring.Str × Keyring.Str × Keyring.Str)) (seps : List Keyring.Str) (hne : es ≠ [])
    (hlen : seps.length = es.length) (hsep : ∀ x ∈ seps, x = "".toList ∨ x = "\n".toList)
    (hv : ∀ e ∈ es, KeyringSrc.Keyring.valid_key_name e.1 = true ∧ Keyring.trim e.1 = e.1 ∧ '\n' ∉ e.1 ∧
      (∃ p, KeyringSrc.EncodedPk.try_from e.2.1 = .ok p) ∧ (∃ q, KeyringSrc.EncodedSk.try_from e.2.2 = .ok q))
    (hN : (es.map (·.1)).Nodup) (hP : (es.map (·.2.1)).Nodup) :
    KeyringSrc.Keyring.new
        (List.zipWith (fun sep e => sep ++ KeyringSrc.Keyring.serialize_key e.1 ⟨e.2.1⟩ ⟨e.2.2⟩) seps es).flatten =
      .ok ⟨es.map fun e => ⟨e.1, ⟨e.2.1⟩, some ⟨e.2.2⟩⟩⟩ := by
  obtain ⟨kr, hk, hvw⟩ := keyring_source_roundtrip es seps hne hlen hsep hv hN hP
  obtain ⟨ks⟩ := kr
  have : ks = es.map fun e => (⟨e.1, ⟨e.2.1⟩, some ⟨e.2.2⟩⟩ : KeyringSrc.Key) := by
    apply Source.map_viewKey_injective
    rw [List.map_map]
    exact hvw
  rw [hk, this]

/-- hypotheses satisfiable: the two entries of the Rust unit test, first run into a new file, second into the existing one -/
example : KeyringSrc.Keyring.new
      (List.zipWith (fun sep e => sep ++ KeyringSrc.Keyring.serialize_key e.1 ⟨e.2.1⟩ ⟨e.2.2⟩) ["".toList, "\n".toList] exampleEntries).flatten =
    .ok ⟨exampleEntries.map fun e => ⟨e.1, ⟨e.2.1⟩, some ⟨e.2.2⟩⟩⟩ := by
  refine C17_source_roundtrip exampleEntries _ (by decide) rfl (by decide) ?_ (by decide) (by decide)
  intro e he
  simp only [exampleEntries, List.mem_cons, List.mem_nil_iff, or_false] at he
  rcases he with rfl | rfl
  · exact ⟨by rw [keyring_source_valid_key_name]; exact validEntry_alice.name, validEntry_alice.trimmed,
      fun hc => validEntry_alice.noNl _ hc rfl, (keyring_source_encoded_pk_try_from _).1.mpr validEntry_alice.pk,
      (keyring_source_encoded_sk_try_from _).1.mpr validEntry_alice.sk⟩
  · exact ⟨by rw [keyring_source_valid_key_name]; exact validEntry_bob.name, validEntry_bob.trimmed,
      fun hc => validEntry_bob.noNl _ hc rfl, (keyring_source_encoded_pk_try_from _).1.mpr validEntry_bob.pk,
      (keyring_source_encoded_sk_try_from _).1.mpr validEntry_bob.sk⟩

/-! ## C14 — `key generate` appends; earlier keys are preserved

  What `key generate` does to the keyring file (commands.rs, not translated): the file did not exist ⇒ it becomes the
  serialized section; it existed with contents `old` ⇒ it becomes `old ++ "\n" ++ section`. -/

/-- **C14, append (generated `Keyring::new` ∘ `serialize_key`).**  If the existing file is accepted by the generated parser with
    entries `kr.keys`, then after appending the section the generated `serialize_key` produces for a fresh name and public
    key (a valid, trimmed, single-line name; key strings accepted by their `try_from`) the file is accepted with the entries
    `kr.keys` followed by the new entry — and the old contents are a prefix of the new: nothing is rewritten.  For EVERY
    accepted `old` (with or without trailing newline, CRLF, comments, TABs, entries without private key, …).
    Combines `C14_append`, `C14_prefix` (KestrelProps/C14.lean) with `keyring_source_parse`, `keyring_source_serialize_key`,
    `keyring_source_valid_key_name`, `keyring_source_encoded_pk_try_from`, `keyring_source_encoded_sk_try_from`. -/
theorem C14_source_append (old : Keyring.Str) (kr : KeyringSrc.Keyring) (n : Keyring.Str) (p : KeyringSrc.EncodedPk)
    (s : KeyringSrc.EncodedSk) (h : KeyringSrc.Keyring.new old = .ok kr)
    (hfresh : ∀ k ∈ kr.keys, k.name ≠ n ∧ k.public_key ≠ p)
    (hn : KeyringSrc.Keyring.valid_key_name n = true ∧ Keyring.trim n = n ∧ ∀ c ∈ n, c ≠ '\n')
    (hp : KeyringSrc.EncodedPk.try_from p._0 = .ok p) (hs : KeyringSrc.EncodedSk.try_from s._0 = .ok s) :
    KeyringSrc.Keyring.new (old ++ "\n".toList ++ KeyringSrc.Keyring.serialize_key n p s) = .ok ⟨kr.keys ++ [⟨n, p, some s⟩]⟩ ∧
    old <+: old ++ "\n".toList ++ KeyringSrc.Keyring.serialize_key n p s := by
  have hv : KR.ValidEntry n p._0 s._0 :=
    ⟨by rw [← keyring_source_valid_key_name]; exact hn.1, hn.2.1, hn.2.2,
      ((Source.pk_try_from_ok_iff _ _).mp hp).1, ((Source.sk_try_from_ok_iff _ _).mp hs).1⟩
  have hf : ∀ k ∈ KeyringSrc.viewKeys kr, k.name ≠ n ∧ k.pk ≠ p._0 := by
    intro vk hvk
    obtain ⟨k, hk, rfl⟩ := List.mem_map.mp hvk
    obtain ⟨g1, g2⟩ := hfresh k hk
    refine ⟨g1, fun hc => g2 ?_⟩
    obtain ⟨p0⟩ := p
    obtain ⟨kn, ⟨kp⟩, ks⟩ := k
    simp only [KeyringSrc.viewKey] at hc
    subst hc; rfl
  have := C14_append old (KeyringSrc.viewKeys kr) n p._0 s._0 (Source.new_ok_parse h) hf hv
  refine ⟨Source.new_of_parse_view (t := old ++ "\n".toList ++ KeyringSrc.Keyring.serialize_key n p s) ?_, ?_⟩
  · rw [List.map_append]
    exact this
  · rw [List.append_assoc]; exact List.prefix_append _ _

/-- hypotheses satisfiable: `oldText` of C14 (CRLF, comment, TAB, no private key, unterminated last line) plus the second key -/
example : ∃ kr, KeyringSrc.Keyring.new oldText = .ok kr ∧
    KeyringSrc.Keyring.new (oldText ++ "\n".toList ++ KeyringSrc.Keyring.serialize_key "Bobby Bobertson".toList ⟨bobPk⟩ ⟨aliceSk⟩) =
      .ok ⟨kr.keys ++ [⟨"Bobby Bobertson".toList, ⟨bobPk⟩, some ⟨aliceSk⟩⟩]⟩ := by
  obtain ⟨kr, hk, hv⟩ := KeyringSrc.new_of_parse_some oldText _ oldText_parses
  refine ⟨kr, hk, (C14_source_append oldText kr _ ⟨bobPk⟩ ⟨aliceSk⟩ hk ?_
    ⟨by rw [keyring_source_valid_key_name]; exact validEntry_bob.name, validEntry_bob.trimmed, validEntry_bob.noNl⟩
    ((Source.pk_try_from_ok_iff _ _).mpr ⟨validEntry_bob.pk, rfl⟩) ((Source.sk_try_from_ok_iff _ _).mpr ⟨validEntry_bob.sk, rfl⟩)).1⟩
  intro k hk'
  have hm : KeyringSrc.viewKey k ∈ KeyringSrc.viewKeys kr := List.mem_map_of_mem hk'
  rw [hv] at hm
  simp only [List.mem_cons, List.mem_nil_iff, or_false] at hm
  obtain ⟨kn, ⟨kp⟩, ks⟩ := k
  simp only [KeyringSrc.viewKey, Keyring.Key.mk.injEq] at hm
  obtain ⟨rfl, rfl, _⟩ := hm
  exact ⟨(by decide : "alice".toList ≠ "Bobby Bobertson".toList),
    fun hc => absurd (show alicePk = bobPk from congrArg KeyringSrc.EncodedPk._0 hc) (by decide)⟩

/-- **C14, first key (generated code; file absent).**  The serialized section alone is an accepted keyring with that one entry.
    Combines `C14_first` with the same equality theorems. -/
theorem C14_source_first (n : Keyring.Str) (p : KeyringSrc.EncodedPk) (s : KeyringSrc.EncodedSk)
    (hn : KeyringSrc.Keyring.valid_key_name n = true ∧ Keyring.trim n = n ∧ ∀ c ∈ n, c ≠ '\n')
    (hp : KeyringSrc.EncodedPk.try_from p._0 = .ok p) (hs : KeyringSrc.EncodedSk.try_from s._0 = .ok s) :
    KeyringSrc.Keyring.new (KeyringSrc.Keyring.serialize_key n p s) = .ok ⟨[⟨n, p, some s⟩]⟩ := by
  have hv : KR.ValidEntry n p._0 s._0 :=
    ⟨by rw [← keyring_source_valid_key_name]; exact hn.1, hn.2.1, hn.2.2,
      ((Source.pk_try_from_ok_iff _ _).mp hp).1, ((Source.sk_try_from_ok_iff _ _).mp hs).1⟩
  exact Source.new_of_parse_view (t := KeyringSrc.Keyring.serialize_key n p s) (keys := [⟨n, p, some s⟩]) (C14_first n p._0 s._0 hv)

example := C14_source_first "alice".toList ⟨alicePk⟩ ⟨aliceSk⟩
  ⟨by rw [keyring_source_valid_key_name]; exact validEntry_alice.name, validEntry_alice.trimmed, validEntry_alice.noNl⟩
  ((Source.pk_try_from_ok_iff _ _).mpr ⟨validEntry_alice.pk, rfl⟩) ((Source.sk_try_from_ok_iff _ _).mpr ⟨validEntry_alice.sk, rfl⟩)

/-- the keyring file after a sequence of `key generate` runs on an existing file `f`, each run given as (name, public key, locked
    private key): every run appends "\n" and the section the generated `serialize_key` produces -/
def srcGenFold (f : Keyring.Str) : List (Keyring.Str × KeyringSrc.EncodedPk × KeyringSrc.EncodedSk) → Keyring.Str
  | [] => f
  | g :: gs => srcGenFold (f ++ "\n".toList ++ KeyringSrc.Keyring.serialize_key g.1 g.2.1 g.2.2) gs

theorem prefix_srcGenFold : ∀ (gens : List (Keyring.Str × KeyringSrc.EncodedPk × KeyringSrc.EncodedSk)) (f : Keyring.Str),
    f <+: srcGenFold f gens := by
  intro gens
  induction gens with
  | nil => intro f; exact List.prefix_refl f
  | cons g gs ih =>
    intro f
    exact List.IsPrefix.trans (by rw [List.append_assoc]; exact List.prefix_append _ _) (ih _)

/-- **C14, history (generated `Keyring::new` ∘ `serialize_key`).**  From any keyring file accepted by the generated parser and
    for any sequence of generations whose names and public keys are distinct from each other and from those already in the
    file: the final file is accepted, holding the old entries followed by the new ones in order, and every earlier state of
    the file is a byte prefix of the final one (nothing is ever rewritten).  Renders `C14_history` (case "accepted initial
    file"); proved by induction on the generations from `C14_source_append`. -/
theorem C14_source_history : ∀ (gens : List (Keyring.Str × KeyringSrc.EncodedPk × KeyringSrc.EncodedSk)) (old : Keyring.Str)
    (kr : KeyringSrc.Keyring), KeyringSrc.Keyring.new old = .ok kr →
    (∀ g ∈ gens, (KeyringSrc.Keyring.valid_key_name g.1 = true ∧ Keyring.trim g.1 = g.1 ∧ ∀ c ∈ g.1, c ≠ '\n') ∧
      KeyringSrc.EncodedPk.try_from g.2.1._0 = .ok g.2.1 ∧ KeyringSrc.EncodedSk.try_from g.2.2._0 = .ok g.2.2) →
    (gens.map (·.1)).Nodup → (gens.map (·.2.1)).Nodup →
    (∀ k ∈ kr.keys, ∀ g ∈ gens, k.name ≠ g.1 ∧ k.public_key ≠ g.2.1) →
    KeyringSrc.Keyring.new (srcGenFold old gens) = .ok ⟨kr.keys ++ gens.map fun g => ⟨g.1, g.2.1, some g.2.2⟩⟩ ∧
    ∀ j, j ≤ gens.length → srcGenFold old (gens.take j) <+: srcGenFold old gens := by
  intro gens
  induction gens with
  | nil =>
    intro old kr h _ _ _ _
    refine ⟨by simpa [srcGenFold] using h, fun j _ => ?_⟩
    simp [srcGenFold]
  | cons g gs ih =>
    intro old kr h hv hN hP hfr
    obtain ⟨hvg, hpg, hsg⟩ := hv g (List.mem_cons_self ..)
    obtain ⟨happ, _⟩ := C14_source_append old kr g.1 g.2.1 g.2.2 h (fun k hk => hfr k hk g (List.mem_cons_self ..)) hvg hpg hsg
    simp only [List.map_cons, List.nodup_cons] at hN hP
    obtain ⟨ih1, ih2⟩ := ih _ ⟨kr.keys ++ [⟨g.1, g.2.1, some g.2.2⟩]⟩ happ (fun g' hg' => hv g' (List.mem_cons_of_mem _ hg')) hN.2 hP.2
      (by
        intro k hk g' hg'
        rcases List.mem_append.mp hk with hk | hk
        · exact hfr k hk g' (List.mem_cons_of_mem _ hg')
        · simp only [List.mem_cons, List.mem_nil_iff, or_false] at hk
          subst hk
          exact ⟨fun hc => hN.1 (by rw [show g.1 = g'.1 from hc]; exact List.mem_map_of_mem (f := (·.1)) hg'),
            fun hc => hP.1 (by rw [show g.2.1 = g'.2.1 from hc]; exact List.mem_map_of_mem (f := (·.2.1)) hg')⟩)
    refine ⟨by simpa [srcGenFold, List.append_assoc] using ih1, fun j hj => ?_⟩
    cases j with
    | zero => exact prefix_srcGenFold (g :: gs) old
    | succ j => exact ih2 j (by simpa using hj)

/-- non-vacuity: `oldText` of C14 and one generation -/
example (kr : KeyringSrc.Keyring) (hk : KeyringSrc.Keyring.new oldText = .ok kr)
    (hfr : ∀ k ∈ kr.keys, k.name ≠ "Bobby Bobertson".toList ∧ k.public_key ≠ ⟨bobPk⟩) :=
  C14_source_history [("Bobby Bobertson".toList, ⟨bobPk⟩, ⟨aliceSk⟩)] oldText kr hk
    (by
      intro g hg
      simp only [List.mem_cons, List.mem_nil_iff, or_false] at hg
      subst hg
      exact ⟨⟨by rw [keyring_source_valid_key_name]; exact validEntry_bob.name, validEntry_bob.trimmed, validEntry_bob.noNl⟩,
        (Source.pk_try_from_ok_iff _ _).mpr ⟨validEntry_bob.pk, rfl⟩, (Source.sk_try_from_ok_iff _ _).mpr ⟨validEntry_bob.sk, rfl⟩⟩)
    (by simp) (by simp)
    (by intro k hk' g hg; simp only [List.mem_cons, List.mem_nil_iff, or_false] at hg; subst hg; exact hfr k hk')

/-! ## C15 — locked private keys: unlock ∘ lock = id, format, strictness

  `RsStr.PrivateKey` is `struct PrivateKey { key: Vec<u8> }`; its only constructor `try_from` checks 32 bytes — the hypothesis
  `sk.key.length = 32` below.  The scrypt of the keyring code is written as the GENERATED `ScryptSrc.scrypt` (C18). -/

/-- **C15, round trip (generated `unlock_private_key` ∘ `lock_private_key`).**  For every 32-byte key, every password (any
    length, including empty) and every 32-byte salt, unlocking the locked key with the same password returns the key.
    Combines `C15_roundtrip` (through `keyring_source_unlock_lock`) with `keyring_source_lock_private_key`,
    `keyring_source_unlock_private_key`. -/
theorem C15_source_roundtrip (sk : RsStr.PrivateKey) (pw salt : Bytes) (hsk : sk.key.length = 32) (hs : salt.length = 32) :
    KeyringSrc.Keyring.unlock_private_key (KeyringSrc.Keyring.lock_private_key sk pw salt) pw = .ok sk :=
  keyring_source_unlock_lock sk pw salt hsk hs

example : KeyringSrc.Keyring.unlock_private_key (KeyringSrc.Keyring.lock_private_key ⟨List.replicate 32 7⟩ [] (List.replicate 32 9)) [] =
    .ok ⟨List.replicate 32 7⟩ :=
  C15_source_roundtrip _ _ _ (by simp) (by simp)

/-- **C15, format (generated `lock_private_key`).**  The locked key is the base64 text of `version ‖ salt ‖ sealed`, where
    `sealed` is the RFC 8439 sealing of the key under scrypt(pw, salt) — computed by the GENERATED `ScryptSrc.scrypt` at
    (N, r, p) = (32768, 8, 1), 32 bytes — with the all-zero nonce and the version as associated data; the blob is 84 bytes, the
    text 112 characters, and the generated `EncodedSk::try_from` accepts it.
    Combines `C15_format`, `C15_encodedSkOk` with `keyring_source_lock_private_key`, `keyring_source_encoded_sk_try_from`,
    `C18_source_eq_spec`. -/
theorem C15_source_format (sk : RsStr.PrivateKey) (pw salt : Bytes) (hsk : sk.key.length = 32) (hs : salt.length = 32) :
    B64.decode (Keyring.utf8 (KeyringSrc.Keyring.lock_private_key sk pw salt)._0) =
        some (KeyringSrc.PRIVATE_KEY_VERSION ++ salt ++
          aeadSeal (ScryptSrc.scrypt pw salt 32768 8 1 32) (zeros 12) KeyringSrc.PRIVATE_KEY_VERSION sk.key) ∧
    (KeyringSrc.PRIVATE_KEY_VERSION ++ salt ++
      aeadSeal (ScryptSrc.scrypt pw salt 32768 8 1 32) (zeros 12) KeyringSrc.PRIVATE_KEY_VERSION sk.key).length =
        KeyringSrc.PRIVATE_KEY_CT_LEN ∧
    (KeyringSrc.Keyring.lock_private_key sk pw salt)._0.length = 112 ∧
    KeyringSrc.EncodedSk.try_from (KeyringSrc.Keyring.lock_private_key sk pw salt)._0 =
      .ok (KeyringSrc.Keyring.lock_private_key sk pw salt) := by
  obtain ⟨h1, h2, h3⟩ := C15_format sk.key pw salt hsk hs
  rw [Source.lockKdf_eq_src] at h1 h2
  rw [keyring_source_lock_private_key]
  exact ⟨h1, h2, h3, by rw [← keyring_source_lock_private_key]; exact Source.try_from_lock sk pw salt hsk hs⟩

example := C15_source_format ⟨List.replicate 32 7⟩ [112, 119] (List.replicate 32 9) (by simp) (by simp)

/-- **C15, strictness (generated `unlock_private_key`).**  Whatever unlocks is exactly what locking produces: if a string `s`
    passes the generated `EncodedSk::try_from` and then unlocks to `sk` under `pw`, then `sk` holds 32 bytes and the
    `EncodedSk` is, character for character, `lock_private_key sk pw salt` for some 32-byte salt (the one stored in `s`).  No
    lenient base64, no ignored bytes, version and salt both bound — a changed text that still unlocks would itself have to be
    a genuine locking.
    Combines `C15_strict` with `keyring_source_unlock_private_key`, `keyring_source_encoded_sk_try_from`,
    `keyring_source_lock_private_key`. -/
theorem C15_source_strict (s : Keyring.Str) (e : KeyringSrc.EncodedSk) (pw : Bytes) (sk : RsStr.PrivateKey)
    (ht : KeyringSrc.EncodedSk.try_from s = .ok e)
    (h : KeyringSrc.Keyring.unlock_private_key e pw = .ok sk) :
    ∃ salt, salt.length = 32 ∧ sk.key.length = 32 ∧ e = KeyringSrc.Keyring.lock_private_key sk pw salt := by
  have hu := (keyring_source_unlock_private_key s pw).1 e ht
  rw [h] at hu
  cases hm : Keyring.unlockPrivateKey s pw with
  | error err => rw [hm] at hu; cases hu
  | ok k =>
    rw [hm] at hu
    have hk : sk = ⟨k⟩ := Except.ok.inj hu
    obtain ⟨salt, g1, g2, g3⟩ := C15_strict s pw k hm
    refine ⟨salt, g1, by rw [hk]; exact g2, ?_⟩
    rw [Source.lock_eq_mk, hk, ← g3]
    exact ((Source.sk_try_from_ok_iff s e).mp ht).2

/-- the hypotheses are satisfiable: a locked key passes `try_from` (`C15_source_format`) and unlocks (`C15_source_roundtrip`) -/
example := C15_source_strict _ _ [] ⟨List.replicate 32 7⟩
  (C15_source_format ⟨List.replicate 32 7⟩ [] (List.replicate 32 9) (by simp) (by simp)).2.2.2
  (C15_source_roundtrip ⟨List.replicate 32 7⟩ [] (List.replicate 32 9) (by simp) (by simp))

/-- **C15, version and length (generated `EncodedSk::try_from` / `unlock_private_key`).**  A text that is not base64 of exactly
    `PRIVATE_KEY_CT_LEN` = 84 bytes never reaches `unlock_private_key` (`try_from` refuses it); an accepted 84-byte blob whose
    first four bytes are not the private-key version is rejected with `PrivateKeyFormat`, whatever the password, before any
    key derivation.  Combines `C15_version`, `C15_lengths` with `keyring_source_encoded_sk_try_from`,
    `keyring_source_unlock_private_key`. -/
theorem C15_source_version_length (s : Keyring.Str) (pw : Bytes) :
    ((∀ b, B64.decode (Keyring.utf8 s) = some b → b.length ≠ KeyringSrc.PRIVATE_KEY_CT_LEN) →
      ∀ e, KeyringSrc.EncodedSk.try_from s ≠ .ok e) ∧
    (∀ e b, KeyringSrc.EncodedSk.try_from s = .ok e → B64.decode (Keyring.utf8 s) = some b →
      b.take 4 ≠ KeyringSrc.PRIVATE_KEY_VERSION → KeyringSrc.Keyring.unlock_private_key e pw = .error .PrivateKeyFormat) := by
  constructor
  · intro hb e he
    have hok := ((Source.sk_try_from_ok_iff s e).mp he).1
    unfold Keyring.encodedSkOk at hok
    cases hd : B64.decode (Keyring.utf8 s) with
    | none => rw [hd] at hok; cases hok
    | some b =>
      rw [hd] at hok
      exact hb b hd (show b.length = Generated.privateKeyCtLen by simpa using hok)
  · intro e b he hd hv
    have hok := ((Source.sk_try_from_ok_iff s e).mp he).1
    unfold Keyring.encodedSkOk at hok
    rw [hd] at hok
    have hl : b.length = 84 := show b.length = Generated.privateKeyCtLen by simpa using hok
    have hu := (keyring_source_unlock_private_key s pw).1 e he
    rw [C15_version s pw b hd hl hv] at hu
    exact hu

example := C15_source_version_length ['*'] [112, 119]

/-! ## C16 — a password change keeps the key -/

/-- `key change-pass` applied repeatedly, with the generated functions: `steps` = (old password offered, new password, fresh
    salt); `none` = a step's unlock failed and the command stopped.  (The command itself, commands.rs, is not translated; this
    is `History.changePasses` of the model with the generated `unlock_private_key` / `lock_private_key` in place of the
    hand-written ones.) -/
def srcChangePasses : KeyringSrc.EncodedSk → List (Bytes × Bytes × Bytes) → Option KeyringSrc.EncodedSk
  | locked, [] => some locked
  | locked, (old, new, salt) :: rest =>
    match KeyringSrc.Keyring.unlock_private_key locked old with
    | .error _ => none
    | .ok sk => srcChangePasses (KeyringSrc.Keyring.lock_private_key sk new salt) rest

/-- **C16, history (generated `unlock_private_key` / `lock_private_key`).**  For every 32-byte private key, every initial
    password and 32-byte salt, and every chained list of password changes (`Chained`, KestrelProps/C16.lean: every step
    offers the password then in force and brings a 32-byte salt — any length, any passwords): the sequence succeeds, the final
    locked string unlocks under the last password to exactly the original key, and it is literally the locking of the original
    key under the last password and the last salt.
    Renders `C16_history`; proved by induction on the steps from `C15_source_roundtrip` (= `C15_roundtrip` +
    `keyring_source_lock_private_key` + `keyring_source_unlock_private_key`). -/
theorem C16_source_history (sk : RsStr.PrivateKey) (hsk : sk.key.length = 32) :
    ∀ (steps : List (Bytes × Bytes × Bytes)) (p0 s0 : Bytes), s0.length = 32 → Chained p0 steps →
    srcChangePasses (KeyringSrc.Keyring.lock_private_key sk p0 s0) steps =
      some (KeyringSrc.Keyring.lock_private_key sk (lastPw p0 steps) (lastSalt s0 steps)) ∧
    KeyringSrc.Keyring.unlock_private_key (KeyringSrc.Keyring.lock_private_key sk (lastPw p0 steps) (lastSalt s0 steps))
      (lastPw p0 steps) = .ok sk := by
  intro steps
  induction steps with
  | nil => intro p0 s0 hs0 _; exact ⟨rfl, C15_source_roundtrip sk p0 s0 hsk hs0⟩
  | cons st rest ih =>
    intro p0 s0 hs0 hc
    obtain ⟨old, new, salt⟩ := st
    obtain ⟨rfl, hsalt, hc'⟩ := hc
    simp only [srcChangePasses, C15_source_roundtrip sk old s0 hsk hs0, lastPw, lastSalt]
    exact ih new salt hsalt hc'

/-- non-vacuity: the example history of C16 (`pw → qw → pw`), scrypt is not evaluated -/
example := C16_source_history ⟨List.replicate 32 7⟩ (by simp) exSteps [112, 119] (List.replicate 32 9) (by simp) exSteps_chained

/-- **C16, old passwords (generated code; reduction).**  If some password `p` unlocks `lock_private_key sk pl salt` (to
    whatever `sk'`), then either `p` derives the same scrypt key as `pl` under that salt — a KDF collision, and then `sk' = sk` —
    or the sealed key, sealed under `k1 = scrypt(pl, salt)`, opened under a different key `k2 = scrypt(p, salt)` with the same
    nonce and associated data: an AEAD cross-key opening.  scrypt is the GENERATED `ScryptSrc.scrypt` at (32768, 8, 1).
    Combines `C16_old_password_reduction` with `keyring_source_unlock_private_key`, `keyring_source_lock_private_key`,
    `C15_encodedSkOk`, `C18_source_eq_spec`. -/
theorem C16_source_old_password_reduction (sk sk' : RsStr.PrivateKey) (p pl salt : Bytes) (hsk : sk.key.length = 32)
    (hs : salt.length = 32)
    (h : KeyringSrc.Keyring.unlock_private_key (KeyringSrc.Keyring.lock_private_key sk pl salt) p = .ok sk') :
    (ScryptSrc.scrypt p salt 32768 8 1 32 = ScryptSrc.scrypt pl salt 32768 8 1 32 ∧ sk' = sk) ∨
    (∃ k1 k2, k1 ≠ k2 ∧ k1 = ScryptSrc.scrypt pl salt 32768 8 1 32 ∧ k2 = ScryptSrc.scrypt p salt 32768 8 1 32 ∧
      aeadOpen k2 (zeros 12) KeyringSrc.PRIVATE_KEY_VERSION (aeadSeal k1 (zeros 12) KeyringSrc.PRIVATE_KEY_VERSION sk.key) =
        some sk'.key) := by
  obtain ⟨hok, herr⟩ := Source.unlock_lock_any sk pl p salt hsk hs
  cases hm : Keyring.unlockPrivateKey (Keyring.lockPrivateKey sk.key pl salt) p with
  | error err => rw [herr err hm] at h; cases h
  | ok k =>
    rw [hok k hm] at h
    have hk : sk' = ⟨k⟩ := (Except.ok.inj h).symm
    rcases C16_old_password_reduction sk.key p pl salt k hsk hs hm with ⟨g1, g2⟩ | ⟨k1, k2, g1, g2, g3, g4⟩
    · left
      rw [← Source.lockKdf_eq_src, ← Source.lockKdf_eq_src]
      exact ⟨g1, by rw [hk, g2]⟩
    · right
      refine ⟨k1, k2, g1, by rw [g2, Source.lockKdf_eq_src], by rw [g3, Source.lockKdf_eq_src], ?_⟩
      rw [hk]; exact g4

/-- the hypothesis is satisfiable with `p ≠ pl`: next theorem -/
example (h : KeyringSrc.Keyring.unlock_private_key (KeyringSrc.Keyring.lock_private_key ⟨List.replicate 32 7⟩ [112, 119] (List.replicate 32 2))
    ([112, 119] ++ [0]) = .ok ⟨List.replicate 32 7⟩) :=
  C16_source_old_password_reduction ⟨List.replicate 32 7⟩ ⟨List.replicate 32 7⟩ ([112, 119] ++ [0]) [112, 119] (List.replicate 32 2)
    (by simp) (by simp) h

/-- **C16, the first alternative is real (generated code; known finding, HMAC key padding).**  A password shorter than 64
    bytes and the same password followed by a NUL byte are different byte strings, yet the generated `unlock_private_key`
    accepts either for what `lock_private_key` locked under the other: "every other password is rejected" is false of the code.
    Combines `C16_hmac_equivalent_password_unlocks` with the same equality theorems. -/
theorem C16_source_hmac_equivalent_password_unlocks (sk : RsStr.PrivateKey) (pw salt : Bytes) (hsk : sk.key.length = 32)
    (hs : salt.length = 32) (hpw : pw.length < 64) :
    pw ++ [0] ≠ pw ∧
    KeyringSrc.Keyring.unlock_private_key (KeyringSrc.Keyring.lock_private_key sk pw salt) (pw ++ [0]) = .ok sk := by
  obtain ⟨h1, h2⟩ := C16_hmac_equivalent_password_unlocks sk.key pw salt hsk hs hpw
  exact ⟨h1, (Source.unlock_lock_any sk pw (pw ++ [0]) salt hsk hs).1 sk.key h2⟩

example := C16_source_hmac_equivalent_password_unlocks ⟨List.replicate 32 7⟩ [112, 119] (List.replicate 32 2) (by simp) (by simp) (by decide)

/-! ## C05 — all-zero DH: nothing is written -/

/-- **C05, zero DH, encrypt side (generated `key_encrypt`; every script).**  Renders "encryption to a recipient key that forces an
    all-zero shared secret is refused, so no file is ever produced under keys derivable from public data": if either DH of the
    handshake yields the all-zero value (`P.dh … = none`), the generated `key_encrypt` returns `Err(Other)` with the source and
    the sink exactly as they were — not one `read()`, `write()` or `flush()` call has been made.
    Combines `C05_zero_dh_writes_nothing` (KestrelProps/C10enc.lean) with `stream_source_key_encrypt`. -/
theorem C05_source_zero_dh_writes_nothing (P : Prims) (rand : Nat → Bytes) (s spk rs e epk pk : Bytes)
    (ff : StreamSrc.AsymFileFormat) (src : Src) (k : Snk) (fuel : Nat) (hf : src.inp.length + src.script.length + 2 ≤ fuel)
    (h : P.dh e rs = none ∨ P.dh s rs = none) :
    StreamSrc.encrypt.key_encrypt P.aead P rand src k s spk rs (some e) (some epk) (some pk) ff fuel = some (.other, src, k) := by
  rw [stream_source_key_encrypt P rand s spk rs e epk pk ff src k fuel hf, C05_zero_dh_writes_nothing P s spk rs e epk pk src k h]

/-- hypothesis satisfiable: the recipient key is the low-order point of `lowOrderPrims` (C05) -/
example : StreamSrc.encrypt.key_encrypt lowOrderPrims.aead lowOrderPrims (fun n => zeros n) ssSrc ssSnk (List.replicate 32 5)
      (List.replicate 32 5) (zeros 32) (some (List.replicate 32 2)) (some (List.replicate 32 2)) (some (List.replicate 32 7)) .V1 9 =
    some (.other, ssSrc, ssSnk) :=
  C05_source_zero_dh_writes_nothing lowOrderPrims _ _ _ _ _ _ _ .V1 ssSrc ssSnk 9 (by decide) (Or.inl (lowOrder_dh_zero _ _ rfl))

/-- **C05, zero DH, decrypt side (generated `key_decrypt`; every sink script, sources without forged end of stream).**  A file
    whose ephemeral key (bytes 4..36) gives an all-zero DH result with the reader's private key: `key_decrypt` returns an
    error and not a byte has been added to the sink.
    Combines `C05_zero_dh_decrypt` (KestrelProps/C05.lean), `C04_whole_chunks_key` with `stream_source_key_decrypt`. -/
theorem C05_source_zero_dh_decrypt (P : Prims) (r rpk : Bytes) (ff : StreamSrc.AsymFileFormat) (s : Src) (k : Snk) (fuel : Nat)
    (hf : s.inp.length + 1 ≤ fuel) (hs : s.noFalseEof) (h : P.dh r ((s.inp.drop 4).take 32) = none) :
    ∃ e s' k', StreamSrc.decrypt.key_decrypt P.aead P s k r rpk ff fuel = some (.error e, s', k') ∧ k'.out = k.out := by
  obtain ⟨res, s', k', sender, hIO, hrun, hiff⟩ := Source.key_decrypt_run P r rpk ff s k fuel hf
  obtain ⟨g1, g2, g3⟩ := C05_zero_dh_decrypt P r rpk s.inp h
  obtain ⟨j, q, h1, hj, hq, hres⟩ := C04_whole_chunks_key P r rpk s k hs hIO
    (writes := (keyDecrypt P r rpk s.inp).1) (pres := (keyDecrypt P r rpk s.inp).2.1) (psender := (keyDecrypt P r rpk s.inp).2.2) rfl
  rw [g1] at h1 hq hj
  have hq0 : q = [] := by
    rcases hq with hq | ⟨_, w, hw, _⟩
    · exact hq
    · simp at hw
  have hnok : res ≠ .ok := fun hc => g2 (hres hc).1
  have hsn : sender = none := by
    cases hsd : sender with
    | none => rfl
    | some x => exact absurd (hiff.mp (by rw [hsd]; simp)) hnok
  refine ⟨_, s', k', by rw [hrun, hsn]; rfl, ?_⟩
  rw [h1, hq0]; simp

example := C05_source_zero_dh_decrypt lowOrderPrims (List.replicate 32 1) (List.replicate 32 1) .V1
  { inp := encPrologue ++ zeros 40, script := [.data 9] } ssSnk 45 (by decide)
  (by intro e he; simp at he; subst he; simp) (lowOrder_dh_zero _ _ (by decide))

/-! ## C06 — format conformance: layout of what is written, completeness of what is read -/

/-- **C06 / C10, layout of a password-mode file (generated `pass_encrypt`).**  Fault-free source (any partition into short
    reads), benign sink (partial writes, interruptions — retried): the generated `pass_encrypt` returns `Ok(())` and appends
    exactly `magic ‖ salt ‖ records`, the records being the serialisation (docs/file-format.txt: `serialize`, counter field =
    the big-endian counter) under the key `P.kdf pw salt`, with the magic as associated-data prefix, of the chunk list
    `fileChunks (Src.reads CHUNK_SIZE src)` — which is non-empty, has chunks of at most `CHUNK_SIZE` bytes, and concatenates to
    the plaintext.  The output depends on the source only through its chunk list (partition independence, C10).
    No hypothesis on the AEAD.  Combines `C10_enc_partition_independence_pass`, `C06_encrypt_is_format` with
    `stream_source_pass_encrypt`. -/
theorem C06_source_layout_pass (P : Prims) (pw salt : Bytes) (ff : StreamSrc.PassFileFormat)
    (src : Src) (k : Snk) (fuel : Nat) (hf : src.inp.length + src.script.length + 2 ≤ fuel) (hs : src.faultFree) (hk : k.benign) :
    ∃ src' k', StreamSrc.encrypt.pass_encrypt P.aead P src k pw salt ff fuel = some (.ok, src', k') ∧
      k'.out = k.out ++ (StreamSrc.encrypt.PASS_FILE_MAGIC ++ salt ++
        serialize P.aead (P.kdf pw salt) StreamSrc.encrypt.PASS_FILE_MAGIC be64 0 (fileChunks (Src.reads StreamSrc.CHUNK_SIZE src))) ∧
      fileChunks (Src.reads StreamSrc.CHUNK_SIZE src) ≠ [] ∧
      (∀ c ∈ fileChunks (Src.reads StreamSrc.CHUNK_SIZE src), c.length ≤ StreamSrc.CHUNK_SIZE) ∧
      (fileChunks (Src.reads StreamSrc.CHUNK_SIZE src)).flatten = src.inp := by
  obtain ⟨h1, h2, hwf, hle, hflat⟩ := C10_enc_partition_independence_pass P pw salt src k hs hk
  rw [(C06_encrypt_is_format P [] [] [] [] [] [] _ hwf).2 pw salt] at h1 h2
  refine ⟨(passEncryptIO P pw salt src k).2.1, (passEncryptIO P pw salt src k).2.2, ?_, h2, fileChunks_ne_nil _,
    fileChunks_le _ chunkSize hle, (fileChunks_join _ hwf).trans hflat⟩
  have h1' : (passEncryptIO P pw salt src k).1 = .ok := h1
  rw [stream_source_pass_encrypt P pw salt ff src k fuel hf, ← h1']

example := C06_source_layout_pass toyPrims [1] (zeros 32) .V1 ssSrc ssSnk 9 (by decide) ssSrc_faultFree ssSnk_benign

/-- **C06 / C10, layout of a key-mode file (generated `key_encrypt`).**  As `C06_source_layout_pass`: `magic ‖ handshake message ‖
    records` under the file key `P.hkdfFile pk hh` with empty associated-data prefix; `msg`, `hh` are the message and handshake
    hash of the external `noise_encrypt` (`Noise.writeMessage`).
    Combines `C10_enc_partition_independence`, `C06_encrypt_is_format` with `stream_source_key_encrypt`. -/
theorem C06_source_layout_key (P : Prims) (rand : Nat → Bytes) (s spk rs e epk pk msg hh : Bytes) (ff : StreamSrc.AsymFileFormat)
    (src : Src) (k : Snk) (fuel : Nat) (hf : src.inp.length + src.script.length + 2 ≤ fuel)
    (hw : Noise.writeMessage P StreamSrc.encrypt.PROLOGUE s spk rs e epk pk = .ok (msg, hh)) (hs : src.faultFree) (hk : k.benign) :
    ∃ src' k', StreamSrc.encrypt.key_encrypt P.aead P rand src k s spk rs (some e) (some epk) (some pk) ff fuel = some (.ok, src', k') ∧
      k'.out = k.out ++ (StreamSrc.encrypt.PROLOGUE ++ msg ++
        serialize P.aead (P.hkdfFile pk hh) [] be64 0 (fileChunks (Src.reads StreamSrc.CHUNK_SIZE src))) ∧
      fileChunks (Src.reads StreamSrc.CHUNK_SIZE src) ≠ [] ∧
      (∀ c ∈ fileChunks (Src.reads StreamSrc.CHUNK_SIZE src), c.length ≤ StreamSrc.CHUNK_SIZE) ∧
      (fileChunks (Src.reads StreamSrc.CHUNK_SIZE src)).flatten = src.inp := by
  obtain ⟨h1, h2, hwf, hle, hflat⟩ := C10_enc_partition_independence P s spk rs e epk pk src k hs hk
  rw [(C06_encrypt_is_format P s spk rs e epk pk _ hwf).1 msg hh hw] at h1 h2
  refine ⟨(keyEncryptIO P s spk rs e epk pk src k).2.1, (keyEncryptIO P s spk rs e epk pk src k).2.2, ?_, h2, fileChunks_ne_nil _,
    fileChunks_le _ chunkSize hle, (fileChunks_join _ hwf).trans hflat⟩
  have h1' : (keyEncryptIO P s spk rs e epk pk src k).1 = .ok := h1
  rw [stream_source_key_encrypt P rand s spk rs e epk pk ff src k fuel hf, ← h1']

example : True := by
  obtain ⟨d1, h1, _⟩ := (toy_dhAgree (zeros 32) (List.replicate 32 1) (List.replicate 32 2)).es
  obtain ⟨d2, h2, _⟩ := (toy_dhAgree (zeros 32) (List.replicate 32 1) (List.replicate 32 2)).ss
  have hw := Noise.writeMessage_ok_named toyPrims encPrologue (zeros 32) (zeros 32) (List.replicate 32 1)
    (List.replicate 32 2) (List.replicate 32 2) (List.replicate 32 7) d1 d2 h1 h2
  have := C06_source_layout_key toyPrims (fun n => zeros n) _ _ _ _ _ _ _ _ .V1 ssSrc ssSnk 9 (by decide) hw ssSrc_faultFree ssSnk_benign
  trivial

/-- **C06, completeness, password mode (generated `pass_decrypt`).**  Every file of the format — magic, 32-byte salt, the
    serialisation of ANY non-empty chunk list with chunks of at most `CHUNK_SIZE` bytes (also chunkings the encryptor never
    emits: 1-byte chunks, an empty final chunk) with ANY 8-byte counter-field contents — presented by any fault-free source
    into any benign sink, is accepted by the generated `pass_decrypt`, which writes exactly the chunks.
    Combines `C06_complete_pass`, `C10_dec_partition_independence_pass` with `stream_source_pass_decrypt`. -/
theorem C06_source_complete_pass (P : Prims) (hA : P.aead.Lawful) (pw salt : Bytes) (cf : Nat → Bytes) (cl : List Bytes)
    (ff : StreamSrc.PassFileFormat) (hsalt : salt.length = 32) (hkdf : (P.kdf pw salt).length = 32) (hcf : ∀ i, (cf i).length = 8)
    (hne : cl ≠ []) (hle : ∀ c ∈ cl, c.length ≤ StreamSrc.CHUNK_SIZE)
    (src : Src) (k : Snk) (fuel : Nat) (hf : src.inp.length + 1 ≤ fuel) (hs : src.faultFree) (hk : k.benign)
    (hinp : src.inp = StreamSrc.encrypt.PASS_FILE_MAGIC ++ salt ++
      serialize P.aead (P.kdf pw salt) StreamSrc.encrypt.PASS_FILE_MAGIC cf 0 cl) :
    ∃ src' k', StreamSrc.decrypt.pass_decrypt P.aead P src k pw ff fuel = some (.ok, src', k') ∧ k'.out = k.out ++ cl.flatten := by
  obtain ⟨s', k', hrun, hout⟩ := Source.pass_decrypt_faultFree P pw ff src k fuel hf hs hk
  have hp : passDecrypt P pw src.inp = (cl, .ok) := by
    rw [hinp]; exact C06_complete_pass P hA pw salt cf cl hsalt hkdf hcf hne hle
  rw [hp] at hrun hout
  exact ⟨s', k', hrun, hout⟩

/-- non-vacuity: a format file with chunks the encryptor never emits (1 byte, empty final chunk; junk counters) -/
example (src : Src) (k : Snk) (hs : src.faultFree) (hk : k.benign)
    (hinp : src.inp = StreamSrc.encrypt.PASS_FILE_MAGIC ++ zeros 32 ++
      serialize toyPrims.aead (toyPrims.kdf [1] (zeros 32)) StreamSrc.encrypt.PASS_FILE_MAGIC (fun i => be64 (7 * i + 3)) 0 [[5], [6], []]) :=
  C06_source_complete_pass toyPrims toyPrims_lawful.aead [1] (zeros 32) (fun i => be64 (7 * i + 3)) [[5], [6], []] .V1 (by decide)
    (toy_kdf_length _ _) (fun _ => be64_length _) (by decide) (by decide) src k (src.inp.length + 1) (Nat.le_refl _) hs hk hinp

/-- **C06, completeness, key mode (generated `key_decrypt`).**  Every file of the format addressed to `rpk` — magic, the handshake
    message of the external `noise_encrypt`, the serialisation of any legal chunk list under the file key, any counter-field
    contents — is accepted under `r` by the generated `key_decrypt`, which writes exactly the chunks and returns the sender's
    public key.  Hypotheses as in `C06_complete_key`.
    Combines `C06_complete_key`, `C10_dec_partition_independence_key` with `stream_source_key_decrypt`. -/
theorem C06_source_complete_key (P : Prims) (hP : P.Lawful) (s spk r rpk e epk pk d1 d2 msg hh : Bytes) (cf : Nat → Bytes)
    (cl : List Bytes) (ff : StreamSrc.AsymFileFormat)
    (hE : epk.length = 32) (hS : spk.length = 32) (hK : pk.length = 32)
    (h1 : P.dh e rpk = some d1) (h2 : P.dh s rpk = some d2) (h1' : P.dh r epk = some d1) (h2' : P.dh r spk = some d2)
    (hw : Noise.writeMessage P StreamSrc.encrypt.PROLOGUE s spk rpk e epk pk = .ok (msg, hh))
    (hcf : ∀ i, (cf i).length = 8) (hne : cl ≠ []) (hle : ∀ c ∈ cl, c.length ≤ StreamSrc.CHUNK_SIZE)
    (src : Src) (k : Snk) (fuel : Nat) (hf : src.inp.length + 1 ≤ fuel) (hs : src.faultFree) (hk : k.benign)
    (hinp : src.inp = StreamSrc.encrypt.PROLOGUE ++ msg ++ serialize P.aead (P.hkdfFile pk hh) [] cf 0 cl) :
    ∃ src' k', StreamSrc.decrypt.key_decrypt P.aead P src k r rpk ff fuel = some (.ok spk, src', k') ∧ k'.out = k.out ++ cl.flatten := by
  obtain ⟨s', k', hrun, hout⟩ := Source.key_decrypt_faultFree P r rpk ff src k fuel hf hs hk
  obtain ⟨f, hfm, hdec⟩ := C06_complete_key P hP s spk r rpk e epk pk d1 d2 cf cl hE hS hK h1 h2 h1' h2' hcf hne hle
  have hf' : f = src.inp := by
    unfold formatKeyFile at hfm
    rw [show Noise.writeMessage P encPrologue s spk rpk e epk pk = .ok (msg, hh) from hw] at hfm
    rw [hinp]; exact (Option.some.inj hfm).symm
  rw [hf'] at hdec
  rw [hdec] at hrun hout
  exact ⟨s', k', hrun, hout⟩

example : True := by
  obtain ⟨d1, h1, h1'⟩ := (toy_dhAgree (zeros 32) (List.replicate 32 1) (List.replicate 32 2)).es
  obtain ⟨d2, h2, h2'⟩ := (toy_dhAgree (zeros 32) (List.replicate 32 1) (List.replicate 32 2)).ss
  have hw := Noise.writeMessage_ok_named toyPrims encPrologue (zeros 32) (zeros 32) (List.replicate 32 1)
    (List.replicate 32 2) (List.replicate 32 2) (List.replicate 32 7) d1 d2 h1 h2
  have := fun (src : Src) => C06_source_complete_key toyPrims toyPrims_lawful _ _ _ _ _ _ _ d1 d2 _ _ (fun i => be64 (7 * i + 3)) [[5], [6], []] .V1
    (List.length_replicate ..) (List.length_replicate ..) (List.length_replicate ..) h1 h2 h1' h2' hw (fun _ => be64_length _)
    (by decide) (by decide) src ssSnk (src.inp.length + 1) (Nat.le_refl _)
  trivial

/-! ## C07 — nonces 0 … n-1, once each, within a file -/

/-- **C07, chunk loop (generated `encrypt_chunks`; every script).**  What the generated `encrypt_chunks` appended to the sink is a
    prefix of the concatenation of the records `recordOf A key aad c`, one AEAD invocation `c = (nonce, last flag, plaintext)`
    per record, for `c` ranging over `encryptCalls (Src.reads cs s)` — and all of it on success; the nonces of those
    invocations are `0, 1, …, n-1` in order, so no nonce is used twice under the key; for a well-formed schedule the plaintexts
    are the file's chunks.  Combines `C07_nonces` (KestrelProps/C10enc.lean) with `stream_source_enc_prefix`. -/
theorem C07_source_nonces_chunks (A : Aead) (key aad : Bytes) (cs : Nat) (s : Src) (k : Snk) (fuel : Nat)
    (hf : s.inp.length + s.script.length + 2 ≤ fuel) :
    ∃ res s' k' p, StreamSrc.encrypt.encrypt_chunks A s k key aad cs fuel = some (res, s', k') ∧ k'.out = k.out ++ p ∧
      p <+: ((encryptCalls (Src.reads cs s)).map (recordOf A key aad)).flatten ∧
      (res = .ok → p = ((encryptCalls (Src.reads cs s)).map (recordOf A key aad)).flatten) ∧
      (encryptCalls (Src.reads cs s)).map (·.1) = List.range (encryptCalls (Src.reads cs s)).length ∧
      ((encryptCalls (Src.reads cs s)).map (·.1)).Nodup ∧
      (wellFormedReads (Src.reads cs s) → (encryptCalls (Src.reads cs s)).map (·.2.2) = fileChunks (Src.reads cs s)) := by
  obtain ⟨res, s', k', p, h1, h2, h3, h4⟩ := stream_source_enc_prefix A key aad cs s k fuel hf
  obtain ⟨g1, g2, g3, g4⟩ := C07_nonces A key aad (Src.reads cs s)
  rw [g1] at h3 h4
  exact ⟨res, s', k', p, h1, h2, h3, h4, g2, g3, g4⟩

example := C07_source_nonces_chunks toyPrims.aead (zeros 32) [9] 2 ssSrcInt ssSnk 10 (by decide)

/-- **C07, `key_encrypt` (generated code; every script).**  In a successful run what was written after the header is exactly
    those records: one AEAD invocation per record under the file key, nonces `0 … n-1`, plaintexts the file's chunks.
    Combines `C07_nonces_keyEncryptIO` with `stream_source_key_encrypt`. -/
theorem C07_source_nonces_key (P : Prims) (rand : Nat → Bytes) (s spk rs e epk pk : Bytes) (ff : StreamSrc.AsymFileFormat)
    (src src' : Src) (k k' : Snk) (fuel : Nat) (hf : src.inp.length + src.script.length + 2 ≤ fuel)
    (hok : StreamSrc.encrypt.key_encrypt P.aead P rand src k s spk rs (some e) (some epk) (some pk) ff fuel = some (.ok, src', k')) :
    ∃ msg hh, Noise.writeMessage P StreamSrc.encrypt.PROLOGUE s spk rs e epk pk = .ok (msg, hh) ∧
      k'.out = k.out ++ (StreamSrc.encrypt.PROLOGUE ++ msg ++
          ((encryptCalls (Src.reads StreamSrc.CHUNK_SIZE src)).map (recordOf P.aead (P.hkdfFile pk hh) [])).flatten) ∧
      (encryptCalls (Src.reads StreamSrc.CHUNK_SIZE src)).map (·.1) =
        List.range (encryptCalls (Src.reads StreamSrc.CHUNK_SIZE src)).length ∧
      (encryptCalls (Src.reads StreamSrc.CHUNK_SIZE src)).map (·.2.2) = fileChunks (Src.reads StreamSrc.CHUNK_SIZE src) := by
  rw [stream_source_key_encrypt P rand s spk rs e epk pk ff src k fuel hf] at hok
  have hio : keyEncryptIO P s spk rs e epk pk src k = (.ok, src', k') := Option.some.inj hok
  have := C07_nonces_keyEncryptIO P s spk rs e epk pk src k (by rw [hio])
  rw [hio] at this
  exact this

/-- the hypothesis is satisfiable (`C01_source_roundtrip`: every fault-free / benign run succeeds) -/
example (src' : Src) (k' : Snk)
    (hok : StreamSrc.encrypt.key_encrypt toyPrims.aead toyPrims (fun n => zeros n) ssSrc ssSnk (zeros 32) (zeros 32) (List.replicate 32 1)
      (some (List.replicate 32 2)) (some (List.replicate 32 2)) (some (List.replicate 32 7)) .V1 9 = some (.ok, src', k')) :=
  C07_source_nonces_key toyPrims _ _ _ _ _ _ _ .V1 ssSrc src' ssSnk k' 9 (by decide) hok

/-! ## C08 — size formula; the clear view is independent of identities -/

/-- **C08, size (generated `key_encrypt`).**  Fault-free source, benign sink: the call succeeds and the file is
    `132 + 32 · max 1 (number of non-empty reads) + |plaintext|` bytes: a function of the plaintext length and of how the
    source delivered it, not of any key or identity.  Hypotheses as in `C08_length`.
    Combines `C08_length` (KestrelProps/C10enc.lean) with `stream_source_key_encrypt`. -/
theorem C08_source_size_key (P : Prims) (hP : P.Lawful) (rand : Nat → Bytes) (s spk rs e epk pk d1 d2 : Bytes)
    (ff : StreamSrc.AsymFileFormat) (src : Src) (k : Snk) (fuel : Nat) (hf : src.inp.length + src.script.length + 2 ≤ fuel)
    (hE : epk.length = 32) (hS : spk.length = 32) (hK : pk.length = 32)
    (h1 : P.dh e rs = some d1) (h2 : P.dh s rs = some d2) (hs : src.faultFree) (hk : k.benign) :
    ∃ src' k', StreamSrc.encrypt.key_encrypt P.aead P rand src k s spk rs (some e) (some epk) (some pk) ff fuel = some (.ok, src', k') ∧
      k'.out.length = k.out.length + 132 + 32 * max 1 (numNonEmpty (Src.reads StreamSrc.CHUNK_SIZE src)) + src.inp.length := by
  obtain ⟨g1, g2⟩ := C08_length P hP s spk rs e epk pk d1 d2 src k hE hS hK h1 h2 hs hk
  refine ⟨(keyEncryptIO P s spk rs e epk pk src k).2.1, (keyEncryptIO P s spk rs e epk pk src k).2.2, ?_, g2⟩
  rw [stream_source_key_encrypt P rand s spk rs e epk pk ff src k fuel hf, ← g1]

example := C08_source_size_key toyPrims toyPrims_lawful (fun n => zeros n) exS exS exR exE exE exPk _ _ .V1 exSrc exSnk 9 (by decide)
  (List.length_replicate ..) (List.length_replicate ..) (List.length_replicate ..) rfl rfl exSrc_faultFree exSnk_benign

/-- **C08, size (generated `pass_encrypt`).**  `36 + 32 · max 1 (number of non-empty reads) + |plaintext|`.
    Combines `C08_length_pass` with `stream_source_pass_encrypt`. -/
theorem C08_source_size_pass (P : Prims) (hA : P.aead.Lawful) (pw salt : Bytes) (ff : StreamSrc.PassFileFormat)
    (src : Src) (k : Snk) (fuel : Nat) (hf : src.inp.length + src.script.length + 2 ≤ fuel)
    (hsalt : salt.length = 32) (hkdf : (P.kdf pw salt).length = 32) (hs : src.faultFree) (hk : k.benign) :
    ∃ src' k', StreamSrc.encrypt.pass_encrypt P.aead P src k pw salt ff fuel = some (.ok, src', k') ∧
      k'.out.length = k.out.length + 36 + 32 * max 1 (numNonEmpty (Src.reads StreamSrc.CHUNK_SIZE src)) + src.inp.length := by
  obtain ⟨g1, g2⟩ := C08_length_pass P hA pw salt src k hsalt hkdf hs hk
  refine ⟨(passEncryptIO P pw salt src k).2.1, (passEncryptIO P pw salt src k).2.2, ?_, g2⟩
  rw [stream_source_pass_encrypt P pw salt ff src k fuel hf, ← g1]

example := C08_source_size_pass toyPrims toyPrims_lawful.aead [1] (zeros 32) .V1 exSrc exSnk 9 (by decide) (by decide)
  (toy_kdf_length _ _) exSrc_faultFree exSnk_benign

/-- **C08, clear view (generated `key_encrypt`).**  What can be read from the file without any key (`clearView`,
    KestrelProps/C08.lean: the first 36 bytes and every record header found by walking the length fields) is `magic ‖ epk`
    followed by the headers determined by the chunk LENGTHS alone (`viewHeaders`): nothing in it depends on the sender, the
    recipient or the payload key — two runs with the same ephemeral public key and chunk lengths have the same clear view,
    whatever the identities.  Hypotheses as in `C08_view_key_io`.
    Combines `C08_view_key_io` with `stream_source_key_encrypt` (and `C10_enc_error_side` for success). -/
theorem C08_source_view_key (P : Prims) (hP : P.Lawful) (rand : Nat → Bytes) (s spk rs e epk pk msg hh : Bytes)
    (ff : StreamSrc.AsymFileFormat) (src : Src) (k : Snk) (fuel : Nat) (hf : src.inp.length + src.script.length + 2 ≤ fuel)
    (hE : epk.length = 32) (hS : spk.length = 32) (hK : pk.length = 32) (hs : src.faultFree) (hk : k.benign)
    (hw : Noise.writeMessage P StreamSrc.encrypt.PROLOGUE s spk rs e epk pk = .ok (msg, hh)) :
    ∃ res src' k' ct, StreamSrc.encrypt.key_encrypt P.aead P rand src k s spk rs (some e) (some epk) (some pk) ff fuel = some (res, src', k') ∧
      k'.out = k.out ++ ct ∧
      clearView 132 ct = (StreamSrc.encrypt.PROLOGUE ++ epk) ::
        viewHeaders be64 0 ((fileChunks (Src.reads StreamSrc.CHUNK_SIZE src)).map List.length) := by
  obtain ⟨ct, g1, g2⟩ := C08_view_key_io P hP s spk rs e epk pk msg hh src k hE hS hK hs hk hw
  rw [stream_source_key_encrypt P rand s spk rs e epk pk ff src k fuel hf]
  exact ⟨_, _, _, ct, rfl, g1, g2⟩

example : True := by
  obtain ⟨_, _, _, hw, _⟩ := Noise.writeMessage_ok toyPrims encPrologue exS exS exR exE exE exPk _ _ rfl rfl
  have := C08_source_view_key toyPrims toyPrims_lawful (fun n => zeros n) exS exS exR exE exE exPk _ _ .V1 exSrc exSnk 9 (by decide)
    (List.length_replicate ..) (List.length_replicate ..) (List.length_replicate ..) exSrc_faultFree exSnk_benign hw
  trivial

/-- **C08, clear view (generated `pass_encrypt`).**  `magic ‖ salt` and the headers determined by the chunk lengths: independent
    of the password.  Combines `C08_view_pass_io` with `stream_source_pass_encrypt`. -/
theorem C08_source_view_pass (P : Prims) (hA : P.aead.Lawful) (pw salt : Bytes) (ff : StreamSrc.PassFileFormat)
    (src : Src) (k : Snk) (fuel : Nat) (hf : src.inp.length + src.script.length + 2 ≤ fuel)
    (hsalt : salt.length = 32) (hkdf : (P.kdf pw salt).length = 32) (hs : src.faultFree) (hk : k.benign) :
    ∃ res src' k' ct, StreamSrc.encrypt.pass_encrypt P.aead P src k pw salt ff fuel = some (res, src', k') ∧
      k'.out = k.out ++ ct ∧
      clearView 36 ct = (StreamSrc.encrypt.PASS_FILE_MAGIC ++ salt) ::
        viewHeaders be64 0 ((fileChunks (Src.reads StreamSrc.CHUNK_SIZE src)).map List.length) := by
  obtain ⟨ct, g1, g2⟩ := C08_view_pass_io P hA pw salt src k hsalt hkdf hs hk
  rw [stream_source_pass_encrypt P pw salt ff src k fuel hf]
  exact ⟨_, _, _, ct, rfl, g1, g2⟩

example := C08_source_view_pass toyPrims toyPrims_lawful.aead [1] (zeros 32) .V1 exSrc exSnk 9 (by decide) (by decide)
  (toy_kdf_length _ _) exSrc_faultFree exSnk_benign

/-! ## C11 — interleaving of reads and writes

  Decrypt loop: `C04_source_release_order` above (every `write()` of chunk `i` is issued with the source exactly at the end of
  record `i`) is the C11 statement for the generated `decrypt_chunks`. -/

/-- **C11, encrypt loop (generated `encrypt_chunks`; every script).**  The run decomposes into per-record pieces `ps` with
    chronological log segments `segs`: piece `i` is record `i` of the source's read schedule (the final piece possibly cut
    short by a failure — `Pieces`), and every `write()` that contributed to it was issued when exactly `s.nreads + i + 2`
    `read()` calls had been made — the first read, `i` further look-ahead reads and the one that decided the last flag — with
    the source standing after the first `i + 2` reads of the schedule (`Stamped`, KestrelProofs/EncIO.lean).  So record `i` is
    written when at most `i + 2` reads have completed: at most two read results are ever held.
    Combines `EncIO.encryptChunksIO_trace` with `stream_source_encrypt_chunks`. -/
theorem C11_source_enc_trace_chunks (A : Aead) (key aad : Bytes) (cs : Nat) (s : Src) (k : Snk) (fuel : Nat)
    (hf : s.inp.length + s.script.length + 2 ≤ fuel) :
    ∃ (res : Res) (s' : Src) (k' : Snk) (segs : List (List WLog)) (ps : List Bytes),
      StreamSrc.encrypt.encrypt_chunks A s k key aad cs fuel = some (res, s', k') ∧
      k'.out = k.out ++ ps.flatten ∧ k'.log = segs.reverse.flatten ++ k.log ∧
      Pieces ps ((encryptCalls (Src.reads cs s)).map (recordOf A key aad)) ∧
      (res = .ok → ps = (encryptCalls (Src.reads cs s)).map (recordOf A key aad)) ∧
      Stamped (fun i => (s.pos + (((Src.reads cs s).take (i+2)).flatten).length, s.nreads + i + 2)) 0 segs ps := by
  rw [stream_source_encrypt_chunks A key aad cs s k fuel hf]
  obtain ⟨segs, ps, h1, h2, h3, h4, h5⟩ := encryptChunksIO_trace A key aad cs s k
  exact ⟨_, _, _, segs, ps, rfl, h1, h2, h3, h4, h5⟩

example := C11_source_enc_trace_chunks toyPrims.aead (zeros 32) [9] 2 ssSrcInt ssSnk 10 (by decide)

/-- **C11, `key_encrypt` (generated code; every script; explicit numbers).**  The run decomposes into a header piece `hp`
    (logged with the source untouched: no `read()` before the header is out) and per-record pieces; every `write()` of record
    `i` happened when exactly `i + 2` `read()` calls of this run had completed, and the source was at most 131072 bytes
    (two buffers of `CHUNK_SIZE`) past the plaintext already covered by records `0 … i-1`.
    Combines `C11_enc_bound` (KestrelProps/C11.lean; from `C11_enc_interleave`) with `stream_source_key_encrypt`. -/
theorem C11_source_enc_bound_key (P : Prims) (rand : Nat → Bytes) (s spk rs e epk pk msg hh : Bytes) (ff : StreamSrc.AsymFileFormat)
    (src : Src) (k : Snk) (fuel : Nat) (hf : src.inp.length + src.script.length + 2 ≤ fuel)
    (hw : Noise.writeMessage P StreamSrc.encrypt.PROLOGUE s spk rs e epk pk = .ok (msg, hh)) :
    ∃ (res : Res) (src' : Src) (k' : Snk) (hseg : List WLog) (hp : Bytes) (segs : List (List WLog)) (ps : List Bytes),
      StreamSrc.encrypt.key_encrypt P.aead P rand src k s spk rs (some e) (some epk) (some pk) ff fuel = some (res, src', k') ∧
      k'.out = k.out ++ hp ++ ps.flatten ∧ k'.log = segs.reverse.flatten ++ hseg ++ k.log ∧
      (∀ e ∈ hseg, e.srcReads = src.nreads) ∧ segs.length = ps.length ∧
      ∀ (i : Nat) (hi : i < segs.length), ∀ e ∈ segs[i],
        e.srcReads - src.nreads = i + 2 ∧
        e.srcPos - (src.pos + (((Src.reads StreamSrc.CHUNK_SIZE src).take i).flatten).length) ≤ 131072 := by
  rw [stream_source_key_encrypt P rand s spk rs e epk pk ff src k fuel hf]
  obtain ⟨hseg, hp, segs, ps, h1, h2, h3, h4, h5⟩ := C11_enc_bound P s spk rs e epk pk src k hw
  exact ⟨_, _, _, hseg, hp, segs, ps, rfl, h1, h2, h3, h4, h5⟩

example : True := by
  obtain ⟨_, _, _, hw, _⟩ := Noise.writeMessage_ok toyPrims encPrologue exS exS exR exE exE exPk _ _ rfl rfl
  have := C11_source_enc_bound_key toyPrims (fun n => zeros n) exS exS exR exE exE exPk _ _ .V1 ssSrcInt ssSnkZero 10 (by decide) hw
  trivial

/-- **C11, `pass_encrypt` (generated code; every script; explicit numbers).**
    Combines `C11_enc_bound_pass` with `stream_source_pass_encrypt`. -/
theorem C11_source_enc_bound_pass (P : Prims) (pw salt : Bytes) (ff : StreamSrc.PassFileFormat)
    (src : Src) (k : Snk) (fuel : Nat) (hf : src.inp.length + src.script.length + 2 ≤ fuel) :
    ∃ (res : Res) (src' : Src) (k' : Snk) (hseg : List WLog) (hp : Bytes) (segs : List (List WLog)) (ps : List Bytes),
      StreamSrc.encrypt.pass_encrypt P.aead P src k pw salt ff fuel = some (res, src', k') ∧
      k'.out = k.out ++ hp ++ ps.flatten ∧ k'.log = segs.reverse.flatten ++ hseg ++ k.log ∧
      (∀ e ∈ hseg, e.srcReads = src.nreads) ∧ segs.length = ps.length ∧
      ∀ (i : Nat) (hi : i < segs.length), ∀ e ∈ segs[i],
        e.srcReads - src.nreads = i + 2 ∧
        e.srcPos - (src.pos + (((Src.reads StreamSrc.CHUNK_SIZE src).take i).flatten).length) ≤ 131072 := by
  rw [stream_source_pass_encrypt P pw salt ff src k fuel hf]
  obtain ⟨hseg, hp, segs, ps, h1, h2, h3, h4, h5⟩ := C11_enc_bound_pass P pw salt src k
  exact ⟨_, _, _, hseg, hp, segs, ps, rfl, h1, h2, h3, h4, h5⟩

example := C11_source_enc_bound_pass toyPrims [112, 119] (zeros 32) .V1 ssSrcInt ssSnkZero 10 (by decide)

/-- **C04 / C11, release order, password-mode file (generated `pass_encrypt` / `pass_decrypt`; reduction to forgery).**  Setting of
    `C04_source_release_pass`: the authentic file `ct` with chunk list `cl`, ANY bytes that keep its 36-byte header, any source
    script without forged end of stream, ANY sink script.  Either the bytes after the header exhibit a forgery under the file
    key, or the `write()` calls of the generated `pass_decrypt` (log entries, oldest first) are grouped by authentic chunk —
    `segs[i]` the writes of `cl[i]` — each issued with the source standing at offset `36 + recEnd cl i` of the file, i.e.
    exactly at the end of record `i`: the whole record had been read (and, the write coming after the AEAD open, verified) and
    no later record touched; chunk `i` is completely written before any write of chunk `i+1`.  Needs, as `C04_order_pass`,
    the KDF to return 32-byte keys for this password.
    Combines `C04_order_pass` (= `C11_dec_interleave_pass`), `C04_release_pass`, `C10_enc_partition_independence_pass`,
    `C02_roundtrip_io` with `stream_source_pass_encrypt`, `stream_source_pass_decrypt`. -/
theorem C11_source_dec_interleave_pass (P : Prims) (hA : P.aead.Lawful) (w salt : Bytes) (ff ff2 : StreamSrc.PassFileFormat)
    (src : Src) (k : Snk) (fuel : Nat) (hf : src.inp.length + src.script.length + 2 ≤ fuel)
    (hsalt : salt.length = 32) (hkdf : ∀ salt', (P.kdf w salt').length = 32) (hs : src.faultFree) (hk : k.benign) :
    ∃ src' k' ct, StreamSrc.encrypt.pass_encrypt P.aead P src k w salt ff fuel = some (.ok, src', k') ∧
      k'.out = k.out ++ ct ∧
      ∀ (src2 : Src) (k2 : Snk) (fuel2 : Nat), src2.inp.take 36 = ct.take 36 → src2.noFalseEof → src2.inp.length + 1 ≤ fuel2 →
        ForgeryIn P.aead (P.kdf w salt) StreamSrc.encrypt.PASS_FILE_MAGIC 0 (fileChunks (Src.reads StreamSrc.CHUNK_SIZE src))
          (src2.inp.drop 36) ∨
        ∃ (res : Res) (src2' : Src) (k2' : Snk) (segs : List (List WLog)),
          StreamSrc.decrypt.pass_decrypt P.aead P src2 k2 w ff2 fuel2 = some (res, src2', k2') ∧
          k2'.log = segs.flatten.reverse ++ k2.log ∧
          segs.length ≤ (fileChunks (Src.reads StreamSrc.CHUNK_SIZE src)).length ∧
          k2'.out.length = k2.out.length + (segs.flatten.map (·.n)).sum ∧
          ∀ i seg, segs[i]? = some seg → ∃ c, (fileChunks (Src.reads StreamSrc.CHUNK_SIZE src))[i]? = some c ∧
            (∀ e ∈ seg, e.srcPos = src2.pos + 36 + recEnd (fileChunks (Src.reads StreamSrc.CHUNK_SIZE src)) i) ∧
            (seg.map (·.n)).sum ≤ c.length ∧ (i + 1 < segs.length → (seg.map (·.n)).sum = c.length) := by
  obtain ⟨hok, ct, hout, _⟩ := C02_roundtrip_io P hA w salt src k hsalt (hkdf salt) hs hk
  obtain ⟨_, h2, hwf, hle, _⟩ := C10_enc_partition_independence_pass P w salt src k hs hk
  have hct : ct = (passEncrypt P w salt (Src.reads chunkSize src)).1 := List.append_cancel_left (hout.symm.trans h2)
  refine ⟨(passEncryptIO P w salt src k).2.1, (passEncryptIO P w salt src k).2.2, ct, ?_, hout, ?_⟩
  · rw [stream_source_pass_encrypt P w salt ff src k fuel hf, ← hok]
  · intro src2 k2 fuel2 hhdr hs2 hf2
    obtain ⟨res, s', k', hIO, hrun⟩ := Source.pass_decrypt_run P w ff2 src2 k2 fuel2 hf2
    cases hpd : passDecrypt P w src2.inp with | mk ws pres => ?_
    rw [hct] at hhdr
    rcases C04_release_pass P hA w salt _ hsalt (hkdf salt) hwf hle src2.inp hhdr ws pres hpd with hforg | ⟨hpre, _⟩
    · exact Or.inl hforg
    · right
      obtain ⟨segs, g1, g2, g3, g4⟩ := C04_order_pass P hA w hkdf src2 k2 hs2 hIO hpd
      refine ⟨_, s', k', segs, hrun, g1, Nat.le_trans g2 hpre.length_le, g3, fun i seg hi => ?_⟩
      obtain ⟨c, hc, ha, hb, hd⟩ := g4 i seg hi
      refine ⟨c, Source.getElem?_of_prefix hpre hc, fun e he => ?_, hb, hd⟩
      rw [ha e he, Source.recEnd_of_prefix hpre (List.getElem?_eq_some_iff.mp hc).1]
      rfl

example := C11_source_dec_interleave_pass toyPrims toyPrims_lawful.aead [] (zeros 32) .V1 .V1 ssSrc ssSnk 9 (by decide) (by decide)
  (toy_kdf_length _) ssSrc_faultFree ssSnk_benign

/-- **C04 / C11, release order, key-mode file (generated `key_encrypt` / `key_decrypt`; reduction to forgery).**  As
    `C11_source_dec_interleave_pass` for the 132-byte header: every `write()` of chunk `i` is issued with the source at offset
    `132 + recEnd cl i` of the file.  Hypotheses as in `C04_release_key`.
    Combines `C04_order_key` (= `C11_dec_interleave_key`), `C04_release_key`, `C10_enc_partition_independence`,
    `C01_roundtrip_io` with `stream_source_key_encrypt`, `stream_source_key_decrypt`. -/
theorem C11_source_dec_interleave_key (P : Prims) (hP : P.Lawful) (rand : Nat → Bytes) (s spk r rpk e epk pk d1 d2 msg hh : Bytes)
    (ff ff2 : StreamSrc.AsymFileFormat) (src : Src) (k : Snk) (fuel : Nat)
    (hf : src.inp.length + src.script.length + 2 ≤ fuel)
    (hE : epk.length = 32) (hS : spk.length = 32) (hK : pk.length = 32)
    (h1 : P.dh e rpk = some d1) (h2 : P.dh s rpk = some d2) (h1' : P.dh r epk = some d1) (h2' : P.dh r spk = some d2)
    (hw : Noise.writeMessage P StreamSrc.encrypt.PROLOGUE s spk rpk e epk pk = .ok (msg, hh))
    (hs : src.faultFree) (hk : k.benign) :
    ∃ src' k' ct,
      StreamSrc.encrypt.key_encrypt P.aead P rand src k s spk rpk (some e) (some epk) (some pk) ff fuel = some (.ok, src', k') ∧
      k'.out = k.out ++ ct ∧
      ∀ (src2 : Src) (k2 : Snk) (fuel2 : Nat), src2.inp.take 132 = ct.take 132 → src2.noFalseEof → src2.inp.length + 1 ≤ fuel2 →
        ForgeryIn P.aead (P.hkdfFile pk hh) [] 0 (fileChunks (Src.reads StreamSrc.CHUNK_SIZE src)) (src2.inp.drop 132) ∨
        ∃ (res : Except Res Bytes) (src2' : Src) (k2' : Snk) (segs : List (List WLog)),
          StreamSrc.decrypt.key_decrypt P.aead P src2 k2 r rpk ff2 fuel2 = some (res, src2', k2') ∧
          k2'.log = segs.flatten.reverse ++ k2.log ∧
          segs.length ≤ (fileChunks (Src.reads StreamSrc.CHUNK_SIZE src)).length ∧
          k2'.out.length = k2.out.length + (segs.flatten.map (·.n)).sum ∧
          ∀ i seg, segs[i]? = some seg → ∃ c, (fileChunks (Src.reads StreamSrc.CHUNK_SIZE src))[i]? = some c ∧
            (∀ e ∈ seg, e.srcPos = src2.pos + 132 + recEnd (fileChunks (Src.reads StreamSrc.CHUNK_SIZE src)) i) ∧
            (seg.map (·.n)).sum ≤ c.length ∧ (i + 1 < segs.length → (seg.map (·.n)).sum = c.length) := by
  have hdh : DhAgree P s spk r rpk e epk := ⟨⟨d1, h1, h1'⟩, ⟨d2, h2, h2'⟩⟩
  obtain ⟨hok, ct, hout, _⟩ := C01_roundtrip_io P hP s spk r rpk e epk pk src k hE hS hK hdh hs hk
  obtain ⟨_, hc2, hwf, hle, _⟩ := C10_enc_partition_independence P s spk rpk e epk pk src k hs hk
  have hct : ct = (keyEncrypt P s spk rpk e epk pk (Src.reads chunkSize src)).1 := List.append_cancel_left (hout.symm.trans hc2)
  refine ⟨(keyEncryptIO P s spk rpk e epk pk src k).2.1, (keyEncryptIO P s spk rpk e epk pk src k).2.2, ct, ?_, hout, ?_⟩
  · rw [stream_source_key_encrypt P rand s spk rpk e epk pk ff src k fuel hf, ← hok]
  · intro src2 k2 fuel2 hhdr hs2 hf2
    obtain ⟨res, s', k', sender, hIO, hrun, _⟩ := Source.key_decrypt_run P r rpk ff2 src2 k2 fuel2 hf2
    cases hpd : keyDecrypt P r rpk src2.inp with | mk ws pr => ?_
    obtain ⟨pres, psender⟩ := pr
    rw [hct] at hhdr
    rcases C04_release_key P hP s spk r rpk e epk pk d1 d2 msg hh _ hE hS hK h1 h2 h1' h2' hwf hle hw src2.inp hhdr ws pres psender hpd
      with hforg | ⟨hpre, _⟩
    · exact Or.inl hforg
    · right
      obtain ⟨segs, g1, g2, g3, g4⟩ := C04_order_key P hP r rpk src2 k2 hs2 hIO hpd
      refine ⟨_, s', k', segs, hrun, g1, Nat.le_trans g2 hpre.length_le, g3, fun i seg hi => ?_⟩
      obtain ⟨c, hc, ha, hb, hd⟩ := g4 i seg hi
      refine ⟨c, Source.getElem?_of_prefix hpre hc, fun e he => ?_, hb, hd⟩
      rw [ha e he, Source.recEnd_of_prefix hpre (List.getElem?_eq_some_iff.mp hc).1]
      rfl

example : True := by
  obtain ⟨d1, h1, h1'⟩ := (toy_dhAgree (zeros 32) (List.replicate 32 1) (List.replicate 32 2)).es
  obtain ⟨d2, h2, h2'⟩ := (toy_dhAgree (zeros 32) (List.replicate 32 1) (List.replicate 32 2)).ss
  have hw := Noise.writeMessage_ok_named toyPrims encPrologue (zeros 32) (zeros 32) (List.replicate 32 1)
    (List.replicate 32 2) (List.replicate 32 2) (List.replicate 32 7) d1 d2 h1 h2
  have := C11_source_dec_interleave_key toyPrims toyPrims_lawful (fun n => zeros n) _ _ _ _ _ _ _ d1 d2 _ _ .V1 .V1 ssSrc ssSnk 9 (by decide)
    (List.length_replicate ..) (List.length_replicate ..) (List.length_replicate ..) h1 h2 h1' h2' hw ssSrc_faultFree ssSnk_benign
  trivial

/-! ## C18 — the password-mode key derivation is RFC 7914 scrypt as computed by the GENERATED `ScryptSrc.scrypt`

  `C18_source_eq_spec` (KestrelProps/C18src.lean): the translated scrypt.rs computes RFC 7914 scrypt.  Here: the key under which
  the generated `pass_encrypt` seals, the generated `pass_decrypt` opens and the generated `lock_private_key` /
  `unlock_private_key` seal and open IS that function at kestrel's parameters (N, r, p) = (32768, 8, 1), 32 bytes of output —
  for the executable primitive record `concretePrims` (whose `kdf` field is the RFC 7914 specification function).
  (`C15_source_format`, `C16_source_old_password_reduction` already name `ScryptSrc.scrypt` for the keyring side.) -/

/-- **C18, the `scrypt(..)` call of the generated `pass_encrypt` / `pass_decrypt`.**  The expression that stands in the generated
    code for `scrypt(password, &salt, SCRYPT_N, SCRYPT_R, SCRYPT_P, 32)` — with the generated constants — evaluates, on the
    executable primitives, to the generated scrypt at (32768, 8, 1); likewise the `kestrel_crypto::scrypt(..)` call of the
    generated keyring code.  Combines `C18_source_eq_spec` with the glue `RsIO.scrypt`, `RsStr.kc_scrypt`. -/
theorem C18_source_kdf_calls (pw salt : Bytes) :
    RsIO.scrypt concretePrims pw salt StreamSrc.SCRYPT_N StreamSrc.SCRYPT_R StreamSrc.SCRYPT_P 32 =
      ScryptSrc.scrypt pw salt 32768 8 1 32 ∧
    RsStr.kc_scrypt pw salt KeyringSrc.SCRYPT_N KeyringSrc.SCRYPT_R KeyringSrc.SCRYPT_P 32 =
      ScryptSrc.scrypt pw salt 32768 8 1 32 := by
  constructor
  · rw [StreamSrc.scrypt_const]
    exact Source.concrete_kdf_eq_src pw salt
  · show RsStr.kc_scrypt pw salt 32768 8 1 32 = _
    rw [KeyringSrc.kdf_eq]
    exact Source.lockKdf_eq_src pw salt

example := C18_source_kdf_calls [] (zeros 32)

/-- **C18, end to end, encrypt side (generated `pass_encrypt` on the executable primitives).**  Fault-free source, benign sink:
    the file written is `magic ‖ salt ‖ records`, the records sealed with ChaCha20-Poly1305 under the key
    `ScryptSrc.scrypt pw salt 32768 8 1 32` — the GENERATED scrypt at kestrel's parameters.
    Combines `C06_source_layout_pass` (at `concretePrims`) with `C18_source_eq_spec`. -/
theorem C18_source_pass_encrypt_key (pw salt : Bytes) (ff : StreamSrc.PassFileFormat)
    (src : Src) (k : Snk) (fuel : Nat) (hf : src.inp.length + src.script.length + 2 ≤ fuel) (hs : src.faultFree) (hk : k.benign) :
    ∃ src' k', StreamSrc.encrypt.pass_encrypt chapolyNoise concretePrims src k pw salt ff fuel = some (.ok, src', k') ∧
      k'.out = k.out ++ (StreamSrc.encrypt.PASS_FILE_MAGIC ++ salt ++
        serialize chapolyNoise (ScryptSrc.scrypt pw salt 32768 8 1 32) StreamSrc.encrypt.PASS_FILE_MAGIC be64 0
          (fileChunks (Src.reads StreamSrc.CHUNK_SIZE src))) := by
  obtain ⟨src', k', h1, h2, _⟩ := C06_source_layout_pass concretePrims pw salt ff src k fuel hf hs hk
  rw [Source.concrete_kdf_eq_src] at h2
  exact ⟨src', k', h1, h2⟩

example := C18_source_pass_encrypt_key [] (zeros 32) .V1 ssSrc ssSnk 9 (by decide) ssSrc_faultFree ssSnk_benign

/-- **C18, end to end, decrypt side (generated `pass_decrypt` on the executable primitives).**  Every file of the format whose
    records are sealed under `ScryptSrc.scrypt pw salt 32768 8 1 32` is accepted under the password `pw`, and exactly its chunks
    are written: the key `pass_decrypt` derives from (password, stored salt) is the generated scrypt at (32768, 8, 1).
    Combines `C06_source_complete_pass` (at `concretePrims`) with `C18_source_eq_spec`, `C18_source_length`. -/
theorem C18_source_pass_decrypt_key (pw salt : Bytes) (cf : Nat → Bytes) (cl : List Bytes) (ff : StreamSrc.PassFileFormat)
    (hsalt : salt.length = 32) (hcf : ∀ i, (cf i).length = 8) (hne : cl ≠ []) (hle : ∀ c ∈ cl, c.length ≤ StreamSrc.CHUNK_SIZE)
    (src : Src) (k : Snk) (fuel : Nat) (hf : src.inp.length + 1 ≤ fuel) (hs : src.faultFree) (hk : k.benign)
    (hinp : src.inp = StreamSrc.encrypt.PASS_FILE_MAGIC ++ salt ++
      serialize chapolyNoise (ScryptSrc.scrypt pw salt 32768 8 1 32) StreamSrc.encrypt.PASS_FILE_MAGIC cf 0 cl) :
    ∃ src' k', StreamSrc.decrypt.pass_decrypt chapolyNoise concretePrims src k pw ff fuel = some (.ok, src', k') ∧
      k'.out = k.out ++ cl.flatten := by
  rw [← Source.concrete_kdf_eq_src] at hinp
  exact C06_source_complete_pass concretePrims chapolyNoise_lawful pw salt cf cl ff hsalt (concrete_kdf_length pw salt) hcf hne hle
    src k fuel hf hs hk hinp

example (src : Src) (k : Snk) (hs : src.faultFree) (hk : k.benign)
    (hinp : src.inp = StreamSrc.encrypt.PASS_FILE_MAGIC ++ zeros 32 ++
      serialize chapolyNoise (ScryptSrc.scrypt [] (zeros 32) 32768 8 1 32) StreamSrc.encrypt.PASS_FILE_MAGIC be64 0 [[5], [6], []]) :=
  C18_source_pass_decrypt_key [] (zeros 32) be64 [[5], [6], []] .V1 (by decide) (fun _ => be64_length _) (by decide) (by decide)
    src k (src.inp.length + 1) (Nat.le_refl _) hs hk hinp

end Kestrel
