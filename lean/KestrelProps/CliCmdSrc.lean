/-
  CliCmdSrc — functions of `src/cli/src/commands.rs`, *as translated mechanically* by tools/rs2lean_cli.py
  (KestrelModel/GeneratedCli.lean, names `Kestrel.CliSrc.commands.*`), against the hand-written model of the commands in
  KestrelModel/Cli.lean: the password helpers (`read_env_pass`, `read_env_new_pass`, `ask_pass`, `confirm_loop`,
  `confirm_password`, `confirm_new_pass`), `open_keyring`, and the two commands `change_pass` and `extract_pub` in full.
  The other five commands are the subject of KestrelProps/CliStreamSrc.lean (`encrypt`, `decrypt`, `pass_encrypt`,
  `pass_decrypt`, with `open_input` / `open_output` / `OnDemandFile`) and KestrelProps/CliGenKeySrc.lean (`gen_key`,
  `ask_user_stderr`, and the whole program for the `key` commands).

  Setting: as in the model, no terminal is attached (`RsCli.isatty` is constantly false, the terminal prompt fails), the
  environment holds strings, a file read fails exactly when the path has no entry in the model's `World`.
  Views (KestrelProofs/CliCmdSrc.lean): `pwOf` — the UTF-8 bytes of the password in an `Ok` result; `keysOf` — the keys of an `Ok`
  keyring (`KeyringSrc.viewKeys`); `Agrees sys r o` — the translated command's result `r` (final process state, `Ok(())` / `Err`)
  agrees with the model's outcome `o`: same final world, the model's output appended to standard output, `Ok(())` exactly
  with exit code 0 and `Err(_)` exactly with exit code 1, and nothing else of the process state changed.  What is written to
  standard error, and the error TEXT, are not compared (the model has neither).
  Hypotheses and their origin:
    `1 ≤ sys.fuel`    the embedding gives every `loop` an iteration budget; one round is what the code needs without a terminal;
    `sys.draws = 0`   the command is the first to draw randomness (the model hands `rnd.a` to the first draw);
    `hpub`            X25519 public keys are 32 bytes (`PublicKey`'s invariant; `Prims.pub` is abstract in the model).
-/
import KestrelProofs.CliCmdSrc
import KestrelProps.CliSrc
namespace Kestrel
open CliSrc RsCli Cli
open Kestrel.Keyring (Str)

/-! ## passwords -/

/-- **ask_pass.** The process state is unchanged, and the password obtained is the model's: with `--env-pass` the value of
    KESTREL_PASSWORD, otherwise (no terminal) an error. -/
theorem cli_source_ask_pass (sys : Sys) (prompt : Str) (envPass : Bool) :
    (CliSrc.commands.ask_pass sys prompt envPass).1 = sys ∧
    pwOf (CliSrc.commands.ask_pass sys prompt envPass).2 = (Cli.askPass sys.world envPass).toOption :=
  ask_pass_spec sys prompt envPass

example (w : World) (pr : Prims) (rnd : Rand) (h : w.getenv (str "KESTREL_PASSWORD") = some (str "hunter2")) :
    pwOf (CliSrc.commands.ask_pass { args := [], world := w, prims := pr, rnd := rnd } (str "Password: ") true).2 =
      some (Keyring.utf8 (str "hunter2")) := by
  rw [(cli_source_ask_pass _ _ _).2]
  show (Cli.askPass w true).toOption = _
  unfold Cli.askPass; rw [if_pos rfl, h]; rfl

/-- **confirm_password** (`confirm_loop` inside): the same as `ask_pass` — without a terminal the confirmation loop ends in
    its first round with the failing prompt. -/
theorem cli_source_confirm_password (sys : Sys) (prompt : Str) (envPass : Bool) (hf : 1 ≤ sys.fuel) :
    (CliSrc.commands.confirm_password sys prompt envPass).1 = sys ∧
    pwOf (CliSrc.commands.confirm_password sys prompt envPass).2 = (Cli.askPass sys.world envPass).toOption :=
  confirm_password_spec sys prompt envPass hf

/-- **confirm_new_pass**: KESTREL_NEW_PASSWORD. -/
theorem cli_source_confirm_new_pass (sys : Sys) (prompt : Str) (envPass : Bool) (hf : 1 ≤ sys.fuel) :
    (CliSrc.commands.confirm_new_pass sys prompt envPass).1 = sys ∧
    pwOf (CliSrc.commands.confirm_new_pass sys prompt envPass).2 =
      (Cli.askPass sys.world envPass "KESTREL_NEW_PASSWORD").toOption :=
  confirm_new_pass_spec sys prompt envPass hf

/-- **confirm_loop** without a terminal: fails in the first round, the process state unchanged (`outOfFuel` stays false). -/
theorem cli_source_confirm_loop (sys : Sys) (prompt : Str) (hf : 1 ≤ sys.fuel) :
    CliSrc.commands.confirm_loop sys prompt = (sys, .error (.prompt .IOError)) :=
  confirm_loop_eq sys prompt hf

/-! ## the keyring -/

/-- **open_keyring.** The process state is unchanged, and the keys obtained are the model's `openKeyring`: the path is `-k` or
    else KESTREL_KEYRING; the file must exist, be UTF-8, and parse (`Keyring::new`, translated by rs2lean_keyring.py). -/
theorem cli_source_open_keyring (sys : Sys) (loc : Option Str) :
    (CliSrc.commands.open_keyring sys loc).1 = sys ∧
    keysOf (CliSrc.commands.open_keyring sys loc).2 = (Cli.openKeyring sys.world loc).toOption :=
  open_keyring_spec sys loc

example (sys : Sys) (h : sys.world.getenv (str "KESTREL_KEYRING") = none) :
    keysOf (CliSrc.commands.open_keyring sys none).2 = none := by
  rw [(cli_source_open_keyring sys none).2]
  unfold Cli.openKeyring; simp only [h]; rfl

/-! ## two commands in full -/

/-- **change_pass = runChangePass.** -/
theorem cli_source_change_pass (sys : Sys) (sk : Str) (envPass : Bool) (hf : 1 ≤ sys.fuel) (hd : sys.draws = 0) :
    Agrees sys (CliSrc.commands.change_pass sys sk envPass) (Cli.runChangePass sys.rnd sys.world sk envPass) :=
  change_pass_spec sys sk envPass hf hd

/-- **extract_pub = runExtractPub.** -/
theorem cli_source_extract_pub (sys : Sys) (sk : Str) (envPass : Bool)
    (hpub : ∀ k pk, sys.prims.pub k = some pk → pk.length = 32) :
    Agrees sys (CliSrc.commands.extract_pub sys sk envPass) (Cli.runExtractPub sys.prims sys.world sk envPass) :=
  extract_pub_spec sys sk envPass hpub

/-- non-vacuity: without `--env-pass` both commands fail with exit code 1 and change nothing (no terminal to ask) -/
example (sys : Sys) (sk : Str) (hf : 1 ≤ sys.fuel) (hd : sys.draws = 0) :
    (CliSrc.commands.change_pass sys sk false).1.world = sys.world ∧ ∃ e, (CliSrc.commands.change_pass sys sk false).2 = .error e := by
  obtain ⟨hw, _, hr, _⟩ := cli_source_change_pass sys sk false hf hd
  refine ⟨hw, ?_⟩
  rcases hr with ⟨_, h0⟩ | ⟨he, _⟩
  · have h1 : (Cli.runChangePass sys.rnd sys.world sk false).exit = 1 := rfl
    rw [h1] at h0; exact absurd h0 (by decide)
  · exact he

/-! ## from the command line to the outcome, for these two commands -/

/-- **`kestrel key change-pass …` / `kestrel key extract-pub …` end to end.** If the command line parses (in the model) to one
    of these two requests, then the translated `try_main` — argument handling of main.rs, then the translated command of
    commands.rs (`api` is any record that has the translated functions in these two fields) — agrees with the model's
    `Cli.main` on that command line. -/
theorem cli_source_key_commands (api : CliSrc.commands.Api) (sys : Sys) (argv : List Str)
    (hc : api.change_pass = CliSrc.commands.change_pass) (hx : api.extract_pub = CliSrc.commands.extract_pub)
    (h : sys.args = argv.map OsString.unicode)
    (hreq : (∃ k e, Cli.parseArgv argv = .changePass k e) ∨ (∃ k e, Cli.parseArgv argv = .extractPub k e))
    (hf : 1 ≤ sys.fuel) (hd : sys.draws = 0) (hpub : ∀ k pk, sys.prims.pub k = some pk → pk.length = 32) :
    Agrees sys (CliSrc.try_main api sys) (Cli.main sys.prims sys.rnd sys.world argv) := by
  have hdisp := cli_source_parse_argv api sys argv h
  unfold Cli.main
  rcases hreq with ⟨k, e, hq⟩ | ⟨k, e, hq⟩
  · rw [hq] at hdisp ⊢
    have : CliSrc.try_main api sys = api.change_pass sys k e := hdisp
    rw [this, hc]
    exact cli_source_change_pass sys k e hf hd
  · rw [hq] at hdisp ⊢
    have : CliSrc.try_main api sys = api.extract_pub sys k e := hdisp
    rw [this, hx]
    exact cli_source_extract_pub sys k e hpub

/-- … and the exit code of the process (`fn main`): the model's. -/
theorem cli_source_key_commands_exit (api : CliSrc.commands.Api) (sys : Sys) (argv : List Str)
    (hc : api.change_pass = CliSrc.commands.change_pass) (hx : api.extract_pub = CliSrc.commands.extract_pub)
    (h : sys.args = argv.map OsString.unicode)
    (hreq : (∃ k e, Cli.parseArgv argv = .changePass k e) ∨ (∃ k e, Cli.parseArgv argv = .extractPub k e))
    (hf : 1 ≤ sys.fuel) (hd : sys.draws = 0) (hpub : ∀ k pk, sys.prims.pub k = some pk → pk.length = 32)
    (hexit : sys.exit = none) :
    ((CliSrc.main api sys).exit.getD 0 : Int) = (Cli.main sys.prims sys.rnd sys.world argv).exit ∧
    (CliSrc.main api sys).world = (Cli.main sys.prims sys.rnd sys.world argv).world ∧
    (CliSrc.main api sys).stdout = sys.stdout ++ (Cli.main sys.prims sys.rnd sys.world argv).stdout := by
  obtain ⟨hw, hs, hr, _, he, _⟩ := cli_source_key_commands api sys argv hc hx h hreq hf hd hpub
  rw [cli_source_main]
  rcases ht : CliSrc.try_main api sys with ⟨s, r⟩
  rw [ht] at hw hs hr he
  rcases hr with ⟨hok, h0⟩ | ⟨⟨err, herr⟩, h1⟩
  · cases hok
    refine ⟨?_, hw, hs⟩
    show ((s.exit.getD 0 : Int)) = _
    rw [show s.exit = sys.exit from he, hexit, h0]; rfl
  · cases herr
    refine ⟨?_, hw, hs⟩
    rw [h1]; rfl

end Kestrel
