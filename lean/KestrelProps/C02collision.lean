/-
  C02 / C15 / C16 — the known finding, as a theorem: the property "every other password is rejected" is FALSE
  of the code (and of any conforming implementation of the documented format) for password pairs that HMAC
  identifies.  RFC 2104 pads the key with zero bytes to the block size and replaces a key longer than the block by
  its hash; PBKDF2 and hence scrypt see the password only as an HMAC key.  So
      scrypt(pw ‖ 00, salt, …) = scrypt(pw, salt, …)            for |pw| < 64,
      scrypt(pw, salt, …)      = scrypt(SHA-256(pw), salt, …)    for |pw| > 64.
  These are exactly the `KdfCollision` disjunct of `C02_wrong_password`; they are reproduced against the real code
  on every run and listed in known_findings.json.
-/
import KestrelModel.Prim.Scrypt
import KestrelModel.Keyring
import KestrelProofs.Prims
namespace Kestrel

theorem zeros_succ (n : Nat) : zeros (n + 1) = 0 :: zeros n := rfl

theorem hmac_nul_pad (k m : Bytes) (h : k.length < 64) : hmacSha256 (k ++ [0]) m = hmacSha256 k m := by
  have h1 : ¬ (k ++ [0]).length > 64 := by simp; omega
  have h2 : ¬ k.length > 64 := by omega
  have hpad : (k ++ [0]) ++ zeros (64 - (k ++ [0]).length) = k ++ zeros (64 - k.length) := by
    have : 64 - k.length = (64 - (k ++ [0]).length) + 1 := by simp; omega
    rw [this, zeros_succ]; simp
  simp only [hmacSha256, if_neg h1, if_neg h2, hpad]

theorem hmac_long_key (k m : Bytes) (h : k.length > 64) : hmacSha256 k m = hmacSha256 (sha256 k) m := by
  have h32 : ¬ (sha256 k).length > 64 := by rw [sha256_length]; omega
  simp only [hmacSha256, h, if_true, if_neg h32]

/-- PBKDF2 sees the password only through HMAC -/
theorem pbkdf2_congr (pw pw' : Bytes) (h : ∀ m, hmacSha256 pw m = hmacSha256 pw' m) (salt : Bytes) (c len : Nat) :
    pbkdf2Sha256 pw salt c len = pbkdf2Sha256 pw' salt c len := by
  have hgo : ∀ n u acc, pbkdf2Block.go pw n u acc = pbkdf2Block.go pw' n u acc := by
    intro n
    induction n with
    | zero => intro u acc; rfl
    | succ n ih => intro u acc; simp only [pbkdf2Block.go, h, ih]
  have hblk : ∀ i, pbkdf2Block pw salt c i = pbkdf2Block pw' salt c i := by
    intro i; simp only [pbkdf2Block, h, hgo]
  have hblks : ∀ n i, pbkdf2Blocks pw salt c n i = pbkdf2Blocks pw' salt c n i := by
    intro n
    induction n with
    | zero => intro i; rfl
    | succ n ih => intro i; simp only [pbkdf2Blocks, hblk, ih]
  simp only [pbkdf2Sha256, hblks]

theorem scrypt_congr (pw pw' : Bytes) (h : ∀ m, hmacSha256 pw m = hmacSha256 pw' m) (salt : Bytes) (N r p dk : Nat) :
    Scrypt.Spec.scrypt pw salt N r p dk = Scrypt.Spec.scrypt pw' salt N r p dk := by
  simp only [Scrypt.Spec.scrypt, pbkdf2_congr pw pw' h]

/-- **Known finding, NUL padding**: a password and the same password followed by a NUL byte derive the same key. -/
theorem C02_nul_padding_collision (pw salt : Bytes) (N r p dk : Nat) (h : pw.length < 64) :
    Scrypt.Spec.scrypt (pw ++ [0]) salt N r p dk = Scrypt.Spec.scrypt pw salt N r p dk :=
  scrypt_congr _ _ (fun m => hmac_nul_pad pw m h) salt N r p dk

/-- **Known finding, long passwords**: a password longer than 64 bytes and its SHA-256 digest derive the same key. -/
theorem C02_long_password_collision (pw salt : Bytes) (N r p dk : Nat) (h : pw.length > 64) :
    Scrypt.Spec.scrypt pw salt N r p dk = Scrypt.Spec.scrypt (sha256 pw) salt N r p dk :=
  scrypt_congr _ _ (fun m => hmac_long_key pw m h) salt N r p dk

/-- consequently the locked-key and file KDFs collide on such pairs although the passwords differ as byte strings -/
theorem C15_nul_padding_collision (pw salt : Bytes) (h : pw.length < 64) :
    Keyring.lockKdf (pw ++ [0]) salt = Keyring.lockKdf pw salt ∧ pw ++ [0] ≠ pw := by
  refine ⟨C02_nul_padding_collision pw salt _ _ _ _ h, ?_⟩
  intro e
  have := congrArg List.length e
  simp at this

example : Keyring.lockKdf ([97] ++ [0]) (zeros 32) = Keyring.lockKdf [97] (zeros 32) ∧ [97] ++ [0] ≠ ([97] : Bytes) :=
  C15_nul_padding_collision [97] (zeros 32) (by decide)

end Kestrel
