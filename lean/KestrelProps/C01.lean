/-
  C01 — Key-mode round trip: decrypt(encrypt(P)) = P and names the sender.

  Statement proved here (pure level: `reads` is the sequence of values the plaintext source's `read()` calls
  return, i.e. *any* partition of P into reads of 1..chunkSize bytes followed by end-of-file; the decrypt side
  is given the whole ciphertext).  Independence of the decrypt-side read partition and of partial writes is
  `C10_partition_independence` (KestrelProps/C10.lean), which lifts this theorem to every conforming
  source/sink script.
-/
import KestrelProofs.File
import KestrelProofs.Prims
namespace Kestrel
open Generated

/-- What C01 needs from X25519 for the four keys of one run (a property of Curve25519, not proved here:
    assumed, and exercised against the implementation by the C19 correspondence). -/
structure DhAgree (P : Prims) (s spk r rpk e epk : Bytes) : Prop where
  es : ∃ d, P.dh e rpk = some d ∧ P.dh r epk = some d      -- dh(e, R) = dh(r, E) and it is not all-zero
  ss : ∃ d, P.dh s rpk = some d ∧ P.dh r spk = some d      -- dh(s, R) = dh(r, S) and it is not all-zero

/-- **C01 (generic).** For any lawful primitives, any key material on which DH agrees, any payload key, and any
    read schedule of the plaintext (every read 0 < n ≤ chunkSize bytes, end-of-file last): encryption succeeds,
    decryption of its output succeeds, releases exactly the chunks that were read (so the concatenation is the
    plaintext) and reports exactly the sender's static public key. Covers |P| = 0, k·65536, k·65536 ± 1 without
    case analysis. -/
theorem C01_roundtrip (P : Prims) (hP : P.Lawful) (s spk r rpk e epk pk : Bytes) (reads : List Bytes)
    (hE : epk.length = 32) (hS : spk.length = 32) (hK : pk.length = 32)
    (hdh : DhAgree P s spk r rpk e epk)
    (hwf : wellFormedReads reads) (hle : ∀ c ∈ reads, c.length ≤ chunkSize) :
    ∃ ct, keyEncrypt P s spk rpk e epk pk reads = (ct, .ok) ∧
      (∃ writes, keyDecrypt P r rpk ct = (writes, .ok, some spk) ∧ writes.flatten = reads.flatten) ∧
      ct.length = 132 + 32 * (fileChunks reads).length + reads.flatten.length := by
  obtain ⟨d1, h1, h1'⟩ := hdh.es
  obtain ⟨d2, h2, h2'⟩ := hdh.ss
  obtain ⟨ct, henc, hdec, hlen⟩ := keyDecrypt_keyEncrypt P hP s spk r rpk e epk pk d1 d2 reads hE hS hK h1 h2 h1' h2' hwf hle
  exact ⟨ct, henc, ⟨_, hdec, fileChunks_join reads hwf⟩, by omega⟩

/-- **C01 (concrete model).** The executable model that is diffed against the Rust code satisfies the round trip;
    the only hypothesis beyond well-formedness is DH agreement on this run's keys. -/
theorem C01_roundtrip_concrete (s spk r rpk e epk pk : Bytes) (reads : List Bytes)
    (hE : epk.length = 32) (hS : spk.length = 32) (hK : pk.length = 32)
    (hdh : DhAgree concretePrims s spk r rpk e epk)
    (hwf : wellFormedReads reads) (hle : ∀ c ∈ reads, c.length ≤ chunkSize) :
    ∃ ct, keyEncrypt concretePrims s spk rpk e epk pk reads = (ct, .ok) ∧
      (∃ writes, keyDecrypt concretePrims r rpk ct = (writes, .ok, some spk) ∧ writes.flatten = reads.flatten) ∧
      ct.length = 132 + 32 * (fileChunks reads).length + reads.flatten.length :=
  C01_roundtrip concretePrims concretePrims_lawful s spk r rpk e epk pk reads hE hS hK hdh hwf hle

/-! ### non-vacuity: a primitive record on which every hypothesis holds, and a non-trivial schedule -/

/-- toy primitives: DH is byte-wise addition (commutative), public key = private key, AEAD = append 16 zeros -/
def toyPrims : Prims where
  aead := { enc := fun _ _ _ p => p ++ zeros 16,
            dec := fun _ _ _ c => if c.length < 16 then none else
                    if c.drop (c.length - 16) = zeros 16 then some (c.take (c.length - 16)) else none }
  hash := fun m => (m ++ zeros 32).take 32
  hkdf2 := fun ck ikm => (((ck ++ ikm) ++ zeros 32).take 32, ((ikm ++ ck) ++ zeros 32).take 32)
  hkdfFile := fun pk h => ((pk ++ h) ++ zeros 32).take 32
  dh := fun a b => some (List.zipWith (· + ·) a b)
  pub := fun a => some a
  kdf := fun pw salt => ((pw ++ salt) ++ zeros 32).take 32

theorem toyPrims_lawful : toyPrims.Lawful where
  aead := {
    dec_enc := by
      intro k n ad p _
      simp [toyPrims, zeros]
    enc_length := by intro k n ad p _; simp [toyPrims, zeros]
    dec_sound := by
      intro k n ad c p _ h
      simp only [toyPrims] at h ⊢
      split at h
      · simp at h
      · split at h
        · rename_i h16 hz
          simp only [Option.some.injEq] at h
          rw [← h, ← hz, List.take_append_drop]
        · simp at h }
  hkdf2_len := by intro ck ikm; simp [toyPrims, zeros]; omega
  hkdfFile_len := by intro pk h; simp [toyPrims, zeros]; omega

theorem toy_dh_comm (a b : Bytes) : toyPrims.dh a b = toyPrims.dh b a := by
  show some (List.zipWith (· + ·) a b) = some (List.zipWith (· + ·) b a)
  rw [List.zipWith_comm]
  congr 2
  funext x y
  exact UInt8.add_comm y x

theorem toy_dhAgree (s r e : Bytes) : DhAgree toyPrims s s r r e e :=
  ⟨⟨List.zipWith (· + ·) e r, rfl, (toy_dh_comm r e).trans rfl⟩, ⟨List.zipWith (· + ·) s r, rfl, (toy_dh_comm r s).trans rfl⟩⟩

def fullChunk : Bytes := List.replicate chunkSize 9
theorem fullChunk_length : fullChunk.length = chunkSize := List.length_replicate ..

/-- a non-trivial schedule: a short read, an exactly full read, then end-of-file -/
def exampleReads : List Bytes := [[1,2,3], fullChunk, []]

theorem exampleReads_wf : wellFormedReads exampleReads := by
  have h1 : ¬ ([1,2,3] : Bytes).length = 0 := by decide
  have h2 : ¬ fullChunk.length = 0 := by rw [fullChunk_length]; decide
  exact ⟨fun h => absurd h h1, fun _ => ⟨fun h => absurd h h2, fun _ => ⟨fun _ => rfl, fun _ => trivial⟩⟩⟩

theorem exampleReads_le : ∀ c ∈ exampleReads, c.length ≤ chunkSize := by
  intro c hc
  simp only [exampleReads, List.mem_cons, List.mem_nil_iff, or_false] at hc
  rcases hc with h | h | h <;> subst h
  · decide
  · rw [fullChunk_length]; exact Nat.le_refl _
  · decide

/-- every hypothesis of `C01_roundtrip` is met by a concrete run -/
example : ∃ ct, keyEncrypt toyPrims (zeros 32) (zeros 32) (List.replicate 32 1) (List.replicate 32 2) (List.replicate 32 2)
      (List.replicate 32 7) exampleReads = (ct, Res.ok) ∧
    (∃ writes, keyDecrypt toyPrims (List.replicate 32 1) (List.replicate 32 1) ct = (writes, Res.ok, some (zeros 32)) ∧
      writes.flatten = exampleReads.flatten) ∧
    ct.length = 132 + 32 * (fileChunks exampleReads).length + exampleReads.flatten.length :=
  C01_roundtrip toyPrims toyPrims_lawful (zeros 32) (zeros 32) (List.replicate 32 1) (List.replicate 32 1)
    (List.replicate 32 2) (List.replicate 32 2) (List.replicate 32 7) exampleReads
    (List.length_replicate ..) (List.length_replicate ..) (List.length_replicate ..)
    (toy_dhAgree _ _ _) exampleReads_wf exampleReads_le

end Kestrel
