/-
  C12 — the CLI's exit status is truthful, and results do not depend on how I/O is wired.

  Model: `KestrelModel/Cli.lean` (`parseArgv` = `try_main` up to the dispatch with getopts `long_only`; `run` = the commands over
  a world of files, environment and piped stdin; `deliver` = the lazily created output file).  Helper lemmas:
  `KestrelProofs/Cli.lean`.

  (1) parsing does not depend on the spelling of a request (`C12_parse_render`, `C12_parse_equiv`);
  (2) the outcome does not depend on the wiring: input file vs stdin, `-k` vs `KESTREL_KEYRING`, `-o` vs stdout;
  (3) exit status 0 ⇔ the operation succeeded, and then exactly the full (authenticated) result has been delivered;
      exit status ∈ {0, 1}, and 1 ⇔ an error is reported.
-/
import KestrelProofs.Cli
import KestrelProofs.Strict
import KestrelProps.C01
import KestrelProps.C10dec
import KestrelProps.C10enc
import KestrelProps.C14
import KestrelProps.C15
import KestrelProps.C17pk
namespace Kestrel
open Cli Generated
open Kestrel.Keyring (Str utf8)

/-! ## (1) parsing is independent of spelling -/

/-- **C12 (render, then parse).** Every request, spelled in any of the eight styles (long / short option names, command word /
    alias, `--opt=value` / `--opt value`), with the options in the order of the USAGE text and the input file as a free
    argument, parses back to exactly that request.  Side conditions (`Renderable`): free arguments (input file, private-key
    string) are not option-like; no option value is literally `-h` or `--help` (main.rs prints the help text if one of them
    occurs anywhere in argv — also as the program name, hence `valOk prog`).  Values are otherwise unrestricted: they may
    start with '-' (consumed unconditionally), be empty, or contain '=' (the `=` form splits at the first '='). -/
theorem C12_parse_render (prog : Str) (hprog : valOk prog) (st : Style) (req : Request) (h : Renderable req) :
    parseArgv (prog :: render st req) = req :=
  parseArgv_render prog hprog st req h

/-- **C12 (spelling equivalence).** Two spellings of the same request parse alike. -/
theorem C12_parse_equiv (prog : Str) (hprog : valOk prog) (st st' : Style) (req : Request) (h : Renderable req) :
    parseArgv (prog :: render st req) = parseArgv (prog :: render st' req) := by
  rw [C12_parse_render prog hprog st req h, C12_parse_render prog hprog st' req h]

/-- … and therefore run alike. -/
theorem C12_main_equiv (P : Prims) (rnd : Rand) (w : World) (prog : Str) (hprog : valOk prog) (st st' : Style) (req : Request)
    (h : Renderable req) :
    main P rnd w (prog :: render st req) = main P rnd w (prog :: render st' req) := by
  unfold main; rw [C12_parse_equiv prog hprog st st' req h]

/-- **C12 (order, decrypt).** The rendered request consists of the pieces `decryptPieces st …` = [input file, `-t NAME`,
    `-o FILE`?, `-k KEYRING`?, `--env-pass`?] (an absent optional piece is the empty stretch).  EVERY permutation `ps'` of these
    pieces — in particular any swap of two adjacent options, and the input file at any position — parses to the same request.
    (`render` is the identity permutation: `render_decrypt_pieces`.) -/
theorem C12_parse_order_decrypt (prog : Str) (hprog : valOk prog) (st : Style) (inf : Option Str) (to : Str)
    (outf kr : Option Str) (e : Bool) (h : Renderable (.decrypt inf to outf kr e))
    (ps' : List Piece) (hperm : ps'.Perm (decryptPieces st inf to outf kr e)) :
    parseArgv (prog :: word st "decrypt" "dec" :: (ps'.map (·.args)).flatten) = .decrypt inf to outf kr e ∧
    parseArgv (prog :: word st "decrypt" "dec" :: (ps'.map (·.args)).flatten) =
      parseArgv (prog :: render st (.decrypt inf to outf kr e)) := by
  have h1 := parseArgv_anyOrder_decrypt prog hprog st inf to outf kr e h ps' hperm
  exact ⟨h1, by rw [h1, C12_parse_render prog hprog st _ h]⟩

/-- **C12 (order, encrypt).** -/
theorem C12_parse_order_encrypt (prog : Str) (hprog : valOk prog) (st : Style) (inf : Option Str) (to fr : Str)
    (outf kr : Option Str) (e : Bool) (h : Renderable (.encrypt inf to fr outf kr e))
    (ps' : List Piece) (hperm : ps'.Perm (encryptPieces st inf to fr outf kr e)) :
    parseArgv (prog :: word st "encrypt" "enc" :: (ps'.map (·.args)).flatten) = .encrypt inf to fr outf kr e ∧
    parseArgv (prog :: word st "encrypt" "enc" :: (ps'.map (·.args)).flatten) =
      parseArgv (prog :: render st (.encrypt inf to fr outf kr e)) := by
  have h1 := parseArgv_anyOrder_encrypt prog hprog st inf to fr outf kr e h ps' hperm
  exact ⟨h1, by rw [h1, C12_parse_render prog hprog st _ h]⟩

/-- **C12 (order, reversed).** A concrete rearrangement that moves every element: the options in the reverse of the USAGE order
    with the input file after them (`renderRev`). -/
theorem C12_parse_order_rev (prog : Str) (hprog : valOk prog) (st st' : Style) (req : Request) (h : Renderable req) :
    parseArgv (prog :: renderRev st req) = req ∧
    parseArgv (prog :: renderRev st req) = parseArgv (prog :: render st' req) := by
  have h1 := parseArgv_renderRev prog hprog st req h
  exact ⟨h1, by rw [h1, C12_parse_render prog hprog st' req h]⟩

/-! ## (2) the outcome is independent of the wiring -/

theorem sameFile_none (outf : Option Str) : sameFile none outf = false := by cases outf <;> rfl
theorem sameFile_to_stdout (inf : Option Str) : sameFile inf none = false := by cases inf <;> rfl

theorem sameFile_some_ne {p : Str} {outf : Option Str} (h : outf ≠ some p) : sameFile (some p) outf = false := by
  cases outf with
  | none => rfl
  | some q =>
    have : p ≠ q := fun h' => h (by rw [h'])
    simpa [sameFile] using this

theorem openInput_file {w : World} {p : Str} {data : Bytes} (h : w.file p = some data) : openInput w (some p) = .ok data := by
  simp [openInput, h]

/-- **C12 (file vs stdin, decrypt).** Reading the ciphertext from a named file or from stdin gives the same exit status, error
    class, sender line, stdout bytes and file system (in particular the same content of the output path). -/
theorem C12_file_vs_stdin_decrypt (P : Prims) (rnd : Rand) (w : World) (p : Str) (data : Bytes) (to : Str) (outf kr : Option Str)
    (e : Bool) (hfile : w.file p = some data) (hout : outf ≠ some p) :
    sameResult (run P rnd w (.decrypt (some p) to outf kr e)) (run P rnd { w with stdin := data } (.decrypt none to outf kr e)) :=
  runDecrypt_congr_input P w { w with stdin := data } (some p) none to outf kr e rfl rfl
    ((sameFile_none outf).trans (sameFile_some_ne hout).symm) (openInput_file hfile).symm

theorem C12_file_vs_stdin_pass_decrypt (P : Prims) (rnd : Rand) (w : World) (p : Str) (data : Bytes) (outf : Option Str)
    (e : Bool) (hfile : w.file p = some data) (hout : outf ≠ some p) :
    sameResult (run P rnd w (.passDecrypt (some p) outf e)) (run P rnd { w with stdin := data } (.passDecrypt none outf e)) :=
  runPassDecrypt_congr_input P w { w with stdin := data } (some p) none outf e rfl rfl
    ((sameFile_none outf).trans (sameFile_some_ne hout).symm) (openInput_file hfile).symm

theorem C12_file_vs_stdin_encrypt (P : Prims) (rnd : Rand) (w : World) (p : Str) (data : Bytes) (to fr : Str) (outf kr : Option Str)
    (e : Bool) (hfile : w.file p = some data) (hout : outf ≠ some p) :
    sameResult (run P rnd w (.encrypt (some p) to fr outf kr e))
      (run P rnd { w with stdin := data } (.encrypt none to fr outf kr e)) :=
  runEncrypt_congr_input P rnd w { w with stdin := data } (some p) none to fr outf kr e rfl rfl
    ((sameFile_none outf).trans (sameFile_some_ne hout).symm) (openInput_file hfile).symm

theorem C12_file_vs_stdin_pass_encrypt (P : Prims) (rnd : Rand) (w : World) (p : Str) (data : Bytes) (outf : Option Str)
    (e : Bool) (hfile : w.file p = some data) (hout : outf ≠ some p) :
    sameResult (run P rnd w (.passEncrypt (some p) outf e)) (run P rnd { w with stdin := data } (.passEncrypt none outf e)) :=
  runPassEncrypt_congr_input P rnd w { w with stdin := data } (some p) none outf e rfl rfl
    ((sameFile_none outf).trans (sameFile_some_ne hout).symm) (openInput_file hfile).symm

/-- `-k path` and `KESTREL_KEYRING=path` open the same keyring -/
theorem openKeyring_opt_vs_env (w : World) (path : Str) (h : w.getenv (str "KESTREL_KEYRING") = some path) :
    openKeyring w (some path) = openKeyring w none := by
  simp only [openKeyring, h]

/-- **C12 (keyring option vs environment).** `-k path` and `KESTREL_KEYRING=path` without `-k` give the same `Outcome` —
    the whole record: exit status, world, stdout, error, sender. -/
theorem C12_keyring_opt_vs_env (P : Prims) (rnd : Rand) (w : World) (path : Str)
    (h : w.getenv (str "KESTREL_KEYRING") = some path) (inf : Option Str) (to fr : Str) (outf : Option Str) (e : Bool) :
    run P rnd w (.decrypt inf to outf (some path) e) = run P rnd w (.decrypt inf to outf none e) ∧
    run P rnd w (.encrypt inf to fr outf (some path) e) = run P rnd w (.encrypt inf to fr outf none e) := by
  have hk := openKeyring_opt_vs_env w path h
  constructor
  · show runDecrypt P w inf to outf (some path) e = runDecrypt P w inf to outf none e
    unfold runDecrypt; rw [hk]
  · show runEncrypt P rnd w inf to fr outf (some path) e = runEncrypt P rnd w inf to fr outf none e
    unfold runEncrypt; rw [hk]

/-- … and `-k` wins over the environment: with `-k` given, `KESTREL_KEYRING` is not consulted at all -/
theorem C12_keyring_opt_wins (w : World) (path : Str) (env' : List (Str × Str)) :
    openKeyring { w with env := env' } (some path) = openKeyring w (some path) := rfl

/-- **C12 (output file vs stdout, decrypt).** There is ONE final sink `k` (empty when the command fails before the library call,
    otherwise the sink of `key_decrypt`) such that with `-o q` the effect is `deliver w (some q) k` — the world is the same
    object if no `write`/`flush` call was made and otherwise file `q` holds exactly `k.out` — and without `-o` the same bytes
    `k.out` are on stdout and the world is the same object. Exit status, error class and sender line are the same. When the
    library call is reached, `k.out` is the concatenation of the chunks released by the pure `key_decrypt`. -/
theorem C12_out_vs_stdout_decrypt (P : Prims) (w : World) (inf : Option Str) (to q : Str) (kr : Option Str) (e : Bool)
    (hsf : sameFile inf (some q) = false) :
    ∃ k : Snk,
      ((runDecrypt P w inf to (some q) kr e).world, (runDecrypt P w inf to (some q) kr e).stdout) = deliver w (some q) k ∧
      ((runDecrypt P w inf to none kr e).world, (runDecrypt P w inf to none kr e).stdout) = (w, k.out) ∧
      (runDecrypt P w inf to (some q) kr e).exit = (runDecrypt P w inf to none kr e).exit ∧
      (runDecrypt P w inf to (some q) kr e).err = (runDecrypt P w inf to none kr e).err ∧
      (runDecrypt P w inf to (some q) kr e).sender = (runDecrypt P w inf to none kr e).sender ∧
      ((runDecrypt P w inf to (some q) kr e).world = w ∨
        (runDecrypt P w inf to (some q) kr e).world.file q = some (runDecrypt P w inf to none kr e).stdout) ∧
      (∀ input ks sk pk, openInput w inf = .ok input → openKeyring w kr = .ok ks → unlockNamed w ks to e = .ok (sk, pk) →
        k.out = (keyDecrypt P sk pk input).1.flatten) := by
  obtain ⟨k, x, er, sd, h, hk⟩ := runDecrypt_outf P w inf to kr e
  have hq := h (some q) hsf
  have hn := h none (sameFile_to_stdout inf)
  refine ⟨k, by rw [hq], by rw [hn]; rfl, by rw [hq, hn], by rw [hq, hn], by rw [hq, hn], ?_, ?_⟩
  · rw [hq, hn]
    rcases deliver_some_cases w q k with ⟨_, _, hd⟩ | ⟨_, hd⟩
    · left; rw [hd]
    · right; rw [hd]; exact World.file_setFile w q _
  · intro input ks sk pk h1 h2 h3
    rw [hk input ks sk pk h1 h2 h3]
    obtain ⟨s', k', hIO, ho, _⟩ := keyDecryptIO_plain P sk pk input
    rw [hIO]; exact ho

/-- the same statement for a command whose effect is `deliver w outf k` for every admissible `-o` -/
theorem out_vs_stdout_of_outf (w : World) (inf : Option Str) (q : Str) (f : Option Str → Outcome)
    (h : ∃ (k : Snk) (x : Nat) (er : Option Err), ∀ outf, sameFile inf outf = false → f outf =
        { exit := x, world := (deliver w outf k).1, stdout := (deliver w outf k).2, err := er })
    (hsf : sameFile inf (some q) = false) :
    ∃ k : Snk,
      ((f (some q)).world, (f (some q)).stdout) = deliver w (some q) k ∧ ((f none).world, (f none).stdout) = (w, k.out) ∧
      (f (some q)).exit = (f none).exit ∧ (f (some q)).err = (f none).err ∧
      ((f (some q)).world = w ∨ (f (some q)).world.file q = some (f none).stdout) := by
  obtain ⟨k, x, er, h⟩ := h
  have hq := h (some q) hsf
  have hn := h none (sameFile_to_stdout inf)
  refine ⟨k, by rw [hq], by rw [hn]; rfl, by rw [hq, hn], by rw [hq, hn], ?_⟩
  rw [hq, hn]
  rcases deliver_some_cases w q k with ⟨_, _, hd⟩ | ⟨_, hd⟩
  · left; rw [hd]
  · right; rw [hd]; exact World.file_setFile w q _

/-- **C12 (output file vs stdout; password decrypt, encrypt, password encrypt).** -/
theorem C12_out_vs_stdout_pass_decrypt (P : Prims) (w : World) (inf : Option Str) (q : Str) (e : Bool)
    (hsf : sameFile inf (some q) = false) :
    ∃ k : Snk,
      ((runPassDecrypt P w inf (some q) e).world, (runPassDecrypt P w inf (some q) e).stdout) = deliver w (some q) k ∧
      ((runPassDecrypt P w inf none e).world, (runPassDecrypt P w inf none e).stdout) = (w, k.out) ∧
      (runPassDecrypt P w inf (some q) e).exit = (runPassDecrypt P w inf none e).exit ∧
      (runPassDecrypt P w inf (some q) e).err = (runPassDecrypt P w inf none e).err ∧
      ((runPassDecrypt P w inf (some q) e).world = w ∨
        (runPassDecrypt P w inf (some q) e).world.file q = some (runPassDecrypt P w inf none e).stdout) :=
  out_vs_stdout_of_outf w inf q (fun outf => runPassDecrypt P w inf outf e) (runPassDecrypt_outf P w inf e) hsf

theorem C12_out_vs_stdout_encrypt (P : Prims) (rnd : Rand) (w : World) (inf : Option Str) (to fr q : Str) (kr : Option Str)
    (e : Bool) (hsf : sameFile inf (some q) = false) :
    ∃ k : Snk,
      ((runEncrypt P rnd w inf to fr (some q) kr e).world, (runEncrypt P rnd w inf to fr (some q) kr e).stdout) =
        deliver w (some q) k ∧
      ((runEncrypt P rnd w inf to fr none kr e).world, (runEncrypt P rnd w inf to fr none kr e).stdout) = (w, k.out) ∧
      (runEncrypt P rnd w inf to fr (some q) kr e).exit = (runEncrypt P rnd w inf to fr none kr e).exit ∧
      (runEncrypt P rnd w inf to fr (some q) kr e).err = (runEncrypt P rnd w inf to fr none kr e).err ∧
      ((runEncrypt P rnd w inf to fr (some q) kr e).world = w ∨
        (runEncrypt P rnd w inf to fr (some q) kr e).world.file q = some (runEncrypt P rnd w inf to fr none kr e).stdout) :=
  out_vs_stdout_of_outf w inf q (fun outf => runEncrypt P rnd w inf to fr outf kr e) (runEncrypt_outf P rnd w inf to fr kr e) hsf

theorem C12_out_vs_stdout_pass_encrypt (P : Prims) (rnd : Rand) (w : World) (inf : Option Str) (q : Str) (e : Bool)
    (hsf : sameFile inf (some q) = false) :
    ∃ k : Snk,
      ((runPassEncrypt P rnd w inf (some q) e).world, (runPassEncrypt P rnd w inf (some q) e).stdout) = deliver w (some q) k ∧
      ((runPassEncrypt P rnd w inf none e).world, (runPassEncrypt P rnd w inf none e).stdout) = (w, k.out) ∧
      (runPassEncrypt P rnd w inf (some q) e).exit = (runPassEncrypt P rnd w inf none e).exit ∧
      (runPassEncrypt P rnd w inf (some q) e).err = (runPassEncrypt P rnd w inf none e).err ∧
      ((runPassEncrypt P rnd w inf (some q) e).world = w ∨
        (runPassEncrypt P rnd w inf (some q) e).world.file q = some (runPassEncrypt P rnd w inf none e).stdout) :=
  out_vs_stdout_of_outf w inf q (fun outf => runPassEncrypt P rnd w inf outf e) (runPassEncrypt_outf P rnd w inf e) hsf

/-! ## (3) the exit status is truthful -/

/-- **C12 (exit values).** Every outcome has exit status 0 or 1, and 1 exactly when an error is reported. -/
theorem C12_exit_values (P : Prims) (rnd : Rand) (w : World) (req : Request) :
    ((run P rnd w req).exit = 0 ∨ (run P rnd w req).exit = 1) ∧
    ((run P rnd w req).exit = 1 ↔ (run P rnd w req).err.isSome = true) ∧
    ((run P rnd w req).exit = 0 ↔ (run P rnd w req).err = none) := by
  rcases wellReported_run P rnd w req with ⟨h1, h2⟩ | ⟨h1, h2⟩
  · exact ⟨Or.inl h1, by simp [h1, h2], by simp [h1, h2]⟩
  · refine ⟨Or.inr h1, by simp [h1, h2], ?_⟩
    rw [h1]
    constructor
    · intro h; cases h
    · intro h; rw [h] at h2; cases h2

/-- **C12 (exit status of decrypt, I/O level).** Exit status 0 ⇔ input and output differ, the input, the keyring and the key
    are there, and the library's `key_decrypt` over that input returned `Ok`. -/
theorem C12_exit_decrypt (P : Prims) (w : World) (inf : Option Str) (to : Str) (outf kr : Option Str) (e : Bool) :
    (runDecrypt P w inf to outf kr e).exit = 0 ↔
      sameFile inf outf = false ∧ ∃ input ks sk pk, openInput w inf = .ok input ∧ openKeyring w kr = .ok ks ∧
        unlockNamed w ks to e = .ok (sk, pk) ∧ (keyDecryptIO P sk pk { inp := input } {}).1 = .ok := by
  constructor
  · intro h
    rcases runDecrypt_spec P w inf to outf kr e with ⟨c, _, hc⟩ | ⟨input, ks, sk, pk, hsf, hi, hk, hu, hr⟩
    · rw [hc] at h; cases h
    · rw [hr, decryptFinish_exit] at h
      exact ⟨hsf, input, ks, sk, pk, hi, hk, hu, h⟩
  · rintro ⟨hsf, input, ks, sk, pk, hi, hk, hu, h⟩
    rw [runDecrypt_path hsf hi hk hu, decryptFinish_exit]
    exact h

/-- **C12 (exit status of decrypt, truthful).** Exit status 0 ⇔ the pure `key_decrypt` of the complete input succeeds with
    chunks `writes` and authenticated sender key `spk` — and then exactly `writes.flatten`, the full authenticated plaintext,
    has been delivered (in file `q` with `-o q`, else on stdout), and the sender line names the keyring entry whose
    public-key string is `encodePk spk` (the first such entry), or shows `encodePk spk` if there is none. -/
theorem C12_exit_decrypt_full (P : Prims) (w : World) (inf : Option Str) (to : Str) (outf kr : Option Str) (e : Bool) :
    (runDecrypt P w inf to outf kr e).exit = 0 ↔
      sameFile inf outf = false ∧ ∃ input ks sk pk writes spk, openInput w inf = .ok input ∧ openKeyring w kr = .ok ks ∧
        unlockNamed w ks to e = .ok (sk, pk) ∧ keyDecrypt P sk pk input = (writes, .ok, some spk) ∧
        runDecrypt P w inf to outf kr e =
          { exit := 0, world := (delivered w outf writes.flatten).1, stdout := (delivered w outf writes.flatten).2,
            sender := senderOf ks (some spk) } := by
  constructor
  · intro h
    obtain ⟨hsf, input, ks, sk, pk, hi, hk, hu, hr⟩ := (C12_exit_decrypt P w inf to outf kr e).mp h
    obtain ⟨s', k', hIO, _⟩ := keyDecryptIO_plain P sk pk input
    rw [hIO] at hr
    simp only at hr
    obtain ⟨_, spk, hspk, hfin⟩ := (decryptFinish_pure P w outf ks sk pk input
      (ws := (keyDecrypt P sk pk input).1) (pres := (keyDecrypt P sk pk input).2.1)
      (psnd := (keyDecrypt P sk pk input).2.2) rfl).2.2 hr
    refine ⟨hsf, input, ks, sk, pk, (keyDecrypt P sk pk input).1, spk, hi, hk, hu, ?_, ?_⟩
    · exact Prod.ext rfl (Prod.ext hr hspk)
    · rw [runDecrypt_path hsf hi hk hu, hfin]
  · rintro ⟨_, _, _, _, _, _, _, _, _, _, _, hr⟩
    rw [hr]

/-- the sender line, spelled out -/
theorem C12_sender_line (ks : List Keyring.Key) (spk : Bytes) :
    (∃ key ∈ ks, key.pk = Keyring.encodePk spk ∧ senderOf ks (some spk) = some (Sum.inl key.name)) ∨
    ((∀ key ∈ ks, key.pk ≠ Keyring.encodePk spk) ∧ senderOf ks (some spk) = some (Sum.inr (Keyring.encodePk spk))) :=
  senderOf_spec ks spk

/-- **C12 (exit status of password decrypt, truthful).** -/
theorem C12_exit_pass_decrypt (P : Prims) (w : World) (inf outf : Option Str) (e : Bool) :
    (runPassDecrypt P w inf outf e).exit = 0 ↔
      sameFile inf outf = false ∧ ∃ input pw writes, openInput w inf = .ok input ∧ askPass w e = .ok pw ∧
        (passDecryptIO P pw { inp := input } {}).1 = .ok ∧ passDecrypt P pw input = (writes, .ok) ∧
        runPassDecrypt P w inf outf e =
          { exit := 0, world := (delivered w outf writes.flatten).1, stdout := (delivered w outf writes.flatten).2 } := by
  constructor
  · intro h
    rcases runPassDecrypt_spec P w inf outf e with ⟨c, _, hc⟩ | ⟨input, pw, hsf, hi, hp, hr⟩
    · rw [hc] at h; cases h
    · rw [hr, streamFinish_exit] at h
      obtain ⟨s', k', hIO, _⟩ := passDecryptIO_plain P pw input
      have h' := h
      rw [hIO] at h'
      simp only at h'
      obtain ⟨_, hfin⟩ := (passDecryptFinish_pure P w outf pw input
        (ws := (passDecrypt P pw input).1) (pres := (passDecrypt P pw input).2) rfl).2.2 h'
      exact ⟨hsf, input, pw, (passDecrypt P pw input).1, hi, hp, h, Prod.ext rfl h', by rw [hr, hfin]⟩
  · rintro ⟨_, _, _, _, _, _, _, _, hr⟩
    rw [hr]

/-- **C12 (exit status of encrypt, truthful).** Exit status 0 ⇔ everything the command needs is there and the key exchange is
    not refused (no all-zero DH output) ⇔ the library's `key_encrypt` returned `Ok` — and then exactly the pure ciphertext for
    the read schedule of the input has been delivered; that schedule is a partition of the input into reads of at most
    `chunkSize` bytes. -/
theorem C12_exit_encrypt (P : Prims) (rnd : Rand) (w : World) (inf : Option Str) (to fr : Str) (outf kr : Option Str) (e : Bool) :
    (runEncrypt P rnd w inf to fr outf kr e).exit = 0 ↔
      sameFile inf outf = false ∧ ∃ input ks rkey rpk sk spk epk, openInput w inf = .ok input ∧ openKeyring w kr = .ok ks ∧
        Keyring.getKey ks to = some rkey ∧ Keyring.decodePk rkey.pk = .ok rpk ∧ unlockNamed w ks fr e = .ok (sk, spk) ∧
        P.pub rnd.b = some epk ∧ ¬ (P.dh rnd.b rpk = none ∨ P.dh sk rpk = none) ∧
        (keyEncryptIO P sk spk rpk rnd.b epk rnd.a { inp := input } {}).1 = .ok ∧
        (keyEncrypt P sk spk rpk rnd.b epk rnd.a (EncIO.Src.reads chunkSize { inp := input })).2 = .ok ∧
        (EncIO.Src.reads chunkSize { inp := input }).flatten = input ∧
        runEncrypt P rnd w inf to fr outf kr e =
          { exit := 0,
            world := (delivered w outf (keyEncrypt P sk spk rpk rnd.b epk rnd.a (EncIO.Src.reads chunkSize { inp := input })).1).1,
            stdout := (delivered w outf (keyEncrypt P sk spk rpk rnd.b epk rnd.a (EncIO.Src.reads chunkSize { inp := input })).1).2 } := by
  constructor
  · intro h
    rcases runEncrypt_spec P rnd w inf to fr outf kr e with ⟨c, _, hc⟩ | ⟨input, ks, rkey, rpk, sk, spk, epk, hsf, hi, hk, hg, hd, hu, hep, hr⟩
    · rw [hc] at h; cases h
    · have hio : (keyEncryptIO P sk spk rpk rnd.b epk rnd.a { inp := input } {}).1 = .ok := by
        rw [hr, streamFinish_exit] at h; exact h
      rcases encryptFinish_pure P w outf sk spk rpk rnd.b epk rnd.a input with ⟨_, h2⟩ | ⟨hdh, hok, h2⟩
      · rw [hr, h2] at h; cases h
      · exact ⟨hsf, input, ks, rkey, rpk, sk, spk, epk, hi, hk, hg, hd, hu, hep, hdh, hio, hok,
          (C10_enc_partition_independence P sk spk rpk rnd.b epk rnd.a { inp := input } {}
            (Src.plain_faultFree input) Snk.plain_benign).2.2.2.2, by rw [hr, h2]⟩
  · rintro ⟨_, _, _, _, _, _, _, _, _, _, _, _, _, _, _, _, _, _, hr⟩
    rw [hr]

/-- **C12 (exit status of password encrypt, truthful).** -/
theorem C12_exit_pass_encrypt (P : Prims) (rnd : Rand) (w : World) (inf outf : Option Str) (e : Bool) :
    (runPassEncrypt P rnd w inf outf e).exit = 0 ↔
      sameFile inf outf = false ∧ ∃ input pw, openInput w inf = .ok input ∧ askPass w e = .ok pw ∧
        (passEncryptIO P pw rnd.a { inp := input } {}).1 = .ok ∧
        (passEncrypt P pw rnd.a (EncIO.Src.reads chunkSize { inp := input })).2 = .ok ∧
        (EncIO.Src.reads chunkSize { inp := input }).flatten = input ∧
        runPassEncrypt P rnd w inf outf e =
          { exit := 0,
            world := (delivered w outf (passEncrypt P pw rnd.a (EncIO.Src.reads chunkSize { inp := input })).1).1,
            stdout := (delivered w outf (passEncrypt P pw rnd.a (EncIO.Src.reads chunkSize { inp := input })).1).2 } := by
  constructor
  · intro h
    rcases runPassEncrypt_spec P rnd w inf outf e with ⟨c, _, hc⟩ | ⟨input, pw, hsf, hi, hp, hr⟩
    · rw [hc] at h; cases h
    · have hio : (passEncryptIO P pw rnd.a { inp := input } {}).1 = .ok := by
        rw [hr, streamFinish_exit] at h; exact h
      obtain ⟨hok, h2⟩ := passEncryptFinish_pure P w outf pw rnd.a input
      exact ⟨hsf, input, pw, hi, hp, hio, hok,
        (C10_enc_partition_independence_pass P pw rnd.a { inp := input } {}
          (Src.plain_faultFree input) Snk.plain_benign).2.2.2.2, by rw [hr, h2]⟩
  · rintro ⟨_, _, _, _, _, _, _, _, hr⟩
    rw [hr]

/-! ## non-vacuity -/

namespace C12Ex

/-! a world built structurally: a one-key keyring produced by the serializer, the key locked with the password of the
    environment (no `decide` through scrypt / base64 / the keyring parser: the existing round-trip theorems are used) -/

def name : Str := "alice".toList
def pwS : Str := "pw".toList
def skA : Bytes := List.replicate 32 1          -- private = public key under `toyPrims`
def salt : Bytes := List.replicate 32 9
def locked : Str := Keyring.lockPrivateKey skA (utf8 pwS) salt
def krText : Str := Keyring.serializeKey name (Keyring.encodePk skA) locked
def ks : List Keyring.Key := [⟨name, Keyring.encodePk skA, some locked⟩]

/-- files `kr` (the keyring) and `in` (the input); the password in the environment -/
def world (input stdin : Bytes) (env : List (Str × Str) := [(str "KESTREL_PASSWORD", pwS)]) : World :=
  { files := [(str "kr", utf8 krText), (str "in", input)], env := env, stdin := stdin }

theorem skA_len : skA.length = 32 := List.length_replicate ..
theorem salt_len : salt.length = 32 := List.length_replicate ..

theorem krText_parse : Keyring.parse krText = some ks :=
  C14_first name (Keyring.encodePk skA) locked
    ⟨by decide, by decide, by decide, (C17_encodePk_length skA skA_len).2, C15_encodedSkOk skA (utf8 pwS) salt skA_len salt_len⟩

theorem world_file_kr (input stdin : Bytes) (env : List (Str × Str)) : (world input stdin env).file (str "kr") = some (utf8 krText) := rfl
theorem world_file_in (input stdin : Bytes) (env : List (Str × Str)) : (world input stdin env).file (str "in") = some input := rfl

theorem world_openKeyring (input stdin : Bytes) (env : List (Str × Str)) :
    openKeyring (world input stdin env) (some (str "kr")) = .ok ks :=
  openKeyring_of (world_file_kr input stdin env) krText_parse

theorem getKey_ks : Keyring.getKey ks name = some ⟨name, Keyring.encodePk skA, some locked⟩ := by
  unfold Keyring.getKey ks
  rw [List.find?_cons_of_pos]
  simp

theorem world_unlock (input stdin : Bytes) : unlockNamed (world input stdin) ks name true = .ok (skA, skA) :=
  unlockNamed_of getKey_ks (Keyring.decodePk_encodePk skA skA_len) rfl (pw := utf8 pwS) rfl
    (Keyring.unlock_lock skA (utf8 pwS) salt skA_len salt_len)


theorem senderOf_ks : senderOf ks (some skA) = some (Sum.inl name) := by
  have : Keyring.getNameFromKey ks (Keyring.encodePk skA) = some name := by
    unfold Keyring.getNameFromKey ks
    rw [List.find?_cons_of_pos (by simp)]
    rfl
  simp only [senderOf, this]

abbrev eK : Bytes := List.replicate 32 2
abbrev pK : Bytes := List.replicate 32 7

/-- a genuine ciphertext from alice to alice (C01) -/
theorem exists_ct : ∃ ct writes, keyEncrypt toyPrims skA skA skA eK eK pK exampleReads = (ct, .ok) ∧
    keyDecrypt toyPrims skA skA ct = (writes, .ok, some skA) ∧ writes.flatten = exampleReads.flatten := by
  obtain ⟨ct, henc, ⟨writes, hdec, hw⟩, _⟩ := C01_roundtrip toyPrims toyPrims_lawful skA skA skA skA eK eK pK exampleReads
    (List.length_replicate ..) skA_len (List.length_replicate ..) (toy_dhAgree _ _ _) exampleReads_wf exampleReads_le
  exact ⟨ct, writes, henc, hdec, hw⟩

/-- **`decrypt -o out -k kr --env-pass -t alice in` on a genuine file**: exit status 0, the plaintext in `out`, "File from: alice" -/
theorem decrypt_ok : ∃ ct, runDecrypt toyPrims (world ct []) (some (str "in")) name (some (str "out")) (some (str "kr")) true =
    { exit := 0, world := (world ct []).setFile (str "out") exampleReads.flatten, stdout := [], sender := some (Sum.inl name) } := by
  obtain ⟨ct, writes, _, hdec, hw⟩ := exists_ct
  refine ⟨ct, ?_⟩
  obtain ⟨_, spk, hspk, hfin⟩ := (decryptFinish_pure toyPrims (world ct []) (some (str "out")) ks skA skA ct hdec).2.2 rfl
  rw [runDecrypt_path (by decide) (openInput_file (world_file_in ct [] _)) (world_openKeyring ct [] _) (world_unlock ct []), hfin]
  cases hspk
  simp only [delivered, hw, senderOf_ks]

example : ∃ w : World, (runDecrypt toyPrims w (some (str "in")) name (some (str "out")) (some (str "kr")) true).exit = 0 := by
  obtain ⟨ct, h⟩ := decrypt_ok
  exact ⟨_, by rw [h]⟩


/-- a small genuine file from alice to alice: chunks `[7,8]` and `[9]` (199 bytes) -/
def smallCt : Bytes := (keyEncrypt toyPrims skA skA skA eK eK pK [[7,8],[9],[]]).1

set_option maxRecDepth 20000 in
theorem smallCt_dec : keyDecrypt toyPrims skA skA smallCt = ([[7,8],[9]], .ok, some skA) := by decide

/-- the same command on the small file, every hypothesis of the path discharged -/
theorem decrypt_small (outf : Option Str) (hout : outf ≠ some (str "in")) :
    runDecrypt toyPrims (world smallCt []) (some (str "in")) name outf (some (str "kr")) true =
      { exit := 0, world := (delivered (world smallCt []) outf [7,8,9]).1, stdout := (delivered (world smallCt []) outf [7,8,9]).2,
        sender := some (Sum.inl name) } := by
  obtain ⟨_, spk, hspk, hfin⟩ := (decryptFinish_pure toyPrims (world smallCt []) outf ks skA skA smallCt smallCt_dec).2.2 rfl
  rw [runDecrypt_path (sameFile_some_ne hout) (openInput_file (world_file_in smallCt [] _)) (world_openKeyring smallCt [] _)
    (world_unlock smallCt []), hfin]
  cases hspk
  simp only [senderOf_ks]
  rfl

/-! ### (1) parsing -/

/-- `decrypt in -t alice -o out=1 --env-pass`: an output name containing '=' -/
def exReq : Request := .decrypt (some (str "in")) (str "alice") (some (str "out=1")) none true
/-- values that start with '-', contain several '=', are `--`, are empty; no input file -/
def exReq2 : Request := .encrypt none (str "-bob") (str "a=b=c") (some (str "--")) (some (str "")) false

theorem exReq_renderable : Renderable exReq :=
  ⟨(fun f hf => by cases hf; decide), ⟨by decide, by decide⟩, (fun v hv => by cases hv; exact ⟨by decide, by decide⟩),
   (fun v hv => by cases hv)⟩
theorem exReq2_renderable : Renderable exReq2 :=
  ⟨(fun f hf => by cases hf), ⟨by decide, by decide⟩, ⟨by decide, by decide⟩,
   (fun v hv => by cases hv; exact ⟨by decide, by decide⟩), (fun v hv => by cases hv; exact ⟨by decide, by decide⟩)⟩

example : render ⟨false, true, true⟩ exReq = [str "dec", str "in", str "-t=alice", str "-o=out=1", str "--env-pass"] := by decide
example : render ⟨true, false, false⟩ exReq =
    [str "decrypt", str "in", str "--to", str "alice", str "--output", str "out=1", str "--env-pass"] := by decide
example : render ⟨false, false, false⟩ exReq2 =
    [str "encrypt", str "-t", str "-bob", str "-f", str "a=b=c", str "-o", str "--", str "-k", str ""] := by decide
example : render ⟨true, true, true⟩ exReq2 =
    [str "enc", str "--to=-bob", str "--from=a=b=c", str "--output=--", str "--keyring="] := by decide

example (st : Style) : parseArgv (str "kestrel" :: render st exReq) = exReq :=
  C12_parse_render _ ⟨by decide, by decide⟩ st _ exReq_renderable
example (st st' : Style) : parseArgv (str "kestrel" :: render st exReq2) = parseArgv (str "kestrel" :: render st' exReq2) :=
  C12_parse_equiv _ ⟨by decide, by decide⟩ st st' _ exReq2_renderable
/-- the theorem agrees with evaluating the model -/
example : parseArgv (str "kestrel" :: render ⟨false, true, true⟩ exReq) = exReq := by decide
set_option maxRecDepth 10000 in
example : parseArgv (str "kestrel" :: render ⟨false, false, false⟩ exReq2) = exReq2 := by decide
set_option maxRecDepth 10000 in
example : parseArgv (str "kestrel" :: render ⟨true, true, true⟩ exReq2) = exReq2 := by decide
example (st : Style) : parseArgv (str "kestrel" :: render st (.keyGen (some (str "kr")) true)) = .keyGen (some (str "kr")) true :=
  C12_parse_render _ ⟨by decide, by decide⟩ st _ (fun v hv => by cases hv; exact ⟨by decide, by decide⟩)
example (st : Style) : parseArgv (str "kestrel" :: render st (.changePass KR.aliceSk false)) = .changePass KR.aliceSk false :=
  C12_parse_render _ ⟨by decide, by decide⟩ st _ (show isArg KR.aliceSk = false by decide)

example : renderRev ⟨false, false, false⟩ exReq2 =
    [str "encrypt", str "-k", str "", str "-o", str "--", str "-f", str "a=b=c", str "-t", str "-bob"] := by decide
example : renderRev ⟨false, true, true⟩ exReq = [str "dec", str "--env-pass", str "-o=out=1", str "-t=alice", str "in"] := by decide
example (st st' : Style) := C12_parse_order_rev (str "kestrel") ⟨by decide, by decide⟩ st st' exReq exReq_renderable
example : parseArgv (str "kestrel" :: renderRev ⟨false, true, true⟩ exReq) = exReq := by decide

/-- two adjacent options swapped (`-o` before `-t`), the file in the middle -/
example (st : Style) : parseArgv (str "kestrel" :: word st "decrypt" "dec" ::
    (([pieceOptional st optO 1 (some (str "out=1")), pieceFile (some (str "in")), pieceOpt st optT 0 (str "alice"),
       pieceOptional st optK 2 none, pieceFlag st optE 3 true] : List Piece).map (·.args)).flatten) = exReq :=
  (C12_parse_order_decrypt (str "kestrel") ⟨by decide, by decide⟩ st _ _ _ _ _ exReq_renderable _
    (by
      unfold decryptPieces
      exact (List.Perm.swap _ _ _).trans (List.Perm.cons _ (List.Perm.swap _ _ _)))).1
example : (([pieceOptional ⟨false, false, false⟩ optO 1 (some (str "out=1")), pieceFile (some (str "in")),
      pieceOpt ⟨false, false, false⟩ optT 0 (str "alice"), pieceOptional ⟨false, false, false⟩ optK 2 none,
      pieceFlag ⟨false, false, false⟩ optE 3 true] : List Piece).map (·.args)).flatten =
    [str "-o", str "out=1", str "in", str "-t", str "alice", str "--env-pass"] := by decide

/-- the side conditions are needed: a value `-h` turns the command into a help request; an option-like input file name is
    taken for an option -/
example : parseArgv [str "kestrel", str "dec", str "-t", str "-h"] = .help := by decide
example : parseArgv [str "kestrel", str "dec", str "-x", str "-t", str "a"] = .usageError := by decide
example : parseArgv [str "-h", str "dec", str "-t", str "a"] = .help := by decide

/-! ### (2) wiring -/

example (input : Bytes) (rnd : Rand) :
    sameResult (run toyPrims rnd (world input []) (.decrypt (some (str "in")) name (some (str "out")) (some (str "kr")) true))
      (run toyPrims rnd { world input [] with stdin := input } (.decrypt none name (some (str "out")) (some (str "kr")) true)) :=
  C12_file_vs_stdin_decrypt toyPrims rnd _ _ input _ _ _ _ (world_file_in input [] _) (by decide)

example (input : Bytes) (rnd : Rand) :
    sameResult (run toyPrims rnd (world input []) (.encrypt (some (str "in")) name name none (some (str "kr")) true))
      (run toyPrims rnd { world input [] with stdin := input } (.encrypt none name name none (some (str "kr")) true)) :=
  C12_file_vs_stdin_encrypt toyPrims rnd _ _ input _ _ _ _ _ (world_file_in input [] _) (by decide)

example (input : Bytes) (rnd : Rand) :
    sameResult (run toyPrims rnd (world input []) (.passDecrypt (some (str "in")) (some (str "out")) true))
      (run toyPrims rnd { world input [] with stdin := input } (.passDecrypt none (some (str "out")) true)) :=
  C12_file_vs_stdin_pass_decrypt toyPrims rnd _ _ input _ _ (world_file_in input [] _) (by decide)

example (input : Bytes) (rnd : Rand) :
    sameResult (run toyPrims rnd (world input []) (.passEncrypt (some (str "in")) none true))
      (run toyPrims rnd { world input [] with stdin := input } (.passEncrypt none none true)) :=
  C12_file_vs_stdin_pass_encrypt toyPrims rnd _ _ input _ _ (world_file_in input [] _) (by decide)

/-- `KESTREL_KEYRING=kr` -/
def envKr : List (Str × Str) := [(str "KESTREL_PASSWORD", pwS), (str "KESTREL_KEYRING", str "kr")]

example (input : Bytes) (rnd : Rand) :
    run toyPrims rnd (world input [] envKr) (.decrypt (some (str "in")) name none (some (str "kr")) true) =
      run toyPrims rnd (world input [] envKr) (.decrypt (some (str "in")) name none none true) :=
  (C12_keyring_opt_vs_env toyPrims rnd (world input [] envKr) (str "kr") rfl (some (str "in")) name name none true).1

example := C12_out_vs_stdout_decrypt toyPrims (world smallCt []) (some (str "in")) name (str "out") (some (str "kr")) true (by decide)
example (rnd : Rand) (input : Bytes) :=
  C12_out_vs_stdout_encrypt toyPrims rnd (world input []) (some (str "in")) name name (str "out") (some (str "kr")) true (by decide)
example (input : Bytes) := C12_out_vs_stdout_pass_decrypt toyPrims (world input []) (some (str "in")) (str "out") true (by decide)
example (rnd : Rand) (input : Bytes) :=
  C12_out_vs_stdout_pass_encrypt toyPrims rnd (world input []) (some (str "in")) (str "out") true (by decide)

/-- on the small file both wirings are computed: the plaintext `[7,8,9]` in file `out`, or on stdout -/
example : (runDecrypt toyPrims (world smallCt []) (some (str "in")) name (some (str "out")) (some (str "kr")) true).world.file (str "out")
      = some [7,8,9] ∧
    (runDecrypt toyPrims (world smallCt []) (some (str "in")) name none (some (str "kr")) true).stdout = [7,8,9] ∧
    (runDecrypt toyPrims (world smallCt []) (some (str "in")) name none (some (str "kr")) true).world = world smallCt [] := by
  rw [decrypt_small (some (str "out")) (by decide), decrypt_small none (by decide)]
  exact ⟨World.file_setFile _ _ _, rfl, rfl⟩

/-! ### (3) exit status -/

example (rnd : Rand) (w : World) (req : Request) := C12_exit_values toyPrims rnd w req

/-- the right-hand side of `C12_exit_decrypt_full` is satisfiable: a genuine (large) file from C01 … -/
example : ∃ w : World, (runDecrypt toyPrims w (some (str "in")) name (some (str "out")) (some (str "kr")) true).exit = 0 ∧
    (runDecrypt toyPrims w (some (str "in")) name (some (str "out")) (some (str "kr")) true).world.file (str "out") =
      some exampleReads.flatten := by
  obtain ⟨ct, h⟩ := decrypt_ok
  exact ⟨_, by rw [h], by rw [h]; exact World.file_setFile _ _ _⟩

/-- … and the small one, through the theorem -/
example : sameFile (some (str "in")) (some (str "out")) = false ∧
    ∃ input ks' sk pk writes spk, openInput (world smallCt []) (some (str "in")) = .ok input ∧
      openKeyring (world smallCt []) (some (str "kr")) = .ok ks' ∧ unlockNamed (world smallCt []) ks' name true = .ok (sk, pk) ∧
      keyDecrypt toyPrims sk pk input = (writes, .ok, some spk) ∧
      runDecrypt toyPrims (world smallCt []) (some (str "in")) name (some (str "out")) (some (str "kr")) true =
        { exit := 0, world := (delivered (world smallCt []) (some (str "out")) writes.flatten).1,
          stdout := (delivered (world smallCt []) (some (str "out")) writes.flatten).2, sender := senderOf ks' (some spk) } :=
  (C12_exit_decrypt_full toyPrims (world smallCt []) (some (str "in")) name (some (str "out")) (some (str "kr")) true).mp
    (by rw [decrypt_small _ (by decide)])

/-- a failing decrypt: a file that is too short — exit status 1, by the same equivalence -/
example : (runDecrypt toyPrims (world [1,2,3] []) (some (str "in")) name (some (str "out")) (some (str "kr")) true).exit ≠ 0 := by
  intro h
  obtain ⟨_, input, ks', sk, pk, hi, _, _, hok⟩ := (C12_exit_decrypt toyPrims _ _ _ _ _ _).mp h
  have : input = [1,2,3] := by
    rw [openInput_file (world_file_in [1,2,3] [] _)] at hi
    exact (Except.ok.inj hi).symm
  subst this
  obtain ⟨s', k', hIO, _⟩ := keyDecryptIO_plain toyPrims sk pk [1,2,3]
  rw [hIO] at hok
  have : (keyDecrypt toyPrims sk pk [1,2,3]).2.1 = .ioRead := by
    rw [keyDecrypt_unfold]; rfl
  rw [this] at hok
  cases hok

/-- encrypt to self on the structural world: exit status 0 for every input -/
theorem encrypt_ok (input : Bytes) (outf : Option Str) (hout : outf ≠ some (str "in")) :
    (runEncrypt toyPrims ⟨pK, eK⟩ (world input []) (some (str "in")) name name outf (some (str "kr")) true).exit = 0 := by
  rw [runEncrypt_path (sameFile_some_ne hout) (openInput_file (world_file_in input [] _)) (world_openKeyring input [] _)
    getKey_ks (Keyring.decodePk_encodePk skA skA_len) (world_unlock input []) (rfl : toyPrims.pub eK = some eK)]
  rcases encryptFinish_pure toyPrims (world input []) outf skA skA skA eK eK pK input with ⟨hz, _⟩ | ⟨_, _, h2⟩
  · rcases hz with h | h <;> cases h
  · rw [h2]

example (input : Bytes) := (C12_exit_encrypt toyPrims ⟨pK, eK⟩ (world input []) (some (str "in")) name name (some (str "out"))
  (some (str "kr")) true).mp (encrypt_ok input _ (by decide))

/-- password mode: the password `[1]` of C10decEx in the environment -/
def pworld (input : Bytes) : World :=
  { files := [(str "in", input)], env := [(str "KESTREL_PASSWORD", [Char.ofNat 1])], stdin := [] }

theorem pworld_pass (input : Bytes) : askPass (pworld input) true = .ok C10decEx.pw := rfl

example (rnd : Rand) (input : Bytes) : (runPassEncrypt toyPrims rnd (pworld input) (some (str "in")) (some (str "out")) true).exit = 0 := by
  rw [runPassEncrypt_path (by decide) (openInput_file rfl) (pworld_pass input),
    (passEncryptFinish_pure toyPrims _ _ C10decEx.pw rnd.a input).2]

example (rnd : Rand) (input : Bytes) :=
  (C12_exit_pass_encrypt toyPrims rnd (pworld input) (some (str "in")) (some (str "out")) true).mp (by
    rw [runPassEncrypt_path (by decide) (openInput_file rfl) (pworld_pass input),
      (passEncryptFinish_pure toyPrims _ _ C10decEx.pw rnd.a input).2])

theorem file_dec : passDecrypt toyPrims C10decEx.pw C10decEx.file = ([[7,8],[9]], .ok) := by decide

theorem pass_decrypt_ok : runPassDecrypt toyPrims (pworld C10decEx.file) (some (str "in")) (some (str "out")) true =
    { exit := 0, world := (pworld C10decEx.file).setFile (str "out") [7,8,9], stdout := [] } := by
  rw [runPassDecrypt_path (by decide) (openInput_file rfl) (pworld_pass _),
    ((passDecryptFinish_pure toyPrims _ _ C10decEx.pw C10decEx.file file_dec).2.2 rfl).2]
  rfl

example := (C12_exit_pass_decrypt toyPrims (pworld C10decEx.file) (some (str "in")) (some (str "out")) true).mp (by
  rw [pass_decrypt_ok])

/-- the theorems agree with evaluating the model on this world -/
example : (runPassDecrypt toyPrims (pworld C10decEx.file) (some (str "in")) (some (str "out")) true).exit = 0 ∧
    (runPassDecrypt toyPrims (pworld C10decEx.file) (some (str "in")) (some (str "out")) true).world.file (str "out") = some [7,8,9] := by
  decide

end C12Ex

end Kestrel
