/-
  C17 (public-key part) — Encoded public keys: base64(pk(32) ‖ sha256(pk)[0..4]) = 36 bytes = 48 characters.
  `decodePk(encodePk(k)) = k`; a decoded key is usable only if its four checksum bytes match, in which case the
  text is exactly `encodePk` of the key; a 36-byte blob with any other checksum is `pkChecksum`.
  (The keyring *parser* part of C17 is in `KestrelProps/C17.lean`.)
-/
import KestrelProofs.LockedKey
namespace Kestrel
open Generated

/-- **C17 (checksum round trip).** Decoding the encoding of any 32-byte public key returns that key. -/
theorem C17_checksum_roundtrip (k : Bytes) (hk : k.length = 32) :
    Keyring.decodePk (Keyring.encodePk k) = .ok k :=
  Keyring.decodePk_encodePk k hk

example : Keyring.decodePk (Keyring.encodePk (List.replicate 32 5)) = .ok (List.replicate 32 5) :=
  C17_checksum_roundtrip (List.replicate 32 5) (List.length_replicate ..)

/-- **C17 (checksum strictness).** A text that decodes to a usable key `k` is exactly the encoding of `k`: 32 key
    bytes followed by the first four bytes of their SHA-256, in canonical base64.  Hence changing any of the 48
    characters (key or checksum part) either makes the text unusable or makes it the genuine encoding of a
    *different* key whose own checksum matches. -/
theorem C17_checksum_strict (s : Keyring.Str) (k : Bytes) (h : Keyring.decodePk s = .ok k) :
    k.length = 32 ∧ s = Keyring.encodePk k :=
  Keyring.decodePk_strict s k h

example : (List.replicate 32 (5 : UInt8)).length = 32 ∧
    Keyring.encodePk (List.replicate 32 5) = Keyring.encodePk (List.replicate 32 5) :=
  C17_checksum_strict _ _ (C17_checksum_roundtrip (List.replicate 32 5) (List.length_replicate ..))

/-- **C17 (checksum detects).** A well-formed 36-byte blob whose last four bytes are not the SHA-256 prefix of its
    first 32 is rejected with `pkChecksum`. -/
theorem C17_checksum_detects (s : Keyring.Str) (b : Bytes) (hd : B64.decode (Keyring.utf8 s) = some b)
    (hl : b.length = 36) (hc : b.drop 32 ≠ (sha256 (b.take 32)).take 4) :
    Keyring.decodePk s = .error .pkChecksum := by
  unfold Keyring.decodePk
  rw [hd]
  simp only []
  rw [if_neg (by rw [hl]; decide), if_neg hc]

/-- the hypotheses are satisfiable for every 32-byte key and every 4-byte non-checksum -/
theorem C17_checksum_detects_append (k c : Bytes) (hk : k.length = 32) (hcl : c.length = 4)
    (hne : c ≠ (sha256 k).take 4) :
    Keyring.decodePk (Keyring.asciiStr (B64.encode (k ++ c))) = .error .pkChecksum :=
  C17_checksum_detects _ (k ++ c) (B64.decode_utf8_asciiStr_encode _)
    (by rw [List.length_append, hk, hcl])
    (by rw [← hk, List.drop_left' rfl, List.take_left' rfl]; exact hne)

/-- concrete instance without evaluating SHA-256: of two different 4-byte suffixes at most one is the checksum,
    so at least one of the two texts is rejected with `pkChecksum` -/
example :
    Keyring.decodePk (Keyring.asciiStr (B64.encode (List.replicate 32 5 ++ [0, 0, 0, 0]))) = .error .pkChecksum ∨
    Keyring.decodePk (Keyring.asciiStr (B64.encode (List.replicate 32 5 ++ [1, 0, 0, 0]))) = .error .pkChecksum := by
  by_cases h : ([0, 0, 0, 0] : Bytes) = (sha256 (List.replicate 32 5)).take 4
  · refine Or.inr (C17_checksum_detects_append _ _ (List.length_replicate ..) rfl ?_)
    rw [← h]; decide
  · exact Or.inl (C17_checksum_detects_append _ _ (List.length_replicate ..) rfl h)

/-- **C17 (shape).** The encoding of a 32-byte key is 48 characters and passes the parser's `EncodedPk::try_from`
    check. -/
theorem C17_encodePk_length (k : Bytes) (hk : k.length = 32) :
    (Keyring.encodePk k).length = 48 ∧ Keyring.encodedPkOk (Keyring.encodePk k) = true := by
  constructor
  · unfold Keyring.encodePk
    rw [Keyring.asciiStr_length, B64.encode_length, pkBlob_length k hk]
  · unfold Keyring.encodedPkOk
    rw [Keyring.decode_encodePk]
    simp only [pkBlob_length k hk]
    decide

example : (Keyring.encodePk (List.replicate 32 5)).length = 48 ∧
    Keyring.encodedPkOk (Keyring.encodePk (List.replicate 32 5)) = true :=
  C17_encodePk_length _ (List.length_replicate ..)

/-- **C17 (injectivity).** Distinct keys have distinct encodings. -/
theorem C17_encodePk_inj (k k' : Bytes) (hk : k.length = 32) (hk' : k'.length = 32)
    (h : Keyring.encodePk k = Keyring.encodePk k') : k = k' := by
  have h1 := C17_checksum_roundtrip k hk
  rw [h, C17_checksum_roundtrip k' hk'] at h1
  exact (Except.ok.inj h1).symm

example : Keyring.encodePk (List.replicate 32 5) ≠ Keyring.encodePk (List.replicate 32 6) := by
  intro h
  have := C17_encodePk_inj _ _ (List.length_replicate ..) (List.length_replicate ..) h
  exact absurd this (by decide)

end Kestrel
