/-
  CliGenKeySrc — `gen_key` (with `ask_user_stderr`) of `src/cli/src/commands.rs`, *as translated mechanically* by
  tools/rs2lean_cli.py, equals the model's `runKeyGen`; and, with it, the whole program for the three `key` commands:
  the translated `try_main` / `main` over the translated commands (`commands.api lib`) against the model's `Cli.main`.

  `gen_key` is the one command that uses everything: a line read from standard input, the confirmation loop, two draws of
  randomness, X25519, the keyring functions, `Path::exists`, `OpenOptions … append`, a `Box<dyn Write>` holding a file or
  standard output, `write_all` / `flush` through it.
  Hypotheses and their origin (in addition to those of KestrelProps/CliCmdSrc.lean):
    `sys.stdinPos = 0`                      nothing was read from standard input before.
  There is NO hypothesis on the content of standard input.  An earlier version of these theorems needed "standard input as
  a whole is valid UTF-8": the model's `readName` then decoded all of standard input and failed if any of it was invalid,
  whereas the code (`read_line`) decodes only the first line — on "alice\n" followed by the byte 0xFF the code goes on with
  the name "alice" (exit 0; confirmed with the binary) and the old model reported `badName`.  That was a defect of the model
  and it was repaired there: `Cli.readName` now decodes `Cli.firstLine` of standard input (the bytes up to and including the
  first newline, which is what `RsCli.Stdin.read_line` takes) and trims it.  On input that is valid UTF-8 as a whole the
  repaired `readName` is what the old one was (`cli_readName_of_utf8` below).
-/
import KestrelProofs.CliGenKeySrc
import KestrelProps.CliStreamSrc
namespace Kestrel
open CliSrc RsCli Cli
open Kestrel.Keyring (Str)

/-- **ask_user_stderr.** With standard input untouched, whatever it holds: if the model's `readName` gives a name — the first
    line is UTF-8; the name is that line, trimmed — the answer is that name, the prompt and a newline go to standard error,
    the line is consumed, nothing else changes; if `readName` gives none — the first line is not UTF-8 — the function fails
    with the I/O error of `read_line`, having printed the prompt only and consumed the line. -/
theorem cli_source_ask_user_stderr (sys : Sys) (prompt : Str) (hpos : sys.stdinPos = 0) :
    (∀ name, Cli.readName sys.world = some name →
      CliSrc.commands.ask_user_stderr sys prompt = (afterAsk sys prompt, .ok name)) ∧
    (Cli.readName sys.world = none →
      CliSrc.commands.ask_user_stderr sys prompt = (afterAskErr sys prompt, .error (.io .other))) := by
  refine ⟨fun name h => ?_, fun h => ?_⟩ <;> rw [ask_user_stderr_readName sys prompt hpos, h]

/-- non-vacuity, both cases: "alice\n" followed by the byte 0xFF is read as "alice" … -/
example (w : Cli.World) (hw : w.stdin = [97, 108, 105, 99, 101, 10, 0xFF]) : Cli.readName w = some "alice".toList := by
  have h : Cli.utf8Decode (Keyring.utf8 "alice\n".toList) = some "alice\n".toList := utf8Decode_utf8 _
  have e : Cli.firstLine [97, 108, 105, 99, 101, 10, 0xFF] = Keyring.utf8 "alice\n".toList := by decide
  unfold Cli.readName
  rw [hw, e, h]
  decide

/-- … and "al", 0xFF, "ice\nzz" (the bad byte within the first line) is an error -/
example (w : Cli.World) (hw : w.stdin = [97, 108, 0xFF, 105, 99, 101, 10, 122, 122]) : Cli.readName w = none := by
  have e : Cli.firstLine [97, 108, 0xFF, 105, 99, 101, 10, 122, 122] = [97, 108, 0xFF, 105, 99, 101, 10] := by decide
  have h : Cli.utf8Decode [97, 108, 0xFF, 105, 99, 101, 10] = none := by decide
  unfold Cli.readName
  rw [hw, e, h]

/-- the repaired `readName` and the old one: when standard input as a whole is the UTF-8 of a text `t`, the name is the
    first line of `t`, trimmed — the old definition.  (The two differ only when something after the first line is not UTF-8.) -/
theorem cli_readName_of_utf8 (w : Cli.World) (t : Str) (h : Cli.utf8Decode w.stdin = some t) :
    Cli.readName w = some (Keyring.trim (t.takeWhile (· != '\n'))) :=
  readName_of_utf8 w t h

/-- **gen_key = runKeyGen.** -/
theorem cli_source_gen_key (sys : Sys) (outf : Option Str) (envPass : Bool)
    (hf : 1 ≤ sys.fuel) (hd : sys.draws = 0) (hpos : sys.stdinPos = 0)
    (hpub : ∀ k pk, sys.prims.pub k = some pk → pk.length = 32) :
    Agrees sys (CliSrc.commands.gen_key sys outf envPass) (Cli.runKeyGen sys.prims sys.rnd sys.world outf envPass) :=
  gen_key_spec sys outf envPass hf hd hpos hpub

/-- non-vacuity: a new keyring file is created with exactly the serialized key -/
example (sys : Sys) (p : Str) (hf : 1 ≤ sys.fuel) (hd : sys.draws = 0) (hpos : sys.stdinPos = 0)
    (hpub : ∀ k pk, sys.prims.pub k = some pk → pk.length = 32) :
    (CliSrc.commands.gen_key sys (some p) true).1.world = (Cli.runKeyGen sys.prims sys.rnd sys.world (some p) true).world :=
  (cli_source_gen_key sys (some p) true hf hd hpos hpub).1

/-! ## the whole program for `kestrel key generate | change-pass | extract-pub` -/

/-- **from the command line to the outcome.** If the command line parses (in the model) to one of the three `key` requests,
    the translated program — `try_main` of main.rs over the translated commands of commands.rs — agrees with the model's
    `Cli.main`: the same final world (the keyring file appended to / created, or nothing touched), the model's output appended
    to standard output, `Ok(())` / `Err` as the exit code 0 / 1 — whatever the streaming library functions `lib` are. -/
theorem cli_source_key_program (lib : StreamLib DynRead CliSrc.DynWrite) (sys : Sys) (argv : List Str)
    (h : sys.args = argv.map OsString.unicode)
    (hreq : (∃ o e, Cli.parseArgv argv = .keyGen o e) ∨ (∃ k e, Cli.parseArgv argv = .changePass k e) ∨
      (∃ k e, Cli.parseArgv argv = .extractPub k e))
    (hf : 1 ≤ sys.fuel) (hd : sys.draws = 0) (hpos : sys.stdinPos = 0)
    (hpub : ∀ k pk, sys.prims.pub k = some pk → pk.length = 32) :
    Agrees sys (CliSrc.try_main (CliSrc.commands.api lib) sys) (Cli.main sys.prims sys.rnd sys.world argv) := by
  have hdisp := cli_source_parse_argv (CliSrc.commands.api lib) sys argv h
  unfold Cli.main
  rcases hreq with ⟨o, e, hq⟩ | ⟨k, e, hq⟩ | ⟨k, e, hq⟩
  · rw [hq] at hdisp ⊢
    have : CliSrc.try_main (CliSrc.commands.api lib) sys = CliSrc.commands.gen_key sys o e := hdisp
    rw [this]
    exact cli_source_gen_key sys o e hf hd hpos hpub
  · rw [hq] at hdisp ⊢
    have : CliSrc.try_main (CliSrc.commands.api lib) sys = CliSrc.commands.change_pass sys k e := hdisp
    rw [this]
    exact cli_source_change_pass sys k e hf hd
  · rw [hq] at hdisp ⊢
    have : CliSrc.try_main (CliSrc.commands.api lib) sys = CliSrc.commands.extract_pub sys k e := hdisp
    rw [this]
    exact cli_source_extract_pub sys k e hpub

/-- … and the process as `fn main` leaves it: exit code, world and standard output are the model's. -/
theorem cli_source_key_program_exit (lib : StreamLib DynRead CliSrc.DynWrite) (sys : Sys) (argv : List Str)
    (h : sys.args = argv.map OsString.unicode)
    (hreq : (∃ o e, Cli.parseArgv argv = .keyGen o e) ∨ (∃ k e, Cli.parseArgv argv = .changePass k e) ∨
      (∃ k e, Cli.parseArgv argv = .extractPub k e))
    (hf : 1 ≤ sys.fuel) (hd : sys.draws = 0) (hpos : sys.stdinPos = 0)
    (hpub : ∀ k pk, sys.prims.pub k = some pk → pk.length = 32) (hexit : sys.exit = none) :
    (((CliSrc.main (CliSrc.commands.api lib) sys).exit.getD 0 : Int) = (Cli.main sys.prims sys.rnd sys.world argv).exit) ∧
    (CliSrc.main (CliSrc.commands.api lib) sys).world = (Cli.main sys.prims sys.rnd sys.world argv).world ∧
    (CliSrc.main (CliSrc.commands.api lib) sys).stdout = sys.stdout ++ (Cli.main sys.prims sys.rnd sys.world argv).stdout := by
  obtain ⟨hw, hs, hr, _, he, _⟩ := cli_source_key_program lib sys argv h hreq hf hd hpos hpub
  rw [cli_source_main]
  rcases ht : CliSrc.try_main (CliSrc.commands.api lib) sys with ⟨s, r⟩
  rw [ht] at hw hs hr he
  rcases hr with ⟨hok, h0⟩ | ⟨⟨err, herr⟩, h1⟩
  · cases hok
    refine ⟨?_, hw, hs⟩
    show ((s.exit.getD 0 : Int)) = _
    rw [show s.exit = sys.exit from he, hexit, h0]; rfl
  · cases herr
    refine ⟨?_, hw, hs⟩
    rw [h1]; rfl

/-- **the streaming commands through the program**: on a command line that parses to `decrypt`, the translated program IS the
    translated `commands::decrypt` on the fields of the request (so `cli_source_decrypt` / `cli_source_decrypt_early` apply
    to the whole program); likewise for the other three. -/
theorem cli_source_stream_program (lib : StreamLib DynRead CliSrc.DynWrite) (sys : Sys) (argv : List Str)
    (h : sys.args = argv.map OsString.unicode) :
    (∀ i t o k e, Cli.parseArgv argv = .decrypt i t o k e →
      CliSrc.try_main (CliSrc.commands.api lib) sys = CliSrc.commands.decrypt lib sys ⟨i, t, o, k, e⟩) ∧
    (∀ i t f o k e, Cli.parseArgv argv = .encrypt i t f o k e →
      CliSrc.try_main (CliSrc.commands.api lib) sys = CliSrc.commands.encrypt lib sys ⟨i, t, f, o, k, e⟩) ∧
    (∀ i o e, Cli.parseArgv argv = .passEncrypt i o e →
      CliSrc.try_main (CliSrc.commands.api lib) sys = CliSrc.commands.pass_encrypt lib sys ⟨i, o, e⟩) ∧
    (∀ i o e, Cli.parseArgv argv = .passDecrypt i o e →
      CliSrc.try_main (CliSrc.commands.api lib) sys = CliSrc.commands.pass_decrypt lib sys ⟨i, o, e⟩) := by
  have hdisp := cli_source_parse_argv (CliSrc.commands.api lib) sys argv h
  refine ⟨fun i t o k e hq => ?_, fun i t f o k e hq => ?_, fun i o e hq => ?_, fun i o e hq => ?_⟩ <;>
    (rw [hq] at hdisp; exact hdisp)

end Kestrel
