/-
  NoiseSrc — the Noise X handshake of `src/crypto/src/noise.rs` and the crypto wrappers of `src/crypto/src/lib.rs`, *as translated
  mechanically* by tools/rs2lean_noise.py into `Kestrel.NoiseSrc` (KestrelModel/GeneratedNoise.lean, regenerated from the Rust
  source on every run), are the hand-written model: `Noise.writeMessage` / `Noise.readMessage` (KestrelModel/Noise.lean),
  `RsIO.noiseEncrypt` / `RsIO.noiseDecrypt` (the glue that the translation of encrypt.rs / decrypt.rs calls, RsIO.lean),
  `chapolyNoise` (Aead.lean), `hkdfNoise` / `hkdfSha256` (Prim/Sha256.lean) — for ALL inputs.

  The primitives.  The translated code bottoms out in the functions of the orion crate; these are the fields of the record
  `RsNoise.Orion` (parameter `O`; RsNoise.lean says how each call reads its arguments and fills its output buffer).  The model is
  written over a record `P : Kestrel.Prims`.  The two are connected by `NoiseSrc.primsOf O kdf : Prims`, whose fields are the
  TRANSLATED wrapper functions over `O` (`aead` = `chapoly_encrypt_noise` / `chapoly_decrypt_noise`, `hash` = `sha256`, `hkdf2` =
  `hkdf_noise`, `hkdfFile` = `hkdf_sha256(&[], .., .., 32)`, `dh` = `x25519`, `pub` = `x25519_derive_public`; `kdf` (scrypt) is not
  used by the handshake and is a parameter).  Theorems 1 and 2 hold for EVERY `O` — nothing is assumed about the primitives — and
  `noise_source_prims_concrete` says that over the orion functions as modelled in KestrelModel/Prim (`RsNoise.concreteOrion`)
  `primsOf` IS `concretePrims`, the record the executable model and every other theorem use.

  Hypotheses.
    * theorems 1 (write / read), 2 (`noise_decrypt`), 3 (`chapoly_*_noise`, `hkdf_sha256`): none.  Key lengths do not occur:
      a key of the wrong length is a panic in the Rust (`try_into().expect`, orion's `from_slice(..).unwrap()`), the translation
      totalises these as the identity, and both sides then call the same primitive on the same bytes.  That the 32 bytes cut out
      of the message for `re` pass `PublicKey::try_from` follows from the length check at the top of `read_message`.
    * theorem 2 (`noise_encrypt`): `hpub : ∀ k pk, O.pub k = some pk → pk.length = 32` — only for the branch that generates the
      ephemeral key: `PrivateKey::to_public` pushes orion's public key through `PublicKey::try_from(..).unwrap()`, which panics
      unless it is 32 bytes.  Origin: orion's `x25519::PublicKey::to_bytes()` returns `[u8; 32]`.  It holds for the concrete
      model (`NoiseSrc.pubOf_length`).
    * theorem 3 (`hkdf_noise`): `hlen : ∀ k d, (O.hmac k d).length = 32` — `counter2[..32].copy_from_slice(&output1)` panics
      unless HMAC-SHA-256 returns 32 bytes (orion's `Tag` is 32 bytes).  It holds for the concrete model (`hmacSha256_length`).

  Panics.  The generated header lists the dropped `assert!` / `unimplemented!` statements.  The `EE` / `SE` arms are never run:
  the loop only runs the arms of the tokens in the list (`NoiseSrc.forInStep_congr`), and the list `init_x` installs is
  `[E, ES, S, SS]` (`noise_source_x_pattern`).

  Trusted: the translator, KestrelModel/RsPrelude.lean, RsIO.lean (its first half), RsNoise.lean, the reading of usize / u64 as
  `Nat`.  Helper lemmas: KestrelProofs/NoiseSrc.lean.
-/
import KestrelProofs.NoiseSrc
namespace Kestrel
open RsNoise

/-! ### data for the non-vacuity examples -/

/-- toy orion functions: the AEAD appends 16 zero bytes, hashes and MACs truncate / pad to 32 bytes, DH is byte-wise addition -/
def toyOrion : Orion where
  chSeal _ _ p _ := p ++ zeros 16
  chOpen _ _ c _ := if c.length < 16 then none else
    if c.drop (c.length - 16) = zeros 16 then some (c.take (c.length - 16)) else none
  sha256 m := (m ++ zeros 32).take 32
  hmac k d := ((k ++ d) ++ zeros 32).take 32
  hkdf _ ikm info len := ((ikm ++ info) ++ zeros len).take len
  dh a b := some (List.zipWith (· + ·) a b)
  pub a := some ((a ++ zeros 32).take 32)

theorem toyOrion_pub (k pk : Bytes) (h : toyOrion.pub k = some pk) : pk.length = 32 := by
  simp only [toyOrion, Option.some.injEq] at h
  rw [← h]; simp [zeros]

theorem toyOrion_hmac (k d : Bytes) : (toyOrion.hmac k d).length = 32 := by simp [toyOrion, zeros]; omega

def nsKdf : Bytes → Bytes → Bytes := fun _ _ => []
def nsS : Bytes := List.replicate 32 1
def nsE : Bytes := List.replicate 32 2
def nsR : Bytes := List.replicate 32 3
def nsPayload : Bytes := List.replicate 32 7
/-- the handshake message the model's initiator writes with these keys over the toy primitives -/
def nsMsg : Bytes :=
  match Noise.writeMessage (NoiseSrc.primsOf toyOrion nsKdf) [9] nsS nsS nsR nsE nsE nsPayload with
  | .ok (m, _) => m
  | .error _ => []

/-! ## 1. `init_x` + `write_message` / `read_message` -/

/-- **NoiseSrc (write_message).** For every orion `O`, prologue, static pair `s` / `spk`, recipient key `rs`, ephemeral pair
    `e` / `epk` and payload: the translated `HandshakeState::init_x(true, ..)` followed by the translated `write_message`
    returns — as message and handshake hash of its `NoiseHandshake`, or as its `NoiseError` — exactly what the hand-written
    `Noise.writeMessage` returns over the primitives the translated wrappers compute. -/
theorem noise_source_write_message (O : Orion) (kdf : Bytes → Bytes → Bytes) (rand : Nat → Bytes)
    (prologue s spk rs e epk payload : Bytes) :
    (NoiseSrc.HandshakeState.write_message O rand
        (NoiseSrc.HandshakeState.init_x O true prologue s spk (some e) (some epk) (some rs)) payload).1.map
      (fun nh => (nh.message, nh.handshake_hash)) =
    Noise.writeMessage (NoiseSrc.primsOf O kdf) prologue s spk rs e epk payload :=
  NoiseSrc.write_message_eq O kdf rand prologue s spk rs e epk payload

example : (NoiseSrc.HandshakeState.write_message toyOrion (fun n => zeros n)
        (NoiseSrc.HandshakeState.init_x toyOrion true [9] nsS nsS (some nsE) (some nsE) (some nsR)) nsPayload).1.map
      (fun nh => (nh.message, nh.handshake_hash)) =
    Noise.writeMessage (NoiseSrc.primsOf toyOrion nsKdf) [9] nsS nsS nsR nsE nsE nsPayload :=
  noise_source_write_message toyOrion nsKdf (fun n => zeros n) [9] nsS nsS nsR nsE nsE nsPayload

/-- … and that run is a successful one: a 128-byte message (32 + 48 + 48) -/
example : nsMsg.length = 128 := by decide +kernel

/-- **NoiseSrc (read_message).** For every orion `O`, prologue, recipient pair `r` / `rpk` and message bytes `msg` (any length:
    the check at the top of `read_message` is part of the statement): the translated `init_x(false, ..)` followed by the
    translated `read_message` returns — as payload, sender key (what `get_pubkey` reports on the state afterwards) and handshake
    hash, or as its `NoiseError` — exactly what the hand-written `Noise.readMessage` returns. -/
theorem noise_source_read_message (O : Orion) (kdf : Bytes → Bytes → Bytes) (prologue r rpk msg : Bytes) :
    (match NoiseSrc.HandshakeState.read_message O
        (NoiseSrc.HandshakeState.init_x O false prologue r rpk none none none) msg with
      | (.ok nh, hs) => .ok (nh.message, (NoiseSrc.HandshakeState.get_pubkey hs).getD [], nh.handshake_hash)
      | (.error err, _) => .error err) =
    Noise.readMessage (NoiseSrc.primsOf O kdf) prologue r rpk msg :=
  NoiseSrc.read_message_eq O kdf prologue r rpk msg

example : (match NoiseSrc.HandshakeState.read_message toyOrion
        (NoiseSrc.HandshakeState.init_x toyOrion false [9] nsR nsR none none none) nsMsg with
      | (.ok nh, hs) => .ok (nh.message, (NoiseSrc.HandshakeState.get_pubkey hs).getD [], nh.handshake_hash)
      | (.error err, _) => .error err) =
    Noise.readMessage (NoiseSrc.primsOf toyOrion nsKdf) [9] nsR nsR nsMsg :=
  noise_source_read_message toyOrion nsKdf [9] nsR nsR nsMsg

/-- … and on that message the responder gets the payload and the sender's key back -/
example : (Noise.readMessage (NoiseSrc.primsOf toyOrion nsKdf) [9] nsR nsR nsMsg).toOption.map (fun x => (x.1, x.2.1)) =
    some (nsPayload, nsS) := by decide +kernel

/-- the one message pattern `init_x` installs is `e, es, s, ss`: the `unimplemented!` arms (`EE`, `SE`) are not run -/
theorem noise_source_x_pattern (O : Orion) (ini : Bool) (prologue s spk : Bytes) (e epk rs : Option Bytes) :
    (NoiseSrc.HandshakeState.init_x O ini prologue s spk e epk rs).message_patterns =
        [[NoiseSrc.Token.E, NoiseSrc.Token.ES, NoiseSrc.Token.S, NoiseSrc.Token.SS]] ∧
      ∀ t ∈ [NoiseSrc.Token.E, NoiseSrc.Token.ES, NoiseSrc.Token.S, NoiseSrc.Token.SS],
        t ≠ NoiseSrc.Token.EE ∧ t ≠ NoiseSrc.Token.SE :=
  ⟨NoiseSrc.init_x_patterns O ini prologue s spk e epk rs, by decide⟩

example : (NoiseSrc.HandshakeState.init_x toyOrion false [9] nsR nsR none none none).message_patterns.length = 1 := by
  rw [(noise_source_x_pattern _ _ _ _ _ _ _ _).1]; rfl

/-! ## 2. `noise_encrypt` / `noise_decrypt` are the glue of RsIO.lean -/

/-- **NoiseSrc (noise_encrypt).** The translated `lib.rs::noise_encrypt` is `RsIO.noiseEncrypt`, the function the translation of
    encrypt.rs calls: with the ephemeral pair given, and with a pair generated from `rand 32`. -/
theorem noise_source_noise_encrypt (O : Orion) (hpub : ∀ k pk, O.pub k = some pk → pk.length = 32)
    (kdf : Bytes → Bytes → Bytes) (rand : Nat → Bytes) (s spk rs : Bytes) (e epk : Option Bytes) (prologue pk : Bytes) :
    NoiseSrc.noise_encrypt O rand s spk rs e epk prologue pk =
      RsIO.noiseEncrypt (NoiseSrc.primsOf O kdf) rand s spk rs e epk prologue pk :=
  NoiseSrc.noise_encrypt_eq O kdf hpub rand s spk rs e epk prologue pk

/-- the hypothesis is satisfiable, here on the branch that needs it (no ephemeral key given) -/
example : NoiseSrc.noise_encrypt toyOrion (fun n => List.replicate n 5) nsS nsS nsR none none [9] nsPayload =
    RsIO.noiseEncrypt (NoiseSrc.primsOf toyOrion nsKdf) (fun n => List.replicate n 5) nsS nsS nsR none none [9] nsPayload :=
  noise_source_noise_encrypt toyOrion toyOrion_pub nsKdf (fun n => List.replicate n 5) nsS nsS nsR none none [9] nsPayload

/-- **NoiseSrc (noise_decrypt).** The translated `lib.rs::noise_decrypt` is `RsIO.noiseDecrypt`. -/
theorem noise_source_noise_decrypt (O : Orion) (kdf : Bytes → Bytes → Bytes) (r rpk prologue msg : Bytes) :
    NoiseSrc.noise_decrypt O r rpk prologue msg = RsIO.noiseDecrypt (NoiseSrc.primsOf O kdf) r rpk prologue msg :=
  NoiseSrc.noise_decrypt_eq O kdf r rpk prologue msg

example : NoiseSrc.noise_decrypt toyOrion nsR nsR [9] nsMsg = RsIO.noiseDecrypt (NoiseSrc.primsOf toyOrion nsKdf) nsR nsR [9] nsMsg :=
  noise_source_noise_decrypt toyOrion nsKdf nsR nsR [9] nsMsg

/-- … a successful run: payload key and sender key come back -/
example : (NoiseSrc.noise_decrypt toyOrion nsR nsR [9] nsMsg).toOption.map (fun m => (m.payload_key, m.public_key)) =
    some (nsPayload, nsS) := by decide +kernel

/-! ## 3. the counter-nonce AEAD and the HKDFs -/

/-- **NoiseSrc (chapoly_*_noise).** Over the RFC 8439 AEAD the translated `chapoly_encrypt_noise` / `chapoly_decrypt_noise` are
    `chapolyNoise.enc` / `.dec`: the nonce is 4 zero bytes then the counter's low 64 bits little-endian, for EVERY counter
    (`Err(ChaPolyDecryptError)` = `none`).  No hypothesis on the key. -/
theorem noise_source_chapoly_noise (k : Bytes) (n : Nat) (ad x : Bytes) :
    NoiseSrc.chapoly_encrypt_noise concreteOrion k n ad x = chapolyNoise.enc k n ad x ∧
    NoiseSrc.chapoly_decrypt_noise concreteOrion k n ad x = Rs.okOr (chapolyNoise.dec k n ad x) :=
  ⟨NoiseSrc.chapoly_noise_concrete_enc k n ad x, NoiseSrc.chapoly_noise_concrete_dec k n ad x⟩

example : NoiseSrc.chapoly_encrypt_noise concreteOrion (zeros 32) (2 ^ 64 - 1) [1] [2, 3] = chapolyNoise.enc (zeros 32) (2 ^ 64 - 1) [1] [2, 3] :=
  (noise_source_chapoly_noise _ _ _ _).1

/-- the same over any IETF AEAD `O.chSeal` / `O.chOpen`: the layout of the 96-bit nonce -/
theorem noise_source_chapoly_noise_layout (O : Orion) (k : Bytes) (n : Nat) (ad x : Bytes) :
    NoiseSrc.chapoly_encrypt_noise O k n ad x = O.chSeal k ([0, 0, 0, 0] ++ natLE 8 n) x ad ∧
    NoiseSrc.chapoly_decrypt_noise O k n ad x =
      if x.length < 16 then .error () else Rs.okOr (O.chOpen k ([0, 0, 0, 0] ++ natLE 8 n) x ad) :=
  ⟨NoiseSrc.chapoly_encrypt_noise_eq O k n ad x, NoiseSrc.chapoly_decrypt_noise_eq O k n ad x⟩

example : NoiseSrc.chapoly_encrypt_noise toyOrion [] 258 [] [5] = toyOrion.chSeal [] [0, 0, 0, 0, 2, 1, 0, 0, 0, 0, 0, 0] [5] [] :=
  (noise_source_chapoly_noise_layout _ _ _ _ _).1

/-- **NoiseSrc (hkdf_noise).** Over HMAC-SHA-256 the translated `hkdf_noise` is `hkdfNoise`. -/
theorem noise_source_hkdf_noise (ck ikm : Bytes) : NoiseSrc.hkdf_noise concreteOrion ck ikm = hkdfNoise ck ikm :=
  NoiseSrc.hkdf_noise_concrete ck ikm

example : NoiseSrc.hkdf_noise concreteOrion (zeros 32) [1, 2] = hkdfNoise (zeros 32) [1, 2] := noise_source_hkdf_noise _ _

/-- … and over any MAC with 32-byte output: T1 = MAC(tk, 0x01), T2 = MAC(tk, T1 ‖ 0x02), tk = MAC(ck, ikm) -/
theorem noise_source_hkdf_noise_shape (O : Orion) (hlen : ∀ k d, (O.hmac k d).length = 32) (ck ikm : Bytes) :
    NoiseSrc.hkdf_noise O ck ikm =
      (O.hmac (O.hmac ck ikm) [0x01], O.hmac (O.hmac ck ikm) (O.hmac (O.hmac ck ikm) [0x01] ++ [0x02])) :=
  NoiseSrc.hkdf_noise_eq O hlen ck ikm

example : (NoiseSrc.hkdf_noise toyOrion [1] [2]).1 = toyOrion.hmac (toyOrion.hmac [1] [2]) [1] := by
  rw [noise_source_hkdf_noise_shape toyOrion toyOrion_hmac]

/-- **NoiseSrc (hkdf_sha256).** The translated wrapper is `hkdfSha256`, for every output length (the code uses 32). -/
theorem noise_source_hkdf_sha256 (salt ikm info : Bytes) (len : Nat) :
    NoiseSrc.hkdf_sha256 concreteOrion salt ikm info len = hkdfSha256 salt ikm info len :=
  NoiseSrc.hkdf_sha256_concrete salt ikm info len

example : NoiseSrc.hkdf_sha256 concreteOrion [] (zeros 32) (zeros 32) 32 = hkdfSha256 [] (zeros 32) (zeros 32) 32 :=
  noise_source_hkdf_sha256 _ _ _ _

/-! ## the concrete instance, and the composition with the translation of encrypt.rs / decrypt.rs -/

/-- Over the orion functions as modelled in KestrelModel/Prim, the primitives the translated wrappers compute are
    `concretePrims` — the record of the executable model. -/
theorem noise_source_prims_concrete : NoiseSrc.primsOf concreteOrion concretePrims.kdf = concretePrims :=
  NoiseSrc.primsOf_concrete

example : (NoiseSrc.primsOf concreteOrion concretePrims.kdf).hkdf2 [1] [2] = hkdfNoise [1] [2] := by
  rw [noise_source_prims_concrete]; rfl

/-- the hypothesis of `noise_source_noise_encrypt` holds for the modelled X25519 -/
theorem concreteOrion_pub_length (k pk : Bytes) (h : concreteOrion.pub k = some pk) : pk.length = 32 := by
  have h' : X25519.pubOf k = some pk := by simpa only [concreteOrion] using h
  exact NoiseSrc.pubOf_length k pk h'

/-- theorems 1 and 2 for the concrete model -/
theorem noise_source_concrete (rand : Nat → Bytes) (prologue s spk rs e epk payload r rpk msg : Bytes) (eo epko : Option Bytes) :
    (NoiseSrc.HandshakeState.write_message concreteOrion rand
        (NoiseSrc.HandshakeState.init_x concreteOrion true prologue s spk (some e) (some epk) (some rs)) payload).1.map
      (fun nh => (nh.message, nh.handshake_hash)) = Noise.writeMessage concretePrims prologue s spk rs e epk payload ∧
    (match NoiseSrc.HandshakeState.read_message concreteOrion
        (NoiseSrc.HandshakeState.init_x concreteOrion false prologue r rpk none none none) msg with
      | (.ok nh, hs) => .ok (nh.message, (NoiseSrc.HandshakeState.get_pubkey hs).getD [], nh.handshake_hash)
      | (.error err, _) => .error err) = Noise.readMessage concretePrims prologue r rpk msg ∧
    NoiseSrc.noise_encrypt concreteOrion rand s spk rs eo epko prologue payload =
      RsIO.noiseEncrypt concretePrims rand s spk rs eo epko prologue payload ∧
    NoiseSrc.noise_decrypt concreteOrion r rpk prologue msg = RsIO.noiseDecrypt concretePrims r rpk prologue msg := by
  refine ⟨?_, ?_, ?_, ?_⟩
  · rw [← noise_source_prims_concrete]; exact noise_source_write_message _ _ _ _ _ _ _ _ _ _
  · rw [← noise_source_prims_concrete]; exact noise_source_read_message _ _ _ _ _ _
  · rw [← noise_source_prims_concrete]; exact noise_source_noise_encrypt concreteOrion concreteOrion_pub_length _ _ _ _ _ _ _ _ _
  · rw [← noise_source_prims_concrete]; exact noise_source_noise_decrypt _ _ _ _ _ _

example : NoiseSrc.noise_decrypt concreteOrion [1] [2] [101, 103, 107, 16] [1, 2, 3] =
    RsIO.noiseDecrypt concretePrims [1] [2] [101, 103, 107, 16] [1, 2, 3] := by
  have h := noise_source_concrete (fun n => zeros n) [101, 103, 107, 16] [] [] [] [] [] [] [1] [2] [1, 2, 3] none none
  exact h.2.2.2

end Kestrel
