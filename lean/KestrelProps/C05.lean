/-
  C05 — A sender identity needs its private key; only the addressed key decrypts (pure level, Noise layer).

  The named values `Noise.ck0 ck1 k1 k2 h0 h1 h2 h3` (KestrelProofs/Strict.lean) are by definition the expressions
  `writeMessage`/`readMessage` compute: `k1 P d1 = (P.hkdf2 ck0 d1).2`, `k2 P d1 d2 = (P.hkdf2 (P.hkdf2 ck0 d1).1 d2).2`,
  `h1 P pro X E = P.hash (P.hash (P.hash (hname ++ pro) ++ X) ++ E)`, `h2 … c1 = P.hash (h1 … ++ c1)`.

  * `C05_zero_dh_*` (outright): an all-zero DH result aborts encryption with not a byte of output, and aborts reading.
  * `C05_wrong_recipient` (*reduction*): if ANY (r', R') reads an honest message addressed to R successfully, then
    either it is the addressed key (R' = R and dh r' E = dh e R), or a named bad event occurred:
    SHA-256 collision on named distinct inputs, HKDF collision on named distinct inputs, or the static-key field
    sealed under (k1, h1) opens under a different (key, AD).
  * `C05_mismatch` (*reduction*): if a message built with private key s' but claiming public key S is accepted by
    the honest recipient, the reported sender is S and either dh r S = dh s' R (s' is S's private key as far as this
    recipient can tell — the DH agreement that defines key possession), or an HKDF collision on named distinct
    inputs, or the payload field sealed under k2 opens under a different key.
-/
import KestrelProofs.Strict
import KestrelProps.C01
namespace Kestrel
open Generated Noise

/-! ### all-zero DH results -/

/-- **C05 (zero DH, encrypt side).**  Not a byte of output. -/
theorem C05_zero_dh (P : Prims) (s spk rs e epk pk : Bytes) (reads : List Bytes)
    (h : P.dh e rs = none ∨ P.dh s rs = none) :
    keyEncrypt P s spk rs e epk pk reads = ([], .other) := by
  obtain ⟨err, he⟩ := (writeMessage_error_iff P encPrologue s spk rs e epk pk).mpr h
  simp [keyEncrypt, he]

/-- **C05 (zero DH, reader, ephemeral).**  A message of legal length whose ephemeral key gives an all-zero DH
    result with the reader's private key is an error. -/
theorem C05_zero_dh_read (P : Prims) (pro r rpk msg : Bytes) (hl : 96 ≤ msg.length) (hu : msg.length ≤ 65535)
    (h : P.dh r (msg.take 32) = none) :
    readMessage P pro r rpk msg = .error .dh := by
  rw [readMessage_unfold, if_neg (by omega), h]

/-- **C05 (zero DH, reader, either DH).**  Whatever the message: success implies both DH results were non-zero. -/
theorem C05_zero_dh_read_any (P : Prims) (pro r rpk msg pl S' h : Bytes)
    (hr : readMessage P pro r rpk msg = .ok (pl, S', h)) :
    P.dh r (msg.take 32) ≠ none ∧ P.dh r S' ≠ none := by
  obtain ⟨d1, d2, _, _, _, h1, _, h2, _, _⟩ := readMessage_ok_named P pro r rpk msg pl S' h hr
  rw [h1, h2]; exact ⟨by simp, by simp⟩

/-- **C05 (zero DH, decrypt side).**  A file whose ephemeral key gives an all-zero DH result: nothing written,
    error, no sender named. -/
theorem C05_zero_dh_decrypt (P : Prims) (r rpk F' : Bytes) (h : P.dh r ((F'.drop 4).take 32) = none) :
    (keyDecrypt P r rpk F').1 = [] ∧ (keyDecrypt P r rpk F').2.1 ≠ .ok ∧ (keyDecrypt P r rpk F').2.2 = none := by
  rw [keyDecrypt_unfold]
  split
  · exact ⟨rfl, by simp, rfl⟩
  · split
    · exact ⟨rfl, by simp, rfl⟩
    · exact ⟨rfl, by simp, rfl⟩
    · split
      · exact ⟨rfl, by simp, rfl⟩
      · have hne : ∀ v, readMessage P (F'.take 4) r rpk ((F'.drop 4).take handshakeLen) ≠ .ok v := by
          intro v hv
          obtain ⟨pl, S', hh⟩ := v
          have := (C05_zero_dh_read_any P _ r rpk _ pl S' hh hv).1
          rw [List.take_take, gen_handshakeLen] at this
          exact this h
        split
        · exact ⟨rfl, by simp, rfl⟩
        · rename_i hv; exact absurd hv (hne _)

/-! ### only the addressed key reads the message -/

/-- **C05 (wrong recipient; reduction).**  `msg` is the honest message from (s, spk) to recipient public key `R`
    with ephemeral (e, E); `d1 = dh e R`.  Suppose a reader with private key `r'` and static public key `R'` accepts
    it, with `d1' = dh r' E`.  Then one of:
    1. it is the addressed key: `R' = R` and `dh r' E = dh e R`;
    2. SHA-256 collision on named inputs: `R' ≠ R` yet `h1 P pro R' E = h1 P pro R E`;
    3. HKDF collision on named inputs: `d1' ≠ d1` yet `k1 P d1' = k1 P d1`;
    4. cross-key / cross-AD open: the field sealed under `(k1 P d1, h1 P pro R E)` opens under the different
       pair `(k1 P d1', h1 P pro R' E)`. -/
theorem C05_wrong_recipient (P : Prims) (hP : P.Lawful) (pro s spk R e E payload msg h r' R' : Bytes)
    (hE : E.length = 32) (hS : spk.length = 32)
    (hw : writeMessage P pro s spk R e E payload = .ok (msg, h))
    (out : Bytes × Bytes × Bytes) (hr : readMessage P pro r' R' msg = .ok out) :
    ∃ d1 d1', P.dh e R = some d1 ∧ P.dh r' E = some d1' ∧
      ((R' = R ∧ P.dh r' E = P.dh e R) ∨
       (R' ≠ R ∧ h1 P pro R' E = h1 P pro R E) ∨
       (d1' ≠ d1 ∧ k1 P d1' = k1 P d1) ∨
       ((k1 P d1' ≠ k1 P d1 ∨ h1 P pro R' E ≠ h1 P pro R E) ∧
         ∃ p, P.aead.dec (k1 P d1') 0 (h1 P pro R' E) (P.aead.enc (k1 P d1) 0 (h1 P pro R E) spk) = some p)) := by
  obtain ⟨d1, d2, hd1, hd2⟩ := writeMessage_ok_dh P pro s spk R e E payload msg h hw
  rw [writeMessage_ok_named P pro s spk R e E payload d1 d2 hd1 hd2] at hw
  simp only [Except.ok.injEq, Prod.mk.injEq] at hw
  obtain ⟨hmsg, _⟩ := hw
  have hk1 : (k1 P d1).length = 32 := (hP.hkdf2_len _ _).2
  have hc1 : (P.aead.enc (k1 P d1) 0 (h1 P pro R E) spk).length = 48 := by
    rw [hP.aead.enc_length _ _ _ _ hk1, hS]
  obtain ⟨t1, t2, _⟩ := honest_msg_fields E _ (P.aead.enc (k2 P d1 d2) 0
    (h2 P pro R E (P.aead.enc (k1 P d1) 0 (h1 P pro R E) spk)) payload) hE hc1
  rw [hmsg] at t1 t2
  obtain ⟨pl, S', hh⟩ := out
  obtain ⟨d1', d2', _, _, _, hdh', hdec', _, _, _⟩ := readMessage_ok_named P pro r' R' msg pl S' hh hr
  rw [t1] at hdh' hdec'
  rw [t2] at hdec'
  refine ⟨d1, d1', hd1, hdh', ?_⟩
  by_cases hk : k1 P d1' = k1 P d1
  · by_cases hh1 : h1 P pro R' E = h1 P pro R E
    · by_cases hR : R' = R
      · by_cases hd : d1' = d1
        · exact Or.inl ⟨hR, by rw [hdh', hd1, hd]⟩
        · exact Or.inr (Or.inr (Or.inl ⟨hd, hk⟩))
      · exact Or.inr (Or.inl ⟨hR, hh1⟩)
    · exact Or.inr (Or.inr (Or.inr ⟨Or.inr hh1, S', hdec'⟩))
  · exact Or.inr (Or.inr (Or.inr ⟨Or.inl hk, S', hdec'⟩))

/-! ### a claimed sender identity needs the matching private key -/

/-- **C05 (mismatch; reduction).**  The sender holds private key `s'` but puts the public key `S` (any 32 bytes) in
    the static-key field.  The recipient (r, R) is the addressed one (`dh r E = dh e R = d1`).  If the recipient
    accepts, it reports exactly `S`, and with `d2 = dh s' R` (what the sender mixed in) and `d2' = dh r S` (what the
    recipient mixed in) one of:
    1. `dh r S = dh s' R`: DH agreement between `S` and `s'` — towards this recipient `s'` *is* the private key of `S`;
    2. HKDF collision on named inputs: `d2' ≠ d2` yet `k2 P d1 d2' = k2 P d1 d2`;
    3. cross-key open: the payload field sealed under `k2 P d1 d2` opens under the different key `k2 P d1 d2'`
       (same AD `h2`). -/
theorem C05_mismatch (P : Prims) (hP : P.Lawful) (pro s' S r R e E payload msg h d1 : Bytes)
    (hE : E.length = 32) (hS : S.length = 32)
    (h1e : P.dh e R = some d1) (h1r : P.dh r E = some d1)
    (hw : writeMessage P pro s' S R e E payload = .ok (msg, h))
    (pl Srep hh : Bytes) (hr : readMessage P pro r R msg = .ok (pl, Srep, hh)) :
    Srep = S ∧
    ∃ d2 d2', P.dh s' R = some d2 ∧ P.dh r S = some d2' ∧
      (P.dh r S = P.dh s' R ∨
       (d2' ≠ d2 ∧ k2 P d1 d2' = k2 P d1 d2) ∨
       (k2 P d1 d2' ≠ k2 P d1 d2 ∧
         ∃ p, P.aead.dec (k2 P d1 d2') 0 (h2 P pro R E (P.aead.enc (k1 P d1) 0 (h1 P pro R E) S))
                (P.aead.enc (k2 P d1 d2) 0 (h2 P pro R E (P.aead.enc (k1 P d1) 0 (h1 P pro R E) S)) payload) = some p)) := by
  obtain ⟨d1w, d2, hd1, hd2⟩ := writeMessage_ok_dh P pro s' S R e E payload msg h hw
  have : d1w = d1 := by rw [h1e] at hd1; exact (Option.some.inj hd1).symm
  subst this
  rw [writeMessage_ok_named P pro s' S R e E payload d1w d2 hd1 hd2] at hw
  simp only [Except.ok.injEq, Prod.mk.injEq] at hw
  obtain ⟨hmsg, _⟩ := hw
  have hk1 : (k1 P d1w).length = 32 := (hP.hkdf2_len _ _).2
  have hc1 : (P.aead.enc (k1 P d1w) 0 (h1 P pro R E) S).length = 48 := by
    rw [hP.aead.enc_length _ _ _ _ hk1, hS]
  obtain ⟨t1, t2, t3⟩ := honest_msg_fields E _ (P.aead.enc (k2 P d1w d2) 0
    (h2 P pro R E (P.aead.enc (k1 P d1w) 0 (h1 P pro R E) S)) payload) hE hc1
  rw [hmsg] at t1 t2 t3
  obtain ⟨d1', d2', _, _, _, hdh', hdec1, hdh2, hdec2, _⟩ := readMessage_ok_named P pro r R msg pl Srep hh hr
  rw [t1] at hdh' hdec1 hdec2
  rw [t2] at hdec1 hdec2
  rw [t3] at hdec2
  have : d1' = d1w := by rw [h1r] at hdh'; exact (Option.some.inj hdh').symm
  subst this
  have hS' : Srep = S := by
    rw [hP.aead.dec_enc _ _ _ _ hk1] at hdec1; exact (Option.some.inj hdec1).symm
  subst hS'
  refine ⟨rfl, d2, d2', hd2, hdh2, ?_⟩
  by_cases hk : k2 P d1' d2' = k2 P d1' d2
  · by_cases hd : d2' = d2
    · exact Or.inl (by rw [hdh2, hd2, hd])
    · exact Or.inr (Or.inl ⟨hd, hk⟩)
  · exact Or.inr (Or.inr ⟨hk, pl, hdec2⟩)

/-! ### non-vacuity -/

/-- toy primitives whose DH returns the all-zero marker when the *public* input is all zero (a low-order point) -/
def lowOrderPrims : Prims :=
  { toyPrims with dh := fun a b => if b = zeros 32 then none else some (List.zipWith (· + ·) a b) }

theorem lowOrder_dh_zero (a b : Bytes) (h : b = zeros 32) : lowOrderPrims.dh a b = none := by
  simp [lowOrderPrims, h]

/-- hypotheses of `C05_zero_dh` are satisfiable: recipient key is the low-order point … -/
example : keyEncrypt lowOrderPrims (List.replicate 32 5) (List.replicate 32 5) (zeros 32) (List.replicate 32 2)
    (List.replicate 32 2) (List.replicate 32 7) [[1], []] = ([], .other) :=
  C05_zero_dh lowOrderPrims _ _ _ _ _ _ _ (Or.inl (by decide))
/-- … while a regular recipient key does produce output -/
example : (keyEncrypt lowOrderPrims (List.replicate 32 5) (List.replicate 32 5) (List.replicate 32 1) (List.replicate 32 2)
    (List.replicate 32 2) (List.replicate 32 7) [[1], []]).2 = .ok := by decide

/-- hypotheses of `C05_zero_dh_read` are satisfiable: a 128-byte message whose ephemeral key is the low-order point -/
example : Noise.readMessage lowOrderPrims encPrologue (List.replicate 32 1) (List.replicate 32 1) (zeros 128) = .error .dh :=
  C05_zero_dh_read lowOrderPrims _ _ _ (zeros 128) (by simp [zeros]) (by simp [zeros])
    (lowOrder_dh_zero _ _ (by simp [zeros]))

/-- hypotheses of `C05_zero_dh_decrypt` are satisfiable -/
example : (keyDecrypt lowOrderPrims (List.replicate 32 1) (List.replicate 32 1) (encPrologue ++ zeros 200)).1 = [] ∧
    (keyDecrypt lowOrderPrims (List.replicate 32 1) (List.replicate 32 1) (encPrologue ++ zeros 200)).2.1 ≠ .ok ∧
    (keyDecrypt lowOrderPrims (List.replicate 32 1) (List.replicate 32 1) (encPrologue ++ zeros 200)).2.2 = none :=
  C05_zero_dh_decrypt lowOrderPrims _ _ _
    (lowOrder_dh_zero _ _ (by rw [List.drop_left' (by decide)]; simp [zeros]))

/-- keyed toy primitives: the AEAD checks a tag derived from key *and* AD, so wrong keys / wrong AD are rejected -/
def bindAead : Aead where
  enc k _ ad p := p ++ ((k ++ zeros 8).take 8 ++ (ad ++ zeros 8).take 8)
  dec k _ ad c := if c.length < 16 then none else
    if c.drop (c.length - 16) = (k ++ zeros 8).take 8 ++ (ad ++ zeros 8).take 8 then some (c.take (c.length - 16)) else none

theorem bindAead_lawful : bindAead.Lawful where
  dec_enc := by
    intro k n ad p _
    have hl : ((k ++ zeros 8).take 8 ++ (ad ++ zeros 8).take 8).length = 16 := by simp [zeros]
    simp only [bindAead]
    generalize (k ++ zeros 8).take 8 ++ (ad ++ zeros 8).take 8 = tag at hl ⊢
    have h1 : ¬ (p ++ tag).length < 16 := by simp [hl]
    have h2 : (p ++ tag).length - 16 = p.length := by simp [hl]
    rw [if_neg h1, h2]; simp
  enc_length := by intro k n ad p _; simp [bindAead, zeros]
  dec_sound := by
    intro k n ad c p _ h
    simp only [bindAead] at h ⊢
    split at h
    · simp at h
    · split at h
      · rename_i h16 hz
        simp only [Option.some.injEq] at h
        rw [← h, ← hz, List.take_append_drop]
      · simp at h

def bindPrims : Prims := { toyPrims with aead := bindAead }

theorem bindPrims_lawful : bindPrims.Lawful where
  aead := bindAead_lawful
  hkdf2_len := toyPrims_lawful.hkdf2_len
  hkdfFile_len := toyPrims_lawful.hkdfFile_len

def isOk : Except ε α → Bool
  | .ok _ => true
  | .error _ => false

def msgOf : Except Noise.Err (Bytes × Bytes) → Bytes
  | .ok v => v.1
  | .error _ => []

/-- the honest message of the examples: sender 5…5, recipient 1…1, ephemeral 2…2 (toy keys: public = private) -/
def exMsg (P : Prims) : Except Noise.Err (Bytes × Bytes) :=
  writeMessage P encPrologue (List.replicate 32 5) (List.replicate 32 5) (List.replicate 32 1)
    (List.replicate 32 2) (List.replicate 32 2) (List.replicate 32 7)

/-- hypotheses of `C05_wrong_recipient` are satisfiable, with the addressed key as reader (disjunct 1) … -/
example : ∃ msg h out, exMsg bindPrims = .ok (msg, h) ∧
    readMessage bindPrims encPrologue (List.replicate 32 1) (List.replicate 32 1) msg = .ok out := by
  obtain ⟨d1, h1, h1'⟩ := (toy_dhAgree (List.replicate 32 5) (List.replicate 32 1) (List.replicate 32 2)).es
  obtain ⟨d2, h2, h2'⟩ := (toy_dhAgree (List.replicate 32 5) (List.replicate 32 1) (List.replicate 32 2)).ss
  have hw := writeMessage_ok_named bindPrims encPrologue (List.replicate 32 5) (List.replicate 32 5)
    (List.replicate 32 1) (List.replicate 32 2) (List.replicate 32 2) (List.replicate 32 7) d1 d2 h1 h2
  exact ⟨_, _, _, hw, readMessage_writeMessage bindPrims bindPrims_lawful encPrologue _ _ _ _ _ _ _ d1 d2 _ _
    (List.length_replicate ..) (List.length_replicate ..) (by decide) h1 h2 h1' h2' hw⟩

/-- … a different key pair (3…3) is *rejected* by the key/AD-binding toy AEAD … -/
example : isOk (exMsg bindPrims) = true ∧
    isOk (readMessage bindPrims encPrologue (List.replicate 32 1) (List.replicate 32 1) (msgOf (exMsg bindPrims))) = true ∧
    isOk (readMessage bindPrims encPrologue (List.replicate 32 3) (List.replicate 32 3) (msgOf (exMsg bindPrims))) = false := by
  decide +kernel

/-- … whereas with the keyless toy AEAD of C01 the wrong recipient succeeds: disjunct 4 (cross-key / cross-AD open)
    occurs, so it cannot be dropped from the statement. -/
example : isOk (readMessage toyPrims encPrologue (List.replicate 32 3) (List.replicate 32 3) (msgOf (exMsg toyPrims))) = true := by
  decide +kernel

/-- hypotheses of `C05_mismatch` are satisfiable (honest sender: s' is the private key of S; disjunct 1) -/
example : ∃ msg h d1 pl Srep hh,
    (List.replicate 32 2 : Bytes).length = 32 ∧ (List.replicate 32 5 : Bytes).length = 32 ∧
    bindPrims.dh (List.replicate 32 2) (List.replicate 32 1) = some d1 ∧
    bindPrims.dh (List.replicate 32 1) (List.replicate 32 2) = some d1 ∧
    exMsg bindPrims = .ok (msg, h) ∧
    readMessage bindPrims encPrologue (List.replicate 32 1) (List.replicate 32 1) msg = .ok (pl, Srep, hh) := by
  obtain ⟨d1, h1, h1'⟩ := (toy_dhAgree (List.replicate 32 5) (List.replicate 32 1) (List.replicate 32 2)).es
  obtain ⟨d2, h2, h2'⟩ := (toy_dhAgree (List.replicate 32 5) (List.replicate 32 1) (List.replicate 32 2)).ss
  have hw := writeMessage_ok_named bindPrims encPrologue (List.replicate 32 5) (List.replicate 32 5)
    (List.replicate 32 1) (List.replicate 32 2) (List.replicate 32 2) (List.replicate 32 7) d1 d2 h1 h2
  exact ⟨_, _, d1, _, _, _, List.length_replicate .., List.length_replicate .., h1, h1', hw,
    readMessage_writeMessage bindPrims bindPrims_lawful encPrologue _ _ _ _ _ _ _ d1 d2 _ _
      (List.length_replicate ..) (List.length_replicate ..) (by decide) h1 h2 h1' h2' hw⟩

/-- a sender holding 6…6 but claiming 5…5 is rejected by the honest recipient under the key-binding toy AEAD
    (the DH results differ, so k2' ≠ k2 and the payload field does not open) … -/
example : isOk (readMessage bindPrims encPrologue (List.replicate 32 1) (List.replicate 32 1)
    (msgOf (writeMessage bindPrims encPrologue (List.replicate 32 6) (List.replicate 32 5) (List.replicate 32 1)
      (List.replicate 32 2) (List.replicate 32 2) (List.replicate 32 7)))) = false := by decide +kernel
/-- … and accepted under the keyless toy AEAD of C01: disjunct 3 (cross-key open) occurs. -/
example : isOk (readMessage toyPrims encPrologue (List.replicate 32 1) (List.replicate 32 1)
    (msgOf (writeMessage toyPrims encPrologue (List.replicate 32 6) (List.replicate 32 5) (List.replicate 32 1)
      (List.replicate 32 2) (List.replicate 32 2) (List.replicate 32 7)))) = true := by decide +kernel

end Kestrel
