/-
  C09 — untrusted bytes never crash: errors only, bounded work.

  Part 1 (this file, first section): the error branches of the executable model for malformed inputs, proved for
  all inputs — these are the branches the Rust code must take instead of panicking.
  Part 2 (`KestrelProps/C09guarded.lean`): the *guarded* model, in which every Rust panic site on the untrusted
  paths (slice, index, unwrap/expect, subtraction, narrowing) is an explicit partial operation that yields
  `crash site`, with the theorem that no input reaches a crash and that the guarded model equals the plain one.
-/
import KestrelProofs.File
namespace Kestrel
open Generated

/-- a ciphertext shorter than the tag is an error value (D2 repair) -/
theorem C09_aead_short (k n ad c : Bytes) (h : c.length < 16) : aeadOpen k n ad c = none := aeadOpen_short k n ad c h

/-- a handshake message of illegal length is an error value (D3 repair), whatever the keys -/
theorem C09_noise_length (P : Prims) (pro r rpk msg : Bytes) (h : msg.length < 96 ∨ msg.length > 65535) :
    Noise.readMessage P pro r rpk msg = .error .other := by
  unfold Noise.readMessage
  rw [if_pos h]

/-- a hostile length field is rejected before it sizes a read: nothing is read, allocated or written for it -/
theorem C09_hostile_length (A : Aead) (key aad : Bytes) (cs fuel ctr : Nat) (inp : Bytes)
    (h16 : 16 ≤ inp.length) (hlen : beVal ((inp.take 16).drop 12) > cs) :
    decLoop A key aad cs (fuel+1) ctr inp = ([], .chunkLen) := by
  have : ¬ inp.length < 16 := by omega
  simp only [decLoop, this, if_false, hlen, if_true]

/-- every input shorter than the fixed header is an I/O error, never anything else -/
theorem C09_short_file (P : Prims) (r rpk inp : Bytes) (h : inp.length < 4) : keyDecrypt P r rpk inp = ([], .ioRead, none) := by
  simp [keyDecrypt, h]

theorem C09_short_file_pass (P : Prims) (pw inp : Bytes) (h : inp.length < 4) : passDecrypt P pw inp = ([], .ioRead) := by
  simp [passDecrypt, h]

/-- the KDF is invoked with the generated constants only; no header field reaches them -/
theorem C09_kdf_params : (scryptN, scryptR, scryptP) = (32768, 8, 1) ∧ (krScryptN, krScryptR, krScryptP) = (32768, 8, 1) := by decide

example : aeadOpen (zeros 32) (zeros 12) [] (zeros 15) = none := C09_aead_short _ _ _ _ (by decide)

end Kestrel
