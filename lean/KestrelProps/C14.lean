/-
  C14 — Generating a key into an existing keyring keeps every key.

  `genKeyEffect` is the effect of `key generate -o FILE` on the contents of FILE after the D1 repair (the output
  is opened for append, never truncated): `gen_key` (src/cli/src/commands.rs) writes `key_config` when the file
  does not exist and `"\n" + key_config` when it does.
-/
import KestrelProofs.Keyring
namespace Kestrel
open Keyring KR

/-- contents of the keyring file after one `key generate` whose serialized section is `cfg`
    (`file = none`: the file did not exist) -/
def genKeyEffect (file : Option Str) (cfg : Str) : Str :=
  match file with
  | none => cfg
  | some old => old ++ "\n".toList ++ cfg

/-- **C14 (prefix).** The earlier contents are a byte prefix of the new contents: nothing is rewritten. -/
theorem C14_prefix (old cfg : Str) : old <+: genKeyEffect (some old) cfg := by
  show old <+: old ++ "\n".toList ++ cfg
  rw [List.append_assoc]
  exact List.prefix_append _ _

/-- **C14 (append).** If the existing file is an accepted keyring with entries `ks`, then after generating a key
    with a fresh name and public key the file is an accepted keyring with entries `ks` followed by the new entry.
    This holds for EVERY accepted `old`: with or without a trailing newline, with CRLF line ends, comments, blank
    lines, TABs, entries without private key, an unterminated last line ending in '\r', ….
    `ValidEntry n p s`: `validKeyName n`, `trim n = n`, no '\n' in `n`, `encodedPkOk p`, `encodedSkOk s`. -/
theorem C14_append (old : Str) (ks : List Key) (n p s : Str) (h : parse old = some ks)
    (hf : ∀ k ∈ ks, k.name ≠ n ∧ k.pk ≠ p) (hv : ValidEntry n p s) :
    parse (genKeyEffect (some old) (serializeKey n p s)) = some (ks ++ [⟨n, p, some s⟩]) := by
  obtain ⟨st, hp, hc, _⟩ := closesTo_of_parse h
  exact parse_append_section (junction_nl old) hp hc hv hf

/-- **C14 (first key, file absent).** -/
theorem C14_first (n p s : Str) (hv : ValidEntry n p s) :
    parse (genKeyEffect none (serializeKey n p s)) = some [⟨n, p, some s⟩] :=
  parse_append_section (old := []) (x := []) (st := {}) (ks := []) junction_nil rfl (Or.inl ⟨rfl, rfl⟩) hv
    (fun k hk => absurd hk (by simp))

/-- **C14 (first key, file present but without any section)**: an empty file, or one holding only comments and
    blank lines (every line is accepted by the parser and no `[Key]` line occurs). -/
theorem C14_first_nosection (old : Str) (st : PSt) (n p s : Str) (hold : parseLines {} (lines old) = some st)
    (hnf : st.found = false) (hv : ValidEntry n p s) :
    parse (genKeyEffect (some old) (serializeKey n p s)) = some [⟨n, p, some s⟩] :=
  parse_append_section (ks := []) (junction_nl old) hold (Or.inl ⟨hnf, rfl⟩) hv (fun k hk => absurd hk (by simp))

/-! ### non-vacuity (keys of the Rust unit test; see KestrelProofs/Keyring.lean §I) -/

/-- an accepted keyring that exercises the awkward cases: CRLF line ends, a comment, a blank line, a TAB, an
    entry without private key, and an unterminated last line that ends in '\r' -/
def oldText : Str :=
  "# my keys\r\n\r\n[Key]\r\n\tName = alice\r\nPublicKey = D7ZZstGYF6okKKEV2rwoUza/tK3iUa8IMY+l5tuirmzzkEog\r\n# unterminated\r".toList

theorem oldText_parses : parse oldText = some [⟨"alice".toList, alicePk, none⟩] := by decide

/-- the hypotheses of `C14_append` are satisfiable -/
example : parse (genKeyEffect (some oldText) (serializeKey "Bobby Bobertson".toList bobPk aliceSk)) =
    some [⟨"alice".toList, alicePk, none⟩, ⟨"Bobby Bobertson".toList, bobPk, some aliceSk⟩] :=
  C14_append oldText _ _ _ _ oldText_parses (by decide) validEntry_bob

/-- `C14_first` -/
example : parse (genKeyEffect none (serializeKey "alice".toList alicePk aliceSk)) =
    some [⟨"alice".toList, alicePk, some aliceSk⟩] := C14_first _ _ _ validEntry_alice

/-- `C14_first_nosection` on a file holding only a comment and a blank line -/
example : parse (genKeyEffect (some "# keys\n\n".toList) (serializeKey "alice".toList alicePk aliceSk)) =
    some [⟨"alice".toList, alicePk, some aliceSk⟩] :=
  C14_first_nosection _ {} _ _ _ (by rfl) rfl validEntry_alice

/-! ### a history of generations -/

/-- the file after a sequence of `key generate` runs, each given as (name, encoded pk, locked sk) -/
def genFold (f : Option Str) : List (Str × Str × Str) → Option Str
  | [] => f
  | g :: gs => genFold (some (genKeyEffect f (serializeKey g.1 g.2.1 g.2.2))) gs

/-- the initial file states covered: absent; an accepted keyring with entries `ks0`; present without any section -/
def InitFile (f0 : Option Str) (ks0 : List Key) : Prop :=
  (f0 = none ∧ ks0 = []) ∨ (∃ old, f0 = some old ∧ parse old = some ks0) ∨
  (∃ old st, f0 = some old ∧ ks0 = [] ∧ parseLines {} (lines old) = some st ∧ st.found = false)

theorem genFold_take_succ (f : Option Str) (g : Str × Str × Str) (gs : List (Str × Str × Str)) (j : Nat) :
    genFold f ((g :: gs).take (j + 1)) = genFold (some (genKeyEffect f (serializeKey g.1 g.2.1 g.2.2))) (gs.take j) := rfl

/-- history from an accepted keyring (also covers zero generations) -/
theorem history_from_accepted (gens : List (Str × Str × Str)) : ∀ (old : Str) (ks : List Key),
    parse old = some ks → (∀ g ∈ gens, ValidEntry g.1 g.2.1 g.2.2) →
    (gens.map (·.1)).Nodup → (gens.map (·.2.1)).Nodup →
    (∀ k ∈ ks, ∀ g ∈ gens, k.name ≠ g.1 ∧ k.pk ≠ g.2.1) →
    ∃ final, genFold (some old) gens = some final ∧ parse final = some (ks ++ gens.map entryKey) ∧
      ∀ j, j ≤ gens.length → ∀ mid, genFold (some old) (gens.take j) = some mid → mid <+: final := by
  induction gens with
  | nil =>
    intro old ks h _ _ _ _
    refine ⟨old, rfl, by simpa using h, ?_⟩
    intro j _ mid hm
    simp only [List.take_nil, genFold, Option.some.injEq] at hm
    rw [hm]
    exact List.prefix_refl _
  | cons g gs ih =>
    intro old ks h hv hN hP hfr
    simp only [List.map_cons, List.nodup_cons, List.mem_map, not_exists, not_and] at hN hP
    have h1 := C14_append old ks g.1 g.2.1 g.2.2 h (fun k hk => hfr k hk g (List.mem_cons_self ..))
      (hv g (List.mem_cons_self ..))
    obtain ⟨final, hfin, hparse, hpre⟩ := ih _ (ks ++ [entryKey g]) h1
      (fun g' hg' => hv g' (List.mem_cons_of_mem _ hg')) hN.2 hP.2 (by
        intro k hk g' hg'
        simp only [List.mem_append, List.mem_singleton] at hk
        rcases hk with hk | rfl
        · exact hfr k hk g' (List.mem_cons_of_mem _ hg')
        · exact ⟨fun e => hN.1 g' hg' e.symm, fun e => hP.1 g' hg' e.symm⟩)
    refine ⟨final, hfin, by simpa using hparse, ?_⟩
    intro j hj mid hm
    cases j with
    | zero =>
      simp only [List.take_zero, genFold, Option.some.injEq] at hm
      rw [← hm]
      exact List.IsPrefix.trans (C14_prefix old _) (hpre 0 (Nat.zero_le _) _ rfl)
    | succ j =>
      rw [genFold_take_succ] at hm
      exact hpre j (by simpa using hj) mid hm

/-- **C14 (history).** From any covered initial file state and for any non-empty sequence of generations whose
    names and public keys are distinct from each other and from those already in the file: the final file is an
    accepted keyring holding the old entries followed by the new ones in order, and every earlier state of the file
    (including the initial one, if it existed) is a byte prefix of the final file.  (Applied to `gens.take j` it
    also says that every intermediate file is an accepted keyring with the first `j` new entries.) -/
theorem C14_history (f0 : Option Str) (ks0 : List Key) (gens : List (Str × Str × Str))
    (h0 : InitFile f0 ks0) (hne : gens ≠ [])
    (hv : ∀ g ∈ gens, ValidEntry g.1 g.2.1 g.2.2)
    (hN : (gens.map (·.1)).Nodup) (hP : (gens.map (·.2.1)).Nodup)
    (hfr : ∀ k ∈ ks0, ∀ g ∈ gens, k.name ≠ g.1 ∧ k.pk ≠ g.2.1) :
    ∃ final, genFold f0 gens = some final ∧ parse final = some (ks0 ++ gens.map entryKey) ∧
      ∀ j, j ≤ gens.length → ∀ mid, genFold f0 (gens.take j) = some mid → mid <+: final := by
  cases gens with
  | nil => exact absurd rfl hne
  | cons g gs =>
    simp only [List.map_cons, List.nodup_cons, List.mem_map, not_exists, not_and] at hN hP
    have hvg := hv g (List.mem_cons_self ..)
    have h1 : parse (genKeyEffect f0 (serializeKey g.1 g.2.1 g.2.2)) = some (ks0 ++ [entryKey g]) := by
      rcases h0 with ⟨rfl, rfl⟩ | ⟨old, rfl, h⟩ | ⟨old, st, rfl, rfl, hp, hnf⟩
      · exact C14_first _ _ _ hvg
      · exact C14_append old ks0 _ _ _ h (fun k hk => hfr k hk g (List.mem_cons_self ..)) hvg
      · exact C14_first_nosection old st _ _ _ hp hnf hvg
    obtain ⟨final, hfin, hparse, hpre⟩ := history_from_accepted gs _ (ks0 ++ [entryKey g]) h1
      (fun g' hg' => hv g' (List.mem_cons_of_mem _ hg')) hN.2 hP.2 (by
        intro k hk g' hg'
        simp only [List.mem_append, List.mem_singleton] at hk
        rcases hk with hk | rfl
        · exact hfr k hk g' (List.mem_cons_of_mem _ hg')
        · exact ⟨fun e => hN.1 g' hg' e.symm, fun e => hP.1 g' hg' e.symm⟩)
    refine ⟨final, hfin, by simpa using hparse, ?_⟩
    intro j hj mid hm
    cases j with
    | zero =>
      simp only [List.take_zero, genFold] at hm
      subst hm
      exact List.IsPrefix.trans (C14_prefix mid _) (hpre 0 (Nat.zero_le _) _ rfl)
    | succ j =>
      rw [genFold_take_succ] at hm
      exact hpre j (by simpa using hj) mid hm

/-- `C14_history` from an absent file with two generations -/
example : ∃ final, genFold none [("alice".toList, alicePk, aliceSk), ("Bobby Bobertson".toList, bobPk, aliceSk)] = some final ∧
    parse final = some [⟨"alice".toList, alicePk, some aliceSk⟩, ⟨"Bobby Bobertson".toList, bobPk, some aliceSk⟩] := by
  obtain ⟨final, h1, h2, _⟩ := C14_history none [] [("alice".toList, alicePk, aliceSk), ("Bobby Bobertson".toList, bobPk, aliceSk)]
    (Or.inl ⟨rfl, rfl⟩) (by decide)
    (by
      intro g hg
      simp only [List.mem_cons, List.mem_nil_iff, or_false] at hg
      rcases hg with rfl | rfl
      · exact validEntry_alice
      · exact validEntry_bob)
    (by decide) (by decide) (fun k hk => absurd hk (by simp))
  exact ⟨final, h1, h2⟩

/-- `C14_history` from the accepted `oldText` with one generation -/
example : ∃ final, genFold (some oldText) [("Bobby Bobertson".toList, bobPk, aliceSk)] = some final ∧
    parse final = some [⟨"alice".toList, alicePk, none⟩, ⟨"Bobby Bobertson".toList, bobPk, some aliceSk⟩] ∧
    oldText <+: final := by
  obtain ⟨final, h1, h2, h3⟩ := C14_history (some oldText) _ [("Bobby Bobertson".toList, bobPk, aliceSk)]
    (Or.inr (Or.inl ⟨_, rfl, oldText_parses⟩)) (by decide)
    (by
      intro g hg
      simp only [List.mem_cons, List.mem_nil_iff, or_false] at hg
      rw [hg]
      exact validEntry_bob)
    (by decide) (by decide) (by decide)
  exact ⟨final, h1, h2, h3 0 (Nat.zero_le _) _ rfl⟩

end Kestrel
