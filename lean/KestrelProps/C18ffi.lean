/-
  C18ffi — the code of `src/ffi/src/lib.rs::scrypt` (the exported C function), *as translated mechanically* by
  tools/rs2lean_ffi.py into `Kestrel.FfiSrc.scrypt` (KestrelModel/GeneratedFfi.lean, regenerated from the Rust source and the
  C header on every run), is the hand-written `ffiScrypt` of C18.lean, and therefore has the frame property `C18_ffi_frame`:
  it writes exactly the RFC 7914 value into exactly `dk_len` bytes at `derived_key` and touches nothing else.  The C
  prototype in `kestrel-crypto.h` and the Rust signature list the same parameters in the same order.

  Trusted: the translator, the glue KestrelModel/RsMem.lean (flat memory; `from_raw_parts` = `drop`/`take`;
  `copy_from_slice` = splice; `kestrel_crypto::scrypt` = RFC 7914 `Scrypt.Spec.scrypt`, which `C18_source_eq_spec` ties to the
  translated scrypt.rs where its `assert!`s hold), and the reading of `c_uint` / `size_t` as `Nat`.

  Hypotheses.
    * `ffi_source_scrypt` needs `N = 2^k`, `1 ≤ k` and nothing else: `ffiScrypt` is written with the Rust-shaped `Scrypt.Impl.scrypt`,
      the generated function with RFC 7914 (`Scrypt.Spec.scrypt`), and these differ for other N (`C18_needs_N_ge_2`).  "The
      output region lies inside memory" is *not* needed for this equation (both sides splice with `take`/`drop`).
    * `ffi_source_frame` needs `dk + dkLen ≤ mem.length` (as `C18_ffi_frame`): otherwise the splice would lengthen memory.
    * the panic of `copy_from_slice` (lengths differ) is unreachable: `ffi_source_no_panic`, no hypothesis.
-/
import KestrelProofs.FfiSrc
import KestrelProps.C18
import KestrelProps.C18src
namespace Kestrel

/-- **C18ffi (equation).** The translated C-ABI function is the hand-written model of C18, for every memory, all offsets and
    lengths (in or out of range, overlapping or not), and every N that is a power of two ≥ 2. -/
theorem ffi_source_scrypt (mem : List UInt8) (pw pwLen salt saltLen n k r p dk dkLen : Nat) (hN : n = 2^k) (hk : 1 ≤ k) :
    FfiSrc.scrypt mem pw pwLen salt saltLen n r p dk dkLen = ffiScrypt mem pw pwLen salt saltLen n r p dk dkLen := by
  rw [FfiSrc.scrypt_closed, ffiScrypt, C18_impl_eq_spec _ _ n k r p dkLen hN hk]

/-- non-vacuity: the 12-byte memory of C18.lean (password = bytes 0..2, salt = bytes 2..6, output = bytes 4..12, overlapping
    the salt), N = 2^4 -/
example : FfiSrc.scrypt [1, 2, 3, 4, 5, 6, 7, 8, 9, 10, 11, 12] 0 2 2 4 (2^4) 1 1 4 8 =
    ffiScrypt [1, 2, 3, 4, 5, 6, 7, 8, 9, 10, 11, 12] 0 2 2 4 (2^4) 1 1 4 8 :=
  ffi_source_scrypt _ 0 2 2 4 (2^4) 4 1 1 4 8 rfl (by decide)

/-- **C18ffi (frame).** `C18_ffi_frame` for the generated function: if the output region lies inside memory, the call
    preserves the size of memory, leaves every byte outside `[dk, dk+dkLen)` unchanged, and the output region holds exactly
    the RFC 7914 scrypt of the password and salt regions (the last under the power-of-two hypothesis, outside which
    `kestrel_crypto::scrypt` panics and the glue `RsMem.kc_scrypt` says nothing about the code). -/
theorem ffi_source_frame (mem : List UInt8) (pw pwLen salt saltLen n k r p dk dkLen : Nat)
    (hin : dk + dkLen ≤ mem.length) :
    (FfiSrc.scrypt mem pw pwLen salt saltLen n r p dk dkLen).length = mem.length ∧
    (∀ i, i < dk ∨ dk + dkLen ≤ i →
      (FfiSrc.scrypt mem pw pwLen salt saltLen n r p dk dkLen)[i]? = mem[i]?) ∧
    (n = 2^k → 1 ≤ k →
      ((FfiSrc.scrypt mem pw pwLen salt saltLen n r p dk dkLen).drop dk).take dkLen =
        Scrypt.Spec.scrypt ((mem.drop pw).take pwLen) ((mem.drop salt).take saltLen) n r p dkLen) := by
  rw [FfiSrc.scrypt_closed]
  generalize hv : Scrypt.Spec.scrypt ((mem.drop pw).take pwLen) ((mem.drop salt).take saltLen) n r p dkLen = v
  have hvl : v.length = dkLen := by rw [← hv]; exact Scrypt.Spec.scrypt_length ..
  have htl : (mem.take dk).length = dk := by rw [List.length_take]; omega
  refine ⟨?_, ?_, ?_⟩
  · simp only [List.length_append, htl, hvl, List.length_drop]; omega
  · intro i hi
    rcases hi with hi | hi
    · rw [List.append_assoc, List.getElem?_append_left (by omega), List.getElem?_take, if_pos hi]
    · rw [List.getElem?_append_right (by simp only [List.length_append, htl, hvl]; exact hi)]
      simp only [List.length_append, htl, hvl, List.getElem?_drop]
      congr 1; omega
  · intro _ _
    rw [List.append_assoc, List.drop_left' htl, List.take_left' hvl]

/-- non-vacuity: the 12-byte memory of C18.lean -/
example :
    let mem : List UInt8 := [1, 2, 3, 4, 5, 6, 7, 8, 9, 10, 11, 12]
    (FfiSrc.scrypt mem 0 2 2 4 (2^4) 1 1 4 8).length = mem.length ∧
    (∀ i, i < 4 ∨ 4 + 8 ≤ i → (FfiSrc.scrypt mem 0 2 2 4 (2^4) 1 1 4 8)[i]? = mem[i]?) ∧
    ((2^4 : Nat) = 2^4 → 1 ≤ 4 →
      ((FfiSrc.scrypt mem 0 2 2 4 (2^4) 1 1 4 8).drop 4).take 8 =
        Scrypt.Spec.scrypt ((mem.drop 0).take 2) ((mem.drop 2).take 4) (2^4) 1 1 8) :=
  ffi_source_frame [1, 2, 3, 4, 5, 6, 7, 8, 9, 10, 11, 12] 0 2 2 4 (2^4) 4 1 1 4 8 (by decide)

/-- the same statement obtained the other way round: from `C18_ffi_frame` (about `ffiScrypt`) through `ffi_source_scrypt`;
    here all three parts are under the power-of-two hypothesis.  Kept so that a change of either the hand-written model or
    the generated function that separates them breaks a theorem. -/
theorem ffi_source_frame_via_model (mem : List UInt8) (pw pwLen salt saltLen n k r p dk dkLen : Nat)
    (hin : dk + dkLen ≤ mem.length) (hN : n = 2^k) (hk : 1 ≤ k) :
    (FfiSrc.scrypt mem pw pwLen salt saltLen n r p dk dkLen).length = mem.length ∧
    (∀ i, i < dk ∨ dk + dkLen ≤ i →
      (FfiSrc.scrypt mem pw pwLen salt saltLen n r p dk dkLen)[i]? = mem[i]?) ∧
    ((FfiSrc.scrypt mem pw pwLen salt saltLen n r p dk dkLen).drop dk).take dkLen =
        Scrypt.Spec.scrypt ((mem.drop pw).take pwLen) ((mem.drop salt).take saltLen) n r p dkLen := by
  rw [ffi_source_scrypt mem pw pwLen salt saltLen n k r p dk dkLen hN hk]
  obtain ⟨h1, h2, h3⟩ := C18_ffi_frame mem pw pwLen salt saltLen n k r p dk dkLen hin
  exact ⟨h1, h2, h3 hN hk⟩

example : ((FfiSrc.scrypt [1, 2, 3, 4, 5, 6, 7, 8, 9, 10, 11, 12] 0 2 2 4 (2^4) 1 1 4 8).drop 4).take 8 =
    Scrypt.Spec.scrypt [1, 2] [3, 4, 5, 6] (2^4) 1 1 8 :=
  (ffi_source_frame_via_model [1, 2, 3, 4, 5, 6, 7, 8, 9, 10, 11, 12] 0 2 2 4 (2^4) 4 1 1 4 8 (by decide) rfl (by decide)).2.2

/-- **C18ffi (through to scrypt.rs).** Where the `assert!`s of `src/crypto/src/scrypt.rs` hold (`ScryptSrc.scrypt_pre`, generated
    from that file), the bytes the translated FFI function leaves in the output region are what the *translated* scrypt.rs
    computes on the two input regions: the glue `RsMem.kc_scrypt` stands for code that is itself translated and proved
    (`C18_source_eq_spec`).  (The one-line wrapper `kestrel_crypto::scrypt` of src/crypto/src/lib.rs, `n as usize` etc., is read by hand.) -/
theorem ffi_source_region_is_scrypt_rs (mem : List UInt8) (pw pwLen salt saltLen n r p dk dkLen : Nat)
    (hin : dk + dkLen ≤ mem.length) (hpre : ScryptSrc.scrypt_pre n r p) :
    ((FfiSrc.scrypt mem pw pwLen salt saltLen n r p dk dkLen).drop dk).take dkLen =
      ScryptSrc.scrypt ((mem.drop pw).take pwLen) ((mem.drop salt).take saltLen) n r p dkLen := by
  rw [C18_source_eq_spec _ _ n r p dkLen hpre, FfiSrc.scrypt_closed, List.append_assoc,
    List.drop_left' (by rw [List.length_take]; omega), List.take_left' (Scrypt.Spec.scrypt_length ..)]

/-- hypotheses satisfiable: the memory of C18.lean, N = 16, r = 1, p = 1 -/
example : ((FfiSrc.scrypt [1, 2, 3, 4, 5, 6, 7, 8, 9, 10, 11, 12] 0 2 2 4 16 1 1 4 8).drop 4).take 8 =
    ScryptSrc.scrypt [1, 2] [3, 4, 5, 6] 16 1 1 8 :=
  ffi_source_region_is_scrypt_rs [1, 2, 3, 4, 5, 6, 7, 8, 9, 10, 11, 12] 0 2 2 4 16 1 1 4 8 (by decide)
    (by unfold ScryptSrc.scrypt_pre; decide)

/-- **C18ffi (no panic).** The generated side conditions `FfiSrc.scrypt_pre` (one conjunct per `from_raw_parts(_mut)`: the range
    lies inside memory; one for `copy_from_slice`: the lengths agree) amount to "the three ranges lie inside memory": the
    `copy_from_slice` of line 30 cannot panic, whatever the arguments. -/
theorem ffi_source_no_panic (mem : List UInt8) (pw pwLen salt saltLen n r p dk dkLen : Nat) :
    FfiSrc.scrypt_pre mem pw pwLen salt saltLen n r p dk dkLen ↔
      pw + pwLen ≤ mem.length ∧ salt + saltLen ≤ mem.length ∧ dk + dkLen ≤ mem.length :=
  FfiSrc.scrypt_pre_iff mem pw pwLen salt saltLen n r p dk dkLen

/-- the side conditions are satisfiable (the memory of C18.lean) -/
example : FfiSrc.scrypt_pre [1, 2, 3, 4, 5, 6, 7, 8, 9, 10, 11, 12] 0 2 2 4 (2^4) 1 1 4 8 :=
  (ffi_source_no_panic _ 0 2 2 4 (2^4) 1 1 4 8).2 (by decide)

/-- … and not trivial: an output range that sticks out of memory violates them -/
example : ¬ FfiSrc.scrypt_pre [1, 2, 3, 4, 5, 6, 7, 8, 9, 10, 11, 12] 0 2 2 4 (2^4) 1 1 8 8 :=
  fun h => absurd ((ffi_source_no_panic _ 0 2 2 4 (2^4) 1 1 8 8).1 h).2.2 (by decide)

/-- **C18ffi (header).** The prototype in `src/ffi/kestrel-crypto.h` and the signature in `src/ffi/src/lib.rs` list the same
    parameters, in the same order, with compatible types (`const unsigned char*`/`*const c_uchar`, `size_t`/`size_t`,
    `unsigned int`/`c_uint`, `unsigned char*`/`*mut c_uchar`). -/
theorem ffi_source_header_agrees : FfiSrc.scrypt_params = FfiSrc.scrypt_header_params := by decide

/-- non-vacuity: the lists are the nine parameters, and the positions of the generated definition's arguments are those of
    the list (pointer, length, pointer, length, n, r, p, pointer, length) -/
example : FfiSrc.scrypt_params.length = 9 ∧
    FfiSrc.scrypt_params.map (·.2) =
      [.constUCharPtr, .sizeT, .constUCharPtr, .sizeT, .uint, .uint, .uint, .ucharPtr, .sizeT] := by decide

end Kestrel
