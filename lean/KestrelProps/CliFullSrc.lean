/-
  CliFullSrc — the chain main.rs → commands.rs → encrypt.rs / decrypt.rs, translated end to end and COMPOSED: the commands
  translated by tools/rs2lean_cli.py (KestrelModel/GeneratedCli.lean), run with the library functions translated by
  tools/rs2lean_stream.py (KestrelModel/GeneratedStream.lean) through the glue `CliSrc.streamLib`
  (KestrelModel/RsCliStream.lean — hand-written and trusted; its header lists every modelling decision), agree with the
  hand-written model of the program (`Cli.runDecrypt` …, `Cli.main`, KestrelModel/Cli.lean).

  `Agrees sys r o` (KestrelProofs/CliCmdSrc.lean): the same final files / environment / standard input, the model's output
  appended to standard output, `Ok(())` exactly with exit code 0 and `Err(_)` exactly with exit code 1; command line, exit
  code so far, loop-budget flag, primitives and randomness untouched.  Standard error is not compared (the model has none; this
  is where the progress messages and the `sender` line of `decrypt` go).

  How the statements are obtained: `cli_source_decrypt` … (KestrelProps/CliStreamSrc.lean: for ANY library, the command fails
  early exactly when the model does and otherwise makes ONE library call with the model's reader / writer / keys) instantiated
  at `streamLib`; `stream_source_key_decrypt` … (KestrelProps/StreamSrcDec.lean / StreamSrcEnc.lean: generated stream function =
  `keyDecryptIO` … on every script) for what that call computes; and, new here, the writer: the calls the sink recorded, made
  on the TRANSLATED `OnDemandFile` / standard output, are `Cli.deliver` (`cli_source_full_writer_*`, `cli_source_full_replay`).

  Hypotheses (all satisfiable: see the examples):
    `1 ≤ sys.fuel`      one round of the unlock / confirmation `loop` (all the code needs without a terminal);
    `sys.draws = 0`     no randomness drawn before: the model's `Rand` is "first value, second value";
    `sys.stdinPos = 0`  nothing read from standard input before (the model's commands read `world.stdin` from the start);
    `hpub`              X25519 public keys are 32 bytes (needed by `extract_pub` / `gen_key` only, as before).
  The fuel of the stream loops is chosen by the glue from the input length, so no hypothesis about it appears.
-/
import KestrelProofs.CliFullSrc
import KestrelProps.CliGenKeySrc
import KestrelProps.C01
namespace Kestrel
open CliSrc RsCli Cli
open Kestrel.Keyring (Str)

/-! ## data for the non-vacuity examples: a small concrete process state -/

/-- the toy primitives of C01 with 32-byte public keys (`hpub` holds) -/
def fullExPrims : Prims := { toyPrims with pub := fun a => some ((a ++ zeros 32).take 32) }

theorem fullExPrims_pub : ∀ k pk, fullExPrims.pub k = some pk → pk.length = 32 := by
  intro k pk h
  simp only [fullExPrims, Option.some.injEq] at h
  subst h
  simp [zeros]

/-- a file `in` of three bytes, the password in the environment, two bytes on standard input -/
def fullExWorld : World :=
  { files := [(str "in", [1, 2, 3])], env := [(str "KESTREL_PASSWORD", str "pw")], stdin := [7, 8] }

/-- the process state for an argument vector (budget 1, nothing drawn, nothing read, nothing printed: the defaults) -/
def fullExSys (argv : List Str) : Sys :=
  { args := argv.map .unicode, world := fullExWorld, prims := fullExPrims, rnd := ⟨zeros 32, List.replicate 32 1⟩ }

/-- a password-encrypted file holding the bytes 1 2 3 under the toy primitives (what the model writes for `pass enc in`) -/
def fullExCt : Bytes :=
  ((Cli.runPassEncrypt fullExPrims ⟨zeros 32, List.replicate 32 1⟩ fullExWorld (some (str "in")) (some (str "out")) true).world.file
    (str "out")).getD []

/-! ## the translated writers -/

/-- **the translated `OnDemandFile` under any sequence of `write` / `flush` calls** (file not created yet): no call at all
    leaves the process state untouched — no file is created; otherwise every call succeeds, the file is created (truncated) by
    the first call and ends up holding exactly the bytes written, in order, wherever the `flush` calls stand. -/
theorem cli_source_full_writer_file (sys : Sys) (p : Str) (evs : List WEv) :
    runEvents sys (.OnDemandFile ⟨p, none⟩) evs =
      if evs = [] then (sys, .OnDemandFile ⟨p, none⟩, .ok ())
      else ({ sys with world := sys.world.setFile p (bytesOf evs) }, .OnDemandFile ⟨p, some ⟨p⟩⟩, .ok ()) :=
  runEvents_writer_file sys p evs

/-- a `flush` alone creates the (empty) file; a `write` between two `flush`es is what the file holds -/
example (sys : Sys) : (runEvents sys (.OnDemandFile ⟨str "o", none⟩) [.flush, .write [1, 2], .flush, .write [3]]).1.world =
    sys.world.setFile (str "o") [1, 2, 3] := by
  rw [cli_source_full_writer_file]; rfl

/-- **standard output under any sequence of calls**: the bytes written are appended in order. -/
theorem cli_source_full_writer_stdout (sys : Sys) (evs : List WEv) :
    runEvents sys (.Stdout {}) evs = ({ sys with stdout := sys.stdout ++ bytesOf evs }, .Stdout {}, .ok ()) :=
  runEvents_writer_stdout evs sys

example (sys : Sys) : (runEvents sys (.Stdout {}) [.write [1, 2], .flush, .write [3]]).1.stdout = sys.stdout ++ [1, 2, 3] := by
  rw [cli_source_full_writer_stdout]; rfl

/-- **the interleaving of `flush` with `write` calls is immaterial** for the writers the commands build (the sink of the
    stream model records the number of `flush` calls, not where they stood; `CliSrc.replay` makes them last). -/
theorem cli_source_full_interleaving (sys : Sys) (outf : Option Str) (a b : List WEv) (hb : bytesOf a = bytesOf b)
    (he : a = [] ↔ b = []) : runEvents sys (writerOf outf) a = runEvents sys (writerOf outf) b :=
  runEvents_interleaving sys outf a b hb he

example (sys : Sys) : runEvents sys (writerOf (some (str "o"))) [.write [1], .flush, .write [2], .flush] =
    runEvents sys (writerOf (some (str "o"))) [.write [1], .write [2], .flush, .flush] :=
  cli_source_full_interleaving sys _ _ _ rfl (by simp)

/-- **`replay` = `deliver`.** The calls a sink recorded — one `write` per log entry with the bytes it accounts for, then the
    `flush`es — made on the translated writer for the output argument `outf`, all succeed and change the process state exactly
    as the model's `Cli.deliver` says.  `Acct k`: the log entries account for the bytes in `k.out`; it holds for the final sink of
    each of the four I/O-level models started on the empty sink (`acct_keyDecryptIO` …, KestrelProofs/CliFullSrc.lean). -/
theorem cli_source_full_replay (sys : Sys) (outf : Option Str) (k : Snk) (ha : Acct k) :
    ∃ w', replay sys (writerOf outf) k =
      ({ sys with world := (deliver sys.world outf k).1, stdout := sys.stdout ++ (deliver sys.world outf k).2 }, w', .ok ()) :=
  replay_deliver sys outf k ha

/-- the hypothesis holds for what `passEncryptIO` leaves behind (here: any primitives, any password / salt / input) -/
example (sys : Sys) (P : Prims) (pw salt inp : Bytes) : ∃ w', replay sys (writerOf (some (str "o"))) (passEncryptIO P pw salt { inp := inp } {}).2.2 =
    ({ sys with world := (deliver sys.world (some (str "o")) (passEncryptIO P pw salt { inp := inp } {}).2.2).1,
                stdout := sys.stdout ++ (deliver sys.world (some (str "o")) (passEncryptIO P pw salt { inp := inp } {}).2.2).2 }, w', .ok ()) :=
  cli_source_full_replay sys _ _ (acct_passEncryptIO _ _ _ _ _ acct_empty)

/-! ## the four streaming commands, composed -/

/-- **decrypt.** The translated `commands::decrypt`, run with the translated `decrypt::key_decrypt`, agrees with `runDecrypt`. -/
theorem cli_source_full_decrypt (sys : Sys) (o : CliSrc.commands.DecryptOptions) (hf : 1 ≤ sys.fuel) (hpos : sys.stdinPos = 0) :
    Agrees sys (CliSrc.commands.decrypt CliSrc.streamLib sys o)
      (Cli.runDecrypt sys.prims sys.world o.infile o.to o.outfile o.keyring o.env_pass) :=
  decrypt_full sys o hf hpos

/-- non-vacuity: no keyring is configured in the example world — the model and the composed code fail alike, nothing touched … -/
example : Agrees (fullExSys []) (CliSrc.commands.decrypt CliSrc.streamLib (fullExSys []) ⟨some (str "in"), str "alice", some (str "out"), none, true⟩)
    (Cli.runDecrypt fullExPrims fullExWorld (some (str "in")) (str "alice") (some (str "out")) none true) :=
  cli_source_full_decrypt (fullExSys []) _ (by decide) rfl

example : (Cli.runDecrypt fullExPrims fullExWorld (some (str "in")) (str "alice") (some (str "out")) none true).err = some .noKeyring := by
  decide

/-- **encrypt.** The payload key is the first value of the process's randomness, the ephemeral private key the second. -/
theorem cli_source_full_encrypt (sys : Sys) (o : CliSrc.commands.EncryptOptions) (hf : 1 ≤ sys.fuel) (hd : sys.draws = 0)
    (hpos : sys.stdinPos = 0) :
    Agrees sys (CliSrc.commands.encrypt CliSrc.streamLib sys o)
      (Cli.runEncrypt sys.prims sys.rnd sys.world o.infile o.to o.from o.outfile o.keyring o.env_pass) :=
  encrypt_full sys o hf hd hpos

example : Agrees (fullExSys []) (CliSrc.commands.encrypt CliSrc.streamLib (fullExSys []) ⟨none, str "bob", str "alice", none, some (str "in"), true⟩)
    (Cli.runEncrypt fullExPrims ⟨zeros 32, List.replicate 32 1⟩ fullExWorld none (str "bob") (str "alice") none (some (str "in")) true) :=
  cli_source_full_encrypt (fullExSys []) _ (by decide) rfl rfl

/-- … here the keyring file `in` is not UTF-8 text of a keyring -/
example : (Cli.runEncrypt fullExPrims ⟨zeros 32, List.replicate 32 1⟩ fullExWorld none (str "bob") (str "alice") none (some (str "in")) true).exit = 1 := by
  decide

/-- **pass_decrypt.** -/
theorem cli_source_full_pass_decrypt (sys : Sys) (o : CliSrc.commands.PasswordOptions) (hpos : sys.stdinPos = 0) :
    Agrees sys (CliSrc.commands.pass_decrypt CliSrc.streamLib sys o)
      (Cli.runPassDecrypt sys.prims sys.world o.infile o.outfile o.env_pass) :=
  pass_decrypt_full sys o hpos

/-- non-vacuity, a run that reaches the library and succeeds: the ciphertext made by the model's `pass enc` is on standard
    input, the plaintext goes to the file `out` -/
example : Agrees ({ fullExSys [] with world := { fullExWorld with stdin := fullExCt } })
    (CliSrc.commands.pass_decrypt CliSrc.streamLib ({ fullExSys [] with world := { fullExWorld with stdin := fullExCt } }) ⟨none, some (str "out"), true⟩)
    (Cli.runPassDecrypt fullExPrims { fullExWorld with stdin := fullExCt } none (some (str "out")) true) :=
  cli_source_full_pass_decrypt _ _ rfl

example : (Cli.runPassDecrypt fullExPrims { fullExWorld with stdin := fullExCt } none (some (str "out")) true).exit = 0 ∧
    (Cli.runPassDecrypt fullExPrims { fullExWorld with stdin := fullExCt } none (some (str "out")) true).world.file (str "out") = some [1, 2, 3] := by
  decide

/-- **pass_encrypt.** The salt is the first value of the process's randomness. -/
theorem cli_source_full_pass_encrypt (sys : Sys) (o : CliSrc.commands.PasswordOptions) (hf : 1 ≤ sys.fuel) (hd : sys.draws = 0)
    (hpos : sys.stdinPos = 0) :
    Agrees sys (CliSrc.commands.pass_encrypt CliSrc.streamLib sys o)
      (Cli.runPassEncrypt sys.prims sys.rnd sys.world o.infile o.outfile o.env_pass) :=
  pass_encrypt_full sys o hf hd hpos

/-- non-vacuity, a run that reaches the library and succeeds: `in` is encrypted into the new file `out` (71 bytes: magic number,
    salt, one record) -/
example : Agrees (fullExSys []) (CliSrc.commands.pass_encrypt CliSrc.streamLib (fullExSys []) ⟨some (str "in"), some (str "out"), true⟩)
    (Cli.runPassEncrypt fullExPrims ⟨zeros 32, List.replicate 32 1⟩ fullExWorld (some (str "in")) (some (str "out")) true) :=
  cli_source_full_pass_encrypt (fullExSys []) _ (by decide) rfl rfl

example : (Cli.runPassEncrypt fullExPrims ⟨zeros 32, List.replicate 32 1⟩ fullExWorld (some (str "in")) (some (str "out")) true).exit = 0 ∧
    fullExCt.length = 71 := by
  decide

/-! ## the whole program -/

/-- **from the command line to the outcome, every command.**  For every argument vector of valid Unicode strings, the
    translated program — `try_main` of main.rs over the translated commands of commands.rs over the translated streaming
    functions of encrypt.rs / decrypt.rs — agrees with the model's `Cli.main`: the same final world, the model's output appended
    to standard output, `Ok(())` / `Err` as exit code 0 / 1.  The one difference: the model's outcome does not carry the texts of
    `--help` / `--version`; the program prints them (`helpText`: the translated `USAGE` / `VERSION`, empty for every other
    request), which is why the relation is `AgreesText … (helpText …)` and not `Agrees` outright (next theorem). -/
theorem cli_source_full_program (sys : Sys) (argv : List Str) (h : sys.args = argv.map OsString.unicode)
    (hf : 1 ≤ sys.fuel) (hd : sys.draws = 0) (hpos : sys.stdinPos = 0)
    (hpub : ∀ k pk, sys.prims.pub k = some pk → pk.length = 32) :
    AgreesText sys (CliSrc.try_main (CliSrc.commands.api CliSrc.streamLib) sys) (Cli.main sys.prims sys.rnd sys.world argv)
      (helpText (Cli.parseArgv argv)) := by
  have hdisp := cli_source_parse_argv (CliSrc.commands.api CliSrc.streamLib) sys argv h
  unfold Cli.main
  cases hq : Cli.parseArgv argv with
  | help =>
    rw [hq] at hdisp
    have : CliSrc.try_main (CliSrc.commands.api CliSrc.streamLib) sys = (print_help sys, .ok ()) := hdisp
    rw [this]
    exact ⟨rfl, by simp only [Cli.run, List.append_nil]; rfl, Or.inl ⟨rfl, rfl⟩, rfl, rfl, rfl, rfl, rfl⟩
  | version =>
    rw [hq] at hdisp
    have : CliSrc.try_main (CliSrc.commands.api CliSrc.streamLib) sys = (print_version sys, .ok ()) := hdisp
    rw [this]
    exact ⟨rfl, by simp only [Cli.run, List.append_nil]; rfl, Or.inl ⟨rfl, rfl⟩, rfl, rfl, rfl, rfl, rfl⟩
  | usageError =>
    rw [hq] at hdisp
    obtain ⟨msg, hm⟩ := hdisp
    rw [hm]
    exact (agreesText_nil _ _ _).mpr (agrees_fail sys _ .usage)
  | encrypt i t f o k e =>
    rw [hq] at hdisp
    have : CliSrc.try_main (CliSrc.commands.api CliSrc.streamLib) sys = CliSrc.commands.encrypt CliSrc.streamLib sys ⟨i, t, f, o, k, e⟩ := hdisp
    rw [this]
    exact (agreesText_nil _ _ _).mpr (cli_source_full_encrypt sys ⟨i, t, f, o, k, e⟩ hf hd hpos)
  | decrypt i t o k e =>
    rw [hq] at hdisp
    have : CliSrc.try_main (CliSrc.commands.api CliSrc.streamLib) sys = CliSrc.commands.decrypt CliSrc.streamLib sys ⟨i, t, o, k, e⟩ := hdisp
    rw [this]
    exact (agreesText_nil _ _ _).mpr (cli_source_full_decrypt sys ⟨i, t, o, k, e⟩ hf hpos)
  | keyGen o e =>
    rw [hq] at hdisp
    have : CliSrc.try_main (CliSrc.commands.api CliSrc.streamLib) sys = CliSrc.commands.gen_key sys o e := hdisp
    rw [this]
    exact (agreesText_nil _ _ _).mpr (cli_source_gen_key sys o e hf hd hpos hpub)
  | changePass s e =>
    rw [hq] at hdisp
    have : CliSrc.try_main (CliSrc.commands.api CliSrc.streamLib) sys = CliSrc.commands.change_pass sys s e := hdisp
    rw [this]
    exact (agreesText_nil _ _ _).mpr (cli_source_change_pass sys s e hf hd)
  | extractPub s e =>
    rw [hq] at hdisp
    have : CliSrc.try_main (CliSrc.commands.api CliSrc.streamLib) sys = CliSrc.commands.extract_pub sys s e := hdisp
    rw [this]
    exact (agreesText_nil _ _ _).mpr (cli_source_extract_pub sys s e hpub)
  | passEncrypt i o e =>
    rw [hq] at hdisp
    have : CliSrc.try_main (CliSrc.commands.api CliSrc.streamLib) sys = CliSrc.commands.pass_encrypt CliSrc.streamLib sys ⟨i, o, e⟩ := hdisp
    rw [this]
    exact (agreesText_nil _ _ _).mpr (cli_source_full_pass_encrypt sys ⟨i, o, e⟩ hf hd hpos)
  | passDecrypt i o e =>
    rw [hq] at hdisp
    have : CliSrc.try_main (CliSrc.commands.api CliSrc.streamLib) sys = CliSrc.commands.pass_decrypt CliSrc.streamLib sys ⟨i, o, e⟩ := hdisp
    rw [this]
    exact (agreesText_nil _ _ _).mpr (cli_source_full_pass_decrypt sys ⟨i, o, e⟩ hpos)

/-- non-vacuity: `kestrel pass enc in -o out --env-pass` on the example world; every hypothesis holds -/
example : AgreesText (fullExSys [str "kestrel", str "pass", str "enc", str "in", str "-o", str "out", str "--env-pass"])
    (CliSrc.try_main (CliSrc.commands.api CliSrc.streamLib)
      (fullExSys [str "kestrel", str "pass", str "enc", str "in", str "-o", str "out", str "--env-pass"]))
    (Cli.main fullExPrims ⟨zeros 32, List.replicate 32 1⟩ fullExWorld
      [str "kestrel", str "pass", str "enc", str "in", str "-o", str "out", str "--env-pass"])
    (helpText (Cli.parseArgv [str "kestrel", str "pass", str "enc", str "in", str "-o", str "out", str "--env-pass"])) :=
  cli_source_full_program _ _ rfl (by decide) rfl rfl fullExPrims_pub

/-- … and `Agrees` itself on every command line that is not a request for the help or the version text. -/
theorem cli_source_full_program_agrees (sys : Sys) (argv : List Str) (h : sys.args = argv.map OsString.unicode)
    (hf : 1 ≤ sys.fuel) (hd : sys.draws = 0) (hpos : sys.stdinPos = 0)
    (hpub : ∀ k pk, sys.prims.pub k = some pk → pk.length = 32)
    (hreq : Cli.parseArgv argv ≠ .help ∧ Cli.parseArgv argv ≠ .version) :
    Agrees sys (CliSrc.try_main (CliSrc.commands.api CliSrc.streamLib) sys) (Cli.main sys.prims sys.rnd sys.world argv) := by
  have := cli_source_full_program sys argv h hf hd hpos hpub
  have ht : helpText (Cli.parseArgv argv) = [] := by
    cases hq : Cli.parseArgv argv <;> first | exact absurd hq hreq.1 | exact absurd hq hreq.2 | rfl
  rw [ht] at this
  exact (agreesText_nil _ _ _).mp this

example : Agrees (fullExSys [str "kestrel", str "pass", str "enc", str "in", str "-o", str "out", str "--env-pass"])
    (CliSrc.try_main (CliSrc.commands.api CliSrc.streamLib)
      (fullExSys [str "kestrel", str "pass", str "enc", str "in", str "-o", str "out", str "--env-pass"]))
    (Cli.main fullExPrims ⟨zeros 32, List.replicate 32 1⟩ fullExWorld
      [str "kestrel", str "pass", str "enc", str "in", str "-o", str "out", str "--env-pass"]) :=
  cli_source_full_program_agrees _ _ rfl (by decide) rfl rfl fullExPrims_pub (by decide)

/-- … and that run is the successful encryption of `in` into `out` -/
example : (Cli.main fullExPrims ⟨zeros 32, List.replicate 32 1⟩ fullExWorld
    [str "kestrel", str "pass", str "enc", str "in", str "-o", str "out", str "--env-pass"]).exit = 0 := by decide

/-- **the process as `fn main` leaves it**: exit code and world are the model's; standard output is what it was, then the
    model's output, then the help / version text if that was the request. -/
theorem cli_source_full_program_exit (sys : Sys) (argv : List Str) (h : sys.args = argv.map OsString.unicode)
    (hf : 1 ≤ sys.fuel) (hd : sys.draws = 0) (hpos : sys.stdinPos = 0)
    (hpub : ∀ k pk, sys.prims.pub k = some pk → pk.length = 32) (hexit : sys.exit = none) :
    (((CliSrc.main (CliSrc.commands.api CliSrc.streamLib) sys).exit.getD 0 : Int) = (Cli.main sys.prims sys.rnd sys.world argv).exit) ∧
    (CliSrc.main (CliSrc.commands.api CliSrc.streamLib) sys).world = (Cli.main sys.prims sys.rnd sys.world argv).world ∧
    (CliSrc.main (CliSrc.commands.api CliSrc.streamLib) sys).stdout =
      sys.stdout ++ (Cli.main sys.prims sys.rnd sys.world argv).stdout ++ helpText (Cli.parseArgv argv) := by
  obtain ⟨hw, hs, hr, _, he, _⟩ := cli_source_full_program sys argv h hf hd hpos hpub
  rw [cli_source_main]
  rcases ht : CliSrc.try_main (CliSrc.commands.api CliSrc.streamLib) sys with ⟨s, r⟩
  rw [ht] at hw hs hr he
  rcases hr with ⟨hok, h0⟩ | ⟨⟨err, herr⟩, h1⟩
  · cases hok
    refine ⟨?_, hw, hs⟩
    show ((s.exit.getD 0 : Int)) = _
    rw [show s.exit = sys.exit from he, hexit, h0]; rfl
  · cases herr
    refine ⟨?_, hw, hs⟩
    rw [h1]; rfl

/-- non-vacuity: the exit code of the process for `kestrel pass enc in -o out --env-pass` on the example world is the model's (0) -/
example : ((CliSrc.main (CliSrc.commands.api CliSrc.streamLib)
      (fullExSys [str "kestrel", str "pass", str "enc", str "in", str "-o", str "out", str "--env-pass"])).exit.getD 0 : Int) = 0 := by
  have h := (cli_source_full_program_exit (fullExSys [str "kestrel", str "pass", str "enc", str "in", str "-o", str "out", str "--env-pass"])
    _ rfl (by decide) rfl rfl fullExPrims_pub rfl).1
  rw [h]
  have : (Cli.main fullExPrims ⟨zeros 32, List.replicate 32 1⟩ fullExWorld
    [str "kestrel", str "pass", str "enc", str "in", str "-o", str "out", str "--env-pass"]).exit = 0 := by decide
  show ((Cli.main fullExPrims ⟨zeros 32, List.replicate 32 1⟩ fullExWorld
    [str "kestrel", str "pass", str "enc", str "in", str "-o", str "out", str "--env-pass"]).exit : Int) = 0
  rw [this]; rfl

end Kestrel
