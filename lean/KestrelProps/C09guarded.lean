/-
  C09 (part 2) — the guarded model: whatever byte string is offered as an encrypted file, a Noise handshake message,
  an AEAD ciphertext, an encoded key or a keyring file, no panic site is reached, and the outcome is the value the
  plain model (the one diffed against the Rust code) computes.

  `KestrelModel/Guarded.lean` re-states the untrusted paths with every panic-capable Rust operation as a partial
  operation into `Outcome` (`val` / `crash site`).  The theorems below have the form `xxxG args = .val (xxx args)`:
  never `crash`, and equal to the plain model.  Caller contracts are explicit hypotheses:

    * `key.length = 32`, `nonce.length = 12`   — `chapoly_decrypt_ietf`'s documented contract (its two `expect`s);
    * `r.length = 32`                           — the recipient's `PrivateKey` value (`PrivateKey::try_from` checks it);
    * `cs < 2^32`                               — `chunk_size : u32`;
    * `P.Lawful`, `∀ m, (P.hash m).length = 32`, `∀ pw salt, (P.kdf pw salt).length = 32`
                                                — output lengths of the primitives (proved for the concrete ones);
    * `Refines D P.aead`                        — the guarded AEAD agrees with the abstract one on 32-byte keys
                                                  (proved for `chapolyNoiseDecG` / `chapolyNoise`).

  `C09_sites_covered` ties the site labels to the translator's inventory `Generated.panicSites`: every entry is
  modelled, or a listed library/constant contract, or listed as off the untrusted paths.  A new panic-capable
  expression (or one more occurrence of a known one) in the source files makes that `decide` fail; removing or renaming does not.
-/
import KestrelProofs.Guarded
import KestrelProps.C01
namespace Kestrel
open Generated Guarded

/-! ### totality and agreement -/

/-- **AEAD ciphertext** (`chapoly_decrypt_ietf`): `len − 16` is reached only with `len ≥ 16`. -/
theorem C09_total_aead (key nonce ad c : Bytes) (hk : key.length = 32) (hn : nonce.length = 12) :
    aeadOpenG key nonce ad c = .val (aeadOpen key nonce ad c) :=
  aeadOpenG_total key nonce ad c hk hn

/-- `chapoly_decrypt_noise`: the `assert_eq!` is the key contract; the nonce copy is 8 bytes into `[4..12]`. -/
theorem C09_total_aead_noise (key : Bytes) (n : Nat) (ad c : Bytes) (hk : key.length = 32) :
    chapolyNoiseDecG key n ad c = .val (chapolyNoise.dec key n ad c) :=
  chapolyNoiseDecG_total key n ad c hk

/-- **Noise handshake message** (`noise_decrypt` = `init_x` + `read_message` + payload-key check), any primitives. -/
theorem C09_total_noise (P : Prims) (D : AeadDecG) (hP : P.Lawful) (hH : ∀ m, (P.hash m).length = 32)
    (hD : Refines D P.aead) (prologue r rpk msg : Bytes) (hr : r.length = 32) :
    noiseDecryptG P D prologue r rpk msg = .val (noiseDecrypt P prologue r rpk msg) :=
  noiseDecryptG_total P D hP hH hD prologue r rpk msg hr

theorem C09_total_noise_concrete (prologue r rpk msg : Bytes) (hr : r.length = 32) :
    noiseDecryptG concretePrims chapolyNoiseDecG prologue r rpk msg = .val (noiseDecrypt concretePrims prologue r rpk msg) :=
  noiseDecryptG_total concretePrims chapolyNoiseDecG concretePrims_lawful sha256_length chapolyNoiseDecG_refines
    prologue r rpk msg hr

/-- `read_message` on its own never panics either (for the state `init_x` builds for a responder). -/
theorem C09_total_read_message (P : Prims) (D : AeadDecG) (hP : P.Lawful) (hH : ∀ m, (P.hash m).length = 32)
    (hD : Refines D P.aead) (prologue r rpk msg : Bytes) (hr : r.length = 32) :
    ∃ v, readMessageG P D (hs0 P prologue r rpk) msg = .val v :=
  readMessageG_no_crash P D hP hH hD prologue r rpk msg hr

/-- **Chunk stream** (`decrypt_chunks`), any AEAD, any key/AAD, any `chunk_size : u32`, any input. -/
theorem C09_total_chunks (A : Aead) (D : AeadDecG) (key aad : Bytes) (cs : Nat) (hcs : cs < 2^32)
    (hD : ∀ n ad c, D key n ad c = .val (A.dec key n ad c)) (inp : Bytes) :
    decryptChunksG D key aad cs inp = .val (decryptChunks A key aad cs inp) :=
  decryptChunksG_total A D key aad cs hcs hD inp

theorem C09_total_chunks_concrete (key aad : Bytes) (cs : Nat) (hk : key.length = 32) (hcs : cs < 2^32) (inp : Bytes) :
    decryptChunksG chapolyNoiseDecG key aad cs inp = .val (decryptChunks chapolyNoise key aad cs inp) :=
  decryptChunksG_total chapolyNoise chapolyNoiseDecG key aad cs hcs (chapolyNoiseDecG_refines key hk) inp

/-- the loop from any state in which the two scratch buffers have the sizes `decrypt_chunks` allocates -/
theorem C09_total_chunks_loop (A : Aead) (D : AeadDecG) (key aad : Bytes) (cs : Nat) (hcs : cs < 2^32)
    (hD : ∀ n ad c, D key n ad c = .val (A.dec key n ad c)) (fuel ctr : Nat) (buf adBuf inp : Bytes)
    (hbuf : buf.length = cs + 16) (had : adBuf.length = aad.length + 8) :
    decLoopG D key aad cs fuel ctr buf adBuf inp = .val (decLoop A key aad cs fuel ctr inp) :=
  decLoopG_total A D key aad cs hcs hD fuel ctr buf adBuf inp hbuf had

/-- **Encrypted file, key mode** (`key_decrypt`). -/
theorem C09_total_key_file (P : Prims) (D : AeadDecG) (hP : P.Lawful) (hH : ∀ m, (P.hash m).length = 32)
    (hD : Refines D P.aead) (r rpk inp : Bytes) (hr : r.length = 32) :
    keyDecryptG P D r rpk inp = .val (keyDecrypt P r rpk inp) :=
  keyDecryptG_total P D hP hH hD r rpk inp hr

theorem C09_total_key_file_concrete (r rpk inp : Bytes) (hr : r.length = 32) :
    keyDecryptG concretePrims chapolyNoiseDecG r rpk inp = .val (keyDecrypt concretePrims r rpk inp) :=
  keyDecryptG_total concretePrims chapolyNoiseDecG concretePrims_lawful sha256_length chapolyNoiseDecG_refines r rpk inp hr

/-- **Encrypted file, password mode** (`pass_decrypt`). -/
theorem C09_total_pass_file (P : Prims) (D : AeadDecG) (hK : ∀ pw salt, (P.kdf pw salt).length = 32)
    (hD : Refines D P.aead) (pw inp : Bytes) :
    passDecryptG P D pw inp = .val (passDecrypt P pw inp) :=
  passDecryptG_total P D hK hD pw inp

theorem C09_total_pass_file_concrete (pw inp : Bytes) :
    passDecryptG concretePrims chapolyNoiseDecG pw inp = .val (passDecrypt concretePrims pw inp) :=
  passDecryptG_total concretePrims chapolyNoiseDecG (fun pw salt => Scrypt.Spec.scrypt_32_length pw salt _ _ _)
    chapolyNoiseDecG_refines pw inp

/-- **Encoded public key** (`EncodedPk::try_from` then `decode_public_key`), any string. -/
theorem C09_total_pk (s : Keyring.Str) : decodePkG s = .val (Keyring.decodePk s) := decodePkG_total s

/-- **Encoded (locked) private key** (`EncodedSk::try_from` then `unlock_private_key`), any string, any password. -/
theorem C09_total_sk (s : Keyring.Str) (pw : Bytes) : unlockG s pw = .val (Keyring.unlockPrivateKey s pw) :=
  unlockG_total s pw

/-- **Keyring file** (`Keyring::new` / `parse_config` / `add_key`), any text. -/
theorem C09_total_keyring (text : Keyring.Str) : parseG text = .val (Keyring.parse text) := parseG_total text

/-! ### the site inventory -/

/-- what is claimed about one inventory entry -/
inductive SiteClass where
  /-- a partial operation with these labels in `KestrelModel/Guarded.lean`; covered by the `C09_total_*` theorems -/
  | modelled (labels : List String)
  /-- not modelled: a postcondition of a library primitive or a constant-size array operation, independent of the
      input's content; the string says which -/
  | contract (why : String)
  /-- not on a path that consumes one of C09's input classes (sender side, key generation, command line) -/
  | offPath (why : String)

/-- The inventory, annotated, in the inventory's own order. -/
def classification : List (PanicSite × SiteClass) := [
  (⟨"src/crypto/src/decrypt.rs", "pass_decrypt", "index", "_[..]"⟩,
    .modelled ["pass_decrypt/index/let aad = &pass_magic_num[..]"]),
  (⟨"src/crypto/src/decrypt.rs", "decrypt_chunks", "unwrap", "_.try_into().unwrap()"⟩,
    .modelled ["decrypt_chunks/unwrap/chunk_size.try_into()"]),
  (⟨"src/crypto/src/decrypt.rs", "decrypt_chunks", "index", "_[8..12]"⟩,
    .modelled ["decrypt_chunks/index/chunk_header[8..12]"]),
  (⟨"src/crypto/src/decrypt.rs", "decrypt_chunks", "unwrap", "_[8..12].try_into().unwrap()"⟩,
    .modelled ["decrypt_chunks/unwrap/chunk_header[8..12]"]),
  (⟨"src/crypto/src/decrypt.rs", "decrypt_chunks", "index", "_[12..]"⟩,
    .modelled ["decrypt_chunks/index/chunk_header[12..]"]),
  (⟨"src/crypto/src/decrypt.rs", "decrypt_chunks", "unwrap", "_[12..].try_into().unwrap()"⟩,
    .modelled ["decrypt_chunks/unwrap/chunk_header[12..]"]),
  (⟨"src/crypto/src/decrypt.rs", "decrypt_chunks", "unwrap", "_.try_into().unwrap()"⟩,
    .modelled ["decrypt_chunks/unwrap/ciphertext_length.try_into()"]),
  (⟨"src/crypto/src/decrypt.rs", "decrypt_chunks", "index", "_[.._ + 16]"⟩,
    .modelled ["decrypt_chunks/index/read_exact(&mut buffer[..ct_len + TAG_SIZE])"]),
  (⟨"src/crypto/src/decrypt.rs", "decrypt_chunks", "index", "_[.._]"⟩,
    .modelled ["decrypt_chunks/index/auth_data[..aad_len]"]),
  (⟨"src/crypto/src/decrypt.rs", "decrypt_chunks", "copy_from_slice", "_[.._].copy_from_slice(_)"⟩,
    .modelled ["decrypt_chunks/copy_from_slice/auth_data[..aad_len]"]),
  (⟨"src/crypto/src/decrypt.rs", "decrypt_chunks", "index", "_[_.._ + 4]"⟩,
    .modelled ["decrypt_chunks/index/auth_data[aad_len..aad_len + 4]"]),
  (⟨"src/crypto/src/decrypt.rs", "decrypt_chunks", "copy_from_slice", "_[_.._ + 4].copy_from_slice(&_)"⟩,
    .modelled ["decrypt_chunks/copy_from_slice/auth_data[aad_len..aad_len + 4]"]),
  (⟨"src/crypto/src/decrypt.rs", "decrypt_chunks", "index", "_[_ + 4..]"⟩,
    .modelled ["decrypt_chunks/index/auth_data[aad_len + 4..]"]),
  (⟨"src/crypto/src/decrypt.rs", "decrypt_chunks", "copy_from_slice", "_[_ + 4..].copy_from_slice(&_)"⟩,
    .modelled ["decrypt_chunks/copy_from_slice/auth_data[aad_len + 4..]"]),
  (⟨"src/crypto/src/decrypt.rs", "decrypt_chunks", "index", "_[.._ + 16]"⟩,
    .modelled ["decrypt_chunks/index/let ct = &buffer[..ct_len + TAG_SIZE]"]),
  (⟨"src/crypto/src/lib.rs", "new", "expect", "_.try_into().expect(_)"⟩,
    .modelled ["new/expect/Keys must be 32 bytes"]),
  (⟨"src/crypto/src/lib.rs", "to_public", "unwrap", "PublicKey::try_from(_.as_slice()).unwrap()"⟩,
    .offPath "sender / key-generation side only (PrivateKey::to_public); x25519_derive_public returns 32 bytes"),
  (⟨"src/crypto/src/lib.rs", "x25519", "expect", "_.try_into().expect(_)"⟩,
    .modelled ["x25519/expect/Private key must be 32 bytes"]),
  (⟨"src/crypto/src/lib.rs", "x25519", "expect", "_.try_into().expect(_)"⟩,
    .modelled ["x25519/expect/Public key must be 32 bytes"]),
  (⟨"src/crypto/src/lib.rs", "x25519", "unwrap", "orion_x25519::PrivateKey::from_slice(&_).unwrap()"⟩,
    .contract "library postcondition: orion PrivateKey::from_slice on a [u8; 32] (the array type fixes the length) cannot fail"),
  (⟨"src/crypto/src/lib.rs", "x25519", "unwrap", "orion_x25519::PublicKey::from_slice(&_).unwrap()"⟩,
    .contract "library postcondition: orion PublicKey::from_slice on a [u8; 32] cannot fail"),
  (⟨"src/crypto/src/lib.rs", "x25519_derive_public", "unwrap", "orion_x25519::PrivateKey::from_slice(_).unwrap()"⟩,
    .offPath "sender / key-generation side only; the argument is the 32 bytes of a PrivateKey value"),
  (⟨"src/crypto/src/lib.rs", "noise_decrypt", "expect", "_.get_pubkey().expect(_)"⟩,
    .modelled ["noise_decrypt/expect/Expected to get the sender's public key"]),
  (⟨"src/crypto/src/lib.rs", "chapoly_decrypt_noise", "assert", "assert_eq!(_.len(),32)"⟩,
    .modelled ["chapoly_decrypt_noise/assert/assert_eq!(key.len(), 32)"]),
  (⟨"src/crypto/src/lib.rs", "chapoly_decrypt_noise", "index", "_[4..]"⟩,
    .modelled ["chapoly_decrypt_noise/index/final_nonce_bytes[4..]"]),
  (⟨"src/crypto/src/lib.rs", "chapoly_decrypt_noise", "copy_from_slice", "_[4..].copy_from_slice(&_)"⟩,
    .modelled ["chapoly_decrypt_noise/copy_from_slice/final_nonce_bytes[4..]"]),
  (⟨"src/crypto/src/lib.rs", "chapoly_decrypt_ietf", "expect", "chapoly::Nonce::from_slice(_).expect(_)"⟩,
    .modelled ["chapoly_decrypt_ietf/expect/Nonce::from_slice(nonce)"]),
  (⟨"src/crypto/src/lib.rs", "chapoly_decrypt_ietf", "expect", "chapoly::SecretKey::from_slice(_).expect(_)"⟩,
    .modelled ["chapoly_decrypt_ietf/expect/SecretKey::from_slice(key)"]),
  (⟨"src/crypto/src/lib.rs", "chapoly_decrypt_ietf", "sub", "_.len() - 16"⟩,
    .modelled ["chapoly_decrypt_ietf/sub/ciphertext.len() - TAG_SIZE"]),
  (⟨"src/crypto/src/lib.rs", "sha256", "unwrap", "Sha256::digest(_).unwrap()"⟩,
    .contract "library postcondition: orion Sha256::digest returns Ok for every input"),
  (⟨"src/crypto/src/lib.rs", "hmac_sha256", "unwrap", "hmac::SecretKey::from_slice(_).unwrap()"⟩,
    .contract "library postcondition: hmac::SecretKey::from_slice accepts a key of any length"),
  (⟨"src/crypto/src/lib.rs", "hmac_sha256", "unwrap", "hmac::HmacSha256::hmac(&_,_).unwrap()"⟩,
    .contract "library postcondition: HmacSha256::hmac returns Ok for every input"),
  (⟨"src/crypto/src/lib.rs", "hkdf_noise", "index", "_[..32]"⟩,
    .contract "constant range 0..32 of the fixed-size array [u8; 33]"),
  (⟨"src/crypto/src/lib.rs", "hkdf_noise", "copy_from_slice", "_[..32].copy_from_slice(&_)"⟩,
    .contract "output1 is an HMAC-SHA-256 output, 32 bytes (model: hmacSha256_length / Prims.Lawful.hkdf2_len); independent of the input's content"),
  (⟨"src/crypto/src/lib.rs", "hkdf_noise", "index", "_[32..]"⟩,
    .contract "constant range 32.. of the fixed-size array [u8; 33]"),
  (⟨"src/crypto/src/lib.rs", "hkdf_noise", "copy_from_slice", "_[32..].copy_from_slice(&[0x02])"⟩,
    .contract "both sides have the constant length 1"),
  (⟨"src/crypto/src/lib.rs", "hkdf_sha256", "unwrap", "hkdf::derive_key(_,_,Some(_),_.as_mut_slice()).unwrap()"⟩,
    .contract "library postcondition: hkdf::derive_key fails only for an output length of 0 or above 255*32; every call passes 32"),
  (⟨"src/crypto/src/noise.rs", "set_nonce", "assert", "assert!(_ < u64::MAX)"⟩,
    .modelled ["set_nonce/assert/assert!(nonce < u64::MAX)"]),
  (⟨"src/crypto/src/noise.rs", "decrypt_with_ad", "expect", "self.key.as_ref().expect(_)"⟩,
    .modelled ["decrypt_with_ad/expect/X pattern must have a key initialized"]),
  (⟨"src/crypto/src/noise.rs", "new", "index", "_[.._.len()]"⟩,
    .modelled ["new/index/hash_output[..protocol_name.len()]"]),
  (⟨"src/crypto/src/noise.rs", "new", "copy_from_slice", "_[.._.len()].copy_from_slice(_)"⟩,
    .modelled ["new/copy_from_slice/hash_output[..protocol_name.len()]"]),
  (⟨"src/crypto/src/noise.rs", "new", "unwrap", "sha256(_).try_into().unwrap()"⟩,
    .modelled ["new/unwrap/sha256(protocol_name).try_into()"]),
  (⟨"src/crypto/src/noise.rs", "mix_hash", "unwrap", "sha256(_.as_slice()).try_into().unwrap()"⟩,
    .modelled ["mix_hash/unwrap/sha256(h.as_slice()).try_into()"]),
  (⟨"src/crypto/src/noise.rs", "init_x", "unwrap", "_.unwrap()"⟩,
    .modelled ["init_x/unwrap/let epriv = e.unwrap()"]),
  (⟨"src/crypto/src/noise.rs", "init_x", "unwrap", "_.unwrap()"⟩,
    .modelled ["init_x/unwrap/let epub = epk.unwrap()"]),
  (⟨"src/crypto/src/noise.rs", "init_x", "assert", "assert!(_.is_some())"⟩,
    .modelled ["init_x/assert/assert!(rs.is_some())"]),
  (⟨"src/crypto/src/noise.rs", "init_x", "unwrap", "_.as_ref().unwrap()"⟩,
    .modelled ["init_x/unwrap/rs.as_ref().unwrap()"]),
  (⟨"src/crypto/src/noise.rs", "read_message", "expect", "self.message_patterns.pop_front().expect(_)"⟩,
    .modelled ["read_message/expect/X pattern consists of a single message"]),
  (⟨"src/crypto/src/noise.rs", "read_message", "index", "_[_..(_ + 32)]"⟩,
    .modelled ["read_message/index/&message[msgidx..(msgidx + DH_LEN)]"]),
  (⟨"src/crypto/src/noise.rs", "read_message", "index", "_[_.._ + _]"⟩,
    .modelled ["read_message/index/&message[msgidx..msgidx + index_len]"]),
  (⟨"src/crypto/src/noise.rs", "read_message", "panic", "unimplemented!(\"_\")"⟩,
    .modelled ["read_message/panic/EE not used in the X pattern"]),
  (⟨"src/crypto/src/noise.rs", "read_message", "unwrap", "self.s.as_ref().unwrap()"⟩,
    .modelled ["read_message/unwrap/let s = self.s.as_ref().unwrap()"]),
  (⟨"src/crypto/src/noise.rs", "read_message", "unwrap", "self.re.as_ref().unwrap()"⟩,
    .modelled ["read_message/unwrap/let re = self.re.as_ref().unwrap()"]),
  (⟨"src/crypto/src/noise.rs", "read_message", "panic", "unimplemented!(\"_\")"⟩,
    .modelled ["read_message/panic/SE not used in the X pattern"]),
  (⟨"src/crypto/src/noise.rs", "read_message", "unwrap", "self.s.as_ref().unwrap()"⟩,
    .modelled ["read_message/unwrap/let s = self.s.as_ref().unwrap()"]),
  (⟨"src/crypto/src/noise.rs", "read_message", "unwrap", "self.rs.as_ref().unwrap()"⟩,
    .modelled ["read_message/unwrap/let rs = self.rs.as_ref().unwrap()"]),
  (⟨"src/crypto/src/noise.rs", "read_message", "index", "_[_..]"⟩,
    .modelled ["read_message/index/decrypt_and_hash(&message[msgidx..])"]),
  (⟨"src/cli/src/keyring.rs", "as_bytes", "expect", "Base64::decode_to_vec(&self.0,None).expect(_)"⟩,
    .modelled ["as_bytes/expect/Invalid format for encoded Private Key"]),
  (⟨"src/cli/src/keyring.rs", "lock_private_key", "expect", "Base64::encode_to_string(&_).expect(_)"⟩,
    .offPath "lock_private_key: sender / key-generation side only (locks the user's own PrivateKey); library postcondition (Base64 encoding of 84 bytes); no untrusted input"),
  (⟨"src/cli/src/keyring.rs", "unlock_private_key", "index", "_[..4]"⟩,
    .modelled ["unlock_private_key/index/let version_aad = &key_bytes[..4]"]),
  (⟨"src/cli/src/keyring.rs", "unlock_private_key", "index", "_[4..36]"⟩,
    .modelled ["unlock_private_key/index/let salt = &key_bytes[4..36]"]),
  (⟨"src/cli/src/keyring.rs", "unlock_private_key", "index", "_[36..84]"⟩,
    .modelled ["unlock_private_key/index/let ciphertext = &key_bytes[36..84]"]),
  (⟨"src/cli/src/keyring.rs", "unlock_private_key", "expect", "PrivateKey::try_from(_.as_slice()).expect(_)"⟩,
    .modelled ["unlock_private_key/expect/Invalid private key length"]),
  (⟨"src/cli/src/keyring.rs", "encode_public_key", "index", "_[..32]"⟩,
    .offPath "encode_public_key: encodes a PublicKey value (32 bytes by type); no untrusted input"),
  (⟨"src/cli/src/keyring.rs", "encode_public_key", "copy_from_slice", "_[..32].copy_from_slice(_)"⟩,
    .offPath "encode_public_key: as above"),
  (⟨"src/cli/src/keyring.rs", "encode_public_key", "index", "_[32..]"⟩,
    .offPath "encode_public_key: as above; sha256 output has 32 >= 4 bytes"),
  (⟨"src/cli/src/keyring.rs", "encode_public_key", "copy_from_slice", "_[32..].copy_from_slice(&_[..4])"⟩,
    .offPath "encode_public_key: as above"),
  (⟨"src/cli/src/keyring.rs", "encode_public_key", "index", "_[..4]"⟩,
    .offPath "encode_public_key: as above"),
  (⟨"src/cli/src/keyring.rs", "encode_public_key", "expect", "Base64::encode_to_string(&_).expect(_)"⟩,
    .offPath "encode_public_key: library postcondition (Base64 encoding of 36 bytes)"),
  (⟨"src/cli/src/keyring.rs", "decode_public_key", "expect", "Base64::decode_to_vec(_.as_str(),None).expect(_)"⟩,
    .modelled ["decode_public_key/expect/Public key decode failed"]),
  (⟨"src/cli/src/keyring.rs", "decode_public_key", "index", "_[..32]"⟩,
    .modelled ["decode_public_key/index/let pk = &enc_pk_bytes[..32]"]),
  (⟨"src/cli/src/keyring.rs", "decode_public_key", "index", "_[32..]"⟩,
    .modelled ["decode_public_key/index/let checksum = &enc_pk_bytes[32..]"]),
  (⟨"src/cli/src/keyring.rs", "decode_public_key", "index", "_[..4]"⟩,
    .modelled ["decode_public_key/index/&exp_checksum[..4]"]),
  (⟨"src/cli/src/keyring.rs", "decode_public_key", "expect", "PublicKey::try_from(_).expect(_)"⟩,
    .modelled ["decode_public_key/expect/Invalid public key length"]),
  (⟨"src/cli/src/keyring.rs", "add_key", "unwrap", "_.unwrap()"⟩,
    .modelled ["add_key/unwrap/if &k.name == key_name.unwrap()"]),
  (⟨"src/cli/src/keyring.rs", "add_key", "unwrap", "_.unwrap()"⟩,
    .modelled ["add_key/unwrap/if k.public_key.as_str() == key_public.unwrap().as_str()"]),
  (⟨"src/cli/src/keyring.rs", "add_key", "unwrap", "_.unwrap()"⟩,
    .modelled ["add_key/unwrap/name: key_name.unwrap().clone()"]),
  (⟨"src/cli/src/keyring.rs", "add_key", "unwrap", "_.unwrap()"⟩,
    .modelled ["add_key/unwrap/public_key: key_public.unwrap().clone()"]),
  (⟨"src/cli/src/main.rs", "slice_args", "index", "_[_..]"⟩,
    .offPath "command-line argument vector: not one of C09's input classes"),
  (⟨"src/cli/src/main.rs", "parse_encrypt", "unwrap", "_.opt_str(\"t\").unwrap()"⟩,
    .offPath "command-line options: not one of C09's input classes"),
  (⟨"src/cli/src/main.rs", "parse_encrypt", "unwrap", "_.opt_str(\"f\").unwrap()"⟩,
    .offPath "command-line options: not one of C09's input classes"),
  (⟨"src/cli/src/main.rs", "parse_decrypt", "unwrap", "_.opt_str(\"t\").unwrap()"⟩,
    .offPath "command-line options: not one of C09's input classes"),
  (⟨"src/crypto/src/noise.rs", "encrypt_with_ad", "expect", "self.key.as_ref().expect(_)"⟩,
    .offPath "sender side only (write_message): the cipher state has a key after the first mix_key; not reachable from an input class of C09"),
  (⟨"src/crypto/src/noise.rs", "rekey", "panic", "unimplemented!(\"_\")"⟩,
    .offPath "dead code (#[allow(dead_code)]): never called"),
  (⟨"src/crypto/src/noise.rs", "mix_key_and_hash", "panic", "unimplemented!(\"_\")"⟩,
    .offPath "dead code (#[allow(dead_code)]): never called"),
  (⟨"src/crypto/src/noise.rs", "write_message", "expect", "self.message_patterns.pop_front().expect(_)"⟩,
    .offPath "sender side only (write_message builds a message from the caller's own keys): not reachable from an input class of C09"),
  (⟨"src/crypto/src/noise.rs", "write_message", "unwrap", "self.e.as_ref().unwrap()"⟩,
    .offPath "sender side only (write_message builds a message from the caller's own keys): not reachable from an input class of C09"),
  (⟨"src/crypto/src/noise.rs", "write_message", "unwrap", "self.s.as_ref().unwrap()"⟩,
    .offPath "sender side only (write_message builds a message from the caller's own keys): not reachable from an input class of C09"),
  (⟨"src/crypto/src/noise.rs", "write_message", "panic", "unimplemented!(\"_\")"⟩,
    .offPath "sender side only (write_message builds a message from the caller's own keys): not reachable from an input class of C09"),
  (⟨"src/crypto/src/noise.rs", "write_message", "unwrap", "self.e.as_ref().unwrap()"⟩,
    .offPath "sender side only (write_message builds a message from the caller's own keys): not reachable from an input class of C09"),
  (⟨"src/crypto/src/noise.rs", "write_message", "unwrap", "self.rs.as_ref().unwrap()"⟩,
    .offPath "sender side only (write_message builds a message from the caller's own keys): not reachable from an input class of C09"),
  (⟨"src/crypto/src/noise.rs", "write_message", "panic", "unimplemented!(\"_\")"⟩,
    .offPath "sender side only (write_message builds a message from the caller's own keys): not reachable from an input class of C09"),
  (⟨"src/crypto/src/noise.rs", "write_message", "unwrap", "self.s.as_ref().unwrap()"⟩,
    .offPath "sender side only (write_message builds a message from the caller's own keys): not reachable from an input class of C09"),
  (⟨"src/crypto/src/noise.rs", "write_message", "unwrap", "self.rs.as_ref().unwrap()"⟩,
    .offPath "sender side only (write_message builds a message from the caller's own keys): not reachable from an input class of C09")]

/-- (fn name, site label) for every modelled site -/
def modelledSites : List (String × String) :=
  classification.flatMap fun
    | (s, .modelled labels) => labels.map fun l => (s.fn, l)
    | _ => []

/-- (site, justification) for every site that is a library / constant-size contract -/
def contractSites : List (PanicSite × String) :=
  classification.filterMap fun
    | (s, .contract why) => some (s, why)
    | _ => none

def offPathSites : List (PanicSite × String) :=
  classification.filterMap fun
    | (s, .offPath why) => some (s, why)
    | _ => none

/-- multiset inclusion: every element of the first list can be matched with its own occurrence in the second -/
def subMultiset : List PanicSite → List PanicSite → Bool
  | [], _ => true
  | s :: rest, l => l.contains s && subMultiset rest (l.erase s)

set_option maxRecDepth 100000 in
/-- **Every entry of the translator's inventory is classified.**  An inventory entry is (file, fn, kind, normalised
    panic-capable expression): named integer constants are resolved and local variable names anonymised by the translator,
    so renaming a local, naming a literal or rewording the surrounding statement changes nothing, while a NEW
    panic-capable expression — or one more occurrence of an existing one in the same function — is not matched by the
    annotated list and this stops checking until the new site is modelled or justified here.  Removing a site (an
    `unwrap` replaced by `?`) keeps the inclusion. -/
theorem C09_sites_covered : subMultiset panicSites (classification.map (·.1)) = true := by decide

theorem C09_site_counts : modelledSites.length = 59 ∧ contractSites.length = 10 ∧ offPathSites.length = 25 ∧
    classification.length = 94 := by decide

/-! ### non-vacuity 1: the hypotheses are satisfiable (concrete and toy instances), and `.val` is not always an error -/

def toyDecG : AeadDecG := fun k n ad c => .val (toyPrims.aead.dec k n ad c)

theorem toyDecG_refines : Refines toyDecG toyPrims.aead := fun _ _ _ _ _ => rfl

theorem toyPrims_hash_len32 : ∀ m, (toyPrims.hash m).length = 32 := by
  intro m; simp [toyPrims, zeros]

theorem toyPrims_kdf_len32 : ∀ pw salt, (toyPrims.kdf pw salt).length = 32 := by
  intro pw salt; simp [toyPrims, zeros]; omega

example := C09_total_aead (zeros 32) (zeros 12) [7] [1, 2, 3] rfl rfl
example := C09_total_aead_noise (zeros 32) 5 [7] [1, 2, 3] rfl
example := C09_total_noise toyPrims toyDecG toyPrims_lawful toyPrims_hash_len32 toyDecG_refines [1] (zeros 32) (zeros 32) [1, 2, 3] rfl
example := C09_total_noise_concrete [1] (zeros 32) (zeros 32) [1, 2, 3] rfl
example := C09_total_chunks toyPrims.aead toyDecG (zeros 32) [] 65536 (by decide) (fun _ _ _ => rfl) [1, 2, 3]
example := C09_total_chunks_concrete (zeros 32) [] 65536 rfl (by decide) [1, 2, 3]
example := C09_total_key_file toyPrims toyDecG toyPrims_lawful toyPrims_hash_len32 toyDecG_refines (zeros 32) (zeros 32) [1, 2, 3] rfl
example := C09_total_key_file_concrete (zeros 32) (zeros 32) [1, 2, 3] rfl
example := C09_total_pass_file toyPrims toyDecG toyPrims_kdf_len32 toyDecG_refines [1] [1, 2, 3]

/-- the guarded `key_decrypt` on a genuine two-chunk file: a value, and it is the successful one -/
example : ∃ ct writes, keyDecryptG toyPrims toyDecG (List.replicate 32 1) (List.replicate 32 1) ct
      = .val (writes, Res.ok, some (zeros 32)) ∧ writes.flatten = exampleReads.flatten := by
  obtain ⟨ct, _, ⟨writes, hdec, hw⟩, _⟩ :=
    C01_roundtrip toyPrims toyPrims_lawful (zeros 32) (zeros 32) (List.replicate 32 1) (List.replicate 32 1)
      (List.replicate 32 2) (List.replicate 32 2) (List.replicate 32 7) exampleReads
      (List.length_replicate ..) (List.length_replicate ..) (List.length_replicate ..)
      (toy_dhAgree _ _ _) exampleReads_wf exampleReads_le
  refine ⟨ct, writes, ?_, hw⟩
  rw [C09_total_key_file toyPrims toyDecG toyPrims_lawful toyPrims_hash_len32 toyDecG_refines _ _ _ (List.length_replicate ..), hdec]

/-! ### non-vacuity 2: the partial operations do produce `crash` — remove a guard, or break a contract, and they fire -/

example : sliceTo "s" [1, 2] 3 = .crash "s" := rfl
example : sliceFrom "s" [1, 2] 3 = .crash "s" := rfl
example : slice "s" [1, 2, 3] 2 1 = .crash "s" := rfl
example : slice "s" [1, 2, 3] 1 4 = .crash "s" := rfl
example : toArray "s" [1, 2, 3] 4 = .crash "s" := rfl
example : copyFromSlice "s" 4 [1, 2, 3] = .crash "s" := rfl
example : subUsize "s" 15 16 = .crash "s" := rfl
example : expectSome "s" (none : Option Nat) = .crash "s" := rfl
example : assertThat "s" false = .crash "s" := rfl
example : slice "s" [1, 2, 3] 1 3 = .val [2, 3] := rfl

/-- `decLoopG` with the `if ciphertext_length > chunk_size { return Err(ChunkLen) }` guard deleted -/
def decLoopG_noChunkLen (D : AeadDecG) (key aad : Bytes) (cs : Nat) :
    Nat → Nat → Bytes → Bytes → Bytes → Outcome (List Bytes × Res)
  | 0, _, _, _, _ => .val ([], .ioRead)
  | fuel+1, ctr, buf, _adBuf, inp =>
    if inp.length < 16 then .val ([], .ioRead) else do
    let hdr := inp.take 16
    let rest := inp.drop 16
    let s1 ← slice "decrypt_chunks/index/chunk_header[8..12]" hdr decHdrLast.1 decHdrLast.2
    let lastB ← toArray "decrypt_chunks/unwrap/chunk_header[8..12]" s1 4
    let s2 ← sliceFrom "decrypt_chunks/index/chunk_header[12..]" hdr decHdrLen.1
    let lenB ← toArray "decrypt_chunks/unwrap/chunk_header[12..]" s2 4
    let last := beVal lastB
    let len := beVal lenB
    -- (guard deleted here)
    let ctLen ← tryIntoUsize "decrypt_chunks/unwrap/ciphertext_length.try_into()" len
    let dst ← sliceTo "decrypt_chunks/index/read_exact(&mut buffer[..ct_len + TAG_SIZE])" buf (ctLen + tagSize)
    if rest.length < dst.length then .val ([], .ioRead) else do
    let buf' := rest.take dst.length ++ buf.drop dst.length
    let rest' := rest.drop dst.length
    let adBuf' := aad ++ lastB ++ lenB
    let ct ← sliceTo "decrypt_chunks/index/let ct = &buffer[..ct_len + TAG_SIZE]" buf' (ctLen + tagSize)
    let r ← D key ctr adBuf' ct
    match r with
    | none => .val ([], .auth)
    | some pt =>
      if last == lastFlagValue then
        if rest'.length ≠ 0 then .val ([], .unexpectedData) else .val ([pt], .ok)
      else do
        let (ws, res) ← decLoopG_noChunkLen D key aad cs fuel (ctr+1) buf' adBuf' rest'
        .val (pt :: ws, res)

/-- a 16-byte header announcing 5 > chunk_size = 4 bytes: without the guard the buffer slice panics … -/
example : ∃ inp, decLoopG_noChunkLen toyDecG (zeros 32) [] 4 1 0 (zeros 20) (zeros 8) inp
    = .crash "decrypt_chunks/index/read_exact(&mut buffer[..ct_len + TAG_SIZE])" :=
  ⟨zeros 15 ++ [5], rfl⟩

/-- … with the guard the same input is the ChunkLen error -/
example : decLoopG toyDecG (zeros 32) [] 4 1 0 (zeros 20) (zeros 8) (zeros 15 ++ [5]) = .val ([], .chunkLen) := rfl

/-- `chapoly_decrypt_ietf` before the D2 repair (no `len < TAG_SIZE` check): a 15-byte ciphertext panics -/
def aeadOpenG_noTagCheck (key nonce ad c : Bytes) : Outcome (Option Bytes) := do
  assertThat "chapoly_decrypt_ietf/expect/Nonce::from_slice(nonce)" (nonce.length == 12)
  assertThat "chapoly_decrypt_ietf/expect/SecretKey::from_slice(key)" (key.length == 32)
  let _ptSize ← subUsize "chapoly_decrypt_ietf/sub/ciphertext.len() - TAG_SIZE" c.length tagSize
  .val (aeadOpen key nonce ad c)

example : aeadOpenG_noTagCheck (zeros 32) (zeros 12) [] (zeros 15)
    = .crash "chapoly_decrypt_ietf/sub/ciphertext.len() - TAG_SIZE" := rfl
example : aeadOpenG (zeros 32) (zeros 12) [] (zeros 15) = .val none := rfl

/-- `read_message` without its length check (the D3 defect): a short message panics at the first slice -/
def readMessageG_noLenCheck (P : Prims) (D : AeadDecG) (hs : HS) (msg : Bytes) : Outcome (Except Noise.Err (HS × Nat)) := do
  let pat ← expectSome "read_message/expect/X pattern consists of a single message" hs.patterns.head?
  readTokensG P D msg pat { hs with patterns := hs.patterns.tail } 0

example : readMessageG_noLenCheck toyPrims toyDecG (hs0 toyPrims [] (zeros 32) (zeros 32)) (zeros 31)
    = .crash "read_message/index/&message[msgidx..(msgidx + DH_LEN)]" := rfl

/-- a token outside the X pattern reaches its `unimplemented!` arm: the arms are modelled, and unreachable only
    because `Generated.tokenPattern = [E, ES, S, SS]` -/
example : readTokensG toyPrims toyDecG (zeros 96) [.EE] (hs0 toyPrims [] (zeros 32) (zeros 32)) 0
    = .crash "read_message/panic/EE not used in the X pattern" := rfl

/-- a second `read_message` on the same state: `pop_front().expect` fires (single-message contract) -/
example : ∃ s, readMessageG toyPrims toyDecG { hs0 toyPrims [] (zeros 32) (zeros 32) with patterns := [] } (zeros 96)
    = .crash s := ⟨_, rfl⟩

/-- contract violations do crash: a 31-byte key, a 31-byte recipient private key -/
example : chapolyNoiseDecG (zeros 31) 0 [] (zeros 16) = .crash "chapoly_decrypt_noise/assert/assert_eq!(key.len(), 32)" := rfl
example : dhG toyPrims (zeros 31) (zeros 32) = .crash "x25519/expect/Private key must be 32 bytes" := rfl

/-- `decode_public_key` / `unlock_private_key` on strings that did *not* pass `EncodedPk/EncodedSk::try_from` -/
example : decodePublicKeyG ['!'] = .crash "decode_public_key/expect/Public key decode failed" := rfl
example : unlockPrivateKeyG ['!'] [] = .crash "as_bytes/expect/Invalid format for encoded Private Key" := rfl
example : decodePkG ['!'] = .val (.error .pkFormat) := rfl

/-- `add_key`'s loop without the three `is_none` checks in front of it -/
example : addKeyLoopG none (some []) [⟨[], [], none⟩] = .crash "add_key/unwrap/if &k.name == key_name.unwrap()" := rfl
example : addKeyG { keys := [⟨[], [], none⟩] } = .val none := rfl

end Kestrel
