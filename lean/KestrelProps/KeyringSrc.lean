/-
  KeyringSrc — the code of `src/cli/src/keyring.rs`, *as translated mechanically* by tools/rs2lean_keyring.py into
  `Kestrel.KeyringSrc` (KestrelModel/GeneratedKeyring.lean, regenerated from the Rust source on every run), equals the
  hand-written model `Kestrel.Keyring` (KestrelModel/Keyring.lean) that the properties C14, C15, C16, C17, C17pk and
  C09guarded are about — for EVERY input text.

  Nothing here is tied to the Rust text by hand: if keyring.rs changes, the generated definitions change and these
  theorems are re-checked against what the code says now.  Trusted: the translator, the glue files
  KestrelModel/RsStr.lean / RsPrelude.lean (meaning of the Rust library calls and of early exits), and the hand-written
  string / base64 / crypto definitions both sides share (`Keyring.lines`, `trim`, `utf8`, `B64`, `sha256`, `aeadSeal/Open`,
  `Scrypt.Spec.scrypt`).

  Names: a function `f` of `impl T` is `KeyringSrc.T.f` (so `Keyring::new` is `KeyringSrc.Keyring.new`).
  Views (KestrelProofs/KeyringSrc.lean): `viewKey : KeyringSrc.Key → Keyring.Key` (`⟨name, public_key.0, private_key.map .0⟩`),
  `viewKeys kr = kr.keys.map viewKey`.  Errors: the generated `KeyringError` has one constant constructor per constructor
  named in the source; the message text is not modelled.
  Hypotheses: the required theorems have none.  The stretch theorems about `PublicKey` / `PrivateKey` values assume the
  invariant of those types (32 bytes: their only constructor is `try_from`, which checks it), stated at each theorem.
-/
import KestrelProofs.KeyringSrc
import KestrelProps.C17
import KestrelProps.C15
namespace Kestrel
open KeyringSrc KR

/-! ## required -/

/-- **parse (1).** For every text, the keys accepted by the translated `Keyring::new` are exactly those of the model. -/
theorem keyring_source_parse (text : Keyring.Str) :
    (KeyringSrc.Keyring.new text).toOption.map viewKeys = Keyring.parse text := by
  have h := new_sim text
  cases hp : Keyring.parse text with
  | none => rw [hp] at h; rw [h]; rfl
  | some ks => rw [hp] at h; obtain ⟨kr, e, hk⟩ := h; rw [e]; exact congrArg some hk

example : (KeyringSrc.Keyring.new exampleText).toOption.map viewKeys =
    some [⟨"alice".toList, alicePk, some aliceSk⟩, ⟨"Bobby Bobertson".toList, bobPk, some aliceSk⟩] :=
  (keyring_source_parse exampleText).trans exampleText_parses

/-- **parse (2).** The translated `Keyring::new` fails exactly when the model rejects, and then with the class
    `ParseConfig` (it never fails with another class). -/
theorem keyring_source_parse_error (text : Keyring.Str) :
    ((∃ e, KeyringSrc.Keyring.new text = .error e) ↔ Keyring.parse text = none) ∧
    (∀ e, KeyringSrc.Keyring.new text = .error e → e = .ParseConfig) := by
  have h := new_sim text
  cases hp : Keyring.parse text with
  | none =>
    rw [hp] at h
    exact ⟨⟨fun _ => rfl, fun _ => ⟨_, h⟩⟩, fun e he => (by rw [h] at he; cases he; rfl)⟩
  | some ks =>
    rw [hp] at h; obtain ⟨kr, e, _⟩ := h
    exact ⟨⟨fun ⟨e', he'⟩ => (by rw [e] at he'; cases he'), fun hn => (by cases hn)⟩, fun e' he' => (by rw [e] at he'; cases he')⟩

example : KeyringSrc.Keyring.new "junk".toList = .error .ParseConfig := by
  obtain ⟨e, he⟩ := (keyring_source_parse_error "junk".toList).1.mpr (by decide)
  rw [he, (keyring_source_parse_error "junk".toList).2 e he]

/-- **valid_key_name.** -/
theorem keyring_source_valid_key_name (s : Keyring.Str) :
    KeyringSrc.Keyring.valid_key_name s = Keyring.validKeyName s :=
  valid_key_name_eq s

example : KeyringSrc.Keyring.valid_key_name "Bobby Bobertson".toList = true ∧
    KeyringSrc.Keyring.valid_key_name "a\tb".toList = false := by
  rw [keyring_source_valid_key_name, keyring_source_valid_key_name]; decide

/-- **get_key.** -/
theorem keyring_source_get_key (kr : KeyringSrc.Keyring) (name : Keyring.Str) :
    (KeyringSrc.Keyring.get_key kr name).map viewKey = Keyring.getKey (viewKeys kr) name :=
  get_key_eq kr name

example : (KeyringSrc.Keyring.get_key ⟨[⟨"a".toList, ⟨alicePk⟩, none⟩, ⟨"b".toList, ⟨bobPk⟩, none⟩]⟩ "b".toList).map viewKey =
    some ⟨"b".toList, bobPk, none⟩ := by
  rw [keyring_source_get_key]; decide

/-- **get_name_from_key.** -/
theorem keyring_source_get_name_from_key (kr : KeyringSrc.Keyring) (pk : KeyringSrc.EncodedPk) :
    KeyringSrc.Keyring.get_name_from_key kr pk = Keyring.getNameFromKey (viewKeys kr) pk._0 :=
  get_name_from_key_eq kr pk

example : KeyringSrc.Keyring.get_name_from_key ⟨[⟨"a".toList, ⟨alicePk⟩, none⟩, ⟨"b".toList, ⟨bobPk⟩, none⟩]⟩ ⟨bobPk⟩ =
    some "b".toList := by
  rw [keyring_source_get_name_from_key]; decide

/-- **EncodedPk::try_from.** Accepts exactly the strings satisfying `encodedPkOk`, and then wraps the string itself. -/
theorem keyring_source_encoded_pk_try_from (s : Keyring.Str) :
    ((∃ e, KeyringSrc.EncodedPk.try_from s = .ok e) ↔ Keyring.encodedPkOk s = true) ∧
    (∀ e, KeyringSrc.EncodedPk.try_from s = .ok e → e = ⟨s⟩) := by
  have h := pk_try_from_map_err s ()
  cases ht : KeyringSrc.EncodedPk.try_from s with
  | ok e =>
    rw [ht] at h
    by_cases hk : Keyring.encodedPkOk s = true
    · rw [if_pos hk] at h; cases h
      exact ⟨⟨fun _ => hk, fun _ => ⟨_, rfl⟩⟩, fun e he => (by cases he; rfl)⟩
    · rw [if_neg hk] at h; cases h
  | error m =>
    rw [ht] at h
    by_cases hk : Keyring.encodedPkOk s = true
    · rw [if_pos hk] at h; cases h
    · exact ⟨⟨fun ⟨_, he⟩ => (by cases he), fun hk' => absurd hk' hk⟩, fun e he => (by cases he)⟩

example : KeyringSrc.EncodedPk.try_from alicePk = .ok ⟨alicePk⟩ := by
  obtain ⟨e, he⟩ := (keyring_source_encoded_pk_try_from alicePk).1.mpr alicePk_ok
  rw [he, (keyring_source_encoded_pk_try_from alicePk).2 e he]

/-- **EncodedSk::try_from.** -/
theorem keyring_source_encoded_sk_try_from (s : Keyring.Str) :
    ((∃ e, KeyringSrc.EncodedSk.try_from s = .ok e) ↔ Keyring.encodedSkOk s = true) ∧
    (∀ e, KeyringSrc.EncodedSk.try_from s = .ok e → e = ⟨s⟩) := by
  have h := sk_try_from_map_err s ()
  cases ht : KeyringSrc.EncodedSk.try_from s with
  | ok e =>
    rw [ht] at h
    by_cases hk : Keyring.encodedSkOk s = true
    · rw [if_pos hk] at h; cases h
      exact ⟨⟨fun _ => hk, fun _ => ⟨_, rfl⟩⟩, fun e he => (by cases he; rfl)⟩
    · rw [if_neg hk] at h; cases h
  | error m =>
    rw [ht] at h
    by_cases hk : Keyring.encodedSkOk s = true
    · rw [if_pos hk] at h; cases h
    · exact ⟨⟨fun ⟨_, he⟩ => (by cases he), fun hk' => absurd hk' hk⟩, fun e he => (by cases he)⟩

example : KeyringSrc.EncodedSk.try_from aliceSk = .ok ⟨aliceSk⟩ := by
  obtain ⟨e, he⟩ := (keyring_source_encoded_sk_try_from aliceSk).1.mpr aliceSk_ok
  rw [he, (keyring_source_encoded_sk_try_from aliceSk).2 e he]

/-- **add_key**, and with it the unreachability of its four `unwrap`s: the translated function equals this
    `unwrap`-free expression (it returns before the loop unless both options are `Some`). -/
theorem keyring_source_add_key (keys : List KeyringSrc.Key) (n : Option Keyring.Str) (p : Option KeyringSrc.EncodedPk)
    (s : Option KeyringSrc.EncodedSk) :
    KeyringSrc.Keyring.add_key keys n p s =
      match n, p with
      | some n', some p' =>
        if keys.any (fun k => k.name == n' || k.public_key._0 == p'._0) then (keys, .error .ParseConfig)
        else (keys ++ [⟨n', p', s⟩], .ok ())
      | _, _ => (keys, .error .ParseConfig) :=
  add_key_eq keys n p s

example : KeyringSrc.Keyring.add_key [] (some "a".toList) (some ⟨alicePk⟩) none = ([⟨"a".toList, ⟨alicePk⟩, none⟩], .ok ()) := by
  rw [keyring_source_add_key]; rfl

/-- **API inventory.**  The functions of keyring.rs that the rest of the crate can call (`pub` / `pub(crate)`; the translator
    lists them, sorted, as `KeyringSrc.pubFns`) are exactly: the three accessors (`as_str`, `as_bytes`: `@[simp]` one-liners
    every proof sees through) and the functions the theorems of this file are about (`EncodedPk::try_from` /
    `EncodedSk::try_from` are trait methods, `parse_config` / `add_key` and helpers are private).  A function ADDED to this
    interface has no theorem yet; this one fails until the function is listed here (and, if it matters, covered). -/
theorem keyring_source_api : KeyringSrc.pubFns =
    ["EncodedPk.as_str", "EncodedSk.as_bytes", "EncodedSk.as_str", "Keyring.decode_public_key", "Keyring.encode_public_key",
     "Keyring.get_key", "Keyring.get_name_from_key", "Keyring.lock_private_key", "Keyring.new", "Keyring.serialize_key",
     "Keyring.unlock_private_key", "Keyring.valid_key_name"] := rfl

example : "Keyring.new" ∈ KeyringSrc.pubFns := by rw [keyring_source_api]; decide

/-! ## stretch -/

/-- **serialize_key.** -/
theorem keyring_source_serialize_key (name : Keyring.Str) (pk : KeyringSrc.EncodedPk) (sk : KeyringSrc.EncodedSk) :
    KeyringSrc.Keyring.serialize_key name pk sk = Keyring.serializeKey name pk._0 sk._0 :=
  serialize_key_eq name pk sk

example : KeyringSrc.Keyring.serialize_key "a".toList ⟨"P".toList⟩ ⟨"S".toList⟩ =
    "[Key]\nName = a\nPublicKey = P\nPrivateKey = S\n".toList := by decide

/-- **encode_public_key** (on a `PublicKey` holding 32 bytes — the invariant `PublicKey::try_from` enforces). -/
theorem keyring_source_encode_public_key (pk : RsStr.PublicKey) (h : pk.key.length = 32) :
    (KeyringSrc.Keyring.encode_public_key pk)._0 = Keyring.encodePk pk.key :=
  encode_public_key_eq pk h

example : (KeyringSrc.Keyring.encode_public_key ⟨List.replicate 32 7⟩)._0 = Keyring.encodePk (List.replicate 32 7) :=
  keyring_source_encode_public_key _ (by simp)

/-- **lock_private_key** (no hypothesis). -/
theorem keyring_source_lock_private_key (sk : RsStr.PrivateKey) (pw salt : Bytes) :
    (KeyringSrc.Keyring.lock_private_key sk pw salt)._0 = Keyring.lockPrivateKey sk.key pw salt :=
  lock_private_key_eq sk pw salt

example (pw : Bytes) : (KeyringSrc.Keyring.lock_private_key ⟨zeros 32⟩ pw (zeros 32))._0 = Keyring.lockPrivateKey (zeros 32) pw (zeros 32) :=
  keyring_source_lock_private_key _ _ _

/-- **decode_public_key ∘ EncodedPk::try_from = decodePk.**  If `try_from` rejects, the model reports `pkFormat` / `pkLength`
    (errors the Rust caller sees as the `&str` of `try_from`); if it accepts, `decode_public_key` returns what the model
    returns, error classes mapped by `errClass` (`pkChecksum ↦ PublicKeyChecksum`, …). -/
theorem keyring_source_decode_public_key (s : Keyring.Str) :
    (∀ e, KeyringSrc.EncodedPk.try_from s = .ok e →
      KeyringSrc.Keyring.decode_public_key e =
        (match Keyring.decodePk s with | .ok k => .ok ⟨k⟩ | .error err => .error (errClass err))) ∧
    ((∃ m, KeyringSrc.EncodedPk.try_from s = .error m) →
      Keyring.decodePk s = .error .pkFormat ∨ Keyring.decodePk s = .error .pkLength) := by
  have ht := pk_try_from_toOption s
  cases hd : B64.decode (Keyring.utf8 s) with
  | none =>
    rw [hd] at ht
    exact ⟨fun e he => (by rw [he] at ht; cases ht), fun _ => Or.inl (by unfold Keyring.decodePk; rw [hd])⟩
  | some b =>
    rw [hd] at ht
    by_cases hl : b.length = 36
    · simp only [hl, if_true] at ht
      have hok := ok_of_toOption ht
      exact ⟨fun e he => (by rw [hok] at he; cases he; exact decode_public_key_eq s b hd hl),
        fun ⟨_, hm⟩ => (by rw [hok] at hm; cases hm)⟩
    · simp only [hl, if_false] at ht
      exact ⟨fun e he => (by rw [he] at ht; cases ht),
        fun _ => Or.inr (by unfold Keyring.decodePk; rw [hd]; simp [Generated.encodedPkLen, hl])⟩

example : ∃ e, KeyringSrc.EncodedPk.try_from alicePk = .ok e ∧
    KeyringSrc.Keyring.decode_public_key e =
      (match Keyring.decodePk alicePk with | .ok k => .ok ⟨k⟩ | .error err => .error (errClass err)) := by
  obtain ⟨e, he⟩ := (keyring_source_encoded_pk_try_from alicePk).1.mpr alicePk_ok
  exact ⟨e, he, (keyring_source_decode_public_key alicePk).1 e he⟩

/-- **unlock_private_key ∘ EncodedSk::try_from = unlockPrivateKey.** -/
theorem keyring_source_unlock_private_key (s : Keyring.Str) (pw : Bytes) :
    (∀ e, KeyringSrc.EncodedSk.try_from s = .ok e →
      KeyringSrc.Keyring.unlock_private_key e pw =
        (match Keyring.unlockPrivateKey s pw with | .ok k => .ok ⟨k⟩ | .error err => .error (errClass err))) ∧
    ((∃ m, KeyringSrc.EncodedSk.try_from s = .error m) → Keyring.unlockPrivateKey s pw = .error .skLength) := by
  have ht := sk_try_from_toOption s
  cases hd : B64.decode (Keyring.utf8 s) with
  | none =>
    rw [hd] at ht
    exact ⟨fun e he => (by rw [he] at ht; cases ht), fun _ => (by unfold Keyring.unlockPrivateKey; rw [hd])⟩
  | some b =>
    rw [hd] at ht
    by_cases hl : b.length = 84
    · simp only [hl, if_true] at ht
      have hok := ok_of_toOption ht
      exact ⟨fun e he => (by rw [hok] at he; cases he; exact unlock_private_key_eq s pw b hd hl),
        fun ⟨_, hm⟩ => (by rw [hok] at hm; cases hm)⟩
    · simp only [hl, if_false] at ht
      exact ⟨fun e he => (by rw [he] at ht; cases ht),
        fun _ => (by unfold Keyring.unlockPrivateKey; rw [hd]; simp [Generated.privateKeyCtLen, hl])⟩

example (pw : Bytes) : ∃ e, KeyringSrc.EncodedSk.try_from aliceSk = .ok e ∧
    KeyringSrc.Keyring.unlock_private_key e pw =
      (match Keyring.unlockPrivateKey aliceSk pw with | .ok k => .ok ⟨k⟩ | .error err => .error (errClass err)) := by
  obtain ⟨e, he⟩ := (keyring_source_encoded_sk_try_from aliceSk).1.mpr aliceSk_ok
  exact ⟨e, he, (keyring_source_unlock_private_key aliceSk pw).1 e he⟩

/-! ## corollaries: properties of the model transferred to the translated code -/

/-- from C17_accept: whatever the translated `Keyring::new` accepts is non-empty, and no name and no public key occurs
    twice — a text in which a name or a key occurs twice is rejected. -/
theorem keyring_source_no_duplicates (text : Keyring.Str) (kr : KeyringSrc.Keyring)
    (h : KeyringSrc.Keyring.new text = .ok kr) :
    kr.keys ≠ [] ∧ (kr.keys.map (·.name)).Nodup ∧ (kr.keys.map (·.public_key._0)).Nodup := by
  have hp := keyring_source_parse text
  rw [h] at hp
  obtain ⟨hne, _, hN, hP⟩ := C17_accept text (viewKeys kr) hp.symm
  refine ⟨fun e => hne (by rw [viewKeys, e]; rfl), ?_, ?_⟩
  · have : (viewKeys kr).map (·.name) = kr.keys.map (·.name) := by rw [viewKeys, List.map_map]; rfl
    rw [← this]; exact hN
  · have : (viewKeys kr).map (·.pk) = kr.keys.map (·.public_key._0) := by rw [viewKeys, List.map_map]; rfl
    rw [← this]; exact hP

example : ∃ kr, KeyringSrc.Keyring.new exampleText = .ok kr ∧ (kr.keys.map (·.name)).Nodup := by
  obtain ⟨kr, e, _⟩ := new_of_parse_some exampleText _ exampleText_parses
  exact ⟨kr, e, (keyring_source_no_duplicates _ kr e).2.1⟩

/-- from C17_roundtrip: what the translated `serialize_key` writes (for successive entries, each preceded by "" or "\n")
    is accepted by the translated `Keyring::new` and parses back to exactly the entries written, in order. -/
theorem keyring_source_roundtrip (es : List (Keyring.Str × Keyring.Str × Keyring.Str)) (seps : List Keyring.Str) (hne : es ≠ [])
    (hlen : seps.length = es.length) (hsep : ∀ x ∈ seps, x = "".toList ∨ x = "\n".toList)
    (hv : ∀ e ∈ es, KeyringSrc.Keyring.valid_key_name e.1 = true ∧ Keyring.trim e.1 = e.1 ∧ '\n' ∉ e.1 ∧
      (∃ p, KeyringSrc.EncodedPk.try_from e.2.1 = .ok p) ∧ (∃ q, KeyringSrc.EncodedSk.try_from e.2.2 = .ok q))
    (hN : (es.map (·.1)).Nodup) (hP : (es.map (·.2.1)).Nodup) :
    ∃ kr, KeyringSrc.Keyring.new
        (List.zipWith (fun sep e => sep ++ KeyringSrc.Keyring.serialize_key e.1 ⟨e.2.1⟩ ⟨e.2.2⟩) seps es).flatten = .ok kr ∧
      viewKeys kr = es.map fun e => ⟨e.1, e.2.1, some e.2.2⟩ := by
  have hr := C17_roundtrip es seps hne hlen hsep
    (fun e he => ⟨(keyring_source_valid_key_name e.1).symm.trans (hv e he).1, (hv e he).2.1, (hv e he).2.2.1,
      (keyring_source_encoded_pk_try_from e.2.1).1.mp (hv e he).2.2.2.1,
      (keyring_source_encoded_sk_try_from e.2.2).1.mp (hv e he).2.2.2.2⟩) hN hP
  have ht : (List.zipWith (fun sep e => sep ++ KeyringSrc.Keyring.serialize_key e.1 ⟨e.2.1⟩ ⟨e.2.2⟩) seps es).flatten =
      (List.zipWith (fun sep (e : Keyring.Str × Keyring.Str × Keyring.Str) => sep ++ Keyring.serializeKey e.1 e.2.1 e.2.2) seps es).flatten := rfl
  rw [ht]
  exact new_of_parse_some _ _ hr

example : ∃ kr, KeyringSrc.Keyring.new (KeyringSrc.Keyring.serialize_key "alice".toList ⟨alicePk⟩ ⟨aliceSk⟩) = .ok kr ∧
    viewKeys kr = [⟨"alice".toList, alicePk, some aliceSk⟩] := by
  have h := keyring_source_roundtrip [("alice".toList, alicePk, aliceSk)] ["".toList] (List.cons_ne_nil _ _) rfl (by decide)
    (by
      intro e he
      simp only [List.mem_singleton] at he
      subst he
      show KeyringSrc.Keyring.valid_key_name "alice".toList = true ∧ Keyring.trim "alice".toList = "alice".toList ∧
        '\n' ∉ "alice".toList ∧ (∃ p, KeyringSrc.EncodedPk.try_from alicePk = .ok p) ∧
        (∃ q, KeyringSrc.EncodedSk.try_from aliceSk = .ok q)
      refine ⟨by rw [keyring_source_valid_key_name]; decide, by decide, by decide,
        (keyring_source_encoded_pk_try_from alicePk).1.mpr alicePk_ok,
        (keyring_source_encoded_sk_try_from aliceSk).1.mpr aliceSk_ok⟩)
    (by simp) (by simp)
  simpa using h

/-- from C15_roundtrip: the translated `unlock_private_key` opens what the translated `lock_private_key` produced, under
    the same password (32-byte key and salt). -/
theorem keyring_source_unlock_lock (sk : RsStr.PrivateKey) (pw salt : Bytes) (hsk : sk.key.length = 32) (hs : salt.length = 32) :
    KeyringSrc.Keyring.unlock_private_key (KeyringSrc.Keyring.lock_private_key sk pw salt) pw = .ok sk := by
  have hl := keyring_source_lock_private_key sk pw salt
  have hd := Keyring.decode_lockPrivateKey sk.key pw salt
  have hlen := lockedBlob_length sk.key pw salt hsk hs
  have e : KeyringSrc.Keyring.lock_private_key sk pw salt = ⟨Keyring.lockPrivateKey sk.key pw salt⟩ := by
    rw [← hl]
  rw [e, unlock_private_key_eq _ pw _ hd hlen, Keyring.unlock_lock sk.key pw salt hsk hs]

example (pw : Bytes) : KeyringSrc.Keyring.unlock_private_key (KeyringSrc.Keyring.lock_private_key ⟨zeros 32⟩ pw (zeros 32)) pw = .ok ⟨zeros 32⟩ :=
  keyring_source_unlock_lock _ pw _ (by simp [zeros]) (by simp [zeros])

end Kestrel
