/-
  C04 — Only authenticated plaintext is released, in order, in whole chunks (pure level).

  `decryptChunks … F' = (ws, res)`: `ws` is the list of plaintext writes, one per record, in the order they are made.
  The I/O-level ordering (each write happens after the `dec` of its own record and before the next read) is proved
  in the I/O property files; here the content of the writes is characterised for EVERY input `F'`.

  * `C04_release` (*reduction*, bad event = `ForgeryIn`: F' contains something that opens under the file key and is
    not an honest record): the writes are a prefix of the authentic chunk list — each write is exactly one whole
    authentic chunk, the i-th write is the i-th chunk — and success is reported only when all of it was released.
  * `C04_release_pass`, `C04_release_key`: the same for whole files that keep the authentic header.
  * `C04_no_write_on_first_failure`, `C04_first_write_opened` (outright): nothing is written unless the first record
    opened under the key, and then the first write is what it opened to.
-/
import KestrelProofs.Strict
import KestrelProps.C03
namespace Kestrel
open Generated

/-- **C04 (release; reduction).**  For EVERY `F'`: either `F'` exhibits a forgery under `key`, or
    every write is one whole authentic chunk, in order (`ws = cl.take ws.length`), and `.ok` is reported only if
    the whole authentic list was released. -/
theorem C04_release (A : Aead) (hA : A.Lawful) (key aad : Bytes) (hk : key.length = 32) (cs : Nat)
    (cl : List Bytes) (hne : cl ≠ []) (h32 : ∀ c ∈ cl, c.length < 2^32)
    (F' : Bytes) (ws : List Bytes) (res : Res) (h : decryptChunks A key aad cs F' = (ws, res)) :
    ForgeryIn A key aad 0 cl F' ∨
    (ws <+: cl ∧ ws = cl.take ws.length ∧ (∀ i (hi : i < ws.length), cl[i]? = some ws[i]) ∧ (res = .ok → ws = cl)) := by
  rcases C03_chunks A hA key aad hk cs cl hne h32 F' ws res h with hf | ⟨hpre, hok⟩
  · exact Or.inl hf
  · refine Or.inr ⟨hpre, List.prefix_iff_eq_take.mp hpre, ?_, fun hr => (hok hr).1⟩
    intro i hi
    obtain ⟨t, rfl⟩ := hpre
    rw [List.getElem?_append_left hi, List.getElem?_eq_getElem hi]

/-- **C04 (release, `NoForgeryFrom` form)** — the bad event assumed away for this key and stream; per-key laws only. -/
theorem C04_release_nf (A : Aead) (key aad : Bytes) (hS : A.SoundAt key) (cs : Nat)
    (cl : List Bytes) (hne : cl ≠ []) (h32 : ∀ c ∈ cl, c.length < 2^32) (hnf : NoForgeryFrom A key aad 0 cl)
    (F' : Bytes) (ws : List Bytes) (res : Res) (h : decryptChunks A key aad cs F' = (ws, res)) :
    ws <+: cl ∧ (res = .ok → ws = cl) := by
  have := C03_chunks_nf A key aad hS cs cl hne h32 hnf F' ws res h
  exact ⟨this.1, fun hr => (this.2 hr).1⟩

/-- **C04 (release, password-mode file).**  Header (magic, salt) authentic, everything after it arbitrary. -/
theorem C04_release_pass (P : Prims) (hA : P.aead.Lawful) (w salt : Bytes) (reads : List Bytes)
    (hsalt : salt.length = 32) (hkdf : (P.kdf w salt).length = 32)
    (hwf : wellFormedReads reads) (hle : ∀ c ∈ reads, c.length ≤ chunkSize)
    (F' : Bytes) (hhdr : F'.take 36 = (passEncrypt P w salt reads).1.take 36)
    (ws : List Bytes) (res : Res) (h : passDecrypt P w F' = (ws, res)) :
    ForgeryIn P.aead (P.kdf w salt) encPassMagic 0 (fileChunks reads) (F'.drop 36) ∨
    (ws <+: fileChunks reads ∧ (res = .ok → ws = fileChunks reads ∧ ws.flatten = reads.flatten)) := by
  rcases C03_file_pass P hA w salt reads hsalt hkdf hwf hle F' hhdr ws res h with hf | ⟨hpre, hok⟩
  · exact Or.inl hf
  · refine Or.inr ⟨hpre, fun hr => ⟨(hok hr).1, ?_⟩⟩
    rw [(hok hr).1, fileChunks_join reads hwf]

/-- **C04 (release, key-mode file).**  Header (magic, handshake message) authentic, everything after it arbitrary. -/
theorem C04_release_key (P : Prims) (hP : P.Lawful) (s spk r rpk e epk pk d1 d2 msg hh : Bytes) (reads : List Bytes)
    (hE : epk.length = 32) (hS : spk.length = 32) (hK : pk.length = 32)
    (h1 : P.dh e rpk = some d1) (h2 : P.dh s rpk = some d2)
    (h1' : P.dh r epk = some d1) (h2' : P.dh r spk = some d2)
    (hwf : wellFormedReads reads) (hle : ∀ c ∈ reads, c.length ≤ chunkSize)
    (hw : Noise.writeMessage P encPrologue s spk rpk e epk pk = .ok (msg, hh))
    (F' : Bytes) (hhdr : F'.take 132 = (keyEncrypt P s spk rpk e epk pk reads).1.take 132)
    (ws : List Bytes) (res : Res) (snd : Option Bytes) (h : keyDecrypt P r rpk F' = (ws, res, snd)) :
    ForgeryIn P.aead (P.hkdfFile pk hh) [] 0 (fileChunks reads) (F'.drop 132) ∨
    (ws <+: fileChunks reads ∧ (res = .ok → ws = fileChunks reads ∧ ws.flatten = reads.flatten ∧ snd = some spk)) := by
  rcases C03_file_key P hP s spk r rpk e epk pk d1 d2 msg hh reads hE hS hK h1 h2 h1' h2' hwf hle hw F' hhdr ws res snd h
    with hf | ⟨hpre, _, hok⟩
  · exact Or.inl hf
  · refine Or.inr ⟨hpre, fun hr => ⟨(hok hr).1, ?_, (hok hr).2.1⟩⟩
    rw [(hok hr).1, fileChunks_join reads hwf]

/-- **C04 (no write before the first successful check; outright).**  For every input and every AEAD: if the
    decryptor's framing of record 0 fails (short header, oversize length field, short body) or `dec` rejects it,
    then nothing at all is written and the result is an error. -/
theorem C04_no_write_on_first_failure (A : Aead) (key aad : Bytes) (cs fuel ctr : Nat) (inp : Bytes)
    (ws : List Bytes) (res : Res) (h : decLoop A key aad cs fuel ctr inp = (ws, res))
    (hfail : inp.length < 16 ∨ beVal ((inp.take 16).drop 12) > cs ∨
       (inp.drop 16).length < beVal ((inp.take 16).drop 12) + 16 ∨
       A.dec key ctr (aad ++ ((inp.take 16).drop 8).take 4 ++ (inp.take 16).drop 12)
         ((inp.drop 16).take (beVal ((inp.take 16).drop 12) + 16)) = none) :
    ws = [] ∧ res ≠ .ok := by
  have := decLoop_first_fail A key aad cs fuel ctr inp hfail
  rw [h] at this
  exact this

/-- **C04 (the first write is what record 0 opened to; outright).** -/
theorem C04_first_write_opened (A : Aead) (key aad : Bytes) (cs fuel ctr : Nat) (inp : Bytes)
    (w : Bytes) (ws : List Bytes) (res : Res) (h : decLoop A key aad cs fuel ctr inp = (w :: ws, res)) :
    A.dec key ctr (aad ++ ((inp.take 16).drop 8).take 4 ++ (inp.take 16).drop 12)
      ((inp.drop 16).take (beVal ((inp.take 16).drop 12) + 16)) = some w :=
  decLoop_first_write A key aad cs fuel ctr inp w ws (by rw [h])

/-- **C04 (every write is the opening of a record of the input; outright, all positions).**  If the decryptor wrote
    `ws` (whatever the result), the input starts with `ws.length` raw records whose bodies are the sealings of the
    writes, in order, under consecutive nonces — so each write was preceded by the successful `dec` of its own record. -/
theorem C04_writes_are_openings (A : Aead) (key aad : Bytes) (hS : A.SoundAt key) (cs : Nat) :
    ∀ (fuel ctr : Nat) (inp : Bytes),
      ∃ (hs : List (Bytes × Bytes × Bytes)) (rest : Bytes),
        hs.map (·.2.2) = (decLoop A key aad cs fuel ctr inp).1 ∧ inp = rawSerialize A key aad ctr hs ++ rest := by
  intro fuel
  induction fuel with
  | zero => intro ctr inp; exact ⟨[], inp, by simp [decLoop], by simp [rawSerialize]⟩
  | succ f ih =>
    intro ctr inp
    rcases decLoop_step A key aad hS cs f ctr inp with ⟨hnil, _⟩ | ⟨cf, lastB, pt, rest', _, _, _, hinp, _, heq⟩
    · exact ⟨[], inp, by rw [hnil]; rfl, by simp [rawSerialize]⟩
    · rw [heq]
      by_cases hl : beVal lastB = 1
      · rw [if_pos hl]
        by_cases hr : rest'.length ≠ 0
        · rw [if_pos hr]; exact ⟨[], inp, rfl, by simp [rawSerialize]⟩
        · rw [if_neg hr]
          exact ⟨[(cf, lastB, pt)], rest', rfl, by simp [rawSerialize, hinp]⟩
      · rw [if_neg hl]
        obtain ⟨hs, rest, hmap, hser⟩ := ih (ctr+1) rest'
        refine ⟨(cf, lastB, pt) :: hs, rest, by simp [hmap], ?_⟩
        rw [rawSerialize, hinp, List.append_assoc, ← hser]

/-! ### non-vacuity (instances shared with C03: `tableAead`, `tblCl`, `tblF`, `toyF`, `smallReads`) -/

/-- hypotheses of `C04_release` are satisfiable (lawful toy AEAD, three chunks) -/
example (F' : Bytes) (ws : List Bytes) (res : Res) (h : decryptChunks toyPrims.aead (zeros 32) tblAad 8 F' = (ws, res)) :
    ForgeryIn toyPrims.aead (zeros 32) tblAad 0 tblCl F' ∨
    (ws <+: tblCl ∧ ws = tblCl.take ws.length ∧ (∀ i (hi : i < ws.length), tblCl[i]? = some ws[i]) ∧
      (res = .ok → ws = tblCl)) :=
  C04_release toyPrims.aead toyPrims_lawful.aead (zeros 32) tblAad (by decide) 8 tblCl (by decide) (by decide) F' ws res h

/-- hypotheses of `C04_release_nf` are satisfiable (`tableAead`, for which `NoForgeryFrom` is proved) -/
example (F' : Bytes) (ws : List Bytes) (res : Res) (h : decryptChunks tableAead (zeros 32) tblAad 8 F' = (ws, res)) :
    ws <+: tblCl ∧ (res = .ok → ws = tblCl) :=
  C04_release_nf tableAead (zeros 32) tblAad (tableAead_soundAt _) 8 tblCl (by decide) (by decide)
    (tableAead_noForgery _) F' ws res h

/-- a proper prefix of whole chunks is what is released when a later record fails -/
example : decryptChunks tableAead (zeros 32) tblAad 8 (tblF.set 90 0) = ([[1,2],[3]], .auth) := by decide

/-- hypotheses of `C04_release_pass` are satisfiable -/
example (ws : List Bytes) (res : Res)
    (h : passDecrypt toyPrims [] ((passEncrypt toyPrims [] (zeros 32) smallReads).1 ++ [0]) = (ws, res)) :
    ForgeryIn toyPrims.aead (toyPrims.kdf [] (zeros 32)) encPassMagic 0 (fileChunks smallReads)
      (((passEncrypt toyPrims [] (zeros 32) smallReads).1 ++ [0]).drop 36) ∨
    (ws <+: fileChunks smallReads ∧ (res = .ok → ws = fileChunks smallReads ∧ ws.flatten = smallReads.flatten)) :=
  C04_release_pass toyPrims toyPrims_lawful.aead [] (zeros 32) smallReads (by decide) (toy_kdf_length _ _)
    smallReads_wf smallReads_le _ (by decide) ws res h

/-- hypotheses of `C04_release_key` are satisfiable -/
example (ws : List Bytes) (res : Res) (snd : Option Bytes)
    (h : keyDecrypt toyPrims (List.replicate 32 1) (List.replicate 32 1)
      (keyEncrypt toyPrims (zeros 32) (zeros 32) (List.replicate 32 1) (List.replicate 32 2) (List.replicate 32 2)
        (List.replicate 32 7) smallReads).1 = (ws, res, snd)) :
    ∃ hh, ForgeryIn toyPrims.aead (toyPrims.hkdfFile (List.replicate 32 7) hh) [] 0 (fileChunks smallReads)
      ((keyEncrypt toyPrims (zeros 32) (zeros 32) (List.replicate 32 1) (List.replicate 32 2) (List.replicate 32 2)
        (List.replicate 32 7) smallReads).1.drop 132) ∨
    (ws <+: fileChunks smallReads ∧
      (res = .ok → ws = fileChunks smallReads ∧ ws.flatten = smallReads.flatten ∧ snd = some (zeros 32))) := by
  obtain ⟨d1, h1, h1'⟩ := (toy_dhAgree (zeros 32) (List.replicate 32 1) (List.replicate 32 2)).es
  obtain ⟨d2, h2, h2'⟩ := (toy_dhAgree (zeros 32) (List.replicate 32 1) (List.replicate 32 2)).ss
  have hw := Noise.writeMessage_ok_named toyPrims encPrologue (zeros 32) (zeros 32) (List.replicate 32 1)
    (List.replicate 32 2) (List.replicate 32 2) (List.replicate 32 7) d1 d2 h1 h2
  exact ⟨_, C04_release_key toyPrims toyPrims_lawful _ _ _ _ _ _ _ d1 d2 _ _ smallReads
    (List.length_replicate ..) (List.length_replicate ..) (List.length_replicate ..) h1 h2 h1' h2'
    smallReads_wf smallReads_le hw _ rfl ws res snd h⟩

/-- hypotheses of `C04_no_write_on_first_failure` are satisfiable: record 0 altered -/
example : ([] : List Bytes) = [] ∧ Res.auth ≠ .ok :=
  C04_no_write_on_first_failure tableAead (zeros 32) tblAad 8 (tblF.set 17 0).length 0 (tblF.set 17 0) [] .auth
    (by decide) (Or.inr (Or.inr (Or.inr (by decide))))

/-- hypotheses of `C04_first_write_opened` are satisfiable -/
example : tableAead.dec (zeros 32) 0 (tblAad ++ ((tblF.take 16).drop 8).take 4 ++ (tblF.take 16).drop 12)
    ((tblF.drop 16).take (beVal ((tblF.take 16).drop 12) + 16)) = some [1,2] :=
  C04_first_write_opened tableAead (zeros 32) tblAad 8 tblF.length 0 tblF [1,2] [[3],[4,5,6]] .ok (by decide)

/-- `C04_writes_are_openings` has no hypothesis beyond the per-key laws, which hold for `tableAead` and for every
    lawful AEAD at every 32-byte key -/
example (fuel ctr : Nat) (inp : Bytes) := C04_writes_are_openings tableAead (zeros 32) tblAad (tableAead_soundAt _) 8 fuel ctr inp

end Kestrel
