/-
  C19 — exported primitives equal their RFC definitions.

  The Lean primitives ARE transcriptions of the RFCs (validated by the RFC vectors in `kmodel selftest`, by
  OpenSSL, and diffed against the Rust exports on every run).  What is *proved* here are the laws the property
  states about them, for all inputs: open inverts seal, lengths, short inputs are rejected, the opener is strict,
  the Noise nonce layout and its injectivity over the whole 64-bit counter range, the HKDF identity behind
  `hkdf_noise`, HMAC's long-key rule, output lengths.
  NOT proved (assumed, and exercised on the implementation): X25519 symmetry — a theorem about Curve25519's group
  law — and "rejects every altered input", which is the INT-CTXT assumption itself; what is proved instead is
  strictness (`C19_open_strict`): an altered input that opens is a valid sealing of what it opens to.
-/
import KestrelProofs.Aead
import KestrelProofs.Prims
namespace Kestrel

theorem C19_open_seal (key nonce ad pt : Bytes) (hk : key.length = 32) (hn : nonce.length = 12) :
    aeadOpen key nonce ad (aeadSeal key nonce ad pt) = some pt := aeadOpen_aeadSeal key nonce ad pt hk hn

theorem C19_seal_length (key nonce ad pt : Bytes) (hk : key.length = 32) (hn : nonce.length = 12) :
    (aeadSeal key nonce ad pt).length = pt.length + 16 := aeadSeal_length key nonce ad pt hk hn

/-- a ciphertext shorter than a tag is an error (this is `chapoly_decrypt_ietf` after the D2 repair) -/
theorem C19_open_short (key nonce ad c : Bytes) (h : c.length < 16) : aeadOpen key nonce ad c = none :=
  aeadOpen_short key nonce ad c h

/-- strictness: whatever opens — under whichever key, nonce, AAD — is exactly the sealing of its plaintext -/
theorem C19_open_strict (key nonce ad c p : Bytes) (hk : key.length = 32) (hn : nonce.length = 12)
    (h : aeadOpen key nonce ad c = some p) : c = aeadSeal key nonce ad p ∧ p.length + 16 = c.length :=
  ⟨aeadOpen_sound key nonce ad c p hk hn h, aeadOpen_length key nonce ad c p hk hn h⟩

theorem leNat_natLE (n v : Nat) : leNat (natLE n v) = v % 256^n := by
  induction n generalizing v with
  | zero => simp [natLE, leNat, Nat.mod_one]
  | succ n ih =>
    simp only [natLE, leNat, ih, UInt8.toNat_ofNat']
    have h1 : v % 256 % (2 ^ 7 * 2) = v % 256 := Nat.mod_eq_of_lt (by omega)
    rw [h1, Nat.pow_succ, Nat.mul_comm (256^n) 256, Nat.mod_mul]

/-- the Noise-style AEAD nonce: 4 zero bytes, then the counter as 64-bit little-endian, for every counter -/
theorem C19_noise_nonce (n : Nat) :
    noiseNonce n = [0, 0, 0, 0] ++ natLE 8 n ∧ (noiseNonce n).length = 12 ∧ leNat (natLE 8 n) = n % 2^64 :=
  ⟨rfl, noiseNonce_length n, by rw [leNat_natLE]⟩

/-- distinct counters below 2^64 give distinct nonces -/
theorem C19_noise_nonce_inj (a b : Nat) (ha : a < 2^64) (hb : b < 2^64) (h : noiseNonce a = noiseNonce b) : a = b := by
  have h' : natLE 8 a = natLE 8 b := List.append_cancel_left h
  have := congrArg leNat h'
  rw [leNat_natLE, leNat_natLE] at this
  have e : (256:Nat)^8 = 2^64 := by decide
  rw [e, Nat.mod_eq_of_lt ha, Nat.mod_eq_of_lt hb] at this
  exact this

theorem C19_noise_aead (k ad p : Bytes) (n : Nat) :
    chapolyNoise.enc k n ad p = aeadSeal k ([0,0,0,0] ++ natLE 8 n) ad p ∧
    chapolyNoise.dec k n ad p = aeadOpen k ([0,0,0,0] ++ natLE 8 n) ad p := ⟨rfl, rfl⟩

/-- `hkdf_noise` is RFC 5869 HKDF with the chaining key as salt, empty info, 64 bytes of output, split in two -/
theorem C19_hkdf_noise (ck ikm : Bytes) :
    (hkdfNoise ck ikm).1 ++ (hkdfNoise ck ikm).2 = hkdfSha256 ck ikm [] 64 := by
  have hl : ((hkdfNoise ck ikm).1 ++ (hkdfNoise ck ikm).2).length = 64 := by
    simp [List.length_append, (hkdfNoise_length ck ikm).1, (hkdfNoise_length ck ikm).2]
  simp only [hkdfSha256, hkdfExpandBlocks, List.append_nil, List.nil_append]
  rw [List.take_of_length_le]
  · rfl
  · simp [hmacSha256_length]

/-- HMAC: a key longer than the 64-byte block is replaced by its hash (RFC 2104) -/
theorem C19_hmac_long_key (key msg : Bytes) (h : key.length > 64) : hmacSha256 key msg = hmacSha256 (sha256 key) msg := by
  have h32 : ¬ (sha256 key).length > 64 := by rw [sha256_length]; omega
  simp only [hmacSha256, h, if_true, if_neg h32]

theorem C19_output_lengths (k m salt ikm info : Bytes) :
    (sha256 m).length = 32 ∧ (hmacSha256 k m).length = 32 ∧ (hkdfSha256 salt ikm info 32).length = 32 :=
  ⟨sha256_length m, hmacSha256_length k m, hkdfSha256_32_length salt ikm info⟩

/-- public-key derivation is multiplication of the base point, and DH fails exactly on the all-zero output -/
theorem C19_pub_is_basepoint_mult (k : Bytes) : X25519.pubOf k = X25519.x25519 k (9 :: zeros 31) := rfl

theorem C19_dh_fails_iff_zero (k u : Bytes) :
    X25519.x25519 k u = none ↔ (X25519.scalarMult k u).all (· == 0) = true := by
  unfold X25519.x25519
  simp only []
  split
  · rename_i h; simp [h]
  · rename_i h; simp [h]

/-- X25519 symmetry for a pair of scalars — the statement that is *assumed* (not proved) wherever DH agreement is
    needed; it is checked on the implementation and on the model for thousands of random pairs every run. -/
def X25519Symmetric (a b : Bytes) : Prop :=
  ∀ A B, X25519.pubOf a = some A → X25519.pubOf b = some B → X25519.x25519 a B = X25519.x25519 b A

/-! non-vacuity -/
example : aeadOpen (zeros 32) (zeros 12) [1] (aeadSeal (zeros 32) (zeros 12) [1] [2, 3]) = some [2, 3] :=
  C19_open_seal _ _ _ _ (List.length_replicate ..) (List.length_replicate ..)
example : noiseNonce 1 ≠ noiseNonce (2^64 - 2) := fun h => absurd (C19_noise_nonce_inj _ _ (by decide) (by decide) h) (by decide)

end Kestrel
