/-
  StreamSrc — umbrella module: the theorems about the chunk loops and the file-level functions of `src/crypto/src/encrypt.rs`
  (KestrelProps/StreamSrcEnc.lean) and `src/crypto/src/decrypt.rs` (KestrelProps/StreamSrcDec.lean), *as translated mechanically*
  by tools/rs2lean_stream.py.  The two sides are separate modules so that a change of one file cannot break the module of the
  other file's theorems; this module only imports both (other modules and tools/props.json refer to `KestrelProps.StreamSrc`).
-/
import KestrelProps.StreamSrcEnc
import KestrelProps.StreamSrcDec
