/-
  Control-flow skeleton obligations.  The translator (tools/gen_model_inputs.py) extracts, for each function the model mirrors,
  the sequence of significant calls, guards and early returns in source order (`Generated.flow_*`).  The hand-written model
  encodes the same order in its definitions; the theorems below pin the extracted skeletons to the ones the model was written
  against, so that a change of ORDER or of CALL KIND in the source (write before verify, `write` for `write_all`, a dropped flush,
  a guard moved behind the read it protects, File::create for an append) breaks an obligation even if no constant changes.
  A broken obligation is not by itself a violation: the check then searches for a failing input.

  One module per function (KestrelProofs/Flows/<file>_<fn>.lean), so that a property's check depends only on the skeletons of the
  functions its theorems are about: a change to `key_encrypt` does not disturb the keyring properties.
-/
import KestrelProofs.Flows.encrypt_rs_key_encrypt
import KestrelProofs.Flows.encrypt_rs_pass_encrypt
import KestrelProofs.Flows.encrypt_rs_encrypt_chunks
import KestrelProofs.Flows.decrypt_rs_key_decrypt
import KestrelProofs.Flows.decrypt_rs_pass_decrypt
import KestrelProofs.Flows.decrypt_rs_decrypt_chunks
import KestrelProofs.Flows.lib_rs_noise_decrypt
import KestrelProofs.Flows.lib_rs_chapoly_decrypt_ietf
import KestrelProofs.Flows.lib_rs_chapoly_encrypt_noise
import KestrelProofs.Flows.lib_rs_chapoly_decrypt_noise
import KestrelProofs.Flows.noise_rs_write_message
import KestrelProofs.Flows.noise_rs_read_message
import KestrelProofs.Flows.noise_rs_init_x
import KestrelProofs.Flows.commands_rs_ensure_created
import KestrelProofs.Flows.commands_rs_gen_key
import KestrelProofs.Flows.commands_rs_change_pass
import KestrelProofs.Flows.commands_rs_pass_encrypt
import KestrelProofs.Flows.commands_rs_pass_decrypt
import KestrelProofs.Flows.commands_rs_decrypt
import KestrelProofs.Flows.commands_rs_encrypt
import KestrelProofs.Flows.keyring_rs_lock_private_key
import KestrelProofs.Flows.keyring_rs_unlock_private_key
import KestrelProofs.Flows.keyring_rs_get_name_from_key
import KestrelProofs.Flows.pure_crypto
import KestrelProofs.Flows.pure_cli
import KestrelProofs.Flows.pure_ffi
