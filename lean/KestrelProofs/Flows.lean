/-
  Control-flow skeleton obligations.  The translator (tools/gen_model_inputs.py) extracts, for each function the model mirrors,
  the sequence of significant calls, guards and early returns in source order (`Generated.flow_*`).  The hand-written model
  encodes the same order in its definitions; the theorems below pin the extracted skeletons to the ones the model was written
  against, so that a change of ORDER or of CALL KIND in the source (write before verify, `write` for `write_all`, a dropped flush,
  a guard moved behind the read it protects, File::create for an append) breaks an obligation even if no constant changes.
  A broken obligation is not by itself a violation: the check then searches for a failing input.
-/
import KestrelModel.Generated
namespace Kestrel
open Generated

/-- encrypt.rs::key_encrypt — payload key drawn, the Noise message computed (may refuse) BEFORE anything is written; then prologue, message, flush, file key  (properties: C01 C06 C13 C05) -/
theorem gen_flow_encrypt_rs_key_encrypt : flow_encrypt_rs_key_encrypt = ["random", "noise_write", "write_all", "write_all", "flush", "hkdf"] := rfl

/-- encrypt.rs::pass_encrypt — key derived, then magic, salt, flush  (properties: C02 C06) -/
theorem gen_flow_encrypt_rs_pass_encrypt : flow_encrypt_rs_pass_encrypt = ["scrypt", "write_all", "write_all", "flush"] := rfl

/-- encrypt.rs::encrypt_chunks — one read before the loop, one look-ahead read per iteration, seal, header+body through write_all, flush, counter += 1 after the break test  (properties: C01 C06 C07 C10 C11) -/
theorem gen_flow_encrypt_rs_encrypt_chunks : flow_encrypt_rs_encrypt_chunks = ["read", "loop", "read", "err:UnexpectedData", "be_bytes", "be_bytes", "seal", "be_bytes", "write_all", "write_all", "flush", "break", "ctr+=1"] := rfl

/-- decrypt.rs::key_decrypt — magic, handshake, file key — nothing is written here  (properties: C03 C04 C13) -/
theorem gen_flow_decrypt_rs_key_decrypt : flow_decrypt_rs_key_decrypt = ["err:Other", "read_exact", "magic_check", "err:Other", "read_exact", "noise_read", "hkdf"] := rfl

/-- decrypt.rs::pass_decrypt — magic, salt, key — nothing is written here  (properties: C02 C03 C04 C13) -/
theorem gen_flow_decrypt_rs_pass_decrypt : flow_decrypt_rs_pass_decrypt = ["err:Other", "read_exact", "magic_check", "err:Other", "read_exact", "scrypt"] := rfl

/-- decrypt.rs::decrypt_chunks — header, length bound BEFORE the body read, body, open, final flag == 1, single-read probe, THEN write_all + flush, counter += 1  (properties: C03 C04 C09 C10 C11) -/
theorem gen_flow_decrypt_rs_decrypt_chunks : flow_decrypt_rs_decrypt_chunks = ["loop", "read_exact", "len>cs", "err:ChunkLen", "read_exact", "open", "last==1", "read", "err:UnexpectedData", "write_all", "flush", "break", "ctr+=1"] := rfl

/-- lib.rs::noise_decrypt — payload-length guard  (properties: C09) -/
theorem gen_flow_lib_rs_noise_decrypt : flow_lib_rs_noise_decrypt = ["err:Other"] := rfl

/-- lib.rs::chapoly_decrypt_ietf — length guard before the AEAD call (D2 repair)  (properties: C09 C19) -/
theorem gen_flow_lib_rs_chapoly_decrypt_ietf : flow_lib_rs_chapoly_decrypt_ietf = ["len<tag", "err:ChaPolyDecryptError", "aead_open"] := rfl

/-- lib.rs::chapoly_encrypt_noise — nonce = 4 zero bytes then the counter little-endian  (properties: C06 C19 C07) -/
theorem gen_flow_lib_rs_chapoly_encrypt_noise : flow_lib_rs_chapoly_encrypt_noise = ["le_bytes", "nonce[4..]", "seal_ietf"] := rfl

/-- lib.rs::chapoly_decrypt_noise — same nonce layout on the open side  (properties: C06 C19) -/
theorem gen_flow_lib_rs_chapoly_decrypt_noise : flow_lib_rs_chapoly_decrypt_noise = ["le_bytes", "nonce[4..]", "open_ietf"] := rfl

/-- noise.rs::write_message — e: mix_hash; es: dh, mix_key; s: encrypt_and_hash; ss: dh, mix_key; payload: encrypt_and_hash (arms appear in enum order in the source)  (properties: C05 C06) -/
theorem gen_flow_noise_rs_write_message : flow_noise_rs_write_message = ["random_key", "mix_hash", "encrypt_and_hash", "dh", "mix_key", "dh", "mix_key", "encrypt_and_hash"] := rfl

/-- noise.rs::read_message — length guard (D3 repair), then the token arms  (properties: C05 C06 C09) -/
theorem gen_flow_noise_rs_read_message : flow_noise_rs_read_message = ["len<96", "err:Other", "mix_hash", "decrypt_and_hash", "dh", "mix_key", "dh", "mix_key", "decrypt_and_hash"] := rfl

/-- noise.rs::init_x — prologue and the responder/recipient static key are mixed into h  (properties: C05 C06) -/
theorem gen_flow_noise_rs_init_x : flow_noise_rs_init_x = ["mix_hash", "mix_hash", "mix_hash"] := rfl

/-- commands.rs::ensure_created — the output file is created (and truncated) lazily by File::create  (properties: C13 C08) -/
theorem gen_flow_commands_rs_ensure_created : flow_commands_rs_ensure_created = ["file_create"] := rfl

/-- commands.rs::gen_key — fresh key, fresh salt, lock; -o FILE opened with create+append (D1 repair)  (properties: C14 C07 C16) -/
theorem gen_flow_commands_rs_gen_key : flow_commands_rs_gen_key = ["err:anyhow", "ask_pass", "random_key", "random", "lock", "open_options", "open_append", "open_output", "write_all", "flush"] := rfl

/-- commands.rs::change_pass — unlock with the old password, fresh salt, lock, print  (properties: C16 C07) -/
theorem gen_flow_commands_rs_change_pass : flow_commands_rs_change_pass = ["ask_pass", "ask_pass", "unlock", "random", "lock", "println"] := rfl

/-- commands.rs::pass_encrypt — input, lazy output, password, fresh salt, library call  (properties: C07 C12 C13) -/
theorem gen_flow_commands_rs_pass_encrypt : flow_commands_rs_pass_encrypt = ["err:anyhow", "open_input", "open_output", "ask_pass", "random", "lib_pass_encrypt", "println", "err:anyhow", "println"] := rfl

/-- commands.rs::pass_decrypt — input, lazy output, password, library call; an error is returned as an error  (properties: C12 C13 C04) -/
theorem gen_flow_commands_rs_pass_decrypt : flow_commands_rs_pass_decrypt = ["err:anyhow", "open_input", "open_output", "ask_pass", "lib_pass_decrypt", "println", "err:fmt_err", "println"] := rfl

/-- commands.rs::decrypt — input, lazy output, keyring, unlock loop (D5 repair), library call, sender line  (properties: C12 C13 C09) -/
theorem gen_flow_commands_rs_decrypt : flow_commands_rs_decrypt = ["err:anyhow", "open_input", "open_output", "open_keyring", "err:anyhow", "err:anyhow", "ask_pass", "loop", "unlock", "err:anyhow", "println", "ask_pass", "lib_key_decrypt", "println", "err:fmt_err", "println", "println", "println", "println"] := rfl

/-- commands.rs::encrypt — input, lazy output, keyring, unlock loop (D5 repair), library call  (properties: C12 C13 C09) -/
theorem gen_flow_commands_rs_encrypt : flow_commands_rs_encrypt = ["err:anyhow", "open_input", "open_output", "open_keyring", "err:anyhow", "err:anyhow", "err:anyhow", "ask_pass", "loop", "unlock", "err:anyhow", "println", "ask_pass", "lib_key_encrypt", "println", "err:anyhow", "println"] := rfl

/-- keyring.rs::lock_private_key — scrypt then seal  (properties: C15) -/
theorem gen_flow_keyring_rs_lock_private_key : flow_keyring_rs_lock_private_key = ["scrypt", "seal_ietf"] := rfl

/-- keyring.rs::unlock_private_key — length and version guards, scrypt, open  (properties: C15 C09) -/
theorem gen_flow_keyring_rs_unlock_private_key : flow_keyring_rs_unlock_private_key = ["err:PrivateKeyLength", "err:PrivateKeyFormat", "scrypt", "open_ietf"] := rfl

/-- keyring.rs::get_name_from_key — exact string comparison  (properties: C05 C12 C17) -/
theorem gen_flow_keyring_rs_get_name_from_key : flow_keyring_rs_get_name_from_key = ["str_eq"] := rfl

end Kestrel
