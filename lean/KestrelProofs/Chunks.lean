/-
  Lemmas about the pure-level stream format: one record, any conforming chunk list, the look-ahead loop,
  and the authenticity induction.
-/
import KestrelModel.Chunks
namespace Kestrel

theorem be32_length (v : Nat) : (be32 v).length = 4 := rfl
theorem be64_length (v : Nat) : (be64 v).length = 8 := rfl

theorem beVal_be32 (v : Nat) (h : v < 2^32) : beVal (be32 v) = v := by
  simp only [be32, beVal, List.length_cons, List.length_nil, UInt8.toNat_ofNat']
  omega

theorem be32_inj_small (a b : Nat) (ha : a < 2^32) (hb : b < 2^32) (h : be32 a = be32 b) : a = b := by
  have := congrArg beVal h
  rwa [beVal_be32 a ha, beVal_be32 b hb] at this

theorem record_length (A : Aead) (hA : A.Lawful) (key aad cf : Bytes) (ctr : Nat) (last : Bool) (pt : Bytes)
    (hk : key.length = 32) (hcf : cf.length = 8) : (record A key aad cf ctr last pt).length = 32 + pt.length := by
  simp [record, be32_length, hcf, hA.enc_length _ _ _ _ hk]; omega

/-- decrypting one record followed by `tail` -/
theorem decLoop_record (A : Aead) (hA : A.Lawful) (key aad : Bytes) (cs fuel ctr : Nat) (cf : Bytes) (last : Bool)
    (pt tail : Bytes) (hk : key.length = 32) (hcf : cf.length = 8) (hpt : pt.length ≤ cs) (hcs : cs < 2^32) :
    decLoop A key aad cs (fuel+1) ctr (record A key aad cf ctr last pt ++ tail) =
      if last then (if tail.length ≠ 0 then ([], .unexpectedData) else ([pt], .ok))
      else (pt :: (decLoop A key aad cs fuel (ctr+1) tail).1, (decLoop A key aad cs fuel (ctr+1) tail).2) := by
  have hlen : pt.length < 2^32 := by omega
  obtain ⟨c0,c1,c2,c3,c4,c5,c6,c7,rfl⟩ : ∃ c0 c1 c2 c3 c4 c5 c6 c7, cf = [c0,c1,c2,c3,c4,c5,c6,c7] := by
    match cf, hcf with
    | [c0,c1,c2,c3,c4,c5,c6,c7], _ => exact ⟨_,_,_,_,_,_,_,_,rfl⟩
  generalize hL : be32 (if last then 1 else 0) = lastB
  generalize hN : be32 pt.length = lenB
  have hLl : lastB.length = 4 := by rw [← hL]; rfl
  have hNl : lenB.length = 4 := by rw [← hN]; rfl
  obtain ⟨l0,l1,l2,l3,rfl⟩ : ∃ l0 l1 l2 l3, lastB = [l0,l1,l2,l3] := by
    match lastB, hLl with
    | [a,b,c,d], _ => exact ⟨_,_,_,_,rfl⟩
  obtain ⟨n0,n1,n2,n3,rfl⟩ : ∃ n0 n1 n2 n3, lenB = [n0,n1,n2,n3] := by
    match lenB, hNl with
    | [a,b,c,d], _ => exact ⟨_,_,_,_,rfl⟩
  have hNv : beVal [n0,n1,n2,n3] = pt.length := by rw [← hN]; exact beVal_be32 _ hlen
  have hLv : beVal [l0,l1,l2,l3] = if last then 1 else 0 := by
    rw [← hL]; exact beVal_be32 _ (by cases last <;> simp)
  have hrec : record A key aad [c0,c1,c2,c3,c4,c5,c6,c7] ctr last pt =
      [c0,c1,c2,c3,c4,c5,c6,c7] ++ [l0,l1,l2,l3] ++ [n0,n1,n2,n3] ++
        A.enc key ctr (aad ++ [l0,l1,l2,l3] ++ [n0,n1,n2,n3]) pt := by
    simp only [record, hL, hN]
  rw [hrec]
  generalize hbody : A.enc key ctr (aad ++ [l0,l1,l2,l3] ++ [n0,n1,n2,n3]) pt = body
  have hbl : body.length = pt.length + 16 := by rw [← hbody]; exact hA.enc_length _ _ _ _ hk
  have hdec : A.dec key ctr (aad ++ [l0,l1,l2,l3] ++ [n0,n1,n2,n3]) body = some pt := by
    rw [← hbody]; exact hA.dec_enc _ _ _ _ hk
  simp only [decLoop, List.cons_append, List.nil_append, List.length_cons, List.take, List.drop,
    List.length_append, hNv, hbl]
  have h1 : ¬ (pt.length + 16 + tail.length + 1 + 1 + 1 + 1 + 1 + 1 + 1 + 1 + 1 + 1 + 1 + 1 + 1 + 1 + 1 + 1 < 16) := by omega
  have h2 : ¬ (pt.length > cs) := by omega
  have h3 : ¬ (pt.length + 16 + tail.length < pt.length + 16) := by omega
  have h4 : List.take (pt.length + 16) (body ++ tail) = body := by rw [← hbl]; simp
  have h5 : List.drop (pt.length + 16) (body ++ tail) = tail := by rw [← hbl]; simp
  simp only [h1, h2, h3, h4, h5, if_false, hdec, hLv, hbl]
  cases last <;> simp

/-- **Format completeness**: every conforming chunk list (any chunking, advisory counters arbitrary)
    decrypts to exactly its chunks. -/
theorem decLoop_serialize (A : Aead) (hA : A.Lawful) (key aad : Bytes) (hk : key.length = 32) (cs : Nat) (hcs : cs < 2^32)
    (cf : Nat → Bytes) (hcf : ∀ i, (cf i).length = 8) :
    ∀ (cl : List Bytes) (ctr fuel : Nat), cl ≠ [] → (∀ c ∈ cl, c.length ≤ cs) →
      (serialize A key aad cf ctr cl).length ≤ fuel →
      decLoop A key aad cs fuel ctr (serialize A key aad cf ctr cl) = (cl, .ok) := by
  intro cl
  induction cl with
  | nil => intro _ _ h; exact absurd rfl h
  | cons c rest ih =>
    intro ctr fuel _ hle hfuel
    have hc : c.length ≤ cs := hle c (by simp)
    cases rest with
    | nil =>
      simp only [serialize] at hfuel ⊢
      rw [record_length A hA _ _ _ _ _ _ hk (hcf ctr)] at hfuel
      obtain ⟨f, rfl⟩ : ∃ f, fuel = f + 1 := ⟨fuel - 1, by omega⟩
      have := decLoop_record A hA key aad cs f ctr (cf ctr) true c [] hk (hcf ctr) hc hcs
      simpa using this
    | cons c' cs' =>
      simp only [serialize] at hfuel ⊢
      rw [List.length_append, record_length A hA _ _ _ _ _ _ hk (hcf ctr)] at hfuel
      obtain ⟨f, rfl⟩ : ∃ f, fuel = f + 1 := ⟨fuel - 1, by omega⟩
      rw [decLoop_record A hA key aad cs f ctr (cf ctr) false c _ hk (hcf ctr) hc hcs]
      have := ih (ctr+1) f (by simp) (fun x hx => hle x (by simp [hx])) (by omega)
      simp [this]

/-- What the look-ahead loop emits for a read schedule is the serialization of its chunk list. -/
theorem encLoop_eq (A : Aead) (key aad : Bytes) :
    ∀ (rs : List Bytes) (ctr : Nat) (prev : Bytes), wellFormedReads rs →
      encLoop A key aad ctr prev false rs = (serialize A key aad be64 ctr (prev :: chunksOf rs), .ok) := by
  intro rs
  induction rs with
  | nil => intro ctr prev _; simp [encLoop, chunksOf, serialize]
  | cons r rs ih =>
    intro ctr prev hwf
    by_cases hr : r.length = 0
    · have : rs = [] := hwf.1 hr
      subst this
      simp [encLoop, chunksOf, hr, serialize]
    · have hwf' : wellFormedReads rs := hwf.2 hr
      have hb : (r.length == 0) = false := by simpa using hr
      simp [encLoop, chunksOf, hr, hb, serialize, ih (ctr+1) r hwf']

/-- the chunk list of a whole encryption: the non-empty reads, or a single empty chunk -/
def fileChunks (reads : List Bytes) : List Bytes :=
  match chunksOf reads with
  | [] => [[]]
  | cl => cl

theorem fileChunks_ne_nil (reads : List Bytes) : fileChunks reads ≠ [] := by
  unfold fileChunks; split <;> simp_all

theorem encryptChunks_eq (A : Aead) (key aad : Bytes) (reads : List Bytes) (hwf : wellFormedReads reads) :
    encryptChunks A key aad reads = (serialize A key aad be64 0 (fileChunks reads), .ok) := by
  cases reads with
  | nil => simp [encryptChunks, encLoop, fileChunks, chunksOf, serialize]
  | cons r rs =>
    by_cases hr : r.length = 0
    · have hrs : rs = [] := hwf.1 hr
      subst hrs
      have hrn : r = [] := List.eq_nil_of_length_eq_zero hr
      subst hrn
      simp [encryptChunks, encLoop, fileChunks, chunksOf, serialize]
    · have hwf' : wellFormedReads rs := hwf.2 hr
      have hb : (r.length == 0) = false := by simpa using hr
      simp only [encryptChunks, hb]
      rw [encLoop_eq A key aad rs 0 r hwf']
      simp [fileChunks, chunksOf, hr]

theorem chunksOf_join (reads : List Bytes) (hwf : wellFormedReads reads) : (chunksOf reads).flatten = reads.flatten := by
  induction reads with
  | nil => rfl
  | cons r rs ih =>
    by_cases hr : r.length = 0
    · have hrs : rs = [] := hwf.1 hr
      have hrn : r = [] := List.eq_nil_of_length_eq_zero hr
      subst hrs hrn; simp [chunksOf]
    · have hwf' : wellFormedReads rs := hwf.2 hr
      simp [chunksOf, hr, ih hwf']

theorem fileChunks_join (reads : List Bytes) (hwf : wellFormedReads reads) : (fileChunks reads).flatten = reads.flatten := by
  unfold fileChunks
  split
  · rename_i h; rw [← chunksOf_join reads hwf, h]; rfl
  · exact chunksOf_join reads hwf

theorem chunksOf_mem (reads : List Bytes) : ∀ c ∈ chunksOf reads, c ∈ reads := by
  induction reads with
  | nil => simp [chunksOf]
  | cons r rs ih =>
    intro c hc
    by_cases hr : r.length = 0
    · simp [chunksOf, hr] at hc
    · simp only [chunksOf, hr, if_false, List.mem_cons] at hc
      rcases hc with h | h
      · simp [h]
      · exact List.mem_cons_of_mem _ (ih c h)

theorem fileChunks_le (reads : List Bytes) (cs : Nat) (h : ∀ r ∈ reads, r.length ≤ cs) : ∀ c ∈ fileChunks reads, c.length ≤ cs := by
  intro c hc
  unfold fileChunks at hc
  split at hc
  · simp at hc; subst hc; simp
  · exact h c (chunksOf_mem reads c hc)

theorem serialize_length (A : Aead) (hA : A.Lawful) (key aad : Bytes) (hk : key.length = 32) (cf : Nat → Bytes)
    (hcf : ∀ i, (cf i).length = 8) : ∀ (cl : List Bytes) (ctr : Nat),
    (serialize A key aad cf ctr cl).length = 32 * cl.length + cl.flatten.length := by
  intro cl
  induction cl with
  | nil => intro _; simp [serialize]
  | cons c rest ih =>
    intro ctr
    cases rest with
    | nil => simp [serialize, record_length A hA _ _ _ _ _ _ hk (hcf ctr)]
    | cons c' cs' =>
      simp only [serialize, List.length_append, record_length A hA _ _ _ _ _ _ hk (hcf ctr), ih (ctr+1)]
      simp only [List.length_cons, List.flatten_cons, List.length_append]; omega

/-! ### Authenticity (reduction form) -/

/-- honest record list for an authentic chunk list: (nonce, ad, plaintext) -/
def honest (aad : Bytes) : Nat → List Bytes → List (Nat × Bytes × Bytes)
  | _, [] => []
  | ctr, [c] => [(ctr, aad ++ be32 1 ++ be32 c.length, c)]
  | ctr, c :: c' :: cs => (ctr, aad ++ be32 0 ++ be32 c.length, c) :: honest aad (ctr+1) (c' :: cs)

/-- No forgery from position `ctr` on: whatever opens under `key` with a nonce ≥ `ctr` is one of the honest
    records of the suffix. At `ctr = 0` this is INT-CTXT for a key that sealed exactly this one stream. -/
def NoForgeryFrom (A : Aead) (key aad : Bytes) (ctr : Nat) (cl : List Bytes) : Prop :=
  ∀ n ad c p, A.dec key n ad c = some p → ctr ≤ n → (n, ad, p) ∈ honest aad ctr cl

theorem honest_nonce_ge (aad : Bytes) : ∀ (cl : List Bytes) (ctr n : Nat) (ad p : Bytes),
    (n, ad, p) ∈ honest aad ctr cl → ctr ≤ n := by
  intro cl
  induction cl with
  | nil => intro _ _ _ _ h; simp [honest] at h
  | cons c rest ih =>
    intro ctr n ad p h
    cases rest with
    | nil => simp [honest] at h; omega
    | cons c' cs' =>
      simp only [honest, List.mem_cons] at h
      rcases h with h | h
      · simp only [Prod.mk.injEq] at h; omega
      · have := ih (ctr+1) n ad p h; omega

theorem NoForgeryFrom.tail {A : Aead} {key aad : Bytes} {ctr : Nat} {c c' : Bytes} {cs' : List Bytes}
    (h : NoForgeryFrom A key aad ctr (c :: c' :: cs')) : NoForgeryFrom A key aad (ctr+1) (c' :: cs') := by
  intro n ad ct p hd hn
  have := h n ad ct p hd (by omega)
  simp only [honest, List.mem_cons] at this
  rcases this with h0 | h1
  · simp only [Prod.mk.injEq] at h0; omega
  · exact h1

theorem split_ad (aad l1 n1 l2 n2 : Bytes) (hl : l1.length = l2.length)
    (h : aad ++ l1 ++ n1 = aad ++ l2 ++ n2) : l1 = l2 ∧ n1 = n2 := by
  rw [List.append_assoc, List.append_assoc] at h
  have h' := List.append_cancel_left h
  exact List.append_inj h' hl

/-- **Authenticity core.** For every byte string `inp`: the writes of the decryptor are a prefix of the authentic
    chunk list, and on success they are the whole list. -/
theorem decLoop_authentic (A : Aead) (key aad : Bytes) (cs : Nat) :
    ∀ (cl : List Bytes) (ctr : Nat), cl ≠ [] → (∀ c ∈ cl, c.length < 2^32) →
      NoForgeryFrom A key aad ctr cl →
      ∀ (fuel : Nat) (inp : Bytes),
        (decLoop A key aad cs fuel ctr inp).1 <+: cl ∧
        ((decLoop A key aad cs fuel ctr inp).2 = .ok → (decLoop A key aad cs fuel ctr inp).1 = cl) := by
  intro cl
  induction cl with
  | nil => intro _ h; exact absurd rfl h
  | cons c rest ih =>
    intro ctr _ hlen hnf fuel inp
    cases fuel with
    | zero => simp [decLoop]
    | succ f =>
      simp only [decLoop]
      split
      · simp
      · rename_i h16
        split
        · simp
        · split
          · simp
          · split
            · simp
            · rename_i pt hdec
              have hmem := hnf _ _ _ _ hdec (Nat.le_refl _)
              have hL4 : (List.take 4 (List.drop 8 (List.take 16 inp))).length = 4 := by
                simp only [List.length_take, List.length_drop]; omega
              cases rest with
              | nil =>
                simp only [honest, List.mem_singleton, Prod.mk.injEq] at hmem
                obtain ⟨_, had, hpt⟩ := hmem
                have ⟨hl, _⟩ := split_ad _ _ _ _ _ (by rw [hL4]; rfl) had
                rw [hl, beVal_be32 1 (by decide), hpt]
                simp only [beq_self_eq_true, if_true]
                split <;> simp
              | cons c' cs' =>
                simp only [honest, List.mem_cons, Prod.mk.injEq] at hmem
                rcases hmem with ⟨_, had, hpt⟩ | htail
                · have ⟨hl, _⟩ := split_ad _ _ _ _ _ (by rw [hL4]; rfl) had
                  rw [hl, beVal_be32 0 (by decide), hpt]
                  have hne : ((0:Nat) == 1) = false := by decide
                  simp only [hne, Bool.false_eq_true, if_false]
                  have := ih (ctr+1) (by simp) (fun x hx => hlen x (by simp [hx])) hnf.tail f
                    (List.drop (beVal (List.drop 12 (List.take 16 inp)) + 16) (List.drop 16 inp))
                  refine ⟨?_, ?_⟩
                  · exact List.prefix_cons_inj c |>.mpr this.1
                  · intro hok; rw [this.2 hok]
                · have := honest_nonce_ge aad (c' :: cs') (ctr+1) ctr _ _ htail
                  omega

end Kestrel
