/-
  Strictness of the stream decryptor and of the Noise reader (pure level), and the per-input reduction
  lemmas used by C02–C05.

  Nothing here is a hardness assumption.  The bad events that the property theorems mention
  (`ForgeryIn`, cross-key opens, collisions) are *named* here and in the property files; they are never
  assumed away globally.
-/
import KestrelProofs.File
import KestrelProofs.Prims
namespace Kestrel
open Generated

/-! ### byte-level helpers -/

theorem beVal_lt_of_length4 (b : Bytes) (h : b.length = 4) : beVal b < 2^32 := by
  match b, h with
  | [a0,a1,a2,a3], _ =>
    have h0 := a0.toNat_lt; have h1 := a1.toNat_lt; have h2 := a2.toNat_lt; have h3 := a3.toNat_lt
    simp only [beVal, List.length_cons, List.length_nil]
    omega

/-- `be32` is the inverse of `beVal` on 4-byte strings: the length field has a unique encoding. -/
theorem be32_beVal (b : Bytes) (h : b.length = 4) : be32 (beVal b) = b := by
  match b, h with
  | [a0,a1,a2,a3], _ =>
    have h0 := a0.toNat_lt; have h1 := a1.toNat_lt; have h2 := a2.toNat_lt; have h3 := a3.toNat_lt
    simp only [beVal, be32, List.length_cons, List.length_nil]
    have e0 : (a0.toNat * 256 ^ (0+1+1+1) + (a1.toNat * 256 ^ (0+1+1) + (a2.toNat * 256 ^ (0+1) + (a3.toNat * 256 ^ 0 + 0)))) / 2^24 % 256 = a0.toNat := by omega
    have e1 : (a0.toNat * 256 ^ (0+1+1+1) + (a1.toNat * 256 ^ (0+1+1) + (a2.toNat * 256 ^ (0+1) + (a3.toNat * 256 ^ 0 + 0)))) / 2^16 % 256 = a1.toNat := by omega
    have e2 : (a0.toNat * 256 ^ (0+1+1+1) + (a1.toNat * 256 ^ (0+1+1) + (a2.toNat * 256 ^ (0+1) + (a3.toNat * 256 ^ 0 + 0)))) / 2^8 % 256 = a2.toNat := by omega
    have e3 : (a0.toNat * 256 ^ (0+1+1+1) + (a1.toNat * 256 ^ (0+1+1) + (a2.toNat * 256 ^ (0+1) + (a3.toNat * 256 ^ 0 + 0)))) % 256 = a3.toNat := by omega
    rw [e0, e1, e2, e3]
    simp only [UInt8.ofNat_toNat]

/-- a 16-byte header splits into its three fields -/
theorem hdr_split (hdr : Bytes) : hdr = hdr.take 8 ++ (hdr.drop 8).take 4 ++ hdr.drop 12 := by
  have h1 : hdr.drop 12 = (hdr.drop 8).drop 4 := by rw [List.drop_drop]
  rw [h1, List.append_assoc, List.take_append_drop, List.take_append_drop]

/-! ### per-key laws, raw records -/

/-- The two functional AEAD laws that strictness needs, for one key, *without* the round trip.
    (A table-backed AEAD satisfies these but not `Lawful.dec_enc`.) -/
structure Aead.SoundAt (A : Aead) (key : Bytes) : Prop where
  enc_length : ∀ n ad p, (A.enc key n ad p).length = p.length + 16
  dec_sound : ∀ n ad c p, A.dec key n ad c = some p → c = A.enc key n ad p

theorem Aead.Lawful.soundAt {A : Aead} (hA : A.Lawful) {key : Bytes} (hk : key.length = 32) : A.SoundAt key :=
  ⟨fun n ad p => hA.enc_length key n ad p hk, fun n ad c p h => hA.dec_sound key n ad c p hk h⟩

/-- a record with *arbitrary* 8 counter bytes and 4 flag bytes: the only freedom the decryptor leaves -/
def rawRecord (A : Aead) (key aad cf lastB : Bytes) (ctr : Nat) (pt : Bytes) : Bytes :=
  cf ++ lastB ++ be32 pt.length ++ A.enc key ctr (aad ++ lastB ++ be32 pt.length) pt

/-- concatenation of raw records for (counter bytes, flag bytes, plaintext) triples, consecutive nonces -/
def rawSerialize (A : Aead) (key aad : Bytes) : Nat → List (Bytes × Bytes × Bytes) → Bytes
  | _, [] => []
  | ctr, h :: rest => rawRecord A key aad h.1 h.2.1 ctr h.2.2 ++ rawSerialize A key aad (ctr+1) rest

/-- **One step of the decryptor, inverted.**  For every input: either the step fails having written nothing,
    or the input *is* a raw record (counter bytes, flag bytes, canonical length, sealing of the plaintext that
    was released) followed by some rest, and the loop continues on exactly that rest. -/
theorem decLoop_step (A : Aead) (key aad : Bytes) (hS : A.SoundAt key) (cs fuel ctr : Nat) (inp : Bytes) :
    ((decLoop A key aad cs (fuel+1) ctr inp).1 = [] ∧ (decLoop A key aad cs (fuel+1) ctr inp).2 ≠ .ok) ∨
    ∃ cf lastB pt rest', cf.length = 8 ∧ lastB.length = 4 ∧ pt.length ≤ cs ∧
      inp = rawRecord A key aad cf lastB ctr pt ++ rest' ∧
      A.dec key ctr (aad ++ lastB ++ be32 pt.length) (A.enc key ctr (aad ++ lastB ++ be32 pt.length) pt) = some pt ∧
      decLoop A key aad cs (fuel+1) ctr inp =
        if beVal lastB = 1 then (if rest'.length ≠ 0 then ([], .unexpectedData) else ([pt], .ok))
        else (pt :: (decLoop A key aad cs fuel (ctr+1) rest').1, (decLoop A key aad cs fuel (ctr+1) rest').2) := by
  have hunf : decLoop A key aad cs (fuel+1) ctr inp =
      if inp.length < 16 then ([], .ioRead) else
      if beVal ((inp.take 16).drop 12) > cs then ([], .chunkLen) else
      if (inp.drop 16).length < beVal ((inp.take 16).drop 12) + 16 then ([], .ioRead) else
      match A.dec key ctr (aad ++ ((inp.take 16).drop 8).take 4 ++ (inp.take 16).drop 12)
          ((inp.drop 16).take (beVal ((inp.take 16).drop 12) + 16)) with
      | none => ([], .auth)
      | some pt =>
        if beVal (((inp.take 16).drop 8).take 4) == 1 then
          if ((inp.drop 16).drop (beVal ((inp.take 16).drop 12) + 16)).length ≠ 0 then ([], .unexpectedData) else ([pt], .ok)
        else
          (pt :: (decLoop A key aad cs fuel (ctr+1) ((inp.drop 16).drop (beVal ((inp.take 16).drop 12) + 16))).1,
            (decLoop A key aad cs fuel (ctr+1) ((inp.drop 16).drop (beVal ((inp.take 16).drop 12) + 16))).2) := by
    simp only [decLoop]; rfl
  rw [hunf]
  by_cases h16 : inp.length < 16
  · left; rw [if_pos h16]; exact ⟨rfl, by simp⟩
  rw [if_neg h16]
  by_cases hcs : beVal ((inp.take 16).drop 12) > cs
  · left; rw [if_pos hcs]; exact ⟨rfl, by simp⟩
  rw [if_neg hcs]
  by_cases hrest : (inp.drop 16).length < beVal ((inp.take 16).drop 12) + 16
  · left; rw [if_pos hrest]; exact ⟨rfl, by simp⟩
  rw [if_neg hrest]
  cases hdec : A.dec key ctr (aad ++ ((inp.take 16).drop 8).take 4 ++ (inp.take 16).drop 12)
      ((inp.drop 16).take (beVal ((inp.take 16).drop 12) + 16)) with
  | none => left; exact ⟨rfl, by simp⟩
  | some pt =>
    right
    have hL4 : (((inp.take 16).drop 8).take 4).length = 4 := by
      simp only [List.length_take, List.length_drop]; omega
    have hN4 : ((inp.take 16).drop 12).length = 4 := by
      simp only [List.length_take, List.length_drop]; omega
    have hC8 : ((inp.take 16).take 8).length = 8 := by
      simp only [List.length_take]; omega
    have hbody := hS.dec_sound _ _ _ _ hdec
    have hbl : ((inp.drop 16).take (beVal ((inp.take 16).drop 12) + 16)).length = pt.length + 16 := by
      rw [hbody]; exact hS.enc_length _ _ _
    have hlen : pt.length = beVal ((inp.take 16).drop 12) := by
      simp only [List.length_take, List.length_drop] at hbl hrest ⊢; omega
    have hlenB : be32 pt.length = (inp.take 16).drop 12 := by rw [hlen]; exact be32_beVal _ hN4
    refine ⟨(inp.take 16).take 8, ((inp.take 16).drop 8).take 4, pt,
      (inp.drop 16).drop (beVal ((inp.take 16).drop 12) + 16), hC8, hL4, by omega, ?_, ?_, ?_⟩
    · simp only [rawRecord, hlenB]
      rw [← hbody, ← hdr_split, List.append_assoc, List.take_append_drop, List.take_append_drop]
    · rw [hlenB, ← hbody]; exact hdec
    · by_cases hl : beVal (((inp.take 16).drop 8).take 4) = 1
      · simp only [hl, beq_self_eq_true, if_true]
      · have : (beVal (((inp.take 16).drop 8).take 4) == 1) = false := by simpa using hl
        simp only [this, hl, if_false, Bool.false_eq_true]

/-- **Strictness of the stream decryptor.**  Whatever byte string is accepted is a sequence of raw records with
    consecutive nonces, canonical length fields, bodies that are exactly the sealings of the released chunks,
    flag value 1 on the last record and only there, and nothing after it. -/
theorem decLoop_strict (A : Aead) (key aad : Bytes) (hS : A.SoundAt key) (cs : Nat) :
    ∀ (fuel ctr : Nat) (inp : Bytes) (ws : List Bytes),
      decLoop A key aad cs fuel ctr inp = (ws, .ok) →
      ∃ (init : List (Bytes × Bytes × Bytes)) (l : Bytes × Bytes × Bytes),
        (init ++ [l]).map (·.2.2) = ws ∧ inp = rawSerialize A key aad ctr (init ++ [l]) ∧
        (∀ h ∈ init ++ [l], h.1.length = 8 ∧ h.2.1.length = 4 ∧ h.2.2.length ≤ cs) ∧
        beVal l.2.1 = 1 ∧ (∀ h ∈ init, beVal h.2.1 ≠ 1) := by
  intro fuel
  induction fuel with
  | zero => intro ctr inp ws h; simp [decLoop] at h
  | succ f ih =>
    intro ctr inp ws h
    rcases decLoop_step A key aad hS cs f ctr inp with ⟨_, hne⟩ | ⟨cf, lastB, pt, rest', hcf, hlb, hpt, hinp, _, heq⟩
    · rw [h] at hne; exact absurd rfl hne
    · rw [heq] at h
      by_cases hl : beVal lastB = 1
      · rw [if_pos hl] at h
        by_cases hr : rest'.length ≠ 0
        · rw [if_pos hr] at h; simp at h
        · rw [if_neg hr] at h
          have hr' : rest' = [] := List.eq_nil_of_length_eq_zero (by simpa using hr)
          simp only [Prod.mk.injEq, and_true] at h
          refine ⟨[], (cf, lastB, pt), by simpa using h, ?_, ?_, hl, by simp⟩
          · simp [rawSerialize, hinp, hr']
          · intro x hx
            simp only [List.nil_append, List.mem_singleton] at hx
            subst hx; exact ⟨hcf, hlb, hpt⟩
      · rw [if_neg hl] at h
        simp only [Prod.mk.injEq] at h
        obtain ⟨hws, hres⟩ := h
        obtain ⟨init, l, hmap, hser, hall, hlast, hinit⟩ :=
          ih (ctr+1) rest' (decLoop A key aad cs f (ctr+1) rest').1 (by rw [← hres])
        refine ⟨(cf, lastB, pt) :: init, l, ?_, ?_, ?_, hlast, ?_⟩
        · rw [← hws, List.cons_append, List.map_cons, hmap]
        · rw [List.cons_append, rawSerialize, ← hser, hinp]
        · intro x hx
          rw [List.cons_append, List.mem_cons] at hx
          rcases hx with rfl | hx
          · exact ⟨hcf, hlb, hpt⟩
          · exact hall x hx
        · intro x hx
          rw [List.mem_cons] at hx
          rcases hx with rfl | hx
          · exact hl
          · exact hinit x hx

/-! ### the per-input reduction -/

/-- **Bad event (forgery), named from the input.**  `inp` contains a contiguous byte string that opens under `key`
    — for some nonce `≥ ctr` and some associated data — to something that is *not* one of the honest records.
    This is an INT-CTXT break for the key; it is never assumed away globally (for a real AEAD such strings
    exist), it is the second disjunct of every reduction below. -/
def ForgeryIn (A : Aead) (key aad : Bytes) (ctr : Nat) (cl : List Bytes) (inp : Bytes) : Prop :=
  ∃ n ad c p, c <:+: inp ∧ ctr ≤ n ∧ A.dec key n ad c = some p ∧ (n, ad, p) ∉ honest aad ctr cl

/-- the global hypothesis implies that no input exhibits the bad event -/
theorem NoForgeryFrom.not_forgeryIn {A : Aead} {key aad : Bytes} {ctr : Nat} {cl : List Bytes}
    (h : NoForgeryFrom A key aad ctr cl) (inp : Bytes) : ¬ ForgeryIn A key aad ctr cl inp := by
  rintro ⟨n, ad, c, p, _, hn, hd, hnot⟩
  exact hnot (h n ad c p hd hn)

theorem serialize_congr (A : Aead) (key aad : Bytes) (cf cf' : Nat → Bytes) :
    ∀ (cl : List Bytes) (ctr : Nat), (∀ i, ctr ≤ i → cf i = cf' i) →
      serialize A key aad cf ctr cl = serialize A key aad cf' ctr cl := by
  intro cl
  induction cl with
  | nil => intro _ _; rfl
  | cons c rest ih =>
    intro ctr h
    cases rest with
    | nil => simp only [serialize, h ctr (Nat.le_refl _)]
    | cons c' cs' =>
      simp only [serialize, h ctr (Nat.le_refl _)]
      rw [ih (ctr+1) (fun i hi => h i (by omega))]

theorem rawRecord_eq_record (A : Aead) (key aad cf : Bytes) (ctr : Nat) (last : Bool) (pt : Bytes) :
    rawRecord A key aad cf (be32 (if last then 1 else 0)) ctr pt = record A key aad cf ctr last pt := rfl

/-- **Authenticity and strictness together, per input.**  For every byte string: either it exhibits the bad event,
    or the writes are a prefix of the authentic chunk list and, on acceptance, they are the whole list and the
    input is the authentic stream up to its advisory counter fields. -/
theorem decLoop_reduction (A : Aead) (key aad : Bytes) (hS : A.SoundAt key) (cs : Nat) :
    ∀ (cl : List Bytes) (ctr : Nat), cl ≠ [] → (∀ c ∈ cl, c.length < 2^32) →
      ∀ (fuel : Nat) (inp : Bytes),
        ForgeryIn A key aad ctr cl inp ∨
        ((decLoop A key aad cs fuel ctr inp).1 <+: cl ∧
         ((decLoop A key aad cs fuel ctr inp).2 = .ok →
            (decLoop A key aad cs fuel ctr inp).1 = cl ∧
            ∃ cf : Nat → Bytes, (∀ i, (cf i).length = 8) ∧ inp = serialize A key aad cf ctr cl)) := by
  intro cl
  induction cl with
  | nil => intro _ h; exact absurd rfl h
  | cons c rest ih =>
    intro ctr _ hlen fuel inp
    cases fuel with
    | zero => right; simp [decLoop]
    | succ f =>
      rcases decLoop_step A key aad hS cs f ctr inp with ⟨hnil, hne⟩ | ⟨cf0, lastB, pt, rest', hcf, hlb, hpt, hinp, hdec, heq⟩
      · right; rw [hnil]; exact ⟨List.nil_prefix, fun h => absurd h hne⟩
      · by_cases hmem : (ctr, aad ++ lastB ++ be32 pt.length, pt) ∈ honest aad ctr (c :: rest)
        · cases rest with
          | nil =>
            simp only [honest, List.mem_singleton, Prod.mk.injEq, true_and] at hmem
            obtain ⟨had, hptc⟩ := hmem
            have ⟨hl, _⟩ := split_ad _ _ _ _ _ (by rw [hlb]; rfl) had
            subst hptc
            right
            rw [heq, hl, beVal_be32 1 (by decide), if_pos rfl]
            by_cases hr : rest'.length ≠ 0
            · rw [if_pos hr]; exact ⟨List.nil_prefix, fun h => by simp at h⟩
            · rw [if_neg hr]
              have hr' : rest' = [] := List.eq_nil_of_length_eq_zero (by simpa using hr)
              refine ⟨List.prefix_refl _, fun _ => ⟨rfl, fun _ => cf0, fun _ => hcf, ?_⟩⟩
              rw [hinp, hr', hl, List.append_nil]; rfl
          | cons c' cs' =>
            simp only [honest, List.mem_cons, Prod.mk.injEq, true_and] at hmem
            rcases hmem with ⟨had, hptc⟩ | htail
            · have ⟨hl, _⟩ := split_ad _ _ _ _ _ (by rw [hlb]; rfl) had
              subst hptc
              have h01 : ¬ beVal (be32 0) = 1 := by rw [beVal_be32 0 (by decide)]; decide
              rcases ih (ctr+1) (by simp) (fun x hx => hlen x (by simp [hx])) f rest' with hf | ⟨hpre, hok⟩
              · left
                obtain ⟨n, ad, ct, p, hin, hn, hd, hnot⟩ := hf
                refine ⟨n, ad, ct, p, ?_, by omega, hd, ?_⟩
                · rw [hinp]; exact List.IsInfix.trans hin (List.suffix_append _ rest').isInfix
                · intro hm
                  simp only [honest, List.mem_cons, Prod.mk.injEq] at hm
                  rcases hm with ⟨hn0, _⟩ | hm
                  · omega
                  · exact hnot hm
              · right
                rw [heq, hl, if_neg h01]
                refine ⟨(List.prefix_cons_inj pt).mpr hpre, fun h => ?_⟩
                obtain ⟨hws, cf', hcf', hser⟩ := hok h
                refine ⟨by rw [hws], fun i => if i = ctr then cf0 else cf' i, ?_, ?_⟩
                · intro i; by_cases hi : i = ctr
                  · simp only [hi, if_true]; exact hcf
                  · simp only [hi, if_false]; exact hcf' i
                · rw [hinp, hl, hser]
                  simp only [serialize, if_true]
                  rw [serialize_congr A key aad (fun i => if i = ctr then cf0 else cf' i) cf' _ (ctr+1)
                    (fun i hi => by have : i ≠ ctr := by omega
                                    simp only [this, if_false])]
                  rfl
            · have := honest_nonce_ge aad (c' :: cs') (ctr+1) ctr _ _ htail
              omega
        · left
          refine ⟨ctr, aad ++ lastB ++ be32 pt.length, _, pt, ?_, Nat.le_refl _, hdec, hmem⟩
          rw [hinp]
          exact ⟨cf0 ++ lastB ++ be32 pt.length, rest', by simp [rawRecord]⟩

end Kestrel
