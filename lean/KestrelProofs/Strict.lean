/-
  Strictness of the stream decryptor and of the Noise reader (pure level), and the per-input reduction
  lemmas used by C02–C05.

  Nothing here is a hardness assumption.  The bad events that the property theorems mention
  (`ForgeryIn`, cross-key opens, collisions) are *named* here and in the property files; they are never
  assumed away globally.
-/
import KestrelProofs.File
import KestrelProofs.Prims
namespace Kestrel
open Generated

/-! ### byte-level helpers -/

theorem beVal_lt_of_length4 (b : Bytes) (h : b.length = 4) : beVal b < 2^32 := by
  match b, h with
  | [a0,a1,a2,a3], _ =>
    have h0 := a0.toNat_lt; have h1 := a1.toNat_lt; have h2 := a2.toNat_lt; have h3 := a3.toNat_lt
    simp only [beVal, List.length_cons, List.length_nil]
    omega

/-- `be32` is the inverse of `beVal` on 4-byte strings: the length field has a unique encoding. -/
theorem be32_beVal (b : Bytes) (h : b.length = 4) : be32 (beVal b) = b := by
  match b, h with
  | [a0,a1,a2,a3], _ =>
    have h0 := a0.toNat_lt; have h1 := a1.toNat_lt; have h2 := a2.toNat_lt; have h3 := a3.toNat_lt
    simp only [beVal, be32, List.length_cons, List.length_nil]
    have e0 : (a0.toNat * 256 ^ (0+1+1+1) + (a1.toNat * 256 ^ (0+1+1) + (a2.toNat * 256 ^ (0+1) + (a3.toNat * 256 ^ 0 + 0)))) / 2^24 % 256 = a0.toNat := by omega
    have e1 : (a0.toNat * 256 ^ (0+1+1+1) + (a1.toNat * 256 ^ (0+1+1) + (a2.toNat * 256 ^ (0+1) + (a3.toNat * 256 ^ 0 + 0)))) / 2^16 % 256 = a1.toNat := by omega
    have e2 : (a0.toNat * 256 ^ (0+1+1+1) + (a1.toNat * 256 ^ (0+1+1) + (a2.toNat * 256 ^ (0+1) + (a3.toNat * 256 ^ 0 + 0)))) / 2^8 % 256 = a2.toNat := by omega
    have e3 : (a0.toNat * 256 ^ (0+1+1+1) + (a1.toNat * 256 ^ (0+1+1) + (a2.toNat * 256 ^ (0+1) + (a3.toNat * 256 ^ 0 + 0)))) % 256 = a3.toNat := by omega
    rw [e0, e1, e2, e3]
    simp only [UInt8.ofNat_toNat]

/-- a 16-byte header splits into its three fields -/
theorem hdr_split (hdr : Bytes) : hdr = hdr.take 8 ++ (hdr.drop 8).take 4 ++ hdr.drop 12 := by
  have h1 : hdr.drop 12 = (hdr.drop 8).drop 4 := by rw [List.drop_drop]
  rw [h1, List.append_assoc, List.take_append_drop, List.take_append_drop]

/-! ### per-key laws, raw records -/

/-- The two functional AEAD laws that strictness needs, for one key, *without* the round trip.
    (A table-backed AEAD satisfies these but not `Lawful.dec_enc`.) -/
structure Aead.SoundAt (A : Aead) (key : Bytes) : Prop where
  enc_length : ∀ n ad p, (A.enc key n ad p).length = p.length + 16
  dec_sound : ∀ n ad c p, A.dec key n ad c = some p → c = A.enc key n ad p

theorem Aead.Lawful.soundAt {A : Aead} (hA : A.Lawful) {key : Bytes} (hk : key.length = 32) : A.SoundAt key :=
  ⟨fun n ad p => hA.enc_length key n ad p hk, fun n ad c p h => hA.dec_sound key n ad c p hk h⟩

/-- a record with *arbitrary* 8 counter bytes and 4 flag bytes: the only freedom the decryptor leaves -/
def rawRecord (A : Aead) (key aad cf lastB : Bytes) (ctr : Nat) (pt : Bytes) : Bytes :=
  cf ++ lastB ++ be32 pt.length ++ A.enc key ctr (aad ++ lastB ++ be32 pt.length) pt

/-- concatenation of raw records for (counter bytes, flag bytes, plaintext) triples, consecutive nonces -/
def rawSerialize (A : Aead) (key aad : Bytes) : Nat → List (Bytes × Bytes × Bytes) → Bytes
  | _, [] => []
  | ctr, h :: rest => rawRecord A key aad h.1 h.2.1 ctr h.2.2 ++ rawSerialize A key aad (ctr+1) rest

/-- the body of `decLoop` with its `let`s inlined -/
theorem decLoop_unfold (A : Aead) (key aad : Bytes) (cs fuel ctr : Nat) (inp : Bytes) :
    decLoop A key aad cs (fuel+1) ctr inp =
      if inp.length < 16 then ([], .ioRead) else
      if beVal ((inp.take 16).drop 12) > cs then ([], .chunkLen) else
      if (inp.drop 16).length < beVal ((inp.take 16).drop 12) + 16 then ([], .ioRead) else
      match A.dec key ctr (aad ++ ((inp.take 16).drop 8).take 4 ++ (inp.take 16).drop 12)
          ((inp.drop 16).take (beVal ((inp.take 16).drop 12) + 16)) with
      | none => ([], .auth)
      | some pt =>
        if beVal (((inp.take 16).drop 8).take 4) == 1 then
          if ((inp.drop 16).drop (beVal ((inp.take 16).drop 12) + 16)).length ≠ 0 then ([], .unexpectedData) else ([pt], .ok)
        else
          (pt :: (decLoop A key aad cs fuel (ctr+1) ((inp.drop 16).drop (beVal ((inp.take 16).drop 12) + 16))).1,
            (decLoop A key aad cs fuel (ctr+1) ((inp.drop 16).drop (beVal ((inp.take 16).drop 12) + 16))).2) := by
    simp only [decLoop]; rfl

/-- **One step of the decryptor, inverted.**  For every input: either the step fails having written nothing,
    or the input *is* a raw record (counter bytes, flag bytes, canonical length, sealing of the plaintext that
    was released) followed by some rest, and the loop continues on exactly that rest. -/
theorem decLoop_step (A : Aead) (key aad : Bytes) (hS : A.SoundAt key) (cs fuel ctr : Nat) (inp : Bytes) :
    ((decLoop A key aad cs (fuel+1) ctr inp).1 = [] ∧ (decLoop A key aad cs (fuel+1) ctr inp).2 ≠ .ok) ∨
    ∃ cf lastB pt rest', cf.length = 8 ∧ lastB.length = 4 ∧ pt.length ≤ cs ∧
      inp = rawRecord A key aad cf lastB ctr pt ++ rest' ∧
      A.dec key ctr (aad ++ lastB ++ be32 pt.length) (A.enc key ctr (aad ++ lastB ++ be32 pt.length) pt) = some pt ∧
      decLoop A key aad cs (fuel+1) ctr inp =
        if beVal lastB = 1 then (if rest'.length ≠ 0 then ([], .unexpectedData) else ([pt], .ok))
        else (pt :: (decLoop A key aad cs fuel (ctr+1) rest').1, (decLoop A key aad cs fuel (ctr+1) rest').2) := by
  rw [decLoop_unfold]
  by_cases h16 : inp.length < 16
  · left; rw [if_pos h16]; exact ⟨rfl, by simp⟩
  rw [if_neg h16]
  by_cases hcs : beVal ((inp.take 16).drop 12) > cs
  · left; rw [if_pos hcs]; exact ⟨rfl, by simp⟩
  rw [if_neg hcs]
  by_cases hrest : (inp.drop 16).length < beVal ((inp.take 16).drop 12) + 16
  · left; rw [if_pos hrest]; exact ⟨rfl, by simp⟩
  rw [if_neg hrest]
  cases hdec : A.dec key ctr (aad ++ ((inp.take 16).drop 8).take 4 ++ (inp.take 16).drop 12)
      ((inp.drop 16).take (beVal ((inp.take 16).drop 12) + 16)) with
  | none => left; exact ⟨rfl, by simp⟩
  | some pt =>
    right
    have hL4 : (((inp.take 16).drop 8).take 4).length = 4 := by
      simp only [List.length_take, List.length_drop]; omega
    have hN4 : ((inp.take 16).drop 12).length = 4 := by
      simp only [List.length_take, List.length_drop]; omega
    have hC8 : ((inp.take 16).take 8).length = 8 := by
      simp only [List.length_take]; omega
    have hbody := hS.dec_sound _ _ _ _ hdec
    have hbl : ((inp.drop 16).take (beVal ((inp.take 16).drop 12) + 16)).length = pt.length + 16 := by
      rw [hbody]; exact hS.enc_length _ _ _
    have hlen : pt.length = beVal ((inp.take 16).drop 12) := by
      simp only [List.length_take, List.length_drop] at hbl hrest ⊢; omega
    have hlenB : be32 pt.length = (inp.take 16).drop 12 := by rw [hlen]; exact be32_beVal _ hN4
    refine ⟨(inp.take 16).take 8, ((inp.take 16).drop 8).take 4, pt,
      (inp.drop 16).drop (beVal ((inp.take 16).drop 12) + 16), hC8, hL4, by omega, ?_, ?_, ?_⟩
    · simp only [rawRecord, hlenB]
      rw [← hbody, ← hdr_split, List.append_assoc, List.take_append_drop, List.take_append_drop]
    · rw [hlenB, ← hbody]; exact hdec
    · by_cases hl : beVal (((inp.take 16).drop 8).take 4) = 1
      · simp only [hl, beq_self_eq_true, if_true]
      · have : (beVal (((inp.take 16).drop 8).take 4) == 1) = false := by simpa using hl
        simp only [this, hl, if_false, Bool.false_eq_true]

/-- **Strictness of the stream decryptor.**  Whatever byte string is accepted is a sequence of raw records with
    consecutive nonces, canonical length fields, bodies that are exactly the sealings of the released chunks,
    flag value 1 on the last record and only there, and nothing after it. -/
theorem decLoop_strict (A : Aead) (key aad : Bytes) (hS : A.SoundAt key) (cs : Nat) :
    ∀ (fuel ctr : Nat) (inp : Bytes) (ws : List Bytes),
      decLoop A key aad cs fuel ctr inp = (ws, .ok) →
      ∃ (init : List (Bytes × Bytes × Bytes)) (l : Bytes × Bytes × Bytes),
        (init ++ [l]).map (·.2.2) = ws ∧ inp = rawSerialize A key aad ctr (init ++ [l]) ∧
        (∀ h ∈ init ++ [l], h.1.length = 8 ∧ h.2.1.length = 4 ∧ h.2.2.length ≤ cs) ∧
        beVal l.2.1 = 1 ∧ (∀ h ∈ init, beVal h.2.1 ≠ 1) := by
  intro fuel
  induction fuel with
  | zero => intro ctr inp ws h; simp [decLoop] at h
  | succ f ih =>
    intro ctr inp ws h
    rcases decLoop_step A key aad hS cs f ctr inp with ⟨_, hne⟩ | ⟨cf, lastB, pt, rest', hcf, hlb, hpt, hinp, _, heq⟩
    · rw [h] at hne; exact absurd rfl hne
    · rw [heq] at h
      by_cases hl : beVal lastB = 1
      · rw [if_pos hl] at h
        by_cases hr : rest'.length ≠ 0
        · rw [if_pos hr] at h; simp at h
        · rw [if_neg hr] at h
          have hr' : rest' = [] := List.eq_nil_of_length_eq_zero (by simpa using hr)
          simp only [Prod.mk.injEq, and_true] at h
          refine ⟨[], (cf, lastB, pt), by simpa using h, ?_, ?_, hl, by simp⟩
          · simp [rawSerialize, hinp, hr']
          · intro x hx
            simp only [List.nil_append, List.mem_singleton] at hx
            subst hx; exact ⟨hcf, hlb, hpt⟩
      · rw [if_neg hl] at h
        simp only [Prod.mk.injEq] at h
        obtain ⟨hws, hres⟩ := h
        obtain ⟨init, l, hmap, hser, hall, hlast, hinit⟩ :=
          ih (ctr+1) rest' (decLoop A key aad cs f (ctr+1) rest').1 (by rw [← hres])
        refine ⟨(cf, lastB, pt) :: init, l, ?_, ?_, ?_, hlast, ?_⟩
        · rw [← hws, List.cons_append, List.map_cons, hmap]
        · rw [List.cons_append, rawSerialize, ← hser, hinp]
        · intro x hx
          rw [List.cons_append, List.mem_cons] at hx
          rcases hx with rfl | hx
          · exact ⟨hcf, hlb, hpt⟩
          · exact hall x hx
        · intro x hx
          rw [List.mem_cons] at hx
          rcases hx with rfl | hx
          · exact hl
          · exact hinit x hx

/-! ### the per-input reduction -/

/-- **Bad event (forgery), named from the input.**  `inp` contains a contiguous byte string that opens under `key`
    — for some nonce `≥ ctr` and some associated data — to something that is *not* one of the honest records.
    This is an INT-CTXT break for the key; it is never assumed away globally (for a real AEAD such strings
    exist), it is the second disjunct of every reduction below. -/
def ForgeryIn (A : Aead) (key aad : Bytes) (ctr : Nat) (cl : List Bytes) (inp : Bytes) : Prop :=
  ∃ n ad c p, c <:+: inp ∧ ctr ≤ n ∧ A.dec key n ad c = some p ∧ (n, ad, p) ∉ honest aad ctr cl

/-- the global hypothesis implies that no input exhibits the bad event -/
theorem NoForgeryFrom.not_forgeryIn {A : Aead} {key aad : Bytes} {ctr : Nat} {cl : List Bytes}
    (h : NoForgeryFrom A key aad ctr cl) (inp : Bytes) : ¬ ForgeryIn A key aad ctr cl inp := by
  rintro ⟨n, ad, c, p, _, hn, hd, hnot⟩
  exact hnot (h n ad c p hd hn)

theorem honest_ad_length (aad : Bytes) : ∀ (cl : List Bytes) (ctr n : Nat) (ad p : Bytes),
    (n, ad, p) ∈ honest aad ctr cl → ad.length = aad.length + 8 := by
  intro cl
  induction cl with
  | nil => intro _ _ _ _ h; simp [honest] at h
  | cons c rest ih =>
    intro ctr n ad p h
    cases rest with
    | nil =>
      simp only [honest, List.mem_singleton, Prod.mk.injEq] at h
      rw [h.2.1]; simp [be32_length]
    | cons c' cs' =>
      simp only [honest, List.mem_cons, Prod.mk.injEq] at h
      rcases h with h | h
      · rw [h.2.1]; simp [be32_length]
      · exact ih (ctr+1) n ad p h

/-- **Remark on `NoForgeryFrom`.**  As a *global* hypothesis it contradicts the round-trip law at the same key:
    sealing anything under `key` with an associated-data string that is not of the honest shape yields a
    ciphertext that opens and is not honest.  Hence the reductions are stated per input, with `ForgeryIn` as a
    disjunct, and the `NoForgeryFrom` forms only under `SoundAt` (no `dec_enc`). -/
theorem NoForgeryFrom.contradicts_dec_enc {A : Aead} {key aad : Bytes} {ctr : Nat} {cl : List Bytes}
    (h : NoForgeryFrom A key aad ctr cl) (hde : A.dec key ctr aad (A.enc key ctr aad []) = some []) : False := by
  have := honest_ad_length aad cl ctr ctr aad [] (h ctr aad _ [] hde (Nat.le_refl _))
  omega

theorem serialize_congr (A : Aead) (key aad : Bytes) (cf cf' : Nat → Bytes) :
    ∀ (cl : List Bytes) (ctr : Nat), (∀ i, ctr ≤ i → cf i = cf' i) →
      serialize A key aad cf ctr cl = serialize A key aad cf' ctr cl := by
  intro cl
  induction cl with
  | nil => intro _ _; rfl
  | cons c rest ih =>
    intro ctr h
    cases rest with
    | nil => simp only [serialize, h ctr (Nat.le_refl _)]
    | cons c' cs' =>
      simp only [serialize, h ctr (Nat.le_refl _)]
      rw [ih (ctr+1) (fun i hi => h i (by omega))]

theorem rawRecord_eq_record (A : Aead) (key aad cf : Bytes) (ctr : Nat) (last : Bool) (pt : Bytes) :
    rawRecord A key aad cf (be32 (if last then 1 else 0)) ctr pt = record A key aad cf ctr last pt := rfl

/-- **Authenticity and strictness together, per input.**  For every byte string: either it exhibits the bad event,
    or the writes are a prefix of the authentic chunk list and, on acceptance, they are the whole list and the
    input is the authentic stream up to its advisory counter fields. -/
theorem decLoop_reduction (A : Aead) (key aad : Bytes) (hS : A.SoundAt key) (cs : Nat) :
    ∀ (cl : List Bytes) (ctr : Nat), cl ≠ [] → (∀ c ∈ cl, c.length < 2^32) →
      ∀ (fuel : Nat) (inp : Bytes),
        ForgeryIn A key aad ctr cl inp ∨
        ((decLoop A key aad cs fuel ctr inp).1 <+: cl ∧
         ((decLoop A key aad cs fuel ctr inp).2 = .ok →
            (decLoop A key aad cs fuel ctr inp).1 = cl ∧
            ∃ cf : Nat → Bytes, (∀ i, (cf i).length = 8) ∧ inp = serialize A key aad cf ctr cl)) := by
  intro cl
  induction cl with
  | nil => intro _ h; exact absurd rfl h
  | cons c rest ih =>
    intro ctr _ hlen fuel inp
    cases fuel with
    | zero => right; simp [decLoop]
    | succ f =>
      rcases decLoop_step A key aad hS cs f ctr inp with ⟨hnil, hne⟩ | ⟨cf0, lastB, pt, rest', hcf, hlb, hpt, hinp, hdec, heq⟩
      · right; rw [hnil]; exact ⟨List.nil_prefix, fun h => absurd h hne⟩
      · by_cases hmem : (ctr, aad ++ lastB ++ be32 pt.length, pt) ∈ honest aad ctr (c :: rest)
        · cases rest with
          | nil =>
            simp only [honest, List.mem_singleton, Prod.mk.injEq, true_and] at hmem
            obtain ⟨had, hptc⟩ := hmem
            have ⟨hl, _⟩ := split_ad _ _ _ _ _ (by rw [hlb]; rfl) had
            subst hptc
            right
            rw [heq, hl, beVal_be32 1 (by decide), if_pos rfl]
            by_cases hr : rest'.length ≠ 0
            · rw [if_pos hr]; exact ⟨List.nil_prefix, fun h => by simp at h⟩
            · rw [if_neg hr]
              have hr' : rest' = [] := List.eq_nil_of_length_eq_zero (by simpa using hr)
              refine ⟨List.prefix_refl _, fun _ => ⟨rfl, fun _ => cf0, fun _ => hcf, ?_⟩⟩
              rw [hinp, hr', hl, List.append_nil]; rfl
          | cons c' cs' =>
            simp only [honest, List.mem_cons, Prod.mk.injEq, true_and] at hmem
            rcases hmem with ⟨had, hptc⟩ | htail
            · have ⟨hl, _⟩ := split_ad _ _ _ _ _ (by rw [hlb]; rfl) had
              subst hptc
              have h01 : ¬ beVal (be32 0) = 1 := by rw [beVal_be32 0 (by decide)]; decide
              rcases ih (ctr+1) (by simp) (fun x hx => hlen x (by simp [hx])) f rest' with hf | ⟨hpre, hok⟩
              · left
                obtain ⟨n, ad, ct, p, hin, hn, hd, hnot⟩ := hf
                refine ⟨n, ad, ct, p, ?_, by omega, hd, ?_⟩
                · rw [hinp]; exact List.IsInfix.trans hin (List.suffix_append _ rest').isInfix
                · intro hm
                  simp only [honest, List.mem_cons, Prod.mk.injEq] at hm
                  rcases hm with ⟨hn0, _⟩ | hm
                  · omega
                  · exact hnot hm
              · right
                rw [heq, hl, if_neg h01]
                refine ⟨(List.prefix_cons_inj pt).mpr hpre, fun h => ?_⟩
                obtain ⟨hws, cf', hcf', hser⟩ := hok h
                refine ⟨by rw [hws], fun i => if i = ctr then cf0 else cf' i, ?_, ?_⟩
                · intro i; by_cases hi : i = ctr
                  · simp only [hi, if_true]; exact hcf
                  · simp only [hi, if_false]; exact hcf' i
                · rw [hinp, hl, hser]
                  simp only [serialize, if_true]
                  rw [serialize_congr A key aad (fun i => if i = ctr then cf0 else cf' i) cf' _ (ctr+1)
                    (fun i hi => by have : i ≠ ctr := by omega
                                    simp only [this, if_false])]
                  rfl
            · have := honest_nonce_ge aad (c' :: cs') (ctr+1) ctr _ _ htail
              omega
        · left
          refine ⟨ctr, aad ++ lastB ++ be32 pt.length, _, pt, ?_, Nat.le_refl _, hdec, hmem⟩
          rw [hinp]
          exact ⟨cf0 ++ lastB ++ be32 pt.length, rest', by simp [rawRecord]⟩

/-! ### framing of one well-formed record under an arbitrary key -/

/-- What the decryptor does with a well-framed record whose body it may or may not be able to open
    (the body need not have been sealed under `key`): the *only* thing consulted is `A.dec key ctr ad body`. -/
theorem decLoop_frame (A : Aead) (key aad : Bytes) (cs fuel ctr : Nat) (cf lastB body tail : Bytes) (n : Nat)
    (hcf : cf.length = 8) (hlb : lastB.length = 4) (hn : n ≤ cs) (hn32 : n < 2^32) (hb : body.length = n + 16) :
    decLoop A key aad cs (fuel+1) ctr (cf ++ lastB ++ be32 n ++ body ++ tail) =
      match A.dec key ctr (aad ++ lastB ++ be32 n) body with
      | none => ([], .auth)
      | some pt =>
        if beVal lastB = 1 then (if tail.length ≠ 0 then ([], .unexpectedData) else ([pt], .ok))
        else (pt :: (decLoop A key aad cs fuel (ctr+1) tail).1, (decLoop A key aad cs fuel (ctr+1) tail).2) := by
  have hN4 : (be32 n).length = 4 := rfl
  have hlen : (cf ++ lastB ++ be32 n ++ body ++ tail).length = 16 + (n + 16) + tail.length := by
    simp only [List.length_append, hcf, hlb, hN4, hb]
  have t16 : (cf ++ lastB ++ be32 n ++ body ++ tail).take 16 = cf ++ lastB ++ be32 n := by
    rw [List.append_assoc (cf ++ lastB ++ be32 n)]
    exact List.take_left' (by simp only [List.length_append, hcf, hlb, hN4])
  have d16 : (cf ++ lastB ++ be32 n ++ body ++ tail).drop 16 = body ++ tail := by
    rw [List.append_assoc (cf ++ lastB ++ be32 n)]
    exact List.drop_left' (by simp only [List.length_append, hcf, hlb, hN4])
  have tl : ((cf ++ lastB ++ be32 n).drop 8).take 4 = lastB := by
    rw [List.append_assoc, List.drop_left' hcf]; exact List.take_left' hlb
  have tn : (cf ++ lastB ++ be32 n).drop 12 = be32 n :=
    List.drop_left' (by simp only [List.length_append, hcf, hlb])
  have tb : (body ++ tail).take (n + 16) = body := List.take_left' hb
  have db : (body ++ tail).drop (n + 16) = tail := List.drop_left' hb
  rw [decLoop_unfold, t16, d16, tl, tn, beVal_be32 n hn32, tb, db,
    if_neg (by rw [hlen]; omega), if_neg (by omega), if_neg (by simp only [List.length_append, hb]; omega)]
  cases A.dec key ctr (aad ++ lastB ++ be32 n) body with
  | none => rfl
  | some pt =>
    by_cases hl : beVal lastB = 1
    · simp only [hl, beq_self_eq_true, if_true]
    · have : (beVal lastB == 1) = false := by simpa using hl
      simp only [this, hl, if_false, Bool.false_eq_true]

/-- **Nothing is written unless the first record opens.**  Whatever the input, if `A.dec` rejects the first
    record (the decryptor's own framing of it), or the framing itself fails, the list of writes is empty and the
    result is an error. -/
theorem decLoop_first_fail (A : Aead) (key aad : Bytes) (cs fuel ctr : Nat) (inp : Bytes)
    (h : inp.length < 16 ∨ beVal ((inp.take 16).drop 12) > cs ∨
         (inp.drop 16).length < beVal ((inp.take 16).drop 12) + 16 ∨
         A.dec key ctr (aad ++ ((inp.take 16).drop 8).take 4 ++ (inp.take 16).drop 12)
           ((inp.drop 16).take (beVal ((inp.take 16).drop 12) + 16)) = none) :
    (decLoop A key aad cs fuel ctr inp).1 = [] ∧ (decLoop A key aad cs fuel ctr inp).2 ≠ .ok := by
  cases fuel with
  | zero => simp [decLoop]
  | succ f =>
    rw [decLoop_unfold]
    by_cases h1 : inp.length < 16
    · rw [if_pos h1]; exact ⟨rfl, by simp⟩
    rw [if_neg h1]
    by_cases h2 : beVal ((inp.take 16).drop 12) > cs
    · rw [if_pos h2]; exact ⟨rfl, by simp⟩
    rw [if_neg h2]
    by_cases h3 : (inp.drop 16).length < beVal ((inp.take 16).drop 12) + 16
    · rw [if_pos h3]; exact ⟨rfl, by simp⟩
    rw [if_neg h3]
    rcases h with h | h | h | h
    · exact absurd h h1
    · exact absurd h h2
    · exact absurd h h3
    · rw [h]; exact ⟨rfl, by simp⟩

/-- Conversely: a non-empty list of writes means the first record opened, to the first write. -/
theorem decLoop_first_write (A : Aead) (key aad : Bytes) (cs fuel ctr : Nat) (inp : Bytes) (w : Bytes) (ws : List Bytes)
    (h : (decLoop A key aad cs fuel ctr inp).1 = w :: ws) :
    A.dec key ctr (aad ++ ((inp.take 16).drop 8).take 4 ++ (inp.take 16).drop 12)
      ((inp.drop 16).take (beVal ((inp.take 16).drop 12) + 16)) = some w := by
  cases fuel with
  | zero => simp [decLoop] at h
  | succ f =>
    rw [decLoop_unfold] at h
    split at h
    · simp at h
    split at h
    · simp at h
    split at h
    · simp at h
    split at h
    · simp at h
    · rename_i pt hd
      rw [hd]
      split at h
      · split at h
        · simp at h
        · simp only [List.cons.injEq] at h; rw [h.1]
      · simp only [List.cons.injEq] at h; rw [h.1]

/-! ### file level: what the entry points do with the header -/

theorem passEncrypt_eq_serialize (P : Prims) (pw salt : Bytes) (reads : List Bytes) (hwf : wellFormedReads reads) :
    passEncrypt P pw salt reads =
      (encPassMagic ++ salt ++ serialize P.aead (P.kdf pw salt) encPassMagic be64 0 (fileChunks reads), .ok) := by
  simp [passEncrypt, encryptChunks_eq P.aead _ encPassMagic reads hwf]

theorem keyEncrypt_eq_serialize (P : Prims) (s spk rs e epk pk msg h : Bytes) (reads : List Bytes) (hwf : wellFormedReads reads)
    (hw : Noise.writeMessage P encPrologue s spk rs e epk pk = .ok (msg, h)) :
    keyEncrypt P s spk rs e epk pk reads =
      (encPrologue ++ msg ++ serialize P.aead (P.hkdfFile pk h) [] be64 0 (fileChunks reads), .ok) := by
  simp [keyEncrypt, hw, encryptChunks_eq P.aead _ [] reads hwf]

theorem validFileFormat_some_false {h : Bytes} (hv : validFileFormat h = some false) : h = encPassMagic := by
  unfold validFileFormat at hv
  split at hv
  · simp at hv
  · split at hv
    · rw [gen_pass_magic_agree]; assumption
    · simp at hv

theorem validFileFormat_some_true {h : Bytes} (hv : validFileFormat h = some true) : h = encPrologue := by
  unfold validFileFormat at hv
  split at hv
  · rw [gen_asym_magic_agree]; assumption
  · split at hv <;> simp at hv

theorem passDecrypt_unfold (P : Prims) (pw inp : Bytes) :
    passDecrypt P pw inp =
      if inp.length < 4 then ([], .ioRead) else
      match validFileFormat (inp.take 4) with
      | none => ([], .format)
      | some true => ([], .other)
      | some false =>
        if (inp.drop 4).length < 32 then ([], .ioRead) else
        decryptChunks P.aead (P.kdf pw ((inp.drop 4).take 32)) (inp.take 4) chunkSize ((inp.drop 4).drop 32) := by
  simp only [passDecrypt]; rfl

theorem keyDecrypt_unfold (P : Prims) (r rpk inp : Bytes) :
    keyDecrypt P r rpk inp =
      if inp.length < 4 then ([], .ioRead, none) else
      match validFileFormat (inp.take 4) with
      | none => ([], .format, none)
      | some false => ([], .other, none)
      | some true =>
        if (inp.drop 4).length < handshakeLen then ([], .ioRead, none) else
        match Noise.readMessage P (inp.take 4) r rpk ((inp.drop 4).take handshakeLen) with
        | .error _ => ([], .other, none)
        | .ok (pk, spk, h) =>
          if pk.length ≠ 32 then ([], .other, none) else
          ((decryptChunks P.aead (P.hkdfFile pk h) [] chunkSize ((inp.drop 4).drop handshakeLen)).1,
           (decryptChunks P.aead (P.hkdfFile pk h) [] chunkSize ((inp.drop 4).drop handshakeLen)).2,
           if (decryptChunks P.aead (P.hkdfFile pk h) [] chunkSize ((inp.drop 4).drop handshakeLen)).2 = .ok
             then some spk else none) := by
  simp only [keyDecrypt]; rfl

/-- a changed magic number is compared and rejected before anything else happens (password mode) -/
theorem passDecrypt_bad_magic (P : Prims) (pw inp : Bytes) (h : inp.take 4 ≠ encPassMagic) :
    (passDecrypt P pw inp).1 = [] ∧ (passDecrypt P pw inp).2 ≠ .ok := by
  rw [passDecrypt_unfold]
  split
  · exact ⟨rfl, by simp⟩
  · split
    · exact ⟨rfl, by simp⟩
    · exact ⟨rfl, by simp⟩
    · rename_i hv; exact absurd (validFileFormat_some_false hv) h

/-- a changed magic number is compared and rejected before anything else happens (key mode) -/
theorem keyDecrypt_bad_magic (P : Prims) (r rpk inp : Bytes) (h : inp.take 4 ≠ encPrologue) :
    (keyDecrypt P r rpk inp).1 = [] ∧ (keyDecrypt P r rpk inp).2.1 ≠ .ok ∧ (keyDecrypt P r rpk inp).2.2 = none := by
  rw [keyDecrypt_unfold]
  split
  · exact ⟨rfl, by simp, rfl⟩
  · split
    · exact ⟨rfl, by simp, rfl⟩
    · exact ⟨rfl, by simp, rfl⟩
    · rename_i hv; exact absurd (validFileFormat_some_true hv) h

theorem passDecrypt_short (P : Prims) (pw inp : Bytes) (h : inp.length < 36) :
    (passDecrypt P pw inp).1 = [] ∧ (passDecrypt P pw inp).2 ≠ .ok := by
  rw [passDecrypt_unfold]
  split
  · exact ⟨rfl, by simp⟩
  · split
    · exact ⟨rfl, by simp⟩
    · exact ⟨rfl, by simp⟩
    · have : (inp.drop 4).length < 32 := by simp only [List.length_drop]; omega
      rw [if_pos this]; exact ⟨rfl, by simp⟩

/-- with the right magic and at least 36 bytes, password-mode decryption *is* the stream decryptor under the
    key derived from the password and bytes 4..36 -/
theorem passDecrypt_body (P : Prims) (pw inp : Bytes) (hm : inp.take 4 = encPassMagic) (hl : 36 ≤ inp.length) :
    passDecrypt P pw inp =
      decryptChunks P.aead (P.kdf pw ((inp.drop 4).take 32)) encPassMagic chunkSize (inp.drop 36) := by
  have h4 : ¬ inp.length < 4 := by omega
  have h32 : ¬ (inp.drop 4).length < 32 := by simp only [List.length_drop]; omega
  rw [passDecrypt_unfold, if_neg h4, hm, validFileFormat_pass]
  simp only [h32, if_false, List.drop_drop]

theorem keyDecrypt_short (P : Prims) (r rpk inp : Bytes) (h : inp.length < 132) :
    (keyDecrypt P r rpk inp).1 = [] ∧ (keyDecrypt P r rpk inp).2.1 ≠ .ok := by
  rw [keyDecrypt_unfold]
  split
  · exact ⟨rfl, by simp⟩
  · split
    · exact ⟨rfl, by simp⟩
    · exact ⟨rfl, by simp⟩
    · have : (inp.drop 4).length < handshakeLen := by
        rw [gen_handshakeLen]; simp only [List.length_drop]; omega
      rw [if_pos this]; exact ⟨rfl, by simp⟩

/-- with the right magic and at least 132 bytes, key-mode decryption is: read the handshake message, then run the
    stream decryptor under the derived file key -/
theorem keyDecrypt_body (P : Prims) (r rpk inp : Bytes) (hm : inp.take 4 = encPrologue) (hl : 132 ≤ inp.length) :
    keyDecrypt P r rpk inp =
      match Noise.readMessage P encPrologue r rpk ((inp.drop 4).take 128) with
      | .error _ => ([], .other, none)
      | .ok (pk, spk, h) =>
        if pk.length ≠ 32 then ([], .other, none) else
        ((decryptChunks P.aead (P.hkdfFile pk h) [] chunkSize (inp.drop 132)).1,
         (decryptChunks P.aead (P.hkdfFile pk h) [] chunkSize (inp.drop 132)).2,
         if (decryptChunks P.aead (P.hkdfFile pk h) [] chunkSize (inp.drop 132)).2 = .ok then some spk else none) := by
  have h4 : ¬ inp.length < 4 := by omega
  have h128 : ¬ (inp.drop 4).length < 128 := by
    simp only [List.length_drop]; omega
  rw [keyDecrypt_unfold, if_neg h4, hm, validFileFormat_asym]
  simp only [gen_handshakeLen, List.drop_drop]
  rw [if_neg h128]

/-! ### the Noise reader, inverted -/

open Noise in
/-- `read_message` with the symmetric-state bookkeeping inlined: which key, nonce and AD each `dec` is called with -/
theorem Noise.readMessage_unfold (P : Prims) (pro r rpk msg : Bytes) :
    Noise.readMessage P pro r rpk msg =
      if msg.length < 96 ∨ msg.length > 65535 then .error .other else
      match P.dh r (msg.take 32) with
      | none => .error .dh
      | some d1 =>
        match P.aead.dec (P.hkdf2 (initR P pro rpk).ck d1).2 0 (P.hash ((initR P pro rpk).h ++ msg.take 32))
            ((msg.drop 32).take 48) with
        | none => .error .decrypt
        | some rs =>
          if rs.length ≠ 32 then .error .other else
          match P.dh r rs with
          | none => .error .dh
          | some d2 =>
            match P.aead.dec (P.hkdf2 (P.hkdf2 (initR P pro rpk).ck d1).1 d2).2 0
                (P.hash (P.hash ((initR P pro rpk).h ++ msg.take 32) ++ (msg.drop 32).take 48)) (msg.drop 80) with
            | none => .error .decrypt
            | some payload =>
              .ok (payload, rs,
                P.hash (P.hash (P.hash ((initR P pro rpk).h ++ msg.take 32) ++ (msg.drop 32).take 48) ++ msg.drop 80)) := by
  unfold Noise.readMessage
  simp only [Sym.mixKey, Sym.decryptAndHash, Sym.mixHash, Option.getD_some]
  split
  · rfl
  · cases h1 : P.dh r (msg.take 32) with
    | none => rfl
    | some d1 =>
      simp only []
      cases hd1 : P.aead.dec (P.hkdf2 (initR P pro rpk).ck d1).2 0 (P.hash ((initR P pro rpk).h ++ msg.take 32))
            ((msg.drop 32).take 48) with
      | none => rfl
      | some rs =>
        simp only []
        split
        · rfl
        · cases h2 : P.dh r rs with
          | none => rfl
          | some d2 =>
            simp only []
            cases hd2 : P.aead.dec (P.hkdf2 (P.hkdf2 (initR P pro rpk).ck d1).1 d2).2 0
                (P.hash (P.hash ((initR P pro rpk).h ++ msg.take 32) ++ (msg.drop 32).take 48)) (msg.drop 80) with
            | none => rfl
            | some payload => rfl

open Noise in
/-- **Inversion of a successful `read_message`.**  Names the two DH results and the two AEAD opens. -/
theorem Noise.readMessage_ok_inv (P : Prims) (pro r rpk msg pl S' h : Bytes)
    (hr : Noise.readMessage P pro r rpk msg = .ok (pl, S', h)) :
    ∃ d1 d2, 96 ≤ msg.length ∧ msg.length ≤ 65535 ∧ S'.length = 32 ∧
      P.dh r (msg.take 32) = some d1 ∧
      P.aead.dec (P.hkdf2 (initR P pro rpk).ck d1).2 0 (P.hash ((initR P pro rpk).h ++ msg.take 32))
        ((msg.drop 32).take 48) = some S' ∧
      P.dh r S' = some d2 ∧
      P.aead.dec (P.hkdf2 (P.hkdf2 (initR P pro rpk).ck d1).1 d2).2 0
        (P.hash (P.hash ((initR P pro rpk).h ++ msg.take 32) ++ (msg.drop 32).take 48)) (msg.drop 80) = some pl ∧
      h = P.hash (P.hash (P.hash ((initR P pro rpk).h ++ msg.take 32) ++ (msg.drop 32).take 48) ++ msg.drop 80) := by
  rw [Noise.readMessage_unfold] at hr
  split at hr
  · simp at hr
  · rename_i hlen
    split at hr
    · simp at hr
    · rename_i d1 h1
      split at hr
      · simp at hr
      · rename_i rs hd1
        split at hr
        · simp at hr
        · rename_i hrs
          split at hr
          · simp at hr
          · rename_i d2 h2
            split at hr
            · simp at hr
            · rename_i payload hd2
              simp only [Except.ok.injEq, Prod.mk.injEq] at hr
              obtain ⟨rfl, rfl, rfl⟩ := hr
              exact ⟨d1, d2, by omega, by omega, by simpa using hrs, h1, hd1, h2, hd2, rfl⟩

theorem msg_split (msg : Bytes) : msg = msg.take 32 ++ (msg.drop 32).take 48 ++ msg.drop 80 := by
  have h1 : msg.drop 80 = (msg.drop 32).drop 48 := by rw [List.drop_drop]
  rw [h1, List.append_assoc, List.take_append_drop, List.take_append_drop]

/-- if the first `|a|+|b|` bytes of `F` are `a ++ b` then its first `|a|` bytes are `a`, the next `|b|` are `b` -/
theorem take_append_split (F a b : Bytes) (h : F.take (a.length + b.length) = a ++ b) :
    F.take a.length = a ∧ (F.drop a.length).take b.length = b ∧ a.length + b.length ≤ F.length := by
  have hl : a.length + b.length ≤ F.length := by
    have := congrArg List.length h
    simp only [List.length_take, List.length_append] at this; omega
  refine ⟨?_, ?_, hl⟩
  · have : F.take a.length = (F.take (a.length + b.length)).take a.length := by
      rw [List.take_take]; congr 1; omega
    rw [this, h]; exact List.take_left' rfl
  · have : (F.drop a.length).take b.length = (F.take (a.length + b.length)).drop a.length := by
      rw [List.drop_take]; congr 1; omega
    rw [this, h]; exact List.drop_left' rfl

/-! ### record 0 of an honest stream -/

/-- associated data of record 0 of the honest stream for chunk list `cl` -/
def ad0 (aad : Bytes) (cl : List Bytes) : Bytes :=
  aad ++ be32 (if cl.length ≤ 1 then 1 else 0) ++ be32 (cl.headD []).length

/-- body of record 0 of the honest stream sealed under `key` -/
def body0 (A : Aead) (key aad : Bytes) (cl : List Bytes) : Bytes :=
  A.enc key 0 (ad0 aad cl) (cl.headD [])

/-- an honest stream begins with record 0 -/
theorem serialize_head (A : Aead) (key aad : Bytes) (cf : Nat → Bytes) (cl : List Bytes) (hne : cl ≠ []) :
    ∃ tail, serialize A key aad cf 0 cl =
      cf 0 ++ be32 (if cl.length ≤ 1 then 1 else 0) ++ be32 (cl.headD []).length ++ body0 A key aad cl ++ tail := by
  match cl, hne with
  | [c], _ => exact ⟨[], by simp [serialize, record, body0, ad0]⟩
  | c :: c' :: cs', _ => exact ⟨serialize A key aad cf 1 (c' :: cs'), by simp [serialize, record, body0, ad0]⟩

/-- **What a decryptor holding a different key does with an honest stream**: exactly one AEAD check, of record 0,
    under its own key; if that fails nothing is written and the result is the authentication error. -/
theorem decryptChunks_other_key (A : Aead) (key key' aad : Bytes) (cs : Nat) (cf : Nat → Bytes) (cl : List Bytes)
    (hSl : ∀ n ad p, (A.enc key n ad p).length = p.length + 16)
    (hcf : (cf 0).length = 8) (hne : cl ≠ []) (hle : ∀ c ∈ cl, c.length ≤ cs) (hcs : cs < 2^32)
    (hnone : A.dec key' 0 (ad0 aad cl) (body0 A key aad cl) = none) :
    decryptChunks A key' aad cs (serialize A key aad cf 0 cl) = ([], .auth) := by
  obtain ⟨tail, hser⟩ := serialize_head A key aad cf cl hne
  have hc0 : (cl.headD []).length ≤ cs := by
    match cl, hne with
    | c :: _, _ => exact hle c (by simp)
  have hbl : (body0 A key aad cl).length = (cl.headD []).length + 16 := hSl _ _ _
  unfold decryptChunks
  rw [hser]
  have hfuel : ∃ f, (cf 0 ++ be32 (if cl.length ≤ 1 then 1 else 0) ++ be32 (cl.headD []).length ++
      body0 A key aad cl ++ tail).length = f + 1 := by
    refine ⟨(cf 0 ++ be32 (if cl.length ≤ 1 then 1 else 0) ++ be32 (cl.headD []).length ++
      body0 A key aad cl ++ tail).length - 1, ?_⟩
    simp only [List.length_append, hcf]; omega
  obtain ⟨f, hf⟩ := hfuel
  rw [hf, decLoop_frame A key' aad cs f 0 (cf 0) _ (body0 A key aad cl) tail (cl.headD []).length hcf rfl hc0
    (by omega) hbl]
  unfold ad0 at hnone
  rw [hnone]

/-! ### names for the values of the X handshake (exactly the expressions `readMessage`/`writeMessage` compute) -/

namespace Noise

/-- chaining key before the first DH: the padded protocol name (the same for every party) -/
def ck0 (P : Prims) : Bytes := (Sym.init P protocolName).ck
/-- chaining key after `es`, from the first DH result `d1` -/
def ck1 (P : Prims) (d1 : Bytes) : Bytes := (P.hkdf2 (ck0 P) d1).1
/-- key sealing the static-key field, from the first DH result `d1` -/
def k1 (P : Prims) (d1 : Bytes) : Bytes := (P.hkdf2 (ck0 P) d1).2
/-- key sealing the payload field, from both DH results -/
def k2 (P : Prims) (d1 d2 : Bytes) : Bytes := (P.hkdf2 (ck1 P d1) d2).2
/-- handshake hash after prologue and recipient static key `X` -/
def h0 (P : Prims) (pro X : Bytes) : Bytes := P.hash (P.hash ((Sym.init P protocolName).h ++ pro) ++ X)
/-- AD of the static-key field: after mixing in the ephemeral public key `E` -/
def h1 (P : Prims) (pro X E : Bytes) : Bytes := P.hash (h0 P pro X ++ E)
/-- AD of the payload field: after mixing in the sealed static-key field `c1` -/
def h2 (P : Prims) (pro X E c1 : Bytes) : Bytes := P.hash (h1 P pro X E ++ c1)
/-- final handshake hash -/
def h3 (P : Prims) (pro X E c1 c2 : Bytes) : Bytes := P.hash (h2 P pro X E c1 ++ c2)

theorem initR_ck (P : Prims) (pro X : Bytes) : (initR P pro X).ck = ck0 P := rfl
theorem initI_ck (P : Prims) (pro X : Bytes) : (initI P pro X).ck = ck0 P := rfl
theorem initR_h (P : Prims) (pro X : Bytes) : (initR P pro X).h = h0 P pro X := rfl
theorem initI_h (P : Prims) (pro X : Bytes) : (initI P pro X).h = h0 P pro X := rfl

/-- `readMessage_ok_inv` in terms of the named values -/
theorem readMessage_ok_named (P : Prims) (pro r rpk msg pl S' h : Bytes)
    (hr : readMessage P pro r rpk msg = .ok (pl, S', h)) :
    ∃ d1 d2, 96 ≤ msg.length ∧ msg.length ≤ 65535 ∧ S'.length = 32 ∧
      P.dh r (msg.take 32) = some d1 ∧
      P.aead.dec (k1 P d1) 0 (h1 P pro rpk (msg.take 32)) ((msg.drop 32).take 48) = some S' ∧
      P.dh r S' = some d2 ∧
      P.aead.dec (k2 P d1 d2) 0 (h2 P pro rpk (msg.take 32) ((msg.drop 32).take 48)) (msg.drop 80) = some pl ∧
      h = h3 P pro rpk (msg.take 32) ((msg.drop 32).take 48) (msg.drop 80) :=
  readMessage_ok_inv P pro r rpk msg pl S' h hr

/-- `writeMessage_ok` in terms of the named values -/
theorem writeMessage_ok_named (P : Prims) (pro s spk rs e epk payload d1 d2 : Bytes)
    (h1e : P.dh e rs = some d1) (h2e : P.dh s rs = some d2) :
    writeMessage P pro s spk rs e epk payload =
      .ok (epk ++ P.aead.enc (k1 P d1) 0 (h1 P pro rs epk) spk ++
             P.aead.enc (k2 P d1 d2) 0 (h2 P pro rs epk (P.aead.enc (k1 P d1) 0 (h1 P pro rs epk) spk)) payload,
           h3 P pro rs epk (P.aead.enc (k1 P d1) 0 (h1 P pro rs epk) spk)
             (P.aead.enc (k2 P d1 d2) 0 (h2 P pro rs epk (P.aead.enc (k1 P d1) 0 (h1 P pro rs epk) spk)) payload)) := by
  obtain ⟨encS, encP, hh, hw, hS, hP, hH⟩ := writeMessage_ok P pro s spk rs e epk payload d1 d2 h1e h2e
  rw [hw, hH, hP, hS]; rfl

/-- a successful `writeMessage` determines its two DH results -/
theorem writeMessage_ok_dh (P : Prims) (pro s spk rs e epk payload msg h : Bytes)
    (hw : writeMessage P pro s spk rs e epk payload = .ok (msg, h)) :
    ∃ d1 d2, P.dh e rs = some d1 ∧ P.dh s rs = some d2 := by
  cases h1 : P.dh e rs with
  | none =>
    have := (writeMessage_error_iff P pro s spk rs e epk payload).mpr (Or.inl h1)
    obtain ⟨err, he⟩ := this; rw [he] at hw; simp at hw
  | some d1 =>
    cases h2 : P.dh s rs with
    | none =>
      have := (writeMessage_error_iff P pro s spk rs e epk payload).mpr (Or.inr h2)
      obtain ⟨err, he⟩ := this; rw [he] at hw; simp at hw
    | some d2 => exact ⟨d1, d2, rfl, rfl⟩

/-- the three fields of an honest message, as the reader slices them -/
theorem honest_msg_fields (E c1 c2 : Bytes) (hE : E.length = 32) (hc1 : c1.length = 48) :
    (E ++ c1 ++ c2).take 32 = E ∧ ((E ++ c1 ++ c2).drop 32).take 48 = c1 ∧ (E ++ c1 ++ c2).drop 80 = c2 := by
  refine ⟨?_, ?_, ?_⟩
  · rw [List.append_assoc]; exact List.take_left' hE
  · rw [List.append_assoc, List.drop_left' hE]; exact List.take_left' hc1
  · exact List.drop_left' (by simp only [List.length_append, hE, hc1])

theorem msg_split' (msg : Bytes) : msg = msg.take 32 ++ (msg.drop 32).take 48 ++ msg.drop 80 := msg_split msg

end Noise

/-! ### truncation and extension of a conforming stream, outright -/

/-- a well-formed header followed by too few body bytes: read error, nothing written -/
theorem decLoop_short_body (A : Aead) (key aad : Bytes) (cs fuel ctr : Nat) (cf lastB b' : Bytes) (n : Nat)
    (hcf : cf.length = 8) (hlb : lastB.length = 4) (hn : n ≤ cs) (hn32 : n < 2^32) (hb : b'.length < n + 16) :
    decLoop A key aad cs (fuel+1) ctr (cf ++ lastB ++ be32 n ++ b') = ([], .ioRead) := by
  have hN4 : (be32 n).length = 4 := rfl
  have h16 : (cf ++ lastB ++ be32 n).length = 16 := by simp only [List.length_append, hcf, hlb, hN4]
  have t16 : (cf ++ lastB ++ be32 n ++ b').take 16 = cf ++ lastB ++ be32 n := List.take_left' h16
  have d16 : (cf ++ lastB ++ be32 n ++ b').drop 16 = b' := List.drop_left' h16
  have tn : (cf ++ lastB ++ be32 n).drop 12 = be32 n :=
    List.drop_left' (by simp only [List.length_append, hcf, hlb])
  rw [decLoop_unfold, t16, d16, tn, beVal_be32 n hn32,
    if_neg (by simp only [List.length_append, h16]; omega), if_neg (by omega), if_pos hb]

/-- **Truncation, outright.**  Every proper prefix of a conforming stream is rejected with a read error, and what
    was written before is a prefix of the chunks before the last one.  No cryptographic hypothesis. -/
theorem decLoop_serialize_prefix (A : Aead) (hA : A.Lawful) (key aad : Bytes) (hk : key.length = 32) (cs : Nat)
    (hcs : cs < 2^32) (cf : Nat → Bytes) (hcf : ∀ i, (cf i).length = 8) :
    ∀ (cl : List Bytes) (ctr fuel : Nat) (F' : Bytes), cl ≠ [] → (∀ c ∈ cl, c.length ≤ cs) →
      F' <+: serialize A key aad cf ctr cl → F' ≠ serialize A key aad cf ctr cl →
      (decLoop A key aad cs fuel ctr F').2 = .ioRead ∧ (decLoop A key aad cs fuel ctr F').1 <+: cl.dropLast := by
  intro cl
  induction cl with
  | nil => intro _ _ _ h; exact absurd rfl h
  | cons c rest ih =>
    intro ctr fuel F' _ hle hpre hprop
    cases fuel with
    | zero => exact ⟨rfl, List.nil_prefix⟩
    | succ f =>
      have hc : c.length ≤ cs := hle c (by simp)
      -- the first record, as header ++ body, and what follows it
      obtain ⟨last, S, hser, hS⟩ : ∃ (last : Bool) (S : Bytes),
          serialize A key aad cf ctr (c :: rest) = record A key aad (cf ctr) ctr last c ++ S ∧
          ((last = true ∧ rest = [] ∧ S = []) ∨
           (last = false ∧ rest ≠ [] ∧ S = serialize A key aad cf (ctr+1) rest)) := by
        cases rest with
        | nil => exact ⟨true, [], by simp [serialize], Or.inl ⟨rfl, rfl, rfl⟩⟩
        | cons c' cs' => exact ⟨false, _, by simp [serialize], Or.inr ⟨rfl, by simp, rfl⟩⟩
      rw [hser] at hpre hprop
      have hRl : (record A key aad (cf ctr) ctr last c).length = 32 + c.length :=
        record_length A hA key aad (cf ctr) ctr last c hk (hcf ctr)
      by_cases hlen : F'.length < 32 + c.length
      · -- the first record itself is cut
        have hnil : (decLoop A key aad cs (f+1) ctr F') = ([], .ioRead) := by
          by_cases h16 : F'.length < 16
          · rw [decLoop_unfold, if_pos h16]
          · have hhdr : (cf ctr ++ be32 (if last then 1 else 0) ++ be32 c.length) <+:
                record A key aad (cf ctr) ctr last c ++ S := by
              exact ⟨A.enc key ctr (aad ++ be32 (if last then 1 else 0) ++ be32 c.length) c ++ S, by
                simp only [record, List.append_assoc]⟩
            have hh16 : (cf ctr ++ be32 (if last then 1 else 0) ++ be32 c.length).length = 16 := by
              simp only [List.length_append, hcf ctr, be32_length]
            obtain ⟨b', hb'⟩ := List.prefix_of_prefix_length_le hhdr hpre (by omega)
            have hbl : b'.length < c.length + 16 := by
              have := congrArg List.length hb'
              rw [List.length_append, hh16] at this; omega
            rw [← hb']
            exact decLoop_short_body A key aad cs f ctr (cf ctr) _ b' c.length (hcf ctr) rfl hc (by omega) hbl
        rw [hnil]; exact ⟨rfl, List.nil_prefix⟩
      · -- the first record is complete
        obtain ⟨tail', ht⟩ := List.prefix_of_prefix_length_le (List.prefix_append _ S) hpre (by omega)
        rw [← ht] at hpre hprop ⊢
        have htS : tail' <+: S := (List.prefix_append_right_inj _).mp hpre
        have hne : tail' ≠ S := fun h => hprop (by rw [h])
        rw [decLoop_record A hA key aad cs f ctr (cf ctr) last c tail' hk (hcf ctr) hc hcs]
        rcases hS with ⟨rfl, _, rfl⟩ | ⟨rfl, hrest, rfl⟩
        · exact absurd (List.prefix_nil.mp htS) hne
        · have := ih (ctr+1) f tail' hrest (fun x hx => hle x (by simp [hx])) htS hne
          simp only [Bool.false_eq_true, if_false]
          refine ⟨this.1, ?_⟩
          rw [List.dropLast_cons_of_ne_nil hrest]
          exact (List.prefix_cons_inj c).mpr this.2

/-- **Extension, outright.**  A conforming stream followed by anything non-empty: all chunks but the last are
    released, then the trailing data is detected *before* the last chunk is written. -/
theorem decLoop_serialize_append (A : Aead) (hA : A.Lawful) (key aad : Bytes) (hk : key.length = 32) (cs : Nat)
    (hcs : cs < 2^32) (cf : Nat → Bytes) (hcf : ∀ i, (cf i).length = 8) (t : Bytes) (ht : t ≠ []) :
    ∀ (cl : List Bytes) (ctr fuel : Nat), cl ≠ [] → (∀ c ∈ cl, c.length ≤ cs) →
      (serialize A key aad cf ctr cl).length ≤ fuel →
      decLoop A key aad cs fuel ctr (serialize A key aad cf ctr cl ++ t) = (cl.dropLast, .unexpectedData) := by
  have htl : t.length ≠ 0 := fun h => ht (List.eq_nil_of_length_eq_zero h)
  intro cl
  induction cl with
  | nil => intro _ _ h; exact absurd rfl h
  | cons c rest ih =>
    intro ctr fuel _ hle hfuel
    have hc : c.length ≤ cs := hle c (by simp)
    cases rest with
    | nil =>
      simp only [serialize] at hfuel ⊢
      rw [record_length A hA _ _ _ _ _ _ hk (hcf ctr)] at hfuel
      obtain ⟨f, rfl⟩ : ∃ f, fuel = f + 1 := ⟨fuel - 1, by omega⟩
      rw [decLoop_record A hA key aad cs f ctr (cf ctr) true c t hk (hcf ctr) hc hcs]
      simp [htl]
    | cons c' cs' =>
      simp only [serialize] at hfuel ⊢
      rw [List.length_append, record_length A hA _ _ _ _ _ _ hk (hcf ctr)] at hfuel
      obtain ⟨f, rfl⟩ : ∃ f, fuel = f + 1 := ⟨fuel - 1, by omega⟩
      rw [List.append_assoc, decLoop_record A hA key aad cs f ctr (cf ctr) false c _ hk (hcf ctr) hc hcs]
      have := ih (ctr+1) f (by simp) (fun x hx => hle x (by simp [hx])) (by omega)
      simp [this]

/-! ### the accepted shape is exactly the accepted set -/

theorem rawRecord_length (A : Aead) (hA : A.Lawful) (key aad cf lastB : Bytes) (ctr : Nat) (pt : Bytes)
    (hk : key.length = 32) (hcf : cf.length = 8) (hlb : lastB.length = 4) :
    (rawRecord A key aad cf lastB ctr pt).length = 32 + pt.length := by
  simp only [rawRecord, List.length_append, hcf, hlb, be32_length, hA.enc_length _ _ _ _ hk]; omega

/-- **Converse of strictness.**  Every raw record sequence of the accepted shape *is* accepted and releases exactly
    its plaintexts: the characterisation in `decLoop_strict` is exact. -/
theorem decLoop_rawSerialize (A : Aead) (hA : A.Lawful) (key aad : Bytes) (hk : key.length = 32) (cs : Nat)
    (hcs : cs < 2^32) (l : Bytes × Bytes × Bytes) (hl : beVal l.2.1 = 1) :
    ∀ (init : List (Bytes × Bytes × Bytes)) (ctr fuel : Nat),
      (∀ h ∈ init ++ [l], h.1.length = 8 ∧ h.2.1.length = 4 ∧ h.2.2.length ≤ cs) →
      (∀ h ∈ init, beVal h.2.1 ≠ 1) →
      (rawSerialize A key aad ctr (init ++ [l])).length ≤ fuel →
      decLoop A key aad cs fuel ctr (rawSerialize A key aad ctr (init ++ [l])) = ((init ++ [l]).map (·.2.2), .ok) := by
  intro init
  induction init with
  | nil =>
    intro ctr fuel hall _ hfuel
    obtain ⟨h8, h4, hpt⟩ := hall l (by simp)
    simp only [List.nil_append, rawSerialize, List.append_nil] at hfuel ⊢
    rw [rawRecord_length A hA key aad _ _ ctr _ hk h8 h4] at hfuel
    obtain ⟨f, rfl⟩ : ∃ f, fuel = f + 1 := ⟨fuel - 1, by omega⟩
    have := decLoop_frame A key aad cs f ctr l.1 l.2.1 (A.enc key ctr (aad ++ l.2.1 ++ be32 l.2.2.length) l.2.2) []
      l.2.2.length h8 h4 hpt (by omega) (hA.enc_length _ _ _ _ hk)
    rw [List.append_nil] at this
    rw [rawRecord, this, hA.dec_enc _ _ _ _ hk]
    simp [hl]
  | cons h0 rest ih =>
    intro ctr fuel hall hinit hfuel
    obtain ⟨h8, h4, hpt⟩ := hall h0 (by simp)
    simp only [List.cons_append, rawSerialize] at hfuel ⊢
    rw [List.length_append, rawRecord_length A hA key aad _ _ ctr _ hk h8 h4] at hfuel
    obtain ⟨f, rfl⟩ : ∃ f, fuel = f + 1 := ⟨fuel - 1, by omega⟩
    rw [rawRecord, decLoop_frame A key aad cs f ctr h0.1 h0.2.1 _ _ h0.2.2.length h8 h4 hpt (by omega)
      (hA.enc_length _ _ _ _ hk), hA.dec_enc _ _ _ _ hk]
    have hne := hinit h0 (by simp)
    have := ih (ctr+1) f (fun h hh => hall h (by simp only [List.cons_append, List.mem_cons]; exact Or.inr hh))
      (fun h hh => hinit h (by simp [hh])) (by omega)
    simp [hne, this]

end Kestrel
