/-
  `rs_unfold` — a tactic for the proofs about Lean code generated from the Rust sources (tools/rs2lean_*.py).

  The translators mark two kinds of generated definitions `@[simp]`: `const` items, and helper functions (functions that are
  translated only because a target function calls them).  Their NAMES are not known to the proofs: a maintenance change of the
  Rust source may introduce a named constant for a literal, or move a few lines of a function into a new private helper.
  `rs_unfold` unfolds, in the goal, every constant that
    * lives in one of the generated namespaces (`Kestrel.StreamSrc`, `Kestrel.ScryptSrc`), and
    * is marked `@[simp]` (as a definition to unfold),
  repeatedly (helpers may call helpers and mention constants), with `simp only` (arithmetic on literals such as `128 / 4` is
  evaluated; `let`s are left alone, those of an unfolded helper included: the next `simp` substitutes them).  After it, the
  goal is what it would be had the constants been written as literals and the helpers been written in line.  It never fails (it does nothing when there is
  nothing to unfold).

  This is proof automation only: it cannot make a false goal provable.
-/
import Lean.Elab.Tactic.Simp
import Lean.Elab.Tactic.BuiltinTactic
open Lean Meta Elab Tactic

namespace Kestrel.RsUnfold

def generatedNamespaces : List Name := [`Kestrel.StreamSrc, `Kestrel.ScryptSrc]

/-- the `@[simp]`-marked definitions of the generated namespaces that occur in `e` -/
def candidates (e : Expr) : MetaM (Array Name) := do
  let st ← getSimpTheorems
  let mut out := #[]
  for c in e.getUsedConstants do
    if generatedNamespaces.any (fun ns => ns.isPrefixOf c) && st.isDeclToUnfold c then
      out := out.push c
  return out

elab "rs_unfold" : tactic => do
  for _ in [0:8] do
    let goal ← getMainGoal
    let tgt ← instantiateMVars (← goal.getType)
    let cs ← candidates tgt
    if cs.isEmpty then return
    let ids := cs.map (fun c => mkIdent c)
    let before := tgt
    try
      evalTactic (← `(tactic| simp (config := { zeta := false, iota := false, proj := false }) only
        [$[$ids:ident],*, Nat.reduceMul, Nat.reduceDiv, Nat.reduceAdd, Nat.reduceSub]))
    catch _ => return
    let goals ← getGoals
    if goals.isEmpty then return
    let after ← instantiateMVars (← (← getMainGoal).getType)
    if after == before then return

end Kestrel.RsUnfold
