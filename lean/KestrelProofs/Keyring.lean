/-
  Helper lemmas about the keyring text format (KestrelModel/Keyring.lean): a token-level reading of the
  parser (`classify`, `stepTok`), the parser invariant, base64-accepted strings contain no white space,
  `trim` / `lines` facts, how a generated section continues a parse, and the declarative section reading.
-/
import KestrelModel.Keyring
namespace Kestrel.KR
open Kestrel.Keyring

/-! ### A. token-level reading of one line -/

/-- what one line of a keyring file is, as the parser's dispatch sees it -/
inductive Tok
  | key | name (v : Str) | pk (v : Str) | sk (v : Str) | skip | bad
deriving DecidableEq, Repr

/-- the dispatch of `stepLine` on the cleaned line (TABs deleted, trimmed): the `starts_with` order
    "[Key]", "Name", "PublicKey", "PrivateKey", then '#'/empty = skip, anything else = bad.  A Name /
    PublicKey / PrivateKey line without '=' is bad; the value is `trim` of the text after the first '='. -/
def classify (line : Str) : Tok :=
  let cl := trim (line.filter (· != '\t'))
  if startsWith "[Key]" cl then .key
  else if startsWith "Name" cl then
    match splitOnceEq cl with
    | none => .bad
    | some (_, v) => .name (trim v)
  else if startsWith "PublicKey" cl then
    match splitOnceEq cl with
    | none => .bad
    | some (_, v) => .pk (trim v)
  else if startsWith "PrivateKey" cl then
    match splitOnceEq cl with
    | none => .bad
    | some (_, v) => .sk (trim v)
  else if startsWith "#" cl || cl.isEmpty then .skip
  else .bad

/-- the state transition of `stepLine`, as a function of the token only -/
def stepTok (st : PSt) : Tok → Option PSt
  | .key => if st.found then addKey st else some { st with found := true }
  | .name n =>
    if !st.found || st.name.isSome then none
    else if validParsedName n then some { st with name := some n } else none
  | .pk p =>
    if !st.found || st.pk.isSome then none
    else if encodedPkOk p then some { st with pk := some p } else none
  | .sk s =>
    if !st.found || st.sk.isSome then none
    else if encodedSkOk s then some { st with sk := some s } else none
  | .skip => some st
  | .bad => none

def parseToks : PSt → List Tok → Option PSt
  | st, [] => some st
  | st, t :: ts =>
    match stepTok st t with
    | none => none
    | some st' => parseToks st' ts

theorem stepLine_eq (st : PSt) (line : Str) : stepLine st line = stepTok st (classify line) := by
  unfold stepLine classify
  simp only []
  repeat' split
  all_goals simp_all [stepTok]

theorem parseLines_eq (st : PSt) (ls : List Str) : parseLines st ls = parseToks st (ls.map classify) := by
  induction ls generalizing st with
  | nil => rfl
  | cons l ls ih =>
    simp only [parseLines, List.map_cons, parseToks, stepLine_eq]
    cases stepTok st (classify l) with
    | none => rfl
    | some st' => exact ih _

theorem parseToks_append (st : PSt) (a b : List Tok) :
    parseToks st (a ++ b) = (parseToks st a).bind fun st' => parseToks st' b := by
  induction a generalizing st with
  | nil => rfl
  | cons t a ih =>
    simp only [List.cons_append, parseToks]
    cases stepTok st t with
    | none => rfl
    | some st' => exact ih _

theorem parseLines_append (st : PSt) (a b : List Str) :
    parseLines st (a ++ b) = (parseLines st a).bind fun st' => parseLines st' b := by
  simp only [parseLines_eq, List.map_append, parseToks_append]

/-! ### B. the parser invariant -/

/-- what the parser has checked of an entry it stores -/
def KeyOk (k : Key) : Prop :=
  validParsedName k.name = true ∧ encodedPkOk k.pk = true ∧ ∀ sk, k.sk = some sk → encodedSkOk sk = true

structure Inv (st : PSt) : Prop where
  keys : ∀ k ∈ st.keys, KeyOk k
  name : ∀ n, st.name = some n → validParsedName n = true
  pk : ∀ p, st.pk = some p → encodedPkOk p = true
  sk : ∀ s, st.sk = some s → encodedSkOk s = true
  nodupN : (st.keys.map (·.name)).Nodup
  nodupP : (st.keys.map (·.pk)).Nodup
  notFound : st.found = false → st.keys = [] ∧ st.name = none ∧ st.pk = none ∧ st.sk = none

theorem inv_init : Inv {} :=
  ⟨by simp, by simp, by simp, by simp, by simp, by simp, by simp⟩

theorem addKey_some {st st' : PSt} (h : addKey st = some st') :
    ∃ n p, st.name = some n ∧ st.pk = some p ∧ (∀ k ∈ st.keys, k.name ≠ n ∧ k.pk ≠ p) ∧
      st' = { st with keys := st.keys ++ [⟨n, p, st.sk⟩], name := none, pk := none, sk := none } := by
  unfold addKey at h
  split at h
  · rename_i n p hn hp
    split at h
    · exact absurd h (by simp)
    · rename_i hany
      refine ⟨n, p, hn, hp, ?_, (Option.some.inj h).symm⟩
      intro k hk
      simp only [List.any_eq_true, not_exists, not_and, Bool.or_eq_true, beq_iff_eq, not_or] at hany
      exact hany k hk
  · exact absurd h (by simp)

theorem addKey_of {st : PSt} {n p : Str} (hn : st.name = some n) (hp : st.pk = some p)
    (hf : ∀ k ∈ st.keys, k.name ≠ n ∧ k.pk ≠ p) :
    addKey st = some { st with keys := st.keys ++ [⟨n, p, st.sk⟩], name := none, pk := none, sk := none } := by
  unfold addKey
  simp only [hn, hp]
  rw [if_neg]
  simp only [List.any_eq_true, not_exists, not_and, Bool.or_eq_true, beq_iff_eq, not_or]
  exact hf

theorem addKey_inv {st st' : PSt} (hi : Inv st) (h : addKey st = some st') : Inv st' := by
  obtain ⟨n, p, hn, hp, hf, rfl⟩ := addKey_some h
  refine ⟨?_, by simp, by simp, by simp, ?_, ?_, ?_⟩
  · intro k hk
    simp only [List.mem_append, List.mem_singleton] at hk
    rcases hk with hk | rfl
    · exact hi.keys k hk
    · exact ⟨hi.name n hn, hi.pk p hp, hi.sk⟩
  · simp only [List.map_append, List.map_cons, List.map_nil]
    rw [List.nodup_append]
    refine ⟨hi.nodupN, by simp, ?_⟩
    intro a ha b hb
    simp only [List.mem_singleton] at hb
    simp only [List.mem_map] at ha
    obtain ⟨k, hk, rfl⟩ := ha
    rw [hb]
    exact (hf k hk).1
  · simp only [List.map_append, List.map_cons, List.map_nil]
    rw [List.nodup_append]
    refine ⟨hi.nodupP, by simp, ?_⟩
    intro a ha b hb
    simp only [List.mem_singleton] at hb
    simp only [List.mem_map] at ha
    obtain ⟨k, hk, rfl⟩ := ha
    rw [hb]
    exact (hf k hk).2
  · intro hfound
    have := hi.notFound hfound
    rw [this.2.1] at hn
    exact absurd hn (by simp)

theorem stepTok_inv {st st' : PSt} {t : Tok} (hi : Inv st) (h : stepTok st t = some st') : Inv st' := by
  cases t with
  | key =>
    simp only [stepTok] at h
    split at h
    · exact addKey_inv hi h
    · cases h
      exact ⟨hi.keys, hi.name, hi.pk, hi.sk, hi.nodupN, hi.nodupP, by simp⟩
  | name v =>
    simp only [stepTok] at h
    split at h
    · exact absurd h (by simp)
    · rename_i hc
      split at h
      · cases h
        rename_i hv
        simp only [Bool.or_eq_true, Bool.not_eq_eq_eq_not, Bool.not_true, not_or, Bool.not_eq_false] at hc
        refine ⟨hi.keys, ?_, hi.pk, hi.sk, hi.nodupN, hi.nodupP, ?_⟩
        · intro n hn
          cases hn
          exact hv
        · intro hf
          exact absurd hf (by simp [hc.1])
      · exact absurd h (by simp)
  | pk v =>
    simp only [stepTok] at h
    split at h
    · exact absurd h (by simp)
    · rename_i hc
      split at h
      · cases h
        rename_i hv
        simp only [Bool.or_eq_true, Bool.not_eq_eq_eq_not, Bool.not_true, not_or, Bool.not_eq_false] at hc
        refine ⟨hi.keys, hi.name, ?_, hi.sk, hi.nodupN, hi.nodupP, ?_⟩
        · intro n hn
          cases hn
          exact hv
        · intro hf
          exact absurd hf (by simp [hc.1])
      · exact absurd h (by simp)
  | sk v =>
    simp only [stepTok] at h
    split at h
    · exact absurd h (by simp)
    · rename_i hc
      split at h
      · cases h
        rename_i hv
        simp only [Bool.or_eq_true, Bool.not_eq_eq_eq_not, Bool.not_true, not_or, Bool.not_eq_false] at hc
        refine ⟨hi.keys, hi.name, hi.pk, ?_, hi.nodupN, hi.nodupP, ?_⟩
        · intro n hn
          cases hn
          exact hv
        · intro hf
          exact absurd hf (by simp [hc.1])
      · exact absurd h (by simp)
  | skip =>
    cases h
    exact hi
  | bad => exact absurd h (by simp [stepTok])

theorem parseToks_inv {st st' : PSt} {ts : List Tok} (hi : Inv st) (h : parseToks st ts = some st') : Inv st' := by
  induction ts generalizing st with
  | nil => cases h; exact hi
  | cons t ts ih =>
    simp only [parseToks] at h
    cases hs : stepTok st t with
    | none => rw [hs] at h; exact absurd h (by simp)
    | some st1 => rw [hs] at h; exact ih (stepTok_inv hi hs) h

theorem parseLines_inv {st st' : PSt} {ls : List Str} (hi : Inv st) (h : parseLines st ls = some st') : Inv st' :=
  parseToks_inv hi (parseLines_eq st ls ▸ h)

/-- `parse` unfolded: the final state, its `found` flag, and the end-of-file `addKey` -/
theorem parse_some {t : Str} {ks : List Key} (h : parse t = some ks) :
    ∃ st st', parseLines {} (lines t) = some st ∧ st.found = true ∧ addKey st = some st' ∧ st'.keys = ks := by
  unfold parse at h
  split at h
  · exact absurd h (by simp)
  · rename_i st hst
    split at h
    · exact absurd h (by simp)
    · rename_i hf
      simp only [Option.map_eq_some_iff] at h
      obtain ⟨st', h1, h2⟩ := h
      exact ⟨st, st', hst, by simpa using hf, h1, h2⟩

theorem parse_of {t : Str} {st st' : PSt} (h1 : parseLines {} (lines t) = some st) (h2 : st.found = true)
    (h3 : addKey st = some st') : parse t = some st'.keys := by
  unfold parse
  simp [h1, h2, h3]

/-- injectivity on a list from `Nodup` of the image -/
theorem eq_of_nodup_map {α β} (f : α → β) : ∀ {l : List α}, (l.map f).Nodup → ∀ {a b}, a ∈ l → b ∈ l → f a = f b → a = b
  | [], _, _, _, ha, _, _ => absurd ha (by simp)
  | x :: l, hnd, a, b, ha, hb, hab => by
    simp only [List.map_cons, List.nodup_cons, List.mem_map, not_exists, not_and] at hnd
    simp only [List.mem_cons] at ha hb
    rcases ha with rfl | ha <;> rcases hb with rfl | hb
    · rfl
    · exact absurd hab.symm (hnd.1 b hb)
    · exact absurd hab (hnd.1 a ha)
    · exact eq_of_nodup_map f hnd.2 ha hb hab

/-! ### C. strings accepted by the base64 decoder contain only alphabet characters and '=' -/


/-- a base64 alphabet byte or '=' -/
def b64Byte (b : UInt8) : Prop := B64.valOf b ≠ none ∨ b = 61

theorem decode_bytes {bs r : Bytes} (h : B64.decode bs = some r) : ∀ b ∈ bs, b64Byte b := by
  fun_induction B64.decode bs generalizing r
  all_goals first | (cases h; done) | skip
  · intro b hb; exact absurd hb (by simp)
  · rename_i c0 c1 c3 rest v0 v1 h1 h0 hc
    intro b hb
    simp only [List.mem_cons] at hb
    rcases hb with rfl | rfl | rfl | rfl | hb
    · exact Or.inl (by simp [h0])
    · exact Or.inl (by simp [h1])
    · exact Or.inr rfl
    · exact Or.inr hc.1
    · rw [hc.2.1] at hb; exact absurd hb (by simp)
  · rename_i c0 c1 c2 rest v0 v1 h1 h0 hn v2 h2 hc
    intro b hb
    simp only [List.mem_cons] at hb
    rcases hb with rfl | rfl | rfl | rfl | hb
    · exact Or.inl (by simp [h0])
    · exact Or.inl (by simp [h1])
    · exact Or.inl (by simp [h2])
    · exact Or.inr rfl
    · rw [hc.1] at hb; exact absurd hb (by simp)
  · rename_i c0 c1 c2 c3 rest v0 v1 h1 h0 hn v2 h2 hn3 v3 h3 r' hr ih
    intro b hb
    simp only [List.mem_cons] at hb
    rcases hb with rfl | rfl | rfl | rfl | hb
    · exact Or.inl (by simp [h0])
    · exact Or.inl (by simp [h1])
    · exact Or.inl (by simp [h2])
    · exact Or.inl (by simp [h3])
    · exact ih hr b hb



def b64Nat (n : Nat) : Prop :=
  (65 ≤ n ∧ n ≤ 90) ∨ (97 ≤ n ∧ n ≤ 122) ∨ (48 ≤ n ∧ n ≤ 57) ∨ n = 43 ∨ n = 47 ∨ n = 61

theorem b64Byte_toNat {b : UInt8} (h : b64Byte b) : b64Nat b.toNat := by
  unfold b64Nat
  rcases h with h | h
  · unfold B64.valOf at h
    simp only [UInt8.le_iff_toNat_le, ← UInt8.toNat_inj] at h
    split at h
    · rename_i hc; simp at hc; omega
    · split at h
      · rename_i hc; simp at hc; omega
      · split at h
        · rename_i hc; simp at hc; omega
        · split at h
          · rename_i hc; simp at hc; omega
          · split at h
            · rename_i hc; simp at hc; omega
            · exact absurd rfl h
  · subst h; decide

/-- a character all of whose UTF-8 bytes are base64 bytes is that ASCII character -/
theorem b64_char {c : Char} (h : ∀ b ∈ String.utf8EncodeChar c, b64Byte b) : b64Nat c.toNat := by
  have hv : c.toNat = c.val.toNat := rfl
  unfold String.utf8EncodeChar at h
  simp only [] at h
  split at h
  · have := b64Byte_toNat (h _ (List.mem_cons_self ..))
    rw [UInt8.toNat_ofNat'] at this
    rw [hv]
    rw [Nat.mod_eq_of_lt (by omega)] at this
    exact this
  · split at h
    · have := b64Byte_toNat (h _ (List.mem_cons_self ..))
      rw [UInt8.toNat_ofNat'] at this
      unfold b64Nat at this
      omega
    · split at h
      · have := b64Byte_toNat (h _ (List.mem_cons_self ..))
        rw [UInt8.toNat_ofNat'] at this
        unfold b64Nat at this
        omega
      · have := b64Byte_toNat (h _ (List.mem_cons_self ..))
        rw [UInt8.toNat_ofNat'] at this
        unfold b64Nat at this
        omega

theorem b64Nat_not_ws {c : Char} (h : b64Nat c.toNat) : isWS c = false ∧ c ≠ '\t' ∧ c ≠ '\n' ∧ c ≠ '\r' := by
  unfold b64Nat at h
  refine ⟨?_, ?_, ?_, ?_⟩
  · unfold isWS
    simp only [Bool.or_eq_false_iff, Bool.and_eq_false_iff, decide_eq_false_iff_not, beq_eq_false_iff_ne]
    omega
  · rintro rfl; revert h; decide
  · rintro rfl; revert h; decide
  · rintro rfl; revert h; decide

/-- every character of a string is a base64 alphabet character or '=' -/
def B64Str (s : Str) : Prop := ∀ c ∈ s, b64Nat c.toNat

theorem b64Str_of_decode {s : Str} {r : Bytes} (h : B64.decode (utf8 s) = some r) : B64Str s := by
  intro c hc
  apply b64_char
  intro b hb
  exact decode_bytes h b (List.mem_flatMap.mpr ⟨c, hc, hb⟩)

theorem b64Str_of_pk {s : Str} (h : encodedPkOk s = true) : B64Str s := by
  unfold encodedPkOk at h
  split at h
  · rename_i b hb; exact b64Str_of_decode hb
  · exact absurd h (by simp)

theorem b64Str_of_sk {s : Str} (h : encodedSkOk s = true) : B64Str s := by
  unfold encodedSkOk at h
  split at h
  · rename_i b hb; exact b64Str_of_decode hb
  · exact absurd h (by simp)

/-! ### D. trim -/

theorem trimStart_length_le (s : Str) : (trimStart s).length ≤ s.length := by
  induction s with
  | nil => simp [trimStart]
  | cons c s ih =>
    simp only [trimStart]
    split
    · simp only [List.length_cons]; omega
    · exact Nat.le_refl _

theorem trimStart_eq_of_length {s : Str} (h : s.length ≤ (trimStart s).length) : trimStart s = s := by
  cases s with
  | nil => rfl
  | cons c s =>
    simp only [trimStart] at h ⊢
    split
    · rename_i hc
      rw [if_pos hc] at h
      have := trimStart_length_le s
      simp only [List.length_cons] at h
      omega
    · rfl

/-- no leading and no trailing white space -/
def Trimmed (s : Str) : Prop := trimStart s = s ∧ trimStart s.reverse = s.reverse

theorem trimmed_of_trim {s : Str} (h : trim s = s) : Trimmed s := by
  unfold trim at h
  have h1 := trimStart_length_le (trimStart s).reverse
  have h2 := trimStart_length_le s
  have h3 : (trimStart (trimStart s).reverse).length = s.length := by
    rw [← List.length_reverse, h]
  have h4 : trimStart s = s := trimStart_eq_of_length (by simp only [List.length_reverse] at h1; omega)
  rw [h4] at h h3
  exact ⟨h4, trimStart_eq_of_length (by rw [h3]; simp)⟩

theorem trim_of_trimmed {s : Str} (h : Trimmed s) : trim s = s := by
  unfold trim
  rw [h.1, h.2, List.reverse_reverse]

theorem trimStart_head {c : Char} {s : Str} (h : trimStart (c :: s) = c :: s) : isWS c = false := by
  simp only [trimStart] at h
  split at h
  · have := trimStart_length_le s
    have h' := congrArg List.length h
    simp only [List.length_cons] at h'
    omega
  · rename_i hc; simpa using hc

theorem trimStart_append_of {a : Str} (b : Str) (h : trimStart a = a) (hne : a ≠ []) : trimStart (a ++ b) = a ++ b := by
  cases a with
  | nil => exact absurd rfl hne
  | cons c a =>
    have hc := trimStart_head h
    simp [trimStart, hc]

theorem trimmed_append {a b : Str} (ha : trimStart a = a) (hane : a ≠ []) (hb : trimStart b.reverse = b.reverse) (hbne : b ≠ []) :
    Trimmed (a ++ b) :=
  ⟨trimStart_append_of b ha hane, by
    rw [List.reverse_append]
    exact trimStart_append_of _ hb (by simpa using hbne)⟩

theorem trimStart_of_not_ws {c : Char} (s : Str) (h : isWS c = false) : trimStart (c :: s) = c :: s := by
  simp [trimStart, h]

theorem trimmed_of_not_ws {s : Str} (h : ∀ c ∈ s, isWS c = false) : Trimmed s := by
  constructor
  · cases s with
    | nil => rfl
    | cons c s => exact trimStart_of_not_ws s (h c (List.mem_cons_self ..))
  · cases hs : s.reverse with
    | nil => rfl
    | cons c r =>
      apply trimStart_of_not_ws
      apply h
      rw [← List.mem_reverse, hs]
      exact List.mem_cons_self ..

theorem trim_ws_cons {c : Char} (s : Str) (h : isWS c = true) : trim (c :: s) = trim s := by
  simp [trim, trimStart, h]

theorem trimStart_all_ws {s : Str} (h : ∀ c ∈ s, isWS c = true) : trimStart s = [] := by
  induction s with
  | nil => rfl
  | cons c s ih =>
    simp only [trimStart, h c (List.mem_cons_self ..), if_true]
    exact ih fun c hc => h c (List.mem_cons_of_mem _ hc)

theorem trimStart_append_ws (s : Str) {c : Char} (h : isWS c = true) :
    (trimStart s = [] ∧ trimStart (s ++ [c]) = []) ∨ (trimStart s ≠ [] ∧ trimStart (s ++ [c]) = trimStart s ++ [c]) := by
  induction s with
  | nil => left; simp [trimStart, h]
  | cons d s ih =>
    simp only [List.cons_append, trimStart]
    split
    · exact ih
    · right; simp

theorem trim_append_ws (s : Str) {c : Char} (h : isWS c = true) : trim (s ++ [c]) = trim s := by
  unfold trim
  rcases trimStart_append_ws s h with ⟨h1, h2⟩ | ⟨_, h2⟩
  · rw [h1, h2]
  · rw [h2]
    simp [trimStart, h]

end Kestrel.KR
