/-
  Helper lemmas about the keyring text format (KestrelModel/Keyring.lean): a token-level reading of the
  parser (`classify`, `stepTok`), the parser invariant, base64-accepted strings contain no white space,
  `trim` / `lines` facts, how a generated section continues a parse, and the declarative section reading.
-/
import KestrelProofs.Base64
import KestrelModel.Keyring
namespace Kestrel.KR
open Kestrel.Keyring

/-! ### A. token-level reading of one line -/

/-- what one line of a keyring file is, as the parser's dispatch sees it -/
inductive Tok
  | key | name (v : Str) | pk (v : Str) | sk (v : Str) | skip | bad
deriving DecidableEq, Repr

/-- the dispatch of `stepLine` on the cleaned line (TABs deleted, trimmed): the `starts_with` order
    "[Key]", "Name", "PublicKey", "PrivateKey", then '#'/empty = skip, anything else = bad.  A Name /
    PublicKey / PrivateKey line without '=' is bad; the value is `trim` of the text after the first '='. -/
def classify (line : Str) : Tok :=
  let cl := trim (line.filter (· != '\t'))
  if startsWith "[Key]" cl then .key
  else if startsWith "Name" cl then
    match splitOnceEq cl with
    | none => .bad
    | some (_, v) => .name (trim v)
  else if startsWith "PublicKey" cl then
    match splitOnceEq cl with
    | none => .bad
    | some (_, v) => .pk (trim v)
  else if startsWith "PrivateKey" cl then
    match splitOnceEq cl with
    | none => .bad
    | some (_, v) => .sk (trim v)
  else if startsWith "#" cl || cl.isEmpty then .skip
  else .bad

/-- the state transition of `stepLine`, as a function of the token only -/
def stepTok (st : PSt) : Tok → Option PSt
  | .key => if st.found then addKey st else some { st with found := true }
  | .name n =>
    if !st.found || st.name.isSome then none
    else if validParsedName n then some { st with name := some n } else none
  | .pk p =>
    if !st.found || st.pk.isSome then none
    else if encodedPkOk p then some { st with pk := some p } else none
  | .sk s =>
    if !st.found || st.sk.isSome then none
    else if encodedSkOk s then some { st with sk := some s } else none
  | .skip => some st
  | .bad => none

def parseToks : PSt → List Tok → Option PSt
  | st, [] => some st
  | st, t :: ts =>
    match stepTok st t with
    | none => none
    | some st' => parseToks st' ts

theorem stepLine_eq (st : PSt) (line : Str) : stepLine st line = stepTok st (classify line) := by
  unfold stepLine classify
  simp only []
  repeat' split
  all_goals simp_all [stepTok]

theorem parseLines_eq (st : PSt) (ls : List Str) : parseLines st ls = parseToks st (ls.map classify) := by
  induction ls generalizing st with
  | nil => rfl
  | cons l ls ih =>
    simp only [parseLines, List.map_cons, parseToks, stepLine_eq]
    cases stepTok st (classify l) with
    | none => rfl
    | some st' => exact ih _

theorem parseToks_append (st : PSt) (a b : List Tok) :
    parseToks st (a ++ b) = (parseToks st a).bind fun st' => parseToks st' b := by
  induction a generalizing st with
  | nil => rfl
  | cons t a ih =>
    simp only [List.cons_append, parseToks]
    cases stepTok st t with
    | none => rfl
    | some st' => exact ih _

theorem parseLines_append (st : PSt) (a b : List Str) :
    parseLines st (a ++ b) = (parseLines st a).bind fun st' => parseLines st' b := by
  simp only [parseLines_eq, List.map_append, parseToks_append]

/-! ### B. the parser invariant -/

/-- what the parser has checked of an entry it stores -/
def KeyOk (k : Key) : Prop :=
  validParsedName k.name = true ∧ encodedPkOk k.pk = true ∧ ∀ sk, k.sk = some sk → encodedSkOk sk = true

structure Inv (st : PSt) : Prop where
  keys : ∀ k ∈ st.keys, KeyOk k
  name : ∀ n, st.name = some n → validParsedName n = true
  pk : ∀ p, st.pk = some p → encodedPkOk p = true
  sk : ∀ s, st.sk = some s → encodedSkOk s = true
  nodupN : (st.keys.map (·.name)).Nodup
  nodupP : (st.keys.map (·.pk)).Nodup
  notFound : st.found = false → st.keys = [] ∧ st.name = none ∧ st.pk = none ∧ st.sk = none

theorem inv_init : Inv {} :=
  ⟨by simp, by simp, by simp, by simp, by simp, by simp, by simp⟩

theorem addKey_some {st st' : PSt} (h : addKey st = some st') :
    ∃ n p, st.name = some n ∧ st.pk = some p ∧ (∀ k ∈ st.keys, k.name ≠ n ∧ k.pk ≠ p) ∧
      st' = { st with keys := st.keys ++ [⟨n, p, st.sk⟩], name := none, pk := none, sk := none } := by
  unfold addKey at h
  split at h
  · rename_i n p hn hp
    split at h
    · exact absurd h (by simp)
    · rename_i hany
      refine ⟨n, p, hn, hp, ?_, (Option.some.inj h).symm⟩
      intro k hk
      simp only [List.any_eq_true, not_exists, not_and, Bool.or_eq_true, beq_iff_eq, not_or] at hany
      exact hany k hk
  · exact absurd h (by simp)

theorem addKey_of {st : PSt} {n p : Str} (hn : st.name = some n) (hp : st.pk = some p)
    (hf : ∀ k ∈ st.keys, k.name ≠ n ∧ k.pk ≠ p) :
    addKey st = some { st with keys := st.keys ++ [⟨n, p, st.sk⟩], name := none, pk := none, sk := none } := by
  unfold addKey
  simp only [hn, hp]
  rw [if_neg]
  simp only [List.any_eq_true, not_exists, not_and, Bool.or_eq_true, beq_iff_eq, not_or]
  exact hf

theorem addKey_inv {st st' : PSt} (hi : Inv st) (h : addKey st = some st') : Inv st' := by
  obtain ⟨n, p, hn, hp, hf, rfl⟩ := addKey_some h
  refine ⟨?_, by simp, by simp, by simp, ?_, ?_, ?_⟩
  · intro k hk
    simp only [List.mem_append, List.mem_singleton] at hk
    rcases hk with hk | rfl
    · exact hi.keys k hk
    · exact ⟨hi.name n hn, hi.pk p hp, hi.sk⟩
  · simp only [List.map_append, List.map_cons, List.map_nil]
    rw [List.nodup_append]
    refine ⟨hi.nodupN, by simp, ?_⟩
    intro a ha b hb
    simp only [List.mem_singleton] at hb
    simp only [List.mem_map] at ha
    obtain ⟨k, hk, rfl⟩ := ha
    rw [hb]
    exact (hf k hk).1
  · simp only [List.map_append, List.map_cons, List.map_nil]
    rw [List.nodup_append]
    refine ⟨hi.nodupP, by simp, ?_⟩
    intro a ha b hb
    simp only [List.mem_singleton] at hb
    simp only [List.mem_map] at ha
    obtain ⟨k, hk, rfl⟩ := ha
    rw [hb]
    exact (hf k hk).2
  · intro hfound
    have := hi.notFound hfound
    rw [this.2.1] at hn
    exact absurd hn (by simp)

theorem stepTok_inv {st st' : PSt} {t : Tok} (hi : Inv st) (h : stepTok st t = some st') : Inv st' := by
  cases t with
  | key =>
    simp only [stepTok] at h
    split at h
    · exact addKey_inv hi h
    · cases h
      exact ⟨hi.keys, hi.name, hi.pk, hi.sk, hi.nodupN, hi.nodupP, by simp⟩
  | name v =>
    simp only [stepTok] at h
    split at h
    · exact absurd h (by simp)
    · rename_i hc
      split at h
      · cases h
        rename_i hv
        simp only [Bool.or_eq_true, Bool.not_eq_eq_eq_not, Bool.not_true, not_or, Bool.not_eq_false] at hc
        refine ⟨hi.keys, ?_, hi.pk, hi.sk, hi.nodupN, hi.nodupP, ?_⟩
        · intro n hn
          cases hn
          exact hv
        · intro hf
          exact absurd hf (by simp [hc.1])
      · exact absurd h (by simp)
  | pk v =>
    simp only [stepTok] at h
    split at h
    · exact absurd h (by simp)
    · rename_i hc
      split at h
      · cases h
        rename_i hv
        simp only [Bool.or_eq_true, Bool.not_eq_eq_eq_not, Bool.not_true, not_or, Bool.not_eq_false] at hc
        refine ⟨hi.keys, hi.name, ?_, hi.sk, hi.nodupN, hi.nodupP, ?_⟩
        · intro n hn
          cases hn
          exact hv
        · intro hf
          exact absurd hf (by simp [hc.1])
      · exact absurd h (by simp)
  | sk v =>
    simp only [stepTok] at h
    split at h
    · exact absurd h (by simp)
    · rename_i hc
      split at h
      · cases h
        rename_i hv
        simp only [Bool.or_eq_true, Bool.not_eq_eq_eq_not, Bool.not_true, not_or, Bool.not_eq_false] at hc
        refine ⟨hi.keys, hi.name, hi.pk, ?_, hi.nodupN, hi.nodupP, ?_⟩
        · intro n hn
          cases hn
          exact hv
        · intro hf
          exact absurd hf (by simp [hc.1])
      · exact absurd h (by simp)
  | skip =>
    cases h
    exact hi
  | bad => exact absurd h (by simp [stepTok])

theorem parseToks_inv {st st' : PSt} {ts : List Tok} (hi : Inv st) (h : parseToks st ts = some st') : Inv st' := by
  induction ts generalizing st with
  | nil => cases h; exact hi
  | cons t ts ih =>
    simp only [parseToks] at h
    cases hs : stepTok st t with
    | none => rw [hs] at h; exact absurd h (by simp)
    | some st1 => rw [hs] at h; exact ih (stepTok_inv hi hs) h

theorem parseLines_inv {st st' : PSt} {ls : List Str} (hi : Inv st) (h : parseLines st ls = some st') : Inv st' :=
  parseToks_inv hi (parseLines_eq st ls ▸ h)

/-- `parse` unfolded: the final state, its `found` flag, and the end-of-file `addKey` -/
theorem parse_some {t : Str} {ks : List Key} (h : parse t = some ks) :
    ∃ st st', parseLines {} (lines t) = some st ∧ st.found = true ∧ addKey st = some st' ∧ st'.keys = ks := by
  unfold parse at h
  split at h
  · exact absurd h (by simp)
  · rename_i st hst
    split at h
    · exact absurd h (by simp)
    · rename_i hf
      simp only [Option.map_eq_some_iff] at h
      obtain ⟨st', h1, h2⟩ := h
      exact ⟨st, st', hst, by simpa using hf, h1, h2⟩

theorem parse_of {t : Str} {st st' : PSt} (h1 : parseLines {} (lines t) = some st) (h2 : st.found = true)
    (h3 : addKey st = some st') : parse t = some st'.keys := by
  unfold parse
  simp [h1, h2, h3]

/-- injectivity on a list from `Nodup` of the image -/
theorem eq_of_nodup_map {α β} (f : α → β) : ∀ {l : List α}, (l.map f).Nodup → ∀ {a b}, a ∈ l → b ∈ l → f a = f b → a = b
  | [], _, _, _, ha, _, _ => absurd ha (by simp)
  | x :: l, hnd, a, b, ha, hb, hab => by
    simp only [List.map_cons, List.nodup_cons, List.mem_map, not_exists, not_and] at hnd
    simp only [List.mem_cons] at ha hb
    rcases ha with rfl | ha <;> rcases hb with rfl | hb
    · rfl
    · exact absurd hab.symm (hnd.1 b hb)
    · exact absurd hab (hnd.1 a ha)
    · exact eq_of_nodup_map f hnd.2 ha hb hab

/-! ### C. strings accepted by the base64 decoder contain only alphabet characters and '=' -/


/-- a base64 alphabet byte or '=' -/
def b64Byte (b : UInt8) : Prop := B64.valOf b ≠ none ∨ b = 61

theorem decode_bytes {bs r : Bytes} (h : B64.decode bs = some r) : ∀ b ∈ bs, b64Byte b := by
  fun_induction B64.decode bs generalizing r
  all_goals first | (cases h; done) | skip
  · intro b hb; exact absurd hb (by simp)
  · rename_i c0 c1 c3 rest v0 v1 h1 h0 hc
    intro b hb
    simp only [List.mem_cons] at hb
    rcases hb with rfl | rfl | rfl | rfl | hb
    · exact Or.inl (by simp [h0])
    · exact Or.inl (by simp [h1])
    · exact Or.inr rfl
    · exact Or.inr hc.1
    · rw [hc.2.1] at hb; exact absurd hb (by simp)
  · rename_i c0 c1 c2 rest v0 v1 h1 h0 hn v2 h2 hc
    intro b hb
    simp only [List.mem_cons] at hb
    rcases hb with rfl | rfl | rfl | rfl | hb
    · exact Or.inl (by simp [h0])
    · exact Or.inl (by simp [h1])
    · exact Or.inl (by simp [h2])
    · exact Or.inr rfl
    · rw [hc.1] at hb; exact absurd hb (by simp)
  · rename_i c0 c1 c2 c3 rest v0 v1 h1 h0 hn v2 h2 hn3 v3 h3 r' hr ih
    intro b hb
    simp only [List.mem_cons] at hb
    rcases hb with rfl | rfl | rfl | rfl | hb
    · exact Or.inl (by simp [h0])
    · exact Or.inl (by simp [h1])
    · exact Or.inl (by simp [h2])
    · exact Or.inl (by simp [h3])
    · exact ih hr b hb



def b64Nat (n : Nat) : Prop :=
  (65 ≤ n ∧ n ≤ 90) ∨ (97 ≤ n ∧ n ≤ 122) ∨ (48 ≤ n ∧ n ≤ 57) ∨ n = 43 ∨ n = 47 ∨ n = 61

theorem b64Byte_toNat {b : UInt8} (h : b64Byte b) : b64Nat b.toNat := by
  unfold b64Nat
  rcases h with h | h
  · unfold B64.valOf at h
    simp only [UInt8.le_iff_toNat_le, ← UInt8.toNat_inj] at h
    split at h
    · rename_i hc; simp at hc; omega
    · split at h
      · rename_i hc; simp at hc; omega
      · split at h
        · rename_i hc; simp at hc; omega
        · split at h
          · rename_i hc; simp at hc; omega
          · split at h
            · rename_i hc; simp at hc; omega
            · exact absurd rfl h
  · subst h; decide

/-- a character all of whose UTF-8 bytes are base64 bytes is that ASCII character -/
theorem b64_char {c : Char} (h : ∀ b ∈ String.utf8EncodeChar c, b64Byte b) : b64Nat c.toNat := by
  have hv : c.toNat = c.val.toNat := rfl
  unfold String.utf8EncodeChar at h
  simp only [] at h
  split at h
  · have := b64Byte_toNat (h _ (List.mem_cons_self ..))
    rw [UInt8.toNat_ofNat'] at this
    rw [hv]
    rw [Nat.mod_eq_of_lt (by omega)] at this
    exact this
  · split at h
    · have := b64Byte_toNat (h _ (List.mem_cons_self ..))
      rw [UInt8.toNat_ofNat'] at this
      unfold b64Nat at this
      omega
    · split at h
      · have := b64Byte_toNat (h _ (List.mem_cons_self ..))
        rw [UInt8.toNat_ofNat'] at this
        unfold b64Nat at this
        omega
      · have := b64Byte_toNat (h _ (List.mem_cons_self ..))
        rw [UInt8.toNat_ofNat'] at this
        unfold b64Nat at this
        omega

theorem b64Nat_not_ws {c : Char} (h : b64Nat c.toNat) : isWS c = false ∧ c ≠ '\t' ∧ c ≠ '\n' ∧ c ≠ '\r' := by
  unfold b64Nat at h
  refine ⟨?_, ?_, ?_, ?_⟩
  · unfold isWS
    simp only [Bool.or_eq_false_iff, Bool.and_eq_false_iff, decide_eq_false_iff_not, beq_eq_false_iff_ne]
    omega
  · rintro rfl; revert h; decide
  · rintro rfl; revert h; decide
  · rintro rfl; revert h; decide

/-- every character of a string is a base64 alphabet character or '=' -/
def B64Str (s : Str) : Prop := ∀ c ∈ s, b64Nat c.toNat

theorem b64Str_of_decode {s : Str} {r : Bytes} (h : B64.decode (utf8 s) = some r) : B64Str s := by
  intro c hc
  apply b64_char
  intro b hb
  exact decode_bytes h b (List.mem_flatMap.mpr ⟨c, hc, hb⟩)

theorem b64Str_of_pk {s : Str} (h : encodedPkOk s = true) : B64Str s := by
  unfold encodedPkOk at h
  split at h
  · rename_i b hb; exact b64Str_of_decode hb
  · exact absurd h (by simp)

theorem b64Str_of_sk {s : Str} (h : encodedSkOk s = true) : B64Str s := by
  unfold encodedSkOk at h
  split at h
  · rename_i b hb; exact b64Str_of_decode hb
  · exact absurd h (by simp)

/-! ### D. trim -/

theorem trimStart_length_le (s : Str) : (trimStart s).length ≤ s.length := by
  induction s with
  | nil => simp [trimStart]
  | cons c s ih =>
    simp only [trimStart]
    split
    · simp only [List.length_cons]; omega
    · exact Nat.le_refl _

theorem trimStart_eq_of_length {s : Str} (h : s.length ≤ (trimStart s).length) : trimStart s = s := by
  cases s with
  | nil => rfl
  | cons c s =>
    simp only [trimStart] at h ⊢
    split
    · rename_i hc
      rw [if_pos hc] at h
      have := trimStart_length_le s
      simp only [List.length_cons] at h
      omega
    · rfl

/-- no leading and no trailing white space -/
def Trimmed (s : Str) : Prop := trimStart s = s ∧ trimStart s.reverse = s.reverse

theorem trimmed_of_trim {s : Str} (h : trim s = s) : Trimmed s := by
  unfold trim at h
  have h1 := trimStart_length_le (trimStart s).reverse
  have h2 := trimStart_length_le s
  have h3 : (trimStart (trimStart s).reverse).length = s.length := by
    rw [← List.length_reverse, h]
  have h4 : trimStart s = s := trimStart_eq_of_length (by simp only [List.length_reverse] at h1; omega)
  rw [h4] at h h3
  exact ⟨h4, trimStart_eq_of_length (by rw [h3]; simp)⟩

theorem trim_of_trimmed {s : Str} (h : Trimmed s) : trim s = s := by
  unfold trim
  rw [h.1, h.2, List.reverse_reverse]

theorem trimStart_head {c : Char} {s : Str} (h : trimStart (c :: s) = c :: s) : isWS c = false := by
  simp only [trimStart] at h
  split at h
  · have := trimStart_length_le s
    have h' := congrArg List.length h
    simp only [List.length_cons] at h'
    omega
  · rename_i hc; simpa using hc

theorem trimStart_append_of {a : Str} (b : Str) (h : trimStart a = a) (hne : a ≠ []) : trimStart (a ++ b) = a ++ b := by
  cases a with
  | nil => exact absurd rfl hne
  | cons c a =>
    have hc := trimStart_head h
    simp [trimStart, hc]

theorem trimmed_append {a b : Str} (ha : trimStart a = a) (hane : a ≠ []) (hb : trimStart b.reverse = b.reverse) (hbne : b ≠ []) :
    Trimmed (a ++ b) :=
  ⟨trimStart_append_of b ha hane, by
    rw [List.reverse_append]
    exact trimStart_append_of _ hb (by simpa using hbne)⟩

theorem trimStart_of_not_ws {c : Char} (s : Str) (h : isWS c = false) : trimStart (c :: s) = c :: s := by
  simp [trimStart, h]

theorem trimmed_of_not_ws {s : Str} (h : ∀ c ∈ s, isWS c = false) : Trimmed s := by
  constructor
  · cases s with
    | nil => rfl
    | cons c s => exact trimStart_of_not_ws s (h c (List.mem_cons_self ..))
  · cases hs : s.reverse with
    | nil => rfl
    | cons c r =>
      apply trimStart_of_not_ws
      apply h
      rw [← List.mem_reverse, hs]
      exact List.mem_cons_self ..

theorem trim_ws_cons {c : Char} (s : Str) (h : isWS c = true) : trim (c :: s) = trim s := by
  simp [trim, trimStart, h]

theorem trimStart_all_ws {s : Str} (h : ∀ c ∈ s, isWS c = true) : trimStart s = [] := by
  induction s with
  | nil => rfl
  | cons c s ih =>
    simp only [trimStart, h c (List.mem_cons_self ..), if_true]
    exact ih fun c hc => h c (List.mem_cons_of_mem _ hc)

theorem trimStart_append_ws (s : Str) {c : Char} (h : isWS c = true) :
    (trimStart s = [] ∧ trimStart (s ++ [c]) = []) ∨ (trimStart s ≠ [] ∧ trimStart (s ++ [c]) = trimStart s ++ [c]) := by
  induction s with
  | nil => left; simp [trimStart, h]
  | cons d s ih =>
    simp only [List.cons_append, trimStart]
    split
    · exact ih
    · right; simp

theorem trim_append_ws (s : Str) {c : Char} (h : isWS c = true) : trim (s ++ [c]) = trim s := by
  unfold trim
  rcases trimStart_append_ws s h with ⟨h1, h2⟩ | ⟨_, h2⟩
  · rw [h1, h2]
  · rw [h2]
    simp [trimStart, h]

/-! ### E. classification of the lines `serialize_key` writes -/

theorem filter_tab_self {s : Str} (h : ∀ c ∈ s, c ≠ '\t') : s.filter (· != '\t') = s := by
  rw [List.filter_eq_self]
  intro c hc
  simpa using h c hc

theorem classify_key : classify "[Key]".toList = .key := by decide

theorem classify_nil : classify [] = .skip := by decide

theorem classify_name {n : Str} (hne : n ≠ []) (ht : ∀ c ∈ n, c ≠ '\t') (htr : Trimmed n) :
    classify ("Name = ".toList ++ n) = .name n := by
  have hl : "Name = ".toList = ['N','a','m','e',' ','=',' '] := by decide
  have hf : ("Name = ".toList ++ n).filter (· != '\t') = "Name = ".toList ++ n := by
    rw [List.filter_append, filter_tab_self ht]; rfl
  have htm : trim ("Name = ".toList ++ n) = "Name = ".toList ++ n :=
    trim_of_trimmed (trimmed_append (by decide) (by decide) htr.2 hne)
  unfold classify
  simp only [hf, htm]
  rw [hl]
  simp [startsWith, List.isPrefixOf, splitOnceEq]
  rw [trim_ws_cons n (by decide), trim_of_trimmed htr]

theorem classify_pk {n : Str} (hne : n ≠ []) (ht : ∀ c ∈ n, c ≠ '\t') (htr : Trimmed n) :
    classify ("PublicKey = ".toList ++ n) = .pk n := by
  have hl : "PublicKey = ".toList = ['P','u','b','l','i','c','K','e','y',' ','=',' '] := by decide
  have hf : ("PublicKey = ".toList ++ n).filter (· != '\t') = "PublicKey = ".toList ++ n := by
    rw [List.filter_append, filter_tab_self ht]; rfl
  have htm : trim ("PublicKey = ".toList ++ n) = "PublicKey = ".toList ++ n :=
    trim_of_trimmed (trimmed_append (by decide) (by decide) htr.2 hne)
  unfold classify
  simp only [hf, htm]
  rw [hl]
  simp [startsWith, List.isPrefixOf, splitOnceEq]
  rw [trim_ws_cons n (by decide), trim_of_trimmed htr]

theorem classify_sk {n : Str} (hne : n ≠ []) (ht : ∀ c ∈ n, c ≠ '\t') (htr : Trimmed n) :
    classify ("PrivateKey = ".toList ++ n) = .sk n := by
  have hl : "PrivateKey = ".toList = ['P','r','i','v','a','t','e','K','e','y',' ','=',' '] := by decide
  have hf : ("PrivateKey = ".toList ++ n).filter (· != '\t') = "PrivateKey = ".toList ++ n := by
    rw [List.filter_append, filter_tab_self ht]; rfl
  have htm : trim ("PrivateKey = ".toList ++ n) = "PrivateKey = ".toList ++ n :=
    trim_of_trimmed (trimmed_append (by decide) (by decide) htr.2 hne)
  unfold classify
  simp only [hf, htm]
  rw [hl]
  simp [startsWith, List.isPrefixOf, splitOnceEq]
  rw [trim_ws_cons n (by decide), trim_of_trimmed htr]

/-! ### F. `lines` -/

/-- the line `linesGo` emits at a '\n' from the reversed accumulator: one trailing '\r' is dropped -/
def endLine (cur : Str) : Str :=
  match cur with
  | '\r' :: t => t.reverse
  | t => t.reverse

theorem linesGo_cons (cur : Str) (c : Char) (rest : Str) :
    linesGo cur (c :: rest) = if c = '\n' then endLine cur :: linesGo [] rest else linesGo (c :: cur) rest := by
  simp only [linesGo, endLine]
  split
  · congr 1
  · rfl

theorem linesGo_line {a : Str} (cur b : Str) (h : ∀ c ∈ a, c ≠ '\n') :
    linesGo cur (a ++ '\n' :: b) = endLine (a.reverse ++ cur) :: linesGo [] b := by
  induction a generalizing cur with
  | nil => simp [linesGo_cons]
  | cons c a ih =>
    rw [List.cons_append, linesGo_cons, if_neg (h c (List.mem_cons_self ..)), ih _ fun c hc => h c (List.mem_cons_of_mem _ hc)]
    simp

theorem endLine_of_trimmed {pre v : Str} (hpre : pre.reverse.head? = some ' ') (hv : trimStart v.reverse = v.reverse) :
    endLine (pre ++ v).reverse = pre ++ v := by
  have : ∀ x : Str, (∀ t, x ≠ '\r' :: t) → endLine x = x.reverse := by
    intro x hx
    unfold endLine
    split
    · exact absurd rfl (hx _)
    · rfl
  rw [this, List.reverse_reverse]
  intro t ht
  rw [List.reverse_append] at ht
  cases hr : v.reverse with
  | nil =>
    rw [hr, List.nil_append] at ht
    rw [ht] at hpre
    simp only [List.head?_cons, Option.some.injEq] at hpre
    exact absurd hpre (by decide)
  | cons c r =>
    rw [hr] at ht hv
    have := trimStart_head hv
    simp only [List.cons_append, List.cons.injEq] at ht
    rw [ht.1] at this
    exact absurd this (by decide)

/-- the four lines of a serialized section -/
def serLines (n p s : Str) : List Str :=
  ["[Key]".toList, "Name = ".toList ++ n, "PublicKey = ".toList ++ p, "PrivateKey = ".toList ++ s]

theorem lines_serializeKey {n p s : Str} (hn : ∀ c ∈ n, c ≠ '\n') (hp : ∀ c ∈ p, c ≠ '\n') (hs : ∀ c ∈ s, c ≠ '\n')
    (tn : Trimmed n) (tp : Trimmed p) (ts : Trimmed s) :
    lines (serializeKey n p s) = serLines n p s := by
  have e : serializeKey n p s = "[Key]".toList ++ '\n' :: (("Name = ".toList ++ n) ++ '\n' ::
      (("PublicKey = ".toList ++ p) ++ '\n' :: (("PrivateKey = ".toList ++ s) ++ '\n' :: []))) := by
    have h1 : "[Key]\nName = ".toList = "[Key]".toList ++ '\n' :: "Name = ".toList := by decide
    have h2 : "\nPublicKey = ".toList = '\n' :: "PublicKey = ".toList := by decide
    have h3 : "\nPrivateKey = ".toList = '\n' :: "PrivateKey = ".toList := by decide
    have h4 : "\n".toList = ['\n'] := by decide
    unfold serializeKey
    rw [h1, h2, h3, h4]
    simp only [List.append_assoc, List.cons_append]
  have nl : ∀ (pre v : Str), (∀ c ∈ pre, c ≠ '\n') → (∀ c ∈ v, c ≠ '\n') → ∀ c ∈ pre ++ v, c ≠ '\n' := by
    intro pre v h1 h2 c hc
    rcases List.mem_append.mp hc with h | h
    · exact h1 c h
    · exact h2 c h
  unfold lines
  rw [e, linesGo_line _ _ (by decide), linesGo_line _ _ (nl _ _ (by decide) hn),
    linesGo_line _ _ (nl _ _ (by decide) hp), linesGo_line _ _ (nl _ _ (by decide) hs)]
  simp only [List.append_nil]
  rw [endLine_of_trimmed (by decide) tn.2, endLine_of_trimmed (by decide) tp.2,
    endLine_of_trimmed (by decide) ts.2]
  rfl

theorem linesGo_nil (cur : Str) : linesGo cur [] = if cur.isEmpty then [] else [cur.reverse] := by
  simp [linesGo]

/-- reading `old` leaves complete lines `L` and an unfinished line `cur'`; more text continues from there -/
theorem linesGo_split (old : Str) : ∀ cur, ∃ L cur',
    linesGo cur old = L ++ (if cur'.isEmpty then [] else [cur'.reverse]) ∧
    ∀ b, linesGo cur (old ++ b) = L ++ linesGo cur' b := by
  induction old with
  | nil => intro cur; exact ⟨[], cur, by simp [linesGo_nil], fun b => rfl⟩
  | cons c old ih =>
    intro cur
    by_cases hc : c = '\n'
    · obtain ⟨L, cur', h1, h2⟩ := ih []
      refine ⟨endLine cur :: L, cur', ?_, ?_⟩
      · rw [linesGo_cons, if_pos hc, h1]; rfl
      · intro b; rw [List.cons_append, linesGo_cons, if_pos hc, h2]; rfl
    · obtain ⟨L, cur', h1, h2⟩ := ih (c :: cur)
      refine ⟨L, cur', ?_, ?_⟩
      · rw [linesGo_cons, if_neg hc, h1]
      · intro b; rw [List.cons_append, linesGo_cons, if_neg hc, h2]

theorem classify_append_ws (l : Str) {c : Char} (hw : isWS c = true) (ht : c ≠ '\t') : classify (l ++ [c]) = classify l := by
  have : trim ((l ++ [c]).filter (· != '\t')) = trim (l.filter (· != '\t')) := by
    rw [List.filter_append]
    have : [c].filter (· != '\t') = [c] := by rw [List.filter_eq_self]; intro d hd; simp only [List.mem_singleton] at hd; simpa [hd] using ht
    rw [this, trim_append_ws _ hw]
  unfold classify
  simp only [this]

theorem classify_endLine (cur : Str) : classify (endLine cur) = classify cur.reverse := by
  unfold endLine
  split
  · rw [List.reverse_cons, classify_append_ws _ (by decide) (by decide)]
  · rfl

/-- `old ++ x ++ new` reads as lines equivalent (for the parser) to those of `old`, followed by the lines of `new` -/
def Junction (old x : Str) : Prop :=
  ∀ new, ∃ ls', lines (old ++ x ++ new) = ls' ++ lines new ∧ ∀ st, parseLines st ls' = parseLines st (lines old)

/-- Appending "\n" and more text to ANY text: the lines of the old text are kept up to parser-equivalence
    (an unterminated last line is terminated, losing one trailing '\r' that `trim` would remove anyway; a
    terminated last line is followed by one empty line). -/
theorem junction_nl (old : Str) : Junction old ['\n'] := by
  intro new
  obtain ⟨L, cur', h1, h2⟩ := linesGo_split old []
  refine ⟨L ++ [endLine cur'], ?_, ?_⟩
  · unfold lines
    rw [List.append_assoc, h2, List.singleton_append, linesGo_cons, if_pos rfl, List.append_assoc]
    rfl
  · intro st
    unfold lines
    rw [h1, parseLines_append, parseLines_append]
    congr 1
    funext st'
    rw [parseLines_eq, parseLines_eq]
    by_cases he : cur' = []
    · subst he
      simp [endLine, classify_nil, parseToks, stepTok]
    · have : cur'.isEmpty = false := by cases cur' <;> simp_all
      simp only [this, Bool.false_eq_true, if_false, List.map_cons, List.map_nil, classify_endLine]

theorem linesGo_append_nl (a b : Str) : ∀ cur, linesGo cur (a ++ '\n' :: b) = linesGo cur (a ++ ['\n']) ++ linesGo [] b := by
  induction a with
  | nil => intro cur; simp [linesGo_cons, linesGo_nil]
  | cons c a ih =>
    intro cur
    rw [List.cons_append, List.cons_append, linesGo_cons, linesGo_cons]
    split
    · rw [ih]; rfl
    · rw [ih]

theorem junction_after_nl (a : Str) : Junction (a ++ ['\n']) [] := by
  intro new
  refine ⟨lines (a ++ ['\n']), ?_, fun _ => rfl⟩
  unfold lines
  rw [List.append_nil, List.append_assoc, List.singleton_append, linesGo_append_nl]

theorem junction_nil : Junction [] [] := fun _ => ⟨[], rfl, fun _ => rfl⟩

/-! ### G. a serialized section continues any parse -/

/-- what `key generate` writes: a name as accepted after `read_line().trim()` and `valid_key_name`
    (non-empty, at most 128 bytes, no TAB, no surrounding white space, no line feed), an encoded public key
    and an encoded (locked) private key -/
structure ValidEntry (n p s : Str) : Prop where
  name : validKeyName n = true
  trimmed : trim n = n
  noNl : ∀ c ∈ n, c ≠ '\n'
  pk : encodedPkOk p = true
  sk : encodedSkOk s = true

theorem ValidEntry.name_ne {n p s : Str} (h : ValidEntry n p s) : n ≠ [] := by
  have := h.name
  intro hn
  subst hn
  exact absurd this (by decide)

theorem ValidEntry.name_noTab {n p s : Str} (h : ValidEntry n p s) : ∀ c ∈ n, c ≠ '\t' := by
  have := h.name
  simp [validKeyName] at this
  intro c hc hct
  exact this.2 (hct ▸ hc)

theorem ValidEntry.name_parsed {n p s : Str} (h : ValidEntry n p s) : validParsedName n = true := by
  have := h.name
  simp only [validKeyName, Bool.and_eq_true] at this
  simp only [validParsedName, Bool.and_eq_true]
  exact this.1

theorem pk_ne_nil {p : Str} (h : encodedPkOk p = true) : p ≠ [] := by
  intro hp; subst hp; exact absurd h (by decide)

theorem sk_ne_nil {s : Str} (h : encodedSkOk s = true) : s ≠ [] := by
  intro hs; subst hs; exact absurd h (by decide)

theorem b64Str_facts {s : Str} (h : B64Str s) :
    Trimmed s ∧ (∀ c ∈ s, c ≠ '\t') ∧ (∀ c ∈ s, c ≠ '\n') :=
  ⟨trimmed_of_not_ws fun c hc => (b64Nat_not_ws (h c hc)).1,
   fun c hc => (b64Nat_not_ws (h c hc)).2.1, fun c hc => (b64Nat_not_ws (h c hc)).2.2.1⟩

/-- the tokens of the four lines `serialize_key` writes -/
theorem serLines_toks {n p s : Str} (h : ValidEntry n p s) :
    (lines (serializeKey n p s)).map classify = [.key, .name n, .pk p, .sk s] := by
  have fp := b64Str_facts (b64Str_of_pk h.pk)
  have fs := b64Str_facts (b64Str_of_sk h.sk)
  have tn := trimmed_of_trim h.trimmed
  rw [lines_serializeKey h.noNl fp.2.2 fs.2.2 tn fp.1 fs.1]
  simp only [serLines, List.map_cons, List.map_nil, classify_key, classify_name h.name_ne h.name_noTab tn,
    classify_pk (pk_ne_nil h.pk) fp.2.1 fp.1, classify_sk (sk_ne_nil h.sk) fs.2.1 fs.1]

/-- the state after `old` closes to the key list `ks`: either no section was seen yet (and `ks = []`), or the
    end-of-file `addKey` succeeds and yields `ks` -/
def ClosesTo (st : PSt) (ks : List Key) : Prop :=
  (st.found = false ∧ ks = []) ∨ (st.found = true ∧ ∃ st', addKey st = some st' ∧ st'.keys = ks)

/-- from a state that closes to `ks`, the four tokens of a fresh valid section lead to a state that closes to
    `ks ++ [entry]`: the `[Key]` token performs exactly the `addKey` that end-of-file would have performed -/
theorem section_step {st : PSt} {ks : List Key} {n p s : Str} (hi : Inv st) (hc : ClosesTo st ks)
    (hv : ValidEntry n p s) (hf : ∀ k ∈ ks, k.name ≠ n ∧ k.pk ≠ p) :
    ∃ st2, parseToks st [.key, .name n, .pk p, .sk s] = some st2 ∧ st2.found = true ∧
      ∃ st3, addKey st2 = some st3 ∧ st3.keys = ks ++ [⟨n, p, some s⟩] := by
  have key : ∀ st1 : PSt, stepTok st .key = some st1 → st1.found = true → st1.name = none → st1.pk = none →
      st1.sk = none → st1.keys = ks → ∃ st2, parseToks st [.key, .name n, .pk p, .sk s] = some st2 ∧ st2.found = true ∧
      ∃ st3, addKey st2 = some st3 ∧ st3.keys = ks ++ [⟨n, p, some s⟩] := by
    intro st1 h1 hfd hn hp hs hk
    refine ⟨{ st1 with name := some n, pk := some p, sk := some s }, ?_, hfd, ?_⟩
    · have e1 : stepTok st1 (.name n) = some { st1 with name := some n } := by
        simp [stepTok, hfd, hn, hv.name_parsed]
      have e2 : stepTok { st1 with name := some n } (.pk p) = some { st1 with name := some n, pk := some p } := by
        simp [stepTok, hfd, hp, hv.pk]
      have e3 : stepTok { st1 with name := some n, pk := some p } (.sk s) =
          some { st1 with name := some n, pk := some p, sk := some s } := by
        simp [stepTok, hfd, hs, hv.sk]
      simp only [parseToks, h1, e1, e2, e3]
    · refine ⟨_, addKey_of (n := n) (p := p) rfl rfl ?_, ?_⟩
      · show ∀ k ∈ st1.keys, _
        rw [hk]; exact hf
      · show st1.keys ++ _ = _
        rw [hk]
  rcases hc with ⟨hnf, rfl⟩ | ⟨hfd, st', ha, hk⟩
  · obtain ⟨h1, h2, h3, h4⟩ := hi.notFound hnf
    exact key { st with found := true } (by simp [stepTok, hnf]) rfl h2 h3 h4 h1
  · obtain ⟨n', p', _, _, _, he⟩ := addKey_some ha
    exact key st' (by simp only [stepTok, hfd, if_true]; exact ha) (by rw [he]; exact hfd) (by rw [he]) (by rw [he])
      (by rw [he]) hk

/-- **Appending a section.** If `old` parses (line-wise) to a state closing to `ks` and `old ++ x` joins
    cleanly, then `old ++ x ++ serializeKey n p s` parses to `ks ++ [entry]`. -/
theorem parse_append_section {old x : Str} {st : PSt} {ks : List Key} {n p s : Str}
    (hj : Junction old x) (hold : parseLines {} (lines old) = some st) (hc : ClosesTo st ks)
    (hv : ValidEntry n p s) (hf : ∀ k ∈ ks, k.name ≠ n ∧ k.pk ≠ p) :
    parse (old ++ x ++ serializeKey n p s) = some (ks ++ [⟨n, p, some s⟩]) := by
  obtain ⟨ls', hl, hp⟩ := hj (serializeKey n p s)
  obtain ⟨st2, h2, hfd, st3, h3, hk⟩ := section_step (parseLines_inv inv_init hold) hc hv hf
  have : parseLines {} (lines (old ++ x ++ serializeKey n p s)) = some st2 := by
    rw [hl, parseLines_append, hp, hold, Option.bind_some, parseLines_eq, serLines_toks hv, h2]
  rw [← hk]
  exact parse_of this hfd h3

/-! ### H. a whole keyring written section by section -/

/-- the entry `key generate` stores for (name, public key, locked private key) -/
def entryKey (e : Str × Str × Str) : Key := ⟨e.1, e.2.1, some e.2.2⟩

theorem closesTo_of_parse {t : Str} {ks : List Key} (h : parse t = some ks) :
    ∃ st, parseLines {} (lines t) = some st ∧ ClosesTo st ks ∧ st.found = true := by
  obtain ⟨st, st', h1, h2, h3, h4⟩ := parse_some h
  exact ⟨st, h1, Or.inr ⟨h2, st', h3, h4⟩, h2⟩

theorem parse_of_closesTo {t : Str} {st : PSt} {ks : List Key} (h1 : parseLines {} (lines t) = some st)
    (hc : ClosesTo st ks) (hf : st.found = true) : parse t = some ks := by
  rcases hc with ⟨hnf, _⟩ | ⟨_, st', ha, hk⟩
  · rw [hf] at hnf; exact absurd hnf (by simp)
  · rw [← hk]; exact parse_of h1 hf ha

theorem serializeKey_ends_nl (n p s : Str) : ∃ a, serializeKey n p s = a ++ ['\n'] :=
  ⟨_, rfl⟩

/-- the text written by successive generations, each preceded by "" or "\n" -/
def written (seps : List Str) (es : List (Str × Str × Str)) : Str :=
  (List.zipWith (fun sep e => sep ++ serializeKey e.1 e.2.1 e.2.2) seps es).flatten

theorem parse_written_gen (es : List (Str × Str × Str)) : ∀ (seps : List Str) (pre : Str) (st : PSt) (ks : List Key),
    seps.length = es.length → (∀ x ∈ seps, x = [] ∨ x = ['\n']) →
    (∀ e ∈ es, ValidEntry e.1 e.2.1 e.2.2) → (es.map (·.1)).Nodup → (es.map (·.2.1)).Nodup →
    (∀ k ∈ ks, ∀ e ∈ es, k.name ≠ e.1 ∧ k.pk ≠ e.2.1) →
    (pre = [] ∨ ∃ a, pre = a ++ ['\n']) → parseLines {} (lines pre) = some st → ClosesTo st ks →
    (es ≠ [] ∨ st.found = true) →
    parse (pre ++ written seps es) = some (ks ++ es.map entryKey) := by
  induction es with
  | nil =>
    intro seps pre st ks _ _ _ _ _ _ _ hp hc hf
    have hf : st.found = true := by
      rcases hf with h | h
      · exact absurd rfl h
      · exact h
    simp only [written, List.zipWith_nil_right, List.flatten_nil, List.append_nil, List.map_nil]
    exact parse_of_closesTo hp hc hf
  | cons e es ih =>
    intro seps pre st ks hlen hsep hv hN hP hfr hpre hp hc _
    cases seps with
    | nil => simp at hlen
    | cons sep seps =>
      have hj : Junction pre sep := by
        rcases hsep sep (List.mem_cons_self ..) with rfl | rfl
        · rcases hpre with rfl | ⟨a, rfl⟩
          · exact junction_nil
          · exact junction_after_nl a
        · exact junction_nl pre
      have hve := hv e (List.mem_cons_self ..)
      have h1 := parse_append_section hj hp hc hve (fun k hk => hfr k hk e (List.mem_cons_self ..))
      obtain ⟨st', hp', hc', hf'⟩ := closesTo_of_parse h1
      have e1 : pre ++ written (sep :: seps) (e :: es) =
          (pre ++ sep ++ serializeKey e.1 e.2.1 e.2.2) ++ written seps es := by
        simp only [written, List.zipWith_cons_cons, List.flatten_cons, List.append_assoc]
      rw [e1]
      simp only [List.map_cons, List.nodup_cons, List.mem_map, not_exists, not_and] at hN hP
      have := ih seps _ st' (ks ++ [entryKey e]) (by simpa using hlen)
        (fun x hx => hsep x (List.mem_cons_of_mem _ hx)) (fun e' he' => hv e' (List.mem_cons_of_mem _ he'))
        hN.2 hP.2 ?_ ?_ hp' hc' (Or.inr hf')
      · rw [this]; simp
      · intro k hk e' he'
        simp only [List.mem_append, List.mem_singleton] at hk
        rcases hk with hk | rfl
        · exact hfr k hk e' (List.mem_cons_of_mem _ he')
        · exact ⟨fun h => hN.1 e' he' h.symm, fun h => hP.1 e' he' h.symm⟩
      · right
        obtain ⟨a, ha⟩ := serializeKey_ends_nl e.1 e.2.1 e.2.2
        exact ⟨pre ++ sep ++ a, by rw [ha, List.append_assoc (pre ++ sep)]⟩

/-! ### J. the declarative reading of a keyring text: `[Key]` sections -/

def Tok.nameV : Tok → Option Str | .name v => some v | _ => none
def Tok.pkV : Tok → Option Str | .pk v => some v | _ => none
def Tok.skV : Tok → Option Str | .sk v => some v | _ => none

/-- split a token list at the `key` tokens: (tokens before the first `key`, the token group after each `key`) -/
def splitAtKeys : List Tok → List Tok × List (List Tok)
  | [] => ([], [])
  | .key :: ts => ([], (splitAtKeys ts).1 :: (splitAtKeys ts).2)
  | t :: ts => (t :: (splitAtKeys ts).1, (splitAtKeys ts).2)

/-- the `[Key]` sections of a token list: `none` if a `bad` token occurs or a non-skip token precedes the first
    `key`; otherwise the token groups after each `key`, skips removed -/
def sectionsOf (toks : List Tok) : Option (List (List Tok)) :=
  if toks.contains .bad then none
  else if (splitAtKeys toks).1.all (· == .skip) then some ((splitAtKeys toks).2.map (·.filter (· != .skip)))
  else none

/-- `o` is the value already present (if any), `l` the further values met: at most one value in total, a new
    value must satisfy `ok` -/
def pend (o : Option Str) (l : List Str) (ok : Str → Bool) : Option (Option Str) :=
  match o, l with
  | o, [] => some o
  | none, [x] => if ok x then some (some x) else none
  | _, _ => none

/-- no value or exactly one valid value -/
def atMostOne (l : List Str) (ok : Str → Bool) : Option (Option Str) := pend none l ok

/-- the entry a section denotes: exactly one Name (valid), exactly one PublicKey (decodes to 36 bytes), at most
    one PrivateKey (decodes to 84 bytes), in any order -/
def entryOf (g : List Tok) : Option Key :=
  match atMostOne (g.filterMap Tok.nameV) validParsedName, atMostOne (g.filterMap Tok.pkV) encodedPkOk,
      atMostOne (g.filterMap Tok.skV) encodedSkOk with
  | some (some n), some (some p), some s => some ⟨n, p, s⟩
  | _, _, _ => none

theorem pend_cons_none (v : Str) (l : List Str) (ok : Str → Bool) :
    pend none (v :: l) ok = if ok v then pend (some v) l ok else none := by
  cases l with
  | nil => simp [pend]
  | cons x l => simp [pend]

theorem pend_cons_some (x v : Str) (l : List Str) (ok : Str → Bool) : pend (some x) (v :: l) ok = none := by
  simp [pend]

def KeyFree (g : List Tok) : Prop := Tok.key ∉ g

theorem fm_skip (g : List Tok) :
    (Tok.skip :: g).filterMap Tok.nameV = g.filterMap Tok.nameV ∧
    (Tok.skip :: g).filterMap Tok.pkV = g.filterMap Tok.pkV ∧
    (Tok.skip :: g).filterMap Tok.skV = g.filterMap Tok.skV := ⟨rfl, rfl, rfl⟩

theorem fm_name (v : Str) (g : List Tok) :
    (Tok.name v :: g).filterMap Tok.nameV = v :: g.filterMap Tok.nameV ∧
    (Tok.name v :: g).filterMap Tok.pkV = g.filterMap Tok.pkV ∧
    (Tok.name v :: g).filterMap Tok.skV = g.filterMap Tok.skV := ⟨rfl, rfl, rfl⟩

theorem fm_pk (v : Str) (g : List Tok) :
    (Tok.pk v :: g).filterMap Tok.nameV = g.filterMap Tok.nameV ∧
    (Tok.pk v :: g).filterMap Tok.pkV = v :: g.filterMap Tok.pkV ∧
    (Tok.pk v :: g).filterMap Tok.skV = g.filterMap Tok.skV := ⟨rfl, rfl, rfl⟩

theorem fm_sk (v : Str) (g : List Tok) :
    (Tok.sk v :: g).filterMap Tok.nameV = g.filterMap Tok.nameV ∧
    (Tok.sk v :: g).filterMap Tok.pkV = g.filterMap Tok.pkV ∧
    (Tok.sk v :: g).filterMap Tok.skV = v :: g.filterMap Tok.skV := ⟨rfl, rfl, rfl⟩

/-- inside a section (no `key` token), from a state with `found = true` -/
theorem parseToks_group (g : List Tok) : ∀ (st st' : PSt), KeyFree g → st.found = true →
    (parseToks st g = some st' ↔
      Tok.bad ∉ g ∧ st'.keys = st.keys ∧ st'.found = true ∧
      pend st.name (g.filterMap Tok.nameV) validParsedName = some st'.name ∧
      pend st.pk (g.filterMap Tok.pkV) encodedPkOk = some st'.pk ∧
      pend st.sk (g.filterMap Tok.skV) encodedSkOk = some st'.sk) := by
  induction g with
  | nil =>
    intro st st' _ hf
    simp only [parseToks, Option.some.injEq, List.filterMap_nil, pend, List.not_mem_nil, not_false_eq_true, true_and]
    constructor
    · rintro rfl; exact ⟨rfl, hf, rfl, rfl, rfl⟩
    · rintro ⟨h1, h2, h3, h4, h5⟩
      cases st; cases st'; simp_all
  | cons t g ih =>
    intro st st' hk hf
    have hk' : KeyFree g := fun h => hk (List.mem_cons_of_mem _ h)
    cases t with
    | key => exact absurd (List.mem_cons_self ..) hk
    | bad => simp [parseToks, stepTok]
    | skip =>
      simp only [parseToks, stepTok]
      rw [ih st st' hk' hf]
      simp [fm_skip]
    | name v =>
      simp only [parseToks, stepTok, hf, Bool.not_true, Bool.false_or]
      cases hn : st.name with
      | some x => simp [fm_name, pend_cons_some]
      | none =>
        by_cases hv : validParsedName v = true
        · simp only [Option.isSome_none, Bool.false_eq_true, if_false, hv, if_true]
          rw [ih _ st' hk' rfl]
          simp [fm_name, pend_cons_none, hv]
        · simp [fm_name, pend_cons_none, hv]
    | pk v =>
      simp only [parseToks, stepTok, hf, Bool.not_true, Bool.false_or]
      cases hn : st.pk with
      | some x => simp [fm_pk, pend_cons_some]
      | none =>
        by_cases hv : encodedPkOk v = true
        · simp only [Option.isSome_none, Bool.false_eq_true, if_false, hv, if_true]
          rw [ih _ st' hk' rfl]
          simp [fm_pk, pend_cons_none, hv]
        · simp [fm_pk, pend_cons_none, hv]
    | sk v =>
      simp only [parseToks, stepTok, hf, Bool.not_true, Bool.false_or]
      cases hn : st.sk with
      | some x => simp [fm_sk, pend_cons_some]
      | none =>
        by_cases hv : encodedSkOk v = true
        · simp only [Option.isSome_none, Bool.false_eq_true, if_false, hv, if_true]
          rw [ih _ st' hk' rfl]
          simp [fm_sk, pend_cons_none, hv]
        · simp [fm_sk, pend_cons_none, hv]

theorem entryOf_some_iff (g : List Tok) (k : Key) :
    entryOf g = some k ↔
      atMostOne (g.filterMap Tok.nameV) validParsedName = some (some k.name) ∧
      atMostOne (g.filterMap Tok.pkV) encodedPkOk = some (some k.pk) ∧
      atMostOne (g.filterMap Tok.skV) encodedSkOk = some k.sk := by
  unfold entryOf
  constructor
  · intro h
    split at h
    · rename_i n p s h1 h2 h3
      cases h
      exact ⟨h1, h2, h3⟩
    · exact absurd h (by simp)
  · rintro ⟨h1, h2, h3⟩
    rw [h1, h2, h3]

/-- a clean state: inside a section list, just after a `[Key]` line -/
def Clean (s : PSt) : Prop := s.found = true ∧ s.name = none ∧ s.pk = none ∧ s.sk = none

/-- one whole section from a clean state, closed by `addKey` -/
theorem group_close (g : List Tok) (s s2 : PSt) (hk : KeyFree g) (hc : Clean s) :
    (∃ s1, parseToks s g = some s1 ∧ addKey s1 = some s2) ↔
      Tok.bad ∉ g ∧ ∃ k, entryOf g = some k ∧ (∀ k' ∈ s.keys, k'.name ≠ k.name ∧ k'.pk ≠ k.pk) ∧
        s2 = { s with keys := s.keys ++ [k] } := by
  obtain ⟨hf, hn, hp, hs⟩ := hc
  constructor
  · rintro ⟨s1, h1, h2⟩
    rw [parseToks_group g s s1 hk hf, hn, hp, hs] at h1
    obtain ⟨hb, hkeys, hf1, e1, e2, e3⟩ := h1
    obtain ⟨n, p, en, ep, hfresh, rfl⟩ := addKey_some h2
    refine ⟨hb, ⟨n, p, s1.sk⟩, ?_, ?_, ?_⟩
    · rw [entryOf_some_iff]
      exact ⟨by rw [atMostOne, e1, en], by rw [atMostOne, e2, ep], by rw [atMostOne, e3]⟩
    · rw [← hkeys]; exact hfresh
    · cases s; cases s1; simp_all
  · rintro ⟨hb, k, hk', hfresh, rfl⟩
    rw [entryOf_some_iff] at hk'
    refine ⟨{ s with name := some k.name, pk := some k.pk, sk := k.sk }, ?_, ?_⟩
    · rw [parseToks_group g s _ hk hf, hn, hp, hs]
      exact ⟨hb, rfl, hf, hk'.1, hk'.2.1, hk'.2.2⟩
    · have := addKey_of (st := { s with name := some k.name, pk := some k.pk, sk := k.sk }) (n := k.name) (p := k.pk)
        rfl rfl hfresh
      rw [this]
      cases s; cases k; simp_all

theorem mapM_cons_some_iff {α β} (f : α → Option β) (a : α) (as : List α) (r : List β) :
    (a :: as).mapM f = some r ↔ ∃ b bs, f a = some b ∧ as.mapM f = some bs ∧ r = b :: bs := by
  rw [List.mapM_cons]
  cases f a with
  | none => simp
  | some b =>
    cases as.mapM f with
    | none => simp
    | some bs => simp [eq_comm]

theorem mapM_nil_some_iff {α β} (f : α → Option β) (r : List β) :
    ([] : List α).mapM f = some r ↔ r = [] := by
  simp [eq_comm]

/-- the parser's walk over the sections: each is opened by a `key` token -/
def runGroups (st : PSt) : List (List Tok) → Option PSt
  | [] => some st
  | g :: gs => (stepTok st .key).bind fun s => (parseToks s g).bind fun s' => runGroups s' gs

theorem parseToks_split (toks : List Tok) : ∀ st,
    parseToks st toks = (parseToks st (splitAtKeys toks).1).bind (runGroups · (splitAtKeys toks).2) := by
  induction toks with
  | nil => intro st; rfl
  | cons t ts ih =>
    intro st
    cases t
    case key =>
      simp only [splitAtKeys, parseToks, runGroups, Option.bind_some]
      cases stepTok st .key with
      | none => rfl
      | some s => exact ih s
    all_goals
      simp only [splitAtKeys, parseToks]
      cases stepTok st _ with
      | none => rfl
      | some s => exact ih s

theorem splitAtKeys_keyFree (toks : List Tok) :
    KeyFree (splitAtKeys toks).1 ∧ ∀ g ∈ (splitAtKeys toks).2, KeyFree g := by
  induction toks with
  | nil => simp [splitAtKeys, KeyFree]
  | cons t ts ih =>
    cases t
    case key =>
      simp only [splitAtKeys, List.mem_cons]
      refine ⟨by simp [KeyFree], ?_⟩
      rintro g (rfl | hg)
      · exact ih.1
      · exact ih.2 g hg
    all_goals
      simp only [splitAtKeys]
      refine ⟨?_, ih.2⟩
      have := ih.1
      simp only [KeyFree, List.mem_cons, not_or] at this ⊢
      exact ⟨by simp, this⟩

theorem splitAtKeys_bad (toks : List Tok) :
    Tok.bad ∈ toks ↔ Tok.bad ∈ (splitAtKeys toks).1 ∨ ∃ g ∈ (splitAtKeys toks).2, Tok.bad ∈ g := by
  induction toks with
  | nil => simp [splitAtKeys]
  | cons t ts ih =>
    cases t
    case key =>
      simp only [splitAtKeys, List.mem_cons, List.not_mem_nil, false_or, exists_eq_or_imp, reduceCtorEq]
      exact ih
    case bad => simp [splitAtKeys]
    all_goals
      simp only [splitAtKeys, List.mem_cons, reduceCtorEq, false_or]
      exact ih

/-- before the first `[Key]` line only comments and blank lines are accepted, and they change nothing -/
theorem parseToks_notFound (g : List Tok) : ∀ (st st1 : PSt), KeyFree g → st.found = false →
    (parseToks st g = some st1 ↔ g.all (· == .skip) = true ∧ st1 = st) := by
  induction g with
  | nil => intro st st1 _ _; simp [parseToks, eq_comm]
  | cons t g ih =>
    intro st st1 hk hf
    have hk' : KeyFree g := fun h => hk (List.mem_cons_of_mem _ h)
    cases t
    case key => exact absurd (List.mem_cons_self ..) hk
    case skip =>
      simp only [parseToks, stepTok, List.all_cons, beq_self_eq_true, Bool.true_and]
      exact ih st st1 hk' hf
    all_goals simp [parseToks, stepTok, hf]

theorem nodup_snoc_map {α β} (f : α → β) (K : List α) (k : α) :
    ((K ++ [k]).map f).Nodup ↔ (K.map f).Nodup ∧ ∀ k' ∈ K, f k' ≠ f k := by
  simp only [List.map_append, List.map_cons, List.map_nil, List.nodup_append, List.mem_map, List.mem_singleton]
  constructor
  · rintro ⟨h1, _, h3⟩
    exact ⟨h1, fun k' hk' => h3 _ ⟨k', hk', rfl⟩ _ rfl⟩
  · rintro ⟨h1, h2⟩
    refine ⟨h1, by simp, ?_⟩
    rintro a ⟨k', hk', rfl⟩ b rfl
    exact h2 k' hk'

theorem fresh_of_nodup_map {α β} (f : α → β) (K : List α) (k : α) (rest : List α)
    (h : ((K ++ k :: rest).map f).Nodup) : ∀ k' ∈ K, f k' ≠ f k := by
  simp only [List.map_append, List.map_cons, List.nodup_append] at h
  intro k' hk'
  exact h.2.2 _ (List.mem_map.mpr ⟨k', hk', rfl⟩) _ (List.mem_cons_self ..)

theorem found_of_parseToks_group {g : List Tok} {s s1 : PSt} (hk : KeyFree g) (hf : s.found = true)
    (h : parseToks s g = some s1) : s1.found = true :=
  ((parseToks_group g s s1 hk hf).mp h).2.2.1

/-- the sections after the first `[Key]` line, from a clean state -/
theorem runGroups_clean (gs : List (List Tok)) : ∀ (g : List Tok) (s : PSt) (ks : List Key),
    KeyFree g → (∀ g' ∈ gs, KeyFree g') → Clean s →
    (s.keys.map (·.name)).Nodup → (s.keys.map (·.pk)).Nodup →
    ((∃ stf st', (parseToks s g).bind (runGroups · gs) = some stf ∧ stf.found = true ∧
        addKey stf = some st' ∧ st'.keys = ks) ↔
      (∀ g' ∈ g :: gs, Tok.bad ∉ g') ∧ ∃ new, (g :: gs).mapM entryOf = some new ∧ ks = s.keys ++ new ∧
        (ks.map (·.name)).Nodup ∧ (ks.map (·.pk)).Nodup) := by
  induction gs with
  | nil =>
    intro g s ks hk _ hc hN hP
    constructor
    · rintro ⟨stf, st', h1, _, h3, h4⟩
      simp only [runGroups, Option.bind_eq_some_iff, Option.some.injEq, exists_eq_right] at h1
      obtain ⟨hb, k, hk1, hfr, rfl⟩ := (group_close g s st' hk hc).mp ⟨stf, h1, h3⟩
      subst h4
      refine ⟨by simpa using hb, [k], ?_, rfl, ?_, ?_⟩
      · rw [mapM_cons_some_iff]; exact ⟨k, [], hk1, rfl, rfl⟩
      · exact (nodup_snoc_map _ _ _).mpr ⟨hN, fun k' hk' => (hfr k' hk').1⟩
      · exact (nodup_snoc_map _ _ _).mpr ⟨hP, fun k' hk' => (hfr k' hk').2⟩
    · rintro ⟨hb, new, hm, rfl, hN', hP'⟩
      rw [mapM_cons_some_iff] at hm
      obtain ⟨k, bs, hk1, hbs, rfl⟩ := hm
      rw [mapM_nil_some_iff] at hbs
      subst hbs
      obtain ⟨s1, h1, h2⟩ := (group_close g s { s with keys := s.keys ++ [k] } hk hc).mpr
        ⟨hb g (List.mem_cons_self ..), k, hk1,
          fun k' hk' => ⟨fresh_of_nodup_map (·.name) _ k [] hN' k' hk', fresh_of_nodup_map (·.pk) _ k [] hP' k' hk'⟩, rfl⟩
      exact ⟨s1, _, by simp [runGroups, h1], found_of_parseToks_group hk hc.1 h1, h2, rfl⟩
  | cons g' gs ih =>
    intro g s ks hk hks hc hN hP
    have hk' : KeyFree g' := hks g' (List.mem_cons_self ..)
    have hks' : ∀ x ∈ gs, KeyFree x := fun x hx => hks x (List.mem_cons_of_mem _ hx)
    constructor
    · rintro ⟨stf, st', h1, h2, h3, h4⟩
      simp only [runGroups, Option.bind_eq_some_iff] at h1
      obtain ⟨s1, e1, s2, e2, e3⟩ := h1
      have hf1 := found_of_parseToks_group hk hc.1 e1
      simp only [stepTok, hf1, if_true] at e2
      obtain ⟨hb, k, hk1, hfr, rfl⟩ := (group_close g s s2 hk hc).mp ⟨s1, e1, e2⟩
      have hN2 := (nodup_snoc_map (·.name) s.keys k).mpr ⟨hN, fun k' hk' => (hfr k' hk').1⟩
      have hP2 := (nodup_snoc_map (·.pk) s.keys k).mpr ⟨hP, fun k' hk' => (hfr k' hk').2⟩
      obtain ⟨hb', new', hm', hks2, hN', hP'⟩ := (ih g' { s with keys := s.keys ++ [k] } ks hk' hks'
        ⟨hc.1, hc.2.1, hc.2.2.1, hc.2.2.2⟩ hN2 hP2).mp ⟨stf, st', by simpa [Option.bind_eq_some_iff] using e3, h2, h3, h4⟩
      refine ⟨?_, k :: new', ?_, ?_, hN', hP'⟩
      · intro x hx
        rcases List.mem_cons.mp hx with rfl | hx
        · exact hb
        · exact hb' x hx
      · rw [mapM_cons_some_iff]; exact ⟨k, new', hk1, hm', rfl⟩
      · rw [hks2]; simp
    · rintro ⟨hb, new, hm, rfl, hN', hP'⟩
      rw [mapM_cons_some_iff] at hm
      obtain ⟨k, new', hk1, hm', rfl⟩ := hm
      have hfr : ∀ k' ∈ s.keys, k'.name ≠ k.name ∧ k'.pk ≠ k.pk :=
        fun k' hk' => ⟨fresh_of_nodup_map (·.name) _ k new' hN' k' hk', fresh_of_nodup_map (·.pk) _ k new' hP' k' hk'⟩
      obtain ⟨s1, e1, e2⟩ := (group_close g s { s with keys := s.keys ++ [k] } hk hc).mpr
        ⟨hb g (List.mem_cons_self ..), k, hk1, hfr, rfl⟩
      have hf1 := found_of_parseToks_group hk hc.1 e1
      have hN2 := (nodup_snoc_map (·.name) s.keys k).mpr ⟨hN, fun k' hk' => (hfr k' hk').1⟩
      have hP2 := (nodup_snoc_map (·.pk) s.keys k).mpr ⟨hP, fun k' hk' => (hfr k' hk').2⟩
      have e : s.keys ++ k :: new' = (s.keys ++ [k]) ++ new' := by simp
      obtain ⟨stf, st', h1, h2, h3, h4⟩ := (ih g' { s with keys := s.keys ++ [k] } (s.keys ++ k :: new') hk' hks'
        ⟨hc.1, hc.2.1, hc.2.2.1, hc.2.2.2⟩ hN2 hP2).mpr
        ⟨fun x hx => hb x (List.mem_cons_of_mem _ hx), new', hm', e, hN', hP'⟩
      refine ⟨stf, st', ?_, h2, h3, h4⟩
      simp only [runGroups, Option.bind_eq_some_iff]
      refine ⟨s1, e1, _, ?_, by simpa [Option.bind_eq_some_iff] using h1⟩
      simp only [stepTok, hf1, if_true]
      exact e2

theorem filterMap_filter_skip (g : List Tok) :
    (g.filter (· != .skip)).filterMap Tok.nameV = g.filterMap Tok.nameV ∧
    (g.filter (· != .skip)).filterMap Tok.pkV = g.filterMap Tok.pkV ∧
    (g.filter (· != .skip)).filterMap Tok.skV = g.filterMap Tok.skV := by
  induction g with
  | nil => exact ⟨rfl, rfl, rfl⟩
  | cons t g ih =>
    cases t
    case skip => exact ih
    all_goals
      obtain ⟨h1, h2, h3⟩ := ih
      refine ⟨?_, ?_, ?_⟩ <;>
        simp only [List.filter_cons, bne_iff_ne, ne_eq, reduceCtorEq, not_false_eq_true, if_true,
          List.filterMap_cons, Tok.nameV, Tok.pkV, Tok.skV, h1, h2, h3]

theorem entryOf_filter_skip (g : List Tok) : entryOf (g.filter (· != .skip)) = entryOf g := by
  obtain ⟨h1, h2, h3⟩ := filterMap_filter_skip g
  unfold entryOf
  rw [h1, h2, h3]

theorem parseToks_init_key : stepTok {} .key = some { found := true } := rfl

theorem sectionsOf_some_iff (toks : List Tok) (secs : List (List Tok)) :
    sectionsOf toks = some secs ↔ Tok.bad ∉ toks ∧ (splitAtKeys toks).1.all (· == .skip) = true ∧
      secs = (splitAtKeys toks).2.map (·.filter (· != .skip)) := by
  unfold sectionsOf
  by_cases hb : Tok.bad ∈ toks
  · simp [hb]
  · by_cases ha : (splitAtKeys toks).1.all (· == .skip) = true
    · simp only [List.contains_eq_mem, hb, decide_false, Bool.false_eq_true, if_false, ha, if_true,
        Option.some.injEq, not_false_eq_true, true_and]
      exact eq_comm
    · simp [hb, ha]

theorem toks_iff_sections (toks : List Tok) (ks : List Key) :
    (∃ st st', parseToks {} toks = some st ∧ st.found = true ∧ addKey st = some st' ∧ st'.keys = ks) ↔
      ∃ secs, sectionsOf toks = some secs ∧ secs ≠ [] ∧ secs.mapM entryOf = some ks ∧
        (ks.map (·.name)).Nodup ∧ (ks.map (·.pk)).Nodup := by
  have hmap : ∀ gs : List (List Tok), (gs.map (·.filter (· != .skip))).mapM entryOf = gs.mapM entryOf := by
    intro gs
    rw [List.mapM_map]
    congr 1
    funext g
    exact entryOf_filter_skip g
  have hkf := splitAtKeys_keyFree toks
  have hbad := splitAtKeys_bad toks
  have hsplit := parseToks_split toks {}
  have hclean : Clean { found := true } := ⟨rfl, rfl, rfl, rfl⟩
  constructor
  · rintro ⟨st, st', h1, h2, h3, h4⟩
    rw [hsplit, Option.bind_eq_some_iff] at h1
    obtain ⟨st1, e1, e2⟩ := h1
    obtain ⟨hall, rfl⟩ := (parseToks_notFound _ {} st1 hkf.1 rfl).mp e1
    cases hgs : (splitAtKeys toks).2 with
    | nil =>
      rw [hgs] at e2
      simp only [runGroups, Option.some.injEq] at e2
      rw [← e2] at h2
      exact absurd h2 (by simp)
    | cons g gs =>
      rw [hgs] at e2 hkf hbad
      simp only [runGroups, parseToks_init_key, Option.bind_some] at e2
      obtain ⟨hb, new, hm, hks, hN, hP⟩ := (runGroups_clean gs g { found := true } ks
        (hkf.2 g (List.mem_cons_self ..)) (fun x hx => hkf.2 x (List.mem_cons_of_mem _ hx)) hclean
        (by simp) (by simp)).mp ⟨st, st', e2, h2, h3, h4⟩
      simp only [List.nil_append] at hks
      subst hks
      refine ⟨_, (sectionsOf_some_iff toks _).mpr ⟨?_, hall, rfl⟩, ?_, ?_, hN, hP⟩
      · rw [hbad]
        rintro (h | ⟨x, hx, hbx⟩)
        · have := List.all_eq_true.mp hall _ h
          exact absurd this (by decide)
        · exact hb x hx hbx
      · rw [hgs]; simp
      · rw [hmap, hgs]; exact hm
  · rintro ⟨secs, h1, h2, h3, hN, hP⟩
    obtain ⟨hb, hall, rfl⟩ := (sectionsOf_some_iff toks secs).mp h1
    rw [hmap] at h3
    cases hgs : (splitAtKeys toks).2 with
    | nil => rw [hgs] at h2; exact absurd rfl h2
    | cons g gs =>
      rw [hgs] at h3 hkf hbad
      obtain ⟨stf, st', e2, e3, e4, e5⟩ := (runGroups_clean gs g { found := true } ks
        (hkf.2 g (List.mem_cons_self ..)) (fun x hx => hkf.2 x (List.mem_cons_of_mem _ hx)) hclean
        (by simp) (by simp)).mpr ⟨fun x hx hbx => hb (hbad.mpr (Or.inr ⟨x, hx, hbx⟩)), ks, h3, by simp, hN, hP⟩
      refine ⟨stf, st', ?_, e3, e4, e5⟩
      rw [hsplit, (parseToks_notFound _ {} {} hkf.1 rfl).mpr ⟨hall, rfl⟩, hgs]
      simp only [Option.bind_some, runGroups, parseToks_init_key]
      exact e2

/-- **the accepted entries are exactly the `[Key]` sections of the text, in order** -/
theorem parse_iff_sections (t : Str) (ks : List Key) :
    parse t = some ks ↔
      ∃ secs, sectionsOf ((lines t).map classify) = some secs ∧ secs ≠ [] ∧ secs.mapM entryOf = some ks ∧
        (ks.map (·.name)).Nodup ∧ (ks.map (·.pk)).Nodup := by
  rw [← toks_iff_sections, ← parseLines_eq]
  constructor
  · intro h
    obtain ⟨st, st', h1, h2, h3, h4⟩ := parse_some h
    exact ⟨st, st', h1, h2, h3, h4⟩
  · rintro ⟨st, st', h1, h2, h3, rfl⟩
    exact parse_of h1 h2 h3

/-! ### I. concrete data for non-vacuity examples: the keys of the Rust unit test (`KEYRING_INI`) -/

def alicePk : Str := "D7ZZstGYF6okKKEV2rwoUza/tK3iUa8IMY+l5tuirmzzkEog".toList
def aliceSk : Str :=
  "ZWdrMPEp09tKN3rAutCDQTshrNqoh0MLPnEERRCm5KFxvXcTo+s/Sf2ze0fKebVsQilImvLzfIHRcJuX8kGetyAQL1VchvzHR28vFhdKeq+NY2KT".toList
def bobPk : Str := "CT/e0R9tbBjTYUhDNnNxltT3LLWZLHwW4DCY/WHxBA8am9vP".toList

theorem alicePk_ok : encodedPkOk alicePk = true := by decide
theorem bobPk_ok : encodedPkOk bobPk = true := by decide
theorem aliceSk_ok : encodedSkOk aliceSk = true := by decide

theorem validEntry_alice : ValidEntry "alice".toList alicePk aliceSk :=
  ⟨by decide, by decide, by decide, alicePk_ok, aliceSk_ok⟩

theorem validEntry_bob : ValidEntry "Bobby Bobertson".toList bobPk aliceSk :=
  ⟨by decide, by decide, by decide, bobPk_ok, aliceSk_ok⟩

end Kestrel.KR
