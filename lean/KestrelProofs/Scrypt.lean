/-
  Helper lemmas for C18: the Rust-shaped scrypt (`Scrypt.Impl`) equals the RFC 7914 transcription
  (`Scrypt.Spec`) when N is a power of two ≥ 2, and output-length facts for PBKDF2 / scrypt.
  No cryptographic assumption is involved; Salsa20/8 is treated as an opaque function.
-/
import KestrelModel.Prim.Scrypt
import KestrelProofs.Prims
namespace Kestrel
namespace Scrypt

/-! ### evens / odds / xorBlocks / mixSeq lengths -/

theorem evens_odds_length : ∀ (l : List α), (evens l).length + (odds l).length = l.length
  | [] => rfl
  | [_] => rfl
  | _ :: _ :: r => by
    have ih := evens_odds_length r
    simp only [evens, odds, List.length_cons]; omega

theorem xorBlocks_length : ∀ (a b : List Blk), (xorBlocks a b).length = min a.length b.length
  | [], _ => by simp [xorBlocks]
  | _ :: _, [] => by simp [xorBlocks]
  | _ :: as, _ :: bs => by
    have ih := xorBlocks_length as bs
    simp only [xorBlocks, List.length_cons, ih]; omega

theorem Spec.mixSeq_length (X : Blk) (B : List Blk) : (Spec.mixSeq X B).length = B.length := by
  induction B generalizing X with
  | nil => rfl
  | cons b bs ih => simp only [Spec.mixSeq, List.length_cons, ih]

/-- scryptBlockMix is length preserving (any length, even or odd) -/
theorem Spec.blockMix_length (B : List Blk) : (Spec.blockMix B).length = B.length := by
  simp only [Spec.blockMix, List.length_append, evens_odds_length, Spec.mixSeq_length]

/-! ### block_mix: pairwise processing = sequential chain then shuffle -/

theorem Impl.mixPairs_eq : ∀ (B : List Blk) (tmp : Blk), B.length % 2 = 0 →
    Impl.mixPairs tmp B = (evens (Spec.mixSeq tmp B), odds (Spec.mixSeq tmp B))
  | [], _, _ => rfl
  | [_], _, h => by simp at h
  | b0 :: b1 :: rest, tmp, h => by
    have ih := Impl.mixPairs_eq rest (salsa208 ((salsa208 (tmp.xor b0)).xor b1))
      (by simp only [List.length_cons] at h; omega)
    simp only [Impl.mixPairs, Spec.mixSeq, evens, odds, ih]

theorem Impl.blockMix_eq (B : List Blk) (h : B.length % 2 = 0) : Impl.blockMix B = Spec.blockMix B := by
  simp only [Impl.blockMix, Spec.blockMix, Impl.mixPairs_eq B _ h]

theorem Impl.blockMix_length (B : List Blk) (h : B.length % 2 = 0) : (Impl.blockMix B).length = B.length := by
  rw [Impl.blockMix_eq B h, Spec.blockMix_length]

/-! ### the mask -/

theorem mask_eq_mod (x N k : Nat) (hN : N = 2^k) : x &&& (N - 1) = x % N := by
  subst hN; exact Nat.and_two_pow_sub_one_eq_mod x k

/-! ### first loop: two entries per iteration -/

theorem Impl.fillV2_eq : ∀ (n : Nat) (x : List Blk) (v : Array (List Blk)), x.length % 2 = 0 →
    Impl.fillV2 n x v = Spec.fillV (2 * n) x v
  | 0, _, _, _ => rfl
  | n+1, x, v, h => by
    have h1 : (Spec.blockMix x).length % 2 = 0 := by rw [Spec.blockMix_length]; exact h
    have h2 : (Spec.blockMix (Spec.blockMix x)).length % 2 = 0 := by rw [Spec.blockMix_length]; exact h1
    have e : 2 * (n + 1) = (2 * n + 1) + 1 := by omega
    rw [e]
    simp only [Impl.fillV2, Spec.fillV]
    rw [Impl.blockMix_eq x h, Impl.blockMix_eq _ h1]
    exact Impl.fillV2_eq n _ _ h2

/-- "every entry of V has even length" (out-of-range reads give `[]`, also even) -/
def EvenV (V : Array (List Blk)) : Prop := ∀ l ∈ V, l.length % 2 = 0

theorem EvenV.empty : EvenV #[] := by intro l hl; simp at hl

theorem EvenV.push {V : Array (List Blk)} (hV : EvenV V) {x : List Blk} (hx : x.length % 2 = 0) :
    EvenV (V.push x) := by
  intro l hl
  rcases Array.mem_push.mp hl with h | h
  · exact hV l h
  · subst h; exact hx

theorem EvenV.getD {V : Array (List Blk)} (hV : EvenV V) (j : Nat) : (V[j]?.getD []).length % 2 = 0 := by
  cases hj : V[j]? with
  | none => rfl
  | some l => exact hV l (Array.mem_of_getElem? hj)

theorem Spec.fillV_even : ∀ (n : Nat) (X : List Blk) (V : Array (List Blk)), X.length % 2 = 0 → EvenV V →
    EvenV (Spec.fillV n X V).1 ∧ (Spec.fillV n X V).2.length % 2 = 0
  | 0, _, _, hX, hV => ⟨hV, hX⟩
  | n+1, X, V, hX, hV => by
    simp only [Spec.fillV]
    exact Spec.fillV_even n _ _ (by rw [Spec.blockMix_length]; exact hX) (hV.push hX)

/-! ### second loop: two steps per iteration, mask instead of mod -/

theorem xorBlocks_even (a b : List Blk) (ha : a.length % 2 = 0) (hb : b.length % 2 = 0) :
    (xorBlocks a b).length % 2 = 0 := by
  rw [xorBlocks_length]; omega

theorem Impl.mixV2_eq (V : Array (List Blk)) (N k : Nat) (hN : N = 2^k) (hV : EvenV V) :
    ∀ (n : Nat) (x : List Blk), x.length % 2 = 0 → Impl.mixV2 V N n x = Spec.mixV V N (2 * n) x
  | 0, _, _ => rfl
  | n+1, x, h => by
    have e : 2 * (n + 1) = (2 * n + 1) + 1 := by omega
    rw [e]
    simp only [Impl.mixV2, Spec.mixV, mask_eq_mod _ N k hN]
    have h1 : (xorBlocks x (V[integerify x % N]?.getD [])).length % 2 = 0 :=
      xorBlocks_even _ _ h (hV.getD _)
    rw [Impl.blockMix_eq _ h1]
    have hy : (Spec.blockMix (xorBlocks x (V[integerify x % N]?.getD []))).length % 2 = 0 := by
      rw [Spec.blockMix_length]; exact h1
    generalize Spec.blockMix (xorBlocks x (V[integerify x % N]?.getD [])) = y at hy ⊢
    have h2 : (xorBlocks y (V[integerify y % N]?.getD [])).length % 2 = 0 :=
      xorBlocks_even _ _ hy (hV.getD _)
    rw [Impl.blockMix_eq _ h2]
    exact Impl.mixV2_eq V N k hN hV n _ (by rw [Spec.blockMix_length]; exact h2)

theorem two_mul_half_pow (N k : Nat) (hN : N = 2^k) (hk : 1 ≤ k) : 2 * (N / 2) = N := by
  obtain ⟨j, rfl⟩ : ∃ j, k = j + 1 := ⟨k - 1, by omega⟩
  subst hN; rw [Nat.pow_succ]; omega

theorem Impl.smix_eq (N k : Nat) (B : List Blk) (hN : N = 2^k) (hk : 1 ≤ k) (hB : B.length % 2 = 0) :
    Impl.smix N B = Spec.roMix N B := by
  have h2 := two_mul_half_pow N k hN hk
  have hf := Impl.fillV2_eq (N / 2) B #[] hB
  rw [h2] at hf
  have hev := Spec.fillV_even N B #[] hB EvenV.empty
  unfold Impl.smix Spec.roMix
  rw [hf]
  have hm := Impl.mixV2_eq (Spec.fillV N B #[]).1 N k hN hev.1 (N / 2) (Spec.fillV N B #[]).2 hev.2
  rw [h2] at hm
  exact hm

/-! ### whole function -/

theorem blocksOfBytes_length : ∀ (n : Nat) (b : Bytes), (blocksOfBytes n b).length = n
  | 0, _ => rfl
  | n+1, b => by simp only [blocksOfBytes, List.length_cons, blocksOfBytes_length n]

theorem Impl.smixAll_eq (N k r : Nat) (hN : N = 2^k) (hk : 1 ≤ k) :
    ∀ (p : Nat) (b : Bytes), Impl.smixAll N r p b = Spec.roMixAll N r p b
  | 0, _ => rfl
  | p+1, b => by
    simp only [Impl.smixAll, Spec.roMixAll]
    rw [Impl.smix_eq N k _ hN hk (by rw [blocksOfBytes_length]; omega), Impl.smixAll_eq N k r hN hk p]

theorem Impl.scrypt_eq (pw salt : Bytes) (N k r p dkLen : Nat) (hN : N = 2^k) (hk : 1 ≤ k) :
    Impl.scrypt pw salt N r p dkLen = Spec.scrypt pw salt N r p dkLen := by
  simp only [Impl.scrypt, Spec.scrypt, Impl.smixAll_eq N k r hN hk]

end Scrypt

/-! ### PBKDF2 output length -/

theorem pbkdf2Block_go_length (pw : Bytes) : ∀ (n : Nat) (u acc : Bytes), acc.length = 32 →
    (pbkdf2Block.go pw n u acc).length = 32
  | 0, _, _, h => h
  | n+1, u, acc, h => by
    simp only [pbkdf2Block.go]
    exact pbkdf2Block_go_length pw n _ _ (by rw [xorBytes_length, h, hmacSha256_length]; rfl)

theorem pbkdf2Block_length (pw salt : Bytes) (c i : Nat) : (pbkdf2Block pw salt c i).length = 32 := by
  simp only [pbkdf2Block]
  exact pbkdf2Block_go_length pw _ _ _ (hmacSha256_length _ _)

theorem pbkdf2Blocks_length (pw salt : Bytes) (c : Nat) : ∀ (n i : Nat),
    (pbkdf2Blocks pw salt c n i).length = 32 * n
  | 0, _ => rfl
  | n+1, i => by
    simp only [pbkdf2Blocks, List.length_append, pbkdf2Block_length, pbkdf2Blocks_length pw salt c n]; omega

theorem pbkdf2Sha256_length (pw salt : Bytes) (c len : Nat) : (pbkdf2Sha256 pw salt c len).length = len := by
  simp only [pbkdf2Sha256, List.length_take, pbkdf2Blocks_length]; omega

theorem Scrypt.Impl.scrypt_length (pw salt : Bytes) (N r p dkLen : Nat) :
    (Scrypt.Impl.scrypt pw salt N r p dkLen).length = dkLen := by
  simp only [Scrypt.Impl.scrypt, pbkdf2Sha256_length]

theorem Scrypt.Spec.scrypt_length (pw salt : Bytes) (N r p dkLen : Nat) :
    (Scrypt.Spec.scrypt pw salt N r p dkLen).length = dkLen := by
  simp only [Scrypt.Spec.scrypt, pbkdf2Sha256_length]

end Kestrel
