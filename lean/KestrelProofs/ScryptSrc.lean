/-
  Helper lemmas for C18src: the Lean code *generated from* `src/crypto/src/scrypt.rs`
  (`KestrelModel/GeneratedScrypt.lean`, namespace `Kestrel.ScryptSrc`, produced by tools/rs2lean_scrypt.py)
  computes RFC 7914 scrypt (`Scrypt.Spec`).

  Route: the generated code works on flat word lists (`List UInt32`) and byte lists; the hand-written model
  `Scrypt.Impl` works on `List Blk`.  `flat : List Blk → List UInt32` is the bridge:
    salsa_xor  = salsa208 (tmp xor inn)              (`salsa_xor_eq`)
    block_mix  = Impl.blockMix                        (`block_mix_eq`)
    integer    = integerify                           (`integer_eq`)
    smix       = bytesOfBlocks ∘ Impl.smix ∘ blocksOfBytes on the first 128·r bytes (`smix_eq`)
    scrypt     = Impl.scrypt                          (`scrypt_eq_impl`), then `Impl.scrypt_eq` (KestrelProofs/Scrypt.lean).
  Salsa20/8's double round is only unfolded once (to see that the loop body of `salsa_xor` is `salsaDouble`).

  Robustness to maintenance rewrites of scrypt.rs (regression test: tools/selftest_stream_scrypt.py).  Named constants are
  `@[simp]` in the generated file and every proof that unfolds a generated function calls `rs_unfold` (KestrelProofs/RsUnfold.lean)
  right after, so a literal may be given a name (`BLOCK_BYTES`, `SALSA_ROUNDS`, …) and a loop-invariant expression may be
  bound to a local (`let mask = (N - 1) as u64`).  Loop bodies are never restated (`_` + `fun _ _ => rfl` against the
  projection-form bodies `mixBody`, `fillBody`, …).  The three loops that a maintainer may write with an index or with
  iterators are proved in both forms and tried in turn (`first`): `block_xor` (`enumerate` / `iter_mut().zip`), and the
  byte↔word loops of `smix` (running offset `j += 4` / `chunks_exact(4)`, `chunks_exact_mut(4)`), and the lane loop of `scrypt`
  (`for i in 0..p` on `&mut b[i * 128 * r..]` / `for lane in b.chunks_exact_mut(128 * r)`).
  Index arithmetic is not matched syntactically: every counted loop is first brought to the normal form
  `Rs.loopFrom 1 (fun k => body (lo + step * k)) count 0` (`forRange_norm`, `forStep_norm`), and the loop lemmas take the
  count, the block size `R` and the offsets the body uses as VARIABLES (`cnt`, `a k`, `o1 k`, …; they are assigned by
  unification when the body is compared, by `rfl`, with the projection-form body) together with equations
  (`cnt = r`, `∀ k, a k = 2 * k * R`, `R = 32 * r`, …) discharged by `idx` (`rfl | omega | grind`).  So `(0..2*r).step_by(2)`
  with `i * 16` and `0..r` with `i * 32`, `32 * r` and `r * 32`, `(0..N).step_by(2)` and `0..N / 2` are the same to the proofs,
  while a wrong count, offset, split point or chunk size leaves a false equation (`grind` fails).  Buffers made by
  `vec![0; n]` or by splitting one (`split_at_mut`) only have to have the right lengths (`buf_len`).
  Still positional: the order of the variables in a loop state (declaration order in the source).
-/
import KestrelModel.GeneratedScrypt
import KestrelProofs.Scrypt
import KestrelProofs.RsUnfold
-- the loop normal-form lemmas are given to `simp only` together: a source uses one loop form or the other
set_option linter.unusedSimpArgs false
namespace Kestrel
namespace ScryptSrc
open Scrypt

/-! ### views: a block as 16 words, a block list as a flat word list -/

def words (s : Blk) : List UInt32 :=
  [s.x0, s.x1, s.x2, s.x3, s.x4, s.x5, s.x6, s.x7, s.x8, s.x9, s.x10, s.x11, s.x12, s.x13, s.x14, s.x15]

def flat : List Blk → List UInt32
  | [] => []
  | b :: bs => words b ++ flat bs

theorem words_length (s : Blk) : (words s).length = 16 := rfl

theorem flat_length : ∀ (L : List Blk), (flat L).length = 16 * L.length
  | [] => rfl
  | b :: bs => by simp only [flat, List.length_append, words_length, flat_length bs, List.length_cons]; omega

theorem flat_append : ∀ (A B : List Blk), flat (A ++ B) = flat A ++ flat B
  | [], _ => rfl
  | a :: as, B => by simp only [List.cons_append, flat, flat_append as B, List.append_assoc]

theorem flat_drop : ∀ (k : Nat) (L : List Blk), (flat L).drop (16 * k) = flat (L.drop k)
  | 0, _ => rfl
  | _+1, [] => by simp [flat]
  | k+1, b :: bs => by
    have e : 16 * (k + 1) = 16 + 16 * k := by omega
    rw [e, flat, ← List.drop_drop, List.drop_left' (words_length b), flat_drop k bs, List.drop_succ_cons]

theorem flat_take : ∀ (k : Nat) (L : List Blk), (flat L).take (16 * k) = flat (L.take k)
  | 0, _ => rfl
  | _+1, [] => by simp [flat]
  | k+1, b :: bs => by
    have e : 16 * (k + 1) = (words b).length + 16 * k := by rw [words_length]; omega
    rw [e, flat, List.take_length_add_append, flat_take k bs, List.take_succ_cons, flat]

/-- replacing block `k` of a flat list -/
theorem flat_set (L : List Blk) (k : Nat) (w : Blk) (h : k < L.length) :
    flat (L.take k) ++ (words w ++ flat (L.drop (k + 1))) = flat (L.set k w) := by
  rw [List.set_eq_take_append_cons_drop, if_pos h, flat_append, flat]

/-! ### the loop combinators -/

/-- Side goals about index arithmetic (an iteration count, a slice offset, a split point written one way or another:
    `i * 16` with `i = 0 + 2 * k`, or `k * 32`; `32 * r` or `r * 32`; `(N - 0 + 2 - 1) / 2` or `N / 2 - 0`): closed by evaluation,
    linear arithmetic, or `grind`'s commutative-semiring normaliser (products of variables such as `2 * i * (32 * r)`). -/
macro "idx" : tactic => `(tactic| (intros; first | rfl | omega | grind))

/-- a counted loop with any start and stride is a unit-stride loop from 0 over the re-indexed body -/
theorem loopFrom_reindex (step : Nat) (f : Nat → σ → σ) (i0 : Nat) : ∀ (n j : Nat) (s : σ),
    Rs.loopFrom step f n (i0 + step * j) s = Rs.loopFrom 1 (fun k => f (i0 + step * k)) n j s
  | 0, _, _ => rfl
  | n+1, j, s => by
    rw [Rs.loopFrom_succ, Rs.loopFrom_succ, ← loopFrom_reindex step f i0 n (j + 1), Nat.mul_succ, Nat.add_assoc]

/-- normal form of `for i in lo..hi`: `hi - lo` passes, pass `k` runs the body at `lo + k` -/
theorem forRange_norm (lo hi : Nat) (f : Nat → σ → σ) (s : σ) :
    Rs.forRange lo hi f s = Rs.loopFrom 1 (fun k => f (lo + k)) (hi - lo) 0 s := by
  have h := loopFrom_reindex 1 f lo (hi - lo) 0 s
  simp only [Nat.mul_zero, Nat.add_zero, Nat.one_mul] at h
  exact h

/-- normal form of `for i in (lo..hi).step_by(st)`: `⌈(hi - lo) / st⌉` passes, pass `k` runs the body at `lo + st * k`.
    (Every loop lemma below is stated for this normal form, with the count and the offsets the body uses as variables tied
    to their values by equations that `idx` proves: a stride-2 loop scaling its index and a unit-stride loop over pairs are
    the same loop to the proofs.) -/
theorem forStep_norm (lo hi st : Nat) (f : Nat → σ → σ) (s : σ) :
    Rs.forStep lo hi st f s = Rs.loopFrom 1 (fun k => f (lo + st * k)) ((hi - lo + st - 1) / st) 0 s := by
  have h := loopFrom_reindex st f lo ((hi - lo + st - 1) / st) 0 s
  rw [Nat.mul_zero, Nat.add_zero] at h
  exact h

/-! ### salsa_xor -/

/-- the loop state of `salsa_xor` -/
abbrev T16 := UInt32 × UInt32 × UInt32 × UInt32 × UInt32 × UInt32 × UInt32 × UInt32 × UInt32 × UInt32 × UInt32 ×
  UInt32 × UInt32 × UInt32 × UInt32 × UInt32

def tup (s : Blk) : T16 :=
  (s.x0, s.x1, s.x2, s.x3, s.x4, s.x5, s.x6, s.x7, s.x8, s.x9, s.x10, s.x11, s.x12, s.x13, s.x14, s.x15)

/-- four passes of a body that acts as `salsaDouble` -/
theorem salsa_loop (f : Nat → T16 → T16) (cnt : Nat) (hc : cnt = 4) (h : ∀ i s, f i (tup s) = tup (salsaDouble s))
    (a0 a1 a2 a3 a4 a5 a6 a7 a8 a9 a10 a11 a12 a13 a14 a15 : UInt32) :
    Rs.loopFrom 1 f cnt 0 (a0, a1, a2, a3, a4, a5, a6, a7, a8, a9, a10, a11, a12, a13, a14, a15) =
      tup (iter salsaDouble 4 ⟨a0, a1, a2, a3, a4, a5, a6, a7, a8, a9, a10, a11, a12, a13, a14, a15⟩) := by
  subst hc
  have e : (a0, a1, a2, a3, a4, a5, a6, a7, a8, a9, a10, a11, a12, a13, a14, a15) =
    tup ⟨a0, a1, a2, a3, a4, a5, a6, a7, a8, a9, a10, a11, a12, a13, a14, a15⟩ := rfl
  rw [e]
  simp only [Rs.loopFrom_succ, Rs.loopFrom_zero, h, iter]

/-- **salsa_xor**: with `tmp` a block, `inn` starting with a block and `out` starting with 16 words, the generated
    `salsa_xor` puts Salsa20/8 of `tmp xor inn` into `tmp` and into the first 16 words of `out`.
    (The loop body is compared with `salsaDouble` by `rfl`: this is where rotation counts and word indices are checked.) -/
theorem salsa_xor_eq (T B O : Blk) (ir or : List UInt32) :
    salsa_xor (words T) (words B ++ ir) (words O ++ or) =
      (words (salsa208 (T.xor B)), words (salsa208 (T.xor B)) ++ or) := by
  unfold salsa_xor
  rs_unfold
  extract_lets w0 w1 w2 w3 w4 w5 w6 w7 w8 w9 w10 w11 w12 w13 w14 w15 x0 x1 x2 x3 x4 x5 x6 x7 x8 x9 x10 x11 x12 x13 x14 x15
  simp only [forStep_norm, forRange_norm]
  rw [salsa_loop _ _ (by idx) (fun _ _ => rfl)]
  have hs : salsa208 (T.xor B) =
      (iter salsaDouble 4 ⟨x0, x1, x2, x3, x4, x5, x6, x7, x8, x9, x10, x11, x12, x13, x14, x15⟩).add
        ⟨w0, w1, w2, w3, w4, w5, w6, w7, w8, w9, w10, w11, w12, w13, w14, w15⟩ := rfl
  rw [hs]
  generalize iter salsaDouble 4 _ = Z
  clear_value w0 w1 w2 w3 w4 w5 w6 w7 w8 w9 w10 w11 w12 w13 w14 w15
  simp only [tup, Blk.add, Rs.set, words, List.cons_append, List.set_cons_zero, List.set_cons_succ, List.nil_append]

/-! ### block_copy, block_xor -/

theorem block_copy_eq (dst src : List UInt32) (n : Nat) (hd : n ≤ dst.length) (hs : n ≤ src.length) :
    block_copy dst src n = src.take n ++ dst.drop n := by
  have h1 : (dst.take n).length = n := by rw [List.length_take]; omega
  have h2 : (src.take n).length = n := by rw [List.length_take]; omega
  unfold block_copy
  rs_unfold
  simp only [Rs.copyFromSlice, h1, h2, List.take_take, Nat.min_self, List.drop_take, Nat.sub_self,
    List.take_zero, List.append_nil]

/-- writing `x` (all of it) into `v` at offset `a` through `block_copy(&mut v[a..], x, R)` -/
theorem put_block (v x : List UInt32) (a : Nat) (h : a + x.length ≤ v.length) :
    v.take a ++ block_copy (v.drop a) x x.length = v.take a ++ x ++ v.drop (a + x.length) := by
  rw [block_copy_eq _ _ _ (by rw [List.length_drop]; omega) (Nat.le_refl _), List.take_length, List.drop_drop,
    List.append_assoc]

/-- the meaning of the `block_xor` loop: xor `src` into a prefix of `dst` -/
def xorInto : List UInt32 → List UInt32 → List UInt32
  | d :: ds, e :: es => (d ^^^ e) :: xorInto ds es
  | ds, [] => ds
  | [], _ :: _ => []

theorem xorInto_nil_right : ∀ (ds : List UInt32), xorInto ds [] = ds
  | [] => rfl
  | _ :: _ => rfl

theorem xorInto_nil_left : ∀ (es : List UInt32), xorInto [] es = []
  | [] => rfl
  | _ :: _ => rfl

theorem block_xor_loop (f : Nat → UInt32 → List UInt32 → List UInt32)
    (hf : ∀ i e d, f i e d = Rs.set d i (Rs.idx d i ^^^ e)) :
    ∀ (l : List UInt32) (i : Nat) (d : List UInt32), Rs.enumFrom i l f d = d.take i ++ xorInto (d.drop i) l
  | [], i, d => by rw [Rs.enumFrom_nil, xorInto_nil_right, List.take_append_drop]
  | e :: es, i, d => by
    rw [Rs.enumFrom_cons, hf, block_xor_loop f hf es (i + 1)]
    by_cases hi : i < d.length
    · rw [List.drop_eq_getElem_cons hi, xorInto, Rs.set, List.drop_set_of_lt (by omega), Rs.idx,
        List.getD_eq_getElem?_getD, List.getElem?_eq_getElem hi, Option.getD_some,
        List.take_succ_eq_append_getElem (by rw [List.length_set]; exact hi), List.getElem_set_self,
        List.take_set_of_le (Nat.le_refl _), List.append_assoc, List.singleton_append]
    · have hi' : d.length ≤ i := by omega
      rw [Rs.set, List.set_eq_of_length_le hi', List.drop_of_length_le (by omega), List.drop_of_length_le hi',
        xorInto_nil_left, xorInto_nil_left, List.take_of_length_le (by omega), List.take_of_length_le hi']

/-- the iterator form of the same loop: `for (d, s) in dst[..n].iter_mut().zip(&src[..n]) { *d ^= s }` -/
theorem zipMut_xor (f : UInt32 → UInt32 → UInt32) (hf : ∀ a b, f a b = a ^^^ b) :
    ∀ (d e : List UInt32), Rs.zipMut d e f = xorInto d e
  | [], [] => rfl
  | [], _ :: _ => rfl
  | _ :: _, [] => rfl
  | a :: as, b :: bs => by rw [Rs.zipMut, hf, zipMut_xor f hf as bs, xorInto]

theorem xorInto_take_append : ∀ (n : Nat) (d e : List UInt32), e.length ≤ n → xorInto (d.take n) e ++ d.drop n = xorInto d e
  | _, [], e, _ => by simp [xorInto_nil_left]
  | _, d :: ds, [], _ => by simp [xorInto_nil_right]
  | 0, _ :: _, _ :: _, h => by simp at h
  | n+1, d :: ds, e :: es, h => by
    rw [List.take_succ_cons, List.drop_succ_cons, xorInto, xorInto, List.cons_append,
      xorInto_take_append n ds es (by simpa using h)]

/-- **block_xor**, whichever way its loop is written: an index loop over `src[..n].iter().enumerate()`, or
    `dst[..n].iter_mut().zip(&src[..n])` -/
theorem block_xor_eq (dst src : List UInt32) (n : Nat) : block_xor dst src n = xorInto dst (src.take n) := by
  unfold block_xor
  rs_unfold
  first
    | (rw [Rs.forEnum, block_xor_loop _ (fun _ _ _ => rfl)]
       rfl)
    | (simp only []
       rw [zipMut_xor _ (fun _ _ => rfl), xorInto_take_append n _ _ (by rw [List.length_take]; omega)])

theorem xorInto_append (a b : Blk) (r r' : List UInt32) :
    xorInto (words a ++ r) (words b ++ r') = words (a.xor b) ++ xorInto r r' := by
  simp only [words, List.cons_append, List.nil_append, xorInto, Blk.xor]

theorem xorInto_flat : ∀ (X V : List Blk), X.length = V.length → xorInto (flat X) (flat V) = flat (xorBlocks X V)
  | [], [], _ => rfl
  | [], _ :: _, h => by simp at h
  | _ :: _, [], h => by simp at h
  | a :: X, b :: V, h => by
    simp only [flat, xorBlocks, xorInto_append, xorInto_flat X V (by simpa using h)]

/-! ### integer -/

theorem or_shift32 (a b : UInt32) : a.toNat ||| (b.toNat <<< 32) = a.toNat + b.toNat * 2^32 := by
  have ha : a.toNat < 2^32 := a.toNat_lt
  rw [Nat.or_comm, ← Nat.shiftLeft_add_eq_or_of_lt ha, Nat.shiftLeft_eq, Nat.add_comm]

/-- a non-empty block list ends with its `getLast?` -/
theorem snoc_of_length {α} (X : List α) (n : Nat) (d : α) (h : X.length = n + 1) :
    X = X.take n ++ [X.getLast?.getD d] := by
  have hne : X ≠ [] := by intro e; rw [e] at h; simp at h
  rw [List.getLast?_eq_some_getLast hne, Option.getD_some]
  have h1 : X.take n = X.dropLast := by rw [List.dropLast_eq_take, h]; rfl
  rw [h1, List.dropLast_concat_getLast]

theorem idx_flat_snoc (A : List Blk) (b : Blk) (j : Nat) (hj : j = 16 * A.length) :
    Rs.idx (flat (A ++ [b])) j = b.x0 ∧ Rs.idx (flat (A ++ [b])) (j + 1) = b.x1 := by
  subst hj
  have hl := flat_length A
  simp only [Rs.idx, flat_append, List.getD_eq_getElem?_getD]
  rw [List.getElem?_append_right (by omega), List.getElem?_append_right (by omega)]
  have e0 : 16 * A.length - (flat A).length = 0 := by omega
  have e1 : 16 * A.length + 1 - (flat A).length = 1 := by omega
  rw [e0, e1]
  exact ⟨rfl, rfl⟩

/-- **integer** = Integerify on a flat block list of 2r blocks -/
theorem integer_eq (X : List Blk) (r : Nat) (hr : 1 ≤ r) (hX : X.length = 2 * r) :
    integer (flat X) r = integerify X := by
  have hs := snoc_of_length X (2 * r - 1) Blk.zero (by omega)
  have hi := idx_flat_snoc (X.take (2 * r - 1)) (X.getLast?.getD Blk.zero) ((2 * r - 1) * 16)
    (by rw [List.length_take]; omega)
  rw [← hs] at hi
  unfold integer
  rs_unfold
  simp only [integerify, hi.1, hi.2, or_shift32]

/-! ### block_mix -/

theorem take_succ_set {α} (L : List α) (k : Nat) (a : α) (h : k < L.length) :
    (L.set k a).take (k + 1) = L.take k ++ [a] := by
  rw [List.take_succ_eq_append_getElem (by rw [List.length_set]; exact h), List.getElem_set_self,
    List.take_set_of_le (Nat.le_refl _)]

/-- the body of the `block_mix` loop, in projection form; `a1`, `a2` are the offsets read in `inn`, `o1`, `o2` the offsets
    written in `out` -/
def mixBody (inn : List UInt32) (a1 o1 a2 o2 : Nat) (s : List UInt32 × List UInt32) : List UInt32 × List UInt32 :=
  let p := salsa_xor s.1 (inn.drop a1) (s.2.drop o1)
  let out1 := s.2.take o1 ++ p.2
  let q := salsa_xor p.1 (inn.drop a2) (out1.drop o2)
  (q.1, out1.take o2 ++ q.2)

/-- one pass of the loop: blocks `2k`, `2k+1` of the input go through Salsa20/8 into blocks `k` and `k+r` of `out` -/
theorem mixBody_eq (r k : Nat) (T b0 b1 : Blk) (Brest B O : List Blk) (hk : k < r) (hO : O.length = 2 * r)
    (hB : B.drop (2 * k) = b0 :: b1 :: Brest) (a1 o1 a2 o2 : Nat)
    (ha1 : a1 = 16 * (2 * k)) (ho1 : o1 = 16 * k) (ha2 : a2 = 16 * (2 * k + 1)) (ho2 : o2 = 16 * (k + r)) :
    mixBody (flat B) a1 o1 a2 o2 (words T, flat O) =
      (words (salsa208 ((salsa208 (T.xor b0)).xor b1)),
       flat ((O.set k (salsa208 (T.xor b0))).set (k + r) (salsa208 ((salsa208 (T.xor b0)).xor b1)))) := by
  subst ha1 ho1 ha2 ho2
  have e1 : (flat B).drop (16 * (2 * k)) = words b0 ++ (words b1 ++ flat Brest) := by
    rw [flat_drop, hB]; rfl
  have e2 : (flat B).drop (16 * (2 * k + 1)) = words b1 ++ flat Brest := by
    rw [flat_drop, ← List.drop_drop, hB]; rfl
  have e3 : (flat O).drop (16 * k) = words O[k] ++ flat (O.drop (k + 1)) := by
    rw [flat_drop, List.drop_eq_getElem_cons (by omega)]; rfl
  have e4 : (flat O).take (16 * k) = flat (O.take k) := flat_take _ _
  simp only [mixBody, e1, e3, salsa_xor_eq, e4, e2]
  generalize salsa208 (T.xor b0) = t0
  rw [flat_set O k t0 (by omega)]
  have hO1 : (O.set k t0).length = 2 * r := by rw [List.length_set]; exact hO
  have e5 : (flat (O.set k t0)).drop (16 * (k + r)) =
      words (O.set k t0)[k + r] ++ flat ((O.set k t0).drop (k + r + 1)) := by
    rw [flat_drop, List.drop_eq_getElem_cons (by omega)]; rfl
  have e6 : (flat (O.set k t0)).take (16 * (k + r)) = flat ((O.set k t0).take (k + r)) := flat_take _ _
  simp only [e5, e6, salsa_xor_eq, flat_set (O.set k t0) (k + r) _ (by omega)]

theorem mixPairs_cons2 (T b0 b1 : Blk) (rest : List Blk) :
    Impl.mixPairs T (b0 :: b1 :: rest) =
      (salsa208 (T.xor b0) :: (Impl.mixPairs (salsa208 ((salsa208 (T.xor b0)).xor b1)) rest).1,
       salsa208 ((salsa208 (T.xor b0)).xor b1) :: (Impl.mixPairs (salsa208 ((salsa208 (T.xor b0)).xor b1)) rest).2) := rfl

theorem block_mix_loop (r : Nat) (B : List Blk) (hB : B.length = 2 * r)
    (f : Nat → List UInt32 × List UInt32 → List UInt32 × List UInt32) (a1 o1 a2 o2 : Nat → Nat)
    (hf : ∀ k s, f k s = mixBody (flat B) (a1 k) (o1 k) (a2 k) (o2 k) s)
    (ha1 : ∀ k, a1 k = 16 * (2 * k)) (ho1 : ∀ k, o1 k = 16 * k) (ha2 : ∀ k, a2 k = 16 * (2 * k + 1))
    (ho2 : ∀ k, o2 k = 16 * (k + r)) :
    ∀ (n k : Nat) (T : Blk) (O : List Blk), k + n = r → O.length = 2 * r →
      ∃ T' : Blk, Rs.loopFrom 1 f n k (words T, flat O) =
        (words T', flat (O.take k ++ (Impl.mixPairs T (B.drop (2 * k))).1 ++ ((O.drop r).take k ++
          (Impl.mixPairs T (B.drop (2 * k))).2)))
  | 0, k, T, O, hk, hO => by
    refine ⟨T, ?_⟩
    have hk' : k = r := by omega
    subst hk'
    have e : B.drop (2 * k) = [] := List.drop_of_length_le (by omega)
    have e2 : (O.drop k).take k = O.drop k := List.take_of_length_le (by rw [List.length_drop]; omega)
    rw [Rs.loopFrom_zero, e, e2]
    simp only [Impl.mixPairs, List.append_nil, List.take_append_drop]
  | n+1, k, T, O, hk, hO => by
    have hkr : k < r := by omega
    obtain ⟨b0, b1, rest, hd⟩ : ∃ b0 b1 rest, B.drop (2 * k) = b0 :: b1 :: rest := by
      have h0 : 2 * k < B.length := by omega
      have h1 : 2 * k + 1 < B.length := by omega
      exact ⟨B[2 * k], B[2 * k + 1], B.drop (2 * k + 1 + 1), by
        rw [List.drop_eq_getElem_cons h0, List.drop_eq_getElem_cons h1]⟩
    have hrest : B.drop (2 * (k + 1)) = rest := by
      have := congrArg (List.drop 2) hd
      rw [List.drop_drop] at this
      rw [show 2 * (k + 1) = 2 * k + 2 by omega, this]; rfl
    rw [Rs.loopFrom_succ, hf, mixBody_eq r k T b0 b1 rest B O hkr hO hd _ _ _ _ (ha1 k) (ho1 k) (ha2 k) (ho2 k)]
    generalize ht0 : salsa208 (T.xor b0) = t0
    generalize ht1 : salsa208 (t0.xor b1) = t1
    obtain ⟨T', hT'⟩ := block_mix_loop r B hB f a1 o1 a2 o2 hf ha1 ho1 ha2 ho2 n (k + 1) t1 ((O.set k t0).set (k + r) t1) (by omega)
      (by rw [List.length_set, List.length_set]; exact hO)
    refine ⟨T', ?_⟩
    rw [hT', hd, mixPairs_cons2, ht0, ht1, hrest]
    have a1 : ((O.set k t0).set (k + r) t1).take (k + 1) = O.take k ++ [t0] := by
      rw [List.take_set_of_le (by omega), take_succ_set _ _ _ (by omega)]
    have a2 : (((O.set k t0).set (k + r) t1).drop r).take (k + 1) = (O.drop r).take k ++ [t1] := by
      rw [List.drop_set, if_neg (by omega), List.drop_set_of_lt hkr, show k + r - r = k by omega,
        take_succ_set _ _ _ (by rw [List.length_drop]; omega)]
    rw [a1, a2]
    simp only [List.append_assoc, List.singleton_append]

theorem blockMix_pairs (B : List Blk) : Impl.blockMix B =
    (Impl.mixPairs (B.getLast?.getD Blk.zero) B).1 ++ (Impl.mixPairs (B.getLast?.getD Blk.zero) B).2 := rfl

/-- **block_mix** on flat lists is `Impl.blockMix` (the block-list form of the same function; `tmp` ends up holding some block) -/
theorem block_mix_eq (T : Blk) (B O : List Blk) (r : Nat) (hr : 1 ≤ r) (hB : B.length = 2 * r) (hO : O.length = 2 * r) :
    ∃ T' : Blk, block_mix (words T) (flat B) (flat O) r = (words T', flat (Impl.blockMix B)) := by
  have hs := snoc_of_length B (2 * r - 1) Blk.zero (by omega)
  have hc : ∀ a n : Nat, a = 16 * (2 * r - 1) → n = 16 →
      block_copy (words T) ((flat B).drop a) n = words (B.getLast?.getD Blk.zero) := by
    intro a n ha hn
    subst ha hn
    rw [flat_drop]
    have hd : B.drop (2 * r - 1) = [B.getLast?.getD Blk.zero] := by
      conv => lhs; rw [hs]
      exact List.drop_left' (by rw [List.length_take]; omega)
    rw [hd, block_copy_eq _ _ _ (by rw [words_length]; omega) (by simp [flat, words_length])]
    simp [flat, words]
  have key : ∀ (F : Nat → List UInt32 × List UInt32 → List UInt32 × List UInt32) (cnt a n : Nat) (a1 o1 a2 o2 : Nat → Nat),
      (∀ k s, F k s = mixBody (flat B) (a1 k) (o1 k) (a2 k) (o2 k) s) →
      cnt = r → a = 16 * (2 * r - 1) → n = 16 →
      (∀ k, a1 k = 16 * (2 * k)) → (∀ k, o1 k = 16 * k) → (∀ k, a2 k = 16 * (2 * k + 1)) → (∀ k, o2 k = 16 * (k + r)) →
      ∃ T' : Blk, (match Rs.loopFrom 1 F cnt 0 (block_copy (words T) ((flat B).drop a) n, flat O) with
        | (tmp, out) => (tmp, out)) = (words T', flat (Impl.blockMix B)) := by
    intro F cnt a n a1 o1 a2 o2 hF hcnt ha hn ha1 ho1 ha2 ho2
    subst hcnt
    obtain ⟨T', hT'⟩ := block_mix_loop cnt B hB F a1 o1 a2 o2 hF ha1 ho1 ha2 ho2 cnt 0 (B.getLast?.getD Blk.zero) O (by omega) hO
    refine ⟨T', ?_⟩
    rw [hc a n ha hn, hT', blockMix_pairs]
    simp only [Nat.mul_zero, List.take_zero, List.drop_zero, List.nil_append]
  unfold block_mix
  rs_unfold
  simp only [forStep_norm, forRange_norm]
  exact key _ _ _ _ _ _ _ _ (fun _ _ => rfl) (by idx) (by idx) (by idx) (by idx) (by idx) (by idx) (by idx)

/-! ### bytes ↔ words -/

theorem drop_four {α} (l : List α) (k : Nat) (h : k + 4 ≤ l.length) :
    ∃ c0 c1 c2 c3, l.drop k = c0 :: c1 :: c2 :: c3 :: l.drop (k + 4) :=
  ⟨l[k], l[k + 1], l[k + 2], l[k + 3], by
    rw [List.drop_eq_getElem_cons (by omega), List.drop_eq_getElem_cons (by omega : k + 1 < l.length),
      List.drop_eq_getElem_cons (by omega : k + 1 + 1 < l.length),
      List.drop_eq_getElem_cons (by omega : k + 1 + 1 + 1 < l.length)]⟩

theorem words32le_length : ∀ (l : Bytes), (words32le l).length = l.length / 4
  | [] => rfl
  | [_] => by simp [words32le]
  | [_, _] => by simp [words32le]
  | [_, _, _] => by simp [words32le]
  | _ :: _ :: _ :: _ :: rest => by
    simp only [words32le, List.length_cons, words32le_length rest]; omega

theorem words32le_append : ∀ (l1 l2 : Bytes), l1.length % 4 = 0 → words32le (l1 ++ l2) = words32le l1 ++ words32le l2
  | [], _, _ => rfl
  | [_], _, h => by simp at h
  | [_, _], _, h => by simp at h
  | [_, _, _], _, h => by simp at h
  | b0 :: b1 :: b2 :: b3 :: rest, l2, h => by
    have ih := words32le_append rest l2 (by simp only [List.length_cons] at h; omega)
    simp only [List.cons_append, words32le, ih]

theorem ofWords_words (l : List UInt32) (h : l.length = 16) : words (Blk.ofWords l) = l := by
  iterate 16 (obtain _ | ⟨_, l⟩ := l; (· simp only [List.length_cons, List.length_nil] at h; omega))
  obtain _ | ⟨_, l⟩ := l
  · rfl
  · simp only [List.length_cons] at h; omega

/-- the 2r blocks read from a byte string are its first 128·r bytes as little-endian words -/
theorem flat_blocksOfBytes : ∀ (n : Nat) (c : Bytes), 64 * n ≤ c.length →
    flat (blocksOfBytes n c) = words32le (c.take (64 * n))
  | 0, _, _ => rfl
  | n+1, c, h => by
    have h64 : (c.take 64).length = 64 := by rw [List.length_take]; omega
    rw [blocksOfBytes, flat, ofWords_words _ (by rw [words32le_length, h64]),
      flat_blocksOfBytes n (c.drop 64) (by rw [List.length_drop]; omega),
      show 64 * (n + 1) = 64 + 64 * n by omega, List.take_add, words32le_append _ _ (by rw [h64])]

theorem bytes_eq_flatMap (s : Blk) : s.bytes = (words s).flatMap u32le := by
  simp only [Blk.bytes, words, List.flatMap_cons, List.flatMap_nil, List.append_assoc, List.append_nil]

theorem bytesOfBlocks_eq : ∀ (X : List Blk), bytesOfBlocks X = (flat X).flatMap u32le
  | [] => rfl
  | b :: bs => by
    have ih := bytesOfBlocks_eq bs
    simp only [bytesOfBlocks] at ih ⊢
    rw [List.flatMap_cons, flat, List.flatMap_append, ih, bytes_eq_flatMap]

theorem flatMap_u32le_length : ∀ (l : List UInt32), (l.flatMap u32le).length = 4 * l.length
  | [] => rfl
  | w :: ws => by
    rw [List.flatMap_cons, List.length_append, flatMap_u32le_length ws, List.length_cons]
    simp only [u32le, List.length_cons, List.length_nil]; omega

/-- first loop of `smix` (projection form of its body): `x[i] = u32::from_le_bytes(b[j..j+4]); j += 4` -/
def unpackBody (b : List UInt8) (i : Nat) (s : List UInt32 × Nat) : List UInt32 × Nat :=
  (Rs.set s.1 i (Rs.u32FromLeBytes ((b.drop s.2).take (s.2 + 4 - s.2))), s.2 + 4)

theorem unpack_loop (b : List UInt8) (F : Nat → List UInt32 × Nat → List UInt32 × Nat) (ix : Nat → Nat)
    (hF : ∀ i s, F i s = unpackBody b (ix i) s) (hix : ∀ i, ix i = i) :
    ∀ (n i : Nat) (x : List UInt32), i + n ≤ x.length → 4 * (i + n) ≤ b.length →
      Rs.loopFrom 1 F n i (x, 4 * i) =
        (x.take i ++ words32le ((b.drop (4 * i)).take (4 * n)) ++ x.drop (i + n), 4 * (i + n))
  | 0, i, x, _, _ => by simp [words32le]
  | n+1, i, x, hx, hb => by
    obtain ⟨c0, c1, c2, c3, hc⟩ := drop_four b (4 * i) (by omega)
    rw [Rs.loopFrom_succ, hF, hix, unpackBody]
    simp only [show 4 * i + 4 - 4 * i = 4 by omega, hc, List.take_succ_cons, List.take_zero]
    rw [show 4 * i + 4 = 4 * (i + 1) by omega, unpack_loop b F ix hF hix n (i + 1) _ (by rw [Rs.set, List.length_set]; omega) (by omega)]
    rw [Rs.set, take_succ_set _ _ _ (by omega), List.drop_set_of_lt (by omega),
      show 4 * (n + 1) = 4 * n + 1 + 1 + 1 + 1 by omega]
    simp only [List.take_succ_cons, words32le, show i + 1 + n = i + (n + 1) by omega,
      show 4 * (i + 1) = 4 * i + 4 by omega, List.append_assoc, List.singleton_append]
    rfl

theorem copyFromSlice_eq {α} (d s : List α) (h : d.length = s.length) : Rs.copyFromSlice d s = s := by
  rw [Rs.copyFromSlice, h, List.take_length, ← h, List.drop_length, List.append_nil]

/-- last loop of `smix` (projection form of its body): `b[j..j+4].copy_from_slice(&v.to_le_bytes()); j += 4` -/
def packBody (w : UInt32) (s : List UInt8 × Nat) : List UInt8 × Nat :=
  (s.1.take s.2 ++ (Rs.copyFromSlice ((s.1.drop s.2).take (s.2 + 4 - s.2)) (Rs.u32ToLeBytes w)) ++ s.1.drop (s.2 + 4),
   s.2 + 4)

theorem pack_loop (F : UInt32 → List UInt8 × Nat → List UInt8 × Nat) (hF : ∀ w s, F w s = packBody w s) :
    ∀ (l : List UInt32) (j : Nat) (b : List UInt8), j + 4 * l.length ≤ b.length →
      Rs.forIn l F (b, j) = (b.take j ++ l.flatMap u32le ++ b.drop (j + 4 * l.length), j + 4 * l.length)
  | [], j, b, _ => by simp
  | w :: ws, j, b, h => by
    have hl : (u32le w).length = 4 := rfl
    simp only [List.length_cons] at h
    have h4 : ((b.drop j).take (j + 4 - j)).length = (u32le w).length := by
      rw [List.length_take, List.length_drop, hl]; omega
    rw [Rs.forIn_cons, hF, packBody]
    simp only [Rs.u32ToLeBytes]
    rw [copyFromSlice_eq _ _ h4]
    have hlen : (b.take j ++ u32le w).length = j + 4 := by rw [List.length_append, List.length_take, hl]; omega
    rw [pack_loop F hF ws (j + 4) _ (by
      rw [List.length_append, List.length_append, List.length_take, hl, List.length_drop]; omega)]
    rw [List.take_left' hlen, ← List.drop_drop, List.drop_left' hlen, List.drop_drop,
      List.flatMap_cons, List.length_cons]
    simp only [List.append_assoc, show j + 4 + 4 * ws.length = j + 4 * (ws.length + 1) by omega]

/-- the iterator form of the first loop of `smix`:
    `for (word, bytes) in x[..R].iter_mut().zip(b[..4 * R].chunks_exact(4)) { *word = u32::from_le_bytes(bytes) }` -/
theorem unpack_zip (F : UInt32 → List UInt8 → UInt32) (hF : ∀ w bs, F w bs = Rs.u32FromLeBytes bs) :
    ∀ (x : List UInt32) (m : Nat) (l : List UInt8), x.length ≤ m → 4 * x.length ≤ l.length →
      Rs.zipMut x (Rs.chunksFrom 4 m l) F = words32le (l.take (4 * x.length))
  | [], _, _, _, _ => by
    cases ‹Nat› <;> simp [Rs.zipMut, Rs.chunksFrom, words32le]
  | w :: ws, 0, _, hm, _ => by simp at hm
  | w :: ws, m+1, l, hm, hl => by
    simp only [List.length_cons] at hm hl
    obtain ⟨c0, c1, c2, c3, hc⟩ := drop_four l 0 (by omega)
    rw [List.drop_zero] at hc
    rw [Rs.chunksFrom, Rs.zipMut, hF, unpack_zip F hF ws m (l.drop 4) (by omega) (by rw [List.length_drop]; omega)]
    rw [List.length_cons, show 4 * (ws.length + 1) = 4 * ws.length + 1 + 1 + 1 + 1 by omega, hc]
    simp only [List.take_succ_cons, List.take_zero, Nat.zero_add, words32le, List.drop_succ_cons, List.drop_zero]
    rfl

theorem unpack_zip_all (b : List UInt8) (x : List UInt32) (r : Nat) (F : UInt32 → List UInt8 → UInt32)
    (hF : ∀ w bs, F w bs = Rs.u32FromLeBytes bs) (hx : x.length = 32 * r) (hb : 128 * r ≤ b.length) :
    Rs.zipMut (x.take (32 * r)) (Rs.chunksExact 4 (b.take (4 * (32 * r)))) F ++ x.drop (32 * r) =
      flat (blocksOfBytes (2 * r) (b.take (128 * r))) := by
  have hl : (b.take (4 * (32 * r))).length = 4 * (32 * r) := by rw [List.length_take]; omega
  rw [List.take_of_length_le (Nat.le_of_eq hx), List.drop_of_length_le (Nat.le_of_eq hx), List.append_nil, Rs.chunksExact,
    unpack_zip F hF x _ _ (by rw [hl, hx]; omega) (by rw [hl, hx]; exact Nat.le_refl _),
    flat_blocksOfBytes _ _ (by rw [List.length_take]; omega), hx, List.take_take, List.take_take]
  rw [show min (4 * (32 * r)) (4 * (32 * r)) = 4 * (32 * r) by omega, show min (64 * (2 * r)) (128 * r) = 4 * (32 * r) by omega]

/-- the iterator form of the last loop of `smix`:
    `for (bytes, word) in b[..4 * R].chunks_exact_mut(4).zip(&x[..R]) { bytes.copy_from_slice(&word.to_le_bytes()) }` -/
theorem pack_zip (F : List UInt8 → UInt32 → List UInt8) (hF : ∀ bs w, F bs w = Rs.copyFromSlice bs (Rs.u32ToLeBytes w)) :
    ∀ (ws : List UInt32) (l : List UInt8), l.length = 4 * ws.length →
      (Rs.zipMut (Rs.chunksFrom 4 ws.length l) ws F).flatten = ws.flatMap u32le
  | [], _, _ => rfl
  | w :: ws, l, hl => by
    simp only [List.length_cons] at hl
    have h4 : (l.take 4).length = (u32le w).length := by
      rw [List.length_take]; simp only [u32le, List.length_cons, List.length_nil]; omega
    rw [List.length_cons, Rs.chunksFrom, Rs.zipMut, hF, Rs.u32ToLeBytes, copyFromSlice_eq _ _ h4, List.flatten_cons,
      pack_zip F hF ws (l.drop 4) (by rw [List.length_drop]; omega), List.flatMap_cons]

theorem pack_zip_all (b : List UInt8) (X : List UInt32) (r : Nat) (F : List UInt8 → UInt32 → List UInt8)
    (hF : ∀ bs w, F bs w = Rs.copyFromSlice bs (Rs.u32ToLeBytes w)) (hX : X.length = 32 * r) (hb : 128 * r ≤ b.length) :
    Rs.zipChunksMut 4 (b.take (4 * (32 * r))) (X.take (32 * r)) F ++ b.drop (4 * (32 * r)) =
      X.flatMap u32le ++ b.drop (128 * r) := by
  have hl : (b.take (4 * (32 * r))).length = 4 * (32 * r) := by rw [List.length_take]; omega
  have hd : (b.take (4 * (32 * r))).length / 4 = X.length := by rw [hl, hX]; omega
  have hr : (b.take (4 * (32 * r))).drop (4 * X.length) = [] := List.drop_of_length_le (by rw [hl, hX]; exact Nat.le_refl _)
  rw [List.take_of_length_le (Nat.le_of_eq hX)]
  unfold Rs.zipChunksMut Rs.chunksExact
  rw [hd, pack_zip F hF X _ (by rw [hl, hX]), hr, List.append_nil, show 4 * (32 * r) = 128 * r by omega]

/-! ### the flat table `v` -/

/-- the table `V` of scryptROMix as one flat word list -/
def flatL : List (List Blk) → List UInt32
  | [] => []
  | X :: Vs => flat X ++ flatL Vs

theorem flatL_append : ∀ (A B : List (List Blk)), flatL (A ++ B) = flatL A ++ flatL B
  | [], _ => rfl
  | a :: as, B => by simp only [List.cons_append, flatL, flatL_append as B, List.append_assoc]

/-- every entry of the table has `m` blocks -/
def AllLen (L : List (List Blk)) (m : Nat) : Prop := ∀ l ∈ L, l.length = m

theorem AllLen.nil (m : Nat) : AllLen [] m := by intro l hl; simp at hl

theorem AllLen.snoc {L : List (List Blk)} {m : Nat} (h : AllLen L m) {X : List Blk} (hX : X.length = m) :
    AllLen (L ++ [X]) m := by
  intro l hl
  rcases List.mem_append.mp hl with h1 | h1
  · exact h l h1
  · rw [List.mem_singleton.mp h1]; exact hX

/-- entry `j` of the flat table (`R` = words per entry) -/
theorem flatL_entry (m R : Nat) (hR : R = 16 * m) : ∀ (L : List (List Blk)) (j : Nat), AllLen L m → j < L.length →
    ((flatL L).drop (j * R)).take R = flat (L[j]?.getD [])
  | [], _, _, h => by simp at h
  | X :: Vs, 0, hL, _ => by
    have hX : (flat X).length = R := by rw [flat_length, hL X (List.mem_cons_self ..), hR]
    simp only [Nat.zero_mul, List.drop_zero, flatL, List.take_left' hX, List.getElem?_cons_zero, Option.getD_some]
  | X :: Vs, j+1, hL, h => by
    have hX : (flat X).length = R := by rw [flat_length, hL X (List.mem_cons_self ..), hR]
    have ih := flatL_entry m R hR Vs j (fun l hl => hL l (List.mem_cons_of_mem _ hl)) (by simpa using h)
    rw [flatL, Nat.succ_mul, Nat.add_comm (j * R) R, ← List.drop_drop, List.drop_left' hX, ih,
      List.getElem?_cons_succ]

/-! ### first big loop of smix: fill the table -/

theorem put_block_props (v x : List UInt32) (a R : Nat) (hR : x.length = R) (h : a + R ≤ v.length) :
    (v.take a ++ block_copy (v.drop a) x R).length = v.length ∧
    (v.take a ++ block_copy (v.drop a) x R).take (a + R) = v.take a ++ x := by
  subst hR
  have hl : (v.take a ++ x).length = a + x.length := by rw [List.length_append, List.length_take]; omega
  rw [put_block v x a h]
  refine ⟨?_, List.take_left' hl⟩
  rw [List.length_append, hl, List.length_drop]; omega

abbrev St4 := List UInt32 × List UInt32 × List UInt32 × List UInt32

/-- body of the loop `for i in (0..N).step_by(2) { block_copy(&mut v[i*R..], x, R); block_mix(&mut tmp, x, y, r);
    block_copy(&mut v[(i+1)*R..], y, R); block_mix(&mut tmp, y, x, r) }`, projection form, state (v, x, y, tmp) -/
def fillBody (r R a b : Nat) (s : St4) : St4 :=
  let v1 := s.1.take a ++ block_copy (s.1.drop a) s.2.1 R
  let p := block_mix s.2.2.2 s.2.1 s.2.2.1 r
  let v2 := v1.take b ++ block_copy (v1.drop b) p.2 R
  let q := block_mix p.1 p.2 s.2.1 r
  (v2, q.2, p.2, q.1)

theorem fillBody_eq (r R k : Nat) (hr : 1 ≤ r) (hR : R = 32 * r) (v : List UInt32) (X Y : List Blk) (T : Blk)
    (hX : X.length = 2 * r) (hY : Y.length = 2 * r) (hv : (2 * k + 2) * R ≤ v.length)
    (a b : Nat) (ha : a = 2 * k * R) (hb : b = (2 * k + 1) * R) :
    ∃ v' T', fillBody r R a b (v, flat X, flat Y, words T) =
        (v', flat (Impl.blockMix (Impl.blockMix X)), flat (Impl.blockMix X), words T') ∧
      v'.length = v.length ∧
      v'.take ((2 * k + 2) * R) = v.take (2 * k * R) ++ flat X ++ flat (Impl.blockMix X) := by
  subst ha hb
  obtain ⟨T1, h1⟩ := block_mix_eq T X Y r hr hX hY
  have hY1 : (Impl.blockMix X).length = 2 * r := by rw [Impl.blockMix_length X (by omega)]; exact hX
  obtain ⟨T2, h2⟩ := block_mix_eq T1 (Impl.blockMix X) X r hr hY1 hX
  have hfx : (flat X).length = R := by rw [flat_length, hX, hR]; omega
  have hfy : (flat (Impl.blockMix X)).length = R := by rw [flat_length, hY1, hR]; omega
  have e1 : (2 * k + 1) * R = 2 * k * R + R := by rw [Nat.add_mul, Nat.one_mul]
  have e2 : (2 * k + 2) * R = 2 * k * R + R + R := by rw [Nat.add_mul]; omega
  rw [e2] at hv ⊢
  obtain ⟨p1, p2⟩ := put_block_props v (flat X) (2 * k * R) R hfx (by omega)
  obtain ⟨q1, q2⟩ := put_block_props (v.take (2 * k * R) ++ block_copy (v.drop (2 * k * R)) (flat X) R)
    (flat (Impl.blockMix X)) (2 * k * R + R) R hfy (by rw [p1]; omega)
  generalize hv1 : v.take (2 * k * R) ++ block_copy (v.drop (2 * k * R)) (flat X) R = v1 at p1 p2 q1 q2
  generalize hv2 : v1.take (2 * k * R + R) ++ block_copy (v1.drop (2 * k * R + R)) (flat (Impl.blockMix X)) R = v2
    at q1 q2
  refine ⟨v2, T2, ?_, ?_, ?_⟩
  · simp only [fillBody, h1, h2, e1, hv1, hv2]
  · rw [q1, p1]
  · rw [q2, p2]

theorem fill_loop (r R : Nat) (hr : 1 ≤ r) (hR : R = 32 * r) (F : Nat → St4 → St4) (a b : Nat → Nat)
    (hF : ∀ k s, F k s = fillBody r R (a k) (b k) s) (ha : ∀ k, a k = 2 * k * R) (hb : ∀ k, b k = (2 * k + 1) * R) :
    ∀ (n k : Nat) (v : List UInt32) (X Y : List Blk) (T : Blk) (V : Array (List Blk)),
      X.length = 2 * r → Y.length = 2 * r → (2 * k + 2 * n) * R ≤ v.length → v.take (2 * k * R) = flatL V.toList →
      ∃ v' Y' T', Rs.loopFrom 1 F n k (v, flat X, flat Y, words T) =
          (v', flat (Impl.fillV2 n X V).2, flat Y', words T') ∧
        v'.length = v.length ∧ v'.take ((2 * k + 2 * n) * R) = flatL (Impl.fillV2 n X V).1.toList ∧
        Y'.length = 2 * r
  | 0, k, v, X, Y, T, V, _, hY, _, hV => ⟨v, Y, T, rfl, rfl, by simpa [Impl.fillV2] using hV, hY⟩
  | n+1, k, v, X, Y, T, V, hX, hY, hv, hV => by
    have hk : 2 * k + 2 * (n + 1) = 2 * (k + 1) + 2 * n := by omega
    obtain ⟨v1, T1, e, hl, ht⟩ := fillBody_eq r R k hr hR v X Y T hX hY
      (Nat.le_trans (Nat.mul_le_mul_right R (by omega)) hv) _ _ (ha k) (hb k)
    have hY1 : (Impl.blockMix X).length = 2 * r := by rw [Impl.blockMix_length X (by omega)]; exact hX
    have hX2 : (Impl.blockMix (Impl.blockMix X)).length = 2 * r := by
      rw [Impl.blockMix_length _ (by omega)]; exact hY1
    obtain ⟨v', Y', T', e', hl', ht', hY'⟩ := fill_loop r R hr hR F a b hF ha hb n (k + 1) v1 (Impl.blockMix (Impl.blockMix X))
      (Impl.blockMix X) T1 ((V.push X).push (Impl.blockMix X)) hX2 hY1 (by rw [hl, ← hk]; exact hv)
      (by
        rw [show 2 * (k + 1) = 2 * k + 2 by omega, ht, hV]
        simp only [Array.toList_push, flatL_append, flatL, List.append_nil, List.append_assoc])
    refine ⟨v', Y', T', ?_, by rw [hl', hl], by rw [hk]; exact ht', hY'⟩
    rw [Rs.loopFrom_succ, hF, e, e']
    rfl

theorem fillV2_props (r : Nat) : ∀ (n : Nat) (X : List Blk) (V : Array (List Blk)), X.length = 2 * r →
    AllLen V.toList (2 * r) →
    (Impl.fillV2 n X V).1.size = V.size + 2 * n ∧ AllLen (Impl.fillV2 n X V).1.toList (2 * r) ∧
      (Impl.fillV2 n X V).2.length = 2 * r
  | 0, _, _, hX, hV => ⟨rfl, hV, hX⟩
  | n+1, X, V, hX, hV => by
    have hY1 : (Impl.blockMix X).length = 2 * r := by rw [Impl.blockMix_length X (by omega)]; exact hX
    have hX2 : (Impl.blockMix (Impl.blockMix X)).length = 2 * r := by
      rw [Impl.blockMix_length _ (by omega)]; exact hY1
    have hV' : AllLen ((V.push X).push (Impl.blockMix X)).toList (2 * r) := by
      simp only [Array.toList_push]
      exact (hV.snoc hX).snoc hY1
    obtain ⟨a, b, c⟩ := fillV2_props r n _ _ hX2 hV'
    refine ⟨?_, b, c⟩
    rw [Impl.fillV2, a, Array.size_push, Array.size_push]; omega

/-! ### second big loop of smix: the data-dependent reads -/

abbrev St3 := List UInt32 × List UInt32 × List UInt32

/-- body of `for _ in (0..N).step_by(2) { let j = integer(x, r) & (N-1); block_xor(x, &v[j*R..], R); block_mix(&mut tmp, x, y, r);
    let j = integer(y, r) & (N-1); block_xor(y, &v[j*R..], R); block_mix(&mut tmp, y, x, r) }`, projection form,
    state (x, y, tmp) -/
def mixVBody (r R N : Nat) (v : List UInt32) (s : St3) : St3 :=
  let j := integer s.1 r &&& (N - 1)
  let x1 := block_xor s.1 (v.drop (j * R)) R
  let p := block_mix s.2.2 x1 s.2.1 r
  let j2 := integer p.2 r &&& (N - 1)
  let y1 := block_xor p.2 (v.drop (j2 * R)) R
  let q := block_mix p.1 y1 x1 r
  (q.2, y1, q.1)

/-- reading entry `j` of the flat table and xoring it into a flat block list -/
theorem xor_entry (r R N : Nat) (hR : R = 32 * r) (V : Array (List Blk)) (hVs : V.size = N)
    (hVl : AllLen V.toList (2 * r)) (X : List Blk) (hX : X.length = 2 * r) (j : Nat) (hj : j < N) :
    block_xor (flat X) ((flatL V.toList).drop (j * R)) R = flat (xorBlocks X (V[j]?.getD [])) ∧
      (xorBlocks X (V[j]?.getD [])).length = 2 * r := by
  have hjl : j < V.toList.length := by rw [Array.length_toList, hVs]; exact hj
  have he := flatL_entry (2 * r) R (by omega) V.toList j hVl hjl
  have hE : (V[j]?.getD []).length = 2 * r := by
    rw [← Array.getElem?_toList, List.getElem?_eq_getElem hjl, Option.getD_some]
    exact hVl _ (List.getElem_mem hjl)
  rw [Array.getElem?_toList] at he
  refine ⟨?_, by rw [xorBlocks_length, hX, hE]; omega⟩
  rw [block_xor_eq, he, xorInto_flat _ _ (by rw [hX, hE])]

theorem mixVBody_eq (r R N kk : Nat) (hr : 1 ≤ r) (hR : R = 32 * r) (hN : N = 2 ^ kk) (V : Array (List Blk))
    (hVs : V.size = N) (hVl : AllLen V.toList (2 * r)) (X Y : List Blk) (T : Blk)
    (hX : X.length = 2 * r) (hY : Y.length = 2 * r) :
    ∃ Y' T', mixVBody r R N (flatL V.toList) (flat X, flat Y, words T) =
        (flat (Impl.mixV2 V N 1 X), flat Y', words T') ∧
      (Impl.mixV2 V N 1 X).length = 2 * r ∧ Y'.length = 2 * r := by
  have hNpos : 0 < N := by rw [hN]; exact Nat.two_pow_pos kk
  have hj : ∀ x, x &&& (N - 1) < N := fun x => by rw [mask_eq_mod x N kk hN]; exact Nat.mod_lt _ hNpos
  -- first half
  obtain ⟨hx1, hx1l⟩ := xor_entry r R N hR V hVs hVl X hX _ (hj (integerify X))
  generalize hX1 : xorBlocks X (V[integerify X &&& (N - 1)]?.getD []) = X1 at hx1 hx1l
  obtain ⟨T1, h1⟩ := block_mix_eq T X1 Y r hr hx1l hY
  have hY1 : (Impl.blockMix X1).length = 2 * r := by rw [Impl.blockMix_length X1 (by omega)]; exact hx1l
  generalize hY1' : Impl.blockMix X1 = Y1 at h1 hY1
  -- second half
  obtain ⟨hy2, hy2l⟩ := xor_entry r R N hR V hVs hVl Y1 hY1 _ (hj (integerify Y1))
  generalize hY2 : xorBlocks Y1 (V[integerify Y1 &&& (N - 1)]?.getD []) = Y2 at hy2 hy2l
  obtain ⟨T2, h2⟩ := block_mix_eq T1 Y2 X1 r hr hy2l hx1l
  have hX2 : (Impl.blockMix Y2).length = 2 * r := by rw [Impl.blockMix_length Y2 (by omega)]; exact hy2l
  have hm : Impl.mixV2 V N 1 X = Impl.blockMix Y2 := by
    simp only [Impl.mixV2, hX1, hY1', hY2]
  refine ⟨Y2, T2, ?_, by rw [hm]; exact hX2, hy2l⟩
  simp only [mixVBody, integer_eq X r hr hX, hx1, h1, integer_eq Y1 r hr hY1, hy2, h2, hm]

theorem mixV2_succ (V : Array (List Blk)) (N n : Nat) (X : List Blk) :
    Impl.mixV2 V N (n + 1) X = Impl.mixV2 V N n (Impl.mixV2 V N 1 X) := rfl

theorem mix_loop (r R N kk : Nat) (hr : 1 ≤ r) (hR : R = 32 * r) (hN : N = 2 ^ kk) (V : Array (List Blk))
    (hVs : V.size = N) (hVl : AllLen V.toList (2 * r)) (F : Nat → St3 → St3)
    (hF : ∀ i s, F i s = mixVBody r R N (flatL V.toList) s) :
    ∀ (n i : Nat) (X Y : List Blk) (T : Blk), X.length = 2 * r → Y.length = 2 * r →
      ∃ Y' T', Rs.loopFrom 1 F n i (flat X, flat Y, words T) = (flat (Impl.mixV2 V N n X), flat Y', words T') ∧
        (Impl.mixV2 V N n X).length = 2 * r ∧ Y'.length = 2 * r
  | 0, _, X, Y, T, hX, hY => ⟨Y, T, rfl, hX, hY⟩
  | n+1, i, X, Y, T, hX, hY => by
    obtain ⟨Y1, T1, e, hl, hY1⟩ := mixVBody_eq r R N kk hr hR hN V hVs hVl X Y T hX hY
    obtain ⟨Y', T', e', hl', hY'⟩ := mix_loop r R N kk hr hR hN V hVs hVl F hF n (i + 1) _ Y1 T1 hl hY1
    exact ⟨Y', T', by rw [Rs.loopFrom_succ, hF, e, e', mixV2_succ V N n X], by rw [mixV2_succ V N n X]; exact hl', hY'⟩

/-! ### smix -/

/-- any word list of length 16·m is the flat form of m blocks -/
theorem exists_flat : ∀ (m : Nat) (l : List UInt32), l.length = 16 * m → ∃ L : List Blk, L.length = m ∧ flat L = l
  | 0, l, h => ⟨[], rfl, by rw [List.length_eq_zero_iff.mp (by omega : l.length = 0)]; rfl⟩
  | m+1, l, h => by
    obtain ⟨L, hL, hf⟩ := exists_flat m (l.drop 16) (by rw [List.length_drop]; omega)
    refine ⟨Blk.ofWords (l.take 16) :: L, by rw [List.length_cons, hL], ?_⟩
    rw [flat, hf, ofWords_words _ (by rw [List.length_take]; omega), List.take_append_drop]

theorem unpack_all (b : List UInt8) (F : Nat → List UInt32 × Nat → List UInt32 × Nat) (s : List UInt32 × Nat)
    (x : List UInt32) (r cnt : Nat) (ix : Nat → Nat) (h : Rs.loopFrom 1 F cnt 0 (x, 0) = s)
    (hF : ∀ i s, F i s = unpackBody b (ix i) s) (hc : cnt = 32 * r) (hix : ∀ i, ix i = i)
    (hx : x.length = 32 * r) (hb : 128 * r ≤ b.length) :
    s = (flat (blocksOfBytes (2 * r) (b.take (128 * r))), 4 * (32 * r)) := by
  subst hc
  have e := unpack_loop b F ix hF hix (32 * r) 0 x (by omega) (by omega)
  rw [show (0 : Nat) = 4 * 0 from rfl, e] at h
  rw [← h, flat_blocksOfBytes _ _ (by rw [List.length_take]; omega)]
  simp only [Nat.mul_zero, List.take_zero, List.drop_zero, List.nil_append, Nat.zero_add,
    List.drop_of_length_le (Nat.le_of_eq hx), List.append_nil, List.take_take]
  rw [show min (64 * (2 * r)) (128 * r) = 4 * (32 * r) by omega]

theorem fill_all (r R N : Nat) (hr : 1 ≤ r) (hR : R = 32 * r) (F : Nat → St4 → St4) (s : St4) (m : Nat) (hm : N = 2 * m)
    (v : List UInt32) (X Y : List Blk) (T : Blk) (cnt : Nat) (a b : Nat → Nat)
    (h : Rs.loopFrom 1 F cnt 0 (v, flat X, flat Y, words T) = s) (hF : ∀ k s, F k s = fillBody r R (a k) (b k) s)
    (hc : cnt = m) (ha : ∀ k, a k = 2 * k * R) (hb : ∀ k, b k = (2 * k + 1) * R)
    (hX : X.length = 2 * r) (hY : Y.length = 2 * r) (hv : v.length = N * R) :
    ∃ Y' T', s = (flatL (Impl.fillV2 m X #[]).1.toList, flat (Impl.fillV2 m X #[]).2, flat Y', words T') ∧
      Y'.length = 2 * r := by
  subst hm hc
  obtain ⟨v', Y', T', e, hl, ht, hY'⟩ := fill_loop r R hr hR F a b hF ha hb cnt 0 v X Y T #[] hX hY
    (by rw [hv]; exact Nat.le_of_eq (by rw [Nat.mul_zero, Nat.zero_add])) (by simp [flatL])
  rw [e] at h
  rw [Nat.mul_zero, Nat.zero_add, ← hv, ← hl, List.take_length] at ht
  exact ⟨Y', T', by rw [← h, ht], hY'⟩

theorem mix_all (r R N kk : Nat) (hr : 1 ≤ r) (hR : R = 32 * r) (hN : N = 2 ^ kk) (m : Nat) (_hm : N = 2 * m)
    (V : Array (List Blk)) (hVs : V.size = N) (hVl : AllLen V.toList (2 * r)) (F : Nat → St3 → St3) (s : St3)
    (X Y : List Blk) (T : Blk) (cnt : Nat) (h : Rs.loopFrom 1 F cnt 0 (flat X, flat Y, words T) = s)
    (hF : ∀ i s, F i s = mixVBody r R N (flatL V.toList) s) (hc : cnt = m) (hX : X.length = 2 * r) (hY : Y.length = 2 * r) :
    ∃ Y' T', s = (flat (Impl.mixV2 V N m X), flat Y', words T') ∧
      (Impl.mixV2 V N m X).length = 2 * r ∧ Y'.length = 2 * r := by
  obtain ⟨Y', T', e, hl, hY'⟩ := mix_loop r R N kk hr hR hN V hVs hVl F hF m 0 X Y T hX hY
  rw [hc, e] at h
  exact ⟨Y', T', h.symm, hl, hY'⟩

theorem pack_all (F : UInt32 → List UInt8 × Nat → List UInt8 × Nat) (s : List UInt8 × Nat) (l : List UInt32) (R : Nat)
    (b : List UInt8) (h : Rs.forIn (l.take R) F (b, 0) = s) (hF : ∀ w s, F w s = packBody w s) (hR : l.length ≤ R)
    (hb : 4 * l.length ≤ b.length) :
    s.1 = l.flatMap u32le ++ b.drop (4 * l.length) := by
  rw [List.take_of_length_le hR] at h
  rw [← h, pack_loop F hF l 0 b (by omega)]
  simp only [List.take_zero, List.nil_append, Nat.zero_add]

theorem flatL_length (m : Nat) : ∀ (L : List (List Blk)), AllLen L m → (flatL L).length = L.length * (16 * m)
  | [], _ => by simp [flatL]
  | X :: Vs, h => by
    rw [flatL, List.length_append, flat_length, h X (List.mem_cons_self ..),
      flatL_length m Vs (fun l hl => h l (List.mem_cons_of_mem _ hl)), List.length_cons, Nat.add_mul, Nat.one_mul, Nat.add_comm]

theorem smix_unfold (N : Nat) (B : List Blk) :
    Impl.smix N B = Impl.mixV2 (Impl.fillV2 (N / 2) B #[]).1 N (N / 2) (Impl.fillV2 (N / 2) B #[]).2 := rfl

/-- **smix**: the generated `smix` replaces the first 128·r bytes of `b` by the bytes of `Impl.smix` of the blocks read from
    them, leaves the rest of `b` alone, and leaves scratch buffers of unchanged sizes in `v`, `x`, `y`. -/
theorem smix_eq (b : List UInt8) (v x y : List UInt32) (r N kk : Nat) (hN : N = 2 ^ kk) (hk : 1 ≤ kk) (hr : 1 ≤ r)
    (hb : 128 * r ≤ b.length) (hv : v.length = N * (32 * r)) (hx : x.length = 32 * r) (hy : y.length = 32 * r) :
    ∃ v' x' y', smix b r N v x y =
        (bytesOfBlocks (Impl.smix N (blocksOfBytes (2 * r) (b.take (128 * r)))) ++ b.drop (128 * r), v', x', y') ∧
      v'.length = N * (32 * r) ∧ x'.length = 32 * r ∧ y'.length = 32 * r ∧
      (Impl.smix N (blocksOfBytes (2 * r) (b.take (128 * r)))).length = 2 * r := by
  have hm : N = 2 * (N / 2) := (two_mul_half_pow N kk hN hk).symm
  obtain ⟨Y0, hY0, rfl⟩ := exists_flat (2 * r) y (by omega)
  have hz : List.replicate 16 (0 : UInt32) = words Blk.zero := rfl
  unfold smix
  rs_unfold
  simp only [hz, forStep_norm, forRange_norm]
  -- first loop (bytes of `b` to words of `x`): an index loop with a running byte offset, or `iter_mut().zip(chunks_exact(4))`
  first
    | (generalize h1 : Rs.loopFrom 1 _ _ 0 (x, 0) = s1
       have e1 := unpack_all b _ s1 x r _ _ h1 (fun _ _ => rfl) (by idx) (by idx) hx hb
       subst e1
       simp only [])
    | simp only [unpack_zip_all b x r _ (fun _ _ => rfl) hx hb]
  generalize h2 : Rs.loopFrom 1 _ _ 0 (v, flat (blocksOfBytes (2 * r) (b.take (128 * r))), flat Y0, words Blk.zero) = s2
  have hX0 : (blocksOfBytes (2 * r) (b.take (128 * r))).length = 2 * r := blocksOfBytes_length _ _
  obtain ⟨Y1, T1, rfl, hY1⟩ := fill_all r _ N hr (by idx) _ s2 (N / 2) hm v _ Y0 Blk.zero _ _ _ h2 (fun _ _ => rfl)
    (by idx) (by idx) (by idx) hX0 hY0 (hv.trans (by idx))
  obtain ⟨hVs, hVl, hX1⟩ := fillV2_props r (N / 2) _ #[] hX0 (AllLen.nil _)
  simp only []
  generalize h3 : Rs.loopFrom 1 _ _ 0 (flat (Impl.fillV2 (N / 2) (blocksOfBytes (2 * r) (b.take (128 * r))) #[]).2,
    flat Y1, words T1) = s3
  obtain ⟨Y2, T2, rfl, hX2, hY2⟩ := mix_all r _ N kk hr (by idx) hN (N / 2) hm _ (by rw [hVs]; simp; omega) hVl _ s3 _ Y1 T1 _ h3
    (fun _ _ => rfl) (by idx) hX1 hY1
  simp only []
  clear h2 h3
  rw [← smix_unfold] at hX2 ⊢
  generalize Impl.smix N (blocksOfBytes (2 * r) (b.take (128 * r))) = X3 at hX2 ⊢
  have hfl : (flat X3).length = 32 * r := by rw [flat_length, hX2]; omega
  have hvl : (flatL (Impl.fillV2 (N / 2) (blocksOfBytes (2 * r) (b.take (128 * r))) #[]).1.toList).length = N * (32 * r) := by
    rw [flatL_length (2 * r) _ hVl, Array.length_toList, hVs]
    simp only [List.size_toArray, List.length_nil, Nat.zero_add]
    rw [← hm, show 16 * (2 * r) = 32 * r by omega]
  -- last loop (words of `x` back to bytes of `b`): a `for` over `&x[..R]` with a running byte offset, or
  -- `chunks_exact_mut(4).zip(&x[..R])`
  first
    | (generalize h4 : Rs.forIn (List.take _ (flat X3)) _ (b, 0) = s4
       have e4 := pack_all _ s4 (flat X3) _ b h4 (fun _ _ => rfl) (by rw [hfl]; idx) (by rw [hfl]; omega)
       refine ⟨_, flat X3, flat Y2, ?_, hvl, hfl, by rw [flat_length, hY2]; omega, hX2⟩
       rw [e4, bytesOfBlocks_eq, hfl, show 4 * (32 * r) = 128 * r by omega])
    | (rw [pack_zip_all b (flat X3) r _ (fun _ _ => rfl) hfl hb]
       refine ⟨_, flat X3, flat Y2, ?_, hvl, hfl, by rw [flat_length, hY2]; omega, hX2⟩
       rw [bytesOfBlocks_eq])

/-! ### scrypt -/

abbrev St5 := List UInt32 × List UInt32 × List UInt32 × List UInt8

/-- body of `for i in 0..p { smix(&mut b[i*128*r..], r, n, &mut v, &mut x, &mut y) }`, projection form, state (x, y, v, b) -/
def scryptBody (r n a : Nat) (s : St5) : St5 :=
  let q := smix (s.2.2.2.drop a) r n s.2.2.1 s.1 s.2.1
  (q.2.2.1, q.2.2.2, q.2.1, s.2.2.2.take a ++ q.1)

theorem bytesOfBlocks_length (X : List Blk) : (bytesOfBlocks X).length = 64 * X.length := by
  rw [bytesOfBlocks_eq, flatMap_u32le_length, flat_length]; omega

theorem scrypt_loop (r N kk : Nat) (hN : N = 2 ^ kk) (hk : 1 ≤ kk) (hr : 1 ≤ r) (F : Nat → St5 → St5) (a : Nat → Nat)
    (hF : ∀ i s, F i s = scryptBody r N (a i) s) (ha : ∀ i, a i = i * (128 * r)) :
    ∀ (n i : Nat) (x y v : List UInt32) (done rest : List UInt8),
      done.length = i * (128 * r) → rest.length = n * (128 * r) →
      x.length = 32 * r → y.length = 32 * r → v.length = N * (32 * r) →
      ∃ x' y' v', Rs.loopFrom 1 F n i (x, y, v, done ++ rest) = (x', y', v', done ++ Impl.smixAll N r n rest)
  | 0, _, x, y, v, done, rest, _, hrest, _, _, _ => by
    have : rest = [] := List.length_eq_zero_iff.mp (by rw [hrest, Nat.zero_mul])
    exact ⟨x, y, v, by rw [this]; rfl⟩
  | n+1, i, x, y, v, done, rest, hdone, hrest, hx, hy, hv => by
    have hrest' : rest.length = n * (128 * r) + 128 * r := by rw [hrest, Nat.add_mul, Nat.one_mul]
    obtain ⟨v1, x1, y1, e, hv1, hx1, hy1, hl⟩ := smix_eq rest v x y r N kk hN hk hr (by omega) hv hx hy
    generalize hch : bytesOfBlocks (Impl.smix N (blocksOfBytes (2 * r) (rest.take (128 * r)))) = chunk at e
    have hchl : chunk.length = 128 * r := by rw [← hch, bytesOfBlocks_length, hl]; omega
    obtain ⟨x', y', v', e'⟩ := scrypt_loop r N kk hN hk hr F a hF ha n (i + 1) x1 y1 v1 (done ++ chunk) (rest.drop (128 * r))
      (by rw [List.length_append, hdone, hchl, Nat.add_mul, Nat.one_mul])
      (by rw [List.length_drop, hrest']; omega) hx1 hy1 hv1
    refine ⟨x', y', v', ?_⟩
    rw [Rs.loopFrom_succ, hF, ha, scryptBody]
    simp only [List.drop_left' hdone, List.take_left' hdone, e]
    rw [← List.append_assoc, e', Impl.smixAll, hch, List.append_assoc]

theorem scrypt_all (r N kk : Nat) (hN : N = 2 ^ kk) (hk : 1 ≤ kk) (hr : 1 ≤ r) (F : Nat → St5 → St5) (s : St5)
    (p : Nat) (x y v : List UInt32) (B : List UInt8) (cnt : Nat) (a : Nat → Nat) (h : Rs.loopFrom 1 F cnt 0 (x, y, v, B) = s)
    (hF : ∀ i s, F i s = scryptBody r N (a i) s) (hc : cnt = p) (ha : ∀ i, a i = i * (128 * r)) (hB : B.length = p * (128 * r))
    (hx : x.length = 32 * r) (hy : y.length = 32 * r) (hv : v.length = N * (32 * r)) :
    s.2.2.2 = Impl.smixAll N r p B := by
  subst hc
  obtain ⟨x', y', v', e⟩ := scrypt_loop r N kk hN hk hr F a hF ha cnt 0 x y v [] B (by simp) hB hx hy hv
  rw [List.nil_append] at e
  rw [← h, e]
  rfl

/-- body of `for lane in b.chunks_exact_mut(128 * r) { smix(lane, r, n, &mut v, x, y) }`, projection form: the chunk and the
    state (x, y, v) -/
def laneBody (r n : Nat) (c : List UInt8) (s : St3) : List UInt8 × St3 :=
  let q := smix c r n s.2.2 s.1 s.2.1
  (q.1, (q.2.2.1, q.2.2.2, q.2.1))

theorem lanes_loop (r N kk : Nat) (hN : N = 2 ^ kk) (hk : 1 ≤ kk) (hr : 1 ≤ r) (F : List UInt8 → St3 → List UInt8 × St3)
    (hF : ∀ c s, F c s = laneBody r N c s) :
    ∀ (n : Nat) (x y v : List UInt32) (rest : List UInt8), rest.length = n * (128 * r) →
      x.length = 32 * r → y.length = 32 * r → v.length = N * (32 * r) →
      (Rs.chunksMutFrom (128 * r) F n rest (x, y, v)).1 = Impl.smixAll N r n rest
  | 0, _, _, _, rest, hrest, _, _, _ => by
    have : rest = [] := List.length_eq_zero_iff.mp (by rw [hrest, Nat.zero_mul])
    rw [this]; rfl
  | n+1, x, y, v, rest, hrest, hx, hy, hv => by
    have hrest' : rest.length = n * (128 * r) + 128 * r := by rw [hrest, Nat.add_mul, Nat.one_mul]
    have hl : (rest.take (128 * r)).length = 128 * r := by rw [List.length_take]; omega
    obtain ⟨v1, x1, y1, e, hv1, hx1, hy1, _⟩ := smix_eq (rest.take (128 * r)) v x y r N kk hN hk hr (by omega) hv hx hy
    rw [List.take_of_length_le (Nat.le_of_eq hl), List.drop_of_length_le (Nat.le_of_eq hl), List.append_nil] at e
    have ih := lanes_loop r N kk hN hk hr F hF n x1 y1 v1 (rest.drop (128 * r)) (by rw [List.length_drop, hrest']; omega)
      hx1 hy1 hv1
    rw [Rs.chunksMutFrom_succ, hF, laneBody]
    simp only [e]
    rw [ih, Impl.smixAll]

/-- the lanes of `b`, whichever way the loop of `scrypt` visits them: chunk by chunk -/
theorem lanes_all (r N kk : Nat) (hN : N = 2 ^ kk) (hk : 1 ≤ kk) (hr : 1 ≤ r) (F : List UInt8 → St3 → List UInt8 × St3)
    (s : List UInt8 × St3) (p : Nat) (x y v : List UInt32) (B : List UInt8) (K : Nat)
    (h : Rs.forChunksMut K B F (x, y, v) = s) (hF : ∀ c s, F c s = laneBody r N c s) (hK : K = 128 * r)
    (hB : B.length = p * (128 * r)) (hx : x.length = 32 * r) (hy : y.length = 32 * r) (hv : v.length = N * (32 * r)) :
    s.1 = Impl.smixAll N r p B := by
  subst hK
  rw [← h, Rs.forChunksMut, hB, Nat.mul_div_cancel _ (by omega : 0 < 128 * r)]
  exact lanes_loop r N kk hN hk hr F hF p x y v B hB hx hy hv

/-- lengths of freshly made buffers (`vec![0; n]`, or a half of one split at some point) -/
macro "buf_len" : tactic =>
  `(tactic| (simp only [List.length_take, List.length_drop, List.length_replicate, List.length_append] <;> idx))

-- comparing the loop body of `scrypt` with `scryptBody` / `laneBody` must not unfold `smix`
attribute [local irreducible] smix in
/-- **scrypt** (generated from scrypt.rs) = the block-list model `Impl.scrypt`.  The loop over the `p` lanes of `b` may be an
    index loop passing `&mut b[i * 128 * r..]` or a loop over `b.chunks_exact_mut(128 * r)`; the working blocks `x`, `y` may
    be two buffers or the halves of one (only their lengths matter). -/
theorem scrypt_eq_impl (pw salt : Bytes) (N r p dkLen kk : Nat) (hN : N = 2 ^ kk) (hk : 1 ≤ kk) (hr : 1 ≤ r) :
    scrypt pw salt N r p dkLen = Impl.scrypt pw salt N r p dkLen := by
  unfold scrypt
  rs_unfold
  simp only [List.length_replicate]
  have hB : ∀ m, m = p * (128 * r) → (pbkdf2Sha256 pw salt 1 m).length = p * (128 * r) := by
    intro m hm
    rw [pbkdf2Sha256_length, hm]
  first
    | (simp only [forStep_norm, forRange_norm]
       generalize h : Rs.loopFrom 1 _ _ 0 _ = s
       refine (scrypt_all r N kk hN hk hr _ s p _ _ _ _ _ ?a h ?hF ?hc ?ha (hB _ ?hm) ?hx ?hy ?hv) ▸ ?_
       case hF => intro i s; rfl
       case hc => idx
       case ha => idx
       case hm => idx
       case hx => buf_len
       case hy => buf_len
       case hv => buf_len
       rfl)
    | (generalize h : Rs.forChunksMut _ _ _ _ = s
       refine (lanes_all r N kk hN hk hr _ s p _ _ _ _ _ h ?hF ?hK (hB _ ?hm) ?hx ?hy ?hv) ▸ ?_
       case hF => intro c s; rfl
       case hK => idx
       case hm => idx
       case hx => buf_len
       case hy => buf_len
       case hv => buf_len
       rfl)

/-! ### what the `assert!`s of `scrypt` give -/

/-- `n & (n - 1) == 0` for `n > 0` means `n` is a power of two -/
theorem pow2_of_and_pred : ∀ (n : Nat), 0 < n → n &&& (n - 1) = 0 → ∃ k, n = 2 ^ k := by
  intro n
  induction n using Nat.strongRecOn with
  | _ n ih =>
    intro hpos hand
    by_cases h1 : n = 1
    · exact ⟨0, h1⟩
    · have hdiv : n / 2 &&& (n - 1) / 2 = 0 := by rw [← Nat.and_div_two, hand]
      rcases Nat.mod_two_eq_zero_or_one n with he | ho
      · -- n even: n/2 is again of this form
        have e : (n - 1) / 2 = n / 2 - 1 := by omega
        rw [e] at hdiv
        obtain ⟨k, hk⟩ := ih (n / 2) (by omega) (by omega) hdiv
        exact ⟨k + 1, by rw [Nat.pow_succ, ← hk]; omega⟩
      · -- n odd and ≥ 3: impossible
        have e : (n - 1) / 2 = n / 2 := by omega
        rw [e, Nat.and_self] at hdiv
        omega

/-- the `assert!`s of `scrypt` force `n` to be a power of two ≥ 2 and `r ≥ 1`
    (`n ≤ usize::MAX / 128 / r` fails for `r = 0`: in Rust the division panics, in the Nat reading it is `n ≤ 0`) -/
theorem pre_consequences (n r p : Nat) (h : scrypt_pre n r p) : (∃ k, n = 2 ^ k ∧ 1 ≤ k) ∧ 1 ≤ r := by
  obtain ⟨_, hn, hand, _, _, _, hnr⟩ := h
  obtain ⟨k, hk⟩ := pow2_of_and_pred n (by omega) hand
  refine ⟨⟨k, hk, ?_⟩, ?_⟩
  · cases k with
    | zero => rw [hk] at hn; simp at hn
    | succ k => omega
  · cases r with
    | zero => rw [Nat.div_zero] at hnr; omega
    | succ r => omega

/-- the translated `scrypt` equals RFC 7914 scrypt whenever the function's own `assert!`s hold -/
theorem scrypt_eq_spec (pw salt : Bytes) (N r p dkLen : Nat) (hpre : scrypt_pre N r p) :
    scrypt pw salt N r p dkLen = Spec.scrypt pw salt N r p dkLen := by
  obtain ⟨⟨k, hN, hk⟩, hr⟩ := pre_consequences N r p hpre
  rw [scrypt_eq_impl pw salt N r p dkLen k hN hk hr, Impl.scrypt_eq pw salt N k r p dkLen hN hk]

end ScryptSrc
end Kestrel
