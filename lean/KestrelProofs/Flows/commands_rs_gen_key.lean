import KestrelModel.Generated
namespace Kestrel
open Generated

/-- commands.rs::gen_key — fresh key, fresh salt, lock; -o FILE opened with create+append (D1 repair)  (properties: C14 C07 C16) -/
theorem gen_flow_commands_rs_gen_key : flow_commands_rs_gen_key = ["ask_user", "err:anyhow", "ask_pass", "random_key", "random", "lock", "open_options", "open_append", "open_output", "write_all", "flush"] := rfl

end Kestrel
