import KestrelModel.Generated
namespace Kestrel
open Generated

/-- noise.rs::write_message — e: mix_hash; es: dh, mix_key; s: encrypt_and_hash; ss: dh, mix_key; payload: encrypt_and_hash (arms appear in enum order in the source)  (properties: C05 C06) -/
theorem gen_flow_noise_rs_write_message : flow_noise_rs_write_message = ["random_key", "mix_hash", "encrypt_and_hash", "dh", "mix_key", "dh", "mix_key", "encrypt_and_hash"] := rfl

end Kestrel
