import KestrelModel.Generated
namespace Kestrel
open Generated

/-- decrypt.rs::pass_decrypt — magic, salt, key — nothing is written here  (properties: C02 C03 C04 C13) -/
theorem gen_flow_decrypt_rs_pass_decrypt : flow_decrypt_rs_pass_decrypt = ["err:Other", "read_exact", "magic_check", "err:Other", "read_exact", "scrypt", "call:decrypt_chunks"] := rfl

end Kestrel
