import KestrelModel.Generated
namespace Kestrel
open Generated

/-- decrypt.rs::key_decrypt — magic, handshake, file key — nothing is written here  (properties: C03 C04 C13) -/
theorem gen_flow_decrypt_rs_key_decrypt : flow_decrypt_rs_key_decrypt = ["err:Other", "read_exact", "magic_check", "err:Other", "read_exact", "noise_read", "hkdf", "call:decrypt_chunks"] := rfl

end Kestrel
