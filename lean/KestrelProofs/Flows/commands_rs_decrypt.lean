import KestrelModel.Generated
namespace Kestrel
open Generated

/-- commands.rs::decrypt — input, lazy output, keyring, unlock loop (D5 repair), library call, sender line  (properties: C12 C13 C09) -/
theorem gen_flow_commands_rs_decrypt : flow_commands_rs_decrypt = ["err:anyhow", "open_input", "open_output", "open_keyring", "err:anyhow", "err:anyhow", "ask_pass", "loop", "unlock", "err:anyhow", "println", "ask_pass", "lib_key_decrypt", "println", "err:fmt_err", "println", "println", "println", "println"] := rfl

end Kestrel
