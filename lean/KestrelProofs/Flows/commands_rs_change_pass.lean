import KestrelModel.Generated
namespace Kestrel
open Generated

/-- commands.rs::change_pass — unlock with the old password, fresh salt, lock, print  (properties: C16 C07) -/
theorem gen_flow_commands_rs_change_pass : flow_commands_rs_change_pass = ["ask_pass", "ask_pass", "unlock", "random", "lock", "println"] := rfl

end Kestrel
