import KestrelModel.Generated
namespace Kestrel
open Generated

/-- the cli crate keeps no state between calls (no `static` item, `thread_local!` or `lazy_static!` outside its tests): the model's
    reading of its functions as functions of their arguments, the I/O scripts and the random source is the whole story.
    A memo of the last derived key, a pool of random bytes, a cache keyed by part of the inputs would all show up here. -/
theorem gen_flow_pure_cli : flow_pure_cli = [] := rfl

end Kestrel
