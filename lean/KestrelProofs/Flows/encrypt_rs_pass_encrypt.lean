import KestrelModel.Generated
namespace Kestrel
open Generated

/-- encrypt.rs::pass_encrypt — key derived, then magic, salt, flush  (properties: C02 C06) -/
theorem gen_flow_encrypt_rs_pass_encrypt : flow_encrypt_rs_pass_encrypt = ["scrypt", "write_all", "write_all", "flush", "call:encrypt_chunks"] := rfl

end Kestrel
