import KestrelModel.Generated
namespace Kestrel
open Generated

/-- keyring.rs::lock_private_key — scrypt then seal  (properties: C15) -/
theorem gen_flow_keyring_rs_lock_private_key : flow_keyring_rs_lock_private_key = ["scrypt", "seal_ietf"] := rfl

end Kestrel
