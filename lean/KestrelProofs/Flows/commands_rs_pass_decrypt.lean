import KestrelModel.Generated
namespace Kestrel
open Generated

/-- commands.rs::pass_decrypt — input, lazy output, password, library call; an error is returned as an error  (properties: C12 C13 C04) -/
theorem gen_flow_commands_rs_pass_decrypt : flow_commands_rs_pass_decrypt = ["err:anyhow", "open_input", "open_output", "ask_pass", "lib_pass_decrypt", "println", "err:fmt_err", "println"] := rfl

end Kestrel
