import KestrelModel.Generated
namespace Kestrel
open Generated

/-- decrypt.rs::decrypt_chunks — header, length bound BEFORE the body read, body, open, final flag == 1, single-read probe, THEN write_all + flush, counter += 1  (properties: C03 C04 C09 C10 C11) -/
theorem gen_flow_decrypt_rs_decrypt_chunks : flow_decrypt_rs_decrypt_chunks = ["loop", "read_exact", "len>cs", "err:ChunkLen", "read_exact", "open", "last==1", "read", "err:UnexpectedData", "write_all", "flush", "break", "ctr+=1"] := rfl

end Kestrel
