import KestrelModel.Generated
namespace Kestrel
open Generated

/-- keyring.rs::unlock_private_key — length and version guards, scrypt, open  (properties: C15 C09) -/
theorem gen_flow_keyring_rs_unlock_private_key : flow_keyring_rs_unlock_private_key = ["err:PrivateKeyLength", "err:PrivateKeyFormat", "scrypt", "open_ietf"] := rfl

end Kestrel
