import KestrelModel.Generated
namespace Kestrel
open Generated

/-- lib.rs::chapoly_encrypt_noise — nonce = 4 zero bytes then the counter little-endian  (properties: C06 C19 C07) -/
theorem gen_flow_lib_rs_chapoly_encrypt_noise : flow_lib_rs_chapoly_encrypt_noise = ["le_bytes", "nonce[4..]", "seal_ietf"] := rfl

end Kestrel
