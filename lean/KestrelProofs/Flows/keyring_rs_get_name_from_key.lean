import KestrelModel.Generated
namespace Kestrel
open Generated

/-- keyring.rs::get_name_from_key — exact string comparison  (properties: C05 C12 C17) -/
theorem gen_flow_keyring_rs_get_name_from_key : flow_keyring_rs_get_name_from_key = ["str_eq"] := rfl

end Kestrel
