import KestrelModel.Generated
namespace Kestrel
open Generated

/-- noise.rs::read_message — length guard (D3 repair), then the token arms  (properties: C05 C06 C09) -/
theorem gen_flow_noise_rs_read_message : flow_noise_rs_read_message = ["len<96", "err:Other", "mix_hash", "decrypt_and_hash", "dh", "mix_key", "dh", "mix_key", "decrypt_and_hash"] := rfl

end Kestrel
