import KestrelModel.Generated
namespace Kestrel
open Generated

/-- noise.rs::init_x — prologue and the responder/recipient static key are mixed into h  (properties: C05 C06) -/
theorem gen_flow_noise_rs_init_x : flow_noise_rs_init_x = ["mix_hash", "mix_hash", "mix_hash"] := rfl

end Kestrel
