import KestrelModel.Generated
namespace Kestrel
open Generated

/-- lib.rs::noise_decrypt — payload-length guard  (properties: C09) -/
theorem gen_flow_lib_rs_noise_decrypt : flow_lib_rs_noise_decrypt = ["err:Other"] := rfl

end Kestrel
