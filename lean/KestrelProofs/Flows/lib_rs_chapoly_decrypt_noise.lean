import KestrelModel.Generated
namespace Kestrel
open Generated

/-- lib.rs::chapoly_decrypt_noise — same nonce layout on the open side  (properties: C06 C19) -/
theorem gen_flow_lib_rs_chapoly_decrypt_noise : flow_lib_rs_chapoly_decrypt_noise = ["le_bytes", "nonce[4..]", "open_ietf"] := rfl

end Kestrel
