import KestrelModel.Generated
namespace Kestrel
open Generated

/-- commands.rs::pass_encrypt — input, lazy output, password, fresh salt, library call  (properties: C07 C12 C13) -/
theorem gen_flow_commands_rs_pass_encrypt : flow_commands_rs_pass_encrypt = ["err:anyhow", "open_input", "open_output", "ask_pass", "random", "lib_pass_encrypt", "println", "err:anyhow", "println"] := rfl

end Kestrel
