import KestrelModel.Generated
namespace Kestrel
open Generated

/-- commands.rs::ensure_created — the output file is created (and truncated) lazily by File::create  (properties: C13 C08) -/
theorem gen_flow_commands_rs_ensure_created : flow_commands_rs_ensure_created = ["file_create"] := rfl

end Kestrel
