import KestrelModel.Generated
namespace Kestrel
open Generated

/-- commands.rs::encrypt — input, lazy output, keyring, unlock loop (D5 repair), library call  (properties: C12 C13 C09) -/
theorem gen_flow_commands_rs_encrypt : flow_commands_rs_encrypt = ["err:anyhow", "open_input", "open_output", "open_keyring", "err:anyhow", "err:anyhow", "err:anyhow", "ask_pass", "loop", "unlock", "err:anyhow", "println", "ask_pass", "lib_key_encrypt", "println", "err:anyhow", "println"] := rfl

end Kestrel
