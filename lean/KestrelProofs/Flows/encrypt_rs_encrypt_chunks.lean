import KestrelModel.Generated
namespace Kestrel
open Generated

/-- encrypt.rs::encrypt_chunks — one read before the loop, one look-ahead read per iteration, seal, header+body through write_all, flush, counter += 1 after the break test  (properties: C01 C06 C07 C10 C11) -/
theorem gen_flow_encrypt_rs_encrypt_chunks : flow_encrypt_rs_encrypt_chunks = ["read", "loop", "read", "err:UnexpectedData", "be_bytes", "be_bytes", "seal", "be_bytes", "write_all", "write_all", "flush", "break", "ctr+=1"] := rfl

end Kestrel
