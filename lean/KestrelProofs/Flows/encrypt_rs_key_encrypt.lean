import KestrelModel.Generated
namespace Kestrel
open Generated

/-- encrypt.rs::key_encrypt — payload key drawn, the Noise message computed (may refuse) BEFORE anything is written; then prologue, message, flush, file key  (properties: C01 C06 C13 C05) -/
theorem gen_flow_encrypt_rs_key_encrypt : flow_encrypt_rs_key_encrypt = ["random", "noise_write", "write_all", "write_all", "flush", "hkdf", "call:encrypt_chunks"] := rfl

end Kestrel
