import KestrelModel.Generated
namespace Kestrel
open Generated

/-- lib.rs::chapoly_decrypt_ietf — length guard before the AEAD call (D2 repair)  (properties: C09 C19) -/
theorem gen_flow_lib_rs_chapoly_decrypt_ietf : flow_lib_rs_chapoly_decrypt_ietf = ["len<tag", "err:ChaPolyDecryptError", "aead_open"] := rfl

end Kestrel
