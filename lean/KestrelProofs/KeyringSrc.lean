/-
  Helper lemmas for KestrelProps/KeyringSrc.lean: the Lean code *generated from* `src/cli/src/keyring.rs`
  (`KestrelModel/GeneratedKeyring.lean`, namespace `Kestrel.KeyringSrc`, produced by tools/rs2lean_keyring.py) equals the
  hand-written model `Kestrel.Keyring` (KestrelModel/Keyring.lean).

  Nothing in this file restates generated code: every lemma about a generated function starts with `unfold`, and the two
  loops are handled by generic lemmas about `RsStr.forIn` (`forIn_first`: a search loop; `forIn_parse`: a loop whose body
  simulates `Keyring.stepLine`) whose hypothesis about the loop body is discharged on the body as generated.
  Views: `viewKey`/`viewKeys` map the generated structs to `Keyring.Key`; `viewSt` maps the tuple of loop variables of
  `parse_config` to the model's parser state `Keyring.PSt`.
-/
import KestrelModel.GeneratedKeyring
import KestrelProofs.Keyring
import KestrelProofs.LockedKey
namespace Kestrel
namespace KeyringSrc
open RsStr

@[simp] theorem bind_next (s : σ) (f : σ → Flow ρ κ τ) : Flow.bind (.next s) f = f s := rfl
@[simp] theorem bind_ret (r : ρ) (f : σ → Flow ρ κ τ) : Flow.bind (.ret r : Flow ρ κ σ) f = .ret r := rfl
@[simp] theorem bind_cont (k : κ) (f : σ → Flow ρ κ τ) : Flow.bind (.cont k : Flow ρ κ σ) f = .cont k := rfl
@[simp] theorem run_next (r : ρ) : RsStr.run (.next r) = r := rfl
@[simp] theorem run_ret (r : ρ) : RsStr.run (.ret r) = r := rfl
@[simp] theorem propagate_ok (a : α) (g : ε → ρ) : (Flow.propagate (.ok a) g : Flow ρ κ α) = .next a := rfl
@[simp] theorem propagate_error (e : ε) (g : ε → ρ) : (Flow.propagate (.error e : Except ε α) g : Flow ρ κ α) = .ret (g e) := rfl
@[simp] theorem forIn_nil (f : α → σ → Flow ρ σ σ) (s : σ) : (RsStr.forIn [] f s : Flow ρ κ σ) = .next s := rfl

theorem bind_ite (c : Prop) [Decidable c] (a b : Flow ρ κ σ) (f : σ → Flow ρ κ τ) :
    Flow.bind (if c then a else b) f = if c then Flow.bind a f else Flow.bind b f := by split <;> rfl

theorem valid_key_name_eq (s : Str) : Keyring.valid_key_name s = Kestrel.Keyring.validKeyName s := by
  unfold Keyring.valid_key_name Kestrel.Keyring.validKeyName
  have e : decide (RsStr.len s > MAX_NAME_SIZE) = !decide (Kestrel.Keyring.utf8Len s ≤ Generated.maxNameSize) := by
    show decide (Kestrel.Keyring.utf8Len s > 128) = !decide (Kestrel.Keyring.utf8Len s ≤ 128)
    by_cases h : Kestrel.Keyring.utf8Len s ≤ 128
    · simp [h, Nat.not_lt.mpr h]
    · simp [h, Nat.lt_of_not_le h]
  rw [e]
  simp only [RsStr.is_empty, RsStr.contains_char]
  by_cases h1 : s.isEmpty = true <;> by_cases h3 : '\t' ∈ s <;>
    by_cases h2 : Kestrel.Keyring.utf8Len s ≤ Generated.maxNameSize <;> simp [h1, h2, h3]

/-! ### `EncodedPk::try_from`, `EncodedSk::try_from` -/

theorem pk_try_from_eq (s : Str) : EncodedPk.try_from s =
    match B64.decode (Kestrel.Keyring.utf8 s) with
    | some b => if b.length != 36 then .error "Invalid Public Key length".toList else .ok ⟨s⟩
    | none => .error "Invalid Public Key format".toList := by
  unfold EncodedPk.try_from RsStr.b64_decode_to_vec
  cases B64.decode (Kestrel.Keyring.utf8 s) with
  | none => rfl
  | some b => simp only []; split <;> rfl

theorem sk_try_from_eq (s : Str) : EncodedSk.try_from s =
    match B64.decode (Kestrel.Keyring.utf8 s) with
    | some b => if b.length != PRIVATE_KEY_CT_LEN then .error "Invalid Private Key length".toList else .ok ⟨s⟩
    | none => .error "Could not decode private key".toList := by
  unfold EncodedSk.try_from RsStr.b64_decode_to_vec
  cases B64.decode (Kestrel.Keyring.utf8 s) with
  | none => rfl
  | some b => simp only []; split <;> rfl

/-- `try_from` followed by `.map_err(|_| e)` -/
theorem pk_try_from_map_err (s : Str) (e : ε) :
    RsStr.map_err (EncodedPk.try_from s) (fun _ => e) = if Kestrel.Keyring.encodedPkOk s then .ok ⟨s⟩ else .error e := by
  rw [pk_try_from_eq]; unfold Kestrel.Keyring.encodedPkOk
  cases B64.decode (Kestrel.Keyring.utf8 s) with
  | none => rfl
  | some b =>
    show RsStr.map_err (if b.length != 36 then _ else _) _ = if (b.length == 36) = true then _ else _
    by_cases h : b.length = 36 <;> simp [h, RsStr.map_err]

theorem sk_try_from_map_err (s : Str) (e : ε) :
    RsStr.map_err (EncodedSk.try_from s) (fun _ => e) = if Kestrel.Keyring.encodedSkOk s then .ok ⟨s⟩ else .error e := by
  rw [sk_try_from_eq]; unfold Kestrel.Keyring.encodedSkOk
  cases B64.decode (Kestrel.Keyring.utf8 s) with
  | none => rfl
  | some b =>
    show RsStr.map_err (if b.length != 84 then _ else _) _ = if (b.length == 84) = true then _ else _
    by_cases h : b.length = 84 <;> simp [h, RsStr.map_err]

/-! ### loops -/

theorem forIn_cons (a : α) (as : List α) (f : α → σ → Flow ρ σ σ) (s : σ) :
    (RsStr.forIn (a :: as) f s : Flow ρ κ σ) =
      match f a s with
      | .next s' => RsStr.forIn as f s'
      | .cont s' => RsStr.forIn as f s'
      | .ret r => .ret r := rfl

/-- a search loop: the body returns `g a` at the first element satisfying `P` and otherwise changes nothing -/
theorem forIn_first (f : α → Unit → Flow ρ Unit Unit) (P : α → Bool) (g : α → ρ)
    (hf : ∀ a, f a () = if P a then .ret (g a) else .next ()) :
    ∀ l : List α, (RsStr.forIn l f () : Flow ρ κ Unit) =
      match l.find? P with
      | some a => .ret (g a)
      | none => .next ()
  | [] => rfl
  | a :: as => by
    rw [forIn_cons, hf a, List.find?_cons]
    cases h : P a
    · simp only [Bool.false_eq_true, if_false]; exact forIn_first f P g hf as
    · simp only [if_true]

/-! ### views -/

def viewKey (k : Key) : Kestrel.Keyring.Key := ⟨k.name, k.public_key._0, k.private_key.map (·._0)⟩

def viewKeys (kr : Keyring) : List Kestrel.Keyring.Key := kr.keys.map viewKey

/-- the loop variables of `parse_config`, in the order of the generated state tuple -/
abbrev LoopSt := List Key × Option Str × Option EncodedPk × Option EncodedSk × Bool

def viewSt : LoopSt → Kestrel.Keyring.PSt
  | (keys, n, p, s, f) => ⟨keys.map viewKey, n, p.map (·._0), s.map (·._0), f⟩

/-! ### `add_key` -/

theorem add_key_eq (keys : List Key) (n : Option Str) (p : Option EncodedPk) (s : Option EncodedSk) :
    Keyring.add_key keys n p s =
      match n, p with
      | some n', some p' =>
        if keys.any (fun k => k.name == n' || k.public_key._0 == p'._0) then (keys, .error .ParseConfig)
        else (keys ++ [⟨n', p', s⟩], .ok ())
      | _, _ => (keys, .error .ParseConfig) := by
  unfold Keyring.add_key
  cases n with
  | none => cases p <;> rfl
  | some n' =>
    cases p with
    | none => rfl
    | some p' =>
      simp only [Option.isNone_some, Option.isSome_some, Bool.false_and, Bool.and_false, Bool.false_eq_true, if_false,
        bind_next, RsStr.unwrap_opt]
      rw [forIn_first _ (fun k => k.name == n' || k.public_key._0 == p'._0)
        (fun _ => (keys, Except.error KeyringError.ParseConfig))
        (by
          intro k
          simp only [EncodedPk.as_str]
          by_cases h1 : (k.name == n') = true <;> by_cases h2 : (k.public_key._0 == p'._0) = true <;> simp [h1, h2])]
      rw [Option.map_id']
      cases h : List.find? (fun k => k.name == n' || k.public_key._0 == p'._0) keys with
      | none =>
        have : (keys.any fun k => k.name == n' || k.public_key._0 == p'._0) = false := by
          rw [List.any_eq_false]; exact List.find?_eq_none.mp h
        simp only [this, bind_next, run_next, Bool.false_eq_true, if_false]
      | some a =>
        have : (keys.any fun k => k.name == n' || k.public_key._0 == p'._0) = true := by
          rw [List.any_eq_true]; exact ⟨a, List.mem_of_find?_eq_some h, List.find?_some (p := fun k : Key => k.name == n' || k.public_key._0 == p'._0) h⟩
        simp only [this, bind_ret, run_ret, if_true]


theorem any_view (keys : List Key) (n p : Str) :
    (keys.map viewKey).any (fun k => k.name == n || k.pk == p) = keys.any (fun k => k.name == n || k.public_key._0 == p) := by
  rw [List.any_map]; rfl

/-- `add_key` against the model's `addKey` on the viewed state -/
theorem add_key_view (keys : List Key) (n : Option Str) (p : Option EncodedPk) (s : Option EncodedSk) (f : Bool) :
    match Kestrel.Keyring.addKey (viewSt (keys, n, p, s, f)) with
    | none => Keyring.add_key keys n p s = (keys, .error .ParseConfig)
    | some st' => ∃ keys', Keyring.add_key keys n p s = (keys', .ok ()) ∧ viewSt (keys', none, none, none, f) = st' := by
  rw [add_key_eq]
  unfold Kestrel.Keyring.addKey viewSt
  cases n with
  | none => cases p <;> simp
  | some n' =>
    cases p with
    | none => simp
    | some p' =>
      simp only [Option.map_some, any_view]
      by_cases h : (keys.any fun k => k.name == n' || k.public_key._0 == p'._0) = true
      · simp only [h, if_true]
      · simp only [h]
        exact ⟨_, rfl, by simp [viewKey]⟩

/-! ### glue against the model's string functions -/

theorem split_once_char_eq : ∀ s : Str, RsStr.split_once_char s '=' = Kestrel.Keyring.splitOnceEq s
  | [] => rfl
  | c :: r => by rw [RsStr.split_once_char, Kestrel.Keyring.splitOnceEq, split_once_char_eq r]

theorem starts_with_char_eq (s : Str) : RsStr.starts_with_char s '#' = Kestrel.Keyring.startsWith "#" s := by
  cases s with
  | nil => rfl
  | cons d r =>
    show (d == '#') = List.isPrefixOf ['#'] (d :: r)
    simp [List.isPrefixOf, Bool.beq_comm]

theorem mem_trimStart {c : Char} : ∀ {s : Str}, c ∈ Kestrel.Keyring.trimStart s → c ∈ s
  | [], h => h
  | d :: r, h => by
    rw [Kestrel.Keyring.trimStart] at h
    split at h
    · exact List.mem_cons_of_mem _ (mem_trimStart h)
    · exact h

theorem mem_trim {c : Char} {s : Str} (h : c ∈ Kestrel.Keyring.trim s) : c ∈ s := by
  unfold Kestrel.Keyring.trim at h
  exact mem_trimStart (List.mem_reverse.mp (mem_trimStart (List.mem_reverse.mp h)))

theorem mem_splitOnceEq {c : Char} : ∀ {s a b : Str}, Kestrel.Keyring.splitOnceEq s = some (a, b) → c ∈ b → c ∈ s
  | [], _, _, h, _ => by simp [Kestrel.Keyring.splitOnceEq] at h
  | d :: r, a, b, h, hc => by
    rw [Kestrel.Keyring.splitOnceEq] at h
    split at h
    · simp only [Option.some.injEq, Prod.mk.injEq] at h
      exact List.mem_cons_of_mem _ (h.2 ▸ hc)
    · cases hr : Kestrel.Keyring.splitOnceEq r with
      | none => simp [hr] at h
      | some ab =>
        obtain ⟨a', b'⟩ := ab
        simp only [hr, Option.map_some, Option.some.injEq, Prod.mk.injEq] at h
        exact List.mem_cons_of_mem _ (mem_splitOnceEq hr (h.2 ▸ hc))

/-- the parser only ever validates names cut out of a line from which the tabs were deleted -/
theorem valid_key_name_parsed (line : Str) (a v : Str)
    (h : Kestrel.Keyring.splitOnceEq (Kestrel.Keyring.trim (line.filter (· != '\t'))) = some (a, v)) :
    Keyring.valid_key_name (Kestrel.Keyring.trim v) = Kestrel.Keyring.validParsedName (Kestrel.Keyring.trim v) := by
  rw [valid_key_name_eq]
  unfold Kestrel.Keyring.validKeyName Kestrel.Keyring.validParsedName
  have : (Kestrel.Keyring.trim v).contains '\t' = false := by
    rw [List.contains_eq_mem, decide_eq_false_iff_not]
    intro hc
    have := mem_trim (mem_splitOnceEq h (mem_trim hc))
    simp at this
  rw [this]; simp

/-- outcome `o` of (a piece of) the loop body simulates the model's result `m`: an error is a `return` of `r`; a new
    parser state is reached by falling through or by `continue`, with loop variables that view to it -/
def Sim (r : ρ) (o : Flow ρ LoopSt LoopSt) (m : Option Kestrel.Keyring.PSt) : Prop :=
  match m with
  | none => o = .ret r
  | some p => ∃ st', (o = .next st' ∨ o = .cont st') ∧ viewSt st' = p

theorem Sim.ret (r : ρ) : Sim r (.ret r) none := rfl
theorem Sim.next {r : ρ} {st : LoopSt} {p} (h : viewSt st = p) : Sim r (.next st) (some p) := ⟨st, Or.inl rfl, h⟩
theorem Sim.cont {r : ρ} {st : LoopSt} {p} (h : viewSt st = p) : Sim r (.cont st) (some p) := ⟨st, Or.inr rfl, h⟩

/-- a loop whose body simulates `Keyring.stepLine` on the viewed state simulates `Keyring.parseLines` -/
theorem forIn_parse (f : Str → LoopSt → Flow ρ LoopSt LoopSt) (r : ρ)
    (hf : ∀ line st, Sim r (f line st) (Kestrel.Keyring.stepLine (viewSt st) line)) :
    ∀ (ls : List Str) (st : LoopSt),
      match Kestrel.Keyring.parseLines (viewSt st) ls with
      | none => (RsStr.forIn ls f st : Flow ρ κ LoopSt) = .ret r
      | some p => ∃ st', (RsStr.forIn ls f st : Flow ρ κ LoopSt) = .next st' ∧ viewSt st' = p
  | [], st => ⟨st, rfl, rfl⟩
  | l :: ls, st => by
    have h := hf l st
    rw [Kestrel.Keyring.parseLines, forIn_cons]
    cases hs : Kestrel.Keyring.stepLine (viewSt st) l with
    | none => rw [hs] at h; simp only [Sim] at h; simp only [h]
    | some p =>
      rw [hs] at h
      obtain ⟨st', h1, h2⟩ := h
      have ih := forIn_parse (κ := κ) f r hf ls st'
      rw [h2] at ih
      rcases h1 with h1 | h1 <;> simp only [h1] <;> exact ih

/-- what remains of `parse_config` after the loop, against the end of `Keyring.parse` -/
def SimEnd (o : Except KeyringError (List Key)) (m : Option (List Kestrel.Keyring.Key)) : Prop :=
  match m with
  | none => o = .error .ParseConfig
  | some ks => ∃ keys, o = .ok keys ∧ keys.map viewKey = ks

theorem parse_config_shape :
    ∃ (f : Str → LoopSt → Flow (Except KeyringError (List Key)) LoopSt LoopSt)
      (K : LoopSt → Flow (Except KeyringError (List Key)) Empty (Except KeyringError (List Key))),
      (∀ config, Keyring.parse_config config =
        RsStr.run (Flow.bind (RsStr.forIn (RsStr.lines config) f ([], none, none, none, false)) K)) ∧
      (∀ line st, Sim (.error .ParseConfig) (f line st) (Kestrel.Keyring.stepLine (viewSt st) line)) ∧
      (∀ st, SimEnd (RsStr.run (K st))
        (if !(viewSt st).found then none else (Kestrel.Keyring.addKey (viewSt st)).map (·.keys))) := by
  refine ⟨_, _, fun _ => rfl, ?_, ?_⟩
  · intro line st
    obtain ⟨keys, n, p, s, found⟩ := st
    unfold Kestrel.Keyring.stepLine
    simp only [RsStr.starts_with, RsStr.trim, RsStr.retain, Kestrel.Keyring.startsWith, starts_with_char_eq, RsStr.is_empty,
      split_once_char_eq]
    have hname := valid_key_name_parsed line
    generalize Kestrel.Keyring.trim (List.filter (fun c => c != '\t') line) = cl at hname ⊢
    by_cases hK : "[Key]".toList.isPrefixOf cl = true
    · simp only [hK, if_true]
      cases found with
      | false => exact Sim.cont rfl
      | true =>
        have hv := add_key_view keys n p s true
        have hf : (viewSt (keys, n, p, s, true)).found = true := rfl
        simp only [hf, if_true]
        cases n with
        | none => cases p <;> exact Sim.ret _
        | some n' =>
          cases p with
          | none => exact Sim.ret _
          | some p' =>
            cases h : Kestrel.Keyring.addKey (viewSt (keys, some n', some p', s, true)) with
            | none =>
              rw [h] at hv
              simp only [hv, Option.isNone_some, Bool.false_eq_true, if_false, propagate_error, bind_ret]
              exact Sim.ret _
            | some st' =>
              rw [h] at hv
              obtain ⟨keys', e, hv'⟩ := hv
              simp only [e, Option.isNone_some, Bool.false_eq_true, if_false, propagate_ok, bind_next]
              exact Sim.cont hv'
    · simp only [hK, if_false, Bool.false_eq_true]
      by_cases hN : "Name".toList.isPrefixOf cl = true
      · simp only [hN, if_true]
        cases found with
        | false => exact Sim.ret _
        | true =>
          cases n with
          | some _ => exact Sim.ret _
          | none =>
            cases h : Kestrel.Keyring.splitOnceEq cl with
            | none => exact Sim.ret _
            | some ab =>
              obtain ⟨a, v⟩ := ab
              have hn := hname a v h
              by_cases hv : Kestrel.Keyring.validParsedName (Kestrel.Keyring.trim v) = true
              · simp [hn, hv, viewSt]
                exact Sim.next rfl
              · simp [hn, hv, viewSt]
                exact Sim.ret _
      · simp only [hN, if_false, Bool.false_eq_true]
        by_cases hP : "PublicKey".toList.isPrefixOf cl = true
        · simp only [hP, if_true]
          cases found with
          | false => exact Sim.ret _
          | true =>
            cases p with
            | some _ => exact Sim.ret _
            | none =>
              cases h : Kestrel.Keyring.splitOnceEq cl with
              | none => exact Sim.ret _
              | some ab =>
                obtain ⟨a, v⟩ := ab
                by_cases hv : Kestrel.Keyring.encodedPkOk (Kestrel.Keyring.trim v) = true
                · simp [pk_try_from_map_err, hv, viewSt]
                  exact Sim.next rfl
                · simp [pk_try_from_map_err, hv, viewSt]
                  exact Sim.ret _
        · simp only [hP, if_false, Bool.false_eq_true]
          by_cases hS : "PrivateKey".toList.isPrefixOf cl = true
          · simp only [hS, if_true]
            cases found with
            | false => exact Sim.ret _
            | true =>
              cases s with
              | some _ => exact Sim.ret _
              | none =>
                cases h : Kestrel.Keyring.splitOnceEq cl with
                | none => exact Sim.ret _
                | some ab =>
                  obtain ⟨a, v⟩ := ab
                  by_cases hv : Kestrel.Keyring.encodedSkOk (Kestrel.Keyring.trim v) = true
                  · simp [sk_try_from_map_err, hv, viewSt]
                    exact Sim.next rfl
                  · simp [sk_try_from_map_err, hv, viewSt]
                    exact Sim.ret _
          · simp only [hS, if_false, Bool.false_eq_true]
            by_cases hC : ("#".toList.isPrefixOf cl || cl.isEmpty) = true
            · simp only [hC, if_true, bind_cont]
              exact Sim.cont rfl
            · simp only [hC, if_false, bind_ret, Bool.false_eq_true]
              exact Sim.ret _
  · intro st
    obtain ⟨keys, n, p, s, found⟩ := st
    cases found with
    | false => exact (rfl : _ = Except.error KeyringError.ParseConfig)
    | true =>
      have hv := add_key_view keys n p s true
      have hf : (!(viewSt (keys, n, p, s, true)).found) = false := rfl
      simp only [hf, Bool.false_eq_true, if_false, Bool.not_true]
      cases h : Kestrel.Keyring.addKey (viewSt (keys, n, p, s, true)) with
      | none =>
        rw [h] at hv
        simp only [hv, propagate_error, bind_ret, run_ret, Option.map_none]
        exact (rfl : _ = Except.error KeyringError.ParseConfig)
      | some st' =>
        rw [h] at hv
        obtain ⟨keys', e, hv'⟩ := hv
        simp only [e, propagate_ok, bind_next, run_next, Option.map_some]
        exact ⟨keys', rfl, by rw [← hv']; rfl⟩

/-! ### `parse_config`, `new` -/

theorem parse_config_sim (text : Str) : SimEnd (Keyring.parse_config text) (Kestrel.Keyring.parse text) := by
  obtain ⟨f, K, hshape, hstep, hend⟩ := parse_config_shape
  rw [hshape]
  unfold Kestrel.Keyring.parse
  have hl := forIn_parse (κ := Empty) f _ hstep (RsStr.lines text) ([], none, none, none, false)
  have h0 : viewSt ([], none, none, none, false) = {} := rfl
  rw [h0] at hl
  unfold RsStr.lines at hl ⊢
  cases h : Kestrel.Keyring.parseLines {} (Kestrel.Keyring.lines text) with
  | none =>
    rw [h] at hl
    simp only [hl, bind_ret, run_ret]
    exact (rfl : _ = Except.error KeyringError.ParseConfig)
  | some pst =>
    rw [h] at hl
    obtain ⟨st', e, hv⟩ := hl
    have := hend st'
    rw [hv] at this
    simp only [e, bind_next]
    exact this

theorem new_eq (text : Str) : Keyring.new text =
    match Keyring.parse_config text with
    | .ok keys => .ok ⟨keys⟩
    | .error e => .error e := by
  unfold Keyring.new
  cases Keyring.parse_config text <;> rfl

theorem new_sim (text : Str) :
    match Kestrel.Keyring.parse text with
    | none => Keyring.new text = .error .ParseConfig
    | some ks => ∃ kr, Keyring.new text = .ok kr ∧ viewKeys kr = ks := by
  have h := parse_config_sim text
  rw [new_eq]
  cases hp : Kestrel.Keyring.parse text with
  | none => rw [hp] at h; simp only [SimEnd] at h; simp only [h]
  | some ks =>
    rw [hp] at h
    obtain ⟨keys, e, hk⟩ := h
    simp only [e]
    exact ⟨⟨keys⟩, rfl, hk⟩

/-! ### lookups -/

theorem get_key_eq (kr : Keyring) (name : Str) :
    (Keyring.get_key kr name).map viewKey = Kestrel.Keyring.getKey (viewKeys kr) name := by
  unfold Keyring.get_key Kestrel.Keyring.getKey viewKeys
  rw [List.find?_map]; rfl

theorem get_name_from_key_eq (kr : Keyring) (pk : EncodedPk) :
    Keyring.get_name_from_key kr pk = Kestrel.Keyring.getNameFromKey (viewKeys kr) pk._0 := by
  unfold Keyring.get_name_from_key Kestrel.Keyring.getNameFromKey viewKeys
  first
  | -- the function as a `for` loop with an early `return`
    (rw [forIn_first _ (fun k => k.public_key._0 == pk._0) (fun k => some k.name)
      (by intro k; simp only [EncodedPk.as_str]; by_cases h : (k.public_key._0 == pk._0) = true <;> simp [h]), List.find?_map]
     cases h : List.find? (fun k => k.public_key._0 == pk._0) kr.keys with
     | none =>
       have : List.find? ((fun x => x.pk == pk._0) ∘ viewKey) kr.keys = none := h
       simp only [this, bind_next, run_next, Option.map_none]
     | some a =>
       have : List.find? ((fun x => x.pk == pk._0) ∘ viewKey) kr.keys = some a := h
       simp only [this, bind_ret, run_ret, Option.map_some]; rfl)
  | -- the same function written as `iter().find(..).map(..)`
    (rw [List.find?_map, Option.map_map]; rfl)

/-! ### stretch: serialize / encode / decode / lock / unlock -/

theorem serialize_key_eq (name : Str) (pk : EncodedPk) (sk : EncodedSk) :
    Keyring.serialize_key name pk sk = Kestrel.Keyring.serializeKey name pk._0 sk._0 := rfl

theorem kdf_eq (pw salt : Bytes) :
    RsStr.kc_scrypt pw salt SCRYPT_N SCRYPT_R SCRYPT_P 32 = Kestrel.Keyring.lockKdf pw salt := rfl

theorem version_eq : PRIVATE_KEY_VERSION = Generated.privateKeyVersion := rfl

theorem lock_private_key_eq (sk : RsStr.PrivateKey) (pw salt : Bytes) :
    (Keyring.lock_private_key sk pw salt)._0 = Kestrel.Keyring.lockPrivateKey sk.key pw salt := by
  unfold Keyring.lock_private_key Kestrel.Keyring.lockPrivateKey
  simp only [kdf_eq, version_eq, RsStr.kc_chapoly_encrypt_ietf, RsStr.PrivateKey.as_bytes, RsStr.b64_encode_to_string,
    RsStr.unwrap_res, List.nil_append]
  rfl

theorem encode_public_key_eq (pk : RsStr.PublicKey) (h : pk.key.length = 32) :
    (Keyring.encode_public_key pk)._0 = Kestrel.Keyring.encodePk pk.key := by
  unfold Keyring.encode_public_key Kestrel.Keyring.encodePk
  have hs : ((sha256 pk.key).take 4).length = 4 := by rw [List.length_take, sha256_length]; rfl
  simp only [RsStr.PublicKey.as_bytes, RsStr.kc_sha256, RsStr.b64_encode_to_string, RsStr.unwrap_res, Rs.copyFromSlice,
    List.length_take, List.length_drop, List.length_replicate, List.length_append, h, hs, List.take_replicate, List.drop_replicate]
  congr 2
  simp [h, List.take_of_length_le, hs]


/-- error classes of the model ↦ error constructors of the code (for `decodePk` / `unlockPrivateKey`) -/
def errClass : Kestrel.Keyring.KrErr → KeyringError
  | .pkChecksum => .PublicKeyChecksum
  | .pkLength => .PublicKeyLength
  | .pkFormat => .PublicKeyLength
  | .skDecrypt => .PrivateKeyDecrypt
  | .skLength => .PrivateKeyLength
  | .skFormat => .PrivateKeyFormat

/-- `decode_public_key` on an `EncodedPk` accepted by `try_from` (36 decoded bytes) -/
theorem decode_public_key_eq (s : Str) (b : Bytes) (hd : B64.decode (Kestrel.Keyring.utf8 s) = some b) (hl : b.length = 36) :
    Keyring.decode_public_key ⟨s⟩ =
      match Kestrel.Keyring.decodePk s with
      | .ok k => .ok ⟨k⟩
      | .error e => .error (errClass e) := by
  unfold Keyring.decode_public_key Kestrel.Keyring.decodePk
  have h32 : (b.take 32).length = 32 := by rw [List.length_take, hl]; rfl
  simp only [EncodedPk.as_str, RsStr.b64_decode_to_vec, hd, RsStr.unwrap_res, hl, PUBLIC_KEY_LEN, RsStr.kc_sha256,
    RsStr.PublicKey.try_from, h32, Generated.encodedPkLen]
  by_cases hc : b.drop 32 = (sha256 (b.take 32)).take 4
  · simp [hc]
  · simp [hc, errClass]

/-- `unlock_private_key` on an `EncodedSk` accepted by `try_from` (84 decoded bytes) -/
theorem unlock_private_key_eq (s : Str) (pw b : Bytes) (hd : B64.decode (Kestrel.Keyring.utf8 s) = some b) (hl : b.length = 84) :
    Keyring.unlock_private_key ⟨s⟩ pw =
      match Kestrel.Keyring.unlockPrivateKey s pw with
      | .ok k => .ok ⟨k⟩
      | .error e => .error (errClass e) := by
  unfold Keyring.unlock_private_key Kestrel.Keyring.unlockPrivateKey
  have hct : (b.drop 36).take 48 = b.drop 36 := List.take_of_length_le (by rw [List.length_drop, hl]; decide)
  have ez : List.replicate 12 (0 : UInt8) = zeros 12 := rfl
  simp only [EncodedSk.as_bytes, RsStr.b64_decode_to_vec, hd, RsStr.unwrap_res, hl, PRIVATE_KEY_CT_LEN, kdf_eq,
    version_eq, Nat.reduceSub, hct, RsStr.kc_chapoly_decrypt_ietf, Generated.privateKeyCtLen, ez, bne_self_eq_false,
    Bool.false_eq_true, if_false, bind_next]
  by_cases hv : b.take 4 = Generated.privateKeyVersion
  · simp only [hv, bne_self_eq_false, Bool.false_eq_true, if_false, bind_next, ne_eq, not_true_eq_false]
    cases ho : aeadOpen (Kestrel.Keyring.lockKdf pw ((b.drop 4).take 32)) (zeros 12) Generated.privateKeyVersion (b.drop 36) with
    | none =>
      simp only [RsStr.map_err, propagate_error, bind_ret, run_ret, errClass]
    | some sk =>
      have hlen := aeadOpen_length _ _ _ _ _ (Kestrel.Keyring.lockKdf_length pw _) (zeros_length 12) ho
      have hsk : sk.length = 32 := by rw [List.length_drop, hl] at hlen; omega
      simp only [RsStr.map_err, propagate_ok, bind_next, run_next, RsStr.PrivateKey.try_from, hsk, bne_self_eq_false,
        Bool.false_eq_true, if_false]
  · have e1 : (b.take 4 != Generated.privateKeyVersion) = true := by simp [hv]
    simp only [e1, hv, if_true, if_false, bind_ret, run_ret, ne_eq, not_true_eq_false, not_false_eq_true, errClass]


/-- `new_sim` without a `match` in the statement (usable on concrete texts without the elaborator evaluating the parser) -/
theorem new_of_parse_none (text : Str) (h : Kestrel.Keyring.parse text = none) : Keyring.new text = .error .ParseConfig := by
  have := new_sim text; rw [h] at this; exact this

theorem new_of_parse_some (text : Str) (ks : List Kestrel.Keyring.Key) (h : Kestrel.Keyring.parse text = some ks) :
    ∃ kr, Keyring.new text = .ok kr ∧ viewKeys kr = ks := by
  have := new_sim text; rw [h] at this; exact this

end KeyringSrc
end Kestrel
