/-
  Helper lemmas for KestrelProps/KeyringSrc.lean: the Lean code *generated from* `src/cli/src/keyring.rs`
  (`KestrelModel/GeneratedKeyring.lean`, namespace `Kestrel.KeyringSrc`, produced by tools/rs2lean_keyring.py) equals the
  hand-written model `Kestrel.Keyring` (KestrelModel/Keyring.lean).

  Nothing in this file restates generated code: every lemma about a generated function starts with `unfold`, and the two
  loops are handled by generic lemmas about `RsStr.forIn` (`forIn_first` / `forIn_any`: a search loop; `forIn_parse`: a loop
  whose body simulates `Keyring.stepLine`) whose hypothesis about the loop body is discharged on the body as generated.
  Views: `viewKey`/`viewKeys` map the generated structs to `Keyring.Key`; `viewSt` maps the tuple of loop variables of
  `parse_config` to the model's parser state `Keyring.PSt`.

  ROBUSTNESS (tools/selftest_keyring.py is the regression test).  The proofs are written so that a rewrite of keyring.rs that
  keeps its behaviour keeps them, and none of them mentions a `const` or a private helper function of the source by name:
    * the translator emits every `const` and every function that is not the subject of a theorem as `@[simp] def`; the
      lemmas below are stated with the VALUES written out (36, 84, 32768 …) and reach them with `simp`, so naming a literal,
      renaming a constant or extracting a helper changes nothing;
    * case distinctions are made on the MODEL's conditions and each leaf is closed by evaluation (`simp` / `sim_done`), not by
      `rfl` against the shape of the generated term; where the source may be written in two ways (`for` loop with early
      `return` vs `iter().find/any`), `first | .. | ..` tries a proof for each;
    * the loop body and the code after the loop are obtained from the generated `parse_config` by unification
      (`parse_config_shape`); the translator orders the state tuple by the TYPES of the loop variables (then by first
      occurrence inside the loop), so permuting the declarations in front of the loop, renaming the variables or
      rearranging the body changes nothing -- `LoopSt` / `viewSt` below are the one place that depends on that order;
    * the lemmas about the two `try_from`s do not mention the message strings (every caller discards them).
  None of this weakens a statement: every theorem still says that the generated function equals the model on every input, so
  a change of behaviour still makes a proof fail (the edits that were tried are rows X1 … of the self-test).
-/
import KestrelModel.GeneratedKeyring
import KestrelProofs.Keyring
import KestrelProofs.LockedKey
set_option linter.unusedSimpArgs false
namespace Kestrel
namespace KeyringSrc
open RsStr

@[simp] theorem bind_next (s : σ) (f : σ → Flow ρ κ τ) : Flow.bind (.next s) f = f s := rfl
@[simp] theorem bind_ret (r : ρ) (f : σ → Flow ρ κ τ) : Flow.bind (.ret r : Flow ρ κ σ) f = .ret r := rfl
@[simp] theorem bind_cont (k : κ) (f : σ → Flow ρ κ τ) : Flow.bind (.cont k : Flow ρ κ σ) f = .cont k := rfl
@[simp] theorem run_next (r : ρ) : RsStr.run (.next r) = r := rfl
@[simp] theorem run_ret (r : ρ) : RsStr.run (.ret r) = r := rfl
@[simp] theorem propagate_ok (a : α) (g : ε → ρ) : (Flow.propagate (.ok a) g : Flow ρ κ α) = .next a := rfl
@[simp] theorem propagate_error (e : ε) (g : ε → ρ) : (Flow.propagate (.error e : Except ε α) g : Flow ρ κ α) = .ret (g e) := rfl
@[simp] theorem forIn_nil (f : α → σ → Flow ρ σ σ) (s : σ) : (RsStr.forIn [] f s : Flow ρ κ σ) = .next s := rfl
@[simp] theorem ok_or_some (a : α) (e : ε) : RsStr.ok_or (some a) e = .ok a := rfl
@[simp] theorem ok_or_none (e : ε) : RsStr.ok_or (none : Option α) e = .error e := rfl
@[simp] theorem map_err_ok (a : α) (f : ε → ε') : RsStr.map_err (.ok a : Except ε α) f = .ok a := rfl
@[simp] theorem map_err_error (e : ε) (f : ε → ε') : RsStr.map_err (.error e : Except ε α) f = .error (f e) := rfl

theorem valid_key_name_eq (s : Str) : Keyring.valid_key_name s = Kestrel.Keyring.validKeyName s := by
  unfold Keyring.valid_key_name Kestrel.Keyring.validKeyName
  simp only [RsStr.is_empty, RsStr.contains_char, RsStr.len, Generated.maxNameSize]
  rcases Nat.lt_or_ge 128 (Kestrel.Keyring.utf8Len s) with h2 | h2
  · have h2' : ¬ Kestrel.Keyring.utf8Len s ≤ 128 := by omega
    by_cases h1 : s.isEmpty = true <;> by_cases h3 : '\t' ∈ s <;> simp [h1, h2, h2', h3]
  · have h2' : ¬ 128 < Kestrel.Keyring.utf8Len s := by omega
    by_cases h1 : s.isEmpty = true <;> by_cases h3 : '\t' ∈ s <;> simp [h1, h2, h2', h3]

/-! ### `EncodedPk::try_from`, `EncodedSk::try_from`

  Stated without the message strings of the `Err(..)`s (every caller replaces them: `.map_err(|_| ..)`), so that rewording a
  message changes nothing.  `-String.reduceToList`: with that simproc, `simp` spends its time checking
  `"…".toList = ['…', …]` by evaluation whenever a string literal occurs under an undecided `if`. -/

theorem pk_try_from_toOption (s : Str) : (EncodedPk.try_from s).toOption =
    match B64.decode (Kestrel.Keyring.utf8 s) with
    | some b => if b.length = 36 then some ⟨s⟩ else none
    | none => none := by
  unfold EncodedPk.try_from RsStr.b64_decode_to_vec
  cases B64.decode (Kestrel.Keyring.utf8 s) with
  | none => rfl
  | some b => by_cases h : b.length = 36 <;> simp [-String.reduceToList, h, Except.toOption]

theorem sk_try_from_toOption (s : Str) : (EncodedSk.try_from s).toOption =
    match B64.decode (Kestrel.Keyring.utf8 s) with
    | some b => if b.length = 84 then some ⟨s⟩ else none
    | none => none := by
  unfold EncodedSk.try_from RsStr.b64_decode_to_vec
  cases B64.decode (Kestrel.Keyring.utf8 s) with
  | none => rfl
  | some b => by_cases h : b.length = 84 <;> simp [-String.reduceToList, h, Except.toOption]

theorem map_err_const (r : Except ε α) (e : ε') :
    RsStr.map_err r (fun _ => e) = match r.toOption with | some a => .ok a | none => .error e := by
  cases r <;> rfl

theorem ok_of_toOption {r : Except ε α} {a : α} (h : r.toOption = some a) : r = .ok a := by
  cases r with
  | ok b => simp only [Except.toOption, Option.some.injEq] at h; rw [h]
  | error e => simp [Except.toOption] at h

theorem error_of_toOption {r : Except ε α} (h : r.toOption = none) : ∃ e, r = .error e := by
  cases r with
  | ok b => simp [Except.toOption] at h
  | error e => exact ⟨e, rfl⟩

/-- `try_from` followed by `.map_err(|_| e)` -/
theorem pk_try_from_map_err (s : Str) (e : ε) :
    RsStr.map_err (EncodedPk.try_from s) (fun _ => e) = if Kestrel.Keyring.encodedPkOk s then .ok ⟨s⟩ else .error e := by
  rw [map_err_const, pk_try_from_toOption]; unfold Kestrel.Keyring.encodedPkOk
  cases B64.decode (Kestrel.Keyring.utf8 s) with
  | none => rfl
  | some b => by_cases h : b.length = 36 <;> simp [h, Generated.encodedPkLen]

theorem sk_try_from_map_err (s : Str) (e : ε) :
    RsStr.map_err (EncodedSk.try_from s) (fun _ => e) = if Kestrel.Keyring.encodedSkOk s then .ok ⟨s⟩ else .error e := by
  rw [map_err_const, sk_try_from_toOption]; unfold Kestrel.Keyring.encodedSkOk
  cases B64.decode (Kestrel.Keyring.utf8 s) with
  | none => rfl
  | some b => by_cases h : b.length = 84 <;> simp [h, Generated.privateKeyCtLen]

/-! ### loops -/

theorem forIn_cons (a : α) (as : List α) (f : α → σ → Flow ρ σ σ) (s : σ) :
    (RsStr.forIn (a :: as) f s : Flow ρ κ σ) =
      match f a s with
      | .next s' => RsStr.forIn as f s'
      | .cont s' => RsStr.forIn as f s'
      | .ret r => .ret r := rfl

/-- a search loop: the body returns `g a` at the first element satisfying `P` and otherwise changes nothing -/
theorem forIn_first (f : α → Unit → Flow ρ Unit Unit) (P : α → Bool) (g : α → ρ)
    (hf : ∀ a, f a () = if P a then .ret (g a) else .next ()) :
    ∀ l : List α, (RsStr.forIn l f () : Flow ρ κ Unit) =
      match l.find? P with
      | some a => .ret (g a)
      | none => .next ()
  | [] => rfl
  | a :: as => by
    rw [forIn_cons, hf a, List.find?_cons]
    cases h : P a
    · simp only [Bool.false_eq_true, if_false]; exact forIn_first f P g hf as
    · simp only [if_true]

/-- a search loop that returns the same value `r` whatever element it stops at -/
theorem forIn_any (f : α → Unit → Flow ρ Unit Unit) (P : α → Bool) (r : ρ)
    (hf : ∀ a, f a () = if P a then .ret r else .next ()) (l : List α) :
    (RsStr.forIn l f () : Flow ρ κ Unit) = if l.any P then .ret r else .next () := by
  rw [forIn_first f P (fun _ => r) hf l]
  cases h : l.find? P with
  | none =>
    have : l.any P = false := by rw [List.any_eq_false]; exact List.find?_eq_none.mp h
    simp [this]
  | some a =>
    have : l.any P = true := by rw [List.any_eq_true]; exact ⟨a, List.mem_of_find?_eq_some h, List.find?_some h⟩
    simp [this]

theorem bind_ite (c : Prop) [Decidable c] (a b : Flow ρ κ σ) (f : σ → Flow ρ κ τ) :
    Flow.bind (if c then a else b) f = if c then Flow.bind a f else Flow.bind b f := by split <;> rfl

theorem run_ite (c : Prop) [Decidable c] (a b : Flow ρ Empty ρ) :
    RsStr.run (if c then a else b) = if c then RsStr.run a else RsStr.run b := by split <;> rfl

theorem any_or_eq (l : List α) (p q : α → Bool) : l.any (fun a => p a || q a) = (l.any p || l.any q) := by
  induction l with
  | nil => rfl
  | cons a l ih => simp only [List.any_cons, ih]; cases p a <;> cases q a <;> simp

/-! ### views -/

def viewKey (k : Key) : Kestrel.Keyring.Key := ⟨k.name, k.public_key._0, k.private_key.map (·._0)⟩

def viewKeys (kr : Keyring) : List Kestrel.Keyring.Key := kr.keys.map viewKey

/-! ### `add_key` -/

theorem add_key_eq (keys : List Key) (n : Option Str) (p : Option EncodedPk) (s : Option EncodedSk) :
    Keyring.add_key keys n p s =
      match n, p with
      | some n', some p' =>
        if keys.any (fun k => k.name == n' || k.public_key._0 == p'._0) then (keys, .error .ParseConfig)
        else (keys ++ [⟨n', p', s⟩], .ok ())
      | _, _ => (keys, .error .ParseConfig) := by
  unfold Keyring.add_key
  cases n with
  | none => cases p <;> rfl
  | some n' =>
    cases p with
    | none => rfl
    | some p' =>
      -- (`cases s`: however the code copies the optional private key -- `map(|k| k.to_owned())`, `cloned()`, `if let` --
      --  it evaluates to `s` once `s` is `none` or `some _`)
      cases s <;>
      simp only [Option.isNone_some, Option.isSome_some, Bool.false_and, Bool.and_false, Bool.false_eq_true, if_false,
        bind_next, RsStr.unwrap_opt, Option.map_id', id_eq] <;>
      first
      | -- the duplicate test as a `for` loop with early `return`s
        (rw [forIn_any _ (fun k => k.name == n' || k.public_key._0 == p'._0) (keys, Except.error KeyringError.ParseConfig)
          (by
            intro k
            by_cases h1 : (k.name == n') = true <;> by_cases h2 : (k.public_key._0 == p'._0) = true <;> simp [h1, h2])]
         split <;> rfl)
      | -- the same test written with `iter().any(..)` (one test, or one per field)
        (by_cases h1 : (keys.any fun k => k.name == n') = true <;>
           by_cases h2 : (keys.any fun k => k.public_key._0 == p'._0) = true <;> simp [h1, h2, any_or_eq])

theorem any_view (keys : List Key) (n p : Str) :
    (keys.map viewKey).any (fun k => k.name == n || k.pk == p) = keys.any (fun k => k.name == n || k.public_key._0 == p) := by
  rw [List.any_map]; rfl

/-- the loop variables of `parse_config`, in the order of the generated state tuple (the translator orders them by their
    type: `key_found : Bool`, `keys : List Key`, `key_public : Option EncodedPk`, `key_private : Option EncodedSk`,
    `key_name : Option Str`) -/
abbrev LoopSt := Bool × List Key × Option EncodedPk × Option EncodedSk × Option Str

def viewSt : LoopSt → Kestrel.Keyring.PSt
  | (f, keys, p, s, n) => ⟨keys.map viewKey, n, p.map (·._0), s.map (·._0), f⟩

/-- `add_key` against the model's `addKey` on the viewed state -/
theorem add_key_view (keys : List Key) (n : Option Str) (p : Option EncodedPk) (s : Option EncodedSk) (f : Bool) :
    match Kestrel.Keyring.addKey (viewSt (f, keys, p, s, n)) with
    | none => Keyring.add_key keys n p s = (keys, .error .ParseConfig)
    | some st' => ∃ keys', Keyring.add_key keys n p s = (keys', .ok ()) ∧ viewSt (f, keys', none, none, none) = st' := by
  rw [add_key_eq]
  unfold Kestrel.Keyring.addKey viewSt
  cases n with
  | none => cases p <;> simp
  | some n' =>
    cases p with
    | none => simp
    | some p' =>
      simp only [Option.map_some, any_view]
      by_cases h : (keys.any fun k => k.name == n' || k.public_key._0 == p'._0) = true
      · simp only [h, if_true]
      · simp only [h]
        exact ⟨_, rfl, by simp [viewKey]⟩

/-! ### glue against the model's string functions -/

theorem split_once_char_eq : ∀ s : Str, RsStr.split_once_char s '=' = Kestrel.Keyring.splitOnceEq s
  | [] => rfl
  | c :: r => by rw [RsStr.split_once_char, Kestrel.Keyring.splitOnceEq, split_once_char_eq r]

theorem starts_with_char_eq (s : Str) : RsStr.starts_with_char s '#' = Kestrel.Keyring.startsWith "#" s := by
  cases s with
  | nil => rfl
  | cons d r =>
    show (d == '#') = List.isPrefixOf ['#'] (d :: r)
    simp [List.isPrefixOf, Bool.beq_comm]

theorem mem_trimStart {c : Char} : ∀ {s : Str}, c ∈ Kestrel.Keyring.trimStart s → c ∈ s
  | [], h => h
  | d :: r, h => by
    rw [Kestrel.Keyring.trimStart] at h
    split at h
    · exact List.mem_cons_of_mem _ (mem_trimStart h)
    · exact h

theorem mem_trim {c : Char} {s : Str} (h : c ∈ Kestrel.Keyring.trim s) : c ∈ s := by
  unfold Kestrel.Keyring.trim at h
  exact mem_trimStart (List.mem_reverse.mp (mem_trimStart (List.mem_reverse.mp h)))

theorem mem_splitOnceEq {c : Char} : ∀ {s a b : Str}, Kestrel.Keyring.splitOnceEq s = some (a, b) → c ∈ b → c ∈ s
  | [], _, _, h, _ => by simp [Kestrel.Keyring.splitOnceEq] at h
  | d :: r, a, b, h, hc => by
    rw [Kestrel.Keyring.splitOnceEq] at h
    split at h
    · simp only [Option.some.injEq, Prod.mk.injEq] at h
      exact List.mem_cons_of_mem _ (h.2 ▸ hc)
    · cases hr : Kestrel.Keyring.splitOnceEq r with
      | none => simp [hr] at h
      | some ab =>
        obtain ⟨a', b'⟩ := ab
        simp only [hr, Option.map_some, Option.some.injEq, Prod.mk.injEq] at h
        exact List.mem_cons_of_mem _ (mem_splitOnceEq hr (h.2 ▸ hc))

/-- the parser only ever validates names cut out of a line from which the tabs were deleted -/
theorem valid_key_name_parsed (line : Str) (a v : Str)
    (h : Kestrel.Keyring.splitOnceEq (Kestrel.Keyring.trim (line.filter (· != '\t'))) = some (a, v)) :
    Keyring.valid_key_name (Kestrel.Keyring.trim v) = Kestrel.Keyring.validParsedName (Kestrel.Keyring.trim v) := by
  rw [valid_key_name_eq]
  unfold Kestrel.Keyring.validKeyName Kestrel.Keyring.validParsedName
  have : (Kestrel.Keyring.trim v).contains '\t' = false := by
    rw [List.contains_eq_mem, decide_eq_false_iff_not]
    intro hc
    have := mem_trim (mem_splitOnceEq h (mem_trim hc))
    simp at this
  rw [this]; simp

/-- outcome `o` of (a piece of) the loop body simulates the model's result `m`: an error is a `return` of `r`; a new
    parser state is reached by falling through or by `continue`, with loop variables that view to it -/
def Sim (r : ρ) (o : Flow ρ LoopSt LoopSt) (m : Option Kestrel.Keyring.PSt) : Prop :=
  match m with
  | none => o = .ret r
  | some p => ∃ st', (o = .next st' ∨ o = .cont st') ∧ viewSt st' = p

theorem Sim.ret (r : ρ) : Sim r (.ret r) none := rfl
theorem Sim.next {r : ρ} {st : LoopSt} {p} (h : viewSt st = p) : Sim r (.next st) (some p) := ⟨st, Or.inl rfl, h⟩
theorem Sim.cont {r : ρ} {st : LoopSt} {p} (h : viewSt st = p) : Sim r (.cont st) (some p) := ⟨st, Or.inr rfl, h⟩

/-- a loop whose body simulates `Keyring.stepLine` on the viewed state simulates `Keyring.parseLines` -/
theorem forIn_parse (f : Str → LoopSt → Flow ρ LoopSt LoopSt) (r : ρ)
    (hf : ∀ line st, Sim r (f line st) (Kestrel.Keyring.stepLine (viewSt st) line)) :
    ∀ (ls : List Str) (st : LoopSt),
      match Kestrel.Keyring.parseLines (viewSt st) ls with
      | none => (RsStr.forIn ls f st : Flow ρ κ LoopSt) = .ret r
      | some p => ∃ st', (RsStr.forIn ls f st : Flow ρ κ LoopSt) = .next st' ∧ viewSt st' = p
  | [], st => ⟨st, rfl, rfl⟩
  | l :: ls, st => by
    have h := hf l st
    rw [Kestrel.Keyring.parseLines, forIn_cons]
    cases hs : Kestrel.Keyring.stepLine (viewSt st) l with
    | none => rw [hs] at h; simp only [Sim] at h; simp only [h]
    | some p =>
      rw [hs] at h
      obtain ⟨st', h1, h2⟩ := h
      have ih := forIn_parse (κ := κ) f r hf ls st'
      rw [h2] at ih
      rcases h1 with h1 | h1 <;> simp only [h1] <;> exact ih

/-- what remains of `parse_config` after the loop, against the end of `Keyring.parse` -/
def SimEnd (o : Except KeyringError (List Key)) (m : Option (List Kestrel.Keyring.Key)) : Prop :=
  match m with
  | none => o = .error .ParseConfig
  | some ks => ∃ keys, o = .ok keys ∧ keys.map viewKey = ks

/-- closes a goal `Sim ..` once the generated side has been evaluated; `kr_simp` evaluates it (unfolding the helper
    functions and named constants of the source, which are `@[simp]`) -/
macro "kr_simp" : tactic =>
  `(tactic| simp [-String.reduceToList, RsStr.starts_with, RsStr.trim, RsStr.retain, Kestrel.Keyring.startsWith, starts_with_char_eq, RsStr.is_empty,
      split_once_char_eq, viewSt, *])
macro "sim_done" : tactic =>
  `(tactic| first
    | exact Sim.ret _ | exact Sim.cont rfl | exact Sim.next rfl
    | (kr_simp; first | exact Sim.ret _ | exact Sim.cont rfl | exact Sim.next rfl))

theorem parse_config_shape :
    ∃ (f : Str → LoopSt → Flow (Except KeyringError (List Key)) LoopSt LoopSt)
      (K : LoopSt → Flow (Except KeyringError (List Key)) Empty (Except KeyringError (List Key))),
      (∀ config, Keyring.parse_config config =
        RsStr.run (Flow.bind (RsStr.forIn (RsStr.lines config) f (false, [], none, none, none)) K)) ∧
      (∀ line st, Sim (.error .ParseConfig) (f line st) (Kestrel.Keyring.stepLine (viewSt st) line)) ∧
      (∀ st, SimEnd (RsStr.run (K st))
        (if !(viewSt st).found then none else (Kestrel.Keyring.addKey (viewSt st)).map (·.keys))) := by
  refine ⟨_, _, fun _ => rfl, ?_, ?_⟩
  · intro line st
    obtain ⟨found, keys, p, s, n⟩ := st
    unfold Kestrel.Keyring.stepLine
    simp only [RsStr.starts_with, RsStr.trim, RsStr.retain, Kestrel.Keyring.startsWith, starts_with_char_eq, RsStr.is_empty,
      split_once_char_eq]
    have hname := valid_key_name_parsed line
    generalize Kestrel.Keyring.trim (List.filter (fun c => c != '\t') line) = cl at hname ⊢
    by_cases hK : "[Key]".toList.isPrefixOf cl = true
    · simp only [hK, if_true]
      cases found with
      | false => sim_done
      | true =>
        -- a section is open: the model adds the key; the code does the same after tests of its own (which `add_key` repeats)
        have hv := add_key_view keys n p s true
        have hf : (viewSt (true, keys, p, s, n)).found = true := rfl
        simp only [hf, if_true]
        cases h : Kestrel.Keyring.addKey (viewSt (true, keys, p, s, n)) with
        | none =>
          simp only [h] at hv
          cases n <;> cases p <;> sim_done
        | some st' =>
          simp only [h] at hv
          obtain ⟨keys', e, hv'⟩ := hv
          cases n with
          | none => simp [Kestrel.Keyring.addKey, viewSt] at h
          | some n' =>
            cases p with
            | none => simp [Kestrel.Keyring.addKey, viewSt] at h
            | some p' =>
              simp only [e, Option.isNone_some, Bool.false_eq_true, if_false, propagate_ok, bind_next]
              exact Sim.cont hv'
    · simp only [hK, if_false, Bool.false_eq_true]
      by_cases hN : "Name".toList.isPrefixOf cl = true
      · simp only [hN, if_true]
        cases found with
        | false => sim_done
        | true =>
          cases n with
          | some _ => sim_done
          | none =>
            cases h : Kestrel.Keyring.splitOnceEq cl with
            | none => sim_done
            | some ab =>
              obtain ⟨a, v⟩ := ab
              have hn := hname a v h
              by_cases hv : Kestrel.Keyring.validParsedName (Kestrel.Keyring.trim v) = true <;> sim_done
      · simp only [hN, if_false, Bool.false_eq_true]
        by_cases hP : "PublicKey".toList.isPrefixOf cl = true
        · simp only [hP, if_true]
          cases found with
          | false => sim_done
          | true =>
            cases p with
            | some _ => sim_done
            | none =>
              cases h : Kestrel.Keyring.splitOnceEq cl with
              | none => sim_done
              | some ab =>
                obtain ⟨a, v⟩ := ab
                have hm := pk_try_from_map_err (Kestrel.Keyring.trim v) KeyringError.ParseConfig
                by_cases hv : Kestrel.Keyring.encodedPkOk (Kestrel.Keyring.trim v) = true <;> sim_done
        · simp only [hP, if_false, Bool.false_eq_true]
          by_cases hS : "PrivateKey".toList.isPrefixOf cl = true
          · simp only [hS, if_true]
            cases found with
            | false => sim_done
            | true =>
              cases s with
              | some _ => sim_done
              | none =>
                cases h : Kestrel.Keyring.splitOnceEq cl with
                | none => sim_done
                | some ab =>
                  obtain ⟨a, v⟩ := ab
                  have hm := sk_try_from_map_err (Kestrel.Keyring.trim v) KeyringError.ParseConfig
                  by_cases hv : Kestrel.Keyring.encodedSkOk (Kestrel.Keyring.trim v) = true <;> sim_done
          · simp only [hS, if_false, Bool.false_eq_true]
            by_cases hC : ("#".toList.isPrefixOf cl || cl.isEmpty) = true
            · simp only [hC, if_true, bind_cont]
              sim_done
            · simp only [hC, if_false, bind_ret, Bool.false_eq_true]
              sim_done
  · intro st
    obtain ⟨found, keys, p, s, n⟩ := st
    cases found with
    | false => exact (rfl : _ = Except.error KeyringError.ParseConfig)
    | true =>
      have hv := add_key_view keys n p s true
      have hf : (!(viewSt (true, keys, p, s, n)).found) = false := rfl
      simp only [hf, Bool.false_eq_true, if_false, Bool.not_true]
      cases h : Kestrel.Keyring.addKey (viewSt (true, keys, p, s, n)) with
      | none =>
        rw [h] at hv
        simp only [hv, propagate_error, bind_ret, bind_next, run_ret, Option.map_none]
        exact (rfl : _ = Except.error KeyringError.ParseConfig)
      | some st' =>
        rw [h] at hv
        obtain ⟨keys', e, hv'⟩ := hv
        simp only [e, propagate_ok, bind_next, run_next, Option.map_some]
        exact ⟨keys', rfl, by rw [← hv']; rfl⟩

/-! ### `parse_config`, `new` -/

theorem parse_config_sim (text : Str) : SimEnd (Keyring.parse_config text) (Kestrel.Keyring.parse text) := by
  obtain ⟨f, K, hshape, hstep, hend⟩ := parse_config_shape
  rw [hshape]
  unfold Kestrel.Keyring.parse
  have hl := forIn_parse (κ := Empty) f _ hstep (RsStr.lines text) (false, [], none, none, none)
  have h0 : viewSt (false, [], none, none, none) = {} := rfl
  rw [h0] at hl
  unfold RsStr.lines at hl ⊢
  cases h : Kestrel.Keyring.parseLines {} (Kestrel.Keyring.lines text) with
  | none =>
    rw [h] at hl
    simp only [hl, bind_ret, run_ret]
    exact (rfl : _ = Except.error KeyringError.ParseConfig)
  | some pst =>
    rw [h] at hl
    obtain ⟨st', e, hv⟩ := hl
    have := hend st'
    rw [hv] at this
    simp only [e, bind_next]
    exact this

theorem new_eq (text : Str) : Keyring.new text =
    match Keyring.parse_config text with
    | .ok keys => .ok ⟨keys⟩
    | .error e => .error e := by
  unfold Keyring.new
  cases Keyring.parse_config text <;> rfl

theorem new_sim (text : Str) :
    match Kestrel.Keyring.parse text with
    | none => Keyring.new text = .error .ParseConfig
    | some ks => ∃ kr, Keyring.new text = .ok kr ∧ viewKeys kr = ks := by
  have h := parse_config_sim text
  rw [new_eq]
  cases hp : Kestrel.Keyring.parse text with
  | none => rw [hp] at h; simp only [SimEnd] at h; simp only [h]
  | some ks =>
    rw [hp] at h
    obtain ⟨keys, e, hk⟩ := h
    simp only [e]
    exact ⟨⟨keys⟩, rfl, hk⟩

/-! ### lookups -/

theorem get_key_eq (kr : Keyring) (name : Str) :
    (Keyring.get_key kr name).map viewKey = Kestrel.Keyring.getKey (viewKeys kr) name := by
  unfold Keyring.get_key Kestrel.Keyring.getKey viewKeys
  first
  | -- `iter().find(..)`
    (rw [List.find?_map]; rfl)
  | -- the same function as a `for` loop with an early `return`
    (rw [forIn_first _ (fun k => k.name == name) (fun k => some k)
      (by intro k; by_cases h : (k.name == name) = true <;> simp [h]), List.find?_map]
     have e : ((fun x : Kestrel.Keyring.Key => x.name == name) ∘ viewKey) = fun k => k.name == name := rfl
     rw [e]
     cases List.find? (fun k => k.name == name) kr.keys <;> rfl)

theorem get_name_from_key_eq (kr : Keyring) (pk : EncodedPk) :
    Keyring.get_name_from_key kr pk = Kestrel.Keyring.getNameFromKey (viewKeys kr) pk._0 := by
  unfold Keyring.get_name_from_key Kestrel.Keyring.getNameFromKey viewKeys
  rw [List.find?_map, Option.map_map]
  have e : ((fun x : Kestrel.Keyring.Key => x.pk == pk._0) ∘ viewKey) = fun k => k.public_key._0 == pk._0 := rfl
  rw [e]
  first
  | -- the function as a `for` loop with an early `return`
    (rw [forIn_first _ (fun k => k.public_key._0 == pk._0) (fun k => some k.name)
      (by intro k; by_cases h : (k.public_key._0 == pk._0) = true <;> simp [h])]
     cases List.find? (fun k => k.public_key._0 == pk._0) kr.keys <;> rfl)
  | -- the same function written as `iter().find(..).map(..)`, or with `if let Some(key) = ..find(..)`
    (simp only [EncodedPk.as_str]
     cases List.find? (fun k => k.public_key._0 == pk._0) kr.keys <;> rfl)

/-! ### stretch: serialize / encode / decode / lock / unlock -/

theorem serialize_key_eq (name : Str) (pk : EncodedPk) (sk : EncodedSk) :
    Keyring.serialize_key name pk sk = Kestrel.Keyring.serializeKey name pk._0 sk._0 := rfl

/-- the scrypt call of `lock_private_key` / `unlock_private_key` with its parameters written out (the named constants of the
    source are `@[simp]`: `simp` turns `SCRYPT_N` … into these literals) -/
theorem kdf_eq (pw salt : Bytes) : RsStr.kc_scrypt pw salt 32768 8 1 32 = Kestrel.Keyring.lockKdf pw salt := rfl

theorem zeros12_eq : List.replicate 12 (0 : UInt8) = zeros 12 := rfl

theorem lock_private_key_eq (sk : RsStr.PrivateKey) (pw salt : Bytes) :
    (Keyring.lock_private_key sk pw salt)._0 = Kestrel.Keyring.lockPrivateKey sk.key pw salt := by
  unfold Keyring.lock_private_key Kestrel.Keyring.lockPrivateKey
  simp [-List.reduceReplicate, kdf_eq, zeros12_eq, Generated.privateKeyVersion, RsStr.kc_chapoly_encrypt_ietf,
    RsStr.PrivateKey.as_bytes, RsStr.b64_encode_to_string, RsStr.unwrap_res]

theorem encode_public_key_eq (pk : RsStr.PublicKey) (h : pk.key.length = 32) :
    (Keyring.encode_public_key pk)._0 = Kestrel.Keyring.encodePk pk.key := by
  unfold Keyring.encode_public_key Kestrel.Keyring.encodePk
  have hs : ((sha256 pk.key).take 4).length = 4 := by rw [List.length_take, sha256_length]; rfl
  have hs' : min 4 (sha256 pk.key).length = 4 := by rw [sha256_length]; rfl
  simp [RsStr.PublicKey.as_bytes, RsStr.kc_sha256, RsStr.b64_encode_to_string, RsStr.unwrap_res, Rs.copyFromSlice,
    h, hs, hs', List.take_of_length_le]

/-- error classes of the model ↦ error constructors of the code (for `decodePk` / `unlockPrivateKey`) -/
def errClass : Kestrel.Keyring.KrErr → KeyringError
  | .pkChecksum => .PublicKeyChecksum
  | .pkLength => .PublicKeyLength
  | .pkFormat => .PublicKeyLength
  | .skDecrypt => .PrivateKeyDecrypt
  | .skLength => .PrivateKeyLength
  | .skFormat => .PrivateKeyFormat

/-- `decode_public_key` on an `EncodedPk` accepted by `try_from` (36 decoded bytes) -/
theorem decode_public_key_eq (s : Str) (b : Bytes) (hd : B64.decode (Kestrel.Keyring.utf8 s) = some b) (hl : b.length = 36) :
    Keyring.decode_public_key ⟨s⟩ =
      match Kestrel.Keyring.decodePk s with
      | .ok k => .ok ⟨k⟩
      | .error e => .error (errClass e) := by
  unfold Keyring.decode_public_key Kestrel.Keyring.decodePk
  have h32 : (b.take 32).length = 32 := by rw [List.length_take, hl]; rfl
  -- (`-String.reduceToList`: see above; the message of `PublicKey::try_from` sits under an `if` that is undecided as long as
  --  its argument is a bound variable, e.g. the component of a pair bound by `let (pk, checksum) = if .. { return .. } else { .. }`)
  by_cases hc : b.drop 32 = (sha256 (b.take 32)).take 4 <;>
    simp [-String.reduceToList, RsStr.b64_decode_to_vec, hd, RsStr.unwrap_res, hl, RsStr.kc_sha256, RsStr.PublicKey.try_from, h32,
      Generated.encodedPkLen, hc, errClass]

/-- `unlock_private_key` on an `EncodedSk` accepted by `try_from` (84 decoded bytes) -/
theorem unlock_private_key_eq (s : Str) (pw b : Bytes) (hd : B64.decode (Kestrel.Keyring.utf8 s) = some b) (hl : b.length = 84) :
    Keyring.unlock_private_key ⟨s⟩ pw =
      match Kestrel.Keyring.unlockPrivateKey s pw with
      | .ok k => .ok ⟨k⟩
      | .error e => .error (errClass e) := by
  unfold Keyring.unlock_private_key Kestrel.Keyring.unlockPrivateKey
  have hct : (b.drop 36).take 48 = b.drop 36 := List.take_of_length_le (by rw [List.length_drop, hl]; decide)
  -- evaluate the named constants, the slice bounds and the length test (both sides with the version bytes written out)
  simp [-List.reduceReplicate, RsStr.b64_decode_to_vec, hd, RsStr.unwrap_res, hl, kdf_eq, zeros12_eq, hct,
    RsStr.kc_chapoly_decrypt_ietf, Generated.privateKeyCtLen, Generated.privateKeyVersion]
  by_cases hv : b.take 4 = [101, 103, 107, 48]
  · simp only [hv, if_true, bind_next]
    cases ho : aeadOpen (Kestrel.Keyring.lockKdf pw ((b.drop 4).take 32)) (zeros 12) [101, 103, 107, 48] (b.drop 36) with
    | none => simp only [map_err_error, propagate_error, bind_ret, run_ret, errClass, not_true_eq_false, if_false]
    | some sk =>
      have hlen := aeadOpen_length _ _ _ _ _ (Kestrel.Keyring.lockKdf_length pw _) (zeros_length 12) ho
      have hsk : sk.length = 32 := by rw [List.length_drop, hl] at hlen; omega
      simp only [map_err_ok, propagate_ok, bind_next, run_next, RsStr.PrivateKey.try_from, hsk, bne_self_eq_false,
        Bool.false_eq_true, if_false, not_true_eq_false]
  · simp only [hv, if_false, bind_ret, run_ret, errClass, not_false_eq_true, if_true]

/-- `new_sim` without a `match` in the statement (usable on concrete texts without the elaborator evaluating the parser) -/
theorem new_of_parse_none (text : Str) (h : Kestrel.Keyring.parse text = none) : Keyring.new text = .error .ParseConfig := by
  have := new_sim text; rw [h] at this; exact this

theorem new_of_parse_some (text : Str) (ks : List Kestrel.Keyring.Key) (h : Kestrel.Keyring.parse text = some ks) :
    ∃ kr, Keyring.new text = .ok kr ∧ viewKeys kr = ks := by
  have := new_sim text; rw [h] at this; exact this

end KeyringSrc
end Kestrel
